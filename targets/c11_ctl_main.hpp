// part of c11_ctl.cpp: history family, single-request grid family, entry point
#pragma once

struct Ctx {
  Pair p;
  Learned L;
  Snap snap, snap2;
  int accepted = 0, rejected_after_accept = 0, coded = 0;
  uint64_t fp = 0;
};

static int legal_pick(int rid, Choice& c, const Model& m) {
  switch (rid) {
    case R_APPLICATION: return cu::APPS[c.irange(0, 2)];
    case R_BITRATE: return cu::gen_bitrate(c, m.channels);
    case R_MAX_BANDWIDTH: return cu::BANDWIDTHS[c.irange(0, 4)];
    case R_BANDWIDTH: { int k = c.irange(0, 5); return k == 5 ? OPUS_AUTO : cu::BANDWIDTHS[k]; }
    case R_COMPLEXITY: return c.irange(0, 10);
    case R_INBAND_FEC: return c.irange(0, 2);
    case R_PACKET_LOSS: return c.irange(0, 100);
    case R_FORCE_CHANNELS: { int k = c.irange(0, 2); return k == 0 ? OPUS_AUTO : k; }
    case R_SIGNAL: { int k = c.irange(0, 2); return k == 0 ? OPUS_AUTO : k == 1 ? OPUS_SIGNAL_VOICE : OPUS_SIGNAL_MUSIC; }
    case R_LSB_DEPTH: return c.irange(8, 24);
    case R_EXPERT_DUR: return c.irange(OPUS_FRAMESIZE_ARG, OPUS_FRAMESIZE_120_MS);
    case R_FORCE_MODE: { int k = c.irange(0, 3); return k == 0 ? OPUS_AUTO : 999 + k; }
    case R_GAIN: return c.irange(-32768, 32767);
    default: return c.irange(0, 1);
  }
}

// One encode call on an encoder-type object; updates the model's run-time knowledge.  plain: fixed 20 ms multitone frame.
static int do_encode(Obj& o, Model& m, Choice& c, Report& rep, bool plain, std::vector<uint8_t>* pkt_out, int* samples_out) {
  int d = plain ? 3 : c.irange(0, 8);
  int fam = plain ? sig::MULTITONE : c.irange(0, sig::NFAMILIES - 1);
  double amp = plain ? 0.5 : (c.irange(0, 3) == 0 ? 1.0 : 0.05 + 0.3 * c.irange(0, 3));
  int api = plain ? 0 : c.irange(0, 1);
  bool tight = plain ? false : c.chance(30);
  bool odd = plain ? false : c.chance(20);
  uint32_t seed = plain ? 7 : c.byte();
  int frame_size = cu::frame_samples(m.Fs, d);
  if (odd) { static const int O[6] = {0, -1, 1, 3, 5, 7}; int k = c.irange(0, 5); frame_size = k < 2 ? (k == 0 ? m.Fs / 400 - 1 : 0) : O[k] * (m.Fs / 400) + (k == 2 ? m.Fs / 800 : 0); }
  int eff = effective_frame(m.Fs, frame_size, m.expert);
  // F15: a packet of several frames (> 20 ms outside SILK-only mode, > 60 ms always) coded while a stereo stream moves to mono in
  // SILK/hybrid mode overwrites the forced-channels setting of that stream.  Class excluded: such packets on encoders with a
  // two-channel stream left on automatic channel selection (low-delay, surround and ambisonics encoders are MDCT-only from
  // their first frame and cannot take that path; a forced MDCT mode can be preceded by SILK frames, so it does not protect).
  if (eff > m.Fs / 50 && m.coupled > 0 && m.force_ch == OPUS_AUTO && m.mapping_type == 0 && m.application != OPUS_APPLICATION_RESTRICTED_LOWDELAY &&
      rep.exclude("F15")) {
    frame_size = m.Fs / 50; eff = effective_frame(m.Fs, frame_size, m.expert);
  }
  int maxb = tight ? c.irange(1, 80) : (is_ms(m.kind) ? std::min(1500 * m.streams, 24000) : 4000);
  int n = frame_size > 0 ? frame_size : 0; if (n > 6000) n = 6000;
  std::vector<float> sigf32; sig::generate(fam, seed, m.Fs, m.channels, n, amp, sigf32);
  HeapBuf<float> pf(sigf32.size()); for (size_t i = 0; i < sigf32.size(); i++) pf[i] = sigf32[i];
  HeapBuf<opus_int16> pi(sigf32.size());
  if (api == 1) { std::vector<opus_int16> t; sig::to_int16(sigf32, t); for (size_t i = 0; i < t.size(); i++) pi[i] = t[i]; }
  HeapBuf<unsigned char> out(maxb);
  int r;
  switch (m.kind) {
    case K_ENC: r = api ? opus_encode(o.enc, pi.p, frame_size, out.p, maxb) : opus_encode_float(o.enc, pf.p, frame_size, out.p, maxb); break;
    case K_MSENC: case K_SURENC: r = api ? opus_multistream_encode(o.mse, pi.p, frame_size, out.p, maxb) : opus_multistream_encode_float(o.mse, pf.p, frame_size, out.p, maxb); break;
    default: r = api ? opus_projection_encode(o.pe, pi.p, frame_size, out.p, maxb) : opus_projection_encode_float(o.pe, pf.p, frame_size, out.p, maxb); break;
  }
  rep.count();
  rep.note("encode(%d samples, expert %d -> %d, buffer %d, %s) = %d", frame_size, m.expert, eff, maxb, sig::FAMILY_NAME[fam], r);
  const char* C = cls(m.kind);
  if (eff < 0) {
    if (r != OPUS_BAD_ARG) return rep.fail(sigf("c11:encode-frame-size-verdict:%s", C).c_str(), "%s: encode of %d samples at Fs %d with frame-duration setting %d returned %d, expected OPUS_BAD_ARG", KIND_NAME[m.kind], frame_size, m.Fs, m.expert, r);
    rep.label("encode-bad-frame-size");
    return 0;
  }
  m.coded_since_reset = true;
  bool ok = r > 0 || (tight && r == OPUS_BUFFER_TOO_SMALL);
  if (!ok) return rep.fail(sigf("c11:encode-status:%s", C).c_str(), "%s: encode of %d samples (codes %d) with a %d-byte buffer returned %d", KIND_NAME[m.kind], frame_size, eff, maxb, r);
  if (m.kind == K_ENC) {
    opus_uint32 fr = 0; opus_encoder_ctl(o.enc, OPUS_GET_FINAL_RANGE(&fr));
    if (r > 0) {
      int ns = opus_packet_get_nb_samples(out.p, r, m.Fs);
      if (ns != eff) return rep.fail("c11:duration-not-honoured:enc", "packet of %d samples for a request of %d (frame size %d, duration setting %d)", ns, eff, frame_size, m.expert);
      int spf = opus_packet_get_samples_per_frame(out.p, m.Fs);
      if (fr != 0) { m.prev_fs.clear(); m.prev_fs.insert(spf); m.first_state = 0; }
      else { m.prev_fs.insert(spf); if (m.first_state == 1) m.first_state = 2; }
    } else {
      for (int k = 0; k < 6; k++) m.prev_fs.insert(cu::DUR400[k] * (m.Fs / 400));
      if (m.first_state == 1) m.first_state = 2;
    }
  }
  if (r > 0) { rep.label("encode-ok"); if (eff > m.Fs / 50) rep.label("encode-multiframe"); } else rep.label("encode-buffer-too-small");
  if (pkt_out && r > 0) pkt_out->assign(out.p, out.p + r);
  if (samples_out) *samples_out = eff;
  return 0;
}

// One decode call on a decoder-type object; the helper encoder supplies the packet.
static int do_decode(Pair& p, Choice& c, Report& rep, bool plain) {
  Model& m = p.m; Obj& o = p.o;
  Model hm; hm.kind = p.helper.kind; hm.Fs = m.Fs; hm.channels = m.channels; hm.streams = m.streams; hm.coupled = m.coupled; hm.force_ch = 1;   // helper state is irrelevant
  hm.prev_fs.insert(0);
  std::vector<uint8_t> pkt; int samples = 0;
  bool lost = plain ? false : c.chance(40);
  Choice z(nullptr, 0);
  if (do_encode(p.helper, hm, z, rep, true, &pkt, &samples)) return 1;
  if (pkt.empty()) return rep.fail("c11:helper-encode", "helper encoder produced nothing");
  int cap = m.Fs * 120 / 1000;
  int fsz = lost ? samples : cap;
  HeapBuf<float> pcm((size_t)fsz * m.channels);
  HeapBuf<unsigned char> hp(pkt.size()); memcpy(hp.p, pkt.data(), pkt.size());
  const unsigned char* data = lost ? nullptr : hp.p; int len = lost ? 0 : (int)pkt.size();
  int r;
  if (m.kind == K_DEC) r = opus_decode_float(o.dec, data, len, pcm.p, fsz, 0);
  else if (m.kind == K_MSDEC) r = opus_multistream_decode_float(o.msd, data, len, pcm.p, fsz, 0);
  else r = opus_projection_decode_float(o.pd, data, len, pcm.p, fsz, 0);
  rep.count();
  rep.note("decode(%s, %d bytes) = %d", lost ? "lost" : "packet", len, r);
  if (r != samples) return rep.fail(sigf("c11:decode-status:%s", cls(m.kind)).c_str(), "%s: decode of a valid %d-sample packet (%d bytes, lost=%d) returned %d", KIND_NAME[m.kind], samples, len, lost, r);
  opus_int32 v = -1; o.getp(OPUS_GET_LAST_PACKET_DURATION_REQUEST, &v);
  if (v != samples) return rep.fail(sigf("c11:last-packet-duration:%s", cls(m.kind)).c_str(), "LAST_PACKET_DURATION %d after decoding %d samples", v, samples);
  if (m.kind == K_DEC && !lost) { o.getp(OPUS_GET_BANDWIDTH_REQUEST, &v); if (v != opus_packet_get_bandwidth(hp.p)) return rep.fail("c11:decoder-bandwidth-status:dec", "GET_BANDWIDTH %d, packet %d", v, opus_packet_get_bandwidth(hp.p)); }
  rep.label(lost ? "decode-plc" : "decode-ok");
  return 0;
}

static int expect_code(Report& rep, const Model& m, const char* what, const char* name, int r, int want) {
  if (r == want) return 0;
  return rep.fail(sigf("c11:%s:%s:%s", what, cls(m.kind), name).c_str(), "%s: %s returned %d, expected %d", KIND_NAME[m.kind], name, r, want);
}

// SET request rid with value v: known-finding classes, model expectation, return code, read-back.
static int do_set(Ctx& x, int rid, int v, Report& rep) {
  Model& m = x.p.m; Obj& o = x.p.o;
  const char* C = cls(m.kind);
  bool msenc = is_enc(m.kind) && is_ms(m.kind);
  int stored;
  if (msenc) m.first_state = m.coded_since_reset ? 2 : 1;
  Expect e = expect_set(m, rid, v, stored);
  if (msenc) {
    // F8: the multistream encoder stores any frame-duration value
    if (rid == R_EXPERT_DUR && e == X_BAD && rep.exclude("F8")) return 0;
    // F9: a request forwarded stream by stream that a later stream refuses after earlier ones applied it
    if (rid == R_FORCE_CHANNELS && v == 2 && m.has_mono() && m.has_coupled() && rep.exclude("F9")) return 0;
    if (rid == R_APPLICATION && e == X_OK_OR_BAD && m.streams > 1 && rep.exclude("F9")) return 0;
    // F10: the multistream bitrate getter reports the last per-stream allocation
    if (rid == R_BITRATE && e == X_OK) m.ms_bitrate_is_status = rep.exclude("F10");
  }
  int r = o.seti(REQ[rid].set_req, v); rep.count();
  rep.note("SET_%s(%d) = %d", REQ[rid].name, v, r);
  std::string nm = std::string("SET_") + REQ[rid].name;
  bool accepted = false;
  switch (e) {
    case X_OK: if (r != OPUS_OK) return rep.fail(sigf("c11:rejects-legal:%s:%s", C, nm.c_str()).c_str(), "%s: %s(%d) returned %d", KIND_NAME[m.kind], nm.c_str(), v, r); accepted = true; break;
    case X_BAD:
      if (r == OPUS_OK) return rep.fail(sigf("c11:accepts-illegal:%s:%s", C, nm.c_str()).c_str(), "%s: %s(%d) returned OPUS_OK", KIND_NAME[m.kind], nm.c_str(), v);
      if (r != OPUS_BAD_ARG) return rep.fail(sigf("c11:wrong-error-code:%s:%s", C, nm.c_str()).c_str(), "%s: %s(%d) returned %d, expected OPUS_BAD_ARG", KIND_NAME[m.kind], nm.c_str(), v, r);
      break;
    case X_UNIMPL: if (expect_code(rep, m, "foreign-request-status", nm.c_str(), r, OPUS_UNIMPLEMENTED)) return 1; break;
    case X_OK_OR_BAD:
      if (r != OPUS_OK && r != OPUS_BAD_ARG) return rep.fail(sigf("c11:wrong-error-code:%s:%s", C, nm.c_str()).c_str(), "%s(%d) returned %d", nm.c_str(), v, r);
      accepted = r == OPUS_OK; m.first_state = accepted ? 1 : 0; rep.label(accepted ? "application-change-accepted-after-encode" : "application-change-refused-after-encode");
      break;
  }
  if (accepted) {
    apply_set(m, rid, stored);
    if (rid == R_PHASE_INV && !is_enc(m.kind)) x.L.phinv_was_set = true;
    if (verify(o, m, x.L, rep, "readback", x.snap2)) return 1;
    if (compare_snaps(x.snap, x.snap2, false, m, rep, nm.c_str())) return 1;
    x.accepted++; rep.label("set-accepted");
  } else {
    if (verify(o, m, x.L, rep, "rejected-request-changed-settings", x.snap2)) return 1;
    if (compare_snaps(x.snap, x.snap2, true, m, rep, nm.c_str())) return 1;
    if (x.accepted) x.rejected_after_accept++;
    rep.label(e == X_UNIMPL ? "set-foreign" : "set-rejected");
  }
  std::swap(x.snap, x.snap2);
  return 0;
}

// a request that must be refused with `want` and change nothing
static int refused_step(Ctx& x, Report& rep, int r, int want, const char* what, const char* name) {
  Model& m = x.p.m;
  if (expect_code(rep, m, what, name, r, want)) return 1;
  if (verify(x.p.o, m, x.L, rep, "rejected-request-changed-settings", x.snap2)) return 1;
  if (compare_snaps(x.snap, x.snap2, true, m, rep, name)) return 1;
  std::swap(x.snap, x.snap2);
  if (x.accepted) x.rejected_after_accept++;
  return 0;
}

struct GetterRef { const char* name; int req; };
static const GetterRef ENC_GETTERS[] = {{"GET_APPLICATION", OPUS_GET_APPLICATION_REQUEST}, {"GET_BITRATE", OPUS_GET_BITRATE_REQUEST}, {"GET_VBR", OPUS_GET_VBR_REQUEST},
  {"GET_BANDWIDTH", OPUS_GET_BANDWIDTH_REQUEST}, {"GET_COMPLEXITY", OPUS_GET_COMPLEXITY_REQUEST}, {"GET_INBAND_FEC", OPUS_GET_INBAND_FEC_REQUEST},
  {"GET_PACKET_LOSS_PERC", OPUS_GET_PACKET_LOSS_PERC_REQUEST}, {"GET_DTX", OPUS_GET_DTX_REQUEST}, {"GET_VBR_CONSTRAINT", OPUS_GET_VBR_CONSTRAINT_REQUEST},
  {"GET_FORCE_CHANNELS", OPUS_GET_FORCE_CHANNELS_REQUEST}, {"GET_SIGNAL", OPUS_GET_SIGNAL_REQUEST}, {"GET_LSB_DEPTH", OPUS_GET_LSB_DEPTH_REQUEST},
  {"GET_EXPERT_FRAME_DURATION", OPUS_GET_EXPERT_FRAME_DURATION_REQUEST}, {"GET_PREDICTION_DISABLED", OPUS_GET_PREDICTION_DISABLED_REQUEST},
  {"GET_PHASE_INVERSION_DISABLED", OPUS_GET_PHASE_INVERSION_DISABLED_REQUEST}, {"GET_LOOKAHEAD", OPUS_GET_LOOKAHEAD_REQUEST}, {"GET_SAMPLE_RATE", OPUS_GET_SAMPLE_RATE_REQUEST},
  {"GET_FINAL_RANGE", OPUS_GET_FINAL_RANGE_REQUEST}, {"GET_MAX_BANDWIDTH", OPUS_GET_MAX_BANDWIDTH_REQUEST}, {"GET_IN_DTX", OPUS_GET_IN_DTX_REQUEST}};   // last two: single encoder only
static const GetterRef DEC_GETTERS[] = {{"GET_GAIN", OPUS_GET_GAIN_REQUEST}, {"GET_PHASE_INVERSION_DISABLED", OPUS_GET_PHASE_INVERSION_DISABLED_REQUEST}, {"GET_SAMPLE_RATE", OPUS_GET_SAMPLE_RATE_REQUEST},
  {"GET_BANDWIDTH", OPUS_GET_BANDWIDTH_REQUEST}, {"GET_LAST_PACKET_DURATION", OPUS_GET_LAST_PACKET_DURATION_REQUEST}, {"GET_FINAL_RANGE", OPUS_GET_FINAL_RANGE_REQUEST},
  {"GET_COMPLEXITY", OPUS_GET_COMPLEXITY_REQUEST}, {"GET_PITCH", OPUS_GET_PITCH_REQUEST}};   // last two: single decoder only

static int history_step(Ctx& x, Choice& c, Report& rep) {
  Model& m = x.p.m; Obj& o = x.p.o;
  bool enc = is_enc(m.kind), ms = is_ms(m.kind);
  int t = c.irange(0, 15);
  x.fp = mix(x.fp, t);
  if (t == 15 && m.kind != K_PROJENC) t = 1;
  if (t == 14 && !ms) t = 2;
  if (t <= 6) {
    int rid = c.irange(0, NRID - 1);
    int v;
    if (t <= 2) v = legal_pick(rid, c, m);
    else { int k = c.irange(0, NGRID); v = k == NGRID ? (int)c.u32() : GRID[k]; }
    x.fp = mix(mix(x.fp, rid), (uint32_t)v);
    return do_set(x, rid, v, rep);
  }
  if (t == 7) {   // getter with a NULL pointer
    int n = enc ? (ms ? 18 : 20) : (ms ? 6 : 8);
    const GetterRef& g = (enc ? ENC_GETTERS : DEC_GETTERS)[c.irange(0, n - 1)];
    int r = o.getp(g.req, nullptr); rep.count();
    rep.note("%s(NULL) = %d", g.name, r); rep.label("null-getter"); x.fp = mix(x.fp, g.req);
    return refused_step(x, rep, r, OPUS_BAD_ARG, "null-getter-status", g.name);
  }
  if (t == 8) {   // request number nobody implements
    int req = UNKNOWN_REQ[c.irange(0, NUNKNOWN - 1)];
    int r = o.seti(req, c.irange(0, 3)); rep.count();
    rep.note("unknown request %d = %d", req, r); rep.label("unknown-request"); x.fp = mix(x.fp, (uint32_t)req);
    return refused_step(x, rep, r, OPUS_UNIMPLEMENTED, "unknown-request-status", "unknown");
  }
  if (t == 9) {   // request of another object type
    opus_int32 dummy = 0; void* pp = nullptr; int r; const char* nm;
    int k = c.irange(0, 5);
    if (enc) {
      static const GetterRef F[4] = {{"GET_GAIN", OPUS_GET_GAIN_REQUEST}, {"GET_PITCH", OPUS_GET_PITCH_REQUEST}, {"GET_LAST_PACKET_DURATION", OPUS_GET_LAST_PACKET_DURATION_REQUEST}, {"SET_GAIN", OPUS_SET_GAIN_REQUEST}};
      if (k < 3) { r = o.getp(F[k].req, &dummy); nm = F[k].name; }
      else if (k == 3) { r = o.seti(F[3].req, 256); nm = F[3].name; }
      else if (k == 4) { r = o.state(OPUS_MULTISTREAM_GET_DECODER_STATE_REQUEST, 0, &pp); nm = "GET_DECODER_STATE"; }
      else if (m.kind != K_PROJENC) { r = o.getp(OPUS_PROJECTION_GET_DEMIXING_MATRIX_SIZE_REQUEST, &dummy); nm = "GET_DEMIXING_MATRIX_SIZE"; }
      else { r = o.getp(OPUS_GET_GAIN_REQUEST, &dummy); nm = "GET_GAIN"; }
      if (!ms && k == 4) { r = o.state(OPUS_MULTISTREAM_GET_ENCODER_STATE_REQUEST, 0, &pp); nm = "GET_ENCODER_STATE"; }
    } else {
      static const GetterRef F[4] = {{"GET_BITRATE", OPUS_GET_BITRATE_REQUEST}, {"GET_APPLICATION", OPUS_GET_APPLICATION_REQUEST}, {"GET_LOOKAHEAD", OPUS_GET_LOOKAHEAD_REQUEST}, {"GET_IN_DTX", OPUS_GET_IN_DTX_REQUEST}};
      if (k < 4) { r = o.getp(F[k].req, &dummy); nm = F[k].name; }
      else if (k == 4) { r = o.state(OPUS_MULTISTREAM_GET_ENCODER_STATE_REQUEST, 0, &pp); nm = "GET_ENCODER_STATE"; }
      else if (ms) { r = o.getp(c.boolean() ? OPUS_GET_PITCH_REQUEST : OPUS_GET_COMPLEXITY_REQUEST, &dummy); nm = "GET_PITCH/COMPLEXITY"; }
      else { r = o.state(OPUS_MULTISTREAM_GET_DECODER_STATE_REQUEST, 0, &pp); nm = "GET_DECODER_STATE"; }
    }
    rep.count(); rep.note("foreign %s = %d", nm, r); rep.label("foreign-request"); x.fp = mix(x.fp, k);
    return refused_step(x, rep, r, OPUS_UNIMPLEMENTED, "foreign-request-status", nm);
  }
  if (t >= 10 && t <= 12) {
    if (enc) { if (do_encode(o, m, c, rep, false, nullptr, nullptr)) return 1; }
    else { if (do_decode(x.p, c, rep, false)) return 1; }
    x.coded++;
    if (verify(o, m, x.L, rep, enc ? "encode-changed-setting" : "decode-changed-setting", x.snap)) return 1;
    return 0;
  }
  if (t == 13) {
    int r = o.req0(OPUS_RESET_STATE); rep.count(); rep.note("RESET_STATE = %d", r); rep.label("reset");
    if (expect_code(rep, m, "reset-status", "RESET_STATE", r, OPUS_OK)) return 1;
    m.first_state = 1; m.prev_fs.clear(); m.prev_fs.insert(0); m.coded_since_reset = false;
    return verify(o, m, x.L, rep, "reset-changed-setting", x.snap);
  }
  if (t == 14) {   // per-stream state access
    static const int IDS[6] = {0, -1, 1, 2, INT_MAX, INT_MIN};
    int k = c.irange(0, 7); int id = k < 6 ? IDS[k] : k == 6 ? m.streams - 1 : m.streams;
    bool null = c.chance(40);
    void* pp = nullptr;
    int req = enc ? OPUS_MULTISTREAM_GET_ENCODER_STATE_REQUEST : OPUS_MULTISTREAM_GET_DECODER_STATE_REQUEST;
    int r = o.state(req, id, null ? nullptr : &pp); rep.count();
    bool legal = id >= 0 && id < m.streams && !null;
    rep.note("stream state(%d, %s) = %d", id, null ? "NULL" : "ptr", r); rep.label(legal ? "stream-state-ok" : "stream-state-rejected"); x.fp = mix(x.fp, (uint32_t)id * 2 + null);
    if (!legal) return refused_step(x, rep, r, OPUS_BAD_ARG, "stream-state-status", "GET_STREAM_STATE");
    if (r != OPUS_OK || !pp) return rep.fail(sigf("c11:stream-state-access:%s", cls(m.kind)).c_str(), "state(%d of %d) returned %d", id, m.streams, r);
    opus_int32 v = 0; r = enc ? opus_encoder_ctl((OpusEncoder*)pp, OPUS_GET_SAMPLE_RATE(&v)) : opus_decoder_ctl((OpusDecoder*)pp, OPUS_GET_SAMPLE_RATE(&v));
    if (r != OPUS_OK || v != m.Fs) return rep.fail(sigf("c11:stream-state-access:%s", cls(m.kind)).c_str(), "stream %d sample rate %d (ret %d)", id, v, r);
    return 0;
  }
  // t == 15: projection encoder matrix requests
  {
    opus_int32 sz = -1, gain = -12345;
    int r = o.getp(OPUS_PROJECTION_GET_DEMIXING_MATRIX_SIZE_REQUEST, &sz); rep.count();
    if (r != OPUS_OK || sz != 2 * m.channels * (m.streams + m.coupled)) return rep.fail("c11:demixing-matrix-size", "ret %d size %d channels %d streams %d+%d", r, sz, m.channels, m.streams, m.coupled);
    r = o.getp(OPUS_PROJECTION_GET_DEMIXING_MATRIX_GAIN_REQUEST, &gain); rep.count();
    if (r != OPUS_OK) return rep.fail("c11:demixing-matrix-gain", "ret %d", r);
    int k = c.irange(0, 6);
    x.fp = mix(x.fp, 600 + k);
    rep.label("projection-matrix-request");
    if (k == 0) { HeapBuf<unsigned char> mat(sz); r = o.matrix(mat.p, sz); rep.count(); return expect_code(rep, m, "matrix-status", "GET_DEMIXING_MATRIX", r, OPUS_OK); }
    if (k == 1) { r = o.matrix(nullptr, sz); rep.count(); return refused_step(x, rep, r, OPUS_BAD_ARG, "matrix-status", "GET_DEMIXING_MATRIX(NULL)"); }
    if (k == 2) { r = o.getp(OPUS_PROJECTION_GET_DEMIXING_MATRIX_SIZE_REQUEST, nullptr); rep.count(); return refused_step(x, rep, r, OPUS_BAD_ARG, "null-getter-status", "GET_DEMIXING_MATRIX_SIZE"); }
    if (k == 3) { r = o.getp(OPUS_PROJECTION_GET_DEMIXING_MATRIX_GAIN_REQUEST, nullptr); rep.count(); return refused_step(x, rep, r, OPUS_BAD_ARG, "null-getter-status", "GET_DEMIXING_MATRIX_GAIN"); }
    static const int D[3] = {-1, 1, -2};
    int wrong = k == 6 ? 0 : sz + D[k - 4];
    HeapBuf<unsigned char> mat(wrong > 0 ? wrong : 0);
    r = o.matrix(mat.p, wrong); rep.count();
    return refused_step(x, rep, r, OPUS_BAD_ARG, "matrix-status", "GET_DEMIXING_MATRIX(wrong size)");
  }
}

// object creation + initial defaults (documented defaults of opus_defines.h; complexity and the mono phase-inversion flag are read)
static int start(Ctx& x, const Cfg& g, Report& rep) {
  if (create_pair(g, x.p, rep)) return 1;
  Model& m = x.p.m; Obj& o = x.p.o;
  m.prev_fs.insert(0);
  opus_int32 v = -1;
  if (is_enc(m.kind) || m.kind == K_DEC) {
    int r = o.getp(OPUS_GET_COMPLEXITY_REQUEST, &v);
    if (r != OPUS_OK || v < 0 || v > 10) return rep.fail(sigf("c11:initial-default:%s:GET_COMPLEXITY", cls(m.kind)).c_str(), "ret %d value %d", r, v);
    m.complexity = v;
  }
  int r = o.getp(OPUS_GET_PHASE_INVERSION_DISABLED_REQUEST, &v);
  bool first_stereo = m.kind == K_ENC || m.kind == K_DEC ? m.channels == 2 : m.coupled > 0;
  if (r != OPUS_OK || !(v == 0 || (v == 1 && !first_stereo))) return rep.fail(sigf("c11:initial-default:%s:GET_PHASE_INVERSION_DISABLED", cls(m.kind)).c_str(), "ret %d value %d (first stream stereo: %d)", r, v, first_stereo);
  m.phinv_dis = v;
  if (is_enc(m.kind) && v != 0) return rep.fail(sigf("c11:initial-default:%s:GET_PHASE_INVERSION_DISABLED", cls(m.kind)).c_str(), "encoder default %d", v);
  return verify(o, m, x.L, rep, "initial-default", x.snap);
}

static Cfg fixed_cfg(int kind, int sel) {
  Cfg g; g.kind = kind; g.Fs = 48000; g.app = sel == 3 ? OPUS_APPLICATION_RESTRICTED_LOWDELAY : OPUS_APPLICATION_AUDIO;
  switch (kind) {
    case K_ENC: case K_DEC: { static const int F[4] = {48000, 48000, 8000, 16000}, CH[4] = {1, 2, 2, 1}; g.Fs = F[sel]; g.channels = CH[sel]; g.coupled = g.channels - 1; break; }
    case K_MSENC: case K_MSDEC: { static const int L[4][2] = {{1, 0}, {2, 1}, {2, 2}, {3, 0}}; g.streams = L[sel][0]; g.coupled = L[sel][1]; g.channels = g.streams + g.coupled;
      for (int i = 0; i < g.channels; i++) g.mapping.push_back((unsigned char)i); break; }
    case K_SURENC: { static const int F[4][2] = {{1, 3}, {1, 6}, {255, 2}, {2, 4}}; g.family = F[sel][0]; g.channels = F[sel][1]; break; }
    default: g.family = 3; g.channels = PROJ_CH[sel]; break;
  }
  return g;
}

static const int NPRE = 3;
static uint64_t grid_enum_count() { return (uint64_t)NKINDS * 4 * NPRE * NRID * NGRID; }
static void grid_enum_case(uint64_t idx, std::vector<uint8_t>& out) {
  out.clear(); out.push_back(1);
  out.push_back((uint8_t)(idx % NKINDS)); idx /= NKINDS;
  out.push_back((uint8_t)(idx % 4)); idx /= 4;
  out.push_back((uint8_t)(idx % NPRE)); idx /= NPRE;
  out.push_back((uint8_t)(idx % NRID)); idx /= NRID;
  out.push_back((uint8_t)(idx % NGRID));
}
extern "C" uint64_t vp_enum_count() { return grid_enum_count() + create_enum_count(); }
extern "C" void vp_enum_case(uint64_t idx, std::vector<uint8_t>& out) {
  // interleave so that a strided slice covers both families
  uint64_t a = grid_enum_count(), b = create_enum_count();
  if (idx < b * 2) { if (idx & 1) create_enum_case(idx / 2, out); else grid_enum_case(idx / 2, out); }
  else grid_enum_case(idx - b, out);
}

int vp_case(Choice& c, Report& rep) {
  int family = c.irange(0, 2);
  if (family == 2) { rep.label("family:create"); return create_family(c, rep); }
  Ctx x;
  if (family == 1) {
    int kind = c.irange(0, NKINDS - 1), sel = c.irange(0, 3), pre = c.irange(0, NPRE - 1), rid = c.irange(0, NRID - 1), vi = c.irange(0, NGRID - 1);
    rep.label("family:grid");
    Cfg g = fixed_cfg(kind, sel);
    rep.note("grid: %s cfg %d (Fs %d ch %d app %d) pre=%d SET_%s(%d)", KIND_NAME[kind], sel, g.Fs, g.channels, g.app, pre, REQ[rid].name, GRID[vi]);
    if (start(x, g, rep)) return 1;
    Choice z(nullptr, 0);
    if (pre >= 1) {
      if (is_enc(kind)) { if (do_encode(x.p.o, x.p.m, z, rep, true, nullptr, nullptr)) return 1; } else { if (do_decode(x.p, z, rep, true)) return 1; }
      if (verify(x.p.o, x.p.m, x.L, rep, is_enc(kind) ? "encode-changed-setting" : "decode-changed-setting", x.snap)) return 1;
    }
    if (pre == 2) {
      if (x.p.o.req0(OPUS_RESET_STATE) != OPUS_OK) return rep.fail("c11:reset-status", "RESET_STATE failed");
      x.p.m.first_state = 1; x.p.m.prev_fs.clear(); x.p.m.prev_fs.insert(0); x.p.m.coded_since_reset = false;
      if (verify(x.p.o, x.p.m, x.L, rep, "reset-changed-setting", x.snap)) return 1;
    }
    if (do_set(x, rid, GRID[vi], rep)) return 1;
    rep.fingerprint(mix(mix(mix(kind * 4 + sel, pre), rid), vi));
    return 0;
  }
  rep.label("family:history");
  int kind = c.irange(0, NKINDS - 1);
  Cfg g = gen_cfg(c, kind);
  rep.labelf("kind:%s", KIND_NAME[kind]);
  rep.note("%s Fs=%d channels=%d app=%d streams=%d coupled=%d family=%d", KIND_NAME[kind], g.Fs, g.channels, g.app, g.streams, g.coupled, g.family);
  if (start(x, g, rep)) return 1;
  x.fp = mix(mix(kind, g.Fs), mix(g.channels * 16 + g.streams, g.app));
  int nops = c.irange(0, 60);
  for (int i = 0; i < nops && !c.exhausted(); i++) {
    if (history_step(x, c, rep)) return 1;
  }
  if (x.rejected_after_accept >= 1 && x.coded >= 1) { rep.nontrivial(); rep.label("nontrivial-history"); }
  rep.fingerprint(x.fp);
  return 0;
}
