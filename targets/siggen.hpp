// Seeded signal families (DESIGN.md section 3).  All deterministic functions of
// (family, seed, parameters): no rand(), no clock.
#pragma once
#include <cmath>
#include <cstdint>
#include <vector>
#include "vp.hpp"

namespace sig {

enum Family { SILENCE = 0, DC, SQUARE, MULTITONE, SWEEP, SPEECHLIKE, NOISE, CLICKS, TONE_PAIR, NFAMILIES };
static const char* const FAMILY_NAME[] = {"silence", "dc", "square", "multitone", "sweep", "speechlike", "noise", "clicks", "tone-pair"};

// Generates n frames (per channel) of interleaved float audio in [-amp,amp]
// (amp 1.0 = full scale).  For channels==2 the right channel gets a different
// level / phase / content so channel identity is observable.
inline void generate(int family, uint64_t seed, int Fs, int channels, int n, double amp, std::vector<float>& out, int start = 0) {
  out.assign((size_t)n * channels, 0.f);
  vp::Rng rng(seed * 1315423911ull + family);
  const double PI = 3.14159265358979323846;
  double f0 = 80 + rng.unit() * 220;                 // pitch
  double tones[6]; double tph[6]; int nt = 2 + (int)(rng.next() % 4);
  for (int k = 0; k < 6; k++) { tones[k] = 100 * std::pow(2.0, rng.unit() * 6.5); if (tones[k] > 0.45 * Fs) tones[k] = 0.45 * Fs * rng.unit(); tph[k] = rng.unit() * 2 * PI; }
  double lp = 0, lp2 = 0;
  double rgain = 0.3 + 0.5 * rng.unit();
  int click_period = Fs / (4 + (int)(rng.next() % 40));
  vp::Rng nr(seed ^ 0xABCDEF);
  // noise must be position-dependent only through the stream, so generate from 0
  for (int i0 = 0; i0 < start + n; i0++) {
    double t = (double)i0 / Fs;
    double l = 0, r = 0;
    switch (family) {
      case SILENCE: break;
      case DC: l = 0.5; r = -0.25; break;
      case SQUARE: l = ((i0 / (Fs / 200 + 1)) & 1) ? 1.0 : -1.0; r = ((i0 / (Fs / 310 + 1)) & 1) ? -1.0 : 1.0; break;
      case MULTITONE:
        for (int k = 0; k < nt; k++) { l += std::sin(2 * PI * tones[k] * t + tph[k]) / nt; r += std::sin(2 * PI * tones[k] * 1.07 * t + tph[k] + 1.0) / nt; }
        break;
      case SWEEP: { double dur = 2.0; double ph = 2 * PI * 50 * dur / std::log(0.4 * Fs / 50) * (std::exp(std::fmod(t, dur) / dur * std::log(0.4 * Fs / 50)) - 1); l = std::sin(ph); r = std::sin(ph * 0.5); break; }
      case SPEECHLIKE: {
        // harmonic source with formant-like envelope, voiced/unvoiced alternation at ~4 Hz
        double seg = std::fmod(t * 4.0, 1.0);
        bool voiced = seg < 0.7;
        double env = 0.5 - 0.5 * std::cos(2 * PI * seg);
        double v = 0;
        if (voiced) { for (int h = 1; h <= 20 && h * f0 < 0.45 * Fs; h++) { double fr = h * f0; double a = 1.0 / (1 + std::pow((fr - 500) / 400, 2)) + 0.5 / (1 + std::pow((fr - 1500) / 500, 2)) + 0.2 / (1 + std::pow((fr - 2500) / 600, 2)); v += a * std::sin(2 * PI * fr * t * (1 + 0.02 * std::sin(2 * PI * 3 * t))); } v *= 0.25; }
        else { v = 0.15 * nr.sym(); }
        l = env * v; r = 0.6 * env * v;
        break; }
      case NOISE: { double w = nr.sym(); lp += 0.3 * (w - lp); lp2 += 0.05 * (nr.sym() - lp2); l = lp * 1.5; r = lp2 * 4.0; break; }
      case CLICKS: l = (i0 % click_period) == 0 ? 1.0 : ((i0 % click_period) == 1 ? -0.5 : 0); r = ((i0 + click_period / 2) % click_period) == 0 ? -1.0 : 0; break;
      case TONE_PAIR: l = std::sin(2 * PI * 440.0 * t); r = rgain * std::sin(2 * PI * 1000.0 * t); break;
    }
    if (i0 < start) continue;
    int i = i0 - start;
    if (channels == 1) out[i] = (float)(amp * l);
    else { out[(size_t)i * channels] = (float)(amp * l); out[(size_t)i * channels + 1] = (float)(amp * r); for (int c = 2; c < channels; c++) out[(size_t)i * channels + c] = (float)(amp * ((c & 1) ? r : l) * (1.0 - 0.1 * c)); }
  }
}

inline void to_int16(const std::vector<float>& in, std::vector<opus_int16>& out) {
  out.resize(in.size());
  for (size_t i = 0; i < in.size(); i++) { double v = std::floor(in[i] * 32768.0 + 0.5); if (v > 32767) v = 32767; if (v < -32768) v = -32768; out[i] = (opus_int16)v; }
}

}  // namespace sig
