// C11 (honouring): settings in force before the first frame bind every packet
// that carries coded audio: duration, forced channel count, bandwidth cap
// (forced or maximum bandwidth, input Nyquist limit, MDCT medium->wide
// exception), MDCT-only for RESTRICTED_LOWDELAY and for frames < 10 ms.  A
// forced channel count changed mid-stream shows within three packets.
// Objects: single encoder (most cases), plain multistream, surround and
// projection encoders (every stream of every packet is inspected).
// Oracle: RFC 6716 framing model (engine/rfc_framing.hpp) applied to the
// produced packets; no library parser is trusted.
#include "vp.hpp"
#include "rfc_framing.hpp"
#include "common.hpp"
#include "codec_util.hpp"
#include "siggen.hpp"

using namespace vp;

const TargetInfo vp_info = {"c11_honour", 8, 160};

static const int BWVAL[5] = {OPUS_BANDWIDTH_NARROWBAND, OPUS_BANDWIDTH_MEDIUMBAND, OPUS_BANDWIDTH_WIDEBAND, OPUS_BANDWIDTH_SUPERWIDEBAND, OPUS_BANDWIDTH_FULLBAND};
static int nyquist_bw(int Fs) { return Fs <= 8000 ? 0 : Fs <= 12000 ? 1 : Fs <= 16000 ? 2 : Fs <= 24000 ? 3 : 4; }   // index into BWVAL

struct Bind {
  int Fs, dur400;          // requested packet duration in 2.5 ms units
  int forced_ch;           // 0 = not forced / not applicable, else 1 or 2 (for the stream inspected)
  int cap;                 // bandwidth cap index 0..4 (already includes the Nyquist limit)
  bool celt_only;          // RESTRICTED_LOWDELAY or < 10 ms
  bool check_bw;
};

// Checks one single-stream packet (standard or self-delimited framing).  Returns 0 ok, 1 failed; *consumed = bytes used;
// *coded = packet carries at least one non-empty frame.
static int check_stream_packet(const uint8_t* d, int len, bool self_delim, const Bind& b, Report& rep, const char* who, int* consumed, bool* coded, int* stereo_out) {
  rfc::Parsed p = rfc::parse(d, len, self_delim);
  VP_REQUIRE(p.ok, "c11:produced-packet-invalid", "%s: packet of %d bytes (toc 0x%02x) violates RFC 6716 framing", who, len, len ? d[0] : 0);
  rfc::TocInfo t = rfc::toc_info(p.toc);
  *consumed = p.consumed;
  bool any = false;
  for (int i = 0; i < p.count; i++) if (p.size[i] > 0) any = true;
  *coded = any;
  if (stereo_out) *stereo_out = t.stereo;
  if (!any) return 0;      // DTX / no coded audio: not bound by the settings
  int dur = p.count * t.dur_400;
  VP_REQUIRE(dur == b.dur400, "c11:duration-not-honoured", "%s: packet lasts %d x 2.5 ms (toc 0x%02x, %d frames), requested %d x 2.5 ms at Fs %d", who, dur, p.toc, p.count, b.dur400, b.Fs);
  if (b.forced_ch) VP_REQUIRE(t.stereo + 1 == b.forced_ch, "c11:forced-channels-not-honoured", "%s: packet codes %d channel(s), forced %d (toc 0x%02x)", who, t.stereo + 1, b.forced_ch, p.toc);
  if (b.check_bw) {
    int cap = b.cap;
    if (t.mode == rfc::CELT && cap == 1) { cap = 2; if ((int)t.bw == 2) rep.label("celt-medium-coded-as-wide"); }   // the MDCT layer has no medium band
    VP_REQUIRE((int)t.bw <= cap, "c11:bandwidth-cap-exceeded", "%s: packet bandwidth %d (mode %d, toc 0x%02x) exceeds the cap %d (Fs %d)", who, (int)t.bw, (int)t.mode, p.toc, b.cap, b.Fs);
  }
  if (b.celt_only) VP_REQUIRE(t.mode == rfc::CELT, "c11:mdct-only-not-honoured", "%s: mode %d packet (toc 0x%02x) for %s", who, (int)t.mode, p.toc, b.dur400 < 4 ? "a frame shorter than 10 ms" : "RESTRICTED_LOWDELAY");
  return 0;
}

static int single_case(Choice& c, Report& rep) {
  cu::EncCfg e = cu::gen_cfg(c);
  int d = c.irange(0, 8); d = (d + 3) % 9;                       // 0 -> 20 ms
  int expert_mode = c.irange(0, 2);                              // 0: frame size argument, 1: expert duration + same size, 2: expert duration + larger buffer of samples
  int npk = 1 + c.irange(0, 23);
  int fam = (c.irange(0, sig::NFAMILIES - 1) + sig::SPEECHLIKE) % sig::NFAMILIES;
  double amp = 0.05 + 0.3 * c.irange(0, 3);
  uint32_t seed = c.byte();
  bool tight = c.chance(40);
  int tightb = tight ? c.irange(3, 200) : 0;
  int api = c.irange(0, 1);
  // mid-stream channel-forcing changes (stereo encoders only)
  int nchg = e.ch == 2 && c.chance(90) ? 1 + c.irange(0, 1) : 0;
  int chg_at[2] = {0, 0}, chg_to[2] = {0, 0};
  for (int i = 0; i < nchg; i++) { chg_at[i] = c.irange(1, 20); chg_to[i] = 1 + c.irange(0, 1); }
  if (e.force_channels != OPUS_AUTO && e.force_channels > e.ch) e.force_channels = e.ch;
  // class "stereo hand-over in multi-frame packets": a stream that really is coded in stereo by the speech layer (forced to 2 channels,
  // speech-layer rates), packets assembled from several frames, then the forced count changed to 1 (and possibly back) mid-stream
  if (c.chance(26)) {
    e.ch = 2; e.force_channels = 2; e.Fs = c.pick((const int[]){48000, 16000, 24000, 48000}); e.app = c.boolean() ? OPUS_APPLICATION_VOIP : OPUS_APPLICATION_AUDIO;
    e.bitrate = c.irange(16000, 64000); e.signal = OPUS_SIGNAL_VOICE; e.force_mode = c.pick((const int[]){(int)OPUS_AUTO, cu::MODE_SILK, cu::MODE_HYBRID});
    if (e.force_mode == cu::MODE_HYBRID && e.Fs < 24000) e.force_mode = cu::MODE_SILK;
    e.bandwidth = OPUS_AUTO; e.max_bandwidth = OPUS_BANDWIDTH_FULLBAND; e.dtx = 0; e.vbr = 1; e.fec = 0;
    d = c.pick((const int[]){4, 5, 6, 7, 8}); expert_mode = 0; tight = false; tightb = 0;
    nchg = 1 + c.irange(0, 1); chg_at[0] = c.irange(3, 8); chg_to[0] = 1; chg_at[1] = chg_at[0] + c.irange(4, 8); chg_to[1] = 2;
    npk = chg_at[nchg - 1] + 6;
    rep.label("class:stereo-hand-over-multiframe");
  }
  // F21: while SILK DTX is active the stereo->mono hand-over never completes (DTX frames return before the channel history is
  // updated), so coded stereo packets keep appearing until the next DTX refresh.  Class excluded: mid-stream changes of the forced
  // channel count on encoders with DTX enabled.
  if (nchg && e.dtx && rep.exclude("F21")) nchg = 0;

  int dur400 = cu::DUR400[d];
  int frame_size = dur400 * (e.Fs / 400);
  int pass_size = frame_size;
  if (expert_mode) { e.expert_dur = OPUS_FRAMESIZE_2_5_MS + d; if (expert_mode == 2 && d < 8) pass_size = cu::DUR400[d + 1 + (d < 7 ? c.irange(0, 1) : 0)] * (e.Fs / 400); }
  cu::Enc enc; int err = 0;
  enc.p = opus_encoder_create(e.Fs, e.ch, e.app, &err);
  VP_REQUIRE(enc.p && err == OPUS_OK, "c11:create", "create failed %d", err);
  err = cu::apply_cfg(enc.p, e);
  VP_REQUIRE(err == OPUS_OK, "c11:apply-cfg", "legal configuration refused: %d (%s)", err, cu::cfg_str(e).c_str());
  rep.note("single %s dur=%d x2.5ms expert_mode=%d pass=%d packets=%d signal=%s amp=%.2f tight=%d changes=%d", cu::cfg_str(e).c_str(), dur400, expert_mode, pass_size, npk, sig::FAMILY_NAME[fam], amp, tightb, nchg);

  Bind b; b.Fs = e.Fs; b.dur400 = dur400;
  b.forced_ch = e.ch == 1 ? 1 : (e.force_channels == OPUS_AUTO ? 0 : e.force_channels);
  int req = e.bandwidth != OPUS_AUTO ? e.bandwidth - OPUS_BANDWIDTH_NARROWBAND : e.max_bandwidth - OPUS_BANDWIDTH_NARROWBAND;
  b.cap = std::min(req, nyquist_bw(e.Fs)); b.check_bw = true;
  b.celt_only = e.app == OPUS_APPLICATION_RESTRICTED_LOWDELAY || dur400 < 4;
  if (e.bandwidth != OPUS_AUTO) rep.label("forced-bandwidth"); else if (e.max_bandwidth != OPUS_BANDWIDTH_FULLBAND) rep.label("max-bandwidth");
  if (nyquist_bw(e.Fs) < req) rep.label("nyquist-binds");
  if (e.ch == 2 && e.force_channels != OPUS_AUTO) rep.label("forced-channels");
  if (e.app == OPUS_APPLICATION_RESTRICTED_LOWDELAY) rep.label("lowdelay");
  if (dur400 < 4) rep.label("short-frame");
  if (expert_mode) rep.label("expert-duration");
  if (dur400 > 8) rep.label("long-packet");

  int maxb = tight ? tightb : 1276 * 6 + 16;
  int total = pass_size * npk;
  std::vector<float> x; sig::generate(fam, seed, e.Fs, e.ch, total, amp, x);
  HeapBuf<float> pf((size_t)pass_size * e.ch); HeapBuf<opus_int16> pi((size_t)pass_size * e.ch);
  HeapBuf<unsigned char> out(maxb);
  int since_change = 1000, checked = 0, skipped = 0;
  const bool use24 = (fnv1a(c.d, c.n) % 2) == 1;     // integer entry point: opus_encode or opus_encode24 (hash-derived: replays keep their meaning)
  if (api && use24) rep.label("entry:encode24");
  for (int k = 0; k < npk; k++) {
    for (int i = 0; i < nchg; i++) if (chg_at[i] == k) {
      int r = opus_encoder_ctl(enc.p, OPUS_SET_FORCE_CHANNELS(chg_to[i]));
      VP_REQUIRE(r == OPUS_OK, "c11:apply-cfg", "SET_FORCE_CHANNELS(%d) refused: %d", chg_to[i], r);
      b.forced_ch = chg_to[i]; since_change = 0; rep.label("channel-change");
    }
    size_t off = (size_t)k * pass_size * e.ch;
    int r;
    if (api && use24) { HeapBuf<opus_int32> p24(pi.n); for (size_t i = 0; i < pi.n; i++) { double v = std::floor(x[off + i] * 8388608.0 + 0.5); p24[i] = (opus_int32)(v > 8388607 ? 8388607 : v < -8388608 ? -8388608 : v); } r = opus_encode24(enc.p, p24.p, pass_size, out.p, maxb); }
    else if (api) { for (size_t i = 0; i < pi.n; i++) { double v = std::floor(x[off + i] * 32768.0 + 0.5); pi[i] = (opus_int16)(v > 32767 ? 32767 : v < -32768 ? -32768 : v); } r = opus_encode(enc.p, pi.p, pass_size, out.p, maxb); }
    else { for (size_t i = 0; i < pf.n; i++) pf[i] = x[off + i]; r = opus_encode_float(enc.p, pf.p, pass_size, out.p, maxb); }
    rep.count();
    if (r == OPUS_BUFFER_TOO_SMALL && tight) { rep.label("buffer-too-small"); continue; }
    VP_REQUIRE(r > 0, "c11:encode-status", "encode %d of %d samples into %d bytes returned %d (%s)", k, pass_size, maxb, r, cu::cfg_str(e).c_str());
    Bind bk = b;
    since_change++;
    if (since_change < 3) bk.forced_ch = 0;        // the change may take up to three packets
    int consumed = 0; bool coded = false;
    if (check_stream_packet(out.p, r, false, bk, rep, "encoder", &consumed, &coded, nullptr)) return 1;
    if (coded) { checked++; if (since_change >= 3 && since_change < 1000 && bk.forced_ch) rep.label("channel-change-verified"); } else skipped++;
  }
  if (skipped) rep.label("empty-packets-skipped");
  if (checked >= 3 && (b.celt_only || e.bandwidth != OPUS_AUTO || e.max_bandwidth != OPUS_BANDWIDTH_FULLBAND || nyquist_bw(e.Fs) < 4 || (e.ch == 2 && b.forced_ch) || expert_mode)) rep.nontrivial();
  rep.fingerprint(fnv1a(cu::cfg_str(e).c_str(), cu::cfg_str(e).size())); rep.fingerprint(mix(mix(d, expert_mode), mix(npk, fam * 256 + seed))); rep.fingerprint(mix(chg_at[0] * 64 + chg_at[1], chg_to[0] * 4 + chg_to[1] + 16 * nchg));
  return 0;
}

// multistream / surround / projection: every stream of every packet
static int multi_case(Choice& c, Report& rep) {
  int kind = c.irange(0, 2);     // 0 plain, 1 surround, 2 projection
  int Fs = cu::RATES[4 - c.irange(0, 4)];
  int app = cu::APPS[(c.irange(0, 2) + 1) % 3];
  int d = (c.irange(0, 8) + 3) % 9;
  int expert = c.boolean();
  int npk = 1 + c.irange(0, 7);
  int sel = c.irange(0, 5);
  opus_int32 bitrate = cu::gen_bitrate(c, 2);
  int vbr = c.irange(0, 2);
  int bw = c.chance(100) ? c.irange(0, 4) : -1, maxbw = c.chance(80) ? c.irange(0, 4) : -1;
  int force1 = c.chance(60);
  int fam = (c.irange(0, sig::NFAMILIES - 1) + sig::MULTITONE) % sig::NFAMILIES;
  uint32_t seed = c.byte();
  int channels = 1, streams = 1, coupled = 0, mapping_type = 0;
  cu::MSEnc ms; cu::ProjEnc pe; int err = -1;
  if (kind == 0) {
    static const int L[6][2] = {{2, 1}, {1, 1}, {2, 2}, {3, 0}, {3, 2}, {1, 0}};
    streams = L[sel][0]; coupled = L[sel][1]; channels = streams + coupled;
    HeapBuf<unsigned char> map(channels); for (int i = 0; i < channels; i++) map[i] = (unsigned char)i;
    ms.p = opus_multistream_encoder_create(Fs, channels, streams, coupled, map.p, app, &err);
  } else if (kind == 1) {
    static const int F[6][2] = {{1, 3}, {1, 6}, {1, 2}, {255, 3}, {2, 4}, {2, 6}};
    channels = F[sel][1]; HeapBuf<unsigned char> map(channels);
    ms.p = opus_multistream_surround_encoder_create(Fs, channels, F[sel][0], &streams, &coupled, map.p, app, &err);
    mapping_type = (F[sel][0] == 1 && channels > 2) ? 1 : F[sel][0] == 2 ? 2 : 0;
  } else {
    static const int N[6] = {4, 6, 9, 4, 11, 16};
    channels = N[sel];
    pe.p = opus_projection_ambisonics_encoder_create(Fs, channels, 3, &streams, &coupled, app, &err);
  }
  VP_REQUIRE((ms.p || pe.p) && err == OPUS_OK, "c11:create", "multistream create failed %d", err);
  int dur400 = cu::DUR400[d], frame_size = dur400 * (Fs / 400), pass_size = frame_size;
#define MCTL(...) (ms.p ? opus_multistream_encoder_ctl(ms.p, __VA_ARGS__) : opus_projection_encoder_ctl(pe.p, __VA_ARGS__))
  int r = MCTL(OPUS_SET_BITRATE(bitrate)); VP_REQUIRE(r == OPUS_OK, "c11:apply-cfg", "SET_BITRATE %d", r);
  r = MCTL(OPUS_SET_VBR(vbr != 1)); VP_REQUIRE(r == OPUS_OK, "c11:apply-cfg", "SET_VBR %d", r);
  r = MCTL(OPUS_SET_VBR_CONSTRAINT(vbr != 2)); VP_REQUIRE(r == OPUS_OK, "c11:apply-cfg", "SET_VBR_CONSTRAINT %d", r);
  if (expert) { r = MCTL(OPUS_SET_EXPERT_FRAME_DURATION(OPUS_FRAMESIZE_2_5_MS + d)); VP_REQUIRE(r == OPUS_OK, "c11:apply-cfg", "SET_EXPERT_FRAME_DURATION %d", r); if (d < 8 && c.boolean()) pass_size = cu::DUR400[d + 1] * (Fs / 400); }
  if (maxbw >= 0) { r = MCTL(OPUS_SET_MAX_BANDWIDTH(BWVAL[maxbw])); VP_REQUIRE(r == OPUS_OK, "c11:apply-cfg", "SET_MAX_BANDWIDTH %d", r); }
  if (bw >= 0) { r = MCTL(OPUS_SET_BANDWIDTH(BWVAL[bw])); VP_REQUIRE(r == OPUS_OK, "c11:apply-cfg", "SET_BANDWIDTH %d", r); }
  if (force1) { r = MCTL(OPUS_SET_FORCE_CHANNELS(1)); VP_REQUIRE(r == OPUS_OK, "c11:apply-cfg", "SET_FORCE_CHANNELS(1) %d", r); }
  rep.labelf("multi:%s", kind == 0 ? "plain" : kind == 1 ? "surround" : "projection");
  rep.note("multi kind=%d Fs=%d app=%d channels=%d streams=%d coupled=%d dur=%d expert=%d pass=%d bitrate=%d vbr=%d bw=%d maxbw=%d force1=%d packets=%d", kind, Fs, app, channels, streams, coupled, dur400, expert, pass_size, bitrate, vbr, bw, maxbw, force1, npk);
  Bind b; b.Fs = Fs; b.dur400 = dur400;
  b.celt_only = app == OPUS_APPLICATION_RESTRICTED_LOWDELAY || dur400 < 4;
  // the surround encoder chooses the coded bandwidth and the channel forcing of its streams itself (documented behaviour of
  // mapping family 1, more than two channels: it re-forces the bandwidth of every stream for every frame), so neither the
  // forced nor the maximum bandwidth is asserted there
  int reqbw = (bw >= 0 && mapping_type != 1) ? bw : (maxbw >= 0 ? maxbw : 4);
  b.cap = std::min(reqbw, nyquist_bw(Fs)); b.check_bw = mapping_type != 1;
  int maxb = std::min(1500 * streams * (dur400 > 8 ? dur400 / 8 : 1), 60000);
  std::vector<float> x; sig::generate(fam, seed, Fs, channels, pass_size * npk, 0.3, x);
  HeapBuf<float> pf((size_t)pass_size * channels); HeapBuf<unsigned char> out(maxb);
  int checked = 0;
  for (int k = 0; k < npk; k++) {
    for (size_t i = 0; i < pf.n; i++) pf[i] = x[(size_t)k * pf.n + i];
    int n = ms.p ? opus_multistream_encode_float(ms.p, pf.p, pass_size, out.p, maxb) : opus_projection_encode_float(pe.p, pf.p, pass_size, out.p, maxb);
    rep.count();
    VP_REQUIRE(n > 0, "c11:encode-status", "multistream encode returned %d (buffer %d)", n, maxb);
    int pos = 0;
    for (int s = 0; s < streams; s++) {
      Bind bs = b;
      bs.forced_ch = s >= coupled ? 1 : (force1 && mapping_type != 1 ? 1 : 0);
      int consumed = 0; bool coded = false;
      char who[48]; snprintf(who, sizeof who, "stream %d of %d", s, streams);
      if (check_stream_packet(out.p + pos, n - pos, s != streams - 1, bs, rep, who, &consumed, &coded, nullptr)) return 1;
      if (coded) checked++;
      pos += consumed;
    }
    VP_REQUIRE(pos == n, "c11:produced-packet-invalid", "multistream packet of %d bytes, streams use %d", n, pos);
  }
  if (checked >= 3) rep.nontrivial();
  rep.fingerprint(mix(mix(mix(kind * 8 + sel, Fs), mix(app, d * 2 + expert)), mix(mix(bitrate, vbr), mix((bw + 1) * 8 + maxbw + 1, force1 * 512 + fam * 256 + seed)))); rep.fingerprint(npk);
  return 0;
}

int vp_case(Choice& c, Report& rep) {
  if (c.irange(0, 7) == 7) { rep.label("object:multistream"); return multi_case(c, rep); }
  rep.label("object:single");
  return single_case(c, rep);
}
