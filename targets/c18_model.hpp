// C18: independent models for the SILK side-information oracles.
// Nothing here calls into libopus; tables passed in are read-only inputs
// ("the codebook"), constants are transcribed from RFC 6716 section 4.2.7.
#pragma once
#include <cmath>
#include <cstdint>

namespace c18 {

// RFC 6716 Table 25: minimum spacing of normalised LSF coefficients (Q15)
static const int16_t DMIN_NB_MB[11] = {250, 3, 6, 3, 3, 3, 4, 3, 3, 3, 461};
static const int16_t DMIN_WB[17] = {100, 3, 40, 3, 3, 3, 5, 14, 14, 10, 11, 3, 8, 9, 7, 3, 347};

// RFC 6716 Tables 33-36 (4.2.7.6.1): pitch contour offsets per sub-frame
static const int8_t CONTOUR_NB_10MS[2][3] = {{0, 1, 0}, {0, 0, 1}};
static const int8_t CONTOUR_NB_20MS[4][11] = {
    {0, 2, -1, -1, -1, 0, 0, 1, 1, 0, 1},
    {0, 1, 0, 0, 0, 0, 0, 1, 0, 0, 0},
    {0, 0, 1, 0, 0, 0, 1, 0, 0, 0, 0},
    {0, -1, 2, 1, 0, 1, 1, 0, 0, -1, -1}};
static const int8_t CONTOUR_MBWB_10MS[2][12] = {
    {0, 0, 1, -1, 1, -1, 2, -2, 2, -2, 3, -3},
    {0, 1, 0, 1, -1, 2, -1, 2, -2, 3, -2, 3}};
static const int8_t CONTOUR_MBWB_20MS[4][34] = {
    {0, 0, 1, -1, 0, 1, -1, 0, -1, 1, -2, 2, -2, -2, 2, -3, 2, 3, -3, -4, 3, -4, 4, 4, -5, 5, -6, -5, 6, -7, 6, 5, 8, -9},
    {0, 0, 1, 0, 0, 0, 0, 0, 0, 0, -1, 1, 0, 0, 1, -1, 0, 1, -1, -1, 1, -1, 2, 1, -1, 2, -2, -2, 2, -2, 2, 2, 3, -3},
    {0, 1, 0, 0, 0, 0, 0, 0, 1, 0, 1, 0, 0, 1, -1, 1, 0, 0, 2, 1, -1, 2, -1, -1, 2, -1, 2, 2, -1, 3, -2, -2, -2, 3},
    {0, 1, 0, 0, 1, 0, 1, -1, 2, -1, 2, -1, 2, 3, -2, 3, -2, -2, 4, 4, -3, 5, -3, -4, 6, -4, 6, 5, -5, 8, -6, -5, -7, 9}};

inline int contour_count(int fs_kHz, int nb_subfr) {
  if (fs_kHz == 8) return nb_subfr == 4 ? 11 : 3;
  return nb_subfr == 4 ? 34 : 12;
}
inline int contour_offset(int fs_kHz, int nb_subfr, int k, int contour) {
  if (fs_kHz == 8) return nb_subfr == 4 ? CONTOUR_NB_20MS[k][contour] : CONTOUR_NB_10MS[k][contour];
  return nb_subfr == 4 ? CONTOUR_MBWB_20MS[k][contour] : CONTOUR_MBWB_10MS[k][contour];
}
// RFC 4.2.7.6.1: pitch_lags[k] = clamp(lag_min, lag + lag_cb[contour][k], lag_max)
inline int model_pitch_lag(int fs_kHz, int nb_subfr, int k, int lagIndex, int contour) {
  int lo = 2 * fs_kHz, hi = 18 * fs_kHz;
  int v = lo + lagIndex + contour_offset(fs_kHz, nb_subfr, k, contour);
  return v < lo ? lo : v > hi ? hi : v;
}

// ---- gains (RFC 4.2.7.4) -------------------------------------------------
// independent coding: log_gain = max(gain_index, previous_log_gain - 16)
// delta coding:       log_gain = clamp(0, max(2*delta - 16, previous_log_gain + delta - 4), 63)
inline int model_gain_index(int prev, int coded, bool delta) {
  int v;
  if (!delta) v = coded > prev - 16 ? coded : prev - 16;
  else { int a = 2 * coded - 16, b = prev + coded - 4; v = a > b ? a : b; }
  return v < 0 ? 0 : v > 63 ? 63 : v;
}
// gain_Q16 = silk_log2lin((0x1D1C71*log_gain >> 16) + 2090); the exact value of
// the piece-wise approximation is not prescribed here, the true exponential is.
inline double model_gain_Q16(int log_gain) {
  int lg = (int)(((int64_t)0x1D1C71 * log_gain) >> 16) + 2090;
  if (lg > 3967) lg = 3967;
  return std::exp2(lg / 128.0);
}

// ---- NLSF reconstruction before stabilisation (RFC 4.2.7.5.2 / 4.2.7.5.3) -----
// Tables come from the codebook handed in.  Returns the clamped Q15 vector and
// whether the [0,32767] clamp was active.
struct CbView {
  int order;
  int qstep_Q16;
  const uint8_t* cb1_Q8;      // [32*order]
  const int16_t* wght_Q9;     // [32*order]
  const uint8_t* pred_Q8;     // [2*(order-1)]
  const uint8_t* ec_sel;      // [32*order/2]
};
inline bool model_raw_nlsf(const CbView& cb, const int8_t* ind /*[order+1]*/, int16_t* raw) {
  const int d = cb.order, i1 = ind[0];
  int pred[16];
  for (int i = 0; i < d; i += 2) {
    int entry = cb.ec_sel[i1 * d / 2 + i / 2];
    pred[i] = cb.pred_Q8[i + (entry & 1) * (d - 1)];
    pred[i + 1] = cb.pred_Q8[i + ((entry >> 4) & 1) * (d - 1) + 1];
  }
  int res[16];
  int out = 0;
  for (int i = d - 1; i >= 0; i--) {
    int p = (int)std::floor(out * pred[i] / 256.0);
    int q = ind[i + 1] * 1024;
    if (q > 0) q -= 102; else if (q < 0) q += 102;
    out = p + (int)std::floor((double)q * cb.qstep_Q16 / 65536.0);
    res[i] = out;
  }
  bool clipped = false;
  for (int i = 0; i < d; i++) {
    int w = cb.wght_Q9[i1 * d + i];
    int num = res[i] * 16384;
    int v = (num >= 0 ? num / w : -((-num) / w)) + cb.cb1_Q8[i1 * d + i] * 128;   // division truncates toward zero
    if (v < 0) { v = 0; clipped = true; }
    if (v > 32767) { v = 32767; clipped = true; }
    raw[i] = (int16_t)v;
  }
  return clipped;
}
// spacing constraints: returns index of the first violated constraint (0..order) or -1
inline int nlsf_violation(const int16_t* v, const int16_t* dmin, int d) {
  if (v[0] < dmin[0]) return 0;
  for (int i = 1; i < d; i++) if ((int)v[i] - (int)v[i - 1] < dmin[i]) return i;
  if ((int)v[d - 1] > 32768 - dmin[d]) return d;
  return -1;
}

// RFC 6716 4.2.7.5.4 stabilisation, transcribed from the text: up to 20 minimal adjustments, then the
// sort / upward max / downward min fall-back.  NLSF[-1] = 0, NLSF[d] = 32768.
inline void model_stabilize(int16_t* v16, const int16_t* dmin, int d) {
  int v[16];
  for (int i = 0; i < d; i++) v[i] = v16[i];
  bool done = false;
  for (int rep = 0; rep < 20 && !done; rep++) {
    int best = 0, bi = 0;
    for (int i = 0; i <= d; i++) {
      int lo = i == 0 ? 0 : v[i - 1], hi = i == d ? 32768 : v[i];
      int m = hi - lo - dmin[i];
      if (i == 0 || m < best) { best = m; bi = i; }
    }
    if (best >= 0) { done = true; break; }
    if (bi == 0) v[0] = dmin[0];
    else if (bi == d) v[d - 1] = 32768 - dmin[d];
    else {
      int minc = dmin[bi] >> 1, maxc = 32768 - (dmin[bi] >> 1);
      for (int k = 0; k < bi; k++) minc += dmin[k];
      for (int k = bi + 1; k <= d; k++) maxc -= dmin[k];
      int c = (v[bi - 1] + v[bi] + 1) >> 1;
      c = c < minc ? minc : c > maxc ? maxc : c;   // the limits cannot cross: sum(dmin) < 32768
      v[bi - 1] = c - (dmin[bi] >> 1);
      v[bi] = v[bi - 1] + dmin[bi];
    }
  }
  if (!done) {
    // the fall-back executes after the 20th repetition regardless (it is the identity on a valid vector)
    for (int i = 1; i < d; i++) { int x = v[i], j = i - 1; while (j >= 0 && v[j] > x) { v[j + 1] = v[j]; j--; } v[j + 1] = x; }
    for (int k = 0; k < d; k++) { int lo = (k ? v[k - 1] : 0) + dmin[k]; if (v[k] < lo) v[k] = lo; }
    for (int k = d - 1; k >= 0; k--) { int hi = (k == d - 1 ? 32768 : v[k + 1]) - dmin[k + 1]; if (v[k] > hi) v[k] = hi; }
  }
  for (int i = 0; i < d; i++) v16[i] = (int16_t)v[i];
}

// ---- NLSF -> LPC in double precision --------------------------------------
// costab: the 129-entry table of 2*cos(pi*i/128) in Q12 (piece-wise linear map,
// as the codec defines the NLSF domain through this table).
inline void model_nlsf2a(const int16_t* nlsf, int d, const int16_t* costab, double* a) {
  double P[18] = {0}, Q[18] = {0};
  P[0] = Q[0] = 1.0;
  int np = 0, nq = 0;
  for (int k = 0; k < d; k++) {
    int fi = nlsf[k] >> 8, ff = nlsf[k] & 255;
    double c = (costab[fi] * 256.0 + (double)(costab[fi + 1] - costab[fi]) * ff) / 1048576.0;
    double* X = (k & 1) ? Q : P;
    int& n = (k & 1) ? nq : np;
    // multiply by (1 - c z^-1 + z^-2)
    double t[18];
    for (int j = 0; j <= n + 2; j++) t[j] = 0;
    for (int j = 0; j <= n; j++) { t[j] += X[j]; t[j + 1] -= c * X[j]; t[j + 2] += X[j]; }
    n += 2;
    for (int j = 0; j <= n; j++) X[j] = t[j];
  }
  for (int j = 1; j <= d; j++) a[j - 1] = -0.5 * (P[j] + P[j - 1] + Q[j] - Q[j - 1]);
}

// ---- step-down (reverse Levinson) stability test --------------------------
// A(z) = 1 - sum a[k] z^-(k+1).  Stable iff every reflection coefficient has
// magnitude < 1.  gain = 1 / prod(1 - k_m^2) is the prediction (power) gain.
struct StepDown { bool stable; double gain; double max_abs_k; };
inline StepDown step_down(const double* a_in, int d) {
  double a[16], b[16];
  for (int i = 0; i < d; i++) a[i] = a_in[i];
  StepDown r = {true, 1.0, 0.0};
  double inv = 1.0;
  for (int m = d; m >= 1; m--) {
    double k = a[m - 1];
    double ak = std::fabs(k);
    if (ak > r.max_abs_k) r.max_abs_k = ak;
    if (!(ak < 1.0)) { r.stable = false; r.gain = INFINITY; return r; }
    double den = 1.0 - k * k;
    inv *= den;
    for (int i = 0; i < m - 1; i++) b[i] = (a[i] + k * a[m - 2 - i]) / den;
    for (int i = 0; i < m - 1; i++) a[i] = b[i];
  }
  r.gain = 1.0 / inv;
  return r;
}
inline StepDown step_down_Q12(const int16_t* a_Q12, int d) {
  double a[16];
  for (int i = 0; i < d; i++) a[i] = a_Q12[i] / 4096.0;
  return step_down(a, d);
}

}  // namespace c18
