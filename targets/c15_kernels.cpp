// C15 (a): every run-time dispatched x86 kernel against its portable C twin on
// identical generated inputs - direct calls of the `_c` symbol, of every
// `_sse/_sse2/_sse4_1/_avx2` symbol this CPU can execute and of every row of the
// dispatch tables.  Integer kernels: bit-exact.  Float kernels: reassociation
// bound 4*n*eps*sum|terms|.  op_pvq_search: every output must be a valid pulse
// vector that an independently written greedy search (double precision) can reach
// when each choice is allowed the error of the rcp/rsqrt approximations.
// The stateful SILK quantisers (NSQ, NSQ_del_dec) and again VAD / VQ_WMat_EC /
// burg get their arguments from a real encoder run at arch cap 0 whose calls of
// the `_c` symbols are intercepted with -Wl,--wrap (family "capture").
#include "vp.hpp"
#include "common.hpp"
#include "codec_util.hpp"
#include "siggen.hpp"
#include "c15_common.hpp"
#include "c15_tu.h"
extern "C" {
#ifndef FIXED_POINT
#include "SigProc_FLP.h"
#endif
#include "main.h"
#include "tables.h"
}
#include <algorithm>
#include <unordered_set>

using namespace vp;
using namespace c15;

const TargetInfo vp_info = {"c15_kernels", 8, 160};

namespace {

struct Impl { void* fn; int level; int row; };   // row >= 0: reached through table row `row`

// pointer-level check of a dispatch table + list of implementations to run
struct KernelView {
  const char* name; void* sym[C15_NLEV]; void* const* table; int c_is_table_symbol;
};

KernelView view(const c15_kernel& k) { KernelView v; v.name = k.name; for (int i = 0; i < C15_NLEV; i++) v.sym[i] = k.sym[i]; v.table = k.table; v.c_is_table_symbol = k.c_is_table_symbol; return v; }

int check_table_levels(const KernelView& k, Report& rep) {
  if (!k.table) return 0;
  for (int a = 0; a < C15_NLEV; a++) {
    void* f = k.table[a];
    if (!f) return rep.fail("c15:table-null-row", "%s: dispatch table row %d is NULL", k.name, a);
    for (int l = a + 1; l < C15_NLEV; l++)
      if (k.sym[l] && f == k.sym[l]) return rep.fail("c15:table-row-needs-higher-level", "%s: dispatch table row %d (%s) points at the %s implementation", k.name, a, LEVEL_NAME[a], LEVEL_NAME[l]);
    if (k.c_is_table_symbol) {
      bool ok = f == k.sym[0];
      for (int l = 1; l <= a; l++) if (k.sym[l] && f == k.sym[l]) ok = true;
      if (!ok) return rep.fail("c15:table-row-unknown-symbol", "%s: dispatch table row %d is neither the C function nor one of its SIMD versions up to %s", k.name, a, LEVEL_NAME[a]);
    }
  }
  rep.labelf("table:%s", k.name);
  return 0;
}

void impls_of(const KernelView& k, std::vector<Impl>& out, Report& rep) {
  out.clear();
  int H = host_level();
  for (int l = 1; l <= H; l++) if (k.sym[l]) { out.push_back({k.sym[l], l, -1}); rep.labelf("%s@%s", k.name, LEVEL_NAME[l]); }
  if (k.table) for (int a = 0; a <= H; a++) {
    void* f = k.table[a];
    bool seen = f == k.sym[0];
    for (auto& i : out) if (i.fn == f) seen = true;
    if (!seen && f) out.push_back({f, a, a});
  }
  rep.labelf("kernel:%s", k.name);
  rep.label(levels_label());
}

std::string sigf(const char* kernel, const char* what) { return std::string("c15:") + kernel + "-" + what; }
const char* where(const Impl& i, char* buf, size_t n) {
  if (i.row >= 0) snprintf(buf, n, "table row %d", i.row); else snprintf(buf, n, "%s symbol", LEVEL_NAME[i.level]);
  return buf;
}
#define C15_FAIL(kname, what, ...) return rep.fail(sigf(kname, what).c_str(), __VA_ARGS__)

// =============================================================================
#ifndef FIXED_POINT
// ------------------------------- float CELT kernels --------------------------

int chk_inner(Report& rep, int N, int ox, int oy, int cx, int cy, uint32_t seed) {
  const KernelView k = view(c15_kernels[C15_K_CELT_INNER_PROD]);
  if (check_table_levels(k, rep)) return 1;
  OffBuf<float> x(N, ox), y(N, oy);
  Rng r(seed); fill_f(x.p, N, cx, r); fill_f(y.p, N, cy, r);
  double sabs = 0, exact = 0;
  for (int i = 0; i < N; i++) { double t = (double)x[i] * (double)y[i]; sabs += std::fabs(t); exact += t; }
  double tol = reassoc_tol(N, sabs);
  float ref = ((c15_inner_fn)k.sym[0])(x.p, y.p, N);
  rep.count();
  if (!(std::fabs((double)ref - exact) <= tol)) C15_FAIL(k.name, "c-vs-exact", "celt_inner_prod_c N=%d: %.9g, exact %.9g, tolerance %.3g", N, ref, exact, tol);
  std::vector<Impl> im; impls_of(k, im, rep);
  char wb[40];
  for (auto& i : im) {
    float v = ((c15_inner_fn)i.fn)(x.p, y.p, N);
    rep.count();
    if (!(std::fabs((double)v - (double)ref) <= tol)) C15_FAIL(k.name, "mismatch", "celt_inner_prod %s: N=%d offsets %d/%d data %s/%s: %.9g vs C %.9g (|diff| %.3g > %.3g)", where(i, wb, sizeof wb), N, ox, oy, FCLASS_NAME[cx], FCLASS_NAME[cy], v, ref, std::fabs((double)v - ref), tol);
  }
  rep.note("celt_inner_prod N=%d off=%d/%d data=%s/%s", N, ox, oy, FCLASS_NAME[cx], FCLASS_NAME[cy]);
  return 0;
}

int chk_dual(Report& rep, int N, int ox, int oy, int oz, int cx, int cy, uint32_t seed) {
  const KernelView k = view(c15_kernels[C15_K_DUAL_INNER_PROD]);
  if (check_table_levels(k, rep)) return 1;
  OffBuf<float> x(N, ox), y1(N, oy), y2(N, oz);
  Rng r(seed); fill_f(x.p, N, cx, r); fill_f(y1.p, N, cy, r); fill_f(y2.p, N, (cy + 1) % F_NCLASS, r);
  double s1 = 0, s2 = 0;
  for (int i = 0; i < N; i++) { s1 += std::fabs((double)x[i] * y1[i]); s2 += std::fabs((double)x[i] * y2[i]); }
  double t1 = reassoc_tol(N, s1), t2 = reassoc_tol(N, s2);
  float r1 = -7, r2 = -7;
  ((c15_dual_fn)k.sym[0])(x.p, y1.p, y2.p, N, &r1, &r2);
  rep.count();
  std::vector<Impl> im; impls_of(k, im, rep);
  char wb[40];
  for (auto& i : im) {
    float v1 = -9, v2 = -9;
    ((c15_dual_fn)i.fn)(x.p, y1.p, y2.p, N, &v1, &v2);
    rep.count();
    if (!(std::fabs((double)v1 - r1) <= t1 && std::fabs((double)v2 - r2) <= t2)) C15_FAIL(k.name, "mismatch", "dual_inner_prod %s: N=%d offsets %d/%d/%d data %s/%s: (%.9g,%.9g) vs C (%.9g,%.9g), tolerances %.3g %.3g", where(i, wb, sizeof wb), N, ox, oy, oz, FCLASS_NAME[cx], FCLASS_NAME[cy], v1, v2, r1, r2, t1, t2);
  }
  rep.note("dual_inner_prod N=%d off=%d/%d/%d data=%s/%s", N, ox, oy, oz, FCLASS_NAME[cx], FCLASS_NAME[cy]);
  return 0;
}

int chk_xcorr_kernel(Report& rep, int len, int ox, int oy, int cx, int cy, uint32_t seed) {
  const KernelView k = view(c15_kernels[C15_K_XCORR_KERNEL]);
  if (check_table_levels(k, rep)) return 1;
  if (len < 3) len = 3;                       // celt_assert(len>=3) is the kernel's contract
  OffBuf<float> x(len, ox), y((size_t)len + 3, oy);
  Rng r(seed); fill_f(x.p, len, cx, r); fill_f(y.p, (size_t)len + 3, cy, r);
  float s0[4]; fill_f(s0, 4, (cx + cy) % F_NCLASS, r);
  double tol[4];
  for (int q = 0; q < 4; q++) { double s = std::fabs((double)s0[q]); for (int j = 0; j < len; j++) s += std::fabs((double)x[j] * y[j + q]); tol[q] = reassoc_tol(len + 1, s); }
  float ref[4]; memcpy(ref, s0, sizeof ref);
  ((c15_xcorr_fn)k.sym[0])(x.p, y.p, ref, len);
  rep.count();
  std::vector<Impl> im; impls_of(k, im, rep);
  char wb[40];
  for (auto& i : im) {
    HeapBuf<float> v(4); memcpy(v.p, s0, sizeof s0);
    ((c15_xcorr_fn)i.fn)(x.p, y.p, v.p, len);
    rep.count();
    for (int q = 0; q < 4; q++)
      if (!(std::fabs((double)v[q] - ref[q]) <= tol[q])) C15_FAIL(k.name, "mismatch", "xcorr_kernel %s: len=%d offsets %d/%d data %s/%s lag %d: %.9g vs C %.9g (tolerance %.3g)", where(i, wb, sizeof wb), len, ox, oy, FCLASS_NAME[cx], FCLASS_NAME[cy], q, v[q], ref[q], tol[q]);
  }
  rep.note("xcorr_kernel len=%d off=%d/%d data=%s/%s", len, ox, oy, FCLASS_NAME[cx], FCLASS_NAME[cy]);
  return 0;
}

int chk_pitch_xcorr(Report& rep, int len, int max_pitch, int ox, int oy, int oz, int cx, int cy, uint32_t seed) {
  const KernelView k = view(c15_kernels[C15_K_CELT_PITCH_XCORR]);
  if (check_table_levels(k, rep)) return 1;
  if (len < 3) len = 3;
  if (max_pitch < 1) max_pitch = 1;
  size_t ny = (size_t)len + max_pitch - 1;
  OffBuf<float> x(len, ox), y(ny, oy);
  Rng r(seed); fill_f(x.p, len, cx, r); fill_f(y.p, ny, cy, r);
  std::vector<double> tol(max_pitch);
  for (int q = 0; q < max_pitch; q++) { double s = 0; for (int j = 0; j < len; j++) s += std::fabs((double)x[j] * y[j + q]); tol[q] = reassoc_tol(len, s); }
  OffBuf<float> ref(max_pitch, oz);
  ((c15_pxcorr_fn)k.sym[0])(x.p, y.p, ref.p, len, max_pitch, 0);
  rep.count();
  int H = host_level();
  // (1) the C function with arch = a forwards to the dispatched xcorr_kernel / celt_inner_prod of that level
  // (2) the AVX2 symbol, (3) the table rows
  for (int a = 1; a <= H + 1; a++) {
    bool avx = a == H + 1;
    if (avx && !(H >= 4 && k.sym[4])) continue;
    OffBuf<float> v(max_pitch, oz);
    for (int q = 0; q < max_pitch; q++) v[q] = 12345.f;
    if (avx) { ((c15_pxcorr_fn)k.sym[4])(x.p, y.p, v.p, len, max_pitch, 4); rep.labelf("%s@%s", k.name, LEVEL_NAME[4]); }
    else { ((c15_pxcorr_fn)k.table[a])(x.p, y.p, v.p, len, max_pitch, a); rep.labelf("%s@arch%d", k.name, a); }
    rep.count();
    for (int q = 0; q < max_pitch; q++)
      if (!(std::fabs((double)v[q] - ref[q]) <= tol[q])) C15_FAIL(k.name, "mismatch", "celt_pitch_xcorr %s: len=%d max_pitch=%d offsets %d/%d/%d data %s/%s lag %d: %.9g vs C(arch 0) %.9g (tolerance %.3g)", avx ? "avx2 symbol" : (a == 1 ? "table row 1" : a == 2 ? "table row 2" : a == 3 ? "table row 3" : "table row 4"), len, max_pitch, ox, oy, oz, FCLASS_NAME[cx], FCLASS_NAME[cy], q, v[q], ref[q], tol[q]);
  }
  rep.labelf("kernel:%s", k.name); rep.label(levels_label());
  rep.note("celt_pitch_xcorr len=%d max_pitch=%d off=%d/%d/%d data=%s/%s", len, max_pitch, ox, oy, oz, FCLASS_NAME[cx], FCLASS_NAME[cy]);
  return 0;
}

// y[i] = x[i] + g10*x[i-T] + g11*(x[i-T+1]+x[i-T-1]) + g12*(x[i-T+2]+x[i-T-2]); N is a multiple of 4 without CUSTOM_MODES
int chk_comb(Report& rep, int T, int N, int ox, int oy, bool inplace, int cx, int gsel, uint32_t seed) {
  const KernelView k = view(c15_kernels[C15_K_COMB_FILTER_CONST]);
  if (check_table_levels(k, rep)) return 1;
  if (T < 15) T = 15;                         // COMBFILTER_MINPERIOD
  if (gsel >= 3) inplace = false;             // arbitrary gains are not a stable recursion; the codec's tap sets sum to <= 1
  if (T > 1022) T = 1022;
  N &= ~3;
  Rng r(seed);
  size_t hist = (size_t)T + 2;
  std::vector<float> src(hist + N);
  fill_f(src.data(), src.size(), cx, r);
  static const float G[3][3] = {{0.3066406250f, 0.2170410156f, 0.1296386719f}, {0.4638671875f, 0.2680664062f, 0.f}, {0.7998046875f, 0.1000976562f, 0.f}};
  float g = gsel < 3 ? (float)(0.05 + 0.95 * r.unit()) : 1.f;
  float g10, g11, g12;
  if (gsel < 3) { g10 = g * G[gsel][0]; g11 = g * G[gsel][1]; g12 = g * G[gsel][2]; }
  else if (gsel == 3) { g10 = (float)r.sym(); g11 = (float)r.sym(); g12 = (float)r.sym(); }
  else { g10 = 1.f; g11 = -1.f; g12 = 1.f; }
  auto run = [&](void* fn, std::vector<float>& out, std::vector<float>* xafter) {
    OffBuf<float> xb(hist + N, ox);
    if (!src.empty()) memcpy(xb.p, src.data(), src.size() * sizeof(float));
    float* x = xb.p + hist;
    if (inplace) { ((c15_comb_fn)fn)(x, x, T, N, g10, g11, g12); out.assign(x, x + N); }
    else { OffBuf<float> yb(N, oy); ((c15_comb_fn)fn)(yb.p, x, T, N, g10, g11, g12); out.assign(yb.p, yb.p + N); if (xafter) xafter->assign(xb.p, xb.p + hist + N); }
    rep.count();
  };
  std::vector<float> ref, xaft;
  run(k.sym[0], ref, &xaft);
  if (!inplace && !src.empty() && memcmp(xaft.data(), src.data(), src.size() * sizeof(float))) C15_FAIL(k.name, "input-modified", "comb_filter_const_c modified its input");
  // propagated bound: E[i] = 4*5*eps*A_i + sum |g_k| E[source sample] (sources inside the output only when filtering in place)
  std::vector<double> E(N, 0.0);
  auto val = [&](int idx) -> double { return (inplace && idx >= 0) ? (double)ref[idx] : (double)src[hist + idx]; };
  auto err = [&](int idx) -> double { return (inplace && idx >= 0) ? E[idx] : 0.0; };
  for (int i = 0; i < N; i++) {
    double a = std::fabs((double)src[hist + i]) + std::fabs(g10 * val(i - T)) + std::fabs((double)g11) * (std::fabs(val(i - T + 1)) + std::fabs(val(i - T - 1))) + std::fabs((double)g12) * (std::fabs(val(i - T + 2)) + std::fabs(val(i - T - 2)));
    double p = std::fabs((double)g10) * err(i - T) + std::fabs((double)g11) * (err(i - T + 1) + err(i - T - 1)) + std::fabs((double)g12) * (err(i - T + 2) + err(i - T - 2));
    E[i] = reassoc_tol(5, a) * 1.001 + p * 1.001;
  }
  std::vector<Impl> im; impls_of(k, im, rep);
  char wb[40];
  for (auto& i : im) {
    std::vector<float> v;
    run(i.fn, v, nullptr);
    for (int q = 0; q < N; q++)
      if (!(std::fabs((double)v[q] - ref[q]) <= E[q])) C15_FAIL(k.name, "mismatch", "comb_filter_const %s: T=%d N=%d offsets %d/%d inplace=%d data %s gains %g %g %g sample %d: %.9g vs C %.9g (bound %.3g)", where(i, wb, sizeof wb), T, N, ox, oy, (int)inplace, FCLASS_NAME[cx], g10, g11, g12, q, v[q], ref[q], E[q]);
  }
  if (inplace) rep.label("comb:in-place");
  rep.note("comb_filter_const T=%d N=%d off=%d/%d inplace=%d data=%s gains=%g,%g,%g", T, N, ox, oy, (int)inplace, FCLASS_NAME[cx], g10, g11, g12);
  return 0;
}

// ---- op_pvq_search: independent greedy model --------------------------------
// Both library versions project onto the pyramid (K > N/2) with floor(X*(K+0.8)/sum|X|) and then add the remaining
// pulses one at a time at the position maximising (xy+X_j)/sqrt(yy+1+2*y_j).  The C code evaluates that in single
// precision, the SSE2 code with rcpps/rsqrtps (relative error <= 1.5*2^-12 each, Intel SDM).  A pulse vector is accepted
// iff it can be produced by that search when every comparison may be off by a relative PVQ_DELTA.
const double PVQ_DELTA = 1.0 / 512;
struct PvqModel {
  int N, K;
  std::vector<double> X;           // magnitudes the search works on
  std::vector<int> lo, hi;         // admissible projection per position
  bool borderline = false;         // sum|X| too close to one of the two thresholds
  long nodes = 0; bool ambiguous = false;
  std::unordered_set<uint64_t> seen;
  void init(const float* x, int n, int k) {
    N = n; K = k; X.resize(n); lo.assign(n, 0); hi.assign(n, 0);
    for (int j = 0; j < n; j++) X[j] = std::fabs((double)x[j]);
    if (K > (N >> 1)) {
      double sum = 0; for (double v : X) sum += v;
      const double EPS = 1e-15;
      if ((sum > EPS * 0.5 && sum < EPS * 2) || (sum > 32 && sum < 128)) borderline = true;
      if (!(sum > EPS && sum < 64)) { X[0] = 1.0; for (int j = 1; j < n; j++) X[j] = 0; sum = 1.0; }
      for (int j = 0; j < n; j++) { double rx = (K + 0.8) * X[j] / sum; lo[j] = (int)std::floor(rx * (1 - PVQ_DELTA)); hi[j] = (int)std::floor(rx * (1 + PVQ_DELTA)); if (lo[j] != hi[j]) ambiguous = true; }
    }
  }
  // 0 reachable, 1 unreachable, 2 gave up
  int greedy(std::vector<int>& cur, const std::vector<int>& t, int left, double xy, double yy) {
    if (left == 0) return 0;
    if (++nodes > 20000) return 2;
    uint64_t h = fnv1a(cur.data(), cur.size() * sizeof(int));
    if (!seen.insert(h).second) return 1;
    std::vector<double> rj(N);
    double rmax = 0, yy1 = yy + 1;
    for (int j = 0; j < N; j++) { rj[j] = (xy + X[j]) / std::sqrt(yy1 + 2.0 * cur[j]); if (rj[j] > rmax) rmax = rj[j]; }
    int nadm = 0; bool gaveup = false;
    for (int j = 0; j < N; j++) if (rj[j] >= rmax * (1 - PVQ_DELTA)) nadm++;
    if (nadm > 1) ambiguous = true;
    for (int j = 0; j < N; j++) {
      if (!(rj[j] >= rmax * (1 - PVQ_DELTA)) || cur[j] >= t[j]) continue;
      double nxy = xy + X[j], nyy = yy1 + 2.0 * cur[j];
      cur[j]++;
      int r = greedy(cur, t, left - 1, nxy, nyy);
      cur[j]--;
      if (r == 0) return 0;
      if (r == 2) gaveup = true;
    }
    return gaveup ? 2 : 1;
  }
  int reachable(const std::vector<int>& t) {
    std::vector<int> cur(N, 0);
    if (K > (N >> 1)) {
      std::vector<int> amb;
      for (int j = 0; j < N; j++) { if (t[j] < lo[j]) return 1; cur[j] = lo[j]; if (hi[j] > lo[j] && t[j] > lo[j]) amb.push_back(j); }
      if (amb.size() > 8) return 2;
      bool gaveup = false;
      for (unsigned m = 0; m < (1u << amb.size()); m++) {
        std::vector<int> c2(cur);
        for (size_t b = 0; b < amb.size(); b++) if (m >> b & 1) c2[amb[b]] = std::min(hi[amb[b]], t[amb[b]]);
        int tot = 0; double xy = 0, yy = 0;
        for (int j = 0; j < N; j++) { tot += c2[j]; xy += X[j] * c2[j]; yy += (double)c2[j] * c2[j]; }
        if (tot > K) continue;
        if (K - tot > N + 3) { c2[0] += K - tot; if (c2 == t) return 0; continue; }
        seen.clear();
        int r = greedy(c2, t, K - tot, xy, yy);
        if (r == 0) return 0;
        if (r == 2) gaveup = true;
      }
      return gaveup ? 2 : 1;
    }
    if (K > N + 3) { cur[0] = K; return cur == t ? 0 : 1; }
    seen.clear();
    return greedy(cur, t, K, 0, 0);
  }
};

enum { P_UNIT = 0, P_SPARSE, P_EQUAL, P_ZERO, P_TINY, P_HUGE, P_SMALLNORM, P_NEG0, P_NCLASS };
const char* const PCLASS_NAME[P_NCLASS] = {"unit-norm", "sparse", "equal-magnitudes", "zero", "tiny", "huge", "small-norm", "negative-zero"};

int chk_pvq(Report& rep, int N, int K, int ox, int oi, int cls, uint32_t seed) {
  const KernelView k = view(c15_kernels[C15_K_OP_PVQ_SEARCH]);
  if (check_table_levels(k, rep)) return 1;
  if (N < 2) N = 2;
  if (K < 1) K = 1;
  if (cls == P_TINY && K <= (N >> 1)) cls = P_UNIT;     // without the projection the C comparison squares the values: stay in the codec's range
  Rng r(seed);
  std::vector<float> X0(N);
  double nrm = 0;
  for (int j = 0; j < N; j++) {
    double v;
    switch (cls) {
      case P_SPARSE: v = (r.next() % 5 == 0) ? r.gauss() : 0.0; break;
      case P_EQUAL: v = (r.next() & 1) ? 1.0 : -1.0; break;
      case P_ZERO: v = 0; break;
      case P_NEG0: v = (r.next() & 1) ? -0.0 : r.gauss() * ((r.next() & 3) ? 0.0 : 1.0); break;
      default: v = r.gauss(); break;
    }
    X0[j] = (float)v; nrm += v * v;
  }
  double scale = nrm > 0 ? 1.0 / std::sqrt(nrm) : 1.0;
  if (cls == P_TINY) scale *= 1e-20;
  else if (cls == P_HUGE) scale *= 200.0 * std::sqrt((double)N);
  else if (cls == P_SMALLNORM) scale *= std::pow(10.0, -6.0 * r.unit());
  else scale *= 0.5 + 1.5 * r.unit();
  for (int j = 0; j < N; j++) X0[j] = (float)(X0[j] * scale);
  PvqModel base; base.init(X0.data(), N, K);
  if (base.borderline) { rep.label("pvq:borderline-sum-skipped"); return 0; }
  std::vector<Impl> im; impls_of(k, im, rep);
  im.insert(im.begin(), Impl{k.sym[0], 0, -1});
  std::vector<int> first;
  char wb[40];
  for (auto& i : im) {
    OffBuf<float> X(N, ox);
    memcpy(X.p, X0.data(), N * sizeof(float));
    OffBuf<int> iy((size_t)N + 3, oi);                 // alg_quant() allocates N+3 ("padding for SSE")
    for (int j = 0; j < N + 3; j++) iy[j] = 0x5A5A5A5A;
    float yy = ((c15_pvq_fn)i.fn)(X.p, iy.p, K, N, i.level);
    rep.count();
    const char* w = i.level == 0 && i.row < 0 ? "C function" : where(i, wb, sizeof wb);
    long tot = 0; double yy2 = 0; std::vector<int> t(N);
    for (int j = 0; j < N; j++) {
      int v = iy[j];
      if (v < -K || v > K) C15_FAIL(k.name, "invalid-pulses", "op_pvq_search %s: N=%d K=%d data %s: iy[%d]=%d", w, N, K, PCLASS_NAME[cls], j, v);
      if ((X0[j] < 0 && v > 0) || (!(X0[j] < 0) && v < 0)) C15_FAIL(k.name, "sign", "op_pvq_search %s: N=%d K=%d data %s: iy[%d]=%d for X=%g", w, N, K, PCLASS_NAME[cls], j, v, X0[j]);
      t[j] = v < 0 ? -v : v; tot += t[j]; yy2 += (double)v * v;
    }
    if (tot != K) C15_FAIL(k.name, "invalid-pulses", "op_pvq_search %s: N=%d K=%d data %s: %ld pulses placed", w, N, K, PCLASS_NAME[cls], tot);
    if ((double)yy != yy2) C15_FAIL(k.name, "energy", "op_pvq_search %s: N=%d K=%d data %s: returned yy=%g, pulse vector has %g", w, N, K, PCLASS_NAME[cls], yy, yy2);
    PvqModel m = base;
    int rr = m.reachable(t);
    if (rr == 1) {
      double sc = 0; for (int j = 0; j < N; j++) sc += base.X[j] * t[j];
      C15_FAIL(k.name, "not-a-greedy-result", "op_pvq_search %s: N=%d K=%d data %s seed %u offsets %d/%d: the pulse vector (score %.9g) cannot be produced by the projection + greedy search within a relative comparison error of %.4g", w, N, K, PCLASS_NAME[cls], seed, ox, oi, sc / std::sqrt(yy2 > 0 ? yy2 : 1), PVQ_DELTA);
    }
    if (rr == 2) rep.label("pvq:model-gave-up");
    else rep.label(m.ambiguous ? "pvq:verified-with-near-ties" : "pvq:verified-unique-path");
    if (first.empty()) first = t; else rep.label(first == t ? "pvq:simd-identical-to-c" : "pvq:simd-differs-from-c");
  }
  rep.labelf("pvq:%s", PCLASS_NAME[cls]);
  rep.note("op_pvq_search N=%d K=%d off=%d/%d data=%s", N, K, ox, oi, PCLASS_NAME[cls]);
  return 0;
}

// ---- silk_inner_product_FLP (double accumulation) -----------------------------
typedef double (*flp_fn)(const silk_float*, const silk_float*, opus_int);
KernelView flp_view() {
  KernelView v; v.name = "silk_inner_product_FLP";
  v.sym[0] = (void*)silk_inner_product_FLP_c; v.sym[1] = v.sym[2] = v.sym[3] = nullptr; v.sym[4] = (void*)silk_inner_product_FLP_avx2;
  v.table = (void* const*)SILK_INNER_PRODUCT_FLP_IMPL; v.c_is_table_symbol = 1; return v;
}
int chk_flp(Report& rep, int N, int ox, int oy, int cx, int cy, uint32_t seed) {
  const KernelView k = flp_view();
  if (check_table_levels(k, rep)) return 1;
  OffBuf<float> x(N, ox), y(N, oy);
  Rng r(seed); fill_f(x.p, N, cx, r); fill_f(y.p, N, cy, r);
  double sabs = 0; for (int i = 0; i < N; i++) sabs += std::fabs((double)x[i] * (double)y[i]);
  // float*float is exact in double; only the order of the double additions differs
  double tol = 4.0 * (N < 1 ? 1 : N) * DBL_EPSILON * sabs;
  double ref = ((flp_fn)k.sym[0])(x.p, y.p, N);
  rep.count();
  std::vector<Impl> im; impls_of(k, im, rep);
  char wb[40];
  for (auto& i : im) {
    double v = ((flp_fn)i.fn)(x.p, y.p, N);
    rep.count();
    if (!(std::fabs(v - ref) <= tol)) C15_FAIL(k.name, "mismatch", "silk_inner_product_FLP %s: N=%d offsets %d/%d data %s/%s: %.17g vs C %.17g (|diff| %.3g > %.3g)", where(i, wb, sizeof wb), N, ox, oy, FCLASS_NAME[cx], FCLASS_NAME[cy], v, ref, std::fabs(v - ref), tol);
  }
  rep.note("silk_inner_product_FLP N=%d off=%d/%d data=%s/%s", N, ox, oy, FCLASS_NAME[cx], FCLASS_NAME[cy]);
  return 0;
}
#endif  // !FIXED_POINT

#ifdef FIXED_POINT
// ------------------------------- fixed-point CELT kernels --------------------
// The portable kernels accumulate in opus_val32 without saturation: callers guarantee that no partial sum
// leaves the 32-bit range (signed overflow would be undefined in the C version).  The generator enforces
// that precondition by halving the data until sum |x_j*y_(j+lag)| (+ |initial sum|) stays below 2^31.
void fit_no_overflow(short* x, int nx, short* y, int ny, int nlags, const int* init /* nlags or null */) {
  for (int round = 0; round < 20; round++) {
    bool ok = true;
    for (int q = 0; q < nlags && ok; q++) {
      int64_t s = init ? (init[q] < 0 ? -(int64_t)init[q] : init[q]) : 0;
      for (int j = 0; j < nx && j + q < ny; j++) { int64_t t = (int64_t)x[j] * y[j + q]; s += t < 0 ? -t : t; }
      if (s >= 2147483647ll) ok = false;
    }
    if (ok) return;
    if (round & 1) for (int j = 0; j < nx; j++) x[j] = (short)(x[j] / 2);
    else for (int j = 0; j < ny; j++) y[j] = (short)(y[j] / 2);
  }
}

int chk_inner(Report& rep, int N, int ox, int oy, int cx, int cy, uint32_t seed) {
  const KernelView k = view(c15_kernels[C15_K_CELT_INNER_PROD]);
  if (check_table_levels(k, rep)) return 1;
  OffBuf<short> x(N, ox), y(N, oy);
  Rng r(seed); fill_i16(x.p, N, cx, r); fill_i16(y.p, N, cy, r);
  fit_no_overflow(x.p, N, y.p, N, 1, nullptr);
  int64_t exact = 0; for (int i = 0; i < N; i++) exact += (int64_t)x[i] * y[i];
  int ref = ((c15_inner_fn)k.sym[0])(x.p, y.p, N);
  rep.count();
  if (ref != exact) C15_FAIL(k.name, "c-vs-exact", "celt_inner_prod_c N=%d: %d, exact %lld", N, ref, (long long)exact);
  std::vector<Impl> im; impls_of(k, im, rep);
  char wb[40];
  for (auto& i : im) {
    int v = ((c15_inner_fn)i.fn)(x.p, y.p, N);
    rep.count();
    if (v != ref) C15_FAIL(k.name, "mismatch", "celt_inner_prod %s: N=%d offsets %d/%d data %s/%s: %d vs C %d", where(i, wb, sizeof wb), N, ox, oy, ICLASS_NAME[cx], ICLASS_NAME[cy], v, ref);
  }
  rep.note("celt_inner_prod N=%d off=%d/%d data=%s/%s", N, ox, oy, ICLASS_NAME[cx], ICLASS_NAME[cy]);
  return 0;
}

int chk_xcorr_kernel(Report& rep, int len, int ox, int oy, int cx, int cy, uint32_t seed) {
  const KernelView k = view(c15_kernels[C15_K_XCORR_KERNEL]);
  if (check_table_levels(k, rep)) return 1;
  // contract celt_assert(len>=3); every call site in the codec has len >= 4 (the SSE4.1 version loads x[len-4..len-1])
  if (len < 4) len = 4;
  OffBuf<short> x(len, ox), y((size_t)len + 3, oy);
  Rng r(seed); fill_i16(x.p, len, cx, r); fill_i16(y.p, (size_t)len + 3, cy, r);
  int s0[4]; for (int q = 0; q < 4; q++) s0[q] = (cx + cy) & 1 ? 0 : r.range(-(1 << 27), 1 << 27);
  fit_no_overflow(x.p, len, y.p, len + 3, 4, s0);
  int ref[4]; memcpy(ref, s0, sizeof ref);
  ((c15_xcorr_fn)k.sym[0])(x.p, y.p, ref, len);
  rep.count();
  for (int q = 0; q < 4; q++) { int64_t e = s0[q]; for (int j = 0; j < len; j++) e += (int64_t)x[j] * y[j + q]; if (e != ref[q]) C15_FAIL(k.name, "c-vs-exact", "xcorr_kernel_c len=%d lag %d: %d, exact %lld", len, q, ref[q], (long long)e); }
  std::vector<Impl> im; impls_of(k, im, rep);
  char wb[40];
  for (auto& i : im) {
    HeapBuf<int> v(4); memcpy(v.p, s0, sizeof s0);
    ((c15_xcorr_fn)i.fn)(x.p, y.p, v.p, len);
    rep.count();
    if (memcmp(v.p, ref, sizeof ref)) C15_FAIL(k.name, "mismatch", "xcorr_kernel %s: len=%d offsets %d/%d data %s/%s: {%d,%d,%d,%d} vs C {%d,%d,%d,%d}", where(i, wb, sizeof wb), len, ox, oy, ICLASS_NAME[cx], ICLASS_NAME[cy], v[0], v[1], v[2], v[3], ref[0], ref[1], ref[2], ref[3]);
  }
  rep.note("xcorr_kernel len=%d off=%d/%d data=%s/%s", len, ox, oy, ICLASS_NAME[cx], ICLASS_NAME[cy]);
  return 0;
}

int chk_pitch_xcorr(Report& rep, int len, int max_pitch, int ox, int oy, int oz, int cx, int cy, uint32_t seed) {
  const KernelView k = view(c15_kernels[C15_K_CELT_PITCH_XCORR]);
  if (len < 4) len = 4;
  if (max_pitch < 1) max_pitch = 1;
  ox &= ~1;                                    // celt_sig_assert: _x is 32-bit aligned
  size_t ny = (size_t)len + max_pitch - 1;
  OffBuf<short> x(len, ox), y(ny, oy);
  Rng r(seed); fill_i16(x.p, len, cx, r); fill_i16(y.p, ny, cy, r);
  fit_no_overflow(x.p, len, y.p, (int)ny, max_pitch, nullptr);
  OffBuf<int> ref(max_pitch, oz);
  int mref = ((c15_pxcorr_fn)k.sym[0])(x.p, y.p, ref.p, len, max_pitch, 0);
  rep.count();
  int64_t mx = 1;
  for (int q = 0; q < max_pitch; q++) { int64_t e = 0; for (int j = 0; j < len; j++) e += (int64_t)x[j] * y[j + q]; if (e != ref[q]) C15_FAIL(k.name, "c-vs-exact", "celt_pitch_xcorr_c(arch 0) len=%d lag %d: %d, exact %lld", len, q, ref[q], (long long)e); if (e > mx) mx = e; }
  if (mref != mx) C15_FAIL(k.name, "c-vs-exact", "celt_pitch_xcorr_c(arch 0) len=%d max_pitch=%d returned maxcorr %d, exact %lld", len, max_pitch, mref, (long long)mx);
  for (int a = 1; a <= host_level(); a++) {
    OffBuf<int> v(max_pitch, oz);
    for (int q = 0; q < max_pitch; q++) v[q] = 0x5A5A5A5A;
    int mv = ((c15_pxcorr_fn)k.sym[0])(x.p, y.p, v.p, len, max_pitch, a);
    rep.count(); rep.labelf("%s@arch%d", k.name, a);
    if (mv != mref || memcmp(v.p, ref.p, sizeof(int) * max_pitch)) {
      int q = 0; while (q < max_pitch - 1 && v[q] == ref[q]) q++;
      C15_FAIL(k.name, "mismatch", "celt_pitch_xcorr(arch %d): len=%d max_pitch=%d offsets %d/%d/%d data %s/%s: maxcorr %d vs %d, first difference at lag %d: %d vs C(arch 0) %d", a, len, max_pitch, ox, oy, oz, ICLASS_NAME[cx], ICLASS_NAME[cy], mv, mref, q, v[q], ref[q]);
    }
  }
  rep.labelf("kernel:%s", k.name); rep.label(levels_label());
  rep.note("celt_pitch_xcorr len=%d max_pitch=%d off=%d/%d/%d data=%s/%s", len, max_pitch, ox, oy, oz, ICLASS_NAME[cx], ICLASS_NAME[cy]);
  return 0;
}

// y[i] = sat16( x[i] + round( sum_j num[j]*x[i-1-j] / 2^12 ) ), x has `ord` samples of history
int chk_fir(Report& rep, int N, int ord, int ox, int oy, int on, int cx, int cn, uint32_t seed) {
  const KernelView k = view(c15_kernels[C15_K_CELT_FIR]);
  if (check_table_levels(k, rep)) return 1;
  if (ord < 4) ord = 4;                        // the dispatched xcorr_kernel is called with len = ord
  OffBuf<short> xb((size_t)ord + N, ox), num(ord, on);
  Rng r(seed); fill_i16(xb.p, (size_t)ord + N, cx, r); fill_i16(num.p, ord, cn, r);
  short* x = xb.p + ord;
  // precondition of the C version: x[i]<<12 + sum never overflows 32 bits
  for (int round = 0; round < 24; round++) {
    bool ok = true;
    for (int i = 0; i < N && ok; i++) {
      int64_t s = (int64_t)(x[i] < 0 ? -x[i] : x[i]) << 12;
      for (int j = 0; j < ord; j++) { int64_t t = (int64_t)num[j] * x[i - 1 - j]; s += t < 0 ? -t : t; }
      if (s >= 2147483647ll - 4096) ok = false;
    }
    if (ok) break;
    if (round % 3 == 2) for (size_t j = 0; j < (size_t)ord + N; j++) xb[j] = (short)(xb[j] / 2);
    else for (int j = 0; j < ord; j++) num[j] = (short)(num[j] / 2);
  }
  // Finding C15F1: where x[i] + round(sum/4096) <= -32768 the C version returns -32767 (SATURATE(x, 32767) is symmetric)
  // and celt_fir_sse4_1 returns -32768 (packssdw).  The class is avoided by construction unless the finding is replayed.
  bool f21 = false;
  auto hits_min = [&]() { for (int i = 0; i < N; i++) { int64_t s = 0; for (int j = 0; j < ord; j++) s += (int64_t)num[j] * x[i - 1 - j]; if (x[i] + ((s + 2048) >> 12) <= -32768) return true; } return false; };
  if (hits_min()) {
    if (rep.exclude("C15F1")) {
      for (int round = 0; round < 20 && hits_min(); round++) {
        for (int j = 0; j < ord; j++) num[j] = (short)(num[j] / 2);
        for (int i = 0; i < N; i++) if (x[i] < -32767) x[i] = -32767;
      }
    } else { rep.label("fir:result-below-minus-32767"); f21 = true; }
  }
  OffBuf<short> ref(N, oy);
  ((c15_fir_fn)k.sym[0])(x, num.p, ref.p, N, ord, 0);
  rep.count();
  std::vector<Impl> im; impls_of(k, im, rep);
  char wb[40];
  // C function with arch = a (dispatched xcorr_kernel inside), SIMD symbol, table rows
  for (int a = 1; a <= host_level(); a++) {
    OffBuf<short> v(N, oy); for (int q = 0; q < N; q++) v[q] = 0x5A5A;
    ((c15_fir_fn)k.sym[0])(x, num.p, v.p, N, ord, a);
    rep.count();
    if (N && memcmp(v.p, ref.p, sizeof(short) * N)) { int q = 0; while (q < N - 1 && v[q] == ref[q]) q++; C15_FAIL(k.name, "mismatch", "celt_fir_c(arch %d): N=%d ord=%d offsets %d/%d/%d data %s/%s: y[%d]=%d vs arch 0 %d", a, N, ord, ox, oy, on, ICLASS_NAME[cx], ICLASS_NAME[cn], q, v[q], ref[q]); }
  }
  for (auto& i : im) {
    OffBuf<short> v(N, oy); for (int q = 0; q < N; q++) v[q] = 0x5A5A;
    ((c15_fir_fn)i.fn)(x, num.p, v.p, N, ord, i.level);
    rep.count();
    if (N && memcmp(v.p, ref.p, sizeof(short) * N)) {
      int q = 0; while (q < N - 1 && v[q] == ref[q]) q++;
      bool only_f21 = f21; for (int t = 0; t < N; t++) if (v[t] != ref[t] && !(v[t] == -32768 && ref[t] == -32767)) only_f21 = false;
      if (only_f21) return rep.fail("c15:celt_fir-saturates-at-minus-32768-vs-32767", "celt_fir %s: N=%d ord=%d offsets %d/%d/%d data %s/%s: y[%d]=%d vs C %d (x[i] + round(sum/4096) <= -32768: SATURATE(.,32767) in celt_fir_c is symmetric, packssdw is not)", where(i, wb, sizeof wb), N, ord, ox, oy, on, ICLASS_NAME[cx], ICLASS_NAME[cn], q, v[q], ref[q]);
      C15_FAIL(k.name, "mismatch", "celt_fir %s: N=%d ord=%d offsets %d/%d/%d data %s/%s: y[%d]=%d vs C %d", where(i, wb, sizeof wb), N, ord, ox, oy, on, ICLASS_NAME[cx], ICLASS_NAME[cn], q, v[q], ref[q]);
    }
  }
  rep.note("celt_fir N=%d ord=%d off=%d/%d/%d data=%s/%s", N, ord, ox, oy, on, ICLASS_NAME[cx], ICLASS_NAME[cn]);
  return 0;
}

// ---- silk_inner_prod16 (64-bit accumulation) --------------------------------
typedef opus_int64 (*ip16_fn)(const opus_int16*, const opus_int16*, const opus_int);
extern "C" opus_int64 silk_inner_prod16_c(const opus_int16*, const opus_int16*, const opus_int);
KernelView ip16_view() {
  KernelView v; v.name = "silk_inner_prod16";
  v.sym[0] = (void*)silk_inner_prod16_c; v.sym[1] = v.sym[2] = v.sym[4] = nullptr; v.sym[3] = (void*)silk_inner_prod16_sse4_1;
  v.table = (void* const*)SILK_INNER_PROD16_IMPL; v.c_is_table_symbol = 1; return v;
}
int chk_ip16(Report& rep, int N, int ox, int oy, int cx, int cy, uint32_t seed) {
  const KernelView k = ip16_view();
  if (check_table_levels(k, rep)) return 1;
  OffBuf<short> x(N, ox), y(N, oy);
  Rng r(seed); fill_i16(x.p, N, cx, r); fill_i16(y.p, N, cy, r);
  int64_t exact = 0; for (int i = 0; i < N; i++) exact += (int64_t)x[i] * y[i];
  opus_int64 ref = ((ip16_fn)k.sym[0])(x.p, y.p, N);
  rep.count();
  if (ref != exact) C15_FAIL(k.name, "c-vs-exact", "silk_inner_prod16_c N=%d: %lld, exact %lld", N, (long long)ref, (long long)exact);
  std::vector<Impl> im; impls_of(k, im, rep);
  char wb[40];
  for (auto& i : im) {
    opus_int64 v = ((ip16_fn)i.fn)(x.p, y.p, N);
    rep.count();
    if (v != ref) C15_FAIL(k.name, "mismatch", "silk_inner_prod16 %s: N=%d offsets %d/%d data %s/%s: %lld vs C %lld", where(i, wb, sizeof wb), N, ox, oy, ICLASS_NAME[cx], ICLASS_NAME[cy], (long long)v, (long long)ref);
  }
  rep.note("silk_inner_prod16 N=%d off=%d/%d data=%s/%s", N, ox, oy, ICLASS_NAME[cx], ICLASS_NAME[cy]);
  return 0;
}
#endif  // FIXED_POINT

// ------------------------------- SILK integer kernels (both builds) -----------
typedef opus_int (*vad_fn)(silk_encoder_state*, const opus_int16*);
typedef void (*vq_fn)(opus_int8*, opus_int32*, opus_int32*, opus_int*, const opus_int32*, const opus_int32*, const opus_int8*, const opus_uint8*, const opus_uint8*, const opus_int, const opus_int32, const opus_int);
typedef void (*nsq_fn)(const silk_encoder_state*, silk_nsq_state*, SideInfoIndices*, const opus_int16*, opus_int8*, const opus_int16*, const opus_int16*, const opus_int16*, const opus_int*, const opus_int*, const opus_int32*, const opus_int32*, const opus_int*, const opus_int, const opus_int);
typedef void (*burg_fn)(opus_int32*, opus_int*, opus_int32*, const opus_int16*, const opus_int32, const opus_int, const opus_int, const opus_int, int);

}  // namespace
// the portable functions; every other reference to them is redirected to the __wrap_ functions below (-Wl,--wrap)
extern "C" {
opus_int __real_silk_VAD_GetSA_Q8_c(silk_encoder_state*, const opus_int16*);
void __real_silk_VQ_WMat_EC_c(opus_int8*, opus_int32*, opus_int32*, opus_int*, const opus_int32*, const opus_int32*, const opus_int8*, const opus_uint8*, const opus_uint8*, const opus_int, const opus_int32, const opus_int);
void __real_silk_NSQ_c(const silk_encoder_state*, silk_nsq_state*, SideInfoIndices*, const opus_int16*, opus_int8*, const opus_int16*, const opus_int16*, const opus_int16*, const opus_int*, const opus_int*, const opus_int32*, const opus_int32*, const opus_int*, const opus_int, const opus_int);
void __real_silk_NSQ_del_dec_c(const silk_encoder_state*, silk_nsq_state*, SideInfoIndices*, const opus_int16*, opus_int8*, const opus_int16*, const opus_int16*, const opus_int16*, const opus_int*, const opus_int*, const opus_int32*, const opus_int32*, const opus_int*, const opus_int, const opus_int);
#ifdef FIXED_POINT
void __real_silk_burg_modified_c(opus_int32*, opus_int*, opus_int32*, const opus_int16*, const opus_int32, const opus_int, const opus_int, const opus_int, int);
#endif
}
namespace {

// table rows that mean "C" hold the address of silk_X_c, which the linker resolved to the wrapper
KernelView silk_view(const char* name, void* wrapped_c, void* sse41, void* avx2, void* const* table) {
  KernelView v; v.name = name; v.sym[0] = wrapped_c; v.sym[1] = v.sym[2] = nullptr; v.sym[3] = sse41; v.sym[4] = avx2; v.table = table; v.c_is_table_symbol = 1; return v;
}
KernelView vad_view() { return silk_view("silk_VAD_GetSA_Q8", (void*)silk_VAD_GetSA_Q8_c, (void*)silk_VAD_GetSA_Q8_sse4_1, nullptr, (void* const*)SILK_VAD_GETSA_Q8_IMPL); }
KernelView vq_view() { return silk_view("silk_VQ_WMat_EC", (void*)silk_VQ_WMat_EC_c, (void*)silk_VQ_WMat_EC_sse4_1, nullptr, (void* const*)SILK_VQ_WMAT_EC_IMPL); }
KernelView nsq_view() { return silk_view("silk_NSQ", (void*)silk_NSQ_c, (void*)silk_NSQ_sse4_1, nullptr, (void* const*)SILK_NSQ_IMPL); }
KernelView nsqdd_view() { return silk_view("silk_NSQ_del_dec", (void*)silk_NSQ_del_dec_c, (void*)silk_NSQ_del_dec_sse4_1, (void*)silk_NSQ_del_dec_avx2, (void* const*)SILK_NSQ_DEL_DEC_IMPL); }
#ifdef FIXED_POINT
KernelView burg_view() { return silk_view("silk_burg_modified", (void*)silk_burg_modified_c, (void*)silk_burg_modified_sse4_1, nullptr, (void* const*)SILK_BURG_MODIFIED_IMPL); }
#endif

// state shared with the interception wrappers
struct Capture {
  bool active = false, busy = false;
  Report* rep = nullptr;
  bool failed = false; std::string sig, msg;
  int calls[5] = {0, 0, 0, 0, 0};
  void fail(const std::string& s, const char* fmt, ...) {
    if (failed) return;
    failed = true; sig = s;
    char buf[900]; va_list ap; va_start(ap, fmt); vsnprintf(buf, sizeof buf, fmt, ap); va_end(ap); msg = buf;
  }
} g_cap;
struct BusyGuard { bool prev; BusyGuard() : prev(g_cap.busy) { g_cap.busy = true; } ~BusyGuard() { g_cap.busy = prev; } };

// ---- differential bodies (used by the synthetic families and by the wrappers) ---
// VAD: `st` is the state the C function runs on; every implementation gets a private copy of the state before the call.
int vad_diff(Report& rep, silk_encoder_state* st, const opus_int16* pIn, const char* origin) {
  BusyGuard g;
  const KernelView k = vad_view();
  std::vector<Impl> im; impls_of(k, im, rep);
  int fl = st->frame_length;
  OffBuf<opus_int16> in(fl, 0); memcpy(in.p, pIn, sizeof(opus_int16) * fl);
  std::vector<HeapBuf<silk_encoder_state>*> cp; std::vector<int> rets;
  for (auto& i : im) {
    auto* s2 = new HeapBuf<silk_encoder_state>(1); memcpy(s2->p, st, sizeof(silk_encoder_state));
    rets.push_back(((vad_fn)i.fn)(s2->p, in.p)); cp.push_back(s2); rep.count();
  }
  int rc = __real_silk_VAD_GetSA_Q8_c(st, pIn);
  rep.count();
  char wb[40];
  for (size_t q = 0; q < im.size(); q++) {
    if (rets[q] != rc || memcmp(cp[q]->p, st, sizeof(silk_encoder_state))) {
      silk_encoder_state* s2 = cp[q]->p;
      g_cap.fail(sigf(k.name, "mismatch"), "silk_VAD_GetSA_Q8 %s (%s): frame_length=%d fs_kHz=%d: ret %d vs %d, speech_activity_Q8 %d vs C %d, input_tilt_Q15 %d vs %d, XnrgSubfr {%d,%d,%d,%d} vs {%d,%d,%d,%d}", where(im[q], wb, sizeof wb), origin, fl, st->fs_kHz, rets[q], rc,
                 s2->speech_activity_Q8, st->speech_activity_Q8, s2->input_tilt_Q15, st->input_tilt_Q15, s2->sVAD.XnrgSubfr[0], s2->sVAD.XnrgSubfr[1], s2->sVAD.XnrgSubfr[2], s2->sVAD.XnrgSubfr[3], st->sVAD.XnrgSubfr[0], st->sVAD.XnrgSubfr[1], st->sVAD.XnrgSubfr[2], st->sVAD.XnrgSubfr[3]);
    }
    delete cp[q];
  }
  return rc;
}

void vq_diff(Report& rep, opus_int8* ind, opus_int32* res_nrg_Q15, opus_int32* rate_dist_Q8, opus_int* gain_Q7, const opus_int32* XX_Q17, const opus_int32* xX_Q17, const opus_int8* cb_Q7, const opus_uint8* cb_gain_Q7, const opus_uint8* cl_Q5, opus_int subfr_len, opus_int32 max_gain_Q7, opus_int L, const char* origin, int oxx) {
  BusyGuard g;
  const KernelView k = vq_view();
  std::vector<Impl> im; impls_of(k, im, rep);
  // exact-size copies of every input so that ASan sees a read past the 25 / 5 / 5*L / L / L elements
  OffBuf<opus_int32> XX(25, oxx), xX(5, oxx & 3); OffBuf<opus_int8> cb((size_t)L * LTP_ORDER, oxx & 7); OffBuf<opus_uint8> cbg(L, 0), cl(L, 0);
  memcpy(XX.p, XX_Q17, 25 * sizeof(opus_int32)); memcpy(xX.p, xX_Q17, 5 * sizeof(opus_int32)); memcpy(cb.p, cb_Q7, (size_t)L * LTP_ORDER); memcpy(cbg.p, cb_gain_Q7, L); memcpy(cl.p, cl_Q5, L);
  int gain_in = *gain_Q7;
  __real_silk_VQ_WMat_EC_c(ind, res_nrg_Q15, rate_dist_Q8, gain_Q7, XX_Q17, xX_Q17, cb_Q7, cb_gain_Q7, cl_Q5, subfr_len, max_gain_Q7, L);
  rep.count();
  char wb[40];
  for (auto& i : im) {
    opus_int8 ind2 = 99; opus_int32 nrg2 = -1, rd2 = -1; opus_int g2 = gain_in;
    ((vq_fn)i.fn)(&ind2, &nrg2, &rd2, &g2, XX.p, xX.p, cb.p, cbg.p, cl.p, subfr_len, max_gain_Q7, L);
    rep.count();
    if (ind2 != *ind || nrg2 != *res_nrg_Q15 || rd2 != *rate_dist_Q8 || g2 != *gain_Q7)
      g_cap.fail(sigf(k.name, "mismatch"), "silk_VQ_WMat_EC %s (%s): L=%d subfr_len=%d max_gain_Q7=%d: ind %d vs C %d, res_nrg_Q15 %d vs %d, rate_dist_Q8 %d vs %d, gain_Q7 %d vs %d; XX[0..4]={%d,%d,%d,%d,%d} xX={%d,%d,%d,%d,%d}", where(i, wb, sizeof wb), origin, L, subfr_len, max_gain_Q7, ind2, *ind, nrg2, *res_nrg_Q15, rd2, *rate_dist_Q8, g2, *gain_Q7,
                 XX_Q17[0], XX_Q17[1], XX_Q17[2], XX_Q17[3], XX_Q17[4], xX_Q17[0], xX_Q17[1], xX_Q17[2], xX_Q17[3], xX_Q17[4]);
  }
}

void nsq_diff(Report& rep, const KernelView& k, nsq_fn real_c, const silk_encoder_state* psEncC, silk_nsq_state* NSQ, SideInfoIndices* psIndices, const opus_int16* x16, opus_int8* pulses, const opus_int16* PredCoef_Q12, const opus_int16* LTPCoef_Q14, const opus_int16* AR_Q13, const opus_int* HarmShapeGain_Q14, const opus_int* Tilt_Q14, const opus_int32* LF_shp_Q14, const opus_int32* Gains_Q16, const opus_int* pitchL, opus_int Lambda_Q10, opus_int LTP_scale_Q14) {
  BusyGuard g;
  std::vector<Impl> im; impls_of(k, im, rep);
  int fl = psEncC->nb_subfr * psEncC->subfr_length;
  OffBuf<opus_int16> xin(fl, 0); memcpy(xin.p, x16, sizeof(opus_int16) * fl);
  struct Out { HeapBuf<silk_nsq_state> st{1}; SideInfoIndices ind; HeapBuf<opus_int8> pul; HeapBuf<silk_encoder_state> enc{1}; Out(int n) : pul(n) {} };
  std::vector<Out*> outs;
  for (auto& i : im) {
    Out* o = new Out(fl);
    memcpy(o->st.p, NSQ, sizeof(silk_nsq_state)); memcpy(&o->ind, psIndices, sizeof(SideInfoIndices)); memcpy(o->pul.p, pulses, fl);
    memcpy(o->enc.p, psEncC, sizeof(silk_encoder_state)); o->enc.p->arch = i.level;   // nested dispatch as at that level
    ((nsq_fn)i.fn)(o->enc.p, o->st.p, &o->ind, xin.p, o->pul.p, PredCoef_Q12, LTPCoef_Q14, AR_Q13, HarmShapeGain_Q14, Tilt_Q14, LF_shp_Q14, Gains_Q16, pitchL, Lambda_Q10, LTP_scale_Q14);
    rep.count(); outs.push_back(o);
  }
  real_c(psEncC, NSQ, psIndices, x16, pulses, PredCoef_Q12, LTPCoef_Q14, AR_Q13, HarmShapeGain_Q14, Tilt_Q14, LF_shp_Q14, Gains_Q16, pitchL, Lambda_Q10, LTP_scale_Q14);
  rep.count();
  char wb[40];
  for (size_t q = 0; q < im.size(); q++) {
    Out* o = outs[q];
    bool dp = memcmp(o->pul.p, pulses, fl) != 0, ds = memcmp(o->st.p, NSQ, sizeof(silk_nsq_state)) != 0, di = memcmp(&o->ind, psIndices, sizeof(SideInfoIndices)) != 0;
    // Finding C15F2: two helpers of NSQ_del_dec_avx2.c do not reproduce the C arithmetic once the quantiser state has run away
    // (all pulses at the +30/-31 limiter): silk_sar_round_smulww() scales the reconstructed sample with a 64-bit product
    // ("more correct ... won't overflow like the C code"; switched to the C formula only under OPUS_CHECK_ASM) while the C
    // code and the decoder wrap at 32 bits, and silk_mm_srai_round_epi32() rounds with (a+8)>>4, which wraps for the
    // saturated operand where silk_RSHIFT_ROUND() does not.  Both need values far beyond 16 bits, i.e. the AVX2 result
    // holds a saturated output sample: that observable class is excluded (tools/proposed_fix_C15F2.diff repairs both).
    bool f22 = false;
    if (im[q].fn == (void*)silk_NSQ_del_dec_avx2) for (int t = 0; t < psEncC->ltp_mem_length && !f22; t++) f22 = o->st.p->xq[t] >= 32767 || o->st.p->xq[t] <= -32768;
    if (f22) rep.label("silk_NSQ_del_dec:avx2-output-saturated");
    if ((dp || ds || di) && f22 && rep.exclude("C15F2")) { rep.label("silk_NSQ_del_dec:avx2-saturated-mismatch-excluded"); delete o; continue; }
    if (dp || ds || di) {
      int fp = 0; while (fp < fl - 1 && o->pul[fp] == pulses[fp]) fp++;
      char fld[160] = "";
      {
        const silk_nsq_state *a = o->st.p, *b = NSQ; int n = 0;
        #define C15_ARR(f, cnt) for (int t = 0; t < (int)(cnt) && !n; t++) if (a->f[t] != b->f[t]) n = snprintf(fld, sizeof fld, #f "[%d] %d vs C %d", t, (int)a->f[t], (int)b->f[t]);
        #define C15_SCL(f) if (!n && a->f != b->f) n = snprintf(fld, sizeof fld, #f " %d vs C %d", (int)a->f, (int)b->f);
        C15_ARR(xq, 2 * MAX_FRAME_LENGTH) C15_ARR(sLTP_shp_Q14, 2 * MAX_FRAME_LENGTH) C15_ARR(sLPC_Q14, MAX_SUB_FRAME_LENGTH + NSQ_LPC_BUF_LENGTH) C15_ARR(sAR2_Q14, MAX_SHAPE_LPC_ORDER)
        C15_SCL(sLF_AR_shp_Q14) C15_SCL(sDiff_shp_Q14) C15_SCL(lagPrev) C15_SCL(sLTP_buf_idx) C15_SCL(sLTP_shp_buf_idx) C15_SCL(rand_seed) C15_SCL(prev_gain_Q16) C15_SCL(rewhite_flag)
        #undef C15_ARR
        #undef C15_SCL
      }
      g_cap.fail(f22 ? std::string("c15:silk_NSQ_del_dec-avx2-saturated-output-differs") : sigf(k.name, "mismatch"), "%s %s: fs_kHz=%d nb_subfr=%d subfr_length=%d signalType=%d quantOffsetType=%d nStates=%d predictLPCOrder=%d shapingLPCOrder=%d warping_Q16=%d Lambda_Q10=%d: pulses %s (first at %d: %d vs C %d), NSQ state %s (first field: %s), indices %s (Seed %d vs %d)", k.name, where(im[q], wb, sizeof wb),
                 psEncC->fs_kHz, psEncC->nb_subfr, psEncC->subfr_length, psIndices->signalType, psIndices->quantOffsetType, psEncC->nStatesDelayedDecision, psEncC->predictLPCOrder, psEncC->shapingLPCOrder, psEncC->warping_Q16, Lambda_Q10,
                 dp ? "differ" : "equal", fp, o->pul[fp], pulses[fp], ds ? "differs" : "equal", fld, di ? "differ" : "equal", o->ind.Seed, psIndices->Seed);
    }
    delete o;
  }
  rep.labelf("%s:order%d/%d", k.name, psEncC->predictLPCOrder, psEncC->shapingLPCOrder);
  rep.labelf("%s:%s", k.name, psIndices->signalType == TYPE_VOICED ? "voiced" : "unvoiced");
  if (k.sym[4]) rep.labelf("%s:states%d%s", k.name, psEncC->nStatesDelayedDecision, psEncC->warping_Q16 ? "-warped" : "");
}

#ifdef FIXED_POINT
void burg_diff(Report& rep, opus_int32* res_nrg, opus_int* res_nrg_Q, opus_int32* A_Q16, const opus_int16* x, opus_int32 minInvGain_Q30, opus_int subfr_length, opus_int nb_subfr, opus_int D, const char* origin, int ox) {
  BusyGuard g;
  const KernelView k = burg_view();
  std::vector<Impl> im; impls_of(k, im, rep);
  size_t n = (size_t)subfr_length * nb_subfr;
  OffBuf<opus_int16> xin(n, ox & ~1); memcpy(xin.p, x, n * sizeof(opus_int16));   // celt_pitch_xcorr wants a 32-bit aligned x
  __real_silk_burg_modified_c(res_nrg, res_nrg_Q, A_Q16, x, minInvGain_Q30, subfr_length, nb_subfr, D, 0);
  rep.count();
  char wb[40];
  // the C function with arch = a (dispatched silk_inner_prod16 / celt_pitch_xcorr inside), then the SIMD symbol and rows
  for (int a = 1; a <= host_level() + (int)im.size(); a++) {
    bool viaC = a <= host_level();
    const Impl* i = viaC ? nullptr : &im[a - host_level() - 1];
    opus_int32 nrg2 = -1; opus_int q2 = -1; OffBuf<opus_int32> A2(D, 0);
    if (viaC) __real_silk_burg_modified_c(&nrg2, &q2, A2.p, xin.p, minInvGain_Q30, subfr_length, nb_subfr, D, a);
    else ((burg_fn)i->fn)(&nrg2, &q2, A2.p, xin.p, minInvGain_Q30, subfr_length, nb_subfr, D, i->level);
    rep.count();
    if (nrg2 != *res_nrg || q2 != *res_nrg_Q || memcmp(A2.p, A_Q16, sizeof(opus_int32) * D)) {
      int d = 0; while (d < D - 1 && A2[d] == A_Q16[d]) d++;
      char cb[24]; snprintf(cb, sizeof cb, "C function, arch %d", a);
      g_cap.fail(sigf(k.name, "mismatch"), "silk_burg_modified %s (%s): subfr_length=%d nb_subfr=%d D=%d minInvGain_Q30=%d: res_nrg %d vs C(arch 0) %d, res_nrg_Q %d vs %d, A_Q16[%d] %d vs %d", viaC ? cb : where(*i, wb, sizeof wb), origin, subfr_length, nb_subfr, D, minInvGain_Q30, nrg2, *res_nrg, q2, *res_nrg_Q, d, A2[d], A_Q16[d]);
    }
  }
}
#endif

}  // namespace

// ---- interception wrappers ----------------------------------------------------
extern "C" {
opus_int __wrap_silk_VAD_GetSA_Q8_c(silk_encoder_state* psEncC, const opus_int16 pIn[]) {
  if (!g_cap.active || g_cap.busy) return __real_silk_VAD_GetSA_Q8_c(psEncC, pIn);
  g_cap.calls[0]++;
  silk_encoder_state* st = psEncC;
  return vad_diff(*g_cap.rep, st, pIn, "encoder call");
}
void __wrap_silk_VQ_WMat_EC_c(opus_int8* ind, opus_int32* res_nrg_Q15, opus_int32* rate_dist_Q8, opus_int* gain_Q7, const opus_int32* XX_Q17, const opus_int32* xX_Q17, const opus_int8* cb_Q7, const opus_uint8* cb_gain_Q7, const opus_uint8* cl_Q5, const opus_int subfr_len, const opus_int32 max_gain_Q7, const opus_int L) {
  if (!g_cap.active || g_cap.busy) { __real_silk_VQ_WMat_EC_c(ind, res_nrg_Q15, rate_dist_Q8, gain_Q7, XX_Q17, xX_Q17, cb_Q7, cb_gain_Q7, cl_Q5, subfr_len, max_gain_Q7, L); return; }
  g_cap.calls[1]++;
  vq_diff(*g_cap.rep, ind, res_nrg_Q15, rate_dist_Q8, gain_Q7, XX_Q17, xX_Q17, cb_Q7, cb_gain_Q7, cl_Q5, subfr_len, max_gain_Q7, L, "encoder call", g_cap.calls[1] & 3);
}
void __wrap_silk_NSQ_c(const silk_encoder_state* psEncC, silk_nsq_state* NSQ, SideInfoIndices* psIndices, const opus_int16 x16[], opus_int8 pulses[], const opus_int16* PredCoef_Q12, const opus_int16* LTPCoef_Q14, const opus_int16* AR_Q13, const opus_int* HarmShapeGain_Q14, const opus_int* Tilt_Q14, const opus_int32* LF_shp_Q14, const opus_int32* Gains_Q16, const opus_int* pitchL, const opus_int Lambda_Q10, const opus_int LTP_scale_Q14) {
  if (!g_cap.active || g_cap.busy) { __real_silk_NSQ_c(psEncC, NSQ, psIndices, x16, pulses, PredCoef_Q12, LTPCoef_Q14, AR_Q13, HarmShapeGain_Q14, Tilt_Q14, LF_shp_Q14, Gains_Q16, pitchL, Lambda_Q10, LTP_scale_Q14); return; }
  g_cap.calls[2]++;
  nsq_diff(*g_cap.rep, nsq_view(), __real_silk_NSQ_c, psEncC, NSQ, psIndices, x16, pulses, PredCoef_Q12, LTPCoef_Q14, AR_Q13, HarmShapeGain_Q14, Tilt_Q14, LF_shp_Q14, Gains_Q16, pitchL, Lambda_Q10, LTP_scale_Q14);
}
void __wrap_silk_NSQ_del_dec_c(const silk_encoder_state* psEncC, silk_nsq_state* NSQ, SideInfoIndices* psIndices, const opus_int16 x16[], opus_int8 pulses[], const opus_int16* PredCoef_Q12, const opus_int16* LTPCoef_Q14, const opus_int16* AR_Q13, const opus_int* HarmShapeGain_Q14, const opus_int* Tilt_Q14, const opus_int32* LF_shp_Q14, const opus_int32* Gains_Q16, const opus_int* pitchL, const opus_int Lambda_Q10, const opus_int LTP_scale_Q14) {
  if (!g_cap.active || g_cap.busy) { __real_silk_NSQ_del_dec_c(psEncC, NSQ, psIndices, x16, pulses, PredCoef_Q12, LTPCoef_Q14, AR_Q13, HarmShapeGain_Q14, Tilt_Q14, LF_shp_Q14, Gains_Q16, pitchL, Lambda_Q10, LTP_scale_Q14); return; }
  g_cap.calls[3]++;
  nsq_diff(*g_cap.rep, nsqdd_view(), __real_silk_NSQ_del_dec_c, psEncC, NSQ, psIndices, x16, pulses, PredCoef_Q12, LTPCoef_Q14, AR_Q13, HarmShapeGain_Q14, Tilt_Q14, LF_shp_Q14, Gains_Q16, pitchL, Lambda_Q10, LTP_scale_Q14);
}
#ifdef FIXED_POINT
void __wrap_silk_burg_modified_c(opus_int32* res_nrg, opus_int* res_nrg_Q, opus_int32 A_Q16[], const opus_int16 x[], const opus_int32 minInvGain_Q30, const opus_int subfr_length, const opus_int nb_subfr, const opus_int D, int arch) {
  if (!g_cap.active || g_cap.busy) { __real_silk_burg_modified_c(res_nrg, res_nrg_Q, A_Q16, x, minInvGain_Q30, subfr_length, nb_subfr, D, arch); return; }
  g_cap.calls[4]++;
  burg_diff(*g_cap.rep, res_nrg, res_nrg_Q, A_Q16, x, minInvGain_Q30, subfr_length, nb_subfr, D, "encoder call", g_cap.calls[4] & 7);
}
#endif
}

namespace {
// ---- synthetic SILK families ---------------------------------------------------
int run_vad_synth(Choice& c, Report& rep) {
  const KernelView k = vad_view();
  if (check_table_levels(k, rep)) return 1;
  int fs_kHz = c.pick((const int[]){16, 8, 12});
  int fl = fs_kHz * c.pick((const int[]){20, 10});
  if (c.chance(48)) { fl = 8 * c.irange(1, 40); rep.label("vad:other-multiple-of-8"); }   // the function's own contract: multiple of 8, <= MAX_FRAME_LENGTH (320)
  int nframes = 1 + c.irange(0, 4);
  Rng r(c.u32());
  HeapBuf<silk_encoder_state> st(1);
  silk_VAD_Init(&st.p->sVAD);
  st.p->fs_kHz = fs_kHz; st.p->frame_length = fl;
  g_cap.failed = false;
  for (int f = 0; f < nframes; f++) {
    int cls = c.irange(0, I_NCLASS + 1);
    int off = c.irange(0, 15);
    OffBuf<opus_int16> in(fl, off);
    if (cls < I_NCLASS) fill_i16(in.p, fl, cls, r);
    else { double w = 0.01 + r.unit() * 2.5, a = cls == I_NCLASS ? 32767.0 : 300.0; for (int i = 0; i < fl; i++) in[i] = sat16(a * std::sin(w * (i + f * fl)) + r.gauss() * 20); }
    vad_diff(rep, st.p, in.p, "synthetic state/input");
    if (g_cap.failed) return rep.fail(g_cap.sig.c_str(), "%s (frame %d of the sequence, input offset %d)", g_cap.msg.c_str(), f, off);
  }
  rep.note("silk_VAD_GetSA_Q8 synthetic: fs_kHz=%d frame_length=%d frames=%d", fs_kHz, fl, nframes);
  rep.fingerprint(mix(fl, nframes));
  return 0;
}

int run_vq_synth(Choice& c, Report& rep) {
  const KernelView k = vq_view();
  if (check_table_levels(k, rep)) return 1;
  int reps = 1 + c.irange(0, 3);
  Rng r(c.u32());
  g_cap.failed = false;
  for (int q = 0; q < reps; q++) {
    int cbk = c.irange(0, NB_LTP_CBKS - 1);
    int L = silk_LTP_vq_sizes[cbk];
    int subfr_len = c.pick((const int[]){80, 40, 60});
    int max_gain = c.chance(200) ? c.irange(0, 400) : c.irange(-100, 2000);
    int cls = c.irange(0, 4);
    opus_int32 XX[25], xX[5];
    // the encoder scales the correlations so that they stay within about +-1.0 in Q17
    const int LIM = 131072;
    if (cls == 0) {             // correlation-like: XX = A*A^T of 5 random rows, xX = A*b, normalised
      double A[5][8], b[8], M[25], v[5], mx = 1e-9;
      for (int i = 0; i < 5; i++) for (int j = 0; j < 8; j++) A[i][j] = r.gauss();
      for (int j = 0; j < 8; j++) b[j] = r.gauss();
      for (int i = 0; i < 5; i++) { for (int j = 0; j < 5; j++) { double s = 0; for (int t = 0; t < 8; t++) s += A[i][t] * A[j][t]; M[i * 5 + j] = s; mx = std::max(mx, std::fabs(s)); } double s = 0; for (int t = 0; t < 8; t++) s += A[i][t] * b[t]; v[i] = s; mx = std::max(mx, std::fabs(s)); }
      for (int i = 0; i < 25; i++) XX[i] = (opus_int32)(M[i] / mx * LIM);
      for (int i = 0; i < 5; i++) xX[i] = (opus_int32)(v[i] / mx * LIM);
    } else {
      for (int i = 0; i < 25; i++) XX[i] = cls == 1 ? r.range(-LIM, LIM) : cls == 2 ? ((r.next() & 1) ? LIM : -LIM) : cls == 3 ? 0 : r.range(-300, 300);
      for (int i = 0; i < 5; i++) xX[i] = cls == 1 ? r.range(-LIM, LIM) : cls == 2 ? ((r.next() & 1) ? LIM : -LIM) : cls == 3 ? 0 : r.range(-300, 300);
    }
    opus_int8 ind = 77; opus_int32 nrg = 0, rd = 0; opus_int gain = 12345;
    int off = c.irange(0, 15);
    vq_diff(rep, &ind, &nrg, &rd, &gain, XX, xX, silk_LTP_vq_ptrs_Q7[cbk], silk_LTP_vq_gain_ptrs_Q7[cbk], silk_LTP_gain_BITS_Q5_ptrs[cbk], subfr_len, max_gain, L, "synthetic correlations", off);
    if (g_cap.failed) return rep.fail(g_cap.sig.c_str(), "%s", g_cap.msg.c_str());
    rep.labelf("vq:L%d", L);
    rep.note("silk_VQ_WMat_EC synthetic: codebook %d subfr_len=%d max_gain_Q7=%d data class %d -> ind %d", cbk, subfr_len, max_gain, cls, ind);
    rep.fingerprint(mix(cbk, mix(cls, ind)));
  }
  return 0;
}

#ifdef FIXED_POINT
int run_burg_synth(Choice& c, Report& rep) {
  const KernelView k = burg_view();
  if (check_table_levels(k, rep)) return 1;
  int fs_kHz = c.pick((const int[]){16, 8, 12});
  int D = fs_kHz == 16 ? 16 : 10;
  int subfr_length = D + 5 * fs_kHz;
  int nb_subfr = c.pick((const int[]){4, 2});
  int minInv = c.pick((const int[]){107374, 1 << 30, 1073742, 53687091, 1 << 20});   // 1/max prediction gain in Q30 (1e-4 .. 1)
  if (c.chance(64)) minInv = c.irange(100000, 1 << 30);
  int cls = c.irange(0, I_NCLASS + 1);
  int off = c.irange(0, 15) & ~1;
  size_t n = (size_t)subfr_length * nb_subfr;
  Rng r(c.u32());
  OffBuf<opus_int16> x(n, off);
  if (cls < I_NCLASS) fill_i16(x.p, n, cls, r);
  else { double w = 0.02 + r.unit() * 2.0, w2 = 0.02 + r.unit() * 3.0, a = cls == I_NCLASS ? 12000.0 : 200.0; for (size_t i = 0; i < n; i++) x[i] = sat16(a * std::sin(w * i) + 0.5 * a * std::sin(w2 * i + 1) + r.gauss() * a * 0.02); }
  // Domain of the portable kernel: rshifts = 36 - clz64(sum x^2) is clamped at MAX_RSHIFTS = 7, so the 3 bits of head room
  // exist only while sum x^2 < 2^35 (the encoder feeds gain-normalised input); louder input overflows silk_burg_modified_c
  // itself (UBSan, burg_modified_FIX.c:174).  The generator keeps sum x^2 < 2^34.
  for (int round = 0; round < 16; round++) {
    int64_t e = 0; for (size_t i = 0; i < n; i++) e += (int64_t)x[i] * x[i];
    if (e < (1ll << 34)) break;
    for (size_t i = 0; i < n; i++) x[i] = (opus_int16)(x[i] / 2);
  }
  opus_int32 nrg = 0; opus_int nrgQ = 0; opus_int32 A[MAX_LPC_ORDER];
  g_cap.failed = false;
  burg_diff(rep, &nrg, &nrgQ, A, x.p, minInv, subfr_length, nb_subfr, D, "synthetic signal", off);
  if (g_cap.failed) return rep.fail(g_cap.sig.c_str(), "%s (data class %d, offset %d)", g_cap.msg.c_str(), cls, off);
  rep.note("silk_burg_modified synthetic: fs_kHz=%d subfr_length=%d nb_subfr=%d D=%d minInvGain_Q30=%d data class %d -> res_nrg %d Q%d", fs_kHz, subfr_length, nb_subfr, D, minInv, cls, nrg, nrgQ);
  rep.fingerprint(mix(subfr_length, mix(nb_subfr, cls)));
  return 0;
}
#endif

// ---- capture family: a real encoder at arch cap 0; every intercepted `_c` call is replayed on the SIMD versions ---
int run_capture(Choice& c, Report& rep) {
  struct CapGuard { ~CapGuard() { g_cap.active = false; g_cap.rep = nullptr; opus_verif_arch_cap = 255; } } guard;
  if (check_table_levels(vad_view(), rep) || check_table_levels(vq_view(), rep) || check_table_levels(nsq_view(), rep) || check_table_levels(nsqdd_view(), rep)) return 1;
#ifdef FIXED_POINT
  if (check_table_levels(burg_view(), rep)) return 1;
#endif
  cu::EncCfg e;
  e.Fs = c.pick((const int[]){16000, 16000, 8000, 12000, 24000, 48000});
  e.ch = c.chance(60) ? 2 : 1;
  e.app = c.chance(128) ? OPUS_APPLICATION_VOIP : OPUS_APPLICATION_AUDIO;
  e.complexity = 10 - c.irange(0, 10);
  bool hybrid = e.Fs >= 24000 && c.chance(80);
  e.force_mode = hybrid ? cu::MODE_HYBRID : cu::MODE_SILK;
  int bw = c.irange(0, 3);     // 0: auto/wide, 1: NB, 2: MB, 3: WB
  e.bandwidth = hybrid ? (c.boolean() ? OPUS_BANDWIDTH_SUPERWIDEBAND : OPUS_BANDWIDTH_FULLBAND) : bw == 0 ? OPUS_AUTO : cu::BANDWIDTHS[bw - 1];
  e.bitrate = c.pick((const int[]){24000, 12000, 8000, 16000, 40000, 6000, 64000, 0, 150000}) * e.ch;
  if (e.bitrate == 0) e.bitrate = OPUS_BITRATE_MAX;
  int v = c.irange(0, 2); e.vbr = v != 1; e.cvbr = v != 2;
  if (c.chance(70)) { e.fec = 1; e.loss = c.irange(5, 40); }
  e.signal = c.pick((const int[]){OPUS_AUTO, OPUS_AUTO, OPUS_SIGNAL_VOICE, OPUS_SIGNAL_MUSIC});
  int d = c.pick((const int[]){3, 3, 2, 4, 5, 3, 3, 7});     // 20, 20, 10, 40, 60, 20, 20, 100 ms
  int nframes = d >= 4 ? 1 + c.irange(0, 1) : 1 + c.irange(0, 3);
  int family = c.pick((const int[]){sig::SPEECHLIKE, sig::SPEECHLIKE, sig::NOISE, sig::MULTITONE, sig::SQUARE, sig::TONE_PAIR, sig::CLICKS, sig::SILENCE, sig::SWEEP});
  double amp = c.pick((const double[]){0.5, 1.0, 0.05, 0.002});
  uint64_t sseed = c.u32();
  int fs = cu::frame_samples(e.Fs, d);
  opus_verif_arch_cap = 0;
  int err = 0;
  cu::Enc enc; enc.p = opus_encoder_create(e.Fs, e.ch, e.app, &err);
  VP_REQUIRE(enc.p && err == OPUS_OK, "c15:create", "encoder create failed %d", err);
  int rc = cu::apply_cfg(enc.p, e);
  VP_REQUIRE(rc == OPUS_OK, "c15:cfg", "setting rejected %d (%s)", rc, cu::cfg_str(e).c_str());
  g_cap = Capture(); g_cap.rep = &rep; g_cap.active = true;
  for (int f = 0; f < nframes; f++) {
    std::vector<float> x; std::vector<opus_int16> xi;
    sig::generate(family, sseed, e.Fs, e.ch, fs, amp, x, f * fs);
    sig::to_int16(x, xi);
    HeapBuf<opus_int16> in((size_t)fs * e.ch); memcpy(in.p, xi.data(), sizeof(opus_int16) * xi.size());
    HeapBuf<unsigned char> out(1500);
    int n = opus_encode(enc.p, in.p, fs, out.p, 1500);
    VP_REQUIRE(n > 0, "c15:capture-encode", "encode returned %d (%s)", n, cu::cfg_str(e).c_str());
    if (g_cap.failed) return rep.fail(g_cap.sig.c_str(), "%s [capture: %s, %s amp %g, frame %d of %d x %d/400 s]", g_cap.msg.c_str(), cu::cfg_str(e).c_str(), sig::FAMILY_NAME[family], amp, f, nframes, cu::DUR400[d]);
  }
  g_cap.active = false;
  rep.label("family:capture");
  if (g_cap.calls[2] + g_cap.calls[3] > 0) rep.nontrivial();
  rep.note("capture: {%s} %s amp=%g seed=%llu frames=%d x %d/400 s -> intercepted VAD %d, VQ_WMat_EC %d, NSQ %d, NSQ_del_dec %d, burg %d", cu::cfg_str(e).c_str(), sig::FAMILY_NAME[family], amp, (unsigned long long)sseed, nframes, cu::DUR400[d], g_cap.calls[0], g_cap.calls[1], g_cap.calls[2], g_cap.calls[3], g_cap.calls[4]);
  rep.fingerprint(mix(mix(e.Fs, e.ch), mix(mix(e.complexity, e.bandwidth), mix(family, mix(d, e.bitrate)))));
  return 0;
}

// ---- vector-kernel families ----------------------------------------------------
#ifdef FIXED_POINT
enum { FAM_INNER = 0, FAM_XCORR, FAM_PXCORR, FAM_FIR, FAM_IP16, FAM_BURG, FAM_VAD, FAM_VQ, FAM_CAPTURE, NFAM };
const int FAM_W[NFAM] = {10, 10, 8, 8, 8, 5, 4, 4, 7};
const int NDATA = I_NCLASS;
#else
enum { FAM_INNER = 0, FAM_DUAL, FAM_XCORR, FAM_PXCORR, FAM_COMB, FAM_PVQ, FAM_FLP, FAM_VAD, FAM_VQ, FAM_CAPTURE, NFAM };
const int FAM_W[NFAM] = {9, 7, 9, 8, 8, 10, 8, 4, 4, 7};
const int NDATA = F_NCLASS;
#endif
#ifdef FIXED_POINT
const int NVEC = FAM_BURG;     // families below this index are plain vector kernels with an explicit form
#else
const int NVEC = FAM_VAD;
#endif

struct Shape { int len, aux, ox, oy, oz, c1, c2; uint32_t seed; };

int run_vector(Report& rep, int fam, const Shape& s) {
  bool tail = false;
  int r = 0;
  switch (fam) {
    case FAM_INNER: r = chk_inner(rep, s.len, s.ox, s.oy, s.c1, s.c2, s.seed); tail = s.len & 15; break;
    case FAM_XCORR: r = chk_xcorr_kernel(rep, s.len, s.ox, s.oy, s.c1, s.c2, s.seed); tail = s.len & 7; break;
    case FAM_PXCORR: r = chk_pitch_xcorr(rep, s.len, s.aux, s.ox, s.oy, s.oz, s.c1, s.c2, s.seed); tail = (s.len & 7) || (s.aux & 7); break;
#ifdef FIXED_POINT
    case FAM_FIR: r = chk_fir(rep, s.len, s.aux, s.ox, s.oy, s.oz, s.c1, s.c2, s.seed); tail = s.len & 3; break;
    case FAM_IP16: r = chk_ip16(rep, s.len, s.ox, s.oy, s.c1, s.c2, s.seed); tail = s.len & 3; break;
#else
    case FAM_DUAL: r = chk_dual(rep, s.len, s.ox, s.oy, s.oz, s.c1, s.c2, s.seed); tail = s.len & 3; break;
    case FAM_COMB: r = chk_comb(rep, s.aux, s.len, s.ox, s.oy, (s.oz & 1) != 0, s.c1, s.c2 % 5, s.seed); tail = true; break;
    case FAM_PVQ: r = chk_pvq(rep, s.len, s.aux, s.ox, s.oy, s.c1 % P_NCLASS, s.seed); tail = s.len & 3; break;
    case FAM_FLP: r = chk_flp(rep, s.len, s.ox, s.oy, s.c1, s.c2, s.seed); tail = s.len & 7; break;
#endif
    default: break;
  }
  if (r) return r;
  if (tail) rep.label("shape:vector-tail");
  if ((s.ox | s.oy) & 15) rep.label("shape:misaligned");
  if (host_level() > 0 && (tail || ((s.ox | s.oy) & 15) || s.c1 != 0)) rep.nontrivial();
  rep.fingerprint(mix(mix(fam, s.len), mix(mix(s.aux, s.ox * 16 + s.oy), s.c1 * 16 + s.c2)));
  return 0;
}

// second parameter of a family (max_pitch / order / T / K)
int gen_aux(Choice& c, int fam, int len) {
  switch (fam) {
    case FAM_PXCORR: return c.chance(200) ? 1 + c.irange(0, 40) : 1 + c.irange(0, 600);
#ifdef FIXED_POINT
    case FAM_FIR: return c.chance(128) ? 24 : c.pick((const int[]){4, 5, 6, 7, 8, 9, 10, 11, 12, 16, 17, 20, 23, 24, 25, 31, 32});
#else
    case FAM_COMB: return c.chance(128) ? 15 + c.irange(0, 40) : 15 + c.irange(0, 1007);
    case FAM_PVQ: {
      int kmax = len <= 4 ? 128 : len <= 8 ? 64 : len <= 16 ? 40 : len <= 32 ? 24 : len <= 64 ? 16 : len <= 128 ? 80 : 110;
      int k = c.chance(160) ? 1 + c.irange(0, std::min(kmax, 12)) : 1 + c.irange(0, kmax - 1);
      return k;
    }
#endif
    default: return 0;
  }
}

int gen_veclen(Choice& c, int fam) {
  switch (fam) {
    case FAM_PXCORR: return c.chance(100) ? c.pick((const int[]){40, 60, 80, 34, 54, 64, 120, 240, 30, 60}) : gen_len(c, 3, 700);
#ifndef FIXED_POINT
    case FAM_COMB: return 4 * (c.chance(100) ? c.pick((const int[]){30, 60, 0, 90, 120, 210, 240}) : c.irange(0, 60));
    case FAM_PVQ: return c.chance(200) ? 2 + c.irange(0, 46) : c.pick((const int[]){2, 3, 4, 6, 8, 9, 12, 16, 18, 22, 24, 32, 36, 44, 48, 64, 72, 88, 96, 144, 176, 192, 208});
#else
    case FAM_FIR: return gen_len(c, 0, 700);
#endif
    default: return gen_len(c, 0, 1024);
  }
}

}  // namespace

// ---- exhaustive grid: every length 0..130 (and the powers-of-two neighbourhoods up to 1024) x first-pointer
// misalignment 0..15 x second-pointer misalignment {0,1,7,15} for every plain vector kernel -------------------------
static const int GRID_EXTRA[] = {159, 160, 161, 255, 256, 257, 319, 320, 480, 511, 512, 513, 767, 960, 1023, 1024};
static const int GRID_NLEN = 131 + (int)(sizeof GRID_EXTRA / sizeof GRID_EXTRA[0]);
static const int GRID_OY[4] = {0, 1, 7, 15};
extern "C" uint64_t vp_enum_count() { return (uint64_t)NVEC * GRID_NLEN * 16 * 4; }
extern "C" void vp_enum_case(uint64_t idx, std::vector<uint8_t>& out) {
  int oyi = idx % 4; idx /= 4;
  int ox = idx % 16; idx /= 16;
  int li = idx % GRID_NLEN; idx /= GRID_NLEN;
  int fam = (int)idx;
  int len = li < 131 ? li : GRID_EXTRA[li - 131];
  out.clear();
  out.push_back(0xE5); out.push_back((uint8_t)fam); out.push_back((uint8_t)(len >> 8)); out.push_back((uint8_t)(len & 255));
  out.push_back((uint8_t)ox); out.push_back((uint8_t)GRID_OY[oyi]);
  out.push_back((uint8_t)((li * 7 + ox) % 251));   // data classes / aux selector
}

int vp_case(Choice& c, Report& rep) {
  // the library's own detection must report the ladder read here with cpuid
  opus_verif_arch_cap = 255;
  int detected = opus_select_arch();
  VP_REQUIRE(detected == cpuid_ladder(), "c15:arch-detect", "opus_select_arch() returned %d, cpuid says level %d", detected, cpuid_ladder());
  int b0 = c.byte();
  if (b0 == 0xE5) {
    int fam = c.byte() % NVEC;
    int len = c.irange(0, 65535) % 1025;
    Shape s; s.ox = c.byte() & 15; s.oy = c.byte() & 15; int sel = c.byte();
    s.len = len; s.oz = (sel >> 2) & 15; s.c1 = sel % NDATA; s.c2 = (sel / 3) % NDATA; s.seed = 0x9E3779B9u * (uint32_t)(sel + 1) + (uint32_t)len;
    s.aux = 0;
    if (fam == FAM_PXCORR) { s.aux = 1 + sel % 37; if (s.len > 300) s.len = 3 + s.len % 298; }
#ifdef FIXED_POINT
    if (fam == FAM_FIR) { s.aux = (sel & 1) ? 24 : 4 + sel % 29; if (s.len > 400) s.len %= 401; }
#else
    if (fam == FAM_COMB) { s.aux = 15 + (sel * 5) % 1000; s.len = (s.len % 481) & ~3; }
    if (fam == FAM_PVQ) { s.len = 2 + s.len % 207; s.aux = 1 + sel % (s.len <= 8 ? 100 : s.len <= 32 ? 30 : 14); }
#endif
    rep.label("family:grid");
    return run_vector(rep, fam, s);
  }
  // weighted family choice: small bytes select the plain kernels
  int tot = 0; for (int i = 0; i < NFAM; i++) tot += FAM_W[i];
  int rsel = b0 % tot, fam = 0;
  while (rsel >= FAM_W[fam]) { rsel -= FAM_W[fam]; fam++; }
  if (fam == FAM_CAPTURE) return run_capture(c, rep);
  if (fam == FAM_VAD) return run_vad_synth(c, rep);
  if (fam == FAM_VQ) return run_vq_synth(c, rep);
#ifdef FIXED_POINT
  if (fam == FAM_BURG) return run_burg_synth(c, rep);
#endif
  int reps = 1 + c.irange(0, 3);
  for (int q = 0; q < reps; q++) {
    Shape s;
    s.len = gen_veclen(c, fam);
    s.aux = gen_aux(c, fam, s.len);
    s.ox = c.chance(90) ? 0 : c.irange(0, 15); s.oy = c.chance(90) ? 0 : c.irange(0, 15); s.oz = c.irange(0, 15);
    s.c1 = c.irange(0, NDATA - 1); s.c2 = c.chance(128) ? s.c1 : c.irange(0, NDATA - 1);
    s.seed = c.u32();
    if (run_vector(rep, fam, s)) return 1;
  }
  return 0;
}
