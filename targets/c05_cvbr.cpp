// C05, constrained-VBR clause: after an arbitrary short history of settings, an
// encoder kept at VBR + constraint with an explicit bitrate b over a window of
// >= 5 s produces a mean rate of at most b + A, the allowance A (bits/s) being
// calibrated per class on the unchanged tree (calib/C05.json, >= 2x margin on
// the largest excess observed), and - whenever the rate is above b at all - not
// more than (1 + cvbr_vs_reference_tol) times what the frozen reference encoder
// (ref-flt, same calls, same input) produces.
//
// Domain of the clause: budgets that allow a regular packet, i.e. b*T/8 >= 3
// bytes per packet and (for frames longer than 20 ms) b >= 2400; below that the
// encoder can only emit TOC-only packets and the clause checked is len <= 2.
//
// Calibration mode: with the environment variable C05_CALIB_OUT=<file> the
// target appends one JSON line per case (class, ratio, ratio against the
// reference) and applies no rate bound; tools/c05_calibrate.py aggregates.
#include "c05_common.hpp"
#include "siggen.hpp"
extern "C" {
#include "refapi.h"
}

using namespace vp;

const TargetInfo vp_info = {"c05_cvbr", 12, 96};

namespace {
c05::Calib g_calib;
const char* g_calib_out = nullptr;
struct RefEnc { OpusEncoder* p = nullptr; ~RefEnc() { if (p) ref_opus_encoder_destroy(p); } };
}

extern "C" void vp_init() {
  g_calib_out = getenv("C05_CALIB_OUT");
  g_calib.load(__FILE__, "C05.json");
}

// Class of a measured window, by observable quantities only.  "lp" = at least 10 % of the packets use the
// SILK layer (SILK-only or hybrid TOC).  The SILK layer has a minimum useful rate and loose control below
// about 16 kb/s per channel, so that class carries its own (absolute) allowance.
static const char* rate_class(int n_silk, int n_hybrid, int n_celt, int dur_idx, int64_t bitrate, int ch) {
  bool lp = (n_silk + n_hybrid) * 10 >= (n_silk + n_hybrid + n_celt);
  if (lp) return bitrate / ch < 16000 ? "lp-low" : "lp";
  return dur_idx <= 1 ? "celt-short" : "celt";          // 2.5 / 5 ms frames: one TOC byte per packet weighs 1.6-3.2 kb/s
}

int vp_case(Choice& c, Report& rep) {
  const int Fs = cu::RATES[4 - c.irange(0, 4)];
  const int ch = 1 + c.irange(0, 1);
  const int app = cu::APPS[(c.irange(0, 2) + 1) % 3];
  // bitrate per channel, log-uniform-ish over buckets; 0 -> a plain 32 kb/s
  static const int LO[7] = {24000, 6000, 12000, 64000, 3000, 160000, 500};
  static const int HI[7] = {64000, 12000, 24000, 160000, 6000, 300000, 3000};
  int bk = c.irange(0, 6);
  opus_int32 bitrate = (opus_int32)((int64_t)(LO[bk] + c.range(0, HI[bk] - LO[bk])) * (c.chance(200) ? ch : 1));
  if (bitrate > 300000 * ch) bitrate = 300000 * ch;
  const int dur = c05::gen_dur(c);
  const int fs = cu::frame_samples(Fs, dur);
  const int complexity = 10 - c.irange(0, 10);
  int force_mode = OPUS_AUTO, bandwidth = OPUS_AUTO, signal = OPUS_AUTO, fec = 0, loss = 0, dtx = 0, force_ch = OPUS_AUTO;
  if (c.chance(100)) force_mode = 1000 + c.irange(0, 2);
  if (c.chance(60)) bandwidth = cu::BANDWIDTHS[c.irange(0, 4)];
  if (c.chance(90)) signal = c.boolean() ? OPUS_SIGNAL_VOICE : OPUS_SIGNAL_MUSIC;
  if (c.chance(50)) { fec = 1 + c.irange(0, 1); loss = c.irange(0, 40); }
  if (c.chance(25)) dtx = 1;
  if (c.chance(30)) force_ch = 1 + c.irange(0, ch - 1);
  static const int FW[sig::NFAMILIES] = {1, 1, 2, 5, 3, 6, 5, 1, 2};
  int fam[2]; uint64_t seed[2]; double amp[2];
  static const double AMPS[5] = {0.5, 1.0, 0.1, 0.01, 0.9};
  for (int k = 0; k < 2; k++) { fam[k] = c.weighted(FW, sig::NFAMILIES); if (k == 0 && fam[k] == 0) fam[k] = sig::SPEECHLIKE; seed[k] = c.byte(); amp[k] = AMPS[c.irange(0, 4)]; }
  const bool two_seg = c.chance(70);
  const int window_ms = 5000 + 500 * c.irange(0, 6);
  const int M = c.chance(40) ? (c.boolean() ? 4000 : 1276) : 1500;
  // preamble: a few calls under other rate-control settings
  struct Pre { int mode; opus_int32 bitrate; };
  Pre pre[6]; int npre = c.chance(128) ? c.irange(0, 6) : 0;
  for (int i = 0; i < npre; i++) { pre[i].mode = c.irange(0, 2); pre[i].bitrate = cu::gen_bitrate(c, ch); }

  const int nframes = (window_ms * (Fs / 1000) + fs - 1) / fs;
  const int ntotal = nframes + npre;
  std::vector<float> pcm;
  {
    size_t n0 = (size_t)(two_seg ? ntotal / 2 : ntotal) * fs, n1 = (size_t)ntotal * fs - n0;
    sig::generate(fam[0], seed[0], Fs, ch, (int)n0, amp[0], pcm);
    if (n1) { std::vector<float> p2; sig::generate(fam[1], seed[1], Fs, ch, (int)n1, amp[1], p2); pcm.insert(pcm.end(), p2.begin(), p2.end()); }
  }

  cu::Enc enc; RefEnc ref;
  int err = 0;
  enc.p = opus_encoder_create(Fs, ch, app, &err);
  VP_REQUIRE(enc.p && err == OPUS_OK, "c05:encoder-create", "err=%d", err);
  ref.p = ref_opus_encoder_create(Fs, ch, app, &err);
  VP_REQUIRE(ref.p && err == OPUS_OK, "c05:ref-encoder-create", "err=%d", err);
#define BOTH(req) do { int r1 = opus_encoder_ctl(enc.p, req); int r2 = ref_opus_encoder_ctl(ref.p, req); VP_REQUIRE(r1 == OPUS_OK && r2 == OPUS_OK, "c05:ctl-result", "ctl returned %d / ref %d", r1, r2); } while (0)
  BOTH(OPUS_SET_COMPLEXITY(complexity));
  BOTH(CU_SET_FORCE_MODE(force_mode));
  BOTH(OPUS_SET_BANDWIDTH(bandwidth));
  BOTH(OPUS_SET_SIGNAL(signal));
  BOTH(OPUS_SET_INBAND_FEC(fec));
  BOTH(OPUS_SET_PACKET_LOSS_PERC(loss));
  BOTH(OPUS_SET_DTX(dtx));
  BOTH(OPUS_SET_FORCE_CHANNELS(force_ch));
  rep.note("Fs=%d ch=%d app=%d bitrate=%d %gms cx=%d fmode=%d bw=%d signal=%d fec=%d loss=%d dtx=%d fch=%d sig=%s/%g%s%s window=%dms M=%d preamble=%d",
           Fs, ch, app, bitrate, cu::DUR400[dur] * 2.5, complexity, force_mode, bandwidth, signal, fec, loss, dtx, force_ch,
           sig::FAMILY_NAME[fam[0]], amp[0], two_seg ? "+" : "", two_seg ? sig::FAMILY_NAME[fam[1]] : "", window_ms, M, npre);

  HeapBuf<float> in((size_t)fs * ch);
  c05::OutBuf out(M, 1), rout(M, 0);
  int64_t bytes = 0, ref_bytes = 0;
  bool ref_ok = true;
  int n_mode[3] = {0, 0, 0}, n_small = 0;
  const bool low_budget = c05::cbr_round_bytes(bitrate, fs, Fs) < 3 || (int64_t)bitrate * fs < 3ll * 8 * Fs || (cu::DUR400[dur] > 8 && bitrate < 2400);
  for (int i = 0; i < ntotal; i++) {
    if (i < npre) {
      BOTH(OPUS_SET_VBR(pre[i].mode != 1)); BOTH(OPUS_SET_VBR_CONSTRAINT(pre[i].mode != 2)); BOTH(OPUS_SET_BITRATE(pre[i].bitrate));
    } else if (i == npre) {
      BOTH(OPUS_SET_VBR(1)); BOTH(OPUS_SET_VBR_CONSTRAINT(1)); BOTH(OPUS_SET_BITRATE(bitrate));
    }
    memcpy(in.p, pcm.data() + (size_t)i * fs * ch, sizeof(float) * (size_t)fs * ch);
    const int Mi = M;
    int len = opus_encode_float(enc.p, in.p, fs, out.data(), Mi);
    int rlen = ref_ok ? ref_opus_encode_float(ref.p, in.p, fs, rout.data(), Mi) : 0;
    // the frozen snapshot still has finding F13 (OPUS_INTERNAL_ERROR for a >1275-byte speech-layer frame inside a
    // multi-frame packet): that is the reference failing, not the tree, so only the reference-relative clause is dropped
    if (rlen == OPUS_INTERNAL_ERROR) { rep.label("frozen-encoder-internal-error(F13)"); ref_ok = false; rlen = 0; }
    rep.count(2);
    VP_REQUIRE(out.guard_damage() < 0, "c05:guard-bytes-overwritten", "frame %d", i);
    VP_REQUIRE(len >= 1 && len <= Mi, "c05:length-out-of-range", "frame %d: ret %d, M %d (Fs=%d ch=%d %gms bitrate %d)", i, len, Mi, Fs, ch, cu::DUR400[dur] * 2.5, bitrate);
    VP_REQUIRE(!ref_ok || (rlen >= 1 && rlen <= Mi), "c05:ref-length-out-of-range", "frame %d: reference ret %d", i, rlen);
    if (i < npre) continue;
    c05::PktInfo pi;
    VP_REQUIRE(c05::inspect(out.data(), len, Fs, pi) && pi.samples == fs, "c05:invalid-packet", "frame %d len %d", i, len);
    bytes += len; ref_bytes += rlen;
    n_mode[pi.t.mode]++;
    if (len <= 2) n_small++;
    if (low_budget) VP_REQUIRE(len <= 2, "c05:low-budget-packet-too-long", "frame %d: %d bytes with bitrate %d, %g ms (budget below 3 bytes per packet)", i, len, bitrate, cu::DUR400[dur] * 2.5);
  }
#undef BOTH
  const double seconds = (double)nframes * fs / Fs;
  const double rate = 8.0 * bytes / seconds, ref_rate = 8.0 * ref_bytes / seconds;
  const double ratio = rate / bitrate, vs_ref = (ref_ok && ref_bytes) ? (double)bytes / ref_bytes : 1.0;
  const char* cls = low_budget ? "low-budget" : rate_class(n_mode[0], n_mode[1], n_mode[2], dur, bitrate, ch);
  rep.labelf("class:%s", cls);
  rep.label(n_mode[0] >= n_mode[1] && n_mode[0] >= n_mode[2] ? "mode:silk" : n_mode[1] >= n_mode[2] ? "mode:hybrid" : "mode:celt");
  if (npre) rep.label("preamble");
  if (ratio > 1.0) rep.label("above-target");
  if (ratio > 1.02) rep.label("above-target-2%");
  if (bytes != ref_bytes) rep.label("differs-from-reference");
  rep.note("rate %.0f b/s = %.4f x target; reference %.0f b/s; class %s; packets silk/hybrid/celt %d/%d/%d small %d", rate, ratio, ref_rate, cls, n_mode[0], n_mode[1], n_mode[2], n_small);
  rep.nontrivial(!low_budget);
  rep.fingerprint(mix(mix(Fs, ch), mix(dur, (uint64_t)bitrate / 500))); rep.fingerprint(mix(fam[0], (uint64_t)complexity * 16 + (uint64_t)(force_mode & 15)));

  // Finding F18 (fixed in /repo by dd442894; regression case corpus/C05/fixed/F18-hybrid-vbr-bitrate-max.case):
  // in hybrid mode with VBR the CELT layer was given bitrate - SILK share; when that was <= 500 b/s the CELT
  // ctl rejected it, the layer kept OPUS_BITRATE_MAX and every packet filled the buffer (510 kb/s for a
  // 1.7 kb/s target).  After the fix such windows sit at the SILK floor (about 16 kb/s) and are calibrated as
  // part of class lp-low; the label keeps the class visible.
  const bool f18_class = !low_budget && n_mode[1] > 0 && (dur == 2 || dur == 3) && (double)bitrate * (fec ? 1 : 2) / 12.0 - 300.0 * ch <= 800.0;
  if (f18_class) rep.label("hybrid-celt-share-below-500");
  if (g_calib_out) {
    FILE* f = fopen(g_calib_out, "a");
    if (f) {
      fprintf(f, "{\"class\":\"%s\",\"f18class\":%d,\"excess_bps\":%.1f,\"ratio\":%.5f,\"vs_ref\":%.5f,\"Fs\":%d,\"ch\":%d,\"dur\":%g,\"bitrate\":%d,\"cx\":%d,\"fmode\":%d,\"app\":%d,\"sig\":\"%s\",\"amp\":%g,\"silk\":%d,\"hybrid\":%d,\"celt\":%d,\"fec\":%d,\"dtx\":%d,\"bw\":%d}\n",
              cls, (int)f18_class, rate - bitrate, ratio, vs_ref, Fs, ch, cu::DUR400[dur] * 2.5, bitrate, complexity, force_mode, app, sig::FAMILY_NAME[fam[0]], amp[0], n_mode[0], n_mode[1], n_mode[2], fec, dtx, bandwidth);
      fclose(f);
    }
    return 0;
  }
  if (low_budget) return 0;
  VP_REQUIRE(g_calib.loaded, "c05:calibration-file-missing", "calib/C05.json not found next to %s", __FILE__);
  double allow = 0, ref_tol = 0;
  std::string key = std::string("cvbr_excess_bps.") + cls;
  VP_REQUIRE(g_calib.get(key.c_str(), allow) && g_calib.get("cvbr_vs_reference_tol", ref_tol), "c05:calibration-key-missing", "key %s", key.c_str());
  if (rate > bitrate + allow)
    return rep.fail("c05:cvbr-rate-above-calibrated-bound", "mean rate over %.2f s is %.0f b/s = %.4f x the target %d; class %s allows target + %.0f b/s (Fs=%d ch=%d %gms cx=%d; packets silk/hybrid/celt %d/%d/%d; frozen reference encoder %.0f b/s)",
                    seconds, rate, ratio, bitrate, cls, allow, Fs, ch, cu::DUR400[dur] * 2.5, complexity, n_mode[0], n_mode[1], n_mode[2], ref_rate);
  // relative clause: when above the target, the tree must not use noticeably more than the frozen encoder on the same calls
  if (rate > bitrate && vs_ref > 1.0 + ref_tol)
    return rep.fail("c05:cvbr-rate-above-frozen-reference", "mean rate %.0f b/s = %.4f x the target %d and %.4f x the frozen reference encoder's %.0f b/s on the same calls (allowed %.4f); class %s Fs=%d ch=%d %gms cx=%d",
                    rate, ratio, bitrate, vs_ref, ref_rate, 1.0 + ref_tol, cls, Fs, ch, cu::DUR400[dur] * 2.5, complexity);
  return 0;
}
