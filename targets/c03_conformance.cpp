// C03: decoder output conforms to the (frozen) reference decoder.
// Streams come from the frozen reference encoder over its configuration space
// with mid-stream transitions, optionally merged / padded by the frozen
// repacketizer.  Oracle: per packet identical return value and final range vs
// the frozen decoder of the same arithmetic and of the other arithmetic; per
// stream the RFC 6716 opus_compare metric (a) exactly as the RFC procedure
// (reference at 48 kHz stereo) and (b) against the frozen decoder at the same
// rate and channel count.
#include "vp.hpp"
#include "rfc_framing.hpp"
#include "common.hpp"
#include "codec_util.hpp"
#include "siggen.hpp"
#include "refapi.h"
extern "C" double oc_quality(const float* x, unsigned long xlength, int xdown, const float* y, unsigned long ylength, int nchannels, int rate, double* err_out);
#include <cmath>

using namespace vp;

const TargetInfo vp_info = {"c03_conformance", 24, 400};

#ifdef FIXED_POINT
#define SAME(x) rfx_##x
#define OTHER(x) ref_##x
#else
#define SAME(x) ref_##x
#define OTHER(x) rfx_##x
#endif

namespace {
struct SameDec { OpusDecoder* p = nullptr; ~SameDec() { if (p) SAME(opus_decoder_destroy)(p); } };
struct OtherDec { OpusDecoder* p = nullptr; ~OtherDec() { if (p) OTHER(opus_decoder_destroy)(p); } };
struct RefEnc { OpusEncoder* p = nullptr; ~RefEnc() { if (p) ref_opus_encoder_destroy(p); } };
struct RefRp { OpusRepacketizer* p = nullptr; ~RefRp() { if (p) ref_opus_repacketizer_destroy(p); } };

int ref_apply(OpusEncoder* enc, const cu::EncCfg& e) {
  int r = 0;
  r |= ref_opus_encoder_ctl(enc, OPUS_SET_BITRATE(e.bitrate));
  r |= ref_opus_encoder_ctl(enc, OPUS_SET_VBR(e.vbr));
  r |= ref_opus_encoder_ctl(enc, OPUS_SET_VBR_CONSTRAINT(e.cvbr));
  r |= ref_opus_encoder_ctl(enc, OPUS_SET_COMPLEXITY(e.complexity));
  r |= ref_opus_encoder_ctl(enc, OPUS_SET_BANDWIDTH(e.bandwidth));
  r |= ref_opus_encoder_ctl(enc, OPUS_SET_MAX_BANDWIDTH(e.max_bandwidth));
  if (e.force_channels == OPUS_AUTO || e.force_channels <= e.ch) r |= ref_opus_encoder_ctl(enc, OPUS_SET_FORCE_CHANNELS(e.force_channels));
  r |= ref_opus_encoder_ctl(enc, CU_SET_FORCE_MODE(e.force_mode));
  r |= ref_opus_encoder_ctl(enc, OPUS_SET_INBAND_FEC(e.fec));
  r |= ref_opus_encoder_ctl(enc, OPUS_SET_PACKET_LOSS_PERC(e.loss));
  r |= ref_opus_encoder_ctl(enc, OPUS_SET_DTX(e.dtx));
  r |= ref_opus_encoder_ctl(enc, OPUS_SET_PREDICTION_DISABLED(e.pred_disabled));
  r |= ref_opus_encoder_ctl(enc, OPUS_SET_PHASE_INVERSION_DISABLED(e.phase_inv_disabled));
  r |= ref_opus_encoder_ctl(enc, OPUS_SET_SIGNAL(e.signal));
  return r;
}

inline opus_int16 f2s(float v) { float x = v * 32768.f; if (x > 32767.f) x = 32767.f; if (x < -32768.f) x = -32768.f; return (opus_int16)lrintf(x); }
}  // namespace

int vp_case(Choice& c, Report& rep) {
  cu::EncCfg e = cu::gen_cfg(c);
  // conformance streams: keep the rate high enough that the codec is not in the 1-byte regime
  if (e.bitrate != OPUS_AUTO && e.bitrate != OPUS_BITRATE_MAX && e.bitrate < 6000) e.bitrate = 6000 + e.bitrate;
  e.dtx = c.chance(30) ? 1 : 0;
  int err = 0;
  RefEnc enc;
  enc.p = ref_opus_encoder_create(e.Fs, e.ch, e.app, &err);
  VP_REQUIRE(enc.p, "c03:ref-encoder-create", "reference encoder create failed %d", err);
  ref_apply(enc.p, e);
  int drate = cu::RATES[4 - c.irange(0, 4)], dch = 1 + c.irange(0, 1);
  bool float_api = c.boolean();
  cu::Dec tdec; SameDec sdec, sdec48; OtherDec odec;
  tdec.p = opus_decoder_create(drate, dch, &err);
  sdec.p = SAME(opus_decoder_create)(drate, dch, &err);
  sdec48.p = SAME(opus_decoder_create)(48000, 2, &err);
  odec.p = OTHER(opus_decoder_create)(drate, dch, &err);
  VP_REQUIRE(tdec.p && sdec.p && sdec48.p && odec.p, "c03:decoder-create", "decoder create failed");
  rep.note("ref-encoder{%s} decoder %d Hz %d ch %s", cu::cfg_str(e).c_str(), drate, dch, float_api ? "float" : "int16");

  // ---- produce the stream with the frozen encoder (0.6 .. 1.8 s)
  uint64_t sig_seed = c.u32();
  int family = c.pick((const int[]){sig::MULTITONE, sig::TONE_PAIR, sig::SPEECHLIKE, sig::SWEEP, sig::NOISE, sig::MULTITONE, sig::CLICKS, sig::SQUARE, sig::TONE_PAIR});
  double amp = c.pick((const double[]){0.5, 0.25, 0.9, 0.05});
  int total = e.Fs * c.irange(6, 18) / 10;
  int pos = 0;
  std::vector<std::vector<uint8_t>> packets;
  int d = c.chance(128) ? 3 : c.irange(0, 8);
  int ntrans = 0, prev_toc = -1;
  bool saw_transition = false, saw_multiframe = false, saw_padding = false;
  uint64_t fp = mix(e.Fs, mix(e.ch, mix(drate, dch)));
  std::vector<float> x;
  // class "mode ping-pong": forced modes with dwell times of 1-3 packets (single SILK/hybrid packets between MDCT packets and vice versa,
  // with the short frame sizes only the MDCT layer has), so that redundancy / cross-fade paths of isolated packets are exercised
  bool pingpong = c.chance(64);
  int dwell = 0, cur_mode = -1;
  if (pingpong) rep.label("class:mode-ping-pong");
  while (pos < total && packets.size() < 400) {
    if (pingpong) {
      if (dwell <= 0) {
        int nm = c.pick((const int[]){cu::MODE_CELT, cu::MODE_SILK, cu::MODE_CELT, cu::MODE_HYBRID});
        if (nm == cur_mode) nm = nm == cu::MODE_CELT ? cu::MODE_SILK : cu::MODE_CELT;
        if (nm == cu::MODE_HYBRID && e.Fs < 24000) nm = cu::MODE_SILK;
        cur_mode = nm; dwell = c.irange(1, 3);
        ref_opus_encoder_ctl(enc.p, CU_SET_FORCE_MODE(nm));
        d = nm == cu::MODE_CELT ? c.pick((const int[]){1, 0, 2, 3, 1}) : nm == cu::MODE_HYBRID ? c.pick((const int[]){2, 3}) : c.pick((const int[]){2, 3, 3, 4});
      }
      dwell--;
    } else
    if (c.chance(40) && ntrans < 6) {
      // mid-stream change to force mode / bandwidth / channel transitions
      int w = c.irange(0, 4);
      if (w == 0) ref_opus_encoder_ctl(enc.p, CU_SET_FORCE_MODE(c.pick((const int[]){cu::MODE_SILK, cu::MODE_HYBRID, cu::MODE_CELT, OPUS_AUTO})));
      else if (w == 1) ref_opus_encoder_ctl(enc.p, OPUS_SET_BANDWIDTH(c.chance(60) ? OPUS_AUTO : cu::BANDWIDTHS[c.irange(0, 4)]));
      else if (w == 2) { int fc = c.irange(0, 2); ref_opus_encoder_ctl(enc.p, OPUS_SET_FORCE_CHANNELS(fc == 0 || fc > e.ch ? OPUS_AUTO : fc)); }
      else if (w == 3) ref_opus_encoder_ctl(enc.p, OPUS_SET_BITRATE(c.irange(6000, 160000)));
      else d = c.irange(0, 8);
      ntrans++;
    }
    int fs = cu::frame_samples(e.Fs, d);
    sig::generate(family, sig_seed, e.Fs, e.ch, fs, amp, x, pos);
    pos += fs;
    std::vector<uint8_t> pkt(1500 * 4);
    int n = ref_opus_encode_float(enc.p, x.data(), fs, pkt.data(), (int)pkt.size());
    if (n == OPUS_INTERNAL_ERROR) { rep.label("ref-encoder-internal-error(F13 in the frozen snapshot)"); continue; }
    VP_REQUIRE(n > 0, "c03:ref-encode-failed", "reference encoder returned %d", n);
    pkt.resize(n);
    int toc = pkt[0];
    if (prev_toc >= 0 && ((toc ^ prev_toc) & 0xFC)) {
      rfc::TocInfo a = rfc::toc_info((uint8_t)prev_toc), b = rfc::toc_info((uint8_t)toc);
      if (a.mode != b.mode) { rep.label("transition:mode"); saw_transition = true; }
      if (a.bw != b.bw) { rep.label("transition:bandwidth"); saw_transition = true; }
      if (a.stereo != b.stereo) { rep.label("transition:channels"); saw_transition = true; }
    }
    prev_toc = toc;
    packets.push_back(pkt);
  }
  VP_REQUIRE(!packets.empty(), "c03:no-packets", "no packets produced");
  // ---- optional merge / pad with the frozen repacketizer
  if (c.chance(90)) {
    std::vector<std::vector<uint8_t>> merged;
    RefRp rp; rp.p = ref_opus_repacketizer_create();
    size_t i = 0;
    while (i < packets.size()) {
      int want = c.irange(1, 6);
      ref_opus_repacketizer_init(rp.p);
      int k = 0;
      while (k < want && i + k < packets.size() && ref_opus_repacketizer_cat(rp.p, packets[i + k].data(), (opus_int32)packets[i + k].size()) == OPUS_OK) k++;
      if (k <= 1) { merged.push_back(packets[i]); i++; continue; }
      std::vector<uint8_t> out(1277 * 48 + 10);
      int n = ref_opus_repacketizer_out(rp.p, out.data(), (opus_int32)out.size());
      if (n <= 0) { merged.push_back(packets[i]); i++; continue; }
      out.resize(n);
      merged.push_back(out);
      i += k;
    }
    packets.swap(merged);
  }
  if (c.chance(60)) {
    for (auto& p : packets) if (c.chance(100)) {
      int add = c.chance(200) ? c.irange(1, 20) : c.irange(1, 600);
      size_t old = p.size();
      p.resize(old + add);
      if (ref_opus_packet_pad(p.data(), (opus_int32)old, (opus_int32)(old + add)) != OPUS_OK) p.resize(old); else saw_padding = true;
    }
  }
  // ---- decode with all decoders
  std::vector<float> ytree, ysame, y48;   // int16-scale samples as floats (what opus_compare reads)
  int maxdiff = 0, prev_pkt_mode = -1;
  for (size_t i = 0; i < packets.size(); i++) {
    const auto& p = packets[i];
    HeapBuf<uint8_t> data(p.size()); memcpy(data.p, p.data(), p.size());
    rfc::Parsed mp = rfc::parse(data.p, (int)p.size(), false);
    VP_REQUIRE(mp.ok, "c03:ref-packet-invalid", "reference encoder/repacketizer produced a packet the framing model rejects");
    if (mp.count > 1) saw_multiframe = true;
    int n48 = mp.count * rfc::samples_per_frame(p[0], 48000);
    int nd = mp.count * rfc::samples_per_frame(p[0], drate);
    static thread_local int nbig; if (i == 0) nbig = 0;
    HeapBuf<opus_int16> o_tree((size_t)nd * dch), o_same((size_t)nd * dch), o_48((size_t)n48 * 2), o_other((size_t)nd * dch);
    int rt, rs;
    if (float_api) {
      HeapBuf<float> ft((size_t)nd * dch), fs2((size_t)nd * dch);
      rt = opus_decode_float(tdec.p, data.p, (opus_int32)p.size(), ft.p, nd, 0);
      rs = SAME(opus_decode_float)(sdec.p, data.p, (opus_int32)p.size(), fs2.p, nd, 0);
      if (rt > 0) for (int k = 0; k < rt * dch; k++) o_tree[k] = f2s(ft[k]);
      if (rs > 0) for (int k = 0; k < rs * dch; k++) o_same[k] = f2s(fs2[k]);
    } else {
      rt = opus_decode(tdec.p, data.p, (opus_int32)p.size(), o_tree.p, nd, 0);
      rs = SAME(opus_decode)(sdec.p, data.p, (opus_int32)p.size(), o_same.p, nd, 0);
    }
    int r48 = SAME(opus_decode)(sdec48.p, data.p, (opus_int32)p.size(), o_48.p, n48, 0);
    int ro = OTHER(opus_decode)(odec.p, data.p, (opus_int32)p.size(), o_other.p, nd, 0);
    rep.count(4);
    VP_REQUIRE(rs == nd && r48 == n48 && ro == nd, "c03:reference-decode-failed", "frozen decoders returned %d/%d/%d for a valid packet (expected %d)", rs, r48, ro, nd);
    VP_REQUIRE(rt == rs, "c03:return-value", "packet %zu: tree decoder returned %d, frozen decoder %d (toc 0x%02x len %zu)", i, rt, rs, p[0], p.size());
    opus_uint32 ft_ = 0, fs_ = 0, fo_ = 0, f48_ = 0;
    opus_decoder_ctl(tdec.p, OPUS_GET_FINAL_RANGE(&ft_));
    SAME(opus_decoder_ctl)(sdec.p, OPUS_GET_FINAL_RANGE(&fs_));
    SAME(opus_decoder_ctl)(sdec48.p, OPUS_GET_FINAL_RANGE(&f48_));
    OTHER(opus_decoder_ctl)(odec.p, OPUS_GET_FINAL_RANGE(&fo_));
    VP_REQUIRE(fs_ == fo_ && fs_ == f48_, "c03:reference-disagrees", "frozen float/fixed/48k decoders disagree on the final range (%08x %08x %08x)", fs_, fo_, f48_);
    VP_REQUIRE(ft_ == fs_, "c03:final-range", "packet %zu: tree decoder final range %08x, frozen decoder %08x (toc 0x%02x len %zu, %d Hz %d ch)", i, ft_, fs_, p[0], p.size(), drate, dch);
    // A speech-layer or hybrid packet directly after an MDCT-only packet: unless the packet carries a redundant frame, the decoder fills the
    // first 5 ms by *concealing* the old mode and cross-fading.  The MDCT concealment runs a pitch search whose arg-max flips with the last bit
    // of a float sum, so builds of identical source that differ only in summation order (C vs SIMD kernels) legitimately produce different
    // audio there (seed 41: 12 kHz stereo MDCT at 11 kb/s alternating with NB speech packets, |diff| up to 2725 in these 5 ms windows only;
    // the frozen decoder is the plain C build, the tree decoder runs its AVX2 kernels).  Concealment is not normative: the window is taken out
    // of the waveform comparison (final range and sample count still compared).
    const int cur_mode = rfc::toc_info(p[0]).mode;
    if (i > 0 && prev_pkt_mode == rfc::CELT && cur_mode != rfc::CELT) {
      int w = drate / 200; if (w > nd) w = nd;
      for (int k = 0; k < w * dch; k++) o_tree[k] = o_same[k];
      rep.label("transition-concealment-window-excluded");
    }
    prev_pkt_mode = cur_mode;
    int pkdiff = 0;
    for (int k = 0; k < nd * dch; k++) { ytree.push_back(o_tree[k]); ysame.push_back(o_same[k]); int df = abs((int)o_tree[k] - (int)o_same[k]); if (df > maxdiff) maxdiff = df; if (df > pkdiff) pkdiff = df; }
    if (pkdiff > (getenv("C03_TRACE_ALL") ? 0 : 16) && nbig++ < (getenv("C03_TRACE_ALL") ? 40 : 12)) rep.note("packet %zu (toc 0x%02x, %zu bytes, %d frames): max |tree - frozen| = %d", i, p[0], p.size(), mp.count, pkdiff);
    for (int k = 0; k < n48 * 2; k++) y48.push_back(o_48[k]);
    fp = mix(fp, p[0]);
  }
  // ---- RFC metric
  size_t nfr = ytree.size() / dch;
  if (nfr * (48000 / drate) >= 480 * 2) {
    // (a) the RFC procedure: reference 48 kHz stereo (averaged to mono when testing mono)
    std::vector<float> xr;
    if (dch == 2) xr = y48; else { xr.resize(y48.size() / 2); for (size_t k = 0; k < xr.size(); k++) xr[k] = .5f * (y48[2 * k] + y48[2 * k + 1]); }
    double errA = 0, errB = 0;
    double qa = oc_quality(xr.data(), xr.size() / dch, 1, ytree.data(), nfr, dch, drate, &errA);
    // sanity of the procedure itself: the frozen decoder must pass against its own 48 kHz output (evaluated only when needed)
    double qa_ref = qa >= 0 ? qa : oc_quality(xr.data(), xr.size() / dch, 1, ysame.data(), nfr, dch, drate, nullptr);
    double qb = maxdiff == 0 ? 100.0 : oc_quality(ysame.data(), nfr, 48000 / drate, ytree.data(), nfr, dch, drate, &errB);
    rep.note("packets=%zu maxdiff=%d Q(rfc)=%.1f Q(ref-self)=%.1f Q(same-rate)=%.1f", packets.size(), maxdiff, qa, qa_ref, qb);
    rep.count(3);
    if (qa_ref >= 0) VP_REQUIRE(qa >= 0, "c03:rfc-metric", "tree decoder output fails opus_compare against the frozen 48 kHz stereo reference: Q=%.2f (frozen decoder at the same rate scores %.2f), %d Hz %d ch, max |diff| %d", qa, qa_ref, drate, dch, maxdiff);
    else rep.label("rfc-procedure-not-applicable(frozen decoder fails its own 48k reference)");
    VP_REQUIRE(qb >= 0, "c03:same-rate-metric", "tree decoder output fails opus_compare against the frozen decoder at the same rate/channels: Q=%.2f, %d Hz %d ch, max |diff| %d", qb, drate, dch, maxdiff);
    rep.label("metric-evaluated");
  }
  if (maxdiff == 0) rep.label("pcm-bit-identical"); else rep.label("pcm-differs-within-tolerance");
  if (saw_multiframe) rep.label("multi-frame");
  if (saw_padding) rep.label("padding");
  if (saw_transition || saw_multiframe || saw_padding) rep.nontrivial();
  rep.fingerprint(fp);
  return 0;
}
