/* C17: reaches the static functions and tables of celt/cwrs.c.  The public
   functions of the included file are renamed so that the library's own copies
   (libopus.a) stay the ones the target calls for the range-coder round trips. */
#define encode_pulses c17tu_encode_pulses
#define decode_pulses c17tu_decode_pulses
#include "cwrs.c"

#if defined(SMALL_FOOTPRINT)
# error "C17 expects the table-driven cwrs.c"
#endif

opus_uint32 c17_icwrs(int n, const int *y) { return icwrs(n, y); }
void c17_cwrsi(int n, int k, opus_uint32 i, int *y) { (void)cwrsi(n, k, i, y); }
opus_uint32 c17_pvq_u(int n, int k) { return CELT_PVQ_U(n, k); }
opus_uint32 c17_pvq_v(int n, int k) { return CELT_PVQ_V(n, k); }
int c17_pvq_nrows(void) { return (int)(sizeof(CELT_PVQ_U_ROW) / sizeof(CELT_PVQ_U_ROW[0])); }
long c17_pvq_row_offset(int r) { return (long)(CELT_PVQ_U_ROW[r] - CELT_PVQ_U_DATA); }
int c17_pvq_data_len(void) { return (int)(sizeof(CELT_PVQ_U_DATA) / sizeof(CELT_PVQ_U_DATA[0])); }
const opus_uint32 *c17_pvq_data(void) { return CELT_PVQ_U_DATA; }
