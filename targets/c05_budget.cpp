// C05 (single-stream encoder): buffer limit, exact CBR size, OPUS_BITRATE_MAX
// fill, AUTO equal-size clause, tiny buffers.  History-based: one encoder, a
// generated sequence of ctl changes and encode calls, oracles after every call.
//
// Oracles per encode call (max_data_bytes = M, frame size fs samples at Fs):
//  * M == 0 -> negative return.  Otherwise a negative return must be
//    OPUS_BUFFER_TOO_SMALL and is only accepted for M <= 2.
//  * 1 <= len <= M; nothing outside data[0..M) is touched (layout 0: exact-size
//    heap block + ASan; layout 1: software guard bytes after data[M]).
//  * the packet is accepted by the RFC framing model, lasts exactly fs samples
//    and is decoded by a tree decoder kept in lock-step (returns fs).
//  * VBR off, explicit bitrate b (after the documented clamp to
//    [500, 300000*channels]): len == clip(floor((2*b*fs+8*Fs)/(16*Fs)), 1, min(M,1276))
//    for every duration 2.5..120 ms (the 1276 cap also binds multi-frame CBR
//    packets in this code base), unless DTX is enabled and len <= 2.
//  * VBR off, OPUS_BITRATE_MAX: len == min(M,1276) when the packet holds one
//    frame, len == M (no cap) when it holds several frames.
//  * VBR off, OPUS_AUTO: equal-duration packets have equal size: len ==
//    min(S[fs], M, 1276) where S[fs] is the size seen for that duration when M
//    did not bind.
#include "c05_common.hpp"
#include "siggen.hpp"

using namespace vp;

const TargetInfo vp_info = {"c05_budget", 8, 700};

namespace {

enum OpKind { OP_NONE = 0, OP_BITRATE, OP_VBRMODE, OP_DTX, OP_COMPLEXITY, OP_FORCE_MODE, OP_BANDWIDTH, OP_MAX_BANDWIDTH,
              OP_FEC, OP_FORCE_CH, OP_SIGNAL, OP_RESET, OP_PRED };
struct Step {
  int op = OP_NONE; opus_int32 a = 0, b = 0;
  int dur = 3;         // index into cu::DUR400
  int maxb = 1500;
  int layout = 0;
  int api = 0;         // 0 int16, 1 float
  int seg = 0;
};
struct Seg { int family; uint64_t seed; double amp; };

const int MAXSTEPS = 64;

}  // namespace

int vp_case(Choice& c, Report& rep) {
  cu::EncCfg cfg = cu::gen_cfg(c);
  // model of the rate-control settings
  opus_int32 m_bitrate = OPUS_AUTO; int m_vbr = cfg.vbr, m_cvbr = cfg.cvbr, m_dtx = cfg.dtx;
  c05::model_set_bitrate(cfg.bitrate, cfg.ch, m_bitrate);
  const int Fs = cfg.Fs, ch = cfg.ch;

  // ---- phase 1: decode the history -----------------------------------------
  Seg segs[3];
  int nseg = 1;
  for (int k = 0; k < 3; k++) {
    static const int FW[sig::NFAMILIES] = {2, 1, 2, 4, 2, 5, 4, 1, 2};
    segs[k].family = c.weighted(FW, sig::NFAMILIES);
    segs[k].seed = c.byte();
    static const double AMPS[6] = {0.5, 1.0, 0.1, 0.01, 0.001, 0.9};
    segs[k].amp = AMPS[c.irange(0, 5)];
  }
  std::vector<Step> steps;
  {
    opus_int32 b = m_bitrate; int vbr = m_vbr;
    int dur = c05::gen_dur(c);
    int seg = 0;
    while ((int)steps.size() < MAXSTEPS) {
      Step s;
      if (c.chance(90)) {
        static const int OW[13] = {0, 6, 5, 1, 1, 2, 1, 1, 1, 1, 1, 1, 1};
        s.op = c.weighted(OW, 13);
        switch (s.op) {
          case OP_BITRATE:
            if (c.chance(16)) s.a = (opus_int32)c.irange(-3, 499);
            else if (c.chance(24)) { static const int E[6] = {0, 1, -1, 2, -2, 1000}; s.a = (c.boolean() ? 300000 * ch : 500) + c.pick(E); }   // clamp edges
            else s.a = cu::gen_bitrate(c, ch);
            c05::model_set_bitrate(s.a, ch, b);
            break;
          case OP_VBRMODE: s.a = c.irange(0, 2); vbr = s.a != 1; break;   // 0 cvbr, 1 cbr, 2 vbr
          case OP_DTX: s.a = c.irange(0, 1); break;
          case OP_COMPLEXITY: s.a = c.irange(0, 10); break;
          case OP_FORCE_MODE: { static const int M[4] = {OPUS_AUTO, 1000, 1001, 1002}; s.a = c.pick(M); break; }
          case OP_BANDWIDTH: s.a = c.chance(64) ? OPUS_AUTO : cu::BANDWIDTHS[c.irange(0, 4)]; break;
          case OP_MAX_BANDWIDTH: s.a = cu::BANDWIDTHS[c.irange(0, 4)]; break;
          case OP_FEC: s.a = c.irange(0, 2); s.b = c.irange(0, 100); break;
          case OP_FORCE_CH: s.a = c.chance(100) ? OPUS_AUTO : 1 + c.irange(0, ch - 1); break;
          case OP_SIGNAL: { static const int S[3] = {OPUS_AUTO, OPUS_SIGNAL_VOICE, OPUS_SIGNAL_MUSIC}; s.a = c.pick(S); break; }
          case OP_PRED: s.a = c.irange(0, 1); break;
          default: break;
        }
      }
      if (c.chance(50)) dur = c05::gen_dur(c);
      s.dur = dur;
      int fs = cu::frame_samples(Fs, dur);
      int pred = -1;
      if (!vbr) {
        if (b == OPUS_BITRATE_MAX) pred = 0;
        else if (b != OPUS_AUTO) pred = (int)std::min<int64_t>(c05::cbr_round_bytes(b, fs, Fs), 5000);
        else pred = (int)c05::cbr_round_bytes(60ll * Fs / fs + (int64_t)Fs * ch, fs, Fs);   // only steers the generator
      }
      s.maxb = c05::gen_maxbytes(c, pred);
      if (s.maxb == 7 && c.byte() == 255) s.maxb = 0;   // rare: outside the stated domain, must be rejected
      int la = c.irange(0, 3);
      s.layout = la & 1; s.api = la >> 1;
      if (nseg < 3 && c.chance(14)) { seg = nseg++; }
      s.seg = seg;
      steps.push_back(s);
      if (c.exhausted()) break;
    }
  }

  // ---- phase 2: signals -----------------------------------------------------
  std::vector<float> pcm_seg[3];
  std::vector<size_t> seg_pos(3, 0);
  {
    size_t need[3] = {0, 0, 0};
    for (auto& s : steps) need[s.seg] += (size_t)cu::frame_samples(Fs, s.dur);
    for (int k = 0; k < nseg; k++) sig::generate(segs[k].family, segs[k].seed, Fs, ch, (int)need[k], segs[k].amp, pcm_seg[k]);
  }

  // ---- phase 3: run ----------------------------------------------------------
  cu::Enc enc; cu::Dec dec;
  int err = 0;
  enc.p = opus_encoder_create(Fs, ch, cfg.app, &err);
  VP_REQUIRE(enc.p && err == OPUS_OK, "c05:encoder-create", "Fs=%d ch=%d app=%d err=%d", Fs, ch, cfg.app, err);
  dec.p = opus_decoder_create(Fs, ch, &err);
  VP_REQUIRE(dec.p && err == OPUS_OK, "c05:decoder-create", "err=%d", err);
  err = cu::apply_cfg(enc.p, cfg);
  VP_REQUIRE(err == OPUS_OK, "c05:initial-ctl", "%s -> %d", cu::cfg_str(cfg).c_str(), err);
  rep.note("cfg %s; %zu steps; signal %s amp %g", cu::cfg_str(cfg).c_str(), steps.size(), sig::FAMILY_NAME[segs[0].family], segs[0].amp);
  rep.fingerprint(Fs); rep.fingerprint(ch); rep.fingerprint(cfg.app);

  int auto_size[9]; for (int i = 0; i < 9; i++) auto_size[i] = -1;
  bool nontrivial = false, switched = false;
  int prev_vbr = m_vbr;
  std::vector<float> fbuf; std::vector<opus_int16> sbuf;

  for (size_t si = 0; si < steps.size(); si++) {
    const Step& s = steps[si];
    // -- ctl change
    if (s.op != OP_NONE) {
      int r = OPUS_OK, want = OPUS_OK;
      switch (s.op) {
        case OP_BITRATE: {
          opus_int32 before = m_bitrate;
          bool ok = c05::model_set_bitrate(s.a, ch, m_bitrate);
          want = ok ? OPUS_OK : OPUS_BAD_ARG;
          r = opus_encoder_ctl(enc.p, OPUS_SET_BITRATE(s.a));
          if (!ok) m_bitrate = before;
          rep.note("[%zu] SET_BITRATE(%d)", si, s.a);
          break; }
        case OP_VBRMODE:
          m_vbr = s.a != 1; m_cvbr = s.a != 2;
          r = opus_encoder_ctl(enc.p, OPUS_SET_VBR(m_vbr));
          if (r == OPUS_OK) r = opus_encoder_ctl(enc.p, OPUS_SET_VBR_CONSTRAINT(m_cvbr));
          rep.note("[%zu] vbr=%d cvbr=%d", si, m_vbr, m_cvbr);
          break;
        case OP_DTX: m_dtx = s.a; r = opus_encoder_ctl(enc.p, OPUS_SET_DTX(s.a)); rep.note("[%zu] dtx=%d", si, s.a); break;
        case OP_COMPLEXITY: r = opus_encoder_ctl(enc.p, OPUS_SET_COMPLEXITY(s.a)); break;
        case OP_FORCE_MODE: r = opus_encoder_ctl(enc.p, CU_SET_FORCE_MODE(s.a)); rep.note("[%zu] force_mode=%d", si, s.a); break;
        case OP_BANDWIDTH: r = opus_encoder_ctl(enc.p, OPUS_SET_BANDWIDTH(s.a)); break;
        case OP_MAX_BANDWIDTH: r = opus_encoder_ctl(enc.p, OPUS_SET_MAX_BANDWIDTH(s.a)); break;
        case OP_FEC: r = opus_encoder_ctl(enc.p, OPUS_SET_INBAND_FEC(s.a)); if (r == OPUS_OK) r = opus_encoder_ctl(enc.p, OPUS_SET_PACKET_LOSS_PERC(s.b)); break;
        case OP_FORCE_CH: r = opus_encoder_ctl(enc.p, OPUS_SET_FORCE_CHANNELS(s.a)); break;
        case OP_SIGNAL: r = opus_encoder_ctl(enc.p, OPUS_SET_SIGNAL(s.a)); break;
        case OP_RESET: r = opus_encoder_ctl(enc.p, OPUS_RESET_STATE); if (opus_decoder_ctl(dec.p, OPUS_RESET_STATE) != OPUS_OK) r = -1; break;
        case OP_PRED: r = opus_encoder_ctl(enc.p, OPUS_SET_PREDICTION_DISABLED(s.a)); break;
      }
      VP_REQUIRE(r == want, "c05:ctl-result", "step %zu op %d arg %d/%d returned %d, expected %d", si, s.op, s.a, s.b, r, want);
      // the getter must agree with the model of the bitrate setting
      if (s.op == OP_BITRATE && m_bitrate != OPUS_AUTO && m_bitrate != OPUS_BITRATE_MAX) {
        opus_int32 g = -1;
        opus_encoder_ctl(enc.p, OPUS_GET_BITRATE(&g));
        VP_REQUIRE(g == m_bitrate, "c05:bitrate-clamp", "SET_BITRATE(%d) on %d ch: getter reports %d, documented clamp gives %d", s.a, ch, g, m_bitrate);
      }
      rep.count();
    }
    if (m_vbr != prev_vbr) { switched = true; prev_vbr = m_vbr; }

    // -- encode
    const int fs = cu::frame_samples(Fs, s.dur);
    const int M = s.maxb;
    const float* src = pcm_seg[s.seg].data() + seg_pos[s.seg] * ch;
    seg_pos[s.seg] += fs;
    c05::OutBuf out(M, s.layout);
    int len;
    if (s.api == 0) {
      HeapBuf<opus_int16> in((size_t)fs * ch);
      for (int i = 0; i < fs * ch; i++) { double v = std::floor(src[i] * 32768.0 + 0.5); in.p[i] = (opus_int16)(v > 32767 ? 32767 : v < -32768 ? -32768 : v); }
      len = opus_encode(enc.p, in.p, fs, out.data(), M);
    } else {
      HeapBuf<float> in((size_t)fs * ch);
      memcpy(in.p, src, sizeof(float) * (size_t)fs * ch);
      len = opus_encode_float(enc.p, in.p, fs, out.data(), M);
    }
    rep.count();
    rep.fingerprint(mix(mix(s.dur, (uint64_t)(M < 16 ? M : 16 + M / 64)), (uint64_t)(m_vbr * 2 + m_cvbr) * 7 + (uint64_t)(m_bitrate < 0 ? m_bitrate + 2000 : m_bitrate / 4000)));
    rep.note("[%zu] encode %gms M=%d layout=%d api=%d -> %d", si, cu::DUR400[s.dur] * 2.5, M, s.layout, s.api, len);
    const char* ctx_fmt = "step %zu: Fs=%d ch=%d %gms M=%d vbr=%d cvbr=%d bitrate=%d dtx=%d ret=%d";
#define CTX ctx_fmt, si, Fs, ch, cu::DUR400[s.dur] * 2.5, M, m_vbr, m_cvbr, m_bitrate, m_dtx, len
    VP_REQUIRE(out.guard_damage() < 0, "c05:guard-bytes-overwritten", "guard byte %d after data[max_data_bytes] changed; step %zu Fs=%d ch=%d %gms M=%d ret=%d", out.guard_damage(), si, Fs, ch, cu::DUR400[s.dur] * 2.5, M, len);
    if (s.layout) rep.label("layout:guard"); else rep.label("layout:exact");
    if (M == 0) {
      VP_REQUIRE(len < 0, "c05:zero-buffer-accepted", CTX);
      rep.label("max0-rejected");
      continue;
    }
    if (M < 8) { nontrivial = true; rep.label("tiny-buffer"); }
    if (len < 0) {
      VP_REQUIRE(len == OPUS_BUFFER_TOO_SMALL, "c05:encode-error", CTX);
      VP_REQUIRE(M <= 2, "c05:too-small-with-room", CTX);
      rep.label("too-small-error");
      continue;
    }
    VP_REQUIRE(len >= 1 && len <= M, "c05:length-out-of-range", CTX);
    c05::PktInfo pi;
    VP_REQUIRE(c05::inspect(out.data(), len, Fs, pi), "c05:invalid-packet", CTX);
    if (pi.samples != fs) return rep.fail("c05:packet-duration", "packet lasts %d samples (%d frames), %d were encoded; step %zu Fs=%d ch=%d M=%d ret=%d", pi.samples, pi.p.count, fs, si, Fs, ch, M, len);
    {
      HeapBuf<uint8_t> pkt((size_t)len);
      memcpy(pkt.p, out.data(), (size_t)len);
      HeapBuf<float> pcm((size_t)fs * ch);
      int dr = opus_decode_float(dec.p, pkt.p, len, pcm.p, fs, 0);
      rep.count();
      if (dr != fs) return rep.fail("c05:decode", "decoder returned %d for a %d-byte packet of %d samples (Fs=%d ch=%d step %zu M=%d)", dr, len, fs, Fs, ch, si, M);
      if (!all_finite(pcm.p, (size_t)fs * ch)) return rep.fail("c05:decode-nonfinite", "decoded audio not finite at step %zu", si);
    }
    rep.label(pi.t.mode == rfc::SILK ? "mode:silk" : pi.t.mode == rfc::HYBRID ? "mode:hybrid" : "mode:celt");
    if (pi.p.count > 1) rep.label("multi-frame");
    if (len <= 2) rep.label("len<=2");

    if (m_vbr) { rep.label(m_cvbr ? "vbr:constrained" : "vbr:unconstrained"); if (len > 1276) rep.label("vbr-over-1276"); continue; }

    // ---- CBR clauses
    const bool dtx_packet = m_dtx && len <= 2;
    const int cap = M < 1276 ? M : 1276;
    if (m_bitrate == OPUS_BITRATE_MAX) {
      int E = pi.p.count == 1 ? cap : M;
      if (dtx_packet && E > 2) { rep.label("cbr-dtx-exempt"); continue; }
      // a packet of <= 2 bytes may be a TOC-only multi-frame packet: then count>1 but the low-budget path pads to min(M,1276)==M
      if (len != E) return rep.fail("c05:bitrate-max-not-filled", "OPUS_BITRATE_MAX CBR packet of %d bytes with %d frame(s), expected %d; step %zu Fs=%d ch=%d %gms M=%d dtx=%d", len, pi.p.count, E, si, Fs, ch, cu::DUR400[s.dur] * 2.5, M, m_dtx);
      rep.label(pi.p.count == 1 ? "cbr-max-fill" : "cbr-max-fill-multiframe");
      if (pi.p.count > 1 && M > 1276) rep.label("cbr-max-multiframe-over-1276");
      if (pi.p.count == 1 && M > 1276) rep.label("cbr-max-capped-1276");
    } else if (m_bitrate == OPUS_AUTO) {
      if (dtx_packet) { rep.label("cbr-dtx-exempt"); continue; }
      int& S = auto_size[s.dur];
      if (len < cap) {
        if (S >= 0 && S != len) return rep.fail("c05:cbr-auto-size-varies", "AUTO CBR %g ms packets of %d and %d bytes with room for more; step %zu Fs=%d ch=%d M=%d", cu::DUR400[s.dur] * 2.5, S, len, si, Fs, ch, M);
        S = len;
      } else if (S >= 0 && S < len) {
        return rep.fail("c05:cbr-auto-size-varies", "AUTO CBR %g ms packet of %d bytes, earlier %d; step %zu Fs=%d ch=%d M=%d", cu::DUR400[s.dur] * 2.5, len, S, si, Fs, ch, M);
      }
      rep.label("cbr-auto");
    } else {
      int E = c05::cbr_expected(m_bitrate, fs, Fs, M);
      if (dtx_packet && E > 2) { rep.label("cbr-dtx-exempt"); continue; }
      if (len != E) {
        rep.fail("c05:cbr-size", "CBR packet of %d bytes, exact round(b*T/8) clipped to [1,min(M,1276)] is %d (unclipped %lld); step %zu Fs=%d ch=%d %gms M=%d bitrate=%d dtx=%d frames=%d",
                 len, E, (long long)c05::cbr_round_bytes(m_bitrate, fs, Fs), si, Fs, ch, cu::DUR400[s.dur] * 2.5, M, m_bitrate, m_dtx, pi.p.count);
        return 1;
      }
      int64_t raw = c05::cbr_round_bytes(m_bitrate, fs, Fs);
      if (raw > 1276 && M >= 1276) rep.label("cbr-capped-1276");
      else if (raw > M) rep.label("cbr-capped-by-max");
      else if (raw < 1) rep.label("cbr-floor-1");
      else rep.label("cbr-exact");
      if (E != M) { nontrivial = true; }
      if (pi.p.count > 1) rep.label("cbr-exact-multiframe");
      if (len >= 3 && pi.p.padding_len > 0) rep.label("cbr-padded");
    }
  }
#undef CTX
  if (switched) { nontrivial = true; rep.label("vbr-cbr-switch"); }
  rep.nontrivial(nontrivial);
  return 0;
}
