// Helpers shared by the multistream targets (C10, C13): generated channel
// layouts, multi-channel signals, and splitting of multistream packets with the
// independent RFC 6716 framing model (engine/rfc_framing.hpp).
#pragma once
#include <string>
#include <vector>
#include "codec_util.hpp"
#include "rfc_framing.hpp"
#include "siggen.hpp"
#include "vp.hpp"

namespace msu {

struct Layout {
  int channels = 1, streams = 1, coupled = 0;
  unsigned char mapping[256];
  Layout() { memset(mapping, 0, sizeof mapping); }
  int nstreamch() const { return streams + coupled; }
};

inline std::string layout_str(const Layout& L) {
  char b[64];
  snprintf(b, sizeof b, "ch=%d streams=%d coupled=%d map=[", L.channels, L.streams, L.coupled);
  std::string s = b;
  for (int i = 0; i < L.channels && i < 24; i++) { snprintf(b, sizeof b, "%s%d", i ? "," : "", L.mapping[i]); s += b; }
  if (L.channels > 24) s += ",...";
  return s + "]";
}

// Decoder layout: any mapping entry in [0, streams+coupled) or 255, duplicates allowed.
inline Layout gen_decoder_layout(vp::Choice& c, int max_streams, int max_channels) {
  Layout L;
  L.streams = 1 + c.irange(0, max_streams - 1);
  L.coupled = c.irange(0, L.streams);
  L.channels = 1 + c.irange(0, max_channels - 1);
  int n = L.nstreamch();
  for (int i = 0; i < L.channels; i++) {
    int k = c.byte();
    if (k < 150) L.mapping[i] = (unsigned char)(i % n);          // plain
    else if (k < 230) L.mapping[i] = (unsigned char)(k % n);       // arbitrary / duplicate
    else L.mapping[i] = 255;                                     // muted
  }
  return L;
}

// Encoder layout: every stream channel is fed by at least one input channel.
inline Layout gen_encoder_layout(vp::Choice& c, int max_streams, int max_extra) {
  Layout L;
  L.streams = 1 + c.irange(0, max_streams - 1);
  L.coupled = c.irange(0, L.streams);
  int n = L.nstreamch();
  int extra = c.chance(90) ? 1 + c.irange(0, max_extra - 1) : 0;
  L.channels = n + extra;
  if (L.channels > 255) L.channels = 255;
  // a rotation of the identity, then extras (duplicates or muted)
  int rot = c.chance(100) ? c.irange(0, n - 1) : 0;
  for (int i = 0; i < n; i++) L.mapping[i] = (unsigned char)((i + rot) % n);
  for (int i = n; i < L.channels; i++) { int k = c.byte(); L.mapping[i] = k < 128 ? 255 : (unsigned char)(k % n); }
  // optionally move an extra channel to the front so "first channel that maps" differs from the identity
  if (extra && c.chance(100)) { unsigned char t = L.mapping[0]; L.mapping[0] = L.mapping[L.channels - 1]; L.mapping[L.channels - 1] = t; }
  return L;
}

inline Layout trivial_layout(int streams, int coupled) {
  Layout L; L.streams = streams; L.coupled = coupled; L.channels = streams + coupled;
  for (int i = 0; i < L.channels; i++) L.mapping[i] = (unsigned char)i;
  return L;
}

// stream and side of stream-channel index m: coupled streams first (2 channels each)
inline void stream_of(const Layout& L, int m, int& stream, int& side) {
  if (m < 2 * L.coupled) { stream = m / 2; side = m % 2; } else { stream = L.coupled + (m - 2 * L.coupled); side = 0; }
}

// Multi-channel test signal: channel k gets its own family/seed so that a
// routing mistake is visible.  ch<=2 uses the stereo generator directly.
static const int NFAM = sig::NFAMILIES + 2;   // + white noise, + int16 extremes
inline const char* fam_name(int f) { return f < sig::NFAMILIES ? sig::FAMILY_NAME[f] : f == sig::NFAMILIES ? "white" : "extremes"; }
inline void gen_mono(int fam, uint64_t seed, int Fs, int n, double amp, std::vector<float>& out) {
  if (fam < sig::NFAMILIES) { sig::generate(fam, seed, Fs, 1, n, amp, out); return; }
  out.assign(n, 0.f);
  vp::Rng r(seed * 77 + fam);
  if (fam == sig::NFAMILIES) { for (int i = 0; i < n; i++) out[i] = (float)(amp * r.sym()); return; }
  static const float EX[8] = {-1.f, 32767.f / 32768.f, 0.f, 1.f / 32768.f, -1.f / 32768.f, 0.5f, -32767.f / 32768.f, 2.f / 32768.f};
  for (int i = 0; i < n; i++) out[i] = EX[r.next() & 7];
}
inline void gen_signal(int fam, uint64_t seed, int Fs, int ch, int n, double amp, std::vector<float>& out) {
  if (ch <= 2 && fam < sig::NFAMILIES) { sig::generate(fam, seed, Fs, ch, n, amp, out); return; }
  out.assign((size_t)n * ch, 0.f);
  std::vector<float> m;
  for (int k = 0; k < ch; k++) {
    int f = k == 0 ? fam : (fam == sig::SILENCE ? sig::SILENCE : (fam + k) % NFAM);
    gen_mono(f, seed + 7919ull * k, Fs, n, amp * (1.0 - 0.04 * (k % 6)), m);
    for (int i = 0; i < n; i++) out[(size_t)i * ch + k] = m[i];
  }
}

// ---- splitting a multistream packet with the framing model ----------------
struct Sub {
  rfc::Parsed p;                 // parse of the sub-packet in its own framing
  int offset = 0;                // offset of the sub-packet in the multistream packet
  std::vector<uint8_t> std_pkt;  // re-serialised in standard framing
  int dur_400 = 0;               // total duration in 2.5 ms units
};

// Re-serialise a parsed (self-delimited or standard) packet to standard framing via the model.
inline bool reserialize_std(const uint8_t* d, const rfc::Parsed& p, std::vector<uint8_t>& out) {
  rfc::Spec s;
  s.toc_hi = (uint8_t)(p.toc & 0xFC);
  s.code = p.toc & 3;
  s.vbr = p.vbr;
  for (int i = 0; i < p.count; i++) s.frames.emplace_back(d + p.offset[i], d + p.offset[i] + p.size[i]);
  if (s.code == 3 && p.padding_len > 0) {
    int k = p.padding_len / 254, last = p.padding_len % 254;
    s.pad_len_bytes = 255 * k + last + 1;
    s.pad_data.assign(d + p.padding_offset, d + p.padding_offset + p.padding_len);
  }
  return rfc::serialize(s, false, out);
}

// Returns true when the packet is exactly nb_streams-1 self-delimited packets
// followed by one standard packet; `why` explains a failure.
inline bool split(const uint8_t* d, int len, int nb_streams, std::vector<Sub>& out, std::string& why) {
  out.clear();
  int pos = 0;
  char b[128];
  for (int s = 0; s < nb_streams; s++) {
    bool sd = s != nb_streams - 1;
    if (len - pos < 1) { snprintf(b, sizeof b, "stream %d: no bytes left (len %d)", s, len); why = b; return false; }
    Sub sub;
    sub.p = rfc::parse(d + pos, len - pos, sd);
    if (!sub.p.ok) { snprintf(b, sizeof b, "stream %d at offset %d: model rejects the %s packet", s, pos, sd ? "self-delimited" : "standard"); why = b; return false; }
    sub.offset = pos;
    sub.dur_400 = sub.p.count * rfc::toc_info(sub.p.toc).dur_400;
    if (!reserialize_std(d + pos, sub.p, sub.std_pkt)) { snprintf(b, sizeof b, "stream %d: cannot re-serialise", s); why = b; return false; }
    pos += sub.p.consumed;
    out.push_back(std::move(sub));
  }
  if (pos != len) { snprintf(b, sizeof b, "%d bytes left over after %d streams", len - pos, nb_streams); why = b; return false; }
  return true;
}

}  // namespace msu
