// C01: decoding is total and memory-safe for arbitrary packets and call
// histories (single-stream 16/24/float, multistream, projection), and the
// return-code / duration contract holds.  Oracles: return-value model derived
// from the API documentation + RFC framing model, finite output, exact-size
// heap buffers under ASan/UBSan with assertions, hang watchdog (driver).
#include "vp.hpp"
#include "rfc_framing.hpp"
#include "common.hpp"
#include "codec_util.hpp"
#include "siggen.hpp"
extern "C" {
#include "opus_private.h"
}
#include <cmath>

using namespace vp;

const TargetInfo vp_info = {"c01_decode", 16, 3000};

namespace {

enum Kind { SINGLE = 0, MULTI = 1, PROJ = 2 };

struct Obj {
  Kind kind = SINGLE;
  int Fs = 48000, channels = 1;
  int streams = 1, coupled = 0;
  unsigned char mapping[256];
  cu::Dec d; cu::MSDec ms; cu::ProjDec pj;
  // packet sources
  cu::Enc enc; cu::MSEnc msenc;
  int enc_Fs = 48000, enc_ch = 1;
  int enc_frames = 0;
  uint64_t sig_seed = 0; int sig_family = 0; int sig_pos = 0;
};

bool is_err_code(int r) { return r == OPUS_BAD_ARG || r == OPUS_BUFFER_TOO_SMALL || r == OPUS_INVALID_PACKET; }

// model verdict for a whole (multi)stream packet
struct Verdict { bool valid = false; int samples = 0; int toc0 = 0; bool multiframe = false, padded = false, hybrid = false; };

Verdict judge(const Obj& o, const uint8_t* d, int len) {
  Verdict v;
  if (len <= 0) return v;
  if (o.kind == SINGLE) {
    rfc::Parsed p = rfc::parse(d, len, false);
    if (!p.ok) return v;
    v.valid = true; v.samples = p.count * rfc::samples_per_frame(d[0], o.Fs); v.toc0 = d[0];
    v.multiframe = p.count > 1; v.padded = p.padding_len > 0; v.hybrid = rfc::toc_info(d[0]).mode == rfc::HYBRID;
    return v;
  }
  int pos = 0; int samples = -1;
  for (int s = 0; s < o.streams; s++) {
    if (len - pos <= 0) return v;
    rfc::Parsed p = rfc::parse(d + pos, len - pos, s != o.streams - 1);
    if (!p.ok) return v;
    int smp = p.count * rfc::samples_per_frame(d[pos], o.Fs);
    if (s && smp != samples) return v;
    samples = smp;
    if (s == 0) v.toc0 = d[pos];
    if (p.count > 1) v.multiframe = true;
    if (p.padding_len > 0) v.padded = true;
    if (rfc::toc_info(d[pos]).mode == rfc::HYBRID) v.hybrid = true;
    pos += p.consumed;
  }
  v.valid = true; v.samples = samples;
  return v;
}

int boundary_len(Choice& c) {
  static const int B[] = {0, 1, 2, 3, 8, 30, 100, 251, 252, 253, 255, 256, 600, 1274, 1275, 1276};
  if (c.chance(170)) return c.irange(0, 80);
  return c.pick(B);
}

// one standard-framing spec with generated payload
void gen_spec(Choice& c, rfc::Spec& s, int force_dur400 = -1, int force_count = -1) {
  uint8_t toc = c.byte();
  if (force_dur400 > 0) {
    // choose a config with the requested frame duration
    for (int tries = 0; tries < 64; tries++) { if (rfc::toc_info(toc).dur_400 == force_dur400) break; toc = (uint8_t)(toc + 8); }
  }
  s.toc_hi = toc & 0xFC;
  s.code = c.irange(0, 3);
  int dur = rfc::toc_info(toc).dur_400;
  int maxM = 48 / dur;
  int M = s.code == 0 ? 1 : s.code < 3 ? 2 : c.irange(1, maxM < 1 ? 1 : maxM);
  if (force_count > 0) { M = force_count; s.code = M == 1 ? (c.boolean() ? 0 : 3) : (M == 2 ? c.irange(1, 3) : 3); }
  s.vbr = c.boolean();
  int common = boundary_len(c);
  Rng rng(c.u32());
  int paystyle = c.irange(0, 3);
  s.frames.clear();
  for (int i = 0; i < M; i++) {
    int L = (s.code == 1 || (s.code == 3 && !s.vbr)) ? common : boundary_len(c);
    if (M > 6 && L > 200) L %= 200;
    std::vector<uint8_t> f((size_t)L);
    for (auto& b : f) b = paystyle == 0 ? (uint8_t)rng.u32() : paystyle == 1 ? 0x00 : paystyle == 2 ? 0xFF : (uint8_t)(rng.u32() & rng.u32());
    // let choices steer the first bytes (header bits of SILK / CELT)
    for (int k = 0; k < 4 && k < L; k++) if (c.chance(128)) f[k] = c.byte();
    s.frames.push_back(f);
  }
  s.pad_len_bytes = -1;
  if (s.code == 3 && c.chance(60)) s.pad_len_bytes = c.chance(200) ? c.irange(1, 40) : c.irange(1, 700);
}

void mutate(Choice& c, std::vector<uint8_t>& p) {
  int k = c.irange(1, 4);
  for (int i = 0; i < k; i++) {
    int what = c.irange(0, 4);
    if (what == 0 && !p.empty()) { p[c.irange(0, (int)p.size() - 1)] ^= (uint8_t)(1 << c.irange(0, 7)); }
    else if (what == 1 && !p.empty()) { p[c.irange(0, (int)p.size() - 1)] = c.byte(); }
    else if (what == 2 && !p.empty()) { p.resize(c.irange(0, (int)p.size() - 1)); }
    else if (what == 3) { int add = c.irange(1, 8); for (int j = 0; j < add; j++) p.push_back(c.byte()); }
    else if (!p.empty()) { p[0] = c.byte(); }
  }
}

// encoder-derived packet for the object's layout (valid deep states)
bool encoder_packet(Choice& c, Report& rep, Obj& o, std::vector<uint8_t>& out) {
  if (o.enc_frames >= 8) return false;
  int dsel = c.irange(0, 8);
  static const int DS[9] = {3, 3, 2, 1, 0, 4, 5, 3, 8};   // mostly 20 ms
  int d = DS[dsel];
  if (o.kind == SINGLE) {
    if (!o.enc.p) {
      cu::EncCfg e = cu::gen_cfg(c);
      if (c.chance(128)) e.Fs = o.Fs;
      if (c.chance(128)) e.ch = o.channels;
      int err;
      o.enc.p = opus_encoder_create(e.Fs, e.ch, e.app, &err);
      if (!o.enc.p) return false;
      cu::apply_cfg(o.enc.p, e);
      o.enc_Fs = e.Fs; o.enc_ch = e.ch;
      o.sig_seed = c.u32(); o.sig_family = c.irange(0, sig::NFAMILIES - 1);
      rep.note("source-encoder{%s}", cu::cfg_str(e).c_str());
    } else if (c.chance(50)) {
      // setting change between frames to provoke mode / bandwidth / channel transitions
      int w = c.irange(0, 3);
      if (w == 0) opus_encoder_ctl(o.enc.p, CU_SET_FORCE_MODE(1000 + c.irange(0, 2)));
      else if (w == 1) opus_encoder_ctl(o.enc.p, OPUS_SET_BANDWIDTH(cu::BANDWIDTHS[c.irange(0, 4)]));
      else if (w == 2) opus_encoder_ctl(o.enc.p, OPUS_SET_FORCE_CHANNELS(1 + c.irange(0, 1) > o.enc_ch ? OPUS_AUTO : 1 + c.irange(0, 1)));
      else opus_encoder_ctl(o.enc.p, OPUS_SET_BITRATE(cu::gen_bitrate(c, o.enc_ch)));
    }
    int n = cu::frame_samples(o.enc_Fs, d);
    std::vector<float> pcm;
    sig::generate(o.sig_family, o.sig_seed, o.enc_Fs, o.enc_ch, n, 0.5, pcm, o.sig_pos);
    o.sig_pos += n;
    out.resize(1500);
    int r = opus_encode_float(o.enc.p, pcm.data(), n, out.data(), (int)out.size());
    o.enc_frames++;
    if (r <= 0) return false;
    out.resize(r);
    return true;
  }
  // multistream / projection: encoder with the same stream structure
  if (!o.msenc.p) {
    int err;
    // mapping for the encoder must cover every stream channel; use identity-like mapping
    int ech = o.streams + o.coupled;
    if (ech > 255) return false;
    unsigned char map[256];
    for (int i = 0; i < ech; i++) map[i] = (unsigned char)i;
    o.msenc.p = opus_multistream_encoder_create(o.Fs, ech, o.streams, o.coupled, map, OPUS_APPLICATION_AUDIO, &err);
    if (!o.msenc.p) return false;
    opus_multistream_encoder_ctl(o.msenc.p, OPUS_SET_BITRATE(c.irange(6000, 64000) * ech));
    opus_multistream_encoder_ctl(o.msenc.p, OPUS_SET_COMPLEXITY(c.irange(0, 4)));
    if (c.chance(80)) opus_multistream_encoder_ctl(o.msenc.p, OPUS_SET_INBAND_FEC(1)), opus_multistream_encoder_ctl(o.msenc.p, OPUS_SET_PACKET_LOSS_PERC(30));
    o.sig_seed = c.u32(); o.sig_family = c.irange(0, sig::NFAMILIES - 1);
    o.enc_ch = ech;
  }
  if (d > 4) d = 3;
  int n = cu::frame_samples(o.Fs, d);
  std::vector<float> pcm;
  sig::generate(o.sig_family, o.sig_seed, o.Fs, o.enc_ch, n, 0.4, pcm, o.sig_pos);
  o.sig_pos += n;
  out.resize(1500 * o.streams > 20000 ? 20000 : 1500 * o.streams);
  int r = opus_multistream_encode_float(o.msenc.p, pcm.data(), n, out.data(), (int)out.size());
  o.enc_frames++;
  if (r <= 0) return false;
  out.resize(r);
  return true;
}

void gen_packet(Choice& c, Report& rep, Obj& o, std::vector<uint8_t>& out) {
  static const int W[] = {3, 5, 4};
  int src = c.weighted(W, 3);
  out.clear();
  if (src == 0) {
    int len = c.chance(200) ? c.irange(0, 64) : (c.chance(230) ? c.irange(0, 1500) : c.irange(0, 8000));
    out.resize(len);
    if (len <= 64) c.bytes(out.data(), len);
    else { Rng rng(c.u32()); for (auto& b : out) b = (uint8_t)rng.u32(); for (int k = 0; k < 6; k++) out[k] = c.byte(); }
    rep.label("src:raw");
    return;
  }
  if (src == 2) {
    if (encoder_packet(c, rep, o, out)) {
      rep.label("src:encoder");
      if (c.chance(70)) { mutate(c, out); rep.label("src:encoder-mutated"); }
      return;
    }
  }
  // framed
  rep.label("src:framed");
  if (o.kind == SINGLE) {
    rfc::Spec s; gen_spec(c, s);
    rfc::serialize(s, false, out);
  } else {
    bool unequal = c.chance(24);
    rfc::Spec s0; gen_spec(c, s0);
    int dur = rfc::toc_info(s0.toc_hi).dur_400; int cnt = (int)s0.frames.size();
    std::vector<uint8_t> one;
    for (int s = 0; s < o.streams; s++) {
      rfc::Spec sp;
      if (s == 0) sp = s0; else gen_spec(c, sp, unequal && s == o.streams - 1 ? -1 : dur, unequal && s == o.streams - 1 ? -1 : cnt);
      rfc::serialize(sp, s != o.streams - 1, one);
      out.insert(out.end(), one.begin(), one.end());
      if (out.size() > 12000) break;
    }
    if (unequal) rep.label("ms-unequal-durations");
  }
  if (c.chance(40)) { mutate(c, out); rep.label("src:framed-mutated"); }
}

bool create_obj(Choice& c, Report& rep, Obj& o) {
  static const int KW[] = {6, 3, 1};
  o.kind = (Kind)c.weighted(KW, 3);
  o.Fs = cu::RATES[4 - c.irange(0, 4)];
  int err = 0;
  if (o.kind == SINGLE) {
    o.channels = 1 + c.irange(0, 1);
    o.d.p = opus_decoder_create(o.Fs, o.channels, &err);
    rep.note("single Fs=%d ch=%d", o.Fs, o.channels);
    return o.d.p != nullptr;
  }
  if (o.kind == MULTI) {
    bool big = c.chance(8);
    o.streams = big ? c.irange(1, 40) : c.irange(1, 6);
    o.coupled = c.irange(0, o.streams);
    o.channels = big ? c.irange(1, 255) : c.irange(1, 10);
    int nsc = o.streams + o.coupled;
    for (int i = 0; i < o.channels; i++) { int m = c.irange(0, nsc); o.mapping[i] = (unsigned char)(m == nsc ? 255 : m); }
    o.ms.p = opus_multistream_decoder_create(o.Fs, o.channels, o.streams, o.coupled, o.mapping, &err);
    rep.note("multistream Fs=%d ch=%d streams=%d coupled=%d", o.Fs, o.channels, o.streams, o.coupled);
    return o.ms.p != nullptr;
  }
  // projection: generated demixing matrix of the documented size
  o.streams = c.irange(1, 5);
  o.coupled = c.irange(0, o.streams);
  int nin = o.streams + o.coupled;
  o.channels = c.irange(1, nin);   // the projection decoder maps output channel i to matrix row i: channels <= streams+coupled
  std::vector<unsigned char> mat((size_t)nin * o.channels * 2);
  Rng rng(c.u32());
  int style = c.irange(0, 2);
  for (size_t i = 0; i < mat.size(); i += 2) {
    int v = style == 0 ? (int)(rng.u32() & 0xFFFF) : style == 1 ? ((i / 2) % (size_t)(o.channels + 1) == 0 ? 32767 : 0) : (rng.range(-4000, 4000) & 0xFFFF);
    mat[i] = (unsigned char)(v & 255); mat[i + 1] = (unsigned char)((v >> 8) & 255);
  }
  o.pj.p = opus_projection_decoder_create(o.Fs, o.channels, o.streams, o.coupled, mat.data(), (opus_int32)mat.size(), &err);
  rep.note("projection Fs=%d ch=%d streams=%d coupled=%d matrix-style=%d", o.Fs, o.channels, o.streams, o.coupled, style);
  return o.pj.p != nullptr;
}

int dec_ctl_get_last(Obj& o, opus_int32* v) {
  if (o.kind == SINGLE) return opus_decoder_ctl(o.d.p, OPUS_GET_LAST_PACKET_DURATION(v));
  if (o.kind == MULTI) return opus_multistream_decoder_ctl(o.ms.p, OPUS_GET_LAST_PACKET_DURATION(v));
  return opus_projection_decoder_ctl(o.pj.p, OPUS_GET_LAST_PACKET_DURATION(v));
}

}  // namespace

int vp_case(Choice& c, Report& rep) {
  Obj o;
  if (!create_obj(c, rep, o)) return rep.fail("c01:create-failed", "decoder creation failed for a legal configuration");
  rep.label(o.kind == SINGLE ? "kind:single" : o.kind == MULTI ? "kind:multistream" : "kind:projection");
  int nops = 1 + c.irange(0, 23);
  int prev_mode = -1;
  bool had_deep = false, after_deep = false;
  uint64_t fp = mix(o.kind, mix(o.Fs, o.channels));
  int F2_5 = o.Fs / 400;
  for (int op = 0; op < nops; op++) {
    static const int OW[] = {12, 4, 3, 1, 1, 1, 1, 1};
    int kind = c.weighted(OW, 8);
    if (kind >= 3) {
      // control requests
      int r = OPUS_OK;
      if (kind == 3) {
        if (o.kind == SINGLE) r = opus_decoder_ctl(o.d.p, OPUS_RESET_STATE);
        else if (o.kind == MULTI) r = opus_multistream_decoder_ctl(o.ms.p, OPUS_RESET_STATE);
        else r = opus_projection_decoder_ctl(o.pj.p, OPUS_RESET_STATE);
        rep.label("op:reset"); prev_mode = -1;
      } else if (kind == 4) {
        int g = c.chance(128) ? c.irange(-2000, 2000) : c.irange(-32768, 32767);
        if (o.kind == SINGLE) r = opus_decoder_ctl(o.d.p, OPUS_SET_GAIN(g));
        else if (o.kind == MULTI) r = opus_multistream_decoder_ctl(o.ms.p, OPUS_SET_GAIN(g));
        else r = opus_projection_decoder_ctl(o.pj.p, OPUS_SET_GAIN(g));
        rep.label("op:gain");
      } else if (kind == 5) {
        int v = c.irange(0, 1);
        if (o.kind == SINGLE) r = opus_decoder_ctl(o.d.p, OPUS_SET_PHASE_INVERSION_DISABLED(v));
        else if (o.kind == MULTI) r = opus_multistream_decoder_ctl(o.ms.p, OPUS_SET_PHASE_INVERSION_DISABLED(v));
        else r = opus_projection_decoder_ctl(o.pj.p, OPUS_SET_PHASE_INVERSION_DISABLED(v));
        rep.label("op:phase-inv");
      } else if (kind == 6) {
        int v = c.irange(0, 10);
        if (o.kind == SINGLE) r = opus_decoder_ctl(o.d.p, OPUS_SET_COMPLEXITY(v));   // single-stream only (not forwarded by multistream)
        rep.label("op:complexity");
      } else {
        opus_int32 v = 0; opus_uint32 u = 0;
        if (o.kind == SINGLE) { r = opus_decoder_ctl(o.d.p, OPUS_GET_BANDWIDTH(&v)); r |= opus_decoder_ctl(o.d.p, OPUS_GET_FINAL_RANGE(&u)); r |= opus_decoder_ctl(o.d.p, OPUS_GET_PITCH(&v)); r |= opus_decoder_ctl(o.d.p, OPUS_GET_GAIN(&v)); r |= opus_decoder_ctl(o.d.p, OPUS_GET_SAMPLE_RATE(&v)); }
        else if (o.kind == MULTI) { r = opus_multistream_decoder_ctl(o.ms.p, OPUS_GET_BANDWIDTH(&v)); r |= opus_multistream_decoder_ctl(o.ms.p, OPUS_GET_FINAL_RANGE(&u)); }
        else { r = opus_projection_decoder_ctl(o.pj.p, OPUS_GET_BANDWIDTH(&v)); r |= opus_projection_decoder_ctl(o.pj.p, OPUS_GET_FINAL_RANGE(&u)); }
        rep.label("op:getters");
      }
      VP_REQUIRE(r == OPUS_OK, "c01:ctl-failed", "legal decoder ctl (kind %d) returned %d", kind, r);
      if (had_deep) after_deep = true;
      rep.count();
      continue;
    }
    // ---- a decode / loss / FEC call
    int fmt = c.irange(0, 2);                 // 0 float, 1 int16, 2 int24
    int fec = 0;
    bool loss = false;
    if (kind == 1) loss = true;
    if (kind == 2) fec = 1;
    if (c.chance(6)) fec = c.boolean() ? 2 : -1;          // illegal flag
    std::vector<uint8_t> pkt;
    if (!loss) gen_packet(c, rep, o, pkt);
    int len = (int)pkt.size();
    bool null_data = loss && c.boolean();                  // NULL/0 or ptr/0
    bool neg_len = !loss && len > 0 && c.chance(4);
    Verdict v;
    if (!loss) v = judge(o, pkt.data(), len);
    if (len == 0) loss = true;
    // frame_size
    int fs;
    {
      static const int FW[] = {10, 3, 2, 2, 2, 1, 1, 1, 1, 1};
      int sel = c.weighted(FW, 10);
      int dur = v.valid ? v.samples : (loss || fec ? F2_5 * (1 << c.irange(0, 4)) : F2_5 * 8);
      switch (sel) {
        case 0: fs = (loss || fec) ? F2_5 * c.pick(cu::DUR400) : (v.valid ? v.samples : o.Fs * 3 / 25); break;   // sufficient / natural
        case 1: fs = o.Fs * 3 / 25; break;                 // 120 ms
        case 2: fs = dur + c.irange(-2, 2); break;
        case 3: fs = dur > F2_5 ? dur - F2_5 : 1; break;
        case 4: fs = F2_5 * c.irange(1, 60); break;
        case 5: fs = c.irange(1, o.Fs); break;             // up to one second, any value
        case 6: fs = o.Fs; break;
        case 7: fs = 0; break;
        case 8: fs = F2_5 - 1; break;
        default: fs = -c.irange(1, 1000); break;
      }
    }
    // the 16/24-bit single-stream wrappers put frame_size*channels samples on the stack: stay within one second
    if (fs > o.Fs) fs = o.Fs;
    // ---- expectation
    int eff_fs = fs;
    if (o.kind != SINGLE && eff_fs > o.Fs / 25 * 3) eff_fs = o.Fs / 25 * 3;
    int nfaults = 0; int code = 0;
    bool f_fs = fs <= 0; if (f_fs) { nfaults++; code = OPUS_BAD_ARG; }
    bool f_fec = !(fec == 0 || fec == 1); if (f_fec) { nfaults++; code = OPUS_BAD_ARG; }
    bool f_mult = !f_fs && (fec != 0 || loss) && (eff_fs % F2_5) != 0; if (f_mult) { nfaults++; code = OPUS_BAD_ARG; }
    bool f_len = neg_len; if (f_len) { nfaults++; code = OPUS_BAD_ARG; }
    bool f_invalid = !loss && !neg_len && !v.valid; if (f_invalid) { nfaults++; code = OPUS_INVALID_PACKET; }
    bool f_small = !loss && !neg_len && v.valid && (fec == 0 || o.kind != SINGLE) && v.samples > eff_fs; if (f_small && !f_fs) { nfaults++; code = OPUS_BUFFER_TOO_SMALL; }
    int expect_n = 0;
    if (nfaults == 0) expect_n = (loss || fec == 1) ? eff_fs : v.samples;
    // ---- buffers: exact size, poisoned
    size_t nsamp = fs > 0 ? (size_t)fs * o.channels : 0;
    HeapBuf<uint8_t> data(len);
    if (len) memcpy(data.p, pkt.data(), len);
    const unsigned char* dptr = (loss && (null_data || len == 0 && c.boolean())) ? nullptr : data.p;
    // multistream decoders treat only len==0 as loss; a NULL pointer with len>0 is outside the documented domain
    int call_len = loss ? 0 : (neg_len ? -c.irange(1, 100) : len);
    if (o.kind != SINGLE && call_len == 0) dptr = c.boolean() ? nullptr : data.p;
    if (o.kind == SINGLE && loss && dptr == nullptr && c.chance(64)) call_len = c.irange(1, 100);   // NULL pointer alone signals loss
    int ret;
    bool finite_ok = true;
    rep.count();
    if (fmt == 0) {
      HeapBuf<float> pcm(nsamp);
      for (size_t i = 0; i < nsamp; i++) pcm[i] = std::nanf("");
      if (o.kind == SINGLE) ret = opus_decode_float(o.d.p, dptr, call_len, pcm.p, fs, fec);
      else if (o.kind == MULTI) ret = opus_multistream_decode_float(o.ms.p, dptr, call_len, pcm.p, fs, fec);
      else ret = opus_projection_decode_float(o.pj.p, dptr, call_len, pcm.p, fs, fec);
      if (ret > 0 && ret <= fs) finite_ok = all_finite(pcm.p, (size_t)ret * o.channels);
    } else if (fmt == 1) {
      HeapBuf<opus_int16> pcm(nsamp);
      if (o.kind == SINGLE) ret = opus_decode(o.d.p, dptr, call_len, pcm.p, fs, fec);
      else if (o.kind == MULTI) ret = opus_multistream_decode(o.ms.p, dptr, call_len, pcm.p, fs, fec);
      else ret = opus_projection_decode(o.pj.p, dptr, call_len, pcm.p, fs, fec);
    } else {
      HeapBuf<opus_int32> pcm(nsamp);
      if (o.kind == SINGLE) ret = opus_decode24(o.d.p, dptr, call_len, pcm.p, fs, fec);
      else if (o.kind == MULTI) ret = opus_multistream_decode24(o.ms.p, dptr, call_len, pcm.p, fs, fec);
      else ret = opus_projection_decode24(o.pj.p, dptr, call_len, pcm.p, fs, fec);
    }
    const char* fmts[] = {"float", "int16", "int24"};
    rep.note("op%d %s len=%d fs=%d fec=%d -> %d", op, fmts[fmt], call_len, fs, fec, ret);
    // ---- oracle
    VP_REQUIRE(ret != OPUS_INTERNAL_ERROR && ret != OPUS_UNIMPLEMENTED && ret != OPUS_INVALID_STATE && ret != OPUS_ALLOC_FAIL, "c01:internal-error", "decode returned %d (kind %d fmt %s len %d fs %d fec %d)", ret, o.kind, fmts[fmt], call_len, fs, fec);
    VP_REQUIRE(is_err_code(ret) || (ret > 0 && ret <= fs), "c01:return-range", "decode returned %d with frame_size %d (len %d fec %d)", ret, fs, call_len, fec);
    VP_REQUIRE(finite_ok, "c01:non-finite", "non-finite sample in float output (kind %d len %d fs %d fec %d ret %d)", o.kind, call_len, fs, fec, ret);
    if (nfaults == 0) {
      // multistream concealment above 120 ms: the library clamps to 120 ms; the property only needs 0 < n <= frame_size,
      // so an implementation that honours the full request is accepted as well
      bool alt_ok = o.kind != SINGLE && (loss || fec == 1) && fs > eff_fs && ret == fs && fs % F2_5 == 0;
      VP_REQUIRE(ret == expect_n || alt_ok, "c01:duration", "kind %d fmt %s valid input: expected %d samples, got %d (len %d fs %d fec %d loss %d toc 0x%02x)", o.kind, fmts[fmt], expect_n, ret, call_len, fs, fec, loss, v.toc0);
      opus_int32 lpd = -1;
      int r2 = dec_ctl_get_last(o, &lpd);
      VP_REQUIRE(r2 == OPUS_OK && lpd == ret, "c01:last-packet-duration", "returned %d but OPUS_GET_LAST_PACKET_DURATION says %d (rc %d)", ret, lpd, r2);
    } else if (nfaults == 1) {
      VP_REQUIRE(ret == code, "c01:error-code", "kind %d fmt %s single fault: expected %d, got %d (len %d fs %d fec %d loss %d valid %d samples %d)", o.kind, fmts[fmt], code, ret, call_len, fs, fec, loss, v.valid, v.samples);
    } else {
      VP_REQUIRE(ret < 0, "c01:error-expected", "several faults but decode returned %d", ret);
    }
    // ---- packet inspection on every packet (len >= 1: documented precondition of the length-less helpers)
    if (!loss && !neg_len && len >= 1) {
      unsigned char toc; opus_int16 sz[48]; const unsigned char* fr[48]; int po;
      int pr = opus_packet_parse(data.p, len, &toc, fr, sz, &po);
      rfc::Parsed mp = rfc::parse(data.p, len, false);
      VP_REQUIRE(mp.ok ? pr == mp.count : pr == OPUS_INVALID_PACKET, "c01:parse-vs-model", "opus_packet_parse %d, model ok=%d count=%d", pr, mp.ok, mp.count);
      int nf = opus_packet_get_nb_frames(data.p, len);
      int ns = opus_packet_get_nb_samples(data.p, len, o.Fs);
      (void)opus_packet_get_bandwidth(data.p); (void)opus_packet_get_nb_channels(data.p); (void)opus_packet_get_samples_per_frame(data.p, o.Fs);
      int hl = opus_packet_has_lbrr(data.p, len);
      if (o.kind == SINGLE) { int dn = opus_decoder_get_nb_samples(o.d.p, data.p, len); VP_REQUIRE(dn == ns, "c01:decoder-nb-samples", "%d vs %d", dn, ns); }
      if (mp.ok) { VP_REQUIRE(nf == mp.count && ns == mp.count * rfc::samples_per_frame(data.p[0], o.Fs), "c01:inspect-count", "nb_frames %d nb_samples %d model count %d", nf, ns, mp.count); VP_REQUIRE(hl == 0 || hl == 1, "c01:has-lbrr-range", "has_lbrr %d on a valid packet", hl); }
      else VP_REQUIRE(hl <= 0 || rfc::toc_info(data.p[0]).mode != rfc::CELT, "c01:has-lbrr-invalid", "has_lbrr %d", hl);
      rep.count(6);
    }
    // ---- labels / non-trivial
    if (ret > 0) {
      if (loss) rep.label("ok:plc"); else if (fec == 1) rep.label("ok:fec"); else {
        rfc::TocInfo t = rfc::toc_info((uint8_t)v.toc0);
        rep.labelf("ok:%s", t.mode == rfc::SILK ? "silk" : t.mode == rfc::HYBRID ? "hybrid" : "celt");
        if (prev_mode >= 0 && prev_mode != (int)t.mode) rep.label("mode-transition");
        prev_mode = t.mode;
        if (v.multiframe) rep.label("ok:multiframe");
        if (v.padded) rep.label("ok:padded");
        if (had_deep) after_deep = true;
        if (v.multiframe || v.padded || v.hybrid) had_deep = true;
        fp = mix(fp, v.toc0);
      }
      if (had_deep && (loss || fec == 1)) after_deep = true;
    } else {
      rep.labelf("err:%d", ret);
      if (had_deep) after_deep = true;
    }
    rep.labelf("fmt:%s", fmts[fmt]);
    fp = mix(fp, mix(ret, mix(fec, fmt)));
  }
  if (had_deep && after_deep) rep.nontrivial();
  rep.fingerprint(fp);
  return 0;
}
