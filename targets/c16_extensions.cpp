// C16: packet extensions round-trip through generate, parse and repacketize.
//  family gen   : generator-first (structured lists -> generate -> parse/count/iterate)
//  family parse : parser-first (raw bytes, token grammar, mutated generator output)
//  family rp    : carriage through the repacketizer (build, merge, split)
#include <memory>
#include "c16_ext.hpp"

using namespace vp;
using namespace xm;

const TargetInfo vp_info = {"c16_extensions", 4, 3000};

static const opus_int32 NOLIMIT = 1 << 30;

// ---------------------------------------------------------------------------
// Everything the library says about one byte string, cross-checked.
struct Seen {
  int ret = 0;                    // 0 valid, <0 invalid
  std::vector<MExt> order;        // bitstream order
  std::vector<MExt> by_frame;     // frame order (parse_ext)
};

static bool same_ext(const opus_extension_data& a, const opus_extension_data& b) {
  return a.id == b.id && a.frame == b.frame && a.data == b.data && a.len == b.len;
}

static int check_bytes(const uint8_t* src, int len, int nbf, Choice& c, Report& rep, Seen& out) {
  HeapBuf<uint8_t> d((size_t)len);
  if (len) memcpy(d.p, src, (size_t)len);
  rep.count(6);
  opus_int32 cnt = opus_packet_extensions_count(d.p, len, nbf);
  VP_REQUIRE(cnt >= 0, "c16:count-negative", "count returned %d (len %d, %d frames)", cnt, len, nbf);
  VP_REQUIRE(cnt <= (long)len * nbf, "c16:count-exceeds-bytes", "count %d for %d bytes and %d frames", cnt, len, nbf);   // an ID byte yields at most one extension per frame
  HeapBuf<opus_int32> nfe((size_t)nbf);
  for (int i = 0; i < nbf; i++) nfe[(size_t)i] = -12345;
  opus_int32 cnt2 = opus_packet_extensions_count_ext(d.p, len, nfe.p, nbf);
  VP_REQUIRE(cnt2 == cnt, "c16:count-ext-disagrees", "count %d count_ext %d (len %d, %d frames)", cnt, cnt2, len, nbf);
  long sum = 0;
  for (int i = 0; i < nbf; i++) { VP_REQUIRE(nfe[(size_t)i] >= 0, "c16:count-ext-frame-negative", "frame %d count %d", i, nfe[(size_t)i]); sum += nfe[(size_t)i]; }
  VP_REQUIRE(sum == cnt, "c16:count-ext-sum", "per-frame counts sum to %ld, total %d", sum, cnt);

  HeapBuf<opus_extension_data> ex((size_t)cnt);
  opus_int32 n = cnt;
  int ret = opus_packet_extensions_parse(d.p, len, ex.p, &n, nbf);
  VP_REQUIRE(ret == 0 || ret == OPUS_INVALID_PACKET, "c16:parse-return", "parse returned %d with capacity == count %d", ret, cnt);
  VP_REQUIRE(n == cnt, "c16:parse-count-disagrees", "count %d, parse delivered %d (ret %d, len %d, %d frames)", cnt, n, ret, len, nbf);
  std::vector<long> perframe((size_t)nbf, 0);
  for (int i = 0; i < n; i++) {
    const opus_extension_data& e = ex[(size_t)i];
    VP_REQUIRE(e.frame >= 0 && e.frame < nbf, "c16:parse-frame-out-of-range", "extension %d: frame %d of %d", i, e.frame, nbf);
    VP_REQUIRE(e.id >= 3 && e.id <= 127, "c16:parse-id-out-of-range", "extension %d: id %d", i, e.id);
    VP_REQUIRE(e.len >= 0 && e.data >= d.p && e.data <= d.p + len && e.len <= (d.p + len) - e.data, "c16:parse-outside-buffer",
               "extension %d (id %d): offset %ld len %d in a buffer of %d", i, e.id, (long)(e.data - d.p), e.len, len);
    VP_REQUIRE(e.id >= 32 || e.len <= 1, "c16:parse-short-length", "short id %d with %d payload bytes", e.id, e.len);
    perframe[(size_t)e.frame]++;
  }
  for (int f = 0; f < nbf; f++) VP_REQUIRE(perframe[(size_t)f] == nfe[(size_t)f], "c16:count-ext-frame-disagrees", "frame %d: parse %ld count_ext %d", f, perframe[(size_t)f], nfe[(size_t)f]);
  if (cnt > 0) {
    HeapBuf<opus_extension_data> small((size_t)cnt - 1);
    opus_int32 n2 = cnt - 1;
    int r2 = opus_packet_extensions_parse(d.p, len, small.p, &n2, nbf);
    VP_REQUIRE(r2 == OPUS_BUFFER_TOO_SMALL, "c16:parse-capacity", "parse with capacity %d of %d returned %d", cnt - 1, cnt, r2);
    rep.count();
  }
  // frame order
  HeapBuf<opus_extension_data> fx((size_t)cnt);
  opus_int32 n3 = cnt;
  int r3 = opus_packet_extensions_parse_ext(d.p, len, fx.p, &n3, nfe.p, nbf);
  VP_REQUIRE(r3 == ret && n3 == cnt, "c16:parse-ext-disagrees", "parse_ext returned %d/%d, parse %d/%d", r3, n3, ret, cnt);
  {
    std::vector<int> idx((size_t)cnt);
    for (int i = 0; i < cnt; i++) idx[(size_t)i] = i;
    std::stable_sort(idx.begin(), idx.end(), [&](int a, int b) { return ex[(size_t)a].frame < ex[(size_t)b].frame; });
    for (int i = 0; i < cnt; i++)
      VP_REQUIRE(same_ext(fx[(size_t)i], ex[(size_t)idx[(size_t)i]]), "c16:parse-ext-order", "parse_ext entry %d is {id %d frame %d len %d}, expected {id %d frame %d len %d}", i,
                 fx[(size_t)i].id, fx[(size_t)i].frame, fx[(size_t)i].len, ex[(size_t)idx[(size_t)i]].id, ex[(size_t)idx[(size_t)i]].frame, ex[(size_t)idx[(size_t)i]].len);
  }
  // iterator: plain walk, reset, frame_max, find
  OpusExtensionIterator it;
  opus_extension_iterator_init(&it, d.p, len, nbf);
  for (int pass = 0; pass < 2; pass++) {
    int i = 0, r;
    opus_extension_data e;
    while ((r = opus_extension_iterator_next(&it, &e)) > 0) {
      VP_REQUIRE(i < cnt && same_ext(e, ex[(size_t)i]), "c16:iterator-disagrees", "pass %d: iterator item %d {id %d frame %d len %d} differs from parse (count %d)", pass, i, e.id, e.frame, e.len, cnt);
      i++;
    }
    VP_REQUIRE(i == cnt && r == ret, "c16:iterator-end", "pass %d: iterator ended after %d of %d with %d (parse %d)", pass, i, cnt, r, ret);
    // a finished/failed iterator stays finished
    int r2 = opus_extension_iterator_next(&it, &e);
    VP_REQUIRE(r2 == ret || (ret == 0 && r2 == 0), "c16:iterator-after-end", "next after end returned %d (first %d)", r2, r);
    opus_extension_iterator_reset(&it);
    rep.count();
  }
  {
    int k = c.irange(0, nbf);
    opus_extension_iterator_init(&it, d.p, len, nbf);
    opus_extension_iterator_set_frame_max(&it, k);
    int i = 0, r;
    opus_extension_data e;
    while ((r = opus_extension_iterator_next(&it, &e)) > 0) {
      while (i < cnt && ex[(size_t)i].frame >= k) i++;
      VP_REQUIRE(i < cnt && same_ext(e, ex[(size_t)i]), "c16:iterator-frame-max", "frame_max %d: item {id %d frame %d len %d} is not the next extension below that frame", k, e.id, e.frame, e.len);
      i++;
    }
    while (i < cnt && ex[(size_t)i].frame >= k) i++;
    VP_REQUIRE(i == cnt, "c16:iterator-frame-max-missing", "frame_max %d: iterator stopped (%d) before extension %d {id %d frame %d}", k, r, i, ex[(size_t)std::min(i, cnt - 1)].id, ex[(size_t)std::min(i, cnt - 1)].frame);
    VP_REQUIRE(r == 0 || r == ret, "c16:iterator-frame-max-return", "frame_max %d: final return %d (parse %d)", k, r, ret);
    rep.count();
  }
  {
    int want = (cnt > 0 && c.chance(200)) ? ex[(size_t)c.irange(0, cnt - 1)].id : c.irange(3, 127);
    opus_extension_iterator_init(&it, d.p, len, nbf);
    int i = 0, r;
    opus_extension_data e;
    while ((r = opus_extension_iterator_find(&it, &e, want)) > 0) {
      while (i < cnt && ex[(size_t)i].id != want) i++;
      VP_REQUIRE(i < cnt && same_ext(e, ex[(size_t)i]), "c16:iterator-find", "find(%d): item {id %d frame %d len %d} is not the next extension with that id", want, e.id, e.frame, e.len);
      i++;
    }
    while (i < cnt && ex[(size_t)i].id != want) i++;
    VP_REQUIRE(i == cnt && r == ret, "c16:iterator-find-end", "find(%d) ended with %d at %d of %d (parse %d)", want, r, i, cnt, ret);
    rep.count();
  }
  out.ret = ret;
  out.order.resize((size_t)cnt); out.by_frame.resize((size_t)cnt);
  for (int i = 0; i < cnt; i++) {
    MExt& a = out.order[(size_t)i]; a.id = ex[(size_t)i].id; a.frame = ex[(size_t)i].frame; a.data.assign(ex[(size_t)i].data, ex[(size_t)i].data + ex[(size_t)i].len);
    MExt& b = out.by_frame[(size_t)i]; b.id = fx[(size_t)i].id; b.frame = fx[(size_t)i].frame; b.data.assign(fx[(size_t)i].data, fx[(size_t)i].data + fx[(size_t)i].len);
  }
  return 0;
}

// Size of the plain encoding (no repeats): used only to label cases where the generator used the repeat mechanism.
static long naive_size(const ExtList& l, int nbf) {
  PerFrame pf = per_frame(l, nbf);
  long s = 0; int cur = 0; size_t seen = 0, tot = l.size();
  for (int f = 0; f < nbf; f++) for (auto& e : pf[(size_t)f]) {
    if (f != cur) { s += (f - cur == 1) ? 1 : 2; cur = f; }
    seen++;
    s += 1 + (long)e.data.size();
    if (e.id >= 32 && seen != tot) s += 1 + (long)e.data.size() / 255;
  }
  return s;
}

// ---------------------------------------------------------------------------
// generator-first oracle
static int check_generate(const ExtList& list, int nbf, Choice& c, Report& rep, std::vector<uint8_t>* bytes_out = nullptr) {
  int n = (int)list.size();
  ExtArray arr(list, n <= 64);
  opus_int32 sz = opus_packet_extensions_generate(NULL, NOLIMIT, arr.ptr(), n, nbf, 0);
  VP_REQUIRE(sz >= 0, "c16:generate-dry-run-error", "dry run returned %d for %d extensions / %d frames", sz, n, nbf);
  long payload = 0; for (auto& e : list) payload += (long)e.data.size();
  VP_REQUIRE(sz >= payload, "c16:generate-size-below-payload", "dry-run size %d but payloads total %ld", sz, payload);
  HeapBuf<uint8_t> buf((size_t)sz);
  opus_int32 w = opus_packet_extensions_generate(buf.p, sz, arr.ptr(), n, nbf, 0);
  VP_REQUIRE(w == sz, "c16:generate-exact-size", "dry run said %d bytes, exact-size buffer returned %d (%d extensions / %d frames)", sz, w, n, nbf);
  rep.count(2);
  if (naive_size(list, nbf) > sz) rep.label("repeat-used");
  // every smaller length is refused (exact allocation per length => ASan sees any stray write)
  {
    std::vector<int> Ls;
    if (sz <= 200 && n <= 200) for (int L = 0; L < sz; L++) Ls.push_back(L);
    else {
      static const int off[] = {1, 2, 3, 4, 5, 8, 17, 255, 256, 257};
      for (int o : off) if (sz - o >= 0) Ls.push_back(sz - o);
      Ls.push_back(0); if (sz > 1) Ls.push_back(1); if (sz > 2) Ls.push_back(2);
      int extra = n > 1000 ? 3 : 16;
      Rng r(c.u32());
      for (int i = 0; i < extra; i++) Ls.push_back(r.range(0, sz - 1));
    }
    for (int L : Ls) {
      HeapBuf<uint8_t> b((size_t)L);
      opus_int32 r1 = opus_packet_extensions_generate(b.p, L, arr.ptr(), n, nbf, 0);
      VP_REQUIRE(r1 == OPUS_BUFFER_TOO_SMALL, "c16:generate-too-small-accepted", "needs %d bytes, buffer of %d returned %d", sz, L, r1);
      opus_int32 r2 = opus_packet_extensions_generate(NULL, L, arr.ptr(), n, nbf, 0);
      VP_REQUIRE(r2 == r1, "c16:generate-dry-run-differs", "len %d: dry run %d, real %d", L, r2, r1);
      if (L < sz - 1 || sz == 0) continue;
      opus_int32 r3 = opus_packet_extensions_generate(b.p, L, arr.ptr(), n, nbf, 1);
      VP_REQUIRE(r3 == OPUS_BUFFER_TOO_SMALL, "c16:generate-too-small-accepted", "pad=1: needs %d bytes, buffer of %d returned %d", sz, L, r3);
    }
    rep.count(2 * Ls.size());
  }
  // a larger buffer: same bytes, nothing beyond; with pad the whole buffer is used
  {
    int extra = c.chance(128) ? c.irange(1, 4) : c.irange(1, 700);
    HeapBuf<uint8_t> big((size_t)sz + (size_t)extra);
    memset(big.p, 0xA5, big.n);
    opus_int32 r1 = opus_packet_extensions_generate(big.p, sz + extra, arr.ptr(), n, nbf, 0);
    VP_REQUIRE(r1 == sz, "c16:generate-larger-buffer", "buffer %d: returned %d, exact size is %d", sz + extra, r1, sz);
    VP_REQUIRE(sz == 0 || !memcmp(big.p, buf.p, (size_t)sz), "c16:generate-larger-buffer", "bytes differ between exact and larger buffer");
    opus_int32 d1 = opus_packet_extensions_generate(NULL, sz + extra, arr.ptr(), n, nbf, 1);
    opus_int32 r2 = opus_packet_extensions_generate(big.p, sz + extra, arr.ptr(), n, nbf, 1);
    VP_REQUIRE(r2 == sz + extra && d1 == r2, "c16:generate-pad-size", "pad=1 into %d bytes returned %d (dry run %d)", sz + extra, r2, d1);
    Seen sp;
    if (check_bytes(big.p, sz + extra, nbf, c, rep, sp)) return 1;
    VP_REQUIRE(sp.ret == 0, "c16:generate-pad-roundtrip", "padded output does not parse (%d)", sp.ret);
    int fd = first_diff(per_frame(list, nbf), per_frame(sp.order, nbf));
    VP_REQUIRE(fd < 0, "c16:generate-pad-roundtrip", "padded output differs on frame %d: want %s got %s", fd, show(per_frame(list, nbf)[(size_t)std::min(fd, nbf - 1)]).c_str(), show(per_frame(sp.order, nbf)[(size_t)std::min(fd, nbf - 1)]).c_str());
    rep.count(3);
  }
  Seen s;
  if (check_bytes(buf.p, sz, nbf, c, rep, s)) return 1;
  VP_REQUIRE(s.ret == 0, "c16:roundtrip-unparsable", "generated %d bytes for %d extensions do not parse (%d)", sz, n, s.ret);
  VP_REQUIRE((int)s.order.size() == n, "c16:roundtrip-count", "generated %d extensions, parsed %zu", n, s.order.size());
  PerFrame want = per_frame(list, nbf), got = per_frame(s.order, nbf);
  int fd = first_diff(want, got);
  VP_REQUIRE(fd < 0, "c16:roundtrip-differs", "frame %d of %d: generated %s parsed %s", fd, nbf, show(want[(size_t)std::min(fd, nbf - 1)]).c_str(), show(got[(size_t)std::min(fd, nbf - 1)]).c_str());
  // parse_ext delivers exactly the frame-ordered list
  size_t k = 0;
  for (int f = 0; f < nbf; f++) for (auto& e : want[(size_t)f]) {
    VP_REQUIRE(s.by_frame[k].frame == f && s.by_frame[k] == e, "c16:roundtrip-frame-order", "parse_ext entry %zu is %s, expected %s", k, show(s.by_frame[k]).c_str(), show(e).c_str());
    k++;
  }
  if (bytes_out) bytes_out->assign(buf.p, buf.p + sz);
  return 0;
}

// ---------------------------------------------------------------------------
static ExtList gen_list(Choice& c, Report& rep, int nbf) {
  ExtList l;
  Rng rng(c.u32());
  int mode = c.irange(0, 15);
  int budget = 160000;      // total payload bytes per case
  auto cap = [&]() { return budget > 70000 ? 70000 : budget > 0 ? budget : 0; };
  auto push = [&](MExt e) { budget -= (int)e.data.size(); l.push_back(std::move(e)); };
  if (mode == 15) {
    // bulk: thousands of extensions from the seeded stream
    int n = c.irange(0, 9000);
    rep.label("gen:bulk");
    bool sorted = c.boolean();
    for (int i = 0; i < n; i++) {
      MExt e; e.frame = sorted ? (int)((long)i * nbf / std::max(n, 1)) : rng.range(0, nbf - 1);
      uint32_t r = rng.u32();
      if (r & 1) { e.id = 3 + (r >> 1) % 29; fill_payload(e.data, (r >> 8) & 1, rng, (uint8_t)(r >> 16)); }
      else { e.id = 32 + (r >> 1) % 96; int L = ((r >> 9) & 7) == 0 ? 250 + (int)((r >> 12) % 12) : (int)((r >> 12) % 6); if (L > cap()) L = 0; fill_payload(e.data, L, rng, (uint8_t)(r >> 24)); }
      push(std::move(e));
    }
    return l;
  }
  if (mode >= 8) {
    // repeat-eligible pattern: the same id sequence in every frame from `start` on
    rep.label("gen:pattern");
    int k = c.irange(1, 5);
    std::vector<MExt> tmpl;
    for (int i = 0; i < k; i++) tmpl.push_back(gen_ext(c, rng, 0, std::min(cap(), 2000)));
    int start = c.chance(200) ? 0 : c.irange(0, nbf - 1);
    bool vary_len = c.boolean();          // long payload lengths differ per frame
    bool interleave = c.chance(64);       // item-major list order (still the same per-frame order)
    int brk_frame = c.chance(48) ? c.irange(start, nbf - 1) : -1;   // one frame deviates: pattern not repeatable past it
    int tail_frame = c.chance(96) ? c.irange(0, nbf - 1) : -1;      // extra non-repeated extension after the pattern
    int head_frame = c.chance(64) ? c.irange(0, nbf - 1) : -1;      // extra extension before the pattern
    std::vector<std::vector<MExt>> fr((size_t)nbf);
    for (int f = 0; f < nbf; f++) {
      if (f == head_frame) fr[(size_t)f].push_back(gen_ext(c, rng, f, std::min(cap(), 600)));
      if (f >= start) for (int i = 0; i < k; i++) {
        MExt e = tmpl[(size_t)i]; e.frame = f;
        if (e.id >= 32 && vary_len) { int L = (int)e.data.size() + rng.range(-3, 3) + (c.chance(24) ? 255 : 0); if (L < 0) L = 0; if (L > cap()) L = 0; fill_payload(e.data, L, rng, (uint8_t)(f + i)); }
        else if (!e.data.empty()) e.data[0] = (uint8_t)(e.data[0] + f);
        if (budget < (int)e.data.size()) e.data.resize(std::min<size_t>(e.data.size(), 2));
        if (f == brk_frame && i == k - 1) { e.id = e.id >= 32 ? 32 + (e.id - 31) % 96 : 3 + (e.id - 2) % 29; }
        budget -= (int)e.data.size();
        fr[(size_t)f].push_back(std::move(e));
      }
      if (f == tail_frame) fr[(size_t)f].push_back(gen_ext(c, rng, f, std::min(cap(), 600)));
    }
    if (!interleave) { for (auto& v : fr) for (auto& e : v) l.push_back(e); }
    else {
      rep.label("any-order");
      for (size_t i = 0;; i++) { bool any = false; for (auto& v : fr) if (i < v.size()) { l.push_back(v[i]); any = true; } if (!any) break; }
    }
    if (start == 0 && brk_frame < 0 && nbf >= 2) rep.label("repeat-eligible");
    return l;
  }
  // free list
  rep.label("gen:free");
  int n = c.chance(200) ? c.irange(0, 8) : c.irange(0, 200);
  bool sorted = c.boolean();
  for (int i = 0; i < n; i++) push(gen_ext(c, rng, c.irange(0, nbf - 1), cap()));
  if (sorted) std::stable_sort(l.begin(), l.end(), [](const MExt& a, const MExt& b) { return a.frame < b.frame; });
  else if (n > 1) rep.label("any-order");
  return l;
}

static int pick_nbf(Choice& c) { return c.chance(150) ? c.irange(1, 4) : c.irange(1, 48); }

static void describe_list(Report& rep, const ExtList& l, int nbf) {
  bool big = false; std::vector<bool> used((size_t)nbf, false); int nused = 0;
  for (auto& e : l) { if (e.data.size() >= 255) big = true; if (!used[(size_t)e.frame]) { used[(size_t)e.frame] = true; nused++; } }
  if (big) rep.label("payload>=255");
  if (nused >= 2) rep.label("frames>=2");
  if (l.empty()) rep.label("empty-list");
  if (!l.empty() && l.back().id >= 32) rep.label("long-last");
  uint64_t fp = (uint64_t)nbf;
  for (auto& e : l) fp = mix(fp, ((uint64_t)e.frame << 32) ^ ((uint64_t)e.id << 24) ^ e.data.size());
  rep.fingerprint(fp);
  rep.note("%d frames, %zu extensions: %s", nbf, l.size(), show(l, 8).c_str());
}

static int family_gen(Choice& c, Report& rep) {
  rep.label("family:gen");
  int nbf = pick_nbf(c);
  ExtList l = gen_list(c, rep, nbf);
  describe_list(rep, l, nbf);
  int r = check_generate(l, nbf, c, rep);
  bool nt = false;
  for (auto p : rep.labels) if (!strcmp(p, "repeat-eligible") || !strcmp(p, "repeat-used") || !strcmp(p, "payload>=255") || !strcmp(p, "frames>=2")) nt = true;
  rep.nontrivial(nt);
  return r;
}

// ---------------------------------------------------------------------------
// parser-first
static void lacing(std::vector<uint8_t>& o, int L) { while (L >= 255) { o.push_back(255); L -= 255; } o.push_back((uint8_t)L); }

static void grammar(Choice& c, int nbf, std::vector<uint8_t>& o) {
  Rng rng(c.u32());
  std::vector<std::pair<int, int>> cur;   // (id, L or payload length hint) since the last separator / repeat
  int frame = 0;
  int ntok = c.chance(200) ? c.irange(0, 10) : c.irange(0, 60);
  static const int W[] = {6, 5, 4, 2, 4, 1, 1, 1, 1};
  static const int LL[] = {0, 1, 2, 5, 254, 255, 256, 509, 510, 511};
  for (int t = 0; t < ntok && o.size() < 6000; t++) {
    switch (c.weighted(W, 9)) {
      case 0: { int id = c.irange(3, 31), L = c.irange(0, 1); o.push_back((uint8_t)(id << 1 | L)); if (L) o.push_back((uint8_t)rng.next()); cur.push_back({id, L}); break; }
      case 1: { int id = c.irange(32, 127); int L = c.chance(160) ? c.irange(0, 6) : c.pick(LL); o.push_back((uint8_t)(id << 1 | 1)); lacing(o, L); for (int i = 0; i < L; i++) o.push_back((uint8_t)rng.next()); cur.push_back({id, L}); break; }
      case 2: o.push_back(0x02); cur.clear(); frame++; break;
      case 3: { int k = c.chance(200) ? c.irange(0, 3) : c.irange(0, 255); o.push_back(0x03); o.push_back((uint8_t)k); if (k) { cur.clear(); frame += k; } break; }
      case 4: {
        int L = c.irange(0, 1);
        o.push_back((uint8_t)(0x04 | L));
        int last_long = -1;
        for (size_t i = 0; i < cur.size(); i++) if (cur[i].first >= 32) last_long = (int)i;
        bool sloppy = c.chance(24);
        for (int g = frame + 1; g < nbf; g++) for (size_t i = 0; i < cur.size(); i++) {
          if (cur[i].first < 32) { for (int j = 0; j < cur[i].second; j++) o.push_back((uint8_t)rng.next()); }
          else {
            int pl = sloppy ? rng.range(0, 300) : std::max(0, cur[i].second + rng.range(-1, 1));
            if (!(L == 0 && g == nbf - 1 && (int)i == last_long)) lacing(o, pl);
            for (int j = 0; j < pl; j++) o.push_back((uint8_t)rng.next());
          }
        }
        cur.clear();
        if (L == 0) frame++;
        break; }
      case 5: o.push_back(0x01); break;
      case 6: { int id = c.irange(32, 127); o.push_back((uint8_t)(id << 1)); int k = c.irange(0, 8); for (int i = 0; i < k; i++) o.push_back((uint8_t)rng.next()); cur.push_back({id, k}); break; }
      case 7: o.push_back(0x00); break;
      default: o.push_back(c.byte()); break;
    }
  }
}

static int family_parse(Choice& c, Report& rep) {
  rep.label("family:parse");
  int nbf = pick_nbf(c);
  int src = c.irange(0, 3);
  std::vector<uint8_t> b;
  if (src == 0) {
    int len = c.chance(200) ? c.irange(0, 24) : c.irange(0, 700);
    b.resize((size_t)len); c.bytes(b.data(), (size_t)len);
    rep.label("parse:raw");
  } else if (src == 3) {
    // generator output, then byte-level damage
    ExtList l = gen_list(c, rep, nbf);
    ExtArray arr(l, false);
    opus_int32 sz = opus_packet_extensions_generate(NULL, NOLIMIT, arr.ptr(), arr.n(), nbf, 0);
    if (sz > 0 && sz < 20000) { b.resize((size_t)sz); opus_packet_extensions_generate(b.data(), sz, arr.ptr(), arr.n(), nbf, 0); }
    rep.label("parse:mutated-generated");
  } else {
    grammar(c, nbf, b);
    rep.label("parse:grammar");
  }
  if (src != 0 && c.chance(150)) {
    int k = c.irange(1, 3);
    for (int i = 0; i < k; i++) {
      int what = c.irange(0, 4);
      if (what == 0 && !b.empty()) b[(size_t)c.irange(0, (int)b.size() - 1)] = c.byte();
      else if (what == 1 && !b.empty()) b.resize(b.size() - (size_t)std::min<int>(c.irange(1, 3), (int)b.size()));
      else if (what == 2) b.push_back(c.byte());
      else if (what == 3 && !b.empty()) b[(size_t)c.irange(0, (int)b.size() - 1)] ^= (uint8_t)(1 << c.irange(0, 7));
      else if (!b.empty()) b.insert(b.begin() + c.irange(0, (int)b.size() - 1), c.byte());
    }
    rep.label("mutated");
  }
  if (c.chance(24)) nbf = pick_nbf(c);   // frame count the bytes were not written for
  int len = (int)b.size();
  Seen s;
  if (check_bytes(b.data(), len, nbf, c, rep, s)) return 1;
  rep.fingerprint(fnv1a(b.data(), b.size())); rep.fingerprint((uint64_t)nbf);
  rep.note("parser-first: %d bytes, %d frames -> ret %d, %zu extensions %s; first bytes %02x %02x %02x %02x", len, nbf, s.ret, s.order.size(), show(s.order, 6).c_str(),
           len > 0 ? b[0] : 0, len > 1 ? b[1] : 0, len > 2 ? b[2] : 0, len > 3 ? b[3] : 0);
  if (s.ret < 0) { rep.label("parse-invalid"); if (!s.order.empty()) rep.label("parse-invalid-after-some"); return 0; }
  rep.label("parse-valid");
  std::vector<bool> used((size_t)nbf, false); int nused = 0; bool big = false;
  for (auto& e : s.order) { if (!used[(size_t)e.frame]) { used[(size_t)e.frame] = true; nused++; } if (e.data.size() >= 255) big = true; }
  bool out_of_order = false;
  for (size_t i = 1; i < s.order.size(); i++) if (s.order[i].frame < s.order[i - 1].frame) out_of_order = true;
  if (out_of_order) rep.label("parse-repeat-seen");    // bitstream order != frame order happens only through the repeat mechanism
  if (nused >= 2) rep.label("frames>=2");
  if (big) rep.label("payload>=255");
  rep.nontrivial(nused >= 2 || big || out_of_order);
  // parse -> generate -> parse is a fixed point
  ExtArray arr(s.order, s.order.size() <= 64);
  opus_int32 sz = opus_packet_extensions_generate(NULL, NOLIMIT, arr.ptr(), arr.n(), nbf, 0);
  VP_REQUIRE(sz >= 0, "c16:regenerate-error", "generate refused a parsed list (%d) of %d extensions", sz, arr.n());
  HeapBuf<uint8_t> g((size_t)sz);
  opus_int32 w = opus_packet_extensions_generate(g.p, sz, arr.ptr(), arr.n(), nbf, 0);
  VP_REQUIRE(w == sz, "c16:generate-exact-size", "regenerate: dry run %d, written %d", sz, w);
  Seen s2;
  if (check_bytes(g.p, sz, nbf, c, rep, s2)) return 1;
  VP_REQUIRE(s2.ret == 0 && s2.order.size() == s.order.size(), "c16:fixed-point", "regenerated bytes parse to %zu extensions (ret %d), original %zu", s2.order.size(), s2.ret, s.order.size());
  int fd = first_diff(per_frame(s.order, nbf), per_frame(s2.order, nbf));
  VP_REQUIRE(fd < 0, "c16:fixed-point", "frame %d: parsed %s, after regenerate %s", fd, show(per_frame(s.order, nbf)[(size_t)std::min(fd, nbf - 1)]).c_str(), show(per_frame(s2.order, nbf)[(size_t)std::min(fd, nbf - 1)]).c_str());
  for (size_t i = 0; i < s.by_frame.size(); i++)
    VP_REQUIRE(s.by_frame[i].frame == s2.by_frame[i].frame && s.by_frame[i] == s2.by_frame[i], "c16:fixed-point", "frame-ordered entry %zu: %s vs %s", i, show(s.by_frame[i]).c_str(), show(s2.by_frame[i]).c_str());
  rep.count(2);
  return 0;
}

// ---------------------------------------------------------------------------
// carriage through the repacketizer
static const uint8_t RP_CONFIGS[] = {16, 20, 24, 28, 17, 25, 18, 30, 19, 31, 0, 5, 9, 12, 15, 2, 3, 11};

struct Src {
  std::vector<std::vector<uint8_t>> frames;
  ExtList exts;                 // frames relative to this packet, carried-id classes only
  std::vector<uint8_t> bytes;
};

static bool is_extra_id(int id) { return (id >= 28 && id <= 31) || id >= 120; }

static MExt rp_ext(Choice& c, Rng& rng, int frame, bool extra) {
  MExt e; e.frame = frame;
  int sel = c.byte();
  if (sel & 1) { e.id = extra ? 28 + (sel >> 2) % 4 : 3 + (sel >> 2) % 25; fill_payload(e.data, (sel >> 1) & 1, rng, (uint8_t)(sel + frame)); }
  else {
    e.id = extra ? 120 + (sel >> 1) % 8 : 32 + (sel >> 1) % 88;
    static const int LL[] = {250, 251, 252, 253, 254, 255, 256, 257, 507, 508, 509, 510, 511, 1000};
    int L = c.chance(200) ? c.irange(0, 9) : c.pick(LL);
    fill_payload(e.data, L, rng, (uint8_t)(sel + 3 * frame));
  }
  return e;
}

static int build_packet(Choice& c, Report& rep, uint8_t toc_hi, Src& s) {
  int M = (int)s.frames.size();
  int method = c.irange(0, 2);
  ExtArray arr(s.exts, true);
  bool equal = true;
  for (auto& f : s.frames) if (f.size() != s.frames[0].size()) equal = false;
  auto model_packet = [&](std::vector<uint8_t>& out, const std::vector<uint8_t>* pad_data) {
    rfc::Spec sp; sp.toc_hi = toc_hi; sp.frames = s.frames;
    bool want3 = pad_data != nullptr || M > 2 || c.chance(64);
    if (!want3) { sp.code = M == 1 ? 0 : equal ? 1 : 2; }
    else {
      sp.code = 3; sp.vbr = !equal || c.chance(64);
      if (pad_data) { sp.pad_len_bytes = pad_total_for_data((int)pad_data->size()); sp.pad_data = *pad_data; }
    }
    rfc::serialize(sp, false, out);
  };
  if (method == 0) {
    rep.label("rp:build-model");
    opus_int32 sz = opus_packet_extensions_generate(NULL, NOLIMIT, arr.ptr(), arr.n(), M, 0);
    VP_REQUIRE(sz >= 0, "c16:generate-dry-run-error", "rp build: dry run %d", sz);
    int ones = (arr.n() && c.chance(64)) ? c.irange(1, 260) : 0;
    std::vector<uint8_t> pad((size_t)sz + (size_t)ones);
    if (!pad.empty()) {
      HeapBuf<uint8_t> pb(pad.size());
      opus_int32 w = opus_packet_extensions_generate(pb.p, (opus_int32)pad.size(), arr.ptr(), arr.n(), M, ones ? 1 : 0);
      VP_REQUIRE(w == (opus_int32)pad.size(), "c16:generate-exact-size", "rp build: wrote %d of %zu", w, pad.size());
      memcpy(pad.data(), pb.p, pad.size());
    }
    model_packet(s.bytes, (arr.n() || c.chance(32)) ? &pad : nullptr);
  } else if (method == 1) {
    rep.label("rp:build-out-range-impl");
    OpusRepacketizer* rp = opus_repacketizer_create();
    std::vector<std::unique_ptr<HeapBuf<uint8_t>>> singles;
    for (auto& f : s.frames) {
      singles.emplace_back(new HeapBuf<uint8_t>(f.size() + 1));
      singles.back()->p[0] = toc_hi;
      if (!f.empty()) memcpy(singles.back()->p + 1, f.data(), f.size());
      int r = opus_repacketizer_cat(rp, singles.back()->p, (opus_int32)f.size() + 1);
      if (r != OPUS_OK) { opus_repacketizer_destroy(rp); return rep.fail("c16:cat-rejected", "single-frame packet of %zu bytes rejected (%d)", f.size() + 1, r); }
    }
    long cap = 64 + 4 * M; for (auto& f : s.frames) cap += (long)f.size(); for (auto& e : s.exts) cap += (long)e.data.size() + 8 + (long)e.data.size() / 200;
    HeapBuf<uint8_t> out((size_t)cap);
    opus_int32 L = opus_repacketizer_out_range_impl(rp, 0, M, out.p, (opus_int32)cap, 0, 0, arr.ptr(), arr.n());
    if (L > 0 && c.chance(80)) {
      int extra = c.irange(1, 300);
      HeapBuf<uint8_t> out2((size_t)L + (size_t)extra);
      opus_int32 L2 = opus_repacketizer_out_range_impl(rp, 0, M, out2.p, L + extra, 0, 1, arr.ptr(), arr.n());
      opus_repacketizer_destroy(rp);
      VP_REQUIRE(L2 == L + extra, "c16:build-pad-length", "out_range_impl(pad=1, maxlen %d) returned %d", L + extra, L2);
      s.bytes.assign(out2.p, out2.p + L2);
      rep.label("rp:build-padded");
    } else {
      opus_repacketizer_destroy(rp);
      VP_REQUIRE(L > 0, "c16:build-failed", "out_range_impl with %d extensions on %d frames returned %d (maxlen %ld)", arr.n(), M, L, cap);
      s.bytes.assign(out.p, out.p + L);
    }
  } else {
    rep.label("rp:build-pad-impl");
    std::vector<uint8_t> plain;
    model_packet(plain, nullptr);
    long need = 8 + (long)plain.size(); for (auto& e : s.exts) need += (long)e.data.size() + 8 + (long)e.data.size() / 200;
    need += 2 * M + c.irange(0, 300);
    HeapBuf<uint8_t> buf((size_t)need);
    memcpy(buf.p, plain.data(), plain.size());
    int pad = c.chance(100);
    opus_int32 L = opus_packet_pad_impl(buf.p, (opus_int32)plain.size(), (opus_int32)need, pad, arr.ptr(), arr.n());
    VP_REQUIRE(L > 0 && L <= need && (!pad || L == need), "c16:build-failed", "opus_packet_pad_impl(len %zu, new_len %ld, pad %d, %d extensions) returned %d", plain.size(), need, pad, arr.n(), L);
    s.bytes.assign(buf.p, buf.p + L);
  }
  // the built packet holds exactly the frames and, per frame, exactly the extensions
  rfc::Parsed m = rfc::parse(s.bytes.data(), (int)s.bytes.size(), false);
  VP_REQUIRE(m.ok && m.count == M && (m.toc & 0xFC) == toc_hi, "c16:build-frames-differ", "built packet: model parser ok=%d count=%d (want %d) toc 0x%02x", m.ok, m.count, M, m.toc);
  for (int i = 0; i < M; i++)
    VP_REQUIRE(m.size[i] == (int)s.frames[(size_t)i].size() && (m.size[i] == 0 || !memcmp(s.bytes.data() + m.offset[i], s.frames[(size_t)i].data(), (size_t)m.size[i])), "c16:build-frames-differ", "built packet: frame %d differs", i);
  PerFrame got;
  int r = read_padding(s.bytes.data() + m.padding_offset, m.padding_len, M, got);
  VP_REQUIRE(r == 0, "c16:build-extensions-unparsable", "extension area of the built packet does not parse (%d)", r);
  PerFrame want = per_frame(s.exts, M);
  int fd = first_diff(want, got);
  VP_REQUIRE(fd < 0, "c16:build-extensions-differ", "built packet frame %d: want %s got %s", fd, show(want[(size_t)std::min(fd, M - 1)]).c_str(), show(got[(size_t)std::min(fd, M - 1)]).c_str());
  rep.count(3);
  return 0;
}

static int family_rp(Choice& c, Report& rep) {
  rep.label("family:rp");
  Rng rng(c.u32());
  uint8_t toc_hi = (uint8_t)((c.pick(RP_CONFIGS) << 3) | (c.boolean() ? 4 : 0));
  int maxframes = 48 / rfc::toc_info(toc_hi).dur_400;
  int S = c.irange(1, 4);
  std::vector<Src> src;
  int N = 0;
  for (int p = 0; p < S && N < maxframes; p++) {
    Src s;
    int room = maxframes - N;
    int M = c.chance(220) ? c.irange(1, std::min(room, 5)) : c.irange(1, room);
    bool equal = c.chance(100);
    int common = c.irange(0, 10);
    for (int i = 0; i < M; i++) {
      static const int FL[] = {0, 1, 251, 252, 253, 255, 256, 600, 1275};
      int L = equal ? common : c.chance(220) ? c.irange(0, 10) : c.pick(FL);
      std::vector<uint8_t> f((size_t)L);
      for (auto& b : f) b = (uint8_t)rng.next();
      if (L) f[0] = (uint8_t)(16 * p + i);
      s.frames.push_back(std::move(f));
    }
    int ne = c.chance(64) ? 0 : c.chance(200) ? c.irange(1, 4) : c.irange(1, 12);
    int where = c.irange(0, 3);     // 0 any frame, 1 first frame only, 2 last frame only, 3 every frame the same ids (repeat-eligible)
    if (where == 3) {
      MExt t = rp_ext(c, rng, 0, false);
      for (int f = 0; f < M; f++) { MExt e = t; e.frame = f; if (!e.data.empty()) e.data[0] = (uint8_t)(e.data[0] + f); s.exts.push_back(e); }
    } else for (int i = 0; i < ne; i++) s.exts.push_back(rp_ext(c, rng, where == 0 ? c.irange(0, M - 1) : where == 1 ? 0 : M - 1, false));
    if (build_packet(c, rep, toc_hi, s)) return 1;
    N += M;
    src.push_back(std::move(s));
  }
  // merge
  OpusRepacketizer* rp = opus_repacketizer_create();
  std::vector<std::unique_ptr<HeapBuf<uint8_t>>> held;
  std::vector<const std::vector<uint8_t>*> gframe;
  std::vector<int> pkt_start, pkt_end, owner;
  PerFrame gext;
  int with_ext = 0;
  struct Guard { OpusRepacketizer* r; ~Guard() { opus_repacketizer_destroy(r); } } guard{rp};
  for (size_t p = 0; p < src.size(); p++) {
    Src& s = src[p];
    held.emplace_back(new HeapBuf<uint8_t>(s.bytes.size()));
    memcpy(held.back()->p, s.bytes.data(), s.bytes.size());
    int r = opus_repacketizer_cat(rp, held.back()->p, (opus_int32)s.bytes.size());
    VP_REQUIRE(r == OPUS_OK, "c16:cat-rejected", "packet %zu (%zu frames, %zu bytes) rejected with %d", p, s.frames.size(), s.bytes.size(), r);
    pkt_start.push_back((int)gframe.size());
    PerFrame pf = per_frame(s.exts, (int)s.frames.size());
    for (size_t i = 0; i < s.frames.size(); i++) { gframe.push_back(&s.frames[i]); owner.push_back((int)p); gext.push_back(pf[i]); }
    pkt_end.push_back((int)gframe.size());
    if (!s.exts.empty()) with_ext++;
  }
  VP_REQUIRE(opus_repacketizer_get_nb_frames(rp) == N, "c16:nb-frames", "get_nb_frames %d, expected %d", opus_repacketizer_get_nb_frames(rp), N);
  rep.note("repacketizer: toc 0x%02x, %zu packets / %d frames, %d packets with extensions", toc_hi, src.size(), N, with_ext);
  uint64_t fp = toc_hi;
  for (auto& s : src) { fp = mix(fp, s.frames.size()); for (auto& e : s.exts) fp = mix(fp, ((uint64_t)e.frame << 32) ^ ((uint64_t)e.id << 16) ^ e.data.size()); }
  rep.fingerprint(fp);

  int K = c.irange(1, 4);
  for (int op = 0; op < K; op++) {
    int kind = c.irange(0, 3);
    int b, e;
    if (kind == 0) { b = 0; e = N; }
    else if (kind == 1) { b = c.irange(0, N - 1); e = c.irange(b + 1, N); }
    else if (kind == 2) { int p0 = c.irange(0, (int)src.size() - 1), p1 = c.irange(p0, (int)src.size() - 1); b = pkt_start[(size_t)p0]; e = pkt_end[(size_t)p1]; }
    else { b = c.irange(0, N - 1); e = b + 1; }
    int cnt = e - b;
    bool cut = b != pkt_start[(size_t)owner[(size_t)b]] || e != pkt_end[(size_t)owner[(size_t)(e - 1)]];
    // known finding F3: the range cuts a multi-frame packet and (a) starts inside it while the packet has
    // extensions on selected frames, or (b) ends inside it while the packet has extensions on frames >= end.
    bool f3 = false;
    {
      int pb = owner[(size_t)b];
      if (pkt_start[(size_t)pb] < b) for (int f = b; f < std::min(e, pkt_end[(size_t)pb]); f++) if (!gext[(size_t)f].empty()) f3 = true;
      int pe = owner[(size_t)(e - 1)];
      if (pkt_end[(size_t)pe] > e && pkt_start[(size_t)pe] >= b) for (int f = e; f < pkt_end[(size_t)pe]; f++) if (!gext[(size_t)f].empty()) f3 = true;
    }
    if (f3) {
      rep.label("rp:f3-class");   // fixed finding F3 (repo commit e18ed156): checked like every other range
    }
    // optional caller-supplied extensions (disjoint id classes so both groups can be told apart)
    ExtList extra;
    if (c.chance(64)) { int ne = c.irange(1, 3); for (int i = 0; i < ne; i++) extra.push_back(rp_ext(c, rng, c.irange(0, cnt - 1), true)); rep.label("rp:extra-extensions"); }
    ExtArray xarr(extra, true);
    int sd = c.chance(48);
    long cap = 1100 + 4L * cnt;
    for (int f = b; f < e; f++) { cap += (long)gframe[(size_t)f]->size(); for (auto& x : gext[(size_t)f]) cap += (long)x.data.size() + 8 + (long)x.data.size() / 200; }
    for (auto& x : extra) cap += (long)x.data.size() + 8 + (long)x.data.size() / 200;
    HeapBuf<uint8_t> out((size_t)cap);
    opus_int32 L = opus_repacketizer_out_range_impl(rp, b, e, out.p, (opus_int32)cap, sd, 0, xarr.ptr(), xarr.n());
    rep.count();
    const char* sig_carry = f3 ? "c16:repacketizer-split-extension" : "c16:repacketizer-carry-extension";
    VP_REQUIRE(L > 0, f3 ? "c16:repacketizer-split-extension" : "c16:repacketizer-out-error", "out_range(%d,%d) of %d frames (%s packet boundaries) returned %d with maxlen %ld", b, e, N, cut ? "cuts" : "on", L, cap);
    rfc::Parsed m = rfc::parse(out.p, L, sd != 0);
    VP_REQUIRE(m.ok && m.count == cnt && (m.toc & 0xFC) == toc_hi && m.consumed == L, "c16:repacketizer-output-invalid", "out_range(%d,%d) sd=%d: %d bytes, model parser ok=%d count=%d toc 0x%02x consumed %d", b, e, sd, L, m.ok, m.count, m.toc, m.consumed);
    for (int i = 0; i < cnt; i++) {
      const std::vector<uint8_t>& f = *gframe[(size_t)(b + i)];
      VP_REQUIRE(m.size[i] == (int)f.size() && (f.empty() || !memcmp(out.p + m.offset[i], f.data(), f.size())), "c16:repacketizer-frames-differ", "out_range(%d,%d): output frame %d differs from input frame %d", b, e, i, b + i);
    }
    PerFrame got;
    int r = read_padding(out.p + m.padding_offset, m.padding_len, cnt, got);
    VP_REQUIRE(r == 0, sig_carry, "out_range(%d,%d): extension area does not parse (%d)", b, e, r);
    PerFrame got_carried((size_t)cnt), got_extra((size_t)cnt), want_carried((size_t)cnt);
    for (int i = 0; i < cnt; i++) { for (auto& x : got[(size_t)i]) (is_extra_id(x.id) ? got_extra : got_carried)[(size_t)i].push_back(x); want_carried[(size_t)i] = gext[(size_t)(b + i)]; }
    int fd = first_diff(want_carried, got_carried);
    VP_REQUIRE(fd < 0, sig_carry, "out_range(%d,%d) of %d frames (%s packet boundaries): output frame %d (input frame %d) should carry %s but carries %s", b, e, N, cut ? "cuts" : "on", fd, b + fd,
               show(want_carried[(size_t)std::min(fd, cnt - 1)]).c_str(), show(got_carried[(size_t)std::min(fd, cnt - 1)]).c_str());
    fd = first_diff(per_frame(extra, cnt), got_extra);
    VP_REQUIRE(fd < 0, "c16:repacketizer-extra-extension", "out_range(%d,%d): caller-supplied extensions differ on output frame %d", b, e, fd);
    // exact-size buffer gives the same packet, one byte less is refused, pad fills the buffer and keeps the extensions
    {
      HeapBuf<uint8_t> ex((size_t)L);
      opus_int32 L2 = opus_repacketizer_out_range_impl(rp, b, e, ex.p, L, sd, 0, xarr.ptr(), xarr.n());
      VP_REQUIRE(L2 == L && !memcmp(ex.p, out.p, (size_t)L), "c16:repacketizer-exact-buffer", "out_range(%d,%d) into exactly %d bytes returned %d", b, e, L, L2);
      int less = c.chance(128) ? 1 : c.irange(1, L);
      HeapBuf<uint8_t> sm((size_t)(L - less));
      opus_int32 L3 = opus_repacketizer_out_range_impl(rp, b, e, sm.p, L - less, sd, 0, xarr.ptr(), xarr.n());
      VP_REQUIRE(L3 == OPUS_BUFFER_TOO_SMALL, "c16:repacketizer-too-small", "out_range(%d,%d) needs %d bytes, maxlen %d returned %d", b, e, L, L - less, L3);
      rep.count(2);
      if (!sd && c.chance(96)) {
        int more = c.irange(1, 300);
        HeapBuf<uint8_t> pd((size_t)L + (size_t)more);
        opus_int32 L4 = opus_repacketizer_out_range_impl(rp, b, e, pd.p, L + more, 0, 1, xarr.ptr(), xarr.n());
        VP_REQUIRE(L4 == L + more, "c16:repacketizer-pad-length", "out_range(%d,%d,pad=1) into %d bytes returned %d", b, e, L + more, L4);
        rfc::Parsed mp = rfc::parse(pd.p, L4, false);
        VP_REQUIRE(mp.ok && mp.count == cnt, "c16:repacketizer-output-invalid", "padded output invalid");
        for (int i = 0; i < cnt; i++) {
          const std::vector<uint8_t>& f = *gframe[(size_t)(b + i)];
          VP_REQUIRE(mp.size[i] == (int)f.size() && (f.empty() || !memcmp(pd.p + mp.offset[i], f.data(), f.size())), "c16:repacketizer-frames-differ", "padded output frame %d differs", i);
        }
        PerFrame gp;
        int rr = read_padding(pd.p + mp.padding_offset, mp.padding_len, cnt, gp);
        VP_REQUIRE(rr == 0 && first_diff(gp, got) < 0, sig_carry, "out_range(%d,%d,pad=1): extensions differ from the unpadded output (parse %d)", b, e, rr);
        rep.label("rp:padded-out");
      }
    }
    bool any_ext = total(want_carried) > 0;
    if (cut) rep.label(any_ext ? "rp:split-with-extensions" : "rp:split");
    else if (src.size() >= 2 && cnt == N) rep.label(with_ext >= 2 ? "rp:merge-with-extensions" : "rp:merge");
    if (any_ext && (cut || (cnt == N && with_ext >= 2))) rep.nontrivial();
    if (sd) rep.label("rp:self-delimited");
    rep.note("out_range(%d,%d)%s%s -> %d bytes, %zu extensions carried", b, e, cut ? " cut" : "", sd ? " self-delimited" : "", L, total(want_carried));
  }
  return 0;
}

int vp_case(Choice& c, Report& rep) {
  static const int W[] = {5, 4, 4};
  switch (c.weighted(W, 3)) {
    case 0: return family_gen(c, rep);
    case 1: return family_parse(c, rep);
    default: return family_rp(c, rep);
  }
}
