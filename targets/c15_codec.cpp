// C15 (b): whole-codec consequences of the run-time dispatch, through the arch
// cap hook (opus_verif_arch_cap, read by opus_select_arch() when an object is
// created).  One generated input (configuration, short history of setting
// changes, signal) is encoded at every cap 0..4 and decoded at every cap.
//   fixed-point build: packets byte-identical, final ranges identical, decoded
//     PCM bit-identical at every cap (also through concealed losses);
//   float build: each cap's packets decode to that encoder's final range; one
//     packet stream decodes to identical final ranges at every cap and to PCM
//     within 1e-4 of full scale.
// Built against the *-checkasm variants the same runs put upstream's
// OPUS_CHECK_ASM self-checks (the SIMD kernel re-runs the C kernel and asserts
// equality) under a whole-codec load at every cap: an abort there is the violation.
#include "vp.hpp"
#include "common.hpp"
#include "codec_util.hpp"
#include "siggen.hpp"
#include "c15_common.hpp"
#include <cmath>
#include <algorithm>
#include <csetjmp>
extern "C" {
#include "main.h"
}

// Observers for the two known deviations (both need -Wl,--wrap): the dispatch tables reach the SIMD symbols through these.
//  C15F2: silk_NSQ_del_dec_avx2 does not reproduce the C arithmetic once the quantiser state has run away (64-bit product in
//       silk_sar_round_smulww, wrapping (a+8)>>4 in silk_mm_srai_round_epi32); both need the AVX2 result to hold a saturated
//       output sample, which is the observable class.
//  C15F1: celt_fir_sse4_1 saturates at -32768, celt_fir_c at -32767.
static bool g_avx2_saturated = false, g_fir_min = false;
// OPUS_CHECK_ASM builds: the kernel's own self-check aborts (silk_assert -> abort()) after the AVX2 result has been written.
// The wrappers below turn exactly that abort into "C15F2 class observed" when the AVX2 result holds a saturated sample (the
// encoder then continues with the portable result) and let every other abort happen as usual.
static bool g_in_avx2 = false, g_selfcheck_f22 = false;
static jmp_buf g_avx2_jb;
static bool xq_saturated(const silk_encoder_state* psEncC, const silk_nsq_state* NSQ) {
  for (int t = 0; t < psEncC->ltp_mem_length; t++) if (NSQ->xq[t] >= 32767 || NSQ->xq[t] <= -32768) return true;
  return false;
}
extern "C" {
// SILK assertions end in _silk_fatal() (static inline: fprintf + abort()), so the interposition point is abort() itself.
__attribute__((noreturn)) void __real_abort(void);
__attribute__((noreturn)) void __wrap_abort(void) {
  if (g_in_avx2) longjmp(g_avx2_jb, 1);
  __real_abort();
}
void silk_NSQ_del_dec_c(const silk_encoder_state*, silk_nsq_state*, SideInfoIndices*, const opus_int16*, opus_int8*, const opus_int16*, const opus_int16*, const opus_int16*, const opus_int*, const opus_int*, const opus_int32*, const opus_int32*, const opus_int*, const opus_int, const opus_int);
void __real_silk_NSQ_del_dec_avx2(const silk_encoder_state*, silk_nsq_state*, SideInfoIndices*, const opus_int16*, opus_int8*, const opus_int16*, const opus_int16*, const opus_int16*, const opus_int*, const opus_int*, const opus_int32*, const opus_int32*, const opus_int*, const opus_int, const opus_int);
void __wrap_silk_NSQ_del_dec_avx2(const silk_encoder_state* psEncC, silk_nsq_state* NSQ, SideInfoIndices* psIndices, const opus_int16* x16, opus_int8* pulses, const opus_int16* PredCoef_Q12, const opus_int16* LTPCoef_Q14, const opus_int16* AR_Q13, const opus_int* HarmShapeGain_Q14, const opus_int* Tilt_Q14, const opus_int32* LF_shp_Q14, const opus_int32* Gains_Q16, const opus_int* pitchL, const opus_int Lambda_Q10, const opus_int LTP_scale_Q14) {
#ifdef OPUS_CHECK_ASM
  static silk_nsq_state nsq0; static SideInfoIndices ind0; static opus_int8 pulses0[MAX_FRAME_LENGTH];
  const int fl = psEncC->nb_subfr * psEncC->subfr_length;
  memcpy(&nsq0, NSQ, sizeof nsq0); memcpy(&ind0, psIndices, sizeof ind0); memcpy(pulses0, pulses, fl);
  g_in_avx2 = true;
  if (setjmp(g_avx2_jb) != 0) {
    // the self-check failed: NSQ / pulses hold the AVX2 result
    g_in_avx2 = false;
    if (!xq_saturated(psEncC, NSQ)) { fprintf(stderr, "OPUS_CHECK_ASM: assertion inside silk_NSQ_del_dec_avx2 and no saturated sample in the AVX2 result\n"); __real_abort(); }
    g_avx2_saturated = true; g_selfcheck_f22 = true;
    memcpy(NSQ, &nsq0, sizeof nsq0); memcpy(psIndices, &ind0, sizeof ind0); memcpy(pulses, pulses0, fl);
    silk_NSQ_del_dec_c(psEncC, NSQ, psIndices, x16, pulses, PredCoef_Q12, LTPCoef_Q14, AR_Q13, HarmShapeGain_Q14, Tilt_Q14, LF_shp_Q14, Gains_Q16, pitchL, Lambda_Q10, LTP_scale_Q14);
    return;
  }
#endif
  __real_silk_NSQ_del_dec_avx2(psEncC, NSQ, psIndices, x16, pulses, PredCoef_Q12, LTPCoef_Q14, AR_Q13, HarmShapeGain_Q14, Tilt_Q14, LF_shp_Q14, Gains_Q16, pitchL, Lambda_Q10, LTP_scale_Q14);
  g_in_avx2 = false;
  if (xq_saturated(psEncC, NSQ)) g_avx2_saturated = true;
}
#ifdef FIXED_POINT
void __real_celt_fir_sse4_1(const opus_int16*, const opus_int16*, opus_int16*, int, int, int);
void __wrap_celt_fir_sse4_1(const opus_int16* x, const opus_int16* num, opus_int16* y, int N, int ord, int arch) {
  __real_celt_fir_sse4_1(x, num, y, N, ord, arch);
  for (int i = 0; i < N; i++) if (y[i] == -32768) { g_fir_min = true; break; }
}
#endif
}

using namespace vp;

const TargetInfo vp_info = {"c15_codec", 16, 300};

namespace {

struct Ctl { int req; int val; };
struct Step { std::vector<Ctl> ctls; int d; bool lost; int family; };

void gen_ctl(Choice& c, int ch, std::vector<Ctl>& out) {
  int w = c.irange(0, 9);
  switch (w) {
    case 0: out.push_back({OPUS_SET_BITRATE_REQUEST, cu::gen_bitrate(c, ch)}); break;
    case 1: out.push_back({OPUS_SET_COMPLEXITY_REQUEST, c.irange(0, 10)}); break;
    case 2: out.push_back({OPUS_SET_BANDWIDTH_REQUEST, c.chance(64) ? OPUS_AUTO : cu::BANDWIDTHS[c.irange(0, 4)]}); break;
    case 3: { int v = c.irange(0, 3); out.push_back({OPUS_SET_FORCE_MODE_REQUEST, v == 0 ? OPUS_AUTO : 999 + v}); break; }
    case 4: out.push_back({OPUS_SET_INBAND_FEC_REQUEST, c.irange(0, 2)}); out.push_back({OPUS_SET_PACKET_LOSS_PERC_REQUEST, c.irange(0, 50)}); break;
    case 5: out.push_back({OPUS_SET_VBR_REQUEST, c.irange(0, 1)}); break;
    case 6: { int v = c.irange(0, 2); int fc = v == 0 ? OPUS_AUTO : v; if (fc != OPUS_AUTO && fc > ch) fc = OPUS_AUTO; out.push_back({OPUS_SET_FORCE_CHANNELS_REQUEST, fc}); break; }
    case 7: out.push_back({OPUS_SET_SIGNAL_REQUEST, c.pick((const int[]){OPUS_AUTO, OPUS_SIGNAL_VOICE, OPUS_SIGNAL_MUSIC})}); break;
    case 8: out.push_back({OPUS_SET_MAX_BANDWIDTH_REQUEST, cu::BANDWIDTHS[c.irange(0, 4)]}); break;
    default: out.push_back({OPUS_SET_DTX_REQUEST, c.irange(0, 1)}); break;
  }
}

struct Packet { std::vector<unsigned char> bytes; opus_uint32 range = 0; int ret = 0; };

}  // namespace

int vp_case(Choice& c, Report& rep) {
  struct CapRestore { ~CapRestore() { opus_verif_arch_cap = 255; } } restore;
  cu::EncCfg e = cu::gen_cfg(c);
  if (c.chance(90)) { e.force_mode = c.chance(170) ? cu::MODE_SILK : cu::MODE_HYBRID; e.dtx = 0; if (e.app == OPUS_APPLICATION_RESTRICTED_LOWDELAY) e.app = OPUS_APPLICATION_VOIP; if (c.boolean()) e.complexity = 10 - c.irange(0, 10); rep.label("class:speech-layer-forced"); }
  int nsteps = 1 + c.irange(0, 4);
  uint64_t sseed = c.u32();
  int family0 = c.irange(0, sig::NFAMILIES - 1);
  double amp = c.pick((const double[]){0.5, 0.5, 1.0, 0.05, 0.001});
  bool float_in = false;
#ifndef FIXED_POINT
  float_in = c.boolean();
#endif
  std::vector<Step> plan(nsteps);
  int total = 0;
  for (int s = 0; s < nsteps; s++) {
    Step& st = plan[s];
    int nch = c.chance(80) ? c.irange(1, 2) : 0;
    for (int k = 0; k < nch; k++) gen_ctl(c, e.ch, st.ctls);
    st.d = c.chance(150) ? 3 : c.irange(0, 8);
    if (total + cu::DUR400[st.d] > 160) st.d = 3;      // at most 0.4 s + one frame of audio per case
    total += cu::DUR400[st.d];
    st.family = c.chance(24) ? c.irange(0, sig::NFAMILIES - 1) : family0;
    st.lost = false;
#ifdef FIXED_POINT
    st.lost = s > 0 && c.chance(40);               // concealment is integer arithmetic in this build: must not depend on the level
#endif
  }
  for (int s = 0; s < nsteps; s++) { std::string cs; char b[64]; for (auto& q : plan[s].ctls) { snprintf(b, sizeof b, " ctl(%d,%d)", q.req, q.val); cs += b; } rep.note("step%d:%s dur=%d/400s %s%s", s, cs.c_str(), cu::DUR400[plan[s].d], sig::FAMILY_NAME[plan[s].family], plan[s].lost ? " LOST" : ""); }
  int decFs = c.chance(180) ? e.Fs : cu::RATES[c.irange(0, 4)];
  int decCh = c.chance(180) ? e.ch : 1 + c.irange(0, 1);
  bool any_lost = false; for (auto& st : plan) any_lost |= st.lost;
  rep.note("{%s} steps=%d signal=%s seed=%llu amp=%g float_in=%d dec=%d/%d", cu::cfg_str(e).c_str(), nsteps, sig::FAMILY_NAME[family0], (unsigned long long)sseed, amp, (int)float_in, decFs, decCh);
  rep.label(c15::levels_label());

  // ---- encode the same plan at every cap ---------------------------------------
  std::vector<std::vector<Packet>> pk(5, std::vector<Packet>(nsteps));
  bool sat_at[5] = {false, false, false, false, false};
  for (int cap = 0; cap <= 4; cap++) {
    opus_verif_arch_cap = cap;
    g_avx2_saturated = false;
    struct SatNote { bool* dst; ~SatNote() { *dst = g_avx2_saturated; } } satnote{&sat_at[cap]};
    int err = 0;
    cu::Enc enc; enc.p = opus_encoder_create(e.Fs, e.ch, e.app, &err);
    VP_REQUIRE(enc.p && err == OPUS_OK, "c15:create", "encoder create failed %d at cap %d", err, cap);
    int r = cu::apply_cfg(enc.p, e);
    VP_REQUIRE(r == OPUS_OK, "c15:cfg", "legal initial setting rejected: %d (%s)", r, cu::cfg_str(e).c_str());
    int pos = 0;
    for (int s = 0; s < nsteps; s++) {
      const Step& st = plan[s];
      for (auto& q : st.ctls) (void)opus_encoder_ctl(enc.p, q.req, q.val);
      int fs = cu::frame_samples(e.Fs, st.d);
      std::vector<float> x;
      sig::generate(st.family, sseed, e.Fs, e.ch, fs, amp, x, pos);
      pos += fs;
      HeapBuf<unsigned char> out(1500);
      int n;
      if (float_in) { HeapBuf<float> in((size_t)fs * e.ch); memcpy(in.p, x.data(), sizeof(float) * x.size()); n = opus_encode_float(enc.p, in.p, fs, out.p, 1500); }
      else { std::vector<opus_int16> xi; sig::to_int16(x, xi); HeapBuf<opus_int16> in((size_t)fs * e.ch); memcpy(in.p, xi.data(), sizeof(opus_int16) * xi.size()); n = opus_encode(enc.p, in.p, fs, out.p, 1500); }
      rep.count();
      VP_REQUIRE(n > 0 && n <= 1500, "c15:encode", "encode returned %d at cap %d step %d (%s)", n, cap, s, cu::cfg_str(e).c_str());
      Packet& p = pk[cap][s];
      p.ret = n; p.bytes.assign(out.p, out.p + n);
      opus_encoder_ctl(enc.p, OPUS_GET_FINAL_RANGE(&p.range));
      if (cap == 0 && s == 0) rep.note("first TOC 0x%02x len %d", out.p[0], n);
    }
    rep.labelf("cap:%d-encoded", cap);
    if (g_selfcheck_f22) {
      g_selfcheck_f22 = false;
      if (!rep.exclude("C15F2")) return rep.fail("c15:checkasm-nsq-del-dec-avx2-saturated", "OPUS_CHECK_ASM self-check of silk_NSQ_del_dec_avx2 failed at cap %d; the AVX2 result holds a saturated sample (class of finding C15F2) [%s]", cap, cu::cfg_str(e).c_str());
      rep.label("checkasm:avx2-saturated-selfcheck-failure-excluded");
    }
  }
  opus_verif_arch_cap = 255;
  uint64_t fp = mix(e.Fs, mix(e.ch, nsteps));
  bool differ = false;
  for (int s = 0; s < nsteps; s++) {
    fp = mix(fp, mix(pk[0][s].bytes[0], pk[0][s].ret > 8 ? 9 : pk[0][s].ret));
    int mode = pk[0][s].bytes[0] >> 7 ? 2 : ((pk[0][s].bytes[0] & 0x60) == 0x60 ? 1 : 0);
    rep.label(mode == 2 ? "mode:celt" : mode == 1 ? "mode:hybrid" : "mode:silk");
    for (int cap = 1; cap <= 4; cap++) {
      bool same = pk[cap][s].bytes == pk[0][s].bytes && pk[cap][s].range == pk[0][s].range;
#ifdef FIXED_POINT
      if (!same && sat_at[cap] && rep.exclude("C15F2")) { rep.label("fixed:avx2-saturated-nsq-packets-differ-excluded"); continue; }
      if (!same) {
        size_t nd = 0, first = 0, last = 0, m = std::min(pk[cap][s].bytes.size(), pk[0][s].bytes.size());
        for (size_t i = 0; i < m; i++) if (pk[cap][s].bytes[i] != pk[0][s].bytes[i]) { if (!nd) first = i; last = i; nd++; }
        return rep.fail(sat_at[cap] ? "c15:fixed-packets-differ-avx2-nsq-saturated" : "c15:fixed-packets-differ-across-levels", "fixed-point build: step %d packet at cap %d (len %d, range %08x, toc 0x%02x) differs from cap 0 (len %d, range %08x, toc 0x%02x): %zu differing bytes, first at %zu (%02x vs %02x), last at %zu [%s]", s, cap, pk[cap][s].ret, pk[cap][s].range, pk[cap][s].bytes[0], pk[0][s].ret, pk[0][s].range, pk[0][s].bytes[0], nd, first, pk[cap][s].bytes[first], pk[0][s].bytes[first], last, cu::cfg_str(e).c_str());
      }
#else
      if (!same) differ = true;
#endif
    }
  }
  if (differ) rep.label("float:packets-differ-across-levels");
  bool mode_transition = false;
  for (int s = 1; s < nsteps; s++) { int a = pk[0][s - 1].bytes[0], b = pk[0][s].bytes[0]; int ma = a >> 7 ? 2 : ((a & 0x60) == 0x60 ? 1 : 0), mb = b >> 7 ? 2 : ((b & 0x60) == 0x60 ? 1 : 0); if (ma != mb) mode_transition = true; }
  // frames of <= 1 byte are concealed by the decoder as well (opus_decode_frame: len<=1 -> PLC)
  for (int s = 0; s < nsteps; s++) {
    opus_int16 sz[48]; unsigned char toc;
    int nf = opus_packet_parse(pk[0][s].bytes.data(), pk[0][s].ret, &toc, nullptr, sz, nullptr);
    VP_REQUIRE(nf >= 1, "c15:encoder-output-unparseable", "opus_packet_parse returned %d for the cap-0 packet of step %d", nf, s);
    for (int f = 0; f < nf; f++) if (sz[f] <= 1) mode_transition = true;
  }
  if (mode_transition) rep.label("stream:mode-transition-or-concealed-frame");
  (void)mode_transition;

  // ---- decode ------------------------------------------------------------------
  // streams to decode: cap 0's packets at every cap (cross-level equality); float build: additionally each cap's own packets
  // at that cap (encoder/decoder lock-step).  PCM of stream 0 is kept for the comparison.
  std::vector<std::vector<float>> pcmf(5);
  std::vector<std::vector<opus_int16>> pcmi(5);
  std::vector<std::vector<opus_uint32>> dr(5, std::vector<opus_uint32>(nsteps, 0));
  bool fir_at[5] = {false, false, false, false, false};
  for (int cap = 0; cap <= 4; cap++) {
    for (int own = 0; own <= 1; own++) {
#ifdef FIXED_POINT
      if (own) continue;
#else
      if (own && cap == 0) continue;
#endif
      const std::vector<Packet>& strm = own ? pk[cap] : pk[0];
      opus_verif_arch_cap = cap;
      g_fir_min = false;
      struct FirNote { bool* dst; ~FirNote() { *dst = g_fir_min; } } firnote{&fir_at[cap]};
      int err = 0;
      int Fs = own ? e.Fs : decFs, ch = own ? e.ch : decCh;
      cu::Dec dec; dec.p = opus_decoder_create(Fs, ch, &err);
      VP_REQUIRE(dec.p && err == OPUS_OK, "c15:create-dec", "decoder create failed %d at cap %d", err, cap);
      for (int s = 0; s < nsteps; s++) {
        int want = cu::frame_samples(Fs, plan[s].d);
        bool lost = plan[s].lost && !own;
        opus_uint32 r = 0;
        int n;
#ifdef FIXED_POINT
        HeapBuf<opus_int16> pcm((size_t)want * ch);
        n = opus_decode(dec.p, lost ? nullptr : strm[s].bytes.data(), lost ? 0 : strm[s].ret, pcm.p, want, 0);
        if (n > 0) pcmi[cap].insert(pcmi[cap].end(), pcm.p, pcm.p + (size_t)n * ch);
#else
        HeapBuf<float> pcm((size_t)want * ch);
        n = opus_decode_float(dec.p, strm[s].bytes.data(), strm[s].ret, pcm.p, want, 0);
        if (n > 0 && !own) pcmf[cap].insert(pcmf[cap].end(), pcm.p, pcm.p + (size_t)n * ch);
#endif
        rep.count();
        VP_REQUIRE(n == want, "c15:decode-count", "decoder at cap %d returned %d for step %d, expected %d", cap, n, s, want);
        opus_decoder_ctl(dec.p, OPUS_GET_FINAL_RANGE(&r));
        if (own) VP_REQUIRE(r == strm[s].range, "c15:own-range-mismatch", "cap %d: decoder final range %08x, encoder (same cap) %08x at step %d (len %d toc 0x%02x) [%s]", cap, r, strm[s].range, s, strm[s].ret, strm[s].bytes[0], cu::cfg_str(e).c_str());
        else {
          dr[cap][s] = r;
          if (!lost) VP_REQUIRE(r == strm[s].range, "c15:range-mismatch", "decoder at cap %d: final range %08x, encoder (cap 0) %08x at step %d (len %d toc 0x%02x) [%s]", cap, r, strm[s].range, s, strm[s].ret, strm[s].bytes[0], cu::cfg_str(e).c_str());
          VP_REQUIRE(r == dr[0][s], "c15:decoder-range-differs-across-levels", "step %d: decoder final range %08x at cap %d, %08x at cap 0", s, r, cap, dr[0][s]);
        }
      }
      if (!own) rep.labelf("cap:%d-decoded", cap);
    }
  }
  opus_verif_arch_cap = 255;
  for (int cap = 1; cap <= 4; cap++) {
#ifdef FIXED_POINT
    bool same = pcmi[cap].size() == pcmi[0].size() && (pcmi[0].empty() || !memcmp(pcmi[cap].data(), pcmi[0].data(), pcmi[0].size() * sizeof(opus_int16)));
    if (!same && fir_at[cap] && rep.exclude("C15F1")) { rep.label("fixed:celt-fir-saturation-pcm-differs-excluded"); continue; }
    if (!same) {
      size_t i = 0; while (i + 1 < pcmi[0].size() && pcmi[cap][i] == pcmi[0][i]) i++;
      return rep.fail(fir_at[cap] ? "c15:fixed-pcm-differs-celt-fir-saturation" : any_lost ? "c15:fixed-pcm-differs-across-levels-with-loss" : "c15:fixed-pcm-differs-across-levels", "fixed-point build: decoded PCM at cap %d differs from cap 0 at sample %zu of %zu: %d vs %d (decoder %d Hz/%d ch) [%s]", cap, i, pcmi[0].size(), pcmi[cap][i], pcmi[0][i], decFs, decCh, cu::cfg_str(e).c_str());
    }
#else
    VP_REQUIRE(pcmf[cap].size() == pcmf[0].size(), "c15:decode-count", "PCM length differs across caps");
    double mx = 0; size_t at = 0;
    for (size_t i = 0; i < pcmf[0].size(); i++) { double d = std::fabs((double)pcmf[cap][i] - pcmf[0][i]); if (!(d <= mx)) { mx = d; at = i; } }
    // A change of coding mode makes the decoder synthesise transition audio with the CELT concealment (pitch search and
    // recursive LPC filters in float), where rounding differences are not bounded by a fixed small number: the PCM clause
    // is asserted for streams that stay in one mode and carry no frame of <= 1 byte (those are concealed too).
    if (mode_transition) { if (cap == 4) rep.label("float:pcm-clause-skipped-concealment-involved"); continue; }
    VP_REQUIRE(mx <= 1e-4, "c15:float-pcm-differs-across-levels", "float build: decoded PCM at cap %d differs from cap 0 by %.3g (limit 1e-4 of full scale) at sample %zu: %.9g vs %.9g (decoder %d Hz/%d ch) [%s]", cap, mx, at, pcmf[cap][at], pcmf[0][at], decFs, decCh, cu::cfg_str(e).c_str());
    if (cap == 4) rep.label(mx == 0 ? "pcmdiff:zero" : mx < 1e-7 ? "pcmdiff:<1e-7" : mx < 1e-6 ? "pcmdiff:<1e-6" : mx < 1e-5 ? "pcmdiff:<1e-5" : "pcmdiff:<1e-4");
#endif
  }
  if (any_lost) rep.label("fixed:concealed-loss");
  bool changed = false; for (auto& st : plan) changed |= !st.ctls.empty();
  if (nsteps > 1 || changed) rep.nontrivial();
  rep.fingerprint(fp);
  return 0;
}
