#pragma once
extern "C" {
int am_best_lag(const float* in, const float* out, int n, int stride, int maxlag, double* frac, double* peak, double* second);
double am_snr_db(const float* in, const float* out, int n, int stride, int delay, int skip, double* gain);
void am_band_energy_db(const float* x, int n, int stride, int Fs, int delay, double* out_db);
double am_rms(const float* x, int n, int stride);
double am_peak(const float* x, int n, int stride);
}
