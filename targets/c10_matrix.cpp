// C10 (clause 4): for each built-in ambisonics order the exported demixing matrix (with its exported gain)
// inverts the mixing matrix, so projection round-trips every input channel.
//
//   enumerated part (10 cases: orders 1..5 x {without, with} the non-diegetic stereo pair): the matrix the
//     encoder exports through OPUS_PROJECTION_GET_DEMIXING_MATRIX (Q15, little endian, column major) times
//     10^(gain/(20*256)) times the mixing matrix the encoder applies (src/mapping_matrix.c,
//     mapping_matrix_*_mixing) is the identity within 1e-3, every entry checked.
//   random part: a projection encoder at a high rate feeds a projection decoder built from the exported
//     matrix and gain; after the reported look-ahead every input channel comes back (per-channel SNR against a
//     calibrated floor and against the frozen reference codec run on the same input), float and 16-bit paths.
#include "codec_util.hpp"
#include "common.hpp"
#include "c10_ms_util.hpp"
#include "vp.hpp"
extern "C" {
#include "arch.h"
#include "mapping_matrix.h"
// frozen reference (ref-flt): same API with the ref_ prefix
OpusProjectionEncoder* ref_opus_projection_ambisonics_encoder_create(opus_int32 Fs, int channels, int mapping_family, int* streams, int* coupled_streams, int application, int* error);
int ref_opus_projection_encode_float(OpusProjectionEncoder* st, const float* pcm, int frame_size, unsigned char* data, opus_int32 max_data_bytes);
int ref_opus_projection_encoder_ctl(OpusProjectionEncoder* st, int request, ...);
void ref_opus_projection_encoder_destroy(OpusProjectionEncoder* st);
OpusProjectionDecoder* ref_opus_projection_decoder_create(opus_int32 Fs, int channels, int streams, int coupled_streams, unsigned char* demixing_matrix, opus_int32 demixing_matrix_size, int* error);
int ref_opus_projection_decode_float(OpusProjectionDecoder* st, const unsigned char* data, opus_int32 len, float* pcm, int frame_size, int decode_fec);
int ref_opus_projection_decoder_ctl(OpusProjectionDecoder* st, int request, ...);
void ref_opus_projection_decoder_destroy(OpusProjectionDecoder* st);
}

using namespace vp;

const TargetInfo vp_info = {"c10_matrix", 4, 40};

// calibrated on the frozen reference (calib/C10.json): minimum per-channel round-trip SNR in dB
static const double SNR_FLOOR_DB = 18.0;
static const double SNR_REL_DB = 6.0;      // the tree may be at most this much below the frozen codec on the same input
static const double IDENTITY_TOL = 1e-3;

struct Mix { const MappingMatrix* m; const opus_int16* data; };
static Mix mixing_of(int order) {
  switch (order) {
    case 1: return {&mapping_matrix_foa_mixing, mapping_matrix_foa_mixing_data};
    case 2: return {&mapping_matrix_soa_mixing, mapping_matrix_soa_mixing_data};
    case 3: return {&mapping_matrix_toa_mixing, mapping_matrix_toa_mixing_data};
    case 4: return {&mapping_matrix_fourthoa_mixing, mapping_matrix_fourthoa_mixing_data};
    default: return {&mapping_matrix_fifthoa_mixing, mapping_matrix_fifthoa_mixing_data};
  }
}

extern "C" uint64_t vp_enum_count() { return 10; }
extern "C" void vp_enum_case(uint64_t idx, std::vector<uint8_t>& out) {
  out.clear(); out.push_back(0); out.push_back((uint8_t)(idx % 5)); out.push_back((uint8_t)(idx / 5));
}

static int check_identity(Choice& c, Report& rep) {
  int order = 1 + c.irange(0, 4);
  int nd = c.irange(0, 1) * 2;
  int channels = (order + 1) * (order + 1) + nd;
  rep.labelf("identity-order-%d%s", order, nd ? "+2" : "");
  rep.note("matrix identity: order %d channels %d", order, channels);
  rep.fingerprint(order * 2 + nd / 2); rep.nontrivial();
  int streams = 0, coupled = 0, err = 0;
  cu::ProjEnc e; e.p = opus_projection_ambisonics_encoder_create(48000, channels, 3, &streams, &coupled, OPUS_APPLICATION_AUDIO, &err);
  VP_REQUIRE(e.p && err == OPUS_OK, "c10:projection-rejects-legal", "create failed %d for %d channels", err, channels);
  int ncol = streams + coupled;
  opus_int32 msize = 0, gain = 0;
  VP_REQUIRE(opus_projection_encoder_ctl(e.p, OPUS_PROJECTION_GET_DEMIXING_MATRIX_SIZE(&msize)) == OPUS_OK && msize == 2 * channels * ncol, "c10:projection-matrix-size", "size %d", msize);
  VP_REQUIRE(opus_projection_encoder_ctl(e.p, OPUS_PROJECTION_GET_DEMIXING_MATRIX_GAIN(&gain)) == OPUS_OK, "c10:projection-matrix-gain", "gain request failed");
  HeapBuf<unsigned char> mb(msize);
  VP_REQUIRE(opus_projection_encoder_ctl(e.p, OPUS_PROJECTION_GET_DEMIXING_MATRIX(mb.p, msize)) == OPUS_OK, "c10:projection-matrix-get", "matrix request failed");
  Mix mx = mixing_of(order);
  VP_REQUIRE(mx.m->rows >= ncol && mx.m->cols >= channels, "c10:mixing-matrix-shape", "mixing matrix %dx%d for %d channels", mx.m->rows, mx.m->cols, channels);
  double g = std::pow(10.0, gain / (20.0 * 256.0)) * std::pow(10.0, mx.m->gain / (20.0 * 256.0));
  double worst_diag = 0, worst_off = 0;
  for (int r = 0; r < channels; r++) for (int cc = 0; cc < channels; cc++) {
    double p = 0;
    for (int k = 0; k < ncol; k++) {
      size_t di = (size_t)k * channels + r;                       // exported: column major, `channels` rows
      int dv = (int)(int16_t)(uint16_t)(mb.p[2 * di] | (mb.p[2 * di + 1] << 8));
      int mv = mx.data[(size_t)mx.m->rows * cc + k];               // mixing: column major, row k (stream channel), column cc (input channel)
      p += (dv / 32768.0) * (mv / 32768.0);
    }
    p *= g;
    double want = r == cc ? 1.0 : 0.0;
    double dev = std::fabs(p - want);
    if (r == cc) worst_diag = std::max(worst_diag, dev); else worst_off = std::max(worst_off, dev);
    rep.count();
    if (dev > IDENTITY_TOL)
      return rep.fail("c10:demixing-not-inverse", "order %d (%d channels, gain %d): (demixing * gain * mixing)[%d][%d] = %.6f, expected %.0f within %g", order, channels, gain, r, cc, p, want, IDENTITY_TOL);
  }
  rep.note("gain=%d worst |diag-1| = %.2e, worst |off-diagonal| = %.2e", gain, worst_diag, worst_off);
  return 0;
}

static double snr_db(const std::vector<float>& in, const std::vector<float>& out, int channels, int ch, int delay, int from, int to) {
  double se = 0, ss = 0;
  for (int i = from; i < to; i++) {
    double a = in[(size_t)(i - delay) * channels + ch], b = out[(size_t)i * channels + ch];
    ss += a * a; se += (a - b) * (a - b);
  }
  if (ss <= 0) return 99;
  if (se <= 1e-30) return 150;
  return 10 * std::log10(ss / se);
}

static int check_roundtrip(Choice& c, Report& rep) {
  static const int OW[5] = {10, 6, 3, 2, 1};
  int order = 1 + c.weighted(OW, 5);
  int nd = c.chance(90) ? 2 : 0;
  int channels = (order + 1) * (order + 1) + nd;
  int use16 = c.chance(80);
  uint32_t seed = c.u32();
  int nframes = 8;
  const int Fs = 48000, N = 960;
  rep.labelf("roundtrip-order-%d", order); rep.label(use16 ? "roundtrip-int16" : "roundtrip-float");
  rep.fingerprint(order * 2 + nd / 2); rep.fingerprint(seed); rep.fingerprint(use16); rep.nontrivial();
  // every channel: its own pair of tones plus a little noise, moderate level
  std::vector<float> x((size_t)nframes * N * channels);
  Rng r(seed);
  for (int k = 0; k < channels; k++) {
    double f1 = 150 + 3800.0 * r.unit(), f2 = 300 + 6000.0 * r.unit(), p1 = r.unit() * 6.28, p2 = r.unit() * 6.28, a = 0.05 + 0.07 * r.unit();
    for (int i = 0; i < nframes * N; i++) x[(size_t)i * channels + k] = (float)(a * std::sin(2 * M_PI * f1 * i / Fs + p1) + 0.6 * a * std::sin(2 * M_PI * f2 * i / Fs + p2) + 0.05 * a * r.sym());
  }
  if (use16) { std::vector<opus_int16> q; sig::to_int16(x, q); for (size_t i = 0; i < x.size(); i++) x[i] = q[i] / 32768.f; }
  double tree_snr[40], ref_snr[40];
  for (int which = 0; which < 2; which++) {     // 0: tree, 1: frozen reference
    int streams = 0, coupled = 0, err = 0;
    OpusProjectionEncoder* e = which ? ref_opus_projection_ambisonics_encoder_create(Fs, channels, 3, &streams, &coupled, OPUS_APPLICATION_AUDIO, &err)
                                     : opus_projection_ambisonics_encoder_create(Fs, channels, 3, &streams, &coupled, OPUS_APPLICATION_AUDIO, &err);
    if (!e || err != OPUS_OK) return rep.fail("c10:harness-create", "projection encoder create failed (%d)", err);
#define ECTL(...) (which ? ref_opus_projection_encoder_ctl(e, __VA_ARGS__) : opus_projection_encoder_ctl(e, __VA_ARGS__))
#define DCTL(...) (which ? ref_opus_projection_decoder_ctl(d, __VA_ARGS__) : opus_projection_decoder_ctl(d, __VA_ARGS__))
    ECTL(OPUS_SET_BITRATE(OPUS_BITRATE_MAX));
    opus_int32 msize = 0, gain = 0, look = 0;
    ECTL(OPUS_PROJECTION_GET_DEMIXING_MATRIX_SIZE(&msize)); ECTL(OPUS_PROJECTION_GET_DEMIXING_MATRIX_GAIN(&gain)); ECTL(OPUS_GET_LOOKAHEAD(&look));
    HeapBuf<unsigned char> mb(msize);
    ECTL(OPUS_PROJECTION_GET_DEMIXING_MATRIX(mb.p, msize));
    OpusProjectionDecoder* d = which ? ref_opus_projection_decoder_create(Fs, channels, streams, coupled, mb.p, msize, &err) : opus_projection_decoder_create(Fs, channels, streams, coupled, mb.p, msize, &err);
    if (!d || err != OPUS_OK) { if (which) ref_opus_projection_encoder_destroy(e); else opus_projection_encoder_destroy(e); return rep.fail("c10:harness-create", "projection decoder create failed (%d)", err); }
    DCTL(OPUS_SET_GAIN(gain));
    std::vector<float> y((size_t)nframes * N * channels, 0.f);
    int bad = 0;
    for (int f = 0; f < nframes && !bad; f++) {
      HeapBuf<float> in((size_t)N * channels); memcpy(in.p, &x[(size_t)f * N * channels], sizeof(float) * N * channels);
      int maxb = 1500 * streams + 2500;
      HeapBuf<unsigned char> pk(maxb);
      int len = which ? ref_opus_projection_encode_float(e, in.p, N, pk.p, maxb) : opus_projection_encode_float(e, in.p, N, pk.p, maxb);
      if (len <= 0) { bad = len ? len : -100; break; }
      HeapBuf<unsigned char> pd(len); memcpy(pd.p, pk.p, len);
      HeapBuf<float> out((size_t)N * channels);
      int got;
      if (use16 && !which) {
        HeapBuf<opus_int16> o16((size_t)N * channels);
        got = opus_projection_decode(d, pd.p, len, o16.p, N, 0);
        for (size_t i = 0; i < (size_t)N * channels; i++) out.p[i] = o16.p[i] / 32768.f;
      } else got = which ? ref_opus_projection_decode_float(d, pd.p, len, out.p, N, 0) : opus_projection_decode_float(d, pd.p, len, out.p, N, 0);
      if (got != N) { bad = got ? got : -101; break; }
      memcpy(&y[(size_t)f * N * channels], out.p, sizeof(float) * N * channels);
      rep.count(2);
    }
    if (which) { ref_opus_projection_decoder_destroy(d); ref_opus_projection_encoder_destroy(e); } else { opus_projection_decoder_destroy(d); opus_projection_encoder_destroy(e); }
    if (bad) return rep.fail(which ? "c10:harness-reference-codec" : "c10:roundtrip-codec-error", "%s projection codec returned %d", which ? "frozen" : "tree", bad);
    for (int k = 0; k < channels; k++) (which ? ref_snr : tree_snr)[k] = snr_db(x, y, channels, k, look, 2 * N, nframes * N);
    if (!which) rep.note("roundtrip order %d channels %d gain %d lookahead %d %s", order, channels, gain, look, use16 ? "int16" : "float");
    if (rep.describing) for (int k = 0; k < channels; k++) rep.note("%s ch%d %.1f dB", which ? "ref" : "tree", k, (which ? ref_snr : tree_snr)[k]);
  }
  double mn = 1e9, mnref = 1e9;
  for (int k = 0; k < channels; k++) {
    mn = std::min(mn, tree_snr[k]); mnref = std::min(mnref, ref_snr[k]);
    if (tree_snr[k] < SNR_FLOOR_DB)
      return rep.fail("c10:roundtrip-channel-not-recovered", "order %d, %d channels: input channel %d comes back with %.1f dB SNR (floor %.1f dB, frozen codec %.1f dB)", order, channels, k, tree_snr[k], SNR_FLOOR_DB, ref_snr[k]);
    if (tree_snr[k] < ref_snr[k] - SNR_REL_DB)
      return rep.fail("c10:roundtrip-worse-than-reference", "order %d, %d channels: input channel %d comes back with %.1f dB SNR, the frozen codec gives %.1f dB on the same input", order, channels, k, tree_snr[k], ref_snr[k]);
  }
  rep.note("min SNR tree %.1f dB, frozen %.1f dB", mn, mnref);
  // calibration aid: histogram of the weakest channel of the frozen codec
  rep.labelf("ref-min-snr-%ddB", (int)(std::floor(mnref / 5.0) * 5));
  if (mnref < 26) rep.labelf("ref-min-snr-exact-%.1fdB-order-%d", std::floor(mnref * 2) / 2, order);
  return 0;
}

int vp_case(Choice& c, Report& rep) {
  if (c.byte() < 40) return check_identity(c, rep);
  return check_roundtrip(c, rep);
}
