// C15 shared helpers: host feature level (own cpuid reading), offset heap
// buffers with an exact end, data classes.
#pragma once
#include <cpuid.h>
#include <cfloat>
#include <cmath>
#include <cstdint>
#include <cstdlib>
#include <cstring>
#include <string>
#include <vector>
#include "vp.hpp"

extern "C" int opus_verif_arch_cap;   // XIPH_OPUS_VERIF hook: 0 = plain C .. 4 = AVX2, 255 = no cap
extern "C" int opus_select_arch(void);

namespace c15 {

static const char* const LEVEL_NAME[5] = {"c", "sse", "sse2", "sse4_1", "avx2"};

// The ladder documented in celt/x86/x86cpu.c: SSE -> SSE2 -> SSE4.1 -> AVX2 (needs AVX+FMA+AVX2),
// read here independently with cpuid; additionally the OS must have enabled the AVX state.
inline int cpuid_ladder() {
  unsigned a = 0, b = 0, c = 0, d = 0;
  if (!__get_cpuid_count(0, 0, &a, &b, &c, &d) || a < 1) return 0;
  unsigned nids = a;
  __get_cpuid_count(1, 0, &a, &b, &c, &d);
  bool sse = d & (1u << 25), sse2 = d & (1u << 26), sse41 = c & (1u << 19), avx = c & (1u << 28), fma = c & (1u << 12);
  bool avx2 = false;
  if (avx && fma && nids >= 7) { unsigned a7, b7, c7, d7; __get_cpuid_count(7, 0, &a7, &b7, &c7, &d7); avx2 = b7 & (1u << 5); }
  if (!sse) return 0;
  if (!sse2) return 1;
  if (!sse41) return 2;
  if (!avx2) return 3;
  return 4;
}

// highest level whose instructions this process may execute
inline int usable_level() {
  int l = cpuid_ladder();
  __builtin_cpu_init();
  if (l >= 4 && !(__builtin_cpu_supports("avx2") && __builtin_cpu_supports("fma"))) l = 3;   // OS without AVX state
  if (l >= 3 && !__builtin_cpu_supports("sse4.1")) l = 2;
  if (l >= 2 && !__builtin_cpu_supports("sse2")) l = 1;
  if (l >= 1 && !__builtin_cpu_supports("sse")) l = 0;
  return l;
}

inline int host_level() { static int l = usable_level(); return l; }

inline const char* levels_label() {
  static std::string s;
  if (s.empty()) {
    s = "levels_available:";
    for (int l = 0; l <= host_level(); l++) { if (l) s += "+"; s += LEVEL_NAME[l]; }
    if (host_level() < 4) { s += " unavailable:"; for (int l = host_level() + 1; l <= 4; l++) { s += LEVEL_NAME[l]; if (l < 4) s += "+"; } }
  }
  return s.c_str();
}

// n elements at offset `off` (elements) inside a malloc block of exactly off+n
// elements: the misalignment is off*sizeof(T) mod 16 and the ASan red zone
// starts right behind element n-1.  (Accesses before p are only caught when off==0.)
template <class T>
struct OffBuf {
  T* base; T* p; size_t n;
  OffBuf(size_t count, int off) : n(count) {
    size_t tot = (size_t)off + count;
    base = (T*)malloc(tot ? tot * sizeof(T) : 1);
    if (tot) memset(base, 0, tot * sizeof(T));
    p = base + off;
  }
  OffBuf(const OffBuf&) = delete;
  OffBuf& operator=(const OffBuf&) = delete;
  ~OffBuf() { free(base); }
  T& operator[](size_t i) { return p[i]; }
};

// ---- data classes -----------------------------------------------------------
enum { F_GAUSS = 0, F_FULLSCALE, F_UNIT, F_TINY, F_DENORM, F_MIXED, F_SPARSE, F_CONST, F_ALT, F_ZERO, F_NCLASS };
static const char* const FCLASS_NAME[F_NCLASS] = {"gauss", "fullscale", "unit", "tiny", "denormal", "mixed-exponent", "sparse", "const", "alternating", "zero"};

inline void fill_f(float* p, size_t n, int cls, vp::Rng& r) {
  float cst = (float)(r.sym() * 32768.0);
  for (size_t i = 0; i < n; i++) {
    double v = 0;
    switch (cls) {
      case F_GAUSS: v = r.gauss() * 3000.0; break;
      case F_FULLSCALE: v = (r.next() & 1) ? 32768.0 : -32768.0; if ((r.next() & 7) == 0) v = r.sym() * 32768.0; break;
      case F_UNIT: v = r.sym(); break;
      case F_TINY: v = r.sym() * 1e-30; break;
      case F_DENORM: v = r.sym() * 1e-39; if ((r.next() & 3) == 0) v = (r.next() & 1) ? 1.4e-45 : -1.4e-45; break;
      case F_MIXED: v = std::ldexp(r.sym(), r.range(-100, 15)); break;
      case F_SPARSE: v = (r.next() % 7 == 0) ? r.sym() * 32768.0 : 0.0; break;
      case F_CONST: v = cst; break;
      case F_ALT: v = (i & 1) ? -32768.0 : 32768.0; break;
      default: v = 0; break;
    }
    p[i] = (float)v;
  }
}

enum { I_GAUSS = 0, I_FULL, I_SMALL, I_ZERO, I_ALTMAX, I_MIN, I_SPARSEMAX, I_UNIFORM, I_NCLASS };
static const char* const ICLASS_NAME[I_NCLASS] = {"gauss", "fullscale", "small", "zero", "alternating-max", "int16-min", "sparse-max", "uniform"};

inline short sat16(double v) { return (short)(v > 32767 ? 32767 : v < -32768 ? -32768 : v); }

inline void fill_i16(short* p, size_t n, int cls, vp::Rng& r) {
  for (size_t i = 0; i < n; i++) {
    int v = 0;
    switch (cls) {
      case I_GAUSS: v = sat16(r.gauss() * 4000.0); break;
      case I_FULL: v = (r.next() & 1) ? 32767 : -32768; if ((r.next() & 7) == 0) v = r.range(-32768, 32767); break;
      case I_SMALL: v = r.range(-3, 3); break;
      case I_ZERO: v = 0; break;
      case I_ALTMAX: v = (i & 1) ? -32768 : 32767; break;
      case I_MIN: v = -32768; break;
      case I_SPARSEMAX: v = (r.next() % 9 == 0) ? ((r.next() & 1) ? 32767 : -32768) : r.range(-20, 20); break;
      default: v = r.range(-32768, 32767); break;
    }
    p[i] = (short)v;
  }
}

// small-biased length in [lo,hi]
inline int gen_len(vp::Choice& c, int lo, int hi) {
  int k = c.irange(0, 9), v;
  if (k < 5) v = lo + c.irange(0, 48);
  else if (k < 8) v = lo + c.irange(0, 300);
  else v = c.irange(lo, hi);
  return v > hi ? hi : v;
}

// |a-b| bound for two evaluation orders (with or without fused multiply-add) of a
// sum of n rounded terms whose absolute values add up to sum_abs: each order is within
// gamma_n*sum_abs of the exact value (gamma_n ~ n*2^-24), so the two differ by at most
// ~ n*eps*sum_abs with eps=2^-23; the check allows 4x that plus the underflow floor.
inline double reassoc_tol(int n_terms, double sum_abs) {
  return 4.0 * (double)(n_terms < 1 ? 1 : n_terms) * (double)FLT_EPSILON * sum_abs + (double)(n_terms + 1) * 1.5e-45;
}

}  // namespace c15
