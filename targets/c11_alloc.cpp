// C11 (allocation failure): every creation function is run once with
// allocation counting and then once per allocation it performs with exactly
// that allocation failing (link option -Wl,--wrap=malloc; opus_alloc is an
// inline wrapper around malloc).  Oracle: NULL result, *error ==
// OPUS_ALLOC_FAIL, nothing left allocated, no crash; with no failure armed the
// object is created and destroying it releases every block it allocated.
// The failure counter is armed only around the library call, so allocations
// of the harness or the sanitizer run-time are never failed.
#include "vp.hpp"
#include "common.hpp"
#include "codec_util.hpp"
#include <set>
#include <sanitizer/asan_interface.h>

using namespace vp;
const TargetInfo vp_info = {"c11_alloc", 4, 24};

extern "C" void* __real_malloc(size_t);
static bool g_armed = false;
static long g_count = 0, g_fail_at = -1, g_failed = 0;
static void* g_live[64]; static int g_nlive = 0;     // blocks handed out while armed
extern "C" void* __wrap_malloc(size_t n) {
  if (!g_armed) return __real_malloc(n);
  long k = g_count++;
  if (k == g_fail_at) { g_failed++; return nullptr; }
  void* p = __real_malloc(n);
  if (p && g_nlive < 64) g_live[g_nlive++] = p;
  return p;
}
static void arm(long fail_at) { g_count = 0; g_fail_at = fail_at; g_failed = 0; g_nlive = 0; g_armed = true; }
static void disarm() { g_armed = false; }

struct Spec { int fn, Fs, channels, app, family, streams, coupled; };
static const char* const FN_NAME[7] = {"opus_encoder_create", "opus_decoder_create", "opus_multistream_encoder_create", "opus_multistream_surround_encoder_create",
                                       "opus_multistream_decoder_create", "opus_projection_ambisonics_encoder_create", "opus_projection_decoder_create"};

// runs the creation function; returns the object (or NULL) and the error code
static void* call_create(const Spec& s, int* err, const unsigned char* map, unsigned char* mapout, unsigned char* matrix, int matrix_size) {
  int st = -1, cp = -1;
  switch (s.fn) {
    case 0: return opus_encoder_create(s.Fs, s.channels, s.app, err);
    case 1: return opus_decoder_create(s.Fs, s.channels, err);
    case 2: return opus_multistream_encoder_create(s.Fs, s.channels, s.streams, s.coupled, map, s.app, err);
    case 3: return opus_multistream_surround_encoder_create(s.Fs, s.channels, s.family, &st, &cp, mapout, s.app, err);
    case 4: return opus_multistream_decoder_create(s.Fs, s.channels, s.streams, s.coupled, map, err);
    case 5: return opus_projection_ambisonics_encoder_create(s.Fs, s.channels, 3, &st, &cp, s.app, err);
    default: return opus_projection_decoder_create(s.Fs, s.channels, s.streams, s.coupled, matrix, matrix_size, err);
  }
}
static void destroy(int fn, void* p) {
  switch (fn) {
    case 0: opus_encoder_destroy((OpusEncoder*)p); break;
    case 1: opus_decoder_destroy((OpusDecoder*)p); break;
    case 2: case 3: opus_multistream_encoder_destroy((OpusMSEncoder*)p); break;
    case 4: opus_multistream_decoder_destroy((OpusMSDecoder*)p); break;
    case 5: opus_projection_encoder_destroy((OpusProjectionEncoder*)p); break;
    default: opus_projection_decoder_destroy((OpusProjectionDecoder*)p); break;
  }
}

int vp_case(Choice& c, Report& rep) {
  Spec s;
  s.fn = c.irange(0, 6);
  s.Fs = cu::RATES[4 - c.irange(0, 4)];
  s.app = cu::APPS[(c.irange(0, 2) + 1) % 3];
  int sel = c.irange(0, 5);
  bool null_err = c.chance(40);
  s.family = 0; s.streams = 1; s.coupled = 0; s.channels = 1 + (sel & 1);
  if (s.fn == 2 || s.fn == 4) { static const int L[6][2] = {{1, 0}, {1, 1}, {2, 1}, {2, 2}, {3, 0}, {4, 2}}; s.streams = L[sel][0]; s.coupled = L[sel][1]; s.channels = s.streams + s.coupled; }
  if (s.fn == 3) { static const int F[6][2] = {{0, 1}, {0, 2}, {1, 3}, {1, 6}, {255, 4}, {2, 6}}; s.family = F[sel][0]; s.channels = F[sel][1]; }
  if (s.fn == 5 || s.fn == 6) { static const int N[6] = {4, 6, 9, 11, 16, 4}; s.channels = N[sel]; s.streams = (s.channels + 1) / 2; s.coupled = s.channels / 2; }
  HeapBuf<unsigned char> map(s.channels), mapout(s.channels);
  for (int i = 0; i < s.channels; i++) map[i] = (unsigned char)i;
  int msz = 2 * s.channels * (s.streams + s.coupled);
  HeapBuf<unsigned char> matrix(msz); for (int i = 0; i < msz; i++) matrix[i] = (unsigned char)((i & 1) ? 0x08 : 0);
  rep.labelf("fn:%s", FN_NAME[s.fn]);
  rep.note("%s Fs=%d channels=%d app=%d family=%d streams=%d coupled=%d null_error=%d", FN_NAME[s.fn], s.Fs, s.channels, s.app, s.family, s.streams, s.coupled, null_err);
  rep.fingerprint(mix(mix(s.fn * 8 + sel, s.Fs), s.app * 2 + null_err));

  // pass 0: count the allocations of a successful creation
  int err = -99;
  arm(-1);
  void* obj = call_create(s, &err, map.p, mapout.p, matrix.p, msz);
  disarm();
  long nalloc = g_count; int nlive = g_nlive;
  rep.count();
  VP_REQUIRE(obj && err == OPUS_OK, "c11:create-legal-rejected", "%s returned %p, error %d without any injected failure", FN_NAME[s.fn], obj, err);
  VP_REQUIRE(nalloc >= 1, "c11:alloc-not-intercepted", "%s performed no interceptable allocation", FN_NAME[s.fn]);
  void* blocks[64]; for (int i = 0; i < nlive; i++) blocks[i] = g_live[i];
  // every block allocated during creation and still alive must be owned by the object: destroy() is required to free them (ASan
  // reports a double free / leak otherwise).  Blocks other than the object itself would leak on destroy; the library allocates one.
  VP_REQUIRE(nlive == 1 && blocks[0] == obj, "c11:create-extra-allocations", "%s left %d live blocks (object %p, first %p)", FN_NAME[s.fn], nlive, obj, nlive ? blocks[0] : nullptr);
  destroy(s.fn, obj);
  rep.labelf("allocations:%ld", nalloc);

  // pass k: fail the k-th allocation
  for (long k = 0; k < nalloc; k++) {
    err = -99;
    arm(k);
    void* o2 = call_create(s, null_err ? nullptr : &err, map.p, mapout.p, matrix.p, msz);
    disarm();
    rep.count();
    int live = g_nlive; long failed = g_failed;
    if (o2) destroy(s.fn, o2);
    VP_REQUIRE(failed == 1, "c11:alloc-failure-not-reached", "%s: allocation %ld of %ld was not requested again", FN_NAME[s.fn], k, nalloc);
    VP_REQUIRE(o2 == nullptr, "c11:alloc-failure-ignored", "%s returned an object although allocation %ld failed", FN_NAME[s.fn], k);
    if (!null_err) VP_REQUIRE(err == OPUS_ALLOC_FAIL, "c11:alloc-failure-wrong-error", "%s: error %d after allocation %ld failed, expected OPUS_ALLOC_FAIL", FN_NAME[s.fn], err, k);
    // nothing the call allocated before or after the failing allocation may stay behind: it returned NULL, so nobody can free it
    if (live != 0) {
      // blocks are recorded when handed out; a block freed again by the library is still in the list, so ask the allocator
      int leaked = 0;
      for (int i = 0; i < live; i++) if (__asan_address_is_poisoned(g_live[i]) == 0) leaked++;
      VP_REQUIRE(leaked == 0, "c11:alloc-failure-leak", "%s: %d block(s) still allocated after a failed creation (allocation %ld of %ld failed)", FN_NAME[s.fn], leaked, k, nalloc);
    }
    rep.label("failure-injected");
  }
  rep.nontrivial();
  return 0;
}

// the whole argument space of this target is finite: 7 functions x 5 rates x 3 applications x 6 layouts x {error pointer, NULL}
extern "C" uint64_t vp_enum_count() { return 7ull * 5 * 3 * 6 * 2; }
extern "C" void vp_enum_case(uint64_t idx, std::vector<uint8_t>& out) {
  out.clear();
  out.push_back((uint8_t)(idx % 7)); idx /= 7;
  out.push_back((uint8_t)(idx % 5)); idx /= 5;
  out.push_back((uint8_t)(idx % 3)); idx /= 3;
  out.push_back((uint8_t)(idx % 6)); idx /= 6;
  out.push_back(idx ? 0 : 255);
}
