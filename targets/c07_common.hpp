// Shared by the C07 targets: packet generation from choices (valid packets of
// every framing shape with plain / extension / arbitrary padding, plus invalid
// mutations), the canonical (unpadded) form of a frame list, frame comparison.
#pragma once
#include <memory>
#include "c16_ext.hpp"

namespace pk {

using xm::MExt; using xm::ExtList; using xm::PerFrame;

static const uint8_t CONFIGS[] = {16, 24, 28, 17, 29, 18, 30, 19, 31, 0, 1, 9, 13, 15, 2, 3, 11};

inline int frame_len(vp::Choice& c, int cap) {
  static const int B[] = {0, 1, 2, 250, 251, 252, 253, 254, 255, 256, 257, 508, 509, 637, 638, 1000, 1274, 1275};
  int L = c.chance(176) ? c.irange(0, 12) : c.chance(128) ? c.pick(B) : c.irange(0, 1275);
  if (L > cap) L %= (cap + 1);
  return L;
}

struct Made {
  std::vector<uint8_t> bytes;
  const char* pad_kind = "none";
  bool mutated = false;
};

inline MExt any_ext(vp::Choice& c, vp::Rng& rng, int frame) {
  MExt e; e.frame = frame;
  int sel = c.byte();
  if (sel & 1) { e.id = 3 + (sel >> 2) % 29; xm::fill_payload(e.data, (sel >> 1) & 1, rng, (uint8_t)(sel + frame)); }
  else {
    e.id = 32 + (sel >> 1) % 96;
    static const int LL[] = {120, 250, 253, 254, 255, 256, 509, 510, 1000, 1300, 2600};
    int L = c.chance(208) ? c.irange(0, 9) : c.pick(LL);
    xm::fill_payload(e.data, L, rng, (uint8_t)(sel + 3 * frame));
  }
  return e;
}

// A packet from the choices.  `toc_hi`: configuration bits; `max_frames`: how
// many frames of this duration fit into 120 ms.  With allow_invalid the result
// may violate the RFC (count 0, > 120 ms, truncated, ...).
inline Made make_packet(vp::Choice& c, vp::Rng& rng, uint8_t toc_hi, int max_frames, bool self_delim, bool allow_invalid) {
  Made out;
  rfc::Spec s;
  s.toc_hi = toc_hi;
  static const int CW[] = {2, 1, 1, 4};
  s.code = c.weighted(CW, 4);
  int M = s.code == 0 ? 1 : s.code < 3 ? 2 : c.chance(176) ? c.irange(1, std::min(max_frames, 6)) : c.irange(1, max_frames);
  if (M > max_frames && !allow_invalid) { M = max_frames; if (s.code != 3) s.code = M == 1 ? 0 : s.code; }
  if (allow_invalid && s.code == 3 && c.chance(6)) M = c.chance(128) ? max_frames + 1 : c.irange(1, 63);
  s.vbr = c.boolean();
  bool cbr_shape = s.code == 1 || (s.code == 3 && !s.vbr) || c.chance(40);
  int cap = M > 24 ? 60 : M > 8 ? 300 : 1275;
  int common = frame_len(c, cap);
  for (int i = 0; i < M; i++) {
    int L = cbr_shape ? common : frame_len(c, cap);
    std::vector<uint8_t> f((size_t)L);
    for (auto& b : f) b = (uint8_t)rng.next();
    if (L) f[0] = (uint8_t)(c.byte() | 1);
    s.frames.push_back(std::move(f));
  }
  if (s.code == 3) {
    int pk = c.irange(0, 9);
    static const int P[] = {1, 2, 3, 253, 254, 255, 256, 257, 509, 510, 511, 765, 1000};
    if (pk < 3) out.pad_kind = "none";
    else if (pk < 5) { s.pad_len_bytes = c.chance(128) ? c.pick(P) : c.irange(1, 1200); out.pad_kind = "zeros"; }
    else if (pk < 8) {
      // extension payload
      ExtList l;
      int n = c.chance(200) ? c.irange(1, 3) : c.irange(1, 10);
      for (int i = 0; i < n; i++) l.push_back(any_ext(c, rng, c.irange(0, M - 1)));
      xm::ExtArray arr(l, false);
      opus_int32 sz = M <= 48 ? opus_packet_extensions_generate(NULL, 1 << 30, arr.ptr(), arr.n(), M, 0) : -1;
      if (sz >= 0) {
        int ones = c.chance(48) ? c.irange(1, 260) : 0;
        s.pad_data.resize((size_t)sz + (size_t)ones);
        if (!s.pad_data.empty()) opus_packet_extensions_generate(s.pad_data.data(), (opus_int32)s.pad_data.size(), arr.ptr(), arr.n(), M, ones ? 1 : 0);
        s.pad_len_bytes = xm::pad_total_for_data((int)s.pad_data.size());
        out.pad_kind = "extensions";
      }
    } else if (pk < 9) {
      int n = c.chance(160) ? c.irange(1, 8) : c.irange(1, 300);
      s.pad_data.resize((size_t)n);
      for (auto& b : s.pad_data) b = c.chance(128) ? c.byte() : (uint8_t)rng.next();
      s.pad_len_bytes = xm::pad_total_for_data(n);
      out.pad_kind = "arbitrary";
    } else {
      int n = c.irange(1, 300);
      s.pad_data.assign((size_t)n, 0x01);
      s.pad_len_bytes = xm::pad_total_for_data(n);
      out.pad_kind = "ones";
    }
  }
  if (!rfc::serialize(s, self_delim, out.bytes)) {
    // unequal frames in a CBR shape: fall back to VBR / code 2
    if (s.code == 1) s.code = 2; else s.vbr = true;
    rfc::serialize(s, self_delim, out.bytes);
  }
  if (allow_invalid && c.chance(40)) {
    out.mutated = true;
    int k = c.irange(1, 2);
    for (int i = 0; i < k; i++) {
      int what = c.irange(0, 3);
      if (out.bytes.empty()) break;
      if (what == 0) out.bytes[(size_t)c.irange(0, std::min<int>((int)out.bytes.size() - 1, 6))] = c.byte();
      else if (what == 1) { int cut = c.irange(1, 3); out.bytes.resize(out.bytes.size() > (size_t)cut ? out.bytes.size() - (size_t)cut : 0); }
      else if (what == 2) out.bytes.insert(out.bytes.end(), (size_t)c.irange(1, 3), c.byte());
      else out.bytes[(size_t)c.irange(0, std::min<int>((int)out.bytes.size() - 1, 6))] ^= (uint8_t)(1 << c.irange(0, 7));
    }
  }
  return out;
}

// The canonical framing of a frame list (what unpad must produce): code 0 for
// one frame, code 1 / 2 for two, code 3 CBR / VBR otherwise, never padding.
inline void canonical(uint8_t toc_hi, const std::vector<std::vector<uint8_t>>& frames, bool self_delim, std::vector<uint8_t>& out) {
  rfc::Spec s; s.toc_hi = toc_hi; s.frames = frames;
  bool equal = true;
  for (auto& f : frames) if (f.size() != frames[0].size()) equal = false;
  if (frames.size() == 1) s.code = 0;
  else if (frames.size() == 2) s.code = equal ? 1 : 2;
  else { s.code = 3; s.vbr = !equal; }
  rfc::serialize(s, self_delim, out);
}

inline std::vector<std::vector<uint8_t>> frames_of(const uint8_t* d, const rfc::Parsed& m) {
  std::vector<std::vector<uint8_t>> v;
  for (int i = 0; i < m.count; i++) v.emplace_back(d + m.offset[i], d + m.offset[i] + m.size[i]);
  return v;
}

inline int frames_differ(const uint8_t* a, const rfc::Parsed& ma, const uint8_t* b, const rfc::Parsed& mb) {
  if (ma.count != mb.count) return 1000;
  for (int i = 0; i < ma.count; i++) {
    if (ma.size[i] != mb.size[i]) return i + 1;
    if (ma.size[i] && memcmp(a + ma.offset[i], b + mb.offset[i], (size_t)ma.size[i])) return i + 1;
  }
  return 0;
}

}  // namespace pk
