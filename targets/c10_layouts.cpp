// C10 (clause 3): layouts.  opus_multistream_surround_encoder_create returns the prescribed layout for
// mapping families 0, 1 (RFC 7845 s5.1.1.1/5.1.1.2), 2 (RFC 8486 s3.1) and 255, the projection encoder the
// RFC 8486 s3.2 (family 3) stream counts; illegal (family, channels) pairs give NULL and an error code; the
// plain multistream encoder / decoder accept exactly the valid layouts (channels 1..255, streams, coupled
// streams, mapping entries < streams+coupled or 255; encoders additionally need every stream channel fed and
// streams+coupled <= channels) and reject the others with OPUS_BAD_ARG.
//
// The expected tables below are written from the RFC text (doc/draft-ietf-codec-oggopus.xml: Vorbis channel
// order) and the conventional Ogg Opus stream assignment (left/right pairs -> coupled streams, first; centre,
// rear-centre and LFE -> mono streams, LFE last), not copied from src/opus_multistream_encoder.c.
#include "codec_util.hpp"
#include "common.hpp"
#include "c10_ms_util.hpp"
#include "vp.hpp"

using namespace vp;

const TargetInfo vp_info = {"c10_layouts", 4, 300};

// ---- expected layouts ------------------------------------------------------------
struct Expected { int streams, coupled; unsigned char mapping[8]; };
// speaker order per RFC 7845 5.1.1.2:            stream channel index of each speaker
static const Expected FAMILY1[8] = {
    {1, 0, {0}},                            // mono
    {1, 1, {0, 1}},                         // L R
    {2, 1, {0, 2, 1}},                      // L C R            : (L,R) coupled, C mono
    {2, 2, {0, 1, 2, 3}},                   // FL FR RL RR       : (FL,FR) (RL,RR)
    {3, 2, {0, 4, 1, 2, 3}},                // FL C FR RL RR     : (FL,FR) (RL,RR) C
    {4, 2, {0, 4, 1, 2, 3, 5}},             // FL C FR RL RR LFE : (FL,FR) (RL,RR) C LFE
    {4, 3, {0, 4, 1, 2, 3, 5, 6}},          // FL C FR SL SR RC LFE : (FL,FR) (SL,SR) (C,RC) LFE
    {5, 3, {0, 6, 1, 2, 3, 4, 5, 7}},       // FL C FR SL SR RL RR LFE : (FL,FR) (SL,SR) (RL,RR) C LFE
};
// left/right speaker pairs (positions in the Vorbis order) that must share one coupled stream, left first
static const int PAIRS[8][3][2] = {
    {{-1, -1}, {-1, -1}, {-1, -1}}, {{0, 1}, {-1, -1}, {-1, -1}}, {{0, 2}, {-1, -1}, {-1, -1}}, {{0, 1}, {2, 3}, {-1, -1}},
    {{0, 2}, {3, 4}, {-1, -1}},     {{0, 2}, {3, 4}, {-1, -1}},   {{0, 2}, {3, 4}, {-1, -1}},   {{0, 2}, {3, 4}, {5, 6}}};
static const int LFE_POS[8] = {-1, -1, -1, -1, -1, 5, 6, 7};

static bool ambisonics_channels(int ch, int& order_plus_one, int& nondiegetic) {
  // RFC 8486: (n+1)^2 + 2j, n = 0..14, j = 0 or 1
  for (int n = 0; n <= 14; n++) for (int j = 0; j <= 1; j++) if (ch == (n + 1) * (n + 1) + 2 * j) { order_plus_one = n + 1; nondiegetic = 2 * j; return true; }
  return false;
}

// validity of a layout per the API documentation
static bool valid_decoder_layout(int channels, int streams, int coupled, const unsigned char* mapping) {
  if (channels < 1 || channels > 255) return false;
  if (streams < 1 || coupled < 0 || coupled > streams) return false;
  if (streams + coupled > 255) return false;
  for (int i = 0; i < channels; i++) if (mapping[i] != 255 && mapping[i] >= streams + coupled) return false;
  return true;
}
static bool valid_encoder_layout(int channels, int streams, int coupled, const unsigned char* mapping) {
  if (!valid_decoder_layout(channels, streams, coupled, mapping)) return false;
  if (streams + coupled > channels) return false;
  for (int m = 0; m < streams + coupled; m++) { bool fed = false; for (int i = 0; i < channels; i++) if (mapping[i] == m) fed = true; if (!fed) return false; }
  return true;
}
static bool defined_error(int e) { return e <= -1 && e >= -7; }

static const int FAMS[5] = {1, 0, 2, 255, 3};

// ---- enumeration: every (family, channels) pair for both creation functions --------
static const uint64_t NCH = 258;   // channels 0..257
extern "C" uint64_t vp_enum_count() { return 2ull * 256 * NCH; }
extern "C" void vp_enum_case(uint64_t idx, std::vector<uint8_t>& out) {
  int ch = (int)(idx % NCH); idx /= NCH;
  int fam = (int)(idx % 256); idx /= 256;
  out.clear();
  out.push_back((uint8_t)idx);        // mode 0 surround, 1 projection
  out.push_back(200); out.push_back((uint8_t)fam);
  out.push_back(200); out.push_back((uint8_t)(ch >> 8)); out.push_back((uint8_t)(ch & 255));
}

static void gen_family_channels(Choice& c, int& family, int& channels) {
  int b = c.byte();
  family = b < 128 ? FAMS[b % 5] : c.byte();
  int k = c.byte();
  if (k < 150) channels = c.irange(0, 39);
  else if (k < 230) channels = c.irange(0, 299);
  else { static const int S[10] = {-1, 0, 255, 256, 227, 228, 225, 226, 1000, -100}; channels = c.pick(S); }
}

static int check_surround(Choice& c, Report& rep) {
  int family, channels; gen_family_channels(c, family, channels);
  int Fs = cu::RATES[4 - c.irange(0, 4)];
  int app = cu::APPS[(c.irange(0, 2) + 1) % 3];
  rep.note("surround create: family=%d channels=%d Fs=%d app=%d", family, channels, Fs, app);
  rep.fingerprint(family * 1000 + channels); rep.fingerprint(Fs + app);
  int op1 = 0, nd = 0;
  bool legal = channels >= 1 && channels <= 255 &&
               ((family == 0 && channels <= 2) || (family == 1 && channels <= 8) || family == 255 || (family == 2 && ambisonics_channels(channels, op1, nd)));
  HeapBuf<unsigned char> mapping(channels > 0 ? (channels > 255 ? 255 : channels) : 0);
  int streams = -77, coupled = -77, err = 12345;
  cu::MSEnc e;
  e.p = opus_multistream_surround_encoder_create(Fs, channels, family, &streams, &coupled, mapping.p, app, &err);
  rep.count();
  opus_int32 sz = opus_multistream_surround_encoder_get_size(channels, family);
  if (!legal) {
    rep.label("surround-illegal");
    VP_REQUIRE(e.p == nullptr, "c10:surround-accepts-illegal", "family %d with %d channels is not defined, create returned an encoder (streams %d coupled %d)", family, channels, streams, coupled);
    VP_REQUIRE(defined_error(err) && (err == OPUS_BAD_ARG || err == OPUS_UNIMPLEMENTED), "c10:surround-error-code", "family %d channels %d: NULL with error %d", family, channels, err);
    if (channels < 1 || channels > 255) VP_REQUIRE(err == OPUS_BAD_ARG, "c10:surround-error-code", "channels %d outside 1..255: error %d, expected OPUS_BAD_ARG", channels, err);
    // (get_size is not asked to validate: it returns a size for family 255 with 256 channels, create still refuses)
    (void)sz;
    return 0;
  }
  rep.label("surround-legal"); rep.labelf("family-%d", family);
  rep.nontrivial(channels > 2);
  VP_REQUIRE(e.p != nullptr && err == OPUS_OK, "c10:surround-rejects-legal", "family %d with %d channels is defined, create returned %p error %d", family, channels, (void*)e.p, err);
  VP_REQUIRE(sz > 0, "c10:surround-size-legal", "get_size(%d, %d) = %d", channels, family, sz);
  int es, ec; unsigned char em[256];
  if (family == 0) { es = 1; ec = channels - 1; em[0] = 0; em[1] = 1; }
  else if (family == 1) { es = FAMILY1[channels - 1].streams; ec = FAMILY1[channels - 1].coupled; memcpy(em, FAMILY1[channels - 1].mapping, 8); }
  else if (family == 255) { es = channels; ec = 0; for (int i = 0; i < channels; i++) em[i] = (unsigned char)i; }
  else {
    // RFC 8486 family 2: every ambisonic (ACN) channel is its own mono stream, in order; the optional
    // non-diegetic stereo pair is one coupled stream; coupled streams come first in a multistream packet
    int acn = op1 * op1;
    ec = nd ? 1 : 0; es = acn + ec;
    for (int i = 0; i < acn; i++) em[i] = (unsigned char)(i + 2 * ec);
    if (nd) { em[acn] = 0; em[acn + 1] = 1; }
  }
  VP_REQUIRE(streams == es && coupled == ec, "c10:surround-stream-counts", "family %d channels %d: streams %d coupled %d, expected %d / %d", family, channels, streams, coupled, es, ec);
  for (int i = 0; i < channels; i++)
    VP_REQUIRE(mapping.p[i] == em[i], "c10:surround-mapping", "family %d channels %d: mapping[%d] = %d, expected %d", family, channels, i, mapping.p[i], em[i]);
  VP_REQUIRE(valid_encoder_layout(channels, streams, coupled, mapping.p), "c10:surround-layout-invalid", "returned layout is not a valid encoder layout");
  if (family == 1) {
    // structural reading of the speaker order, independent of the literal table
    for (int k = 0; k < 3; k++) {
      int l = PAIRS[channels - 1][k][0], r = PAIRS[channels - 1][k][1];
      if (l < 0) continue;
      VP_REQUIRE(mapping.p[l] % 2 == 0 && mapping.p[r] == mapping.p[l] + 1 && mapping.p[l] < 2 * coupled, "c10:surround-pairing", "%d channels: speakers %d/%d are a left/right pair but map to %d/%d", channels, l, r, mapping.p[l], mapping.p[r]);
    }
    if (LFE_POS[channels - 1] >= 0) VP_REQUIRE(mapping.p[LFE_POS[channels - 1]] == streams + coupled - 1 && coupled < streams, "c10:surround-lfe", "%d channels: LFE maps to %d, expected the last (mono) stream", channels, mapping.p[LFE_POS[channels - 1]]);
  }
  // the returned layout is accepted by the decoder and the plain encoder
  int derr = 0;
  cu::MSDec d; d.p = opus_multistream_decoder_create(Fs, channels, streams, coupled, mapping.p, &derr);
  VP_REQUIRE(d.p && derr == OPUS_OK, "c10:surround-layout-decoder", "decoder rejects the layout returned for family %d channels %d (%d)", family, channels, derr);
  return 0;
}

static int check_projection(Choice& c, Report& rep) {
  int family, channels; gen_family_channels(c, family, channels);
  int Fs = cu::RATES[4 - c.irange(0, 4)];
  rep.note("projection create: family=%d channels=%d Fs=%d", family, channels, Fs);
  rep.fingerprint(family * 1000 + channels + 7000000); rep.fingerprint(Fs);
  int op1 = 0, nd = 0;
  // family 3 is defined for every (n+1)^2 + 2j; this library carries matrices for orders 1..5
  bool defined = family == 3 && channels >= 1 && ambisonics_channels(channels, op1, nd);
  bool legal = defined && op1 >= 2 && op1 <= 6;
  int streams = -77, coupled = -77, err = 12345;
  cu::ProjEnc e;
  e.p = opus_projection_ambisonics_encoder_create(Fs, channels, family, &streams, &coupled, OPUS_APPLICATION_AUDIO, &err);
  rep.count();
  opus_int32 sz = opus_projection_ambisonics_encoder_get_size(channels, family);
  if (!legal) {
    rep.label(defined ? "projection-order-without-matrix" : "projection-illegal");
    VP_REQUIRE(e.p == nullptr, "c10:projection-accepts-illegal", "family %d with %d channels: create returned an encoder", family, channels);
    VP_REQUIRE(defined_error(err), "c10:projection-error-code", "family %d channels %d: NULL with error %d", family, channels, err);
    rep.labelf("projection-error:%d", err);
    VP_REQUIRE(sz == 0, "c10:projection-size-illegal", "get_size(%d, %d) = %d for an unsupported combination", channels, family, sz);
    return 0;
  }
  rep.label("projection-legal"); rep.nontrivial();
  VP_REQUIRE(e.p != nullptr && err == OPUS_OK, "c10:projection-rejects-legal", "family 3 with %d channels (order %d) is supported, create returned %p error %d", channels, op1 - 1, (void*)e.p, err);
  VP_REQUIRE(sz > 0, "c10:projection-size-legal", "get_size = %d", sz);
  // RFC 8486 3.2 leaves the split to the encoder; every channel must be coded (streams + coupled == channels)
  // and this encoder documents pairing as many channels as possible
  VP_REQUIRE(streams + coupled == channels && streams == (channels + 1) / 2 && coupled == channels / 2, "c10:projection-stream-counts", "%d channels: streams %d coupled %d", channels, streams, coupled);
  opus_int32 msize = -1;
  VP_REQUIRE(opus_projection_encoder_ctl(e.p, OPUS_PROJECTION_GET_DEMIXING_MATRIX_SIZE(&msize)) == OPUS_OK && msize == 2 * channels * (streams + coupled), "c10:projection-matrix-size", "demixing matrix size %d for %d channels", msize, channels);
  HeapBuf<unsigned char> mb(msize);
  VP_REQUIRE(opus_projection_encoder_ctl(e.p, OPUS_PROJECTION_GET_DEMIXING_MATRIX(mb.p, msize)) == OPUS_OK, "c10:projection-matrix-get", "GET_DEMIXING_MATRIX failed");
  HeapBuf<unsigned char> wrong(msize + 2);
  VP_REQUIRE(opus_projection_encoder_ctl(e.p, OPUS_PROJECTION_GET_DEMIXING_MATRIX(wrong.p, msize + 2)) == OPUS_BAD_ARG, "c10:projection-matrix-wrong-size", "GET_DEMIXING_MATRIX accepted a wrong size");
  int derr = 0;
  cu::ProjDec d; d.p = opus_projection_decoder_create(Fs, channels, streams, coupled, mb.p, msize, &derr);
  VP_REQUIRE(d.p && derr == OPUS_OK, "c10:projection-decoder-create", "projection decoder rejects the exported matrix (%d)", derr);
  cu::ProjDec d2; d2.p = opus_projection_decoder_create(Fs, channels, streams, coupled, mb.p, msize - 2, &derr);
  VP_REQUIRE(d2.p == nullptr && derr == OPUS_BAD_ARG, "c10:projection-decoder-wrong-size", "projection decoder accepted a matrix of the wrong size (%d)", derr);
  return 0;
}

static int check_plain(Choice& c, Report& rep) {
  static const int CH[14] = {1, 2, 3, 4, 5, 6, 8, 0, -1, 254, 255, 256, 300, 40};
  static const int ST[14] = {1, 2, 3, 4, 5, 0, -1, 127, 128, 129, 254, 255, 256, 20};
  int channels = c.chance(190) ? 1 + c.irange(0, 9) : c.pick(CH);
  int streams = c.chance(190) ? 1 + c.irange(0, 4) : c.pick(ST);
  int ck = c.byte();
  int coupled = ck < 200 ? (streams > 0 ? c.irange(0, streams) : 0) : ck < 225 ? streams + 1 : ck < 240 ? -1 : c.irange(0, 256);
  int n = streams + coupled;
  int buflen = channels > 0 ? (channels > 255 ? 256 : channels) : 0;
  HeapBuf<unsigned char> mapping(buflen);
  int mode = c.irange(0, 3);
  for (int i = 0; i < buflen; i++) {
    int k = c.byte();
    int v;
    if (n <= 0) v = k;
    else if (mode == 0) v = i % n;                                   // covers every stream channel when channels >= n
    else if (mode == 1) v = k < 30 ? 255 : k < 50 ? n : k % n;          // sometimes exactly one past the end
    else if (mode == 2) v = (i < n) ? (n - 1 - i) : (k < 128 ? 255 : k % n);
    else v = k;
    mapping.p[i] = (unsigned char)v;
  }
  int Fs = cu::RATES[4 - c.irange(0, 4)];
  bool vd = valid_decoder_layout(channels, streams, coupled, mapping.p);
  bool ve = valid_encoder_layout(channels, streams, coupled, mapping.p);
  msu::Layout L; L.channels = buflen; L.streams = streams; L.coupled = coupled; if (buflen) memcpy(L.mapping, mapping.p, buflen > 255 ? 255 : buflen);
  rep.note("plain create: channels=%d %s Fs=%d -> decoder %s, encoder %s", channels, msu::layout_str(L).c_str(), Fs, vd ? "valid" : "invalid", ve ? "valid" : "invalid");
  rep.fingerprint(fnv1a(mapping.p, buflen)); rep.fingerprint(channels * 70000 + streams * 260 + coupled);
  rep.label(vd ? "decoder-layout-valid" : "decoder-layout-invalid"); rep.label(ve ? "encoder-layout-valid" : "encoder-layout-invalid");
  if (vd && !ve) rep.label("valid-for-decoder-only");
  if (n >= 2) rep.nontrivial();
  // very large valid layouts cost tens of ms and MBs each: keep them rare
  bool heavy = (vd || ve) && streams > 64;
  if (heavy && !c.chance(40)) { rep.label("skipped-heavy"); return 0; }
  int derr = 12345, eerr = 12345;
  cu::MSDec d; d.p = opus_multistream_decoder_create(Fs, channels, streams, coupled, mapping.p, &derr);
  rep.count();
  if (vd) VP_REQUIRE(d.p && derr == OPUS_OK, "c10:rejects-valid-decoder-layout", "decoder create failed (%d) for a valid layout: channels=%d %s", derr, channels, msu::layout_str(L).c_str());
  else VP_REQUIRE(!d.p && derr == OPUS_BAD_ARG, "c10:accepts-invalid-decoder-layout", "decoder create returned %p error %d for an invalid layout: channels=%d %s", (void*)d.p, derr, channels, msu::layout_str(L).c_str());
  cu::MSEnc e; e.p = opus_multistream_encoder_create(Fs, channels, streams, coupled, mapping.p, OPUS_APPLICATION_AUDIO, &eerr);
  rep.count();
  if (ve) VP_REQUIRE(e.p && eerr == OPUS_OK, "c10:rejects-valid-encoder-layout", "encoder create failed (%d) for a valid layout: channels=%d %s", eerr, channels, msu::layout_str(L).c_str());
  else VP_REQUIRE(!e.p && eerr == OPUS_BAD_ARG, "c10:accepts-invalid-encoder-layout", "encoder create returned %p error %d for an invalid layout: channels=%d %s", (void*)e.p, eerr, channels, msu::layout_str(L).c_str());
  return 0;
}

int vp_case(Choice& c, Report& rep) {
  int mode = c.byte() % 3;
  if (mode == 0) return check_surround(c, rep);
  if (mode == 1) return check_projection(c, rep);
  return check_plain(c, rep);
}
