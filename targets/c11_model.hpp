// C11: settings model shared by c11_ctl.cpp (documented ctl semantics of
// opus_defines.h / opus_multistream.h / opus_projection.h, written from the
// header documentation, not from the ctl switch statements).
#pragma once
#include <climits>
#include <cstdarg>
#include <set>
#include <string>
#include <vector>
#include "vp.hpp"
#include "codec_util.hpp"

namespace c11 {

enum Kind { K_ENC = 0, K_DEC, K_MSENC, K_SURENC, K_MSDEC, K_PROJENC, K_PROJDEC, NKINDS };
static const char* const KIND_NAME[NKINDS] = {"enc", "dec", "msenc", "surround-enc", "msdec", "proj-enc", "proj-dec"};
inline bool is_enc(int k) { return k == K_ENC || k == K_MSENC || k == K_SURENC || k == K_PROJENC; }
inline bool is_ms(int k) { return k != K_ENC && k != K_DEC; }
// coarse class used in failure signatures
inline const char* cls(int k) { return k == K_ENC ? "enc" : k == K_DEC ? "dec" : is_enc(k) ? "ms-enc" : "ms-dec"; }

// settable requests
enum Rid { R_APPLICATION = 0, R_BITRATE, R_MAX_BANDWIDTH, R_VBR, R_BANDWIDTH, R_COMPLEXITY, R_INBAND_FEC, R_PACKET_LOSS,
           R_DTX, R_VBR_CONSTRAINT, R_FORCE_CHANNELS, R_SIGNAL, R_LSB_DEPTH, R_EXPERT_DUR, R_PRED_DISABLED, R_PHASE_INV,
           R_FORCE_MODE, R_GAIN, NRID };
struct ReqInfo { const char* name; int set_req; int get_req; };
static const ReqInfo REQ[NRID] = {
  {"APPLICATION", OPUS_SET_APPLICATION_REQUEST, OPUS_GET_APPLICATION_REQUEST},
  {"BITRATE", OPUS_SET_BITRATE_REQUEST, OPUS_GET_BITRATE_REQUEST},
  {"MAX_BANDWIDTH", OPUS_SET_MAX_BANDWIDTH_REQUEST, OPUS_GET_MAX_BANDWIDTH_REQUEST},
  {"VBR", OPUS_SET_VBR_REQUEST, OPUS_GET_VBR_REQUEST},
  {"BANDWIDTH", OPUS_SET_BANDWIDTH_REQUEST, OPUS_GET_BANDWIDTH_REQUEST},
  {"COMPLEXITY", OPUS_SET_COMPLEXITY_REQUEST, OPUS_GET_COMPLEXITY_REQUEST},
  {"INBAND_FEC", OPUS_SET_INBAND_FEC_REQUEST, OPUS_GET_INBAND_FEC_REQUEST},
  {"PACKET_LOSS_PERC", OPUS_SET_PACKET_LOSS_PERC_REQUEST, OPUS_GET_PACKET_LOSS_PERC_REQUEST},
  {"DTX", OPUS_SET_DTX_REQUEST, OPUS_GET_DTX_REQUEST},
  {"VBR_CONSTRAINT", OPUS_SET_VBR_CONSTRAINT_REQUEST, OPUS_GET_VBR_CONSTRAINT_REQUEST},
  {"FORCE_CHANNELS", OPUS_SET_FORCE_CHANNELS_REQUEST, OPUS_GET_FORCE_CHANNELS_REQUEST},
  {"SIGNAL", OPUS_SET_SIGNAL_REQUEST, OPUS_GET_SIGNAL_REQUEST},
  {"LSB_DEPTH", OPUS_SET_LSB_DEPTH_REQUEST, OPUS_GET_LSB_DEPTH_REQUEST},
  {"EXPERT_FRAME_DURATION", OPUS_SET_EXPERT_FRAME_DURATION_REQUEST, OPUS_GET_EXPERT_FRAME_DURATION_REQUEST},
  {"PREDICTION_DISABLED", OPUS_SET_PREDICTION_DISABLED_REQUEST, OPUS_GET_PREDICTION_DISABLED_REQUEST},
  {"PHASE_INVERSION_DISABLED", OPUS_SET_PHASE_INVERSION_DISABLED_REQUEST, OPUS_GET_PHASE_INVERSION_DISABLED_REQUEST},
  {"FORCE_MODE", OPUS_SET_FORCE_MODE_REQUEST, 0},
  {"GAIN", OPUS_SET_GAIN_REQUEST, OPUS_GET_GAIN_REQUEST},
};
// read-only requests
static const int GET_VOICE_RATIO_REQ = 11019;

// value grid used for every settable request (exhaustive family and random histories)
static const int GRID[] = {
  INT_MIN, INT_MIN + 1, -1000000, -32769, -32768, -32767, -1001, -1000, -999, -101, -100, -2, -1, 0, 1, 2, 3, 4, 5, 7, 8, 9, 10, 11, 12,
  23, 24, 25, 50, 99, 100, 101, 255, 256, 499, 500, 501, 999, 1000, 1001, 1002, 1003, 1100, 1101, 1102, 1103, 1104, 1105, 1106,
  2047, 2048, 2049, 2050, 2051, 2052, 3000, 3001, 3002, 3003, 4999, 5000, 5001, 5002, 5003, 5004, 5005, 5006, 5007, 5008, 5009, 5010,
  6000, 12345, 16000, 32766, 32767, 32768, 64000, 299999, 300000, 300001, 599999, 600000, 600001, 1200000, 76500000, 76500001,
  INT_MAX - 1, INT_MAX};
static const int NGRID = (int)(sizeof(GRID) / sizeof(GRID[0]));

// request numbers no object implements in this build configuration (no DRED, no weights file)
static const int UNKNOWN_REQ[] = {0, 1, -1, 3999, 4018, 4019, 4026, 4030, 4032, 4035, 4038, 4044, 4048, 4050, 4051, 4052, 4053, 4054, 4100, 4999,
                                  5000, 5119, 5121, 5123, 6000, 6002, 6004, 6006, 6007, 10000, 10002, 10004, 10010, 10016, 10022, 11001, 11003,
                                  11017, 11020, 65535, -4002, INT_MAX, INT_MIN};
static const int NUNKNOWN = (int)(sizeof(UNKNOWN_REQ) / sizeof(UNKNOWN_REQ[0]));

enum Expect { X_OK = 0, X_BAD, X_UNIMPL, X_OK_OR_BAD };

struct Model {
  int kind = K_ENC;
  int Fs = 48000;
  int channels = 1;            // API channels of the object
  int streams = 1, coupled = 0;  // multistream layout (single objects: 1 stream, coupled = channels-1)
  int mapping_type = 0;        // 0 none, 1 surround (family 1, > 2 channels), 2 ambisonics (family 2)
  // encoder settings
  int application = OPUS_APPLICATION_AUDIO;
  opus_int32 bitrate = OPUS_AUTO;
  int max_bw = OPUS_BANDWIDTH_FULLBAND, vbr = 1, user_bw = OPUS_AUTO, complexity = 9, fec = 0, loss = 0, dtx = 0, cvbr = 1;
  int force_ch = OPUS_AUTO, signal = OPUS_AUTO, lsb = 24, expert = OPUS_FRAMESIZE_ARG, pred_dis = 0, phinv_dis = 0, force_mode = OPUS_AUTO;
  // decoder settings
  int gain = 0;
  // knowledge about run-time state that the documented getters depend on
  int first_state = 1;          // 1: no frame coded since creation/reset, 0: a frame was coded, 2: unknown
  std::set<int> prev_fs;        // possible sizes of the last coded frame (0 = none yet)
  bool coded_since_reset = false;   // any encode call since creation / reset (multistream application lock)
  bool ms_bitrate_is_status = false; // multistream: bitrate getter checked as a status only (F10)

  bool has_coupled() const { return coupled > 0; }
  bool has_mono() const { return streams > coupled; }
  int first_stream_channels() const { return coupled > 0 ? 2 : 1; }
};

inline bool in(int v, int lo, int hi) { return v >= lo && v <= hi; }

// Expected outcome of SET request rid with value v; `stored` = value the getter must report if accepted.
inline Expect expect_set(const Model& m, int rid, int v, int& stored) {
  stored = v;
  bool enc = is_enc(m.kind), ms = is_ms(m.kind);
  if (rid == R_GAIN) { if (enc) return X_UNIMPL; return in(v, -32768, 32767) ? X_OK : X_BAD; }
  if (!enc) {
    if (rid == R_PHASE_INV) return in(v, 0, 1) ? X_OK : X_BAD;
    if (rid == R_COMPLEXITY && m.kind == K_DEC) return in(v, 0, 10) ? X_OK : X_BAD;
    return X_UNIMPL;
  }
  switch (rid) {
    case R_APPLICATION:
      if (v != OPUS_APPLICATION_VOIP && v != OPUS_APPLICATION_AUDIO && v != OPUS_APPLICATION_RESTRICTED_LOWDELAY) return X_BAD;
      if (v == m.application) return X_OK;
      return m.first_state == 1 ? X_OK : m.first_state == 0 ? X_BAD : X_OK_OR_BAD;
    case R_BITRATE: {
      if (v == OPUS_AUTO || v == OPUS_BITRATE_MAX) return X_OK;
      if (v <= 0) return X_BAD;
      long long lo = ms ? 500ll * m.channels : 500, hi = 300000ll * m.channels;
      long long s = v; if (s < lo) s = lo; if (s > hi) s = hi;
      stored = (int)s; return X_OK; }
    case R_MAX_BANDWIDTH: return in(v, OPUS_BANDWIDTH_NARROWBAND, OPUS_BANDWIDTH_FULLBAND) ? X_OK : X_BAD;
    case R_BANDWIDTH: return (v == OPUS_AUTO || in(v, OPUS_BANDWIDTH_NARROWBAND, OPUS_BANDWIDTH_FULLBAND)) ? X_OK : X_BAD;
    case R_VBR: case R_DTX: case R_VBR_CONSTRAINT: case R_PRED_DISABLED: case R_PHASE_INV: return in(v, 0, 1) ? X_OK : X_BAD;
    case R_COMPLEXITY: return in(v, 0, 10) ? X_OK : X_BAD;
    case R_INBAND_FEC: return in(v, 0, 2) ? X_OK : X_BAD;
    case R_PACKET_LOSS: return in(v, 0, 100) ? X_OK : X_BAD;
    case R_FORCE_CHANNELS:
      if (v == OPUS_AUTO || v == 1) return X_OK;
      if (v != 2) return X_BAD;
      if (!ms) return m.channels == 2 ? X_OK : X_BAD;
      return m.has_mono() ? X_BAD : X_OK;     // a mono stream cannot be forced to two channels
    case R_SIGNAL: return (v == OPUS_AUTO || v == OPUS_SIGNAL_VOICE || v == OPUS_SIGNAL_MUSIC) ? X_OK : X_BAD;
    case R_LSB_DEPTH: return in(v, 8, 24) ? X_OK : X_BAD;
    case R_EXPERT_DUR: return in(v, OPUS_FRAMESIZE_ARG, OPUS_FRAMESIZE_120_MS) ? X_OK : X_BAD;
    case R_FORCE_MODE: return (v == OPUS_AUTO || in(v, 1000, 1002)) ? X_OK : X_BAD;
  }
  return X_UNIMPL;
}

inline void apply_set(Model& m, int rid, int stored) {
  switch (rid) {
    case R_APPLICATION: m.application = stored; break;
    case R_BITRATE: m.bitrate = stored; break;
    case R_MAX_BANDWIDTH: m.max_bw = stored; break;
    case R_VBR: m.vbr = stored; break;
    case R_BANDWIDTH: m.user_bw = stored; break;
    case R_COMPLEXITY: m.complexity = stored; break;
    case R_INBAND_FEC: m.fec = stored; break;
    case R_PACKET_LOSS: m.loss = stored; break;
    case R_DTX: m.dtx = stored; break;
    case R_VBR_CONSTRAINT: m.cvbr = stored; break;
    case R_FORCE_CHANNELS: m.force_ch = stored; break;
    case R_SIGNAL: m.signal = stored; break;
    case R_LSB_DEPTH: m.lsb = stored; break;
    case R_EXPERT_DUR: m.expert = stored; break;
    case R_PRED_DISABLED: m.pred_dis = stored; break;
    case R_PHASE_INV: m.phinv_dis = stored; break;
    case R_FORCE_MODE: m.force_mode = stored; break;
    case R_GAIN: m.gain = stored; break;
  }
}

// Documented frame-size rule (opus.h opus_encode + OPUS_SET_EXPERT_FRAME_DURATION): returns the number of
// samples the encoder will code, or -1 when the call must be rejected with OPUS_BAD_ARG.
inline int effective_frame(int Fs, int frame_size, int expert) {
  if (frame_size < Fs / 400) return -1;
  int n;
  if (expert == OPUS_FRAMESIZE_ARG) n = frame_size;
  else if (expert >= OPUS_FRAMESIZE_2_5_MS && expert <= OPUS_FRAMESIZE_40_MS) n = (Fs / 400) << (expert - OPUS_FRAMESIZE_2_5_MS);
  else if (expert >= OPUS_FRAMESIZE_60_MS && expert <= OPUS_FRAMESIZE_120_MS) n = (expert - OPUS_FRAMESIZE_60_MS + 3) * (Fs / 50);
  else return -1;
  if (n > frame_size) return -1;
  for (int d = 0; d < 9; d++) if (n == cu::DUR400[d] * (Fs / 400)) return n;
  return -1;
}

inline std::string sigf(const char* fmt, ...) {
  char b[200]; va_list ap; va_start(ap, fmt); vsnprintf(b, sizeof b, fmt, ap); va_end(ap); return b;
}

}  // namespace c11
