// C05, multistream encoder: buffer limit, valid per-stream framing, constant
// total size in CBR, tiny buffers.  History-based like c05_budget.
//
// Oracles per opus_multistream_encode[_float] call (buffer M bytes, N streams):
//  * a negative return must be OPUS_BUFFER_TOO_SMALL and is accepted only when
//    M < 3*N (less than three bytes per stream); M == 0 must be rejected.
//  * 1 <= len <= M, nothing outside data[0..M) touched (ASan block / guard bytes).
//  * the packet splits into N-1 self-delimited packets and one standard packet
//    that the RFC framing model accepts, each lasting the frame duration; a
//    multistream decoder in lock-step decodes it to the frame duration.
//  * VBR off: len == min(M, U) where U depends only on (bitrate setting, frame
//    duration): every packet of the same duration under the same bitrate
//    setting has the same size unless M binds; OPUS_BITRATE_MAX fills M.
//  * VBR off, explicit bitrate b (clamped to [500,300000]*channels), U not
//    forced up by the minimum packet: |U - b*T/8| < 1 byte (the multistream
//    encoder truncates b*T/8 where the single-stream encoder rounds it, so the
//    "exact round()" clause is asserted to within one byte here).
#include "c05_common.hpp"
#include "siggen.hpp"

using namespace vp;

const TargetInfo vp_info = {"c05_ms", 8, 400};

namespace {
struct Step { int op = 0; opus_int32 a = 0; int dur = 3, maxb = 1500, layout = 0, api = 0; };
const int MAXSTEPS = 40;
}

int vp_case(Choice& c, Report& rep) {
  const int Fs = cu::RATES[4 - c.irange(0, 4)];
  const int app = cu::APPS[(c.irange(0, 2) + 1) % 3];
  // layout
  int channels, streams, coupled, family;
  unsigned char mapping[255];
  int kind = c.irange(0, 3);   // 0 surround family 1, 1 explicit layout, 2 family 255, 3 ambisonics family 2
  if (kind == 0) { family = 1; channels = 1 + c.irange(0, 7); }
  else if (kind == 2) { family = 255; channels = 1 + c.irange(0, 5); }
  else if (kind == 3) { family = 2; static const int A[5] = {4, 1, 3, 6, 9}; channels = c.pick(A); }
  else {
    family = -1;
    streams = 1 + c.irange(0, 3); coupled = c.irange(0, streams);
    channels = streams + coupled;
    for (int i = 0; i < channels; i++) mapping[i] = (unsigned char)i;
    if (channels > 1 && c.boolean()) { unsigned char t = mapping[0]; mapping[0] = mapping[channels - 1]; mapping[channels - 1] = t; }
  }
  cu::MSEnc enc; cu::MSDec dec;
  int err = 0;
  if (family >= 0) enc.p = opus_multistream_surround_encoder_create(Fs, channels, family, &streams, &coupled, mapping, app, &err);
  else enc.p = opus_multistream_encoder_create(Fs, channels, streams, coupled, mapping, app, &err);
  VP_REQUIRE(enc.p && err == OPUS_OK, "c05:ms-encoder-create", "Fs=%d channels=%d family=%d err=%d", Fs, channels, family, err);
  dec.p = opus_multistream_decoder_create(Fs, channels, streams, coupled, mapping, &err);
  VP_REQUIRE(dec.p && err == OPUS_OK, "c05:ms-decoder-create", "channels=%d streams=%d coupled=%d err=%d", channels, streams, coupled, err);
  rep.labelf("family:%d", family);
  rep.labelf("streams:%d", streams);

  // model of the settings
  opus_int32 m_bitrate = OPUS_AUTO; int m_vbr = 1, m_dtx = 0;
  auto model_bitrate = [&](opus_int32 req, opus_int32& st) {
    if (req == OPUS_AUTO || req == OPUS_BITRATE_MAX) { st = req; return true; }
    if (req <= 0) return false;
    int64_t v = req; if (v < 500ll * channels) v = 500ll * channels; if (v > 300000ll * channels) v = 300000ll * channels;
    st = (opus_int32)v; return true;
  };

  // ---- history -------------------------------------------------------------
  std::vector<Step> steps;
  {
    opus_int32 b = m_bitrate; int vbr = m_vbr;
    int dur = c05::gen_dur(c);
    while ((int)steps.size() < MAXSTEPS) {
      Step s;
      if (steps.empty() || c.chance(90)) {
        static const int OW[6] = {0, 6, 5, 1, 1, 1};
        s.op = steps.empty() ? 1 + c.irange(0, 1) : c.weighted(OW, 6);
        switch (s.op) {
          case 1: {
            if (c.chance(10)) s.a = (opus_int32)c.irange(-3, 499);
            else { opus_int32 per = cu::gen_bitrate(c, 1); s.a = per < 0 ? per : (opus_int32)std::min<int64_t>((int64_t)per * (c.boolean() ? channels : 1), 2400000); }
            model_bitrate(s.a, b); break; }
          case 2: s.a = c.irange(0, 2); vbr = s.a != 1; break;
          case 3: s.a = c.irange(0, 1); break;     // dtx
          case 4: s.a = c.irange(0, 10); break;    // complexity
          default: break;                          // 5: reset
        }
      }
      if (c.chance(50)) dur = c05::gen_dur(c);
      s.dur = dur;
      int fs = cu::frame_samples(Fs, dur);
      int pred = -1;
      if (!vbr && b != OPUS_AUTO && b != OPUS_BITRATE_MAX) pred = (int)std::min<int64_t>(c05::cbr_round_bytes(b, fs, Fs), 5000);
      s.maxb = c05::gen_maxbytes(c, pred);
      if (s.maxb <= 8 && c.boolean()) s.maxb = c.irange(0, 3 * streams + 2);   // around the minimum packet
      if (s.maxb == 7 && c.byte() == 255) s.maxb = 0;
      int la = c.irange(0, 3);
      s.layout = la & 1; s.api = la >> 1;
      steps.push_back(s);
      if (c.exhausted()) break;
    }
  }
  static const int FW[sig::NFAMILIES] = {1, 1, 2, 4, 2, 5, 4, 1, 2};
  int fam = c.weighted(FW, sig::NFAMILIES); if (fam == 0 && steps.size() < 2) fam = sig::MULTITONE;
  size_t total = 0;
  for (auto& s : steps) total += (size_t)cu::frame_samples(Fs, s.dur);
  std::vector<float> pcm;
  sig::generate(fam, steps.size() * 7 + channels, Fs, channels, (int)total, 0.5, pcm);
  rep.note("Fs=%d app=%d channels=%d family=%d streams=%d coupled=%d signal=%s steps=%zu", Fs, app, channels, family, streams, coupled, sig::FAMILY_NAME[fam], steps.size());
  rep.fingerprint(mix(mix(Fs, channels), mix(family + 1, streams * 16 + coupled)));

  // uncapped CBR size per duration under the current bitrate setting
  int U[9]; for (int i = 0; i < 9; i++) U[i] = -1;
  bool nontrivial = false, switched = false;
  size_t pos = 0;
  for (size_t si = 0; si < steps.size(); si++) {
    const Step& s = steps[si];
    if (s.op) {
      int r = OPUS_OK, want = OPUS_OK;
      switch (s.op) {
        case 1: { opus_int32 before = m_bitrate; bool ok = model_bitrate(s.a, m_bitrate); if (!ok) m_bitrate = before; want = ok ? OPUS_OK : OPUS_BAD_ARG;
                  r = opus_multistream_encoder_ctl(enc.p, OPUS_SET_BITRATE(s.a)); for (int i = 0; i < 9; i++) U[i] = -1; rep.note("[%zu] SET_BITRATE(%d)", si, s.a); break; }
        case 2: { int nv = s.a != 1; if (nv != m_vbr) switched = true; m_vbr = nv;
                  r = opus_multistream_encoder_ctl(enc.p, OPUS_SET_VBR(m_vbr)); if (r == OPUS_OK) r = opus_multistream_encoder_ctl(enc.p, OPUS_SET_VBR_CONSTRAINT(s.a != 2)); rep.note("[%zu] vbr=%d", si, m_vbr); break; }
        case 3: m_dtx = s.a; r = opus_multistream_encoder_ctl(enc.p, OPUS_SET_DTX(s.a)); break;
        case 4: r = opus_multistream_encoder_ctl(enc.p, OPUS_SET_COMPLEXITY(s.a)); break;
        case 5: r = opus_multistream_encoder_ctl(enc.p, OPUS_RESET_STATE); if (opus_multistream_decoder_ctl(dec.p, OPUS_RESET_STATE) != OPUS_OK) r = -1; break;
      }
      VP_REQUIRE(r == want, "c05:ms-ctl-result", "step %zu op %d arg %d returned %d, expected %d", si, s.op, s.a, r, want);
      rep.count();
    }
    const int fs = cu::frame_samples(Fs, s.dur);
    const int M = s.maxb;
    const float* src = pcm.data() + pos * channels;
    pos += fs;
    c05::OutBuf out(M, s.layout);
    int len;
    if (s.api == 0) {
      HeapBuf<opus_int16> in((size_t)fs * channels);
      for (int i = 0; i < fs * channels; i++) { double v = std::floor(src[i] * 32768.0 + 0.5); in.p[i] = (opus_int16)(v > 32767 ? 32767 : v < -32768 ? -32768 : v); }
      len = opus_multistream_encode(enc.p, in.p, fs, out.data(), M);
    } else {
      HeapBuf<float> in((size_t)fs * channels);
      memcpy(in.p, src, sizeof(float) * (size_t)fs * channels);
      len = opus_multistream_encode_float(enc.p, in.p, fs, out.data(), M);
    }
    rep.count();
    rep.fingerprint(mix(mix(s.dur, (uint64_t)(M < 32 ? M : 32 + M / 64)), (uint64_t)m_vbr * 7 + (uint64_t)(m_bitrate < 0 ? m_bitrate + 2000 : m_bitrate / 4000)));
    rep.note("[%zu] encode %gms M=%d layout=%d api=%d -> %d", si, cu::DUR400[s.dur] * 2.5, M, s.layout, s.api, len);
#define CTX "step %zu: Fs=%d channels=%d streams=%d coupled=%d family=%d %gms M=%d vbr=%d bitrate=%d dtx=%d ret=%d", si, Fs, channels, streams, coupled, family, cu::DUR400[s.dur] * 2.5, M, m_vbr, m_bitrate, m_dtx, len
    VP_REQUIRE(out.guard_damage() < 0, "c05:ms-guard-bytes-overwritten", CTX);
    if (M == 0) { VP_REQUIRE(len < 0, "c05:ms-zero-buffer-accepted", CTX); rep.label("max0-rejected"); continue; }
    if (M < 3 * streams + 3) { nontrivial = true; rep.label("tiny-buffer"); }
    if (len < 0) {
      VP_REQUIRE(len == OPUS_BUFFER_TOO_SMALL, "c05:ms-encode-error", CTX);
      VP_REQUIRE(M < 3 * streams, "c05:ms-too-small-with-room", CTX);
      rep.label("too-small-error");
      continue;
    }
    VP_REQUIRE(len >= 1 && len <= M, "c05:ms-length-out-of-range", CTX);
    // per-stream framing
    {
      int off = 0;
      for (int k = 0; k < streams; k++) {
        bool sd = k != streams - 1;
        if (off >= len) return rep.fail("c05:ms-invalid-packet", "stream %d starts at %d beyond the packet; " CTX, k, off);
        rfc::Parsed p = rfc::parse(out.data() + off, len - off, sd);
        if (!p.ok) return rep.fail("c05:ms-invalid-packet", "stream %d (offset %d) rejected by the framing model; " CTX, k, off);
        int smp = p.count * rfc::toc_info(out.data()[off]).dur_400 * (Fs / 400);
        if (smp != fs) return rep.fail("c05:ms-packet-duration", "stream %d lasts %d samples, frame has %d; " CTX, k, smp, fs);
        off += p.consumed;
      }
      if (off != len) return rep.fail("c05:ms-invalid-packet", "streams use %d of %d bytes; " CTX, off, len);
    }
    {
      HeapBuf<uint8_t> pkt((size_t)len); memcpy(pkt.p, out.data(), (size_t)len);
      HeapBuf<float> o((size_t)fs * channels);
      int dr = opus_multistream_decode_float(dec.p, pkt.p, len, o.p, fs, 0);
      rep.count();
      if (dr != fs) return rep.fail("c05:ms-decode", "decoder returned %d; " CTX, dr);
    }
    if (m_vbr) { rep.label("vbr"); continue; }
    if (m_dtx && len <= 2 * streams) { rep.label("cbr-dtx-exempt"); continue; }
    if (m_bitrate == OPUS_BITRATE_MAX) {
      if (len != M) return rep.fail("c05:ms-bitrate-max-not-filled", CTX);
      rep.label("cbr-max-fill");
      continue;
    }
    int& u = U[s.dur];
    if (len < M) {
      if (u >= 0 && u != len) return rep.fail("c05:ms-cbr-size-varies", "earlier uncapped size %d; " CTX, u);
      u = len; nontrivial = true;
      rep.label("cbr-uncapped");
      if (m_bitrate != OPUS_AUTO) {
        int smallest = 2 * streams - 1 + (cu::DUR400[s.dur] == 40 ? streams : 0);
        double x = (double)m_bitrate * fs / (8.0 * Fs);
        if (len > smallest) {
          if (!(len > x - 1.0 && len < x + 1.0)) return rep.fail("c05:ms-cbr-size", "CBR total %d bytes, bitrate*duration/8 = %.2f; " CTX, len, x);
          else rep.label("cbr-explicit-close");
        }
      } else rep.label("cbr-auto");
    } else {
      if (u >= 0 && u < len) return rep.fail("c05:ms-cbr-size-varies", "size %d with M binding, earlier uncapped size %d; " CTX, len, u);
      rep.label("cbr-capped-by-max");
    }
#undef CTX
  }
  if (switched) { nontrivial = true; rep.label("vbr-cbr-switch"); }
  rep.nontrivial(nontrivial);
  return 0;
}
