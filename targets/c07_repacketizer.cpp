// C07 (part 1): stateful model-based test of the repacketizer.
// A list of operations (init / cat / out / out_range / get_nb_frames) is decoded
// from the choices and applied to the library and to a reference model (list of
// frames with owning packet and per-frame extension list, TOC, duration); the
// two are compared after every step.
#include "c07_common.hpp"
extern "C" {
#include "opus_multistream.h"
}
#include "siggen.hpp"

using namespace vp;
using namespace xm;

const TargetInfo vp_info = {"c07_repacketizer", 24, 2500};

struct PoolPkt {
  std::unique_ptr<HeapBuf<uint8_t>> buf;   // exact-size copy handed to the library (borrowed by the repacketizer)
  int len = 0;
  rfc::Parsed m;                           // model verdict (standard framing)
  bool ext_ok = true;                      // padding parses as an extension sequence
  PerFrame exts;                           // per frame of this packet
  long ext_bytes = 0;                      // payload bytes carried in the padding
  const char* kind = "";
};

struct FrameRef { const uint8_t* p; int len; int cat; int fidx; };
struct CatRef { int pool; int start, end; };

struct Model {
  uint8_t toc = 0;
  int dur = 0;                 // 2.5 ms units per frame
  std::vector<FrameRef> fr;
  std::vector<CatRef> cats;
  PerFrame gext;               // per global frame
  long submitted = 0;          // bytes of all accepted packets since init
  void clear() { fr.clear(); cats.clear(); gext.clear(); submitted = 0; }
};

static void add_pool(std::vector<PoolPkt>& pool, const std::vector<uint8_t>& bytes, const char* kind) {
  PoolPkt p;
  p.len = (int)bytes.size();
  p.buf.reset(new HeapBuf<uint8_t>(bytes.size()));
  if (!bytes.empty()) memcpy(p.buf->p, bytes.data(), bytes.size());
  p.m = rfc::parse(p.buf->p, p.len, false);
  p.kind = kind;
  if (p.m.ok) {
    int r = read_padding(p.buf->p + p.m.padding_offset, p.m.padding_len, p.m.count, p.exts);
    p.ext_ok = r == 0;
    if (!p.ext_ok) p.exts.assign((size_t)p.m.count, {});
    for (auto& v : p.exts) for (auto& e : v) p.ext_bytes += (long)e.data.size();
  }
  pool.push_back(std::move(p));
}

// a few decodable packets from a real encoder
static void encoder_packets(Choice& c, std::vector<PoolPkt>& pool, uint8_t& toc_hi_out) {
  static const int FS[] = {48000, 16000, 8000};
  int Fs = c.pick(FS);
  int ch = c.irange(1, 2);
  int err;
  OpusEncoder* enc = opus_encoder_create(Fs, ch, c.boolean() ? OPUS_APPLICATION_AUDIO : OPUS_APPLICATION_VOIP, &err);
  if (!enc) return;
  opus_encoder_ctl(enc, OPUS_SET_COMPLEXITY(c.irange(0, 2)));
  opus_encoder_ctl(enc, OPUS_SET_BITRATE(6000 + 1000 * c.irange(0, 90)));
  static const int D400[] = {4, 8, 16};     // 10, 20, 40 ms
  int d = c.pick(D400);
  int n = Fs / 400 * d;
  int fam = c.irange(0, sig::NFAMILIES - 1);
  int k = c.irange(1, 3);
  std::vector<float> x;
  for (int i = 0; i < k; i++) {
    sig::generate(fam, c.byte(), Fs, ch, n, 0.5, x, i * n);
    unsigned char out[1500];
    int len = opus_encode_float(enc, x.data(), n, out, 1500);
    if (len > 0) { add_pool(pool, std::vector<uint8_t>(out, out + len), "encoder"); toc_hi_out = out[0] & 0xFC; }
  }
  opus_encoder_destroy(enc);
}

// compares one emitted packet with the model's selection [b,e)
static int check_output(Report& rep, const Model& M, int b, int e, const uint8_t* out, int L, bool f3) {
  int cnt = e - b;
  rfc::Parsed m = rfc::parse(out, L, false);
  VP_REQUIRE(m.ok, "c07:out-invalid-packet", "out_range(%d,%d): %d output bytes are not a valid packet (first bytes %02x %02x)", b, e, L, out[0], L > 1 ? out[1] : 0);
  VP_REQUIRE(m.count == cnt, "c07:out-range-frames-differ", "out_range(%d,%d): output has %d frames", b, e, m.count);
  VP_REQUIRE((m.toc & 0xFC) == (M.toc & 0xFC), "c07:out-toc", "out_range(%d,%d): output TOC 0x%02x, first packet's TOC 0x%02x", b, e, m.toc, M.toc);
  for (int i = 0; i < cnt; i++) {
    const FrameRef& f = M.fr[(size_t)(b + i)];
    VP_REQUIRE(m.size[i] == f.len && (f.len == 0 || !memcmp(out + m.offset[i], f.p, (size_t)f.len)), "c07:out-range-frames-differ",
               "out_range(%d,%d): output frame %d (%d bytes) differs from submitted frame %d (%d bytes)", b, e, i, m.size[i], b + i, f.len);
  }
  PerFrame got;
  int r = read_padding(out + m.padding_offset, m.padding_len, cnt, got);
  const char* sig = f3 ? "c07:out-range-split-extension" : "c07:out-extensions-differ";
  VP_REQUIRE(r == 0, sig, "out_range(%d,%d): extension area of the output does not parse (%d)", b, e, r);
  PerFrame want(M.gext.begin() + b, M.gext.begin() + e);
  int fd = first_diff(want, got);
  VP_REQUIRE(fd < 0, sig, "out_range(%d,%d): output frame %d (submitted frame %d) should carry %s but carries %s", b, e, fd, b + fd,
             show(want[(size_t)std::min(fd, cnt - 1)]).c_str(), show(got[(size_t)std::min(fd, cnt - 1)]).c_str());
  return 0;
}

int vp_case(Choice& c, Report& rep) {
  Rng rng(c.u32());
  uint8_t base_hi = (uint8_t)((c.pick(pk::CONFIGS) << 3) | (c.boolean() ? 4 : 0));
  std::vector<PoolPkt> pool;
  pool.reserve(64);
  if (c.byte() >= 244) { encoder_packets(c, pool, base_hi); rep.label("pool:encoder"); }
  int max_frames = 48 / rfc::toc_info(base_hi).dur_400;
  int npool = c.irange(1, 6);
  for (int i = 0; i < npool; i++) {
    uint8_t hi = base_hi;
    if (c.chance(20)) hi = (uint8_t)(c.byte() & 0xFC);            // incompatible configuration (sometimes only the stereo bit)
    else if (c.chance(10)) hi = (uint8_t)(base_hi ^ 4);
    int mf = 48 / rfc::toc_info(hi).dur_400;
    pk::Made mk = pk::make_packet(c, rng, hi, mf, false, true);
    add_pool(pool, mk.bytes, mk.pad_kind);
  }
  (void)max_frames;

  OpusRepacketizer* rp = opus_repacketizer_create();
  struct Guard { OpusRepacketizer* r; ~Guard() { opus_repacketizer_destroy(r); } } guard{rp};
  Model M;
  int nops = c.irange(1, 24);
  int ok_cats = 0, strict_sub = 0, outs = 0;
  bool f7_seen = false;
  uint64_t fp = base_hi;
  for (int op = 0; op < nops; op++) {
    static const int W[] = {10, 5, 7, 1};    // cat, out, out_range, init
    int what = c.weighted(W, 4);
    fp = mix(fp, (uint64_t)what);
    if (what == 3) {
      VP_REQUIRE(opus_repacketizer_init(rp) == rp, "c07:init-return", "init returned a different pointer");
      M.clear();
      ok_cats = 0;
      rep.note("init");
    } else if (what == 0) {
      int pi = c.irange(0, (int)pool.size() - 1);
      PoolPkt& p = pool[(size_t)pi];
      bool compatible = M.fr.empty() || (p.len >= 1 && ((p.buf->p[0] ^ M.toc) & 0xFC) == 0);
      int dur = p.len >= 1 ? rfc::toc_info(p.buf->p[0]).dur_400 : 0;
      bool fits = p.m.ok && ((int)M.fr.size() + p.m.count) * dur <= 48;
      bool expect_ok = p.len >= 1 && p.m.ok && compatible && fits;
      int before = (int)M.fr.size();
      int r = opus_repacketizer_cat(rp, p.buf->p, p.len);
      rep.count();
      if (expect_ok) {
        VP_REQUIRE(r == OPUS_OK, "c07:cat-rejects-valid", "cat of a valid, compatible packet (%d bytes, %d frames, TOC 0x%02x, %d frames held) returned %d", p.len, p.m.count, p.buf->p[0], before, r);
        if (M.fr.empty()) { M.toc = p.buf->p[0]; M.dur = dur; }
        CatRef cr{pi, before, before + p.m.count};
        for (int i = 0; i < p.m.count; i++) { M.fr.push_back(FrameRef{p.buf->p + p.m.offset[i], p.m.size[i], (int)M.cats.size(), i}); M.gext.push_back(p.exts[(size_t)i]); }
        M.cats.push_back(cr);
        M.submitted += p.len;
        ok_cats++;
        rep.label("cat:accepted");
        if (!strcmp(p.kind, "extensions")) rep.label("cat:with-extensions");
        if (!strcmp(p.kind, "arbitrary")) rep.label("cat:arbitrary-padding");
        fp = mix(fp, (uint64_t)p.m.count * 131 + (uint64_t)(p.buf->p[0] & 3));
      } else {
        VP_REQUIRE(r == OPUS_INVALID_PACKET, "c07:cat-accepts-invalid", "cat returned %d for a packet that is %s (%d bytes, TOC 0x%02x, %d frames held)", r,
                   !p.m.ok ? "not a valid packet" : !compatible ? "configuration-incompatible" : "too long for 120 ms", p.len, p.len ? p.buf->p[0] : 0, before);
        rep.label(!p.m.ok ? "cat:rejected-invalid" : !compatible ? "cat:rejected-incompatible" : "cat:rejected-120ms");
      }
      int nb = opus_repacketizer_get_nb_frames(rp);
      VP_REQUIRE(nb == (int)M.fr.size(), expect_ok ? "c07:nb-frames" : "c07:rejected-cat-changed-state", "get_nb_frames %d, model %zu after %s cat", nb, M.fr.size(), expect_ok ? "an accepted" : "a rejected");
      rep.note("cat #%d (%d bytes, %s, pad %s) -> %d", pi, p.len, p.m.ok ? "valid" : "invalid", p.kind, r);
      if (expect_ok || M.fr.empty()) continue;
      // a rejected cat must leave the contents unchanged: fall through to a full `out` comparison
      what = 1;
    }
    if (what == 1 || what == 2) {
      int N = (int)M.fr.size();
      int b = 0, e = N;
      bool use_out = what == 1;
      if (!use_out) {
        int k = c.irange(0, 19);
        if (N > 0) { b = c.irange(0, N - 1); e = c.irange(b + 1, N); }
        if (k == 17) { b = c.irange(-1, N + 1); e = c.irange(-1, N + 2); }       // any, mostly illegal
        else if (k == 18) { b = c.irange(0, N); e = b; }                         // empty
        else if (k == 19 && N > 0) e = N + 1;                                    // one past the end
      }
      bool legal = b >= 0 && b < e && e <= N;
      if (!legal) {
        HeapBuf<uint8_t> o(64);
        opus_int32 r = use_out ? opus_repacketizer_out(rp, o.p, 64) : opus_repacketizer_out_range(rp, b, e, o.p, 64);
        VP_REQUIRE(r == OPUS_BAD_ARG, "c07:illegal-range-accepted", "out_range(%d,%d) with %d frames held returned %d", b, e, N, r);
        rep.label("out:illegal-range");
        rep.count();
        continue;
      }
      int cnt = e - b;
      // selection facts from the model
      long frame_bytes = 0, ext_bytes = 0; int n_ext = 0; bool bad_ext = false;
      for (int f = b; f < e; f++) { frame_bytes += M.fr[(size_t)f].len; for (auto& x : M.gext[(size_t)f]) { ext_bytes += (long)x.data.size(); n_ext++; } }
      for (auto& cr : M.cats) if (cr.end > b && cr.start < e && !pool[(size_t)cr.pool].ext_ok) bad_ext = true;   // a packet overlapping the range
      bool cut = b != M.cats[(size_t)M.fr[(size_t)b].cat].start || e != M.cats[(size_t)M.fr[(size_t)(e - 1)].cat].end;
      // known finding F3 (see C16): the range cuts a multi-frame packet carrying extensions
      bool f3 = false;
      {
        const CatRef& cb = M.cats[(size_t)M.fr[(size_t)b].cat];
        if (cb.start < b) for (int f = b; f < std::min(e, cb.end); f++) if (!M.gext[(size_t)f].empty()) f3 = true;
        const CatRef& ce = M.cats[(size_t)M.fr[(size_t)(e - 1)].cat];
        if (ce.end > e && ce.start >= b) for (int f = e; f < ce.end; f++) if (!M.gext[(size_t)f].empty()) f3 = true;
      }
      if (f3) rep.label("out:f3-class");   // fixed finding F3 (repo commit e18ed156)
      // known finding F7: extension payload carried over makes the output exceed 1277 bytes per frame
      bool f7_certain = n_ext > 0 && frame_bytes + ext_bytes + 1 > 1277L * cnt;
      if (f7_certain) { rep.label("out:f7-class"); if (rep.exclude("F7")) continue; }
      // known finding F20: the padding of a packet overlapping the range is not a well-formed extension sequence (legal per RFC 6716 3.2.5).
      // (The unchanged tree only trips when that packet's first frame is selected; the class is the packet-level one so that it does
      // not depend on where the implementation keeps the padding.)
      if (bad_ext) rep.label("out:f20-class");   // fixed finding F20 (repo commit bbb9d66b)
      long cap = 64 + 4L * cnt + frame_bytes + ext_bytes + 8L * n_ext + ext_bytes / 100 + 600;
      HeapBuf<uint8_t> big((size_t)cap);
      memset(big.p, 0x5A, (size_t)cap);
      opus_int32 L = use_out ? opus_repacketizer_out(rp, big.p, (opus_int32)cap) : opus_repacketizer_out_range(rp, b, e, big.p, (opus_int32)cap);
      rep.count();
      outs++;
      VP_REQUIRE(L > 0 && L <= cap, f3 ? "c07:out-range-split-extension" : bad_ext ? "c07:out-fails-on-arbitrary-padding" : "c07:out-error",
                 "out_range(%d,%d) of %d frames with maxlen %ld returned %d (%d extensions selected, range %s packet boundaries)", b, e, N, cap, L, n_ext, cut ? "cuts" : "on");
      if (check_output(rep, M, b, e, big.p, L, f3)) return 1;
      // size promises
      // opus.h also calls "1*(end-begin) + all submitted bytes" sufficient; that is not part of the property text and is false when CBR
      // packets with frames >= 252 bytes are merged into a VBR packet (two length bytes per frame) - recorded as a label only
      if (L > cnt + M.submitted) rep.label("out:exceeds-frames-plus-submitted-bytes");
      if (L > 1277L * cnt) {
        if (n_ext > 0) {
          rep.label("out:f7-class");
          f7_seen = true;
          if (!rep.exclude("F7")) return rep.fail("c07:bound-1277-with-extensions", "out_range(%d,%d): %d bytes for %d frame(s) (%ld frame bytes, %d extensions with %ld payload bytes carried from the submitted padding)", b, e, L, cnt, frame_bytes, n_ext, ext_bytes);
        } else return rep.fail("c07:bound-1277", "out_range(%d,%d): %d bytes for %d frame(s) without extensions", b, e, L, cnt);
      }
      if (cnt == 1 && n_ext == 0) VP_REQUIRE(L <= 1276, "c07:bound-1276-single", "single frame took %d bytes", L);
      // maxlen relation, each length in an exact allocation
      int tests = c.irange(1, 3);
      for (int t = 0; t < tests; t++) {
        int sel = c.irange(0, 5);
        long ml = sel == 0 ? L : sel == 1 ? L - 1 : sel == 2 ? L + 1 : sel == 3 ? c.irange(0, (int)std::min<long>(L + 40, 70000)) : sel == 4 ? c.irange(0, 3) : std::max<long>(L - c.irange(1, 12), 0);
        HeapBuf<uint8_t> o((size_t)ml);
        opus_int32 r = use_out ? opus_repacketizer_out(rp, o.p, (opus_int32)ml) : opus_repacketizer_out_range(rp, b, e, o.p, (opus_int32)ml);
        rep.count();
        if (ml >= L) VP_REQUIRE(r == L && !memcmp(o.p, big.p, (size_t)L), "c07:maxlen-sufficient-differs", "out_range(%d,%d) needs %d bytes; maxlen %ld returned %d%s", b, e, L, ml, r, r == L ? " with different bytes" : "");
        else VP_REQUIRE(r == OPUS_BUFFER_TOO_SMALL, "c07:maxlen-too-small-accepted", "out_range(%d,%d) needs %d bytes; maxlen %ld returned %d", b, e, L, ml, r);
      }
      // the state is unchanged by emitting
      VP_REQUIRE(opus_repacketizer_get_nb_frames(rp) == N, "c07:out-changed-state", "get_nb_frames %d after out, model %d", opus_repacketizer_get_nb_frames(rp), N);
      if (cut) rep.label("out:sub-range"); else rep.label(cnt == N ? "out:all" : "out:packet-aligned");
      if (ok_cats >= 2 && cnt < N) { strict_sub++; rep.label("out:strict-sub-range-after-2-cats"); }
      if (n_ext) rep.label(cut ? "out:split-with-extensions" : "out:with-extensions");
      static const char* const CODE[] = {"out:code0", "out:code1", "out:code2", "out:code3"};
      rep.label(CODE[big.p[0] & 3]);
      if ((big.p[0] & 3) == 3) rep.label((big.p[1] & 0x80) ? "out:code3-vbr" : "out:code3-cbr");
      fp = mix(fp, ((uint64_t)b << 40) ^ ((uint64_t)e << 32) ^ (uint64_t)L);
      rep.note("out_range(%d,%d) of %d -> %d bytes, code %d, %d ext", b, e, N, L, big.p[0] & 3, n_ext);
      // feed the output back into the pool so that later cats merge re-emitted packets
      if (pool.size() < 40 && L <= 20000 && c.chance(96)) { add_pool(pool, std::vector<uint8_t>(big.p, big.p + L), n_ext ? "extensions" : "none"); rep.label("pool:re-emitted"); }
    }
  }
  (void)f7_seen; (void)outs;
  rep.nontrivial(strict_sub > 0);
  rep.fingerprint(fp);
  return 0;
}
