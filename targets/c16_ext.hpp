// Shared model pieces for C16 (packet extensions) and C07 (repacketizer):
// a value-type extension, per-frame lists, generators for extension lists and
// helpers that read the extension area of a packet back into per-frame lists.
#pragma once
#include <algorithm>
#include <cstdint>
#include <string>
#include <vector>
#include "vp.hpp"
#include "rfc_framing.hpp"
extern "C" {
#include "opus.h"
#include "opus_private.h"
}
#include "common.hpp"

namespace xm {

struct MExt {
  int id = 3;
  int frame = 0;
  std::vector<uint8_t> data;
  bool operator==(const MExt& o) const { return id == o.id && data == o.data; }   // frame compared by position
};
typedef std::vector<MExt> ExtList;                 // any order
typedef std::vector<std::vector<MExt>> PerFrame;   // [frame] -> ordered list

inline PerFrame per_frame(const ExtList& l, int nbf) {
  PerFrame pf((size_t)nbf);
  for (auto& e : l) if (e.frame >= 0 && e.frame < nbf) pf[(size_t)e.frame].push_back(e);
  return pf;
}
inline size_t total(const PerFrame& pf) { size_t n = 0; for (auto& v : pf) n += v.size(); return n; }

// Library-facing array for a list.  Payload pointers are never NULL (a zero
// length payload points at a valid allocation).  With `exact` each payload is
// its own exact-size heap block so that ASan sees any read beyond it.
struct ExtArray {
  std::vector<opus_extension_data> v;
  std::vector<uint8_t*> blocks;
  uint8_t* arena = nullptr;
  ExtArray(const ExtList& l, bool exact) {
    v.resize(l.size());
    size_t tot = 0;
    for (auto& e : l) tot += e.data.size();
    if (!exact) arena = (uint8_t*)malloc(tot + 1);
    size_t off = 0;
    for (size_t i = 0; i < l.size(); i++) {
      uint8_t* p;
      size_t n = l[i].data.size();
      if (exact) { p = (uint8_t*)malloc(n ? n : 1); blocks.push_back(p); }
      else { p = arena + off; off += n; }
      if (n) memcpy(p, l[i].data.data(), n);
      v[i].id = l[i].id; v[i].frame = l[i].frame; v[i].data = p; v[i].len = (opus_int32)n;
    }
  }
  ExtArray(const ExtArray&) = delete;
  ~ExtArray() { for (auto p : blocks) free(p); free(arena); }
  // never hand out NULL for an empty list either
  const opus_extension_data* ptr() const { static opus_extension_data dummy; return v.empty() ? &dummy : v.data(); }
  int n() const { return (int)v.size(); }
};

// lengths around the 255-multiple lacing boundaries and the padding-chain boundaries
inline int boundary_ext_len(vp::Choice& c, int cap) {
  static const int B[] = {0, 1, 2, 3, 7, 16, 100, 252, 253, 254, 255, 256, 257, 508, 509, 510, 511, 512, 764, 765, 766, 1019, 1020, 1021, 1275, 2040, 5000, 65534, 65535, 65536, 70000};
  int L;
  int k = c.irange(0, 9);
  if (k < 5) L = c.irange(0, 12);
  else if (k < 7) L = c.irange(0, 300);
  else L = c.pick(B);
  if (L > cap) L = cap > 0 ? L % (cap + 1) : 0;
  return L;
}

inline void fill_payload(std::vector<uint8_t>& d, int L, vp::Rng& rng, uint8_t first) {
  d.resize((size_t)L);
  for (int i = 0; i < L; i++) d[(size_t)i] = (uint8_t)rng.next();
  if (L) d[0] = first;
}

// One extension from the choices.  `long_cap` bounds long payloads.
inline MExt gen_ext(vp::Choice& c, vp::Rng& rng, int frame, int long_cap, int id_lo = 3, int id_hi = 127) {
  MExt e;
  e.frame = frame;
  int sel = c.byte();
  uint8_t first = (uint8_t)(sel * 7 + 1);
  if ((sel & 1) == 0) {           // short
    int lo = std::max(3, id_lo), hi = std::min(31, id_hi);
    if (lo > hi) { lo = id_lo; hi = id_hi; }
    e.id = lo + (sel >> 2) % (hi - lo + 1);
    if (e.id < 32) { fill_payload(e.data, (sel >> 1) & 1, rng, first); return e; }
  }
  int lo = std::max(32, id_lo), hi = std::min(127, id_hi);
  if (lo > hi) { lo = id_lo; hi = id_hi; }
  e.id = lo + (sel >> 1) % (hi - lo + 1);
  if (e.id < 32) fill_payload(e.data, (sel >> 1) & 1, rng, first);
  else fill_payload(e.data, boundary_ext_len(c, long_cap), rng, first);
  return e;
}

// Reads the extension area (padding) of a packet with the library parser in
// frame order.  Returns the library return code (0 ok, <0 error).
inline int read_padding(const uint8_t* pad, int pad_len, int nbf, PerFrame& out, std::string* err = nullptr) {
  out.assign((size_t)nbf, {});
  HeapBuf<uint8_t> p((size_t)pad_len);
  if (pad_len) memcpy(p.p, pad, (size_t)pad_len);
  opus_int32 cnt = opus_packet_extensions_count(p.p, pad_len, nbf);
  if (cnt < 0) { if (err) *err = "count<0"; return cnt; }
  HeapBuf<opus_extension_data> ex((size_t)cnt);
  opus_int32 n = cnt;
  int ret = opus_packet_extensions_parse(p.p, pad_len, ex.p, &n, nbf);
  if (ret < 0) { if (err) *err = "parse error"; return ret; }
  for (int i = 0; i < n; i++) {
    if (ex[(size_t)i].frame < 0 || ex[(size_t)i].frame >= nbf) { if (err) *err = "frame out of range"; return -100; }
    MExt e; e.id = ex[(size_t)i].id; e.frame = ex[(size_t)i].frame;
    if (ex[(size_t)i].len > 0) e.data.assign(ex[(size_t)i].data, ex[(size_t)i].data + ex[(size_t)i].len);
    out[(size_t)e.frame].push_back(e);
  }
  return 0;
}

inline std::string show(const MExt& e) {
  char b[96];
  snprintf(b, sizeof b, "{id %d frame %d len %zu%s%02x}", e.id, e.frame, e.data.size(), e.data.empty() ? " " : " first ", e.data.empty() ? 0 : e.data[0]);
  return b;
}
inline std::string show(const std::vector<MExt>& v, size_t cap = 6) {
  std::string s = "[";
  for (size_t i = 0; i < v.size() && i < cap; i++) s += show(v[i]);
  if (v.size() > cap) s += "...";
  return s + "]";
}

// first frame whose ordered lists differ, -1 if equal
inline int first_diff(const PerFrame& a, const PerFrame& b) {
  if (a.size() != b.size()) return (int)std::min(a.size(), b.size());
  for (size_t f = 0; f < a.size(); f++) {
    if (a[f].size() != b[f].size()) return (int)f;
    for (size_t i = 0; i < a[f].size(); i++) if (!(a[f][i] == b[f][i])) return (int)f;
  }
  return -1;
}

// padding length field (length bytes + data) that carries exactly D data bytes
inline int pad_total_for_data(int D) { return D + D / 254 + 1; }

}  // namespace xm
