// C19 (part 1): opus_pcm_soft_clip obeys its contract.
//  * any finite input -> every output sample in [-1, 1]
//  * a channel that is already inside [-1, 1] and whose memory is 0 comes out bit-for-bit unchanged (memory stays 0)
//  * no sample changes sign
//  * channels are independent: the interleaved call equals C single-channel calls, each with that channel's
//    memory; outputs and memories bit-identical, over consecutive frames that share the memory
//  * any channel count / frame length; degenerate arguments (C < 1, N < 1, NULL) touch nothing
// Buffers are exact-size heap blocks, so ASan checks that nothing outside N*C samples / C memories is accessed.
#include "vp.hpp"
extern "C" {
#include "opus.h"
}
#include "common.hpp"
#include <cfloat>

using namespace vp;

const TargetInfo vp_info = {"c19_softclip", 4, 300};

static inline uint32_t bits(float f) { uint32_t u; memcpy(&u, &f, 4); return u; }

// ---- signal shapes ---------------------------------------------------------------------------------------
enum Shape { QUIET = 0, SINE, PEAKS, RUNS, EDGE, NOISE, HUGE_AMP, ZEROS, NSHAPES };
static const char* const SHAPE_NAME[] = {"in-range", "sine", "isolated-peaks", "runs-above-range", "sign-change-at-edges", "noise", "huge", "signed-zeros"};

static void gen_channel(int shape, Rng& rng, double amp, int N, int frame_no, float* x, int stride) {
  double f = 0.002 + rng.unit() * 0.2, ph = rng.unit() * 6.283;
  int run = 0;
  double runv = 0;
  for (int i = 0; i < N; i++) {
    double v = 0;
    switch (shape) {
      case QUIET: v = rng.sym() * std::min(1.0, amp); break;
      case SINE: v = amp * std::sin(6.283185307 * f * (i + (double)frame_no * N) + ph); break;
      case PEAKS: v = 0.5 * std::sin(6.283185307 * f * i + ph); if (rng.range(0, 40) == 0) v = (rng.range(0, 1) ? 1 : -1) * (1.0 + rng.unit() * amp); break;
      case RUNS:
        if (run == 0) { run = 1 + rng.range(0, 200); runv = rng.range(0, 2) == 0 ? rng.sym() * 0.9 : (rng.range(0, 1) ? 1 : -1) * (1.0 + rng.unit() * amp); }
        run--; v = runv * (1.0 + 0.01 * rng.sym()); break;
      case EDGE: {
        // loud through the frame, sign change right at the start / end of the frame
        double s = ((i < 2 + (int)(rng.s & 3)) ? -1.0 : 1.0) * ((N - i) <= 2 ? -1.0 : 1.0) * ((frame_no & 1) ? -1.0 : 1.0);
        v = s * (0.9 + amp * (0.3 + 0.7 * std::fabs(std::sin(0.01 * i + ph))));
        break; }
      case NOISE: v = amp * rng.gauss(); break;
      case HUGE_AMP: v = rng.sym() * amp; if (rng.range(0, 15) == 0) v = (rng.range(0, 1) ? 1.0 : -1.0) * (rng.range(0, 1) ? (double)FLT_MAX : 1e30); break;
      case ZEROS: { int k = rng.range(0, 5); v = k == 0 ? 0.0 : k == 1 ? -0.0 : k == 2 ? 1e-42 : k == 3 ? -1e-42 : k == 4 ? 1.0 : -1.0; break; }
    }
    float fv = (float)v;
    if (!std::isfinite(fv)) fv = v > 0 ? FLT_MAX : -FLT_MAX;
    x[(size_t)i * stride] = fv;
  }
}

int vp_case(Choice& c, Report& rep) {
  // ---- degenerate arguments ------------------------------------------------------------------------------
  if (c.chance(20)) {
    int kind = c.irange(0, 4);
    int C = kind == 0 ? -c.irange(0, 3) : 1 + c.irange(0, 3);
    int N = kind == 1 ? -c.irange(0, 3) : 1 + c.irange(0, 20);
    int cc = std::max(C, 1), nn = std::max(N, 1);
    HeapBuf<float> x((size_t)cc * nn), m(cc);
    for (size_t i = 0; i < x.n; i++) x[i] = 3.0f + (float)i;
    for (size_t i = 0; i < m.n; i++) m[i] = -0.2f;
    HeapBuf<float> x0(x.n), m0(m.n);
    memcpy(x0.p, x.p, x.n * 4); memcpy(m0.p, m.p, m.n * 4);
    opus_pcm_soft_clip(kind == 2 ? nullptr : x.p, N, C, kind == 3 ? nullptr : m.p);
    rep.count();
    bool degenerate = kind <= 3;
    if (degenerate) {
      VP_REQUIRE(memcmp(x.p, x0.p, x.n * 4) == 0 && memcmp(m.p, m0.p, m.n * 4) == 0, "c19:softclip-degenerate-touched",
                 "degenerate call (kind %d: C=%d N=%d x=%s mem=%s) modified the buffer or the memory", kind, C, N, kind == 2 ? "NULL" : "ok", kind == 3 ? "NULL" : "ok");
      rep.label("degenerate-args");
      rep.note("degenerate arguments: C=%d N=%d x=%s mem=%s", C, N, kind == 2 ? "NULL" : "valid", kind == 3 ? "NULL" : "valid");
      rep.fingerprint(1000 + kind); rep.fingerprint((uint64_t)(C + 8) * 64 + (N + 8));
      rep.nontrivial();
      return 0;
    }
    // kind 4: a regular small call, fall through to nothing special
  }
  // ---- regular sequences -----------------------------------------------------------------------------------
  int C = c.chance(200) ? 1 + c.irange(0, 1) : 1 + c.irange(0, 7);
  static const int NS[] = {1, 2, 3, 120, 240, 480, 960, 1920, 2880, 5760};
  int nframes = 1 + c.irange(0, 3);
  int shape[8];
  double amp[8];
  for (int ch = 0; ch < C; ch++) {
    shape[ch] = c.irange(0, NSHAPES - 1);
    static const double AMPS[] = {0.5, 0.99, 1.0, 1.0000001, 1.01, 1.5, 1.99, 2.0, 2.5, 10.0, 1000.0, 1e6};
    amp[ch] = c.pick(AMPS);
  }
  uint32_t seed = c.u32();
  std::vector<float> mem(C, 0.f), mem_ref(C, 0.f);
  if (c.chance(24)) { /* caller-provided non-zero start memory is legal only as produced by the function: keep 0 */ }
  bool any_clip = false, any_pass = false, any_mem_carry = false, any_edge = false;
  uint64_t fp = mix(C, seed);
  int lastN = 0;
  for (int fr = 0; fr < nframes; fr++) {
    int N = c.chance(160) ? c.pick(NS) : 1 + c.irange(0, 5759);
    if (C * N > 8 * 5760) N = 5760;
    lastN = N;
    HeapBuf<float> x((size_t)N * C), in((size_t)N * C), m(C);
    Rng rng(seed + 7919u * fr);
    for (int ch = 0; ch < C; ch++) { Rng r2(rng.next() ^ ch); gen_channel(shape[ch], r2, amp[ch], N, fr, in.p + ch, C); }
    memcpy(x.p, in.p, x.n * 4);
    for (int ch = 0; ch < C; ch++) m[ch] = mem[ch];
    opus_pcm_soft_clip(x.p, N, C, m.p);
    rep.count();
    for (int ch = 0; ch < C; ch++) {
      bool inrange = true, loud = false;
      for (int i = 0; i < N; i++) {
        float a = in[(size_t)i * C + ch], y = x[(size_t)i * C + ch];
        VP_REQUIRE(y >= -1.f && y <= 1.f, "c19:softclip-out-of-range", "C=%d N=%d frame %d channel %d (%s amp %g) sample %d: input %.9g output %.9g", C, N, fr, ch,
                   SHAPE_NAME[shape[ch]], amp[ch], i, a, y);
        VP_REQUIRE(!((a > 0 && y < 0) || (a < 0 && y > 0)), "c19:softclip-sign-flip", "C=%d N=%d frame %d channel %d (%s amp %g) sample %d: input %.9g output %.9g", C, N, fr, ch,
                   SHAPE_NAME[shape[ch]], amp[ch], i, a, y);
        if (a > 1.f || a < -1.f) { inrange = false; loud = true; }
      }
      if (inrange && mem[ch] == 0.f) {
        for (int i = 0; i < N; i++)
          VP_REQUIRE(bits(in[(size_t)i * C + ch]) == bits(x[(size_t)i * C + ch]), "c19:softclip-modifies-in-range", "C=%d N=%d frame %d channel %d (%s amp %g) sample %d: in-range input %.9g (0x%08x) became %.9g (0x%08x) with zero memory",
                     C, N, fr, ch, SHAPE_NAME[shape[ch]], amp[ch], i, in[(size_t)i * C + ch], bits(in[(size_t)i * C + ch]), x[(size_t)i * C + ch], bits(x[(size_t)i * C + ch]));
        VP_REQUIRE(m[ch] == 0.f, "c19:softclip-memory-after-in-range", "channel %d in range with zero memory, memory became %.9g", ch, m[ch]);
        any_pass = true;
      }
      // The state memory carries an excursion into the next frame only when the frame ends inside it.  From the *input* alone: if the frame has no
      // over-range sample, or its last over-range sample is followed by a strict sign change before the frame ends, the excursion is closed and the
      // memory must come back as zero (so that a following in-range frame is left untouched, as documented).
      {
        int last_over = -1;
        for (int i = 0; i < N; i++) { float a = in[(size_t)i * C + ch]; if (a > 1.f || a < -1.f) last_over = i; }
        bool closed = last_over < 0;
        if (!closed) { float a = in[(size_t)last_over * C + ch]; for (int j = last_over + 1; j < N && !closed; j++) if (in[(size_t)j * C + ch] * a < 0) closed = true; }
        if (closed) {
          VP_REQUIRE(m[ch] == 0.f, "c19:softclip-memory-not-cleared", "C=%d N=%d frame %d channel %d (%s amp %g): the last over-range sample (index %d) is followed by a zero crossing inside the frame, yet the state memory is %.9g",
                     C, N, fr, ch, SHAPE_NAME[shape[ch]], amp[ch], last_over, m[ch]);
          if (last_over >= 0) rep.label("excursion-closed-inside-frame");
        }
      }
      if (loud) any_clip = true;
      if (mem[ch] != 0.f) any_mem_carry = true;
      if (shape[ch] == EDGE) any_edge = true;
    }
    // channel by channel with that channel's memory
    for (int ch = 0; ch < C; ch++) {
      HeapBuf<float> y(N), m1(1);
      for (int i = 0; i < N; i++) y[i] = in[(size_t)i * C + ch];
      m1[0] = mem_ref[ch];
      opus_pcm_soft_clip(y.p, N, 1, m1.p);
      rep.count();
      for (int i = 0; i < N; i++)
        VP_REQUIRE(bits(y[i]) == bits(x[(size_t)i * C + ch]), "c19:softclip-channels-not-independent",
                   "C=%d N=%d frame %d channel %d sample %d: interleaved %.9g, single-channel call %.9g (input %.9g)", C, N, fr, ch, i, x[(size_t)i * C + ch], y[i], in[(size_t)i * C + ch]);
      VP_REQUIRE(bits(m1[0]) == bits(m[ch]), "c19:softclip-memory-differs", "C=%d N=%d frame %d channel %d: memory interleaved %.9g, single-channel %.9g", C, N, fr, ch, m[ch], m1[0]);
      mem_ref[ch] = m1[0];
    }
    for (int ch = 0; ch < C; ch++) mem[ch] = m[ch];
    fp = mix(fp, N);
  }
  for (int ch = 0; ch < C; ch++) { rep.labelf("shape:%s", SHAPE_NAME[shape[ch]]); fp = mix(fp, shape[ch] * 100 + (uint64_t)(amp[ch] * 7)); }
  rep.labelf("channels:%d", C);
  if (any_clip) rep.label("clipping-active");
  if (any_pass) rep.label("pass-through-checked");
  if (any_mem_carry) rep.label("memory-carried-into-frame");
  if (any_edge) rep.label("sign-change-at-frame-edge");
  if (nframes > 1) rep.label("multi-frame");
  // non-trivial: the non-linearity was applied to at least one channel (a sample outside [-1,1]) or a
  // non-zero memory entered a frame
  if (any_clip || any_mem_carry) rep.nontrivial();
  rep.fingerprint(fp);
  rep.note("soft clip: C=%d, %d frame(s), last N=%d, channel 0: %s amp %g, clipping=%d memory-carry=%d", C, nframes, lastN, SHAPE_NAME[shape[0]], amp[0], any_clip, any_mem_carry);
  return 0;
}
