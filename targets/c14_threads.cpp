// C14: independent codec instances do not interfere when used concurrently,
// one thread per object.
//
// A case decodes T = 2..12 thread workloads.  Each workload is an object kind
// (encoder; decoder fed by its own encoder; multistream encoder/decoder pair;
// repacketizer + packet helpers; projection encoder/decoder), a configuration,
// an operation list (create via *_create or *_init in caller memory, ctl
// changes, encode/decode of a seeded signal, loss concealment, FEC, reset,
// re-creation, destroy) and a perturbation schedule (sched_yield / short busy
// spins at operation boundaries).  All threads meet on a barrier, so the first
// library calls (CPU detection, static mode lookup, anything lazily built)
// overlap.  Afterwards every workload is executed once more, alone, on fresh
// objects in the same process.
//
// Oracles: (1) the flt-tsan build: any ThreadSanitizer report aborts the
// process (exit code 97) and is attributed to the case by the runner;
// (2) every thread's digest (FNV-1a of all return codes, packets, PCM and
// final ranges) equals the digest of the serial re-execution;
// (3) non-trivial = at least two threads were inside libopus at the same time
// (atomic gauge).
//
// The harness' own shared state is the gauge and the start counter (relaxed
// std::atomic: race-free for TSan and, being relaxed, no happens-before edge
// that could hide a library race), the pthread barrier, and per-thread result
// slots that the main thread reads only after pthread_join.
#include "vp.hpp"
#include "common.hpp"
#include "codec_util.hpp"
#include <atomic>
#include <memory>
#include <pthread.h>
#include <sched.h>

using namespace vp;

const TargetInfo vp_info = {"c14_threads", 160, 2000};

extern "C" int opus_verif_arch_cap;

namespace {

enum Kind { K_ENC = 0, K_DEC, K_MS, K_REPACK, K_PROJ, NKINDS };
const char* const KIND_NAME[NKINDS] = {"encoder", "decoder", "multistream", "repacketizer", "projection"};

enum OpType {
  OP_CODE = 0,   // encode one frame (and decode it / add it to the repacketizer)
  OP_CTL,        // setting change on the encoder-like object
  OP_RESET,      // OPUS_RESET_STATE (repacketizer: init)
  OP_RECREATE,   // destroy + create again
  OP_GET,        // getters / packet helpers
  OP_LOSS,       // packet dropped: concealment
  OP_FEC,        // packet dropped, recovered from the next one
  OP_DCTL,       // setting change on the decoder
  OP_OUT,        // repacketizer out
  OP_OUT_RANGE,  // repacketizer out_range
  OP_PAD,        // pad / unpad
  OP_SOFTCLIP,
  NOPTYPES
};
const char* const OP_NAME[NOPTYPES] = {"code", "ctl", "reset", "recreate", "get", "loss", "fec", "dctl", "out", "out_range", "pad", "softclip"};

struct Op {
  uint8_t type = OP_CODE;
  uint8_t pert = 0;      // perturbation before the operation: 0 none, 1 yield, >= 2 spin
  int a = 0, b = 0, c = 0, d = 0;
};

struct Workload {
  int kind = K_ENC;
  bool inplace = false;        // objects initialised in caller memory instead of *_create
  cu::EncCfg cfg;              // encoder-side configuration (Fs, channels, application, settings)
  int decFs = 48000, decCh = 1;
  bool fec_profile = false;    // decoder workloads: encoder set up so that packets carry LBRR, long packets likely
  // multistream
  int ms_family = -1;          // -1: explicit layout, else surround mapping family
  int channels = 1, streams = 1, coupled = 0;
  unsigned char mapping[16];
  // projection
  int order = 1, nondiegetic = 0;
  int rp_dur = 3;              // repacketizer: fixed duration index of the packets
  int start_spin = 0;
  int sig_family = 0; uint32_t sig_seed = 0; float amp = 0.5f;
  std::vector<Op> ops;
  std::vector<float> sig;      // interleaved, `channels` wide, sig_frames long
  int sig_frames = 0;
};

// ------------------------------------------------------------------ signals
// Cheap seeded generator (the shared siggen families cost too much under TSan).
void make_signal(int fam, uint32_t seed, int Fs, int ch, int n, float amp, std::vector<float>& out) {
  out.assign((size_t)n * ch, 0.f);
  Rng rng(seed * 2654435761u + fam);
  const double PI = 3.14159265358979323846;
  double fr[3], cs[3], sn[3], re[3], im[3];
  for (int k = 0; k < 3; k++) {
    fr[k] = 90.0 * std::pow(2.0, rng.unit() * 6.0);
    if (fr[k] > 0.42 * Fs) fr[k] *= 0.25;
    cs[k] = std::cos(2 * PI * fr[k] / Fs); sn[k] = std::sin(2 * PI * fr[k] / Fs);
    re[k] = std::cos(rng.unit() * 6.28); im[k] = std::sin(rng.unit() * 6.28);
  }
  int pitch = Fs / (90 + (int)(rng.next() % 200));
  double lp = 0, r1 = 0, r2 = 0;
  double rc = 2 * 0.97 * std::cos(2 * PI * 700.0 / Fs), rr = 0.97 * 0.97;
  int seg = Fs / 25;   // 40 ms
  for (int i = 0; i < n; i++) {
    double l = 0, r = 0;
    for (int k = 0; k < 3; k++) { double t = re[k] * cs[k] - im[k] * sn[k]; im[k] = re[k] * sn[k] + im[k] * cs[k]; re[k] = t; }
    double w = rng.sym();
    switch (fam) {
      case 0: l = (re[0] + re[1] + re[2]) / 3; r = (im[0] + im[1] * 0.5) / 1.5; break;                         // tones
      case 1: lp += 0.25 * (w - lp); l = lp * 1.6; r = w * 0.4; break;                                           // noise
      case 2: break;                                                                                             // digital silence
      case 3: {                                                                                                  // speech-like: pulse train through a resonator, pauses
        double ex = (i % pitch) == 0 ? 1.0 : 0.02 * w;
        double y = ex + rc * r1 - rr * r2; r2 = r1; r1 = y;
        bool on = ((i / seg) % 5) != 4;
        l = on ? 0.25 * y : 0.0; r = 0.6 * l; break; }
      case 4: l = (i % pitch) == 0 ? 1.0 : 0.0; r = ((i + pitch / 2) % pitch) == 0 ? -1.0 : 0.0; break;          // clicks
      case 5: l = ((i / (Fs / 220 + 1)) & 1) ? 1.0 : -1.0; r = -l; break;                                        // full-scale square
      default: { bool on = ((i / seg) & 1) == 0; l = on ? re[0] : 0.0; r = on ? im[1] : 0.0; break; }            // tone bursts / silence
    }
    for (int c = 0; c < ch; c++) {
      double v = (c & 1) ? r : l;
      if (c >= 2) v *= 1.0 - 0.07 * c;
      out[(size_t)i * ch + c] = (float)(amp * v);
    }
  }
}

// ------------------------------------------------------------------ shared harness state
std::atomic<int> g_inside{0};    // number of threads currently inside a libopus call
std::atomic<int> g_arrived{0};   // tight start rendezvous (after the pthread barrier)
bool g_first_case = true;        // main thread only

inline void busy(int iters) { for (int i = 0; i < iters; i++) __asm__ __volatile__("pause" ::: "memory"); }

struct Ctx {
  bool threaded = false;
  uint64_t h = 1469598103934665603ull;
  int calls = 0, maxconc = 0, coded_ok = 0, transitions = 0, last_mode = -1, plc = 0, fec = 0, fec_lbrr = 0, fec_lbrr_multi = 0, created = 0;
  int harness_err = 0;            // object creation failed etc. (reported, never expected)
  std::vector<uint64_t> trail;    // digest after each operation
  inline void enter() { int v = g_inside.fetch_add(1, std::memory_order_relaxed) + 1; if (v > maxconc) maxconc = v; calls++; }
  inline void leave() { g_inside.fetch_sub(1, std::memory_order_relaxed); }
  inline void put(const void* p, size_t n) { if (n) h = fnv1a(p, n, h); }
  inline void puti(int64_t v) { h = fnv1a(&v, sizeof v, h); }
  void see_toc(int toc) {
    int cfg = (toc >> 3) & 31;
    int mode = cfg < 12 ? 0 : cfg < 16 ? 1 : 2;
    if (last_mode >= 0 && mode != last_mode) transitions++;
    last_mode = mode;
  }
};

// every library call goes through one of these two macros
#define LIB(expr) ([&]() { X.enter(); auto r__ = (expr); X.leave(); return r__; }())
#define LIBV(expr) do { X.enter(); (expr); X.leave(); } while (0)

inline void perturb(const Ctx& X, int pert) {
  if (!X.threaded || pert == 0) return;
  if (pert == 1) sched_yield(); else busy((pert - 1) * 400);
}

// ------------------------------------------------------------------ object holders
struct EncH {
  OpusEncoder* p = nullptr; bool inplace = false;
  int open(Ctx& X, const cu::EncCfg& e, bool inpl) {
    inplace = inpl; int err = OPUS_OK;
    if (inplace) {
      int sz = LIB(opus_encoder_get_size(e.ch));
      X.puti(sz);
      p = (OpusEncoder*)malloc(sz > 0 ? sz : 1);
      err = LIB(opus_encoder_init(p, e.Fs, e.ch, e.app));
    } else {
      p = LIB(opus_encoder_create(e.Fs, e.ch, e.app, &err));
    }
    X.puti(err); X.created++;
    if (!p || err != OPUS_OK) { close(X); return err ? err : OPUS_ALLOC_FAIL; }
    // the same requests as cu::apply_cfg, through the gauge
    const int reqs[][2] = {
      {OPUS_SET_BITRATE_REQUEST, e.bitrate}, {OPUS_SET_VBR_REQUEST, e.vbr}, {OPUS_SET_VBR_CONSTRAINT_REQUEST, e.cvbr},
      {OPUS_SET_COMPLEXITY_REQUEST, e.complexity}, {OPUS_SET_BANDWIDTH_REQUEST, e.bandwidth}, {OPUS_SET_MAX_BANDWIDTH_REQUEST, e.max_bandwidth},
      {OPUS_SET_FORCE_CHANNELS_REQUEST, (e.force_channels == OPUS_AUTO || e.force_channels <= e.ch) ? e.force_channels : OPUS_AUTO},
      {OPUS_SET_FORCE_MODE_REQUEST, e.force_mode}, {OPUS_SET_INBAND_FEC_REQUEST, e.fec}, {OPUS_SET_PACKET_LOSS_PERC_REQUEST, e.loss},
      {OPUS_SET_DTX_REQUEST, e.dtx}, {OPUS_SET_LSB_DEPTH_REQUEST, e.lsb}, {OPUS_SET_PREDICTION_DISABLED_REQUEST, e.pred_disabled},
      {OPUS_SET_PHASE_INVERSION_DISABLED_REQUEST, e.phase_inv_disabled}, {OPUS_SET_SIGNAL_REQUEST, e.signal}};
    for (auto& rq : reqs) { int r = LIB(opus_encoder_ctl(p, rq[0], (opus_int32)rq[1])); X.puti(r); }
    return OPUS_OK;
  }
  void close(Ctx& X) {
    if (!p) return;
    if (inplace) free(p); else LIBV(opus_encoder_destroy(p));
    p = nullptr;
  }
};

struct DecH {
  OpusDecoder* p = nullptr; bool inplace = false;
  int open(Ctx& X, int Fs, int ch, bool inpl) {
    inplace = inpl; int err = OPUS_OK;
    if (inplace) {
      int sz = LIB(opus_decoder_get_size(ch));
      X.puti(sz);
      p = (OpusDecoder*)malloc(sz > 0 ? sz : 1);
      err = LIB(opus_decoder_init(p, Fs, ch));
    } else {
      p = LIB(opus_decoder_create(Fs, ch, &err));
    }
    X.puti(err); X.created++;
    if (!p || err != OPUS_OK) { close(X); return err ? err : OPUS_ALLOC_FAIL; }
    return OPUS_OK;
  }
  void close(Ctx& X) {
    if (!p) return;
    if (inplace) free(p); else LIBV(opus_decoder_destroy(p));
    p = nullptr;
  }
};

// one frame of the workload's signal in the requested sample format, then the encode call
template <class Enc16, class Enc24, class EncF>
int encode_frame(Ctx& X, const Workload& w, int& pos, int fs, int ch, int fmt, unsigned char* out, int maxb, Enc16 e16, Enc24 e24, EncF ef) {
  if (pos + fs > w.sig_frames) pos = 0;
  const float* x = w.sig.data() + (size_t)pos * ch;
  pos += fs;
  size_t n = (size_t)fs * ch;
  int ret;
  if (fmt == 0) {
    HeapBuf<opus_int16> in(n);
    for (size_t i = 0; i < n; i++) { double v = std::floor(x[i] * 32768.0 + 0.5); in[i] = (opus_int16)(v > 32767 ? 32767 : v < -32768 ? -32768 : v); }
    ret = LIB(e16(in.p, fs, out, maxb));
  } else if (fmt == 1) {
    HeapBuf<float> in(n);
    memcpy(in.p, x, n * sizeof(float));
    ret = LIB(ef(in.p, fs, out, maxb));
  } else {
    HeapBuf<opus_int32> in(n);
    for (size_t i = 0; i < n; i++) { double v = std::floor(x[i] * 8388608.0 + 0.5); in[i] = (opus_int32)(v > 8388607 ? 8388607 : v < -8388608 ? -8388608 : v); }
    ret = LIB(e24(in.p, fs, out, maxb));
  }
  X.puti(ret);
  if (ret > 0) { X.put(out, (size_t)ret); X.coded_ok++; }
  return ret;
}

int enc_frame(Ctx& X, const Workload& w, EncH& enc, int& pos, int fs, int fmt, unsigned char* out, int maxb) {
  int ret = encode_frame(X, w, pos, fs, w.cfg.ch, fmt, out, maxb,
                         [&](const opus_int16* in, int n, unsigned char* o, int m) { return opus_encode(enc.p, in, n, o, m); },
                         [&](const opus_int32* in, int n, unsigned char* o, int m) { return opus_encode24(enc.p, in, n, o, m); },
                         [&](const float* in, int n, unsigned char* o, int m) { return opus_encode_float(enc.p, in, n, o, m); });
  opus_uint32 rng = 0;
  int r = LIB(opus_encoder_ctl(enc.p, OPUS_GET_FINAL_RANGE(&rng)));
  X.puti(r); X.puti(rng);
  if (ret > 0) X.see_toc(out[0]);
  return ret;
}

void enc_getters(Ctx& X, EncH& enc) {
  opus_int32 v = 0;
  static const int G[] = {OPUS_GET_LOOKAHEAD_REQUEST, OPUS_GET_BANDWIDTH_REQUEST, OPUS_GET_SAMPLE_RATE_REQUEST, OPUS_GET_IN_DTX_REQUEST,
                          OPUS_GET_BITRATE_REQUEST, OPUS_GET_COMPLEXITY_REQUEST, OPUS_GET_VBR_REQUEST};
  for (int g : G) { v = 0; int r = LIB(opus_encoder_ctl(enc.p, g, &v)); X.puti(r); X.puti(v); }
  const char* s = LIB(opus_get_version_string());
  X.put(s, strlen(s));
  s = LIB(opus_strerror(OPUS_BAD_ARG));
  X.put(s, strlen(s));
}

// ------------------------------------------------------------------ kind: encoder
void run_enc(const Workload& w, Ctx& X) {
  EncH enc;
  if (enc.open(X, w.cfg, w.inplace) != OPUS_OK) { X.harness_err++; return; }
  int pos = 0;
  for (const Op& op : w.ops) {
    perturb(X, op.pert);
    switch (op.type) {
      case OP_CODE: {
        int fs = cu::frame_samples(w.cfg.Fs, op.a);
        HeapBuf<unsigned char> out(op.c);
        enc_frame(X, w, enc, pos, fs, op.b, out.p, op.c);
        break; }
      case OP_CTL: { int r = LIB(opus_encoder_ctl(enc.p, op.a, (opus_int32)op.b)); X.puti(r); break; }
      case OP_RESET: { int r = LIB(opus_encoder_ctl(enc.p, OPUS_RESET_STATE)); X.puti(r); break; }
      case OP_RECREATE:
        enc.close(X);
        if (enc.open(X, w.cfg, op.a ? !w.inplace : w.inplace) != OPUS_OK) { X.harness_err++; return; }
        break;
      default: enc_getters(X, enc); break;
    }
    X.trail.push_back(X.h);
  }
  enc.close(X);
}

// ------------------------------------------------------------------ kind: decoder (with its own encoder)
void dec_call(Ctx& X, DecH& dec, const unsigned char* pkt, int len, int samples, int ch, int fmt, int fec) {
  int ret;
  size_t n = (size_t)samples * ch;
  if (fmt == 0) { HeapBuf<opus_int16> pcm(n); ret = LIB(opus_decode(dec.p, pkt, len, pcm.p, samples, fec)); X.puti(ret); if (ret > 0) X.put(pcm.p, (size_t)ret * ch * sizeof(opus_int16)); }
  else if (fmt == 1) { HeapBuf<float> pcm(n); ret = LIB(opus_decode_float(dec.p, pkt, len, pcm.p, samples, fec)); X.puti(ret); if (ret > 0) X.put(pcm.p, (size_t)ret * ch * sizeof(float)); }
  else { HeapBuf<opus_int32> pcm(n); ret = LIB(opus_decode24(dec.p, pkt, len, pcm.p, samples, fec)); X.puti(ret); if (ret > 0) X.put(pcm.p, (size_t)ret * ch * sizeof(opus_int32)); }
  if (ret > 0) X.coded_ok++;
  opus_uint32 rng = 0;
  int r = LIB(opus_decoder_ctl(dec.p, OPUS_GET_FINAL_RANGE(&rng)));
  X.puti(r); X.puti(rng);
}

void run_dec(const Workload& w, Ctx& X) {
  EncH enc; DecH dec;
  if (enc.open(X, w.cfg, w.inplace) != OPUS_OK) { X.harness_err++; return; }
  if (dec.open(X, w.decFs, w.decCh, w.inplace) != OPUS_OK) { enc.close(X); X.harness_err++; return; }
  int pos = 0;
  for (const Op& op : w.ops) {
    perturb(X, op.pert);
    int fs = cu::frame_samples(w.cfg.Fs, op.a);
    int ds = (int)((long long)fs * w.decFs / w.cfg.Fs);
    switch (op.type) {
      case OP_CODE: {
        HeapBuf<unsigned char> pkt(op.c);
        int len = enc_frame(X, w, enc, pos, fs, op.b, pkt.p, op.c);
        if (len > 0) dec_call(X, dec, pkt.p, len, ds, w.decCh, op.d, 0);
        break; }
      case OP_LOSS: {
        HeapBuf<unsigned char> pkt(op.c);
        enc_frame(X, w, enc, pos, fs, op.b, pkt.p, op.c);      // the encoder moves on, the packet is dropped
        dec_call(X, dec, nullptr, 0, ds, w.decCh, op.d, 0);
        X.plc++;
        break; }
      case OP_FEC: {
        HeapBuf<unsigned char> lost(op.c), pkt(op.c);
        enc_frame(X, w, enc, pos, fs, op.b, lost.p, op.c);
        int len = enc_frame(X, w, enc, pos, fs, op.b, pkt.p, op.c);
        if (len > 0) {
          int lb = LIB(opus_packet_has_lbrr(pkt.p, len)); X.puti(lb);
          if (lb > 0) { X.fec_lbrr++; if (op.a >= 4) X.fec_lbrr_multi++; }
          dec_call(X, dec, pkt.p, len, ds, w.decCh, op.d, 1);
          dec_call(X, dec, pkt.p, len, ds, w.decCh, op.d, 0);
          X.fec++;
        }
        break; }
      case OP_CTL: { int r = LIB(opus_encoder_ctl(enc.p, op.a, (opus_int32)op.b)); X.puti(r); break; }
      case OP_DCTL: {
        if (op.a == 0) { int r = LIB(opus_decoder_ctl(dec.p, OPUS_SET_GAIN(op.b))); X.puti(r); }
        else if (op.a == 1) { int r = LIB(opus_decoder_ctl(dec.p, OPUS_SET_PHASE_INVERSION_DISABLED(op.b & 1))); X.puti(r); }
        else {
          opus_int32 v = 0;
          static const int G[] = {OPUS_GET_PITCH_REQUEST, OPUS_GET_LAST_PACKET_DURATION_REQUEST, OPUS_GET_BANDWIDTH_REQUEST, OPUS_GET_GAIN_REQUEST, OPUS_GET_SAMPLE_RATE_REQUEST};
          for (int g : G) { v = 0; int r = LIB(opus_decoder_ctl(dec.p, g, &v)); X.puti(r); X.puti(v); }
        }
        break; }
      case OP_RESET: {
        int r = LIB(opus_decoder_ctl(dec.p, OPUS_RESET_STATE)); X.puti(r);
        if (op.a) { r = LIB(opus_encoder_ctl(enc.p, OPUS_RESET_STATE)); X.puti(r); }
        break; }
      case OP_RECREATE:
        dec.close(X);
        if (dec.open(X, w.decFs, w.decCh, op.a ? !w.inplace : w.inplace) != OPUS_OK) { enc.close(X); X.harness_err++; return; }
        break;
      default: enc_getters(X, enc); break;
    }
    X.trail.push_back(X.h);
  }
  dec.close(X);
  enc.close(X);
}

// ------------------------------------------------------------------ kind: multistream pair
struct MSPair {
  OpusMSEncoder* e = nullptr; OpusMSDecoder* d = nullptr; bool inplace = false;
  int streams = 0, coupled = 0; unsigned char mapping[256];
  int open(Ctx& X, const Workload& w, bool inpl) {
    inplace = inpl; int err = OPUS_OK;
    const cu::EncCfg& c = w.cfg;
    memset(mapping, 0, sizeof mapping);
    if (w.ms_family < 0) {
      streams = w.streams; coupled = w.coupled; memcpy(mapping, w.mapping, sizeof w.mapping);
      if (inplace) {
        int sz = LIB(opus_multistream_encoder_get_size(streams, coupled)); X.puti(sz);
        e = (OpusMSEncoder*)malloc(sz > 0 ? sz : 1);
        err = LIB(opus_multistream_encoder_init(e, c.Fs, w.channels, streams, coupled, mapping, c.app));
      } else e = LIB(opus_multistream_encoder_create(c.Fs, w.channels, streams, coupled, mapping, c.app, &err));
    } else {
      if (inplace) {
        int sz = LIB(opus_multistream_surround_encoder_get_size(w.channels, w.ms_family)); X.puti(sz);
        e = (OpusMSEncoder*)malloc(sz > 0 ? sz : 1);
        err = LIB(opus_multistream_surround_encoder_init(e, c.Fs, w.channels, w.ms_family, &streams, &coupled, mapping, c.app));
      } else e = LIB(opus_multistream_surround_encoder_create(c.Fs, w.channels, w.ms_family, &streams, &coupled, mapping, c.app, &err));
    }
    X.puti(err); X.puti(streams); X.puti(coupled); X.put(mapping, (size_t)w.channels); X.created++;
    if (!e || err != OPUS_OK) { close(X); return err ? err : OPUS_ALLOC_FAIL; }
    if (inplace) {
      int sz = LIB(opus_multistream_decoder_get_size(streams, coupled)); X.puti(sz);
      d = (OpusMSDecoder*)malloc(sz > 0 ? sz : 1);
      err = LIB(opus_multistream_decoder_init(d, c.Fs, w.channels, streams, coupled, mapping));
    } else d = LIB(opus_multistream_decoder_create(c.Fs, w.channels, streams, coupled, mapping, &err));
    X.puti(err); X.created++;
    if (!d || err != OPUS_OK) { close(X); return err ? err : OPUS_ALLOC_FAIL; }
    const int reqs[][2] = {{OPUS_SET_BITRATE_REQUEST, c.bitrate}, {OPUS_SET_VBR_REQUEST, c.vbr}, {OPUS_SET_VBR_CONSTRAINT_REQUEST, c.cvbr},
                           {OPUS_SET_COMPLEXITY_REQUEST, c.complexity}, {OPUS_SET_INBAND_FEC_REQUEST, c.fec}, {OPUS_SET_PACKET_LOSS_PERC_REQUEST, c.loss},
                           {OPUS_SET_DTX_REQUEST, c.dtx}};
    for (auto& rq : reqs) { int r = LIB(opus_multistream_encoder_ctl(e, rq[0], (opus_int32)rq[1])); X.puti(r); }
    return OPUS_OK;
  }
  void close(Ctx& X) {
    if (e) { if (inplace) free(e); else LIBV(opus_multistream_encoder_destroy(e)); e = nullptr; }
    if (d) { if (inplace) free(d); else LIBV(opus_multistream_decoder_destroy(d)); d = nullptr; }
  }
};

void run_ms(const Workload& w, Ctx& X) {
  MSPair ms;
  if (ms.open(X, w, w.inplace) != OPUS_OK) { X.harness_err++; return; }
  int pos = 0;
  const int ch = w.channels;
  for (const Op& op : w.ops) {
    perturb(X, op.pert);
    int fs = cu::frame_samples(w.cfg.Fs, op.a);
    switch (op.type) {
      case OP_CODE: case OP_LOSS: {
        HeapBuf<unsigned char> pkt(op.c);
        int len = encode_frame(X, w, pos, fs, ch, op.b, pkt.p, op.c,
                               [&](const opus_int16* in, int n, unsigned char* o, int m) { return opus_multistream_encode(ms.e, in, n, o, m); },
                               [&](const opus_int32* in, int n, unsigned char* o, int m) { return opus_multistream_encode24(ms.e, in, n, o, m); },
                               [&](const float* in, int n, unsigned char* o, int m) { return opus_multistream_encode_float(ms.e, in, n, o, m); });
        opus_uint32 rng = 0;
        int r = LIB(opus_multistream_encoder_ctl(ms.e, OPUS_GET_FINAL_RANGE(&rng))); X.puti(r); X.puti(rng);
        bool lost = op.type == OP_LOSS;
        if (len > 0 || lost) {
          int ret; size_t n = (size_t)fs * ch;
          const unsigned char* dp = lost ? nullptr : pkt.p; int dl = lost ? 0 : len;
          if (op.d == 0) { HeapBuf<opus_int16> pcm(n); ret = LIB(opus_multistream_decode(ms.d, dp, dl, pcm.p, fs, 0)); X.puti(ret); if (ret > 0) X.put(pcm.p, (size_t)ret * ch * 2); }
          else if (op.d == 1) { HeapBuf<float> pcm(n); ret = LIB(opus_multistream_decode_float(ms.d, dp, dl, pcm.p, fs, 0)); X.puti(ret); if (ret > 0) X.put(pcm.p, (size_t)ret * ch * 4); }
          else { HeapBuf<opus_int32> pcm(n); ret = LIB(opus_multistream_decode24(ms.d, dp, dl, pcm.p, fs, 0)); X.puti(ret); if (ret > 0) X.put(pcm.p, (size_t)ret * ch * 4); }
          if (ret > 0) X.coded_ok++;
          if (lost) X.plc++;
          r = LIB(opus_multistream_decoder_ctl(ms.d, OPUS_GET_FINAL_RANGE(&rng))); X.puti(r); X.puti(rng);
        }
        break; }
      case OP_CTL: { int r = LIB(opus_multistream_encoder_ctl(ms.e, op.a, (opus_int32)op.b)); X.puti(r); break; }
      case OP_RESET: {
        int r = LIB(opus_multistream_encoder_ctl(ms.e, OPUS_RESET_STATE)); X.puti(r);
        r = LIB(opus_multistream_decoder_ctl(ms.d, OPUS_RESET_STATE)); X.puti(r);
        break; }
      case OP_RECREATE:
        ms.close(X);
        if (ms.open(X, w, op.a ? !w.inplace : w.inplace) != OPUS_OK) { X.harness_err++; return; }
        break;
      default: {
        // per-stream state access and getters
        OpusEncoder* se = nullptr; OpusDecoder* sd = nullptr; opus_int32 v = 0;
        int r = LIB(opus_multistream_encoder_ctl(ms.e, OPUS_MULTISTREAM_GET_ENCODER_STATE(op.a % ms.streams, &se))); X.puti(r);
        if (r == OPUS_OK && se) { r = LIB(opus_encoder_ctl(se, OPUS_GET_BITRATE(&v))); X.puti(r); X.puti(v); }
        r = LIB(opus_multistream_decoder_ctl(ms.d, OPUS_MULTISTREAM_GET_DECODER_STATE(op.a % ms.streams, &sd))); X.puti(r);
        if (r == OPUS_OK && sd) { r = LIB(opus_decoder_ctl(sd, OPUS_GET_LAST_PACKET_DURATION(&v))); X.puti(r); X.puti(v); }
        r = LIB(opus_multistream_encoder_ctl(ms.e, OPUS_GET_LOOKAHEAD(&v))); X.puti(r); X.puti(v);
        break; }
    }
    X.trail.push_back(X.h);
  }
  ms.close(X);
}

// ------------------------------------------------------------------ kind: projection pair
struct ProjPair {
  OpusProjectionEncoder* e = nullptr; OpusProjectionDecoder* d = nullptr; bool inplace = false;
  int streams = 0, coupled = 0;
  int open(Ctx& X, const Workload& w, bool inpl) {
    inplace = inpl; int err = OPUS_OK;
    const cu::EncCfg& c = w.cfg;
    if (inplace) {
      int sz = LIB(opus_projection_ambisonics_encoder_get_size(w.channels, 3)); X.puti(sz);
      e = (OpusProjectionEncoder*)malloc(sz > 0 ? sz : 1);
      err = LIB(opus_projection_ambisonics_encoder_init(e, c.Fs, w.channels, 3, &streams, &coupled, c.app));
    } else e = LIB(opus_projection_ambisonics_encoder_create(c.Fs, w.channels, 3, &streams, &coupled, c.app, &err));
    X.puti(err); X.puti(streams); X.puti(coupled); X.created++;
    if (!e || err != OPUS_OK) { close(X); return err ? err : OPUS_ALLOC_FAIL; }
    const int reqs[][2] = {{OPUS_SET_BITRATE_REQUEST, c.bitrate}, {OPUS_SET_VBR_REQUEST, c.vbr}, {OPUS_SET_COMPLEXITY_REQUEST, c.complexity}};
    for (auto& rq : reqs) { int r = LIB(opus_projection_encoder_ctl(e, rq[0], (opus_int32)rq[1])); X.puti(r); }
    opus_int32 msize = 0, gain = 0;
    int r = LIB(opus_projection_encoder_ctl(e, OPUS_PROJECTION_GET_DEMIXING_MATRIX_SIZE(&msize))); X.puti(r); X.puti(msize);
    r = LIB(opus_projection_encoder_ctl(e, OPUS_PROJECTION_GET_DEMIXING_MATRIX_GAIN(&gain))); X.puti(r); X.puti(gain);
    if (msize <= 0) { close(X); return OPUS_INTERNAL_ERROR; }
    HeapBuf<unsigned char> mat((size_t)msize);
    r = LIB(opus_projection_encoder_ctl(e, OPUS_PROJECTION_GET_DEMIXING_MATRIX(mat.p, msize))); X.puti(r); X.put(mat.p, (size_t)msize);
    if (inplace) {
      int sz = LIB(opus_projection_decoder_get_size(w.channels, streams, coupled)); X.puti(sz);
      d = (OpusProjectionDecoder*)malloc(sz > 0 ? sz : 1);
      err = LIB(opus_projection_decoder_init(d, c.Fs, w.channels, streams, coupled, mat.p, msize));
    } else d = LIB(opus_projection_decoder_create(c.Fs, w.channels, streams, coupled, mat.p, msize, &err));
    X.puti(err); X.created++;
    if (!d || err != OPUS_OK) { close(X); return err ? err : OPUS_ALLOC_FAIL; }
    return OPUS_OK;
  }
  void close(Ctx& X) {
    if (e) { if (inplace) free(e); else LIBV(opus_projection_encoder_destroy(e)); e = nullptr; }
    if (d) { if (inplace) free(d); else LIBV(opus_projection_decoder_destroy(d)); d = nullptr; }
  }
};

void run_proj(const Workload& w, Ctx& X) {
  ProjPair pj;
  if (pj.open(X, w, w.inplace) != OPUS_OK) { X.harness_err++; return; }
  int pos = 0;
  const int ch = w.channels;
  for (const Op& op : w.ops) {
    perturb(X, op.pert);
    int fs = cu::frame_samples(w.cfg.Fs, op.a);
    switch (op.type) {
      case OP_CODE: case OP_LOSS: {
        HeapBuf<unsigned char> pkt(op.c);
        int len = encode_frame(X, w, pos, fs, ch, op.b, pkt.p, op.c,
                               [&](const opus_int16* in, int n, unsigned char* o, int m) { return opus_projection_encode(pj.e, in, n, o, m); },
                               [&](const opus_int32* in, int n, unsigned char* o, int m) { return opus_projection_encode24(pj.e, in, n, o, m); },
                               [&](const float* in, int n, unsigned char* o, int m) { return opus_projection_encode_float(pj.e, in, n, o, m); });
        opus_uint32 rng = 0;
        int r = LIB(opus_projection_encoder_ctl(pj.e, OPUS_GET_FINAL_RANGE(&rng))); X.puti(r); X.puti(rng);
        bool lost = op.type == OP_LOSS;
        if (len > 0 || lost) {
          int ret; size_t n = (size_t)fs * ch;
          const unsigned char* dp = lost ? nullptr : pkt.p; int dl = lost ? 0 : len;
          if (op.d == 0) { HeapBuf<opus_int16> pcm(n); ret = LIB(opus_projection_decode(pj.d, dp, dl, pcm.p, fs, 0)); X.puti(ret); if (ret > 0) X.put(pcm.p, (size_t)ret * ch * 2); }
          else if (op.d == 1) { HeapBuf<float> pcm(n); ret = LIB(opus_projection_decode_float(pj.d, dp, dl, pcm.p, fs, 0)); X.puti(ret); if (ret > 0) X.put(pcm.p, (size_t)ret * ch * 4); }
          else { HeapBuf<opus_int32> pcm(n); ret = LIB(opus_projection_decode24(pj.d, dp, dl, pcm.p, fs, 0)); X.puti(ret); if (ret > 0) X.put(pcm.p, (size_t)ret * ch * 4); }
          if (ret > 0) X.coded_ok++;
          if (lost) X.plc++;
          r = LIB(opus_projection_decoder_ctl(pj.d, OPUS_GET_FINAL_RANGE(&rng))); X.puti(r); X.puti(rng);
        }
        break; }
      case OP_CTL: { int r = LIB(opus_projection_encoder_ctl(pj.e, op.a, (opus_int32)op.b)); X.puti(r); break; }
      case OP_RESET: {
        int r = LIB(opus_projection_encoder_ctl(pj.e, OPUS_RESET_STATE)); X.puti(r);
        r = LIB(opus_projection_decoder_ctl(pj.d, OPUS_RESET_STATE)); X.puti(r);
        break; }
      case OP_RECREATE:
        pj.close(X);
        if (pj.open(X, w, op.a ? !w.inplace : w.inplace) != OPUS_OK) { X.harness_err++; return; }
        break;
      default: { opus_int32 v = 0; int r = LIB(opus_projection_encoder_ctl(pj.e, OPUS_GET_LOOKAHEAD(&v))); X.puti(r); X.puti(v); break; }
    }
    X.trail.push_back(X.h);
  }
  pj.close(X);
}

// ------------------------------------------------------------------ kind: repacketizer and packet helpers
void run_repack(const Workload& w, Ctx& X) {
  EncH enc;
  if (enc.open(X, w.cfg, w.inplace) != OPUS_OK) { X.harness_err++; return; }
  OpusRepacketizer* rp = nullptr;
  bool rp_inplace = w.inplace;
  auto rp_open = [&](bool inpl) {
    rp_inplace = inpl;
    if (inpl) { int sz = LIB(opus_repacketizer_get_size()); X.puti(sz); rp = (OpusRepacketizer*)malloc(sz > 0 ? sz : 1); LIBV(opus_repacketizer_init(rp)); }
    else rp = LIB(opus_repacketizer_create());
    X.created++;
  };
  auto rp_close = [&]() { if (!rp) return; if (rp_inplace) free(rp); else LIBV(opus_repacketizer_destroy(rp)); rp = nullptr; };
  rp_open(w.inplace);
  if (!rp) { enc.close(X); X.harness_err++; return; }
  // the repacketizer keeps pointers into the submitted packets: they stay alive until the next init
  std::vector<std::unique_ptr<HeapBuf<unsigned char>>> held;
  std::vector<unsigned char> last;   // last packet produced (by the encoder or the repacketizer)
  int pos = 0;
  const int fs = cu::frame_samples(w.cfg.Fs, w.rp_dur);
  for (const Op& op : w.ops) {
    perturb(X, op.pert);
    switch (op.type) {
      case OP_CODE: {
        HeapBuf<unsigned char> tmp(1500);
        int len = enc_frame(X, w, enc, pos, fs, op.b, tmp.p, op.c > 1500 ? 1500 : op.c);
        if (len > 0) {
          held.emplace_back(new HeapBuf<unsigned char>((size_t)len));
          memcpy(held.back()->p, tmp.p, (size_t)len);
          int r = LIB(opus_repacketizer_cat(rp, held.back()->p, len)); X.puti(r);
          r = LIB(opus_repacketizer_get_nb_frames(rp)); X.puti(r);
          last.assign(tmp.p, tmp.p + len);
        }
        break; }
      case OP_OUT: case OP_OUT_RANGE: {
        int nf = LIB(opus_repacketizer_get_nb_frames(rp)); X.puti(nf);
        int maxlen = op.c;
        HeapBuf<unsigned char> out((size_t)maxlen);
        int r;
        if (op.type == OP_OUT) r = LIB(opus_repacketizer_out(rp, out.p, maxlen));
        else { int b = nf > 0 ? op.a % nf : 0; int e = nf > 0 ? b + 1 + op.b % (nf - b) : 0; r = LIB(opus_repacketizer_out_range(rp, b, e, out.p, maxlen)); }
        X.puti(r);
        if (r > 0) { X.put(out.p, (size_t)r); X.coded_ok++; last.assign(out.p, out.p + r); }
        break; }
      case OP_RESET: LIBV(opus_repacketizer_init(rp)); held.clear(); break;
      case OP_RECREATE: rp_close(); held.clear(); rp_open(op.a ? !w.inplace : w.inplace); if (!rp) { enc.close(X); X.harness_err++; return; } break;
      case OP_PAD: {
        if (last.empty()) break;
        int len = (int)last.size(), nl = len + 1 + op.a;
        HeapBuf<unsigned char> buf((size_t)nl);
        memcpy(buf.p, last.data(), (size_t)len);
        int r = op.b ? LIB(opus_multistream_packet_pad(buf.p, len, nl, 1)) : LIB(opus_packet_pad(buf.p, len, nl));
        X.puti(r);
        if (r == OPUS_OK) {
          X.put(buf.p, (size_t)nl);
          r = op.b ? LIB(opus_multistream_packet_unpad(buf.p, nl, 1)) : LIB(opus_packet_unpad(buf.p, nl));
          X.puti(r);
          if (r > 0) X.put(buf.p, (size_t)r);
        }
        break; }
      case OP_SOFTCLIP: {
        int n = w.cfg.Fs / 100, ch = w.cfg.ch;
        if (pos + n > w.sig_frames) pos = 0;
        HeapBuf<float> buf((size_t)n * ch);
        for (int i = 0; i < n * ch; i++) buf[i] = w.sig[(size_t)pos * ch + i] * (1.0f + 0.5f * op.a);
        float mem[2] = {0, 0};
        LIBV(opus_pcm_soft_clip(buf.p, n, ch, mem));
        X.put(buf.p, (size_t)n * ch * sizeof(float)); X.put(mem, sizeof mem);
        break; }
      default: {   // OP_GET: parse the last packet
        if (last.empty()) { enc_getters(X, enc); break; }
        HeapBuf<unsigned char> pk(last.size());
        memcpy(pk.p, last.data(), last.size());
        unsigned char toc = 0; const unsigned char* frames[48]; opus_int16 sizes[48]; int off = 0;
        int n = LIB(opus_packet_parse(pk.p, (opus_int32)last.size(), &toc, frames, sizes, &off));
        X.puti(n); X.puti(toc); X.puti(off);
        for (int i = 0; i < n && i < 48; i++) { X.puti(sizes[i]); X.puti(frames[i] - pk.p); }
        X.puti(LIB(opus_packet_get_nb_samples(pk.p, (opus_int32)last.size(), w.cfg.Fs)));
        X.puti(LIB(opus_packet_get_nb_frames(pk.p, (opus_int32)last.size())));
        X.puti(LIB(opus_packet_get_bandwidth(pk.p)));
        X.puti(LIB(opus_packet_get_nb_channels(pk.p)));
        X.puti(LIB(opus_packet_has_lbrr(pk.p, (opus_int32)last.size())));
        break; }
    }
    X.trail.push_back(X.h);
  }
  rp_close();
  enc.close(X);
}

void run_workload(const Workload& w, Ctx& X) {
  switch (w.kind) {
    case K_ENC: run_enc(w, X); break;
    case K_DEC: run_dec(w, X); break;
    case K_MS: run_ms(w, X); break;
    case K_REPACK: run_repack(w, X); break;
    default: run_proj(w, X); break;
  }
}

// ------------------------------------------------------------------ threads
struct ThreadArg {
  const Workload* w = nullptr;
  Ctx ctx;
  pthread_barrier_t* bar = nullptr;
  int T = 0;
};

void* thread_main(void* p) {
  ThreadArg* a = (ThreadArg*)p;
  pthread_barrier_wait(a->bar);
  // tight rendezvous: everybody is runnable now; wait (bounded) until all have been scheduled
  g_arrived.fetch_add(1, std::memory_order_relaxed);
  for (int spins = 0; g_arrived.load(std::memory_order_relaxed) < a->T && spins < 400000; spins++) {
    if ((spins & 255) == 255) sched_yield(); else __asm__ __volatile__("pause" ::: "memory");
  }
  if (a->w->start_spin) busy(a->w->start_spin);
  run_workload(*a->w, a->ctx);
  return nullptr;
}

// ------------------------------------------------------------------ generators
void gen_enc_ctl(Choice& c, int ch, bool single, Op& op) {
  op.type = OP_CTL;
  int w = c.irange(0, single ? 21 : 11);
  switch (w) {
    case 0: op.a = OPUS_SET_BITRATE_REQUEST; op.b = cu::gen_bitrate(c, ch); break;
    case 1: op.a = OPUS_SET_VBR_REQUEST; op.b = c.irange(0, 1); break;
    case 2: op.a = OPUS_SET_VBR_CONSTRAINT_REQUEST; op.b = c.irange(0, 1); break;
    case 3: op.a = OPUS_SET_COMPLEXITY_REQUEST; op.b = c.irange(0, single ? 10 : 5); break;
    case 4: op.a = OPUS_SET_BANDWIDTH_REQUEST; op.b = c.chance(64) ? OPUS_AUTO : cu::BANDWIDTHS[c.irange(0, 4)]; break;
    case 5: op.a = OPUS_SET_MAX_BANDWIDTH_REQUEST; op.b = cu::BANDWIDTHS[c.irange(0, 4)]; break;
    case 6: op.a = OPUS_SET_INBAND_FEC_REQUEST; op.b = c.irange(0, 2); break;
    case 7: op.a = OPUS_SET_PACKET_LOSS_PERC_REQUEST; op.b = c.irange(0, 100); break;
    case 8: op.a = OPUS_SET_DTX_REQUEST; op.b = c.irange(0, 1); break;
    case 9: op.a = OPUS_SET_LSB_DEPTH_REQUEST; op.b = c.irange(8, 24); break;
    case 10: op.a = OPUS_SET_PREDICTION_DISABLED_REQUEST; op.b = c.irange(0, 1); break;
    case 11: op.a = OPUS_SET_PHASE_INVERSION_DISABLED_REQUEST; op.b = c.irange(0, 1); break;
    case 12: { int v = c.irange(0, 2); op.a = OPUS_SET_FORCE_CHANNELS_REQUEST; op.b = (v == 0 || v > ch) ? OPUS_AUTO : v; break; }
    case 13: op.a = OPUS_SET_SIGNAL_REQUEST; op.b = c.pick((const int[]){OPUS_AUTO, OPUS_SIGNAL_VOICE, OPUS_SIGNAL_MUSIC}); break;
    default: { int v = c.irange(0, 3); op.a = OPUS_SET_FORCE_MODE_REQUEST; op.b = v == 3 ? OPUS_AUTO : 1000 + v; break; }   // mode transitions
  }
}

int gen_dur(Choice& c, int lo, int hi) {     // duration index, 3 = 20 ms
  if (c.chance(170)) return 3;
  return c.irange(lo, hi);
}

void gen_workload(Choice& c, Workload& w, int budget) {
  static const int KW[NKINDS] = {5, 5, 2, 3, 1};
  w.kind = c.weighted(KW, NKINDS);
  w.inplace = c.chance(96);
  w.cfg = cu::gen_cfg(c);
  w.sig_family = c.irange(0, 6);
  w.sig_seed = c.u32();
  w.amp = c.pick((const float[]){0.5f, 0.9f, 0.05f, 1.0f});
  w.start_spin = c.chance(128) ? 0 : c.irange(1, 60) * 500;
  int maxops = 15, frames_ch = w.cfg.ch;
  w.channels = w.cfg.ch;
  memset(w.mapping, 0, sizeof w.mapping);
  switch (w.kind) {
    case K_DEC:
      if (c.chance(70)) {
        w.fec_profile = true;
        cu::EncCfg& e = w.cfg;
        e.fec = 1 + c.irange(0, 1); e.loss = c.irange(5, 40); e.bitrate = c.irange(16000, 48000) * e.ch; e.dtx = 0; e.vbr = 1;
        e.force_mode = c.chance(200) ? cu::MODE_SILK : OPUS_AUTO; e.app = OPUS_APPLICATION_VOIP; e.bandwidth = OPUS_AUTO;
        e.max_bandwidth = cu::BANDWIDTHS[c.irange(0, 2)]; e.force_channels = OPUS_AUTO; e.signal = OPUS_SIGNAL_VOICE;
        if (e.Fs < 16000) e.Fs = 16000;
        if (w.sig_family == 2) w.sig_family = 3;
      }
      if (c.chance(140)) { w.decFs = w.cfg.Fs; w.decCh = w.cfg.ch; } else { w.decFs = cu::RATES[4 - c.irange(0, 4)]; w.decCh = 1 + c.irange(0, 1); }
      break;
    case K_MS: {
      int f = c.irange(0, 2);
      if (f == 0) {
        w.ms_family = -1; w.streams = 1 + c.irange(0, 2); w.coupled = c.irange(0, w.streams);
        int n = w.streams + w.coupled;
        for (int i = 0; i < n; i++) w.mapping[i] = (unsigned char)i;
        w.channels = n;
        if (c.chance(80)) { w.mapping[n] = c.boolean() ? 255 : (unsigned char)c.irange(0, n - 1); w.channels = n + 1; }
      } else if (f == 1) { w.ms_family = 1; w.channels = 1 + c.irange(0, 5); }
      else { w.ms_family = c.boolean() ? 0 : 255; w.channels = 1 + c.irange(0, w.ms_family == 0 ? 1 : 3); }
      if (w.cfg.complexity > 5) w.cfg.complexity = 5;
      maxops = 6; frames_ch = w.channels;
      break; }
    case K_PROJ:
      w.order = 1 + (c.chance(50) ? 1 : 0); w.nondiegetic = c.chance(80) ? 2 : 0;
      w.channels = (w.order + 1) * (w.order + 1) + w.nondiegetic;
      if (w.cfg.complexity > 3) w.cfg.complexity = 3;
      maxops = 4; frames_ch = w.channels;
      break;
    case K_REPACK:
      w.rp_dur = 3 - c.irange(0, 3);    // 20, 10, 5, 2.5 ms
      break;
    default: break;
  }
  (void)frames_ch;
  int nops = 1 + c.irange(0, maxops - 1);
  int need = 0;     // signal frames (at the encoder rate) consumed by the operation list
  const bool single = w.kind == K_ENC || w.kind == K_DEC || w.kind == K_REPACK;
  for (int i = 0; i < nops; i++) {
    Op op;
    { int pb = c.byte(); op.pert = pb < 128 ? 0 : pb < 192 ? 1 : (uint8_t)(2 + (pb - 192) / 4); }
    int t = c.byte();
    // per-kind operation mix; small values = plain coding
    switch (w.kind) {
      case K_ENC: op.type = t < 120 ? OP_CODE : t < 200 ? OP_CTL : t < 215 ? OP_RESET : t < 235 ? OP_RECREATE : OP_GET; break;
      case K_DEC: if (w.fec_profile) { op.type = t < 100 ? OP_CODE : t < 200 ? OP_FEC : t < 225 ? OP_LOSS : t < 240 ? OP_CTL : OP_DCTL; break; }
        op.type = t < 90 ? OP_CODE : t < 120 ? OP_LOSS : t < 145 ? OP_FEC : t < 195 ? OP_CTL : t < 215 ? OP_DCTL : t < 228 ? OP_RESET : t < 245 ? OP_RECREATE : OP_GET; break;
      case K_MS: op.type = t < 130 ? OP_CODE : t < 160 ? OP_LOSS : t < 205 ? OP_CTL : t < 220 ? OP_RESET : t < 240 ? OP_RECREATE : OP_GET; break;
      case K_PROJ: op.type = t < 150 ? OP_CODE : t < 180 ? OP_LOSS : t < 215 ? OP_CTL : t < 230 ? OP_RESET : t < 245 ? OP_RECREATE : OP_GET; break;
      default: op.type = t < 100 ? OP_CODE : t < 135 ? OP_OUT : t < 165 ? OP_OUT_RANGE : t < 185 ? OP_PAD : t < 205 ? OP_GET : t < 220 ? OP_SOFTCLIP : t < 235 ? OP_RESET : t < 245 ? OP_RECREATE : OP_CTL; break;
    }
    switch (op.type) {
      case OP_CODE: case OP_LOSS: case OP_FEC: {
        int d = w.kind == K_REPACK ? w.rp_dur : (w.kind == K_MS || w.kind == K_PROJ) ? gen_dur(c, 0, 3) : w.fec_profile ? c.pick((const int[]){3, 4, 5, 3}) : gen_dur(c, 0, 5);
        const int weight = single ? 1 : (w.channels + 1) / 2;      // streams coded per frame
        int cost = cu::DUR400[d] * (op.type == OP_FEC ? 2 : 1) * weight;
        if (cost > budget) { if (op.type == OP_FEC) op.type = OP_CODE; if (w.kind != K_REPACK) d = 3; cost = cu::DUR400[d] * weight; }
        if (cost > budget) {             // audio budget of this thread is used up: a cheap operation instead
          if (single) gen_enc_ctl(c, w.cfg.ch, true, op); else { op.type = OP_GET; op.a = c.irange(0, 7); }
          break;
        }
        budget -= cost;
        op.a = d;
        op.b = c.irange(0, 2);                  // input format: int16, float, int24
        { int m = c.byte(); op.c = m < 200 ? 1500 : m < 230 ? c.irange(2, 120) : c.pick((const int[]){1275, 1276, 1, 3, 400}); }
        if (!single) op.c = op.c < 1500 ? 1500 + op.c : 4000;
        op.d = c.irange(0, 2);                  // output format
        need += cu::frame_samples(w.cfg.Fs, d) * (op.type == OP_FEC ? 2 : 1);
        break; }
      case OP_CTL: gen_enc_ctl(c, w.cfg.ch, single, op); break;
      case OP_DCTL: op.a = c.irange(0, 2); op.b = c.pick((const int[]){0, 256, -256, 1500, -3000, 32767, -32768}); break;
      case OP_RESET: op.a = c.irange(0, 1); break;
      case OP_RECREATE: op.a = c.irange(0, 1); break;
      case OP_OUT: { int m = c.byte(); op.c = m < 220 ? 8000 : c.irange(1, 300); break; }
      case OP_OUT_RANGE: { op.a = c.irange(0, 47); op.b = c.irange(0, 47); int m = c.byte(); op.c = m < 220 ? 8000 : c.irange(1, 300); break; }
      case OP_PAD: op.a = c.chance(200) ? c.irange(0, 40) : c.irange(200, 600); op.b = c.irange(0, 1); break;
      case OP_SOFTCLIP: op.a = c.irange(0, 6); break;
      default: op.a = c.irange(0, 7); break;
    }
    w.ops.push_back(op);
  }
  int minlen = w.cfg.Fs / 50;
  w.sig_frames = need > minlen ? need : minlen;
  make_signal(w.sig_family, w.sig_seed, w.cfg.Fs, w.channels, w.sig_frames, w.amp, w.sig);
}

std::string describe(const Workload& w) {
  char b[256];
  std::string s = KIND_NAME[w.kind];
  snprintf(b, sizeof b, " %s Fs=%d ch=%d", w.inplace ? "init-in-caller-memory" : "create", w.cfg.Fs, w.channels); s += b;
  if (w.kind == K_DEC) { snprintf(b, sizeof b, " dec=%d/%d%s", w.decFs, w.decCh, w.fec_profile ? " fec-profile" : ""); s += b; }
  if (w.kind == K_MS) { snprintf(b, sizeof b, " family=%d streams=%d coupled=%d", w.ms_family, w.streams, w.coupled); s += b; }
  if (w.kind == K_PROJ) { snprintf(b, sizeof b, " order=%d+%d", w.order, w.nondiegetic); s += b; }
  snprintf(b, sizeof b, " app=%d br=%d cx=%d fmode=%d fec=%d dtx=%d sig=%d start_spin=%d ops=[", w.cfg.app, w.cfg.bitrate, w.cfg.complexity, w.cfg.force_mode, w.cfg.fec, w.cfg.dtx, w.sig_family, w.start_spin); s += b;
  for (size_t i = 0; i < w.ops.size(); i++) {
    const Op& o = w.ops[i];
    if (o.type == OP_CODE || o.type == OP_LOSS || o.type == OP_FEC) snprintf(b, sizeof b, "%s%s%s(%gms)", i ? " " : "", o.pert == 0 ? "" : o.pert == 1 ? "y:" : "s:", OP_NAME[o.type], cu::DUR400[o.a] * 2.5);
    else if (o.type == OP_CTL) snprintf(b, sizeof b, "%s%s%s(%d,%d)", i ? " " : "", o.pert == 0 ? "" : o.pert == 1 ? "y:" : "s:", OP_NAME[o.type], o.a, o.b);
    else snprintf(b, sizeof b, "%s%s%s", i ? " " : "", o.pert == 0 ? "" : o.pert == 1 ? "y:" : "s:", OP_NAME[o.type]);
    s += b;
  }
  return s + "]";
}

}  // namespace

int vp_case(Choice& c, Report& rep) {
  const bool first_case = g_first_case;
  g_first_case = false;
  // ---- decode the case
  const int T = 2 + c.irange(0, 10);
  int cap;
  { int b = c.byte(); cap = b < 100 ? 255 : b < 175 ? 0 : 1 + (b % 4); }
  const bool staggered = !c.chance(166);   // otherwise every thread makes its first library call right after the rendezvous
  std::vector<Workload> wl((size_t)T);
  // audio budget per thread in 2.5 ms units weighted by the number of streams: about 1.2 s of single-stream
  // audio per case in total, at least four 20 ms frames per thread (keeps the TSan cases short)
  const int budget = 480 / T > 32 ? 480 / T : 32;
  uint64_t fp = mix(T, cap);
  int kinds_seen[NKINDS] = {0};
  for (int t = 0; t < T; t++) {
    gen_workload(c, wl[t], budget);
    if (!staggered) wl[t].start_spin = 0;
    Workload& w = wl[t];
    kinds_seen[w.kind]++;
    fp = mix(fp, mix(w.kind, mix(w.cfg.Fs, mix(w.channels, w.inplace))));
    for (const Op& o : w.ops) fp = mix(fp, o.type * 16 + (o.type <= OP_LOSS ? o.a : 0));
    if (rep.describing) rep.note("thread %d: %s", t, describe(w).c_str());
  }
  rep.note("T=%d arch_cap=%d start=%s first_case_in_process=%d", T, cap, staggered ? "staggered" : "simultaneous-first-call", (int)first_case);
  rep.fingerprint(fp);

  // ---- threaded pass (first, so that first-use paths of a fresh process run concurrently)
  opus_verif_arch_cap = cap;
  g_arrived.store(0, std::memory_order_relaxed);
  std::vector<ThreadArg> args((size_t)T);
  std::vector<pthread_t> tids((size_t)T);
  pthread_barrier_t bar;
  pthread_barrier_init(&bar, nullptr, (unsigned)T);
  int started = 0;
  for (int t = 0; t < T; t++) {
    args[t].w = &wl[t]; args[t].bar = &bar; args[t].T = T; args[t].ctx.threaded = true;
  }
  for (int t = 0; t < T; t++) {
    if (pthread_create(&tids[t], nullptr, thread_main, &args[t]) != 0) break;
    started++;
  }
  if (started < T) {
    // cannot complete the barrier with fewer threads: this is an infrastructure failure, not a verdict
    fprintf(stderr, "c14: pthread_create failed after %d threads\n", started);
    abort();
  }
  for (int t = 0; t < T; t++) pthread_join(tids[t], nullptr);
  pthread_barrier_destroy(&bar);
  const int left_inside = g_inside.load(std::memory_order_relaxed);

  // ---- serial pass: the same workloads, alone, on fresh objects
  std::vector<Ctx> ser((size_t)T);
  for (int t = 0; t < T; t++) run_workload(wl[t], ser[t]);
  opus_verif_arch_cap = 255;

  // ---- verdict
  int maxconc = 0, calls = 0, coded = 0, trans_threads = 0, plc = 0, fec = 0, herr = 0, created = 0, lbrr_threads = 0, lbrr_multi_threads = 0;
  for (int t = 0; t < T; t++) {
    const Ctx& a = args[t].ctx;
    if (a.maxconc > maxconc) maxconc = a.maxconc;
    calls += a.calls + ser[t].calls; coded += ser[t].coded_ok; plc += ser[t].plc; fec += ser[t].fec; herr += ser[t].harness_err + a.harness_err;
    created += ser[t].created;
    if (ser[t].transitions) trans_threads++;
    if (ser[t].fec_lbrr) lbrr_threads++;
    if (ser[t].fec_lbrr_multi) lbrr_multi_threads++;
  }
  rep.count((uint64_t)calls);
  VP_REQUIRE(left_inside == 0, "c14:harness-gauge", "gauge reads %d after all threads were joined", left_inside);
  for (int t = 0; t < T; t++) VP_REQUIRE(ser[t].maxconc <= 1, "c14:harness-gauge", "serial pass saw concurrency %d", ser[t].maxconc);
  VP_REQUIRE(herr == 0, "c14:object-creation-failed", "a legal object creation failed in %d workload(s) (T=%d)", herr, T);
  for (int t = 0; t < T; t++) {
    const Ctx& a = args[t].ctx; const Ctx& s = ser[t];
    if (a.h == s.h && a.calls == s.calls) continue;
    size_t k = 0;
    while (k < a.trail.size() && k < s.trail.size() && a.trail[k] == s.trail[k]) k++;
    const Workload& w = wl[t];
    return rep.fail("c14:digest-mismatch", "thread %d of %d (%s, Fs=%d ch=%d, arch cap %d): concurrent digest %016llx / %d calls, alone %016llx / %d calls; first difference at operation %zu (%s); max concurrency %d",
                    t, T, KIND_NAME[w.kind], w.cfg.Fs, w.channels, cap, (unsigned long long)a.h, a.calls, (unsigned long long)s.h, s.calls, k,
                    k < w.ops.size() ? OP_NAME[w.ops[k].type] : "creation/teardown", maxconc);
  }

  // ---- classification
  rep.nontrivial(maxconc >= 2);
  rep.labelf("conc:%02d", maxconc);
  if (maxconc >= 2) rep.label("conc>=2");
  if (maxconc >= 4) rep.label("conc>=4");
  if (maxconc >= 8) rep.label("conc>=8");
  rep.labelf("threads:%02d", T);
  for (int k = 0; k < NKINDS; k++) if (kinds_seen[k]) rep.labelf("kind:%s", KIND_NAME[k]);
  for (int k = 0; k < NKINDS; k++) if (kinds_seen[k] >= 2) rep.labelf("kind-in-2+threads:%s", KIND_NAME[k]);
  rep.labelf("arch-cap:%d", cap);
  rep.label(staggered ? "start:staggered" : "start:simultaneous-first-call");
  if (first_case) rep.label("fresh-process:first-case");
  if (first_case && !staggered) rep.label("fresh-process:simultaneous-first-call");
  bool any_inplace = false, any_create = false, any_pert = false;
  for (auto& w : wl) { (w.inplace ? any_inplace : any_create) = true; for (auto& o : w.ops) { if (o.pert) any_pert = true; if (o.type == OP_RECREATE) rep.label("op:recreate"); if (o.type == OP_RESET) rep.label("op:reset"); if (o.type == OP_CTL) rep.label("op:ctl"); } }
  if (any_inplace) rep.label("create:init-in-caller-memory");
  if (any_create) rep.label("create:create");
  if (any_pert) rep.label("schedule:perturbed");
  if (coded) rep.label("coded-ok");
  if (plc) rep.label("op:loss-concealment");
  if (fec) rep.label("op:fec");
  if (lbrr_threads >= 2) rep.label("fec-with-lbrr-in-2+threads");
  if (lbrr_multi_threads >= 2) rep.label("fec-with-multiframe-lbrr-in-2+threads");
  if (trans_threads >= 1) rep.label("mode-transition");
  if (trans_threads >= 2) rep.label("mode-transition-in-2+threads");
  rep.note("max concurrency %d, %d library calls, %d coded frames, %d objects, threads with a mode transition %d", maxconc, calls, coded, created, trans_threads);
  return 0;
}
