// C10 (clauses 1 and 2): a multistream packet is nb_streams-1 self-delimited packets plus one standard
// packet of equal duration, and multistream decoding equals stand-alone decoding of those packets routed
// through the channel mapping.
//
// Families:
//   enc    packets from the real encoders (plain multistream layouts, surround family 1, ambisonics family 2,
//          families 0/255, projection family 3); every packet is split with the independent RFC 6716 framing
//          model (engine/rfc_framing.hpp): exactly nb_streams sub-packets, all of the submitted duration,
//          nothing left over.  The packet is then decoded by opus_multistream_decode{,_float,24} (with the
//          encoder's layout or a decoder-side mapping with duplicates and muted channels) and, sub-packet by
//          sub-packet (re-serialised to standard framing by the model), by stand-alone decoders: every output
//          channel must be bit-identical to the mapped stream and side, muted channels exactly zero, also for
//          PLC (NULL packet) and FEC calls; the final range is the XOR of the streams' ranges.
//   synth  hand-assembled multistream packets (sub-packets from independent single-stream encoders, re-framed
//          by the model's serialiser, code 0-3, padding) for arbitrary decoder layouts with up to 255
//          channels / 255 stream channels; same decoding oracle; mildly damaged packets must be rejected
//          exactly when the model cannot split them into equal-duration packets.
#include "codec_util.hpp"
#include "common.hpp"
#include "c10_ms_util.hpp"
#include "rfc_framing.hpp"
#include "siggen.hpp"
#include "vp.hpp"

using namespace vp;

const TargetInfo vp_info = {"c10_multistream", 8, 360};

// ---- the three sample formats ---------------------------------------------------
template <class T> struct Api;
template <> struct Api<float> {
  static int ms(OpusMSDecoder* d, const uint8_t* p, int n, float* o, int fs, int fec) { return opus_multistream_decode_float(d, p, n, o, fs, fec); }
  static int sa(OpusDecoder* d, const uint8_t* p, int n, float* o, int fs, int fec) { return opus_decode_float(d, p, n, o, fs, fec); }
  static const char* name() { return "float"; }
};
template <> struct Api<opus_int16> {
  static int ms(OpusMSDecoder* d, const uint8_t* p, int n, opus_int16* o, int fs, int fec) { return opus_multistream_decode(d, p, n, o, fs, fec); }
  static int sa(OpusDecoder* d, const uint8_t* p, int n, opus_int16* o, int fs, int fec) { return opus_decode(d, p, n, o, fs, fec); }
  static const char* name() { return "int16"; }
};
template <> struct Api<opus_int32> {
  static int ms(OpusMSDecoder* d, const uint8_t* p, int n, opus_int32* o, int fs, int fec) { return opus_multistream_decode24(d, p, n, o, fs, fec); }
  static int sa(OpusDecoder* d, const uint8_t* p, int n, opus_int32* o, int fs, int fec) { return opus_decode24(d, p, n, o, fs, fec); }
  static const char* name() { return "int24"; }
};

struct StandAlone {
  std::vector<OpusDecoder*> d;
  ~StandAlone() { for (auto p : d) if (p) opus_decoder_destroy(p); }
  bool create(int Fs, const msu::Layout& L) {
    for (int s = 0; s < L.streams; s++) { int err = 0; OpusDecoder* p = opus_decoder_create(Fs, s < L.coupled ? 2 : 1, &err); if (!p || err != OPUS_OK) return false; d.push_back(p); }
    return true;
  }
};

// One decode call on the multistream decoder and on the stand-alone decoders; pkt == nullptr: packet loss.
// subs: the model's split of pkt (nullptr when the model rejects the packet -> the decoder must reject it too).
template <class T>
static int decode_and_compare(Report& rep, OpusMSDecoder* ms, StandAlone& sa, const msu::Layout& D, const uint8_t* pkt, int len,
                              const std::vector<msu::Sub>* subs, bool model_ok, int fs, int fec, int step, const char* what) {
  HeapBuf<uint8_t> pd(len);
  if (len) memcpy(pd.p, pkt, len);
  HeapBuf<T> out((size_t)fs * D.channels);
  // poison the output so that "exact zeros" and "every sample written" are observable
  memset(out.p, 0x5A, sizeof(T) * (size_t)fs * D.channels);
  int r = Api<T>::ms(ms, pkt ? pd.p : nullptr, len, out.p, fs, fec);
  rep.count();
  rep.note("step %d %s %s: len=%d frame_size=%d fec=%d -> %d", step, what, Api<T>::name(), len, fs, fec, r);
  if (pkt && !model_ok) {
    VP_REQUIRE(r < 0, "c10:accepts-unsplittable-packet", "step %d: the framing model cannot split the %d-byte packet into %d equal-duration packets, opus_multistream_decode returned %d", step, len, D.streams, r);
    rep.label("rejected-damaged");
    return 0;
  }
  // stand-alone decoding, stream by stream (a failing stream ends the call, as in the multistream decoder)
  std::vector<std::vector<T>> so(D.streams);
  int expect = 0;
  opus_uint32 range_xor = 0;
  for (int s = 0; s < D.streams; s++) {
    int nch = s < D.coupled ? 2 : 1;
    HeapBuf<T> o((size_t)fs * nch);
    int rs;
    if (!pkt) rs = Api<T>::sa(sa.d[s], nullptr, 0, o.p, fs, fec);
    else {
      const std::vector<uint8_t>& sp = (*subs)[s].std_pkt;
      HeapBuf<uint8_t> sb(sp.size()); memcpy(sb.p, sp.data(), sp.size());
      rs = Api<T>::sa(sa.d[s], sb.p, (int)sp.size(), o.p, fs, fec);
    }
    rep.count();
    if (rs <= 0) { expect = rs; break; }
    if (s == 0) expect = rs;
    VP_REQUIRE(rs == expect, "c10:harness-standalone-durations", "step %d: stand-alone stream %d returned %d, stream 0 returned %d", step, s, rs, expect);
    so[s].assign(o.p, o.p + (size_t)rs * nch);
    opus_uint32 rg = 0; opus_decoder_ctl(sa.d[s], OPUS_GET_FINAL_RANGE(&rg)); range_xor ^= rg;
  }
  VP_REQUIRE(r == expect, "c10:decode-count", "step %d (%s, %s): multistream decode returned %d, stand-alone decoding of the sub-packets gives %d", step, what, Api<T>::name(), r, expect);
  if (r <= 0) { rep.label("decode-error-return"); return 0; }
  opus_uint32 mr = 0; opus_multistream_decoder_ctl(ms, OPUS_GET_FINAL_RANGE(&mr));
  VP_REQUIRE(mr == range_xor, "c10:final-range", "step %d: multistream final range %08x, XOR of the stand-alone ranges %08x", step, mr, range_xor);
  for (int c = 0; c < D.channels; c++) {
    int m = D.mapping[c];
    if (m == 255) {
      for (int i = 0; i < r; i++) { T v = out.p[(size_t)i * D.channels + c]; if (v != (T)0) return rep.fail("c10:muted-channel-not-silent", "step %d (%s): channel %d is mapped to 255 but sample %d is %g", step, what, c, i, (double)v); }
      continue;
    }
    int s, side; msu::stream_of(D, m, s, side);
    int nch = s < D.coupled ? 2 : 1;
    for (int i = 0; i < r; i++) {
      T a = out.p[(size_t)i * D.channels + c], b = so[s][(size_t)i * nch + side];
      if (memcmp(&a, &b, sizeof(T)) != 0)
        return rep.fail("c10:channel-differs-from-stream", "step %d (%s, %s): output channel %d (mapping %d = stream %d %s) sample %d is %g, stand-alone decoder gives %g",
                        step, what, Api<T>::name(), c, m, s, nch == 2 ? (side ? "right" : "left") : "mono", i, (double)a, (double)b);
    }
  }
  return 0;
}

static int decode_step(Report& rep, int fmt, OpusMSDecoder* ms, StandAlone& sa, const msu::Layout& D, const uint8_t* pkt, int len,
                       const std::vector<msu::Sub>* subs, bool model_ok, int fs, int fec, int step, const char* what) {
  if (fmt == 0) return decode_and_compare<float>(rep, ms, sa, D, pkt, len, subs, model_ok, fs, fec, step, what);
  if (fmt == 1) return decode_and_compare<opus_int16>(rep, ms, sa, D, pkt, len, subs, model_ok, fs, fec, step, what);
  return decode_and_compare<opus_int32>(rep, ms, sa, D, pkt, len, subs, model_ok, fs, fec, step, what);
}

static void nontrivial_layout(Report& rep, const msu::Layout& D) {
  bool dup = false, muted = false;
  int seen[256]; memset(seen, 0, sizeof seen);
  for (int i = 0; i < D.channels; i++) { if (D.mapping[i] == 255) muted = true; else if (seen[D.mapping[i]]++) dup = true; }
  if (dup) rep.label("layout-duplicate");
  if (muted) rep.label("layout-muted");
  if (D.coupled) rep.label("layout-coupled");
  if (D.streams >= 2) rep.label("layout-multi-stream");
  if (D.streams >= 2 && (dup || muted || D.coupled)) rep.nontrivial();
}

// =============================================================================
// family enc
// =============================================================================
static int fam_enc(Choice& c, Report& rep) {
  rep.label("fam:enc");
  int Fs = cu::RATES[4 - c.irange(0, 4)];
  int app = cu::APPS[(c.irange(0, 2) + 1) % 3];
  static const int KW[6] = {10, 6, 4, 2, 2, 5};
  int kind = c.weighted(KW, 6);   // plain, surround, ambisonics, 255, 0, projection
  msu::Layout E;
  cu::MSEnc menc; cu::ProjEnc penc;
  int err = 0; int family = -1;
  switch (kind) {
    case 0: E = msu::gen_encoder_layout(c, 4, 3); menc.p = opus_multistream_encoder_create(Fs, E.channels, E.streams, E.coupled, E.mapping, app, &err); break;
    case 1: family = 1; E.channels = 1 + c.irange(0, 7); break;
    case 2: { family = 2; static const int AC[8] = {4, 1, 3, 6, 9, 11, 16, 18}; static const int AW[8] = {8, 3, 3, 6, 4, 3, 1, 1}; E.channels = AC[c.weighted(AW, 8)]; break; }
    case 3: family = 255; E.channels = 1 + c.irange(0, 7); break;
    case 4: family = 0; E.channels = 1 + c.irange(0, 1); break;
    default: {
      family = 3; static const int PC[10] = {4, 6, 9, 11, 16, 18, 25, 27, 36, 38}; static const int PW[10] = {10, 8, 5, 4, 2, 2, 1, 1, 1, 1};
      E.channels = PC[c.weighted(PW, 10)];
      penc.p = opus_projection_ambisonics_encoder_create(Fs, E.channels, 3, &E.streams, &E.coupled, app, &err);
      for (int i = 0; i < E.channels; i++) E.mapping[i] = (unsigned char)i;    // a projection packet is a multistream packet with the trivial mapping
      break; }
  }
  if (kind >= 1 && kind <= 4) menc.p = opus_multistream_surround_encoder_create(Fs, E.channels, family, &E.streams, &E.coupled, E.mapping, app, &err);
  VP_REQUIRE((menc.p || penc.p) && err == OPUS_OK, "c10:harness-create", "encoder create failed: %d (kind %d, %s)", err, kind, msu::layout_str(E).c_str());
  rep.labelf("enc-kind:%s", kind == 0 ? "plain" : kind == 1 ? "surround" : kind == 2 ? "ambisonics" : kind == 3 ? "family255" : kind == 4 ? "family0" : "projection");
#define ENC_CTL(x) (penc.p ? opus_projection_encoder_ctl(penc.p, x) : opus_multistream_encoder_ctl(menc.p, x))
  // encoder settings
  bool fecb = c.chance(60);
  int cbr = 0;
  if (fecb) {
    ENC_CTL(OPUS_SET_INBAND_FEC(1)); ENC_CTL(OPUS_SET_PACKET_LOSS_PERC(20 + c.irange(0, 30)));
    ENC_CTL(OPUS_SET_BITRATE(20000 * (E.streams + E.coupled))); ENC_CTL(OPUS_SET_MAX_BANDWIDTH(OPUS_BANDWIDTH_WIDEBAND)); ENC_CTL(OPUS_SET_SIGNAL(OPUS_SIGNAL_VOICE));
    rep.label("enc-fec");
  } else {
    if (c.chance(150)) { opus_int32 br = cu::gen_bitrate(c, E.channels); ENC_CTL(OPUS_SET_BITRATE(br)); rep.note("bitrate %d", br); }
    if (c.chance(70)) { cbr = 1; ENC_CTL(OPUS_SET_VBR(0)); rep.label("enc-cbr"); }
    if (c.chance(40)) ENC_CTL(OPUS_SET_DTX(1));
  }
  ENC_CTL(OPUS_SET_COMPLEXITY(c.chance(128) ? 10 - c.irange(0, 10) : 3));
  // class "self-delimited length boundary" (switch derived from the case hash so that the choice layout and the committed replays keep their
  // meaning): every stream fills its share of the buffer (OPUS_BITRATE_MAX) and the budget puts a non-final stream on the 251..255-byte edge
  // between the one- and two-byte length code; the encoder must still emit a well-formed packet (seeded defect C10-8: length-byte reserve
  // '>254' instead of '>253' made opus_multistream_encode fail at max_data_bytes 255/257)
  const uint64_t case_hash = fnv1a(c.d, c.n);
  const bool len_boundary = E.streams >= 2 && !fecb && (case_hash % 6) == 2;
  if (len_boundary) { ENC_CTL(OPUS_SET_BITRATE(OPUS_BITRATE_MAX)); rep.label("class:length-boundary"); }
  // decoder layout: the encoder's, or an own mapping over the same streams
  msu::Layout D = E;
  if (c.chance(110)) {
    D.channels = 1 + c.irange(0, c.chance(40) ? 40 : 7);
    int n = D.nstreamch();
    for (int i = 0; i < D.channels; i++) { int k = c.byte(); D.mapping[i] = k < 200 ? (unsigned char)(k % n) : 255; }
    rep.label("decoder-own-mapping");
  }
  int decFs = c.chance(170) ? Fs : cu::RATES[c.irange(0, 4)];
  int fmt = c.irange(0, 2);
  int in16 = c.chance(100);
  int fam = c.irange(0, msu::NFAM - 1);
  static const double AMP[4] = {0.5, 0.9, 0.1, 1.3};
  double amp = AMP[c.irange(0, 3)];
  uint32_t seed = c.u32();
  cu::MSDec md; md.p = opus_multistream_decoder_create(decFs, D.channels, D.streams, D.coupled, D.mapping, &err);
  VP_REQUIRE(md.p && err == OPUS_OK, "c10:harness-create", "decoder create failed: %d (%s)", err, msu::layout_str(D).c_str());
  StandAlone sa; VP_REQUIRE(sa.create(decFs, D), "c10:harness-create", "stand-alone decoder create failed");
  int maxsteps = E.streams > 10 ? 2 : E.streams > 4 ? 4 : 7;
  int nsteps = 1 + c.irange(0, maxsteps - 1);
  struct Step { int act, d, aux, maxb; };
  std::vector<Step> steps(nsteps);
  int total = 0;
  for (auto& s : steps) {
    static const int AW[4] = {12, 4, 4, 2};
    s.act = c.weighted(AW, 4);   // normal, plc+normal, fec+normal, lost (plc only)
    static const int DW[9] = {2, 3, 5, 12, 3, 3, 1, 2, 1};
    s.d = (c.weighted(DW, 9) + 3) % 9;
    if (fecb && s.d < 2) s.d = 3;
    s.aux = c.irange(0, 255);
    int k = c.irange(0, 9);
    s.maxb = k < 7 ? 1500 * E.streams + 2500 : k == 7 ? c.irange(2 * E.streams, 60 * E.streams + 20) : c.irange(2 * E.streams, 400 * E.streams);
    if (len_boundary) { uint64_t h = mix(case_hash, (uint64_t)(&s - &steps[0])); s.maxb = 248 + (int)(h % 17) + 254 * (int)((h >> 8) % (uint64_t)(E.streams - 1)); }
    total += cu::frame_samples(Fs, s.d);
  }
  std::vector<float> x; msu::gen_signal(fam, seed, Fs, E.channels, total, amp, x);
  std::vector<opus_int16> x16; if (in16) sig::to_int16(x, x16);
  rep.note("enc: kind=%d family=%d Fs=%d app=%d encoder %s; decoder %s Fs=%d format=%s input=%s signal=%s amp=%g cbr=%d fec=%d steps=%d", kind, family, Fs, app, msu::layout_str(E).c_str(),
           msu::layout_str(D).c_str(), decFs, fmt == 0 ? "float" : fmt == 1 ? "int16" : "int24", in16 ? "int16" : "float", msu::fam_name(fam), amp, cbr, (int)fecb, nsteps);
  rep.fingerprint(fnv1a(D.mapping, D.channels)); rep.fingerprint(D.streams * 256 + D.coupled); rep.fingerprint(kind * 8 + fmt); rep.fingerprint(Fs + decFs * 7); rep.fingerprint(seed); rep.fingerprint(fam);
  nontrivial_layout(rep, D);
  rep.labelf("format:%s", fmt == 0 ? "float" : fmt == 1 ? "int16" : "int24");
  int pos = 0;
  const int cap = decFs / 25 * 3;
  for (int si = 0; si < nsteps; si++) {
    const Step& s = steps[si];
    int n = cu::frame_samples(Fs, s.d);
    HeapBuf<uint8_t> pk(s.maxb);
    int len;
    if (in16) {
      HeapBuf<opus_int16> in((size_t)n * E.channels); memcpy(in.p, &x16[(size_t)pos * E.channels], sizeof(opus_int16) * n * E.channels);
      len = penc.p ? opus_projection_encode(penc.p, in.p, n, pk.p, s.maxb) : opus_multistream_encode(menc.p, in.p, n, pk.p, s.maxb);
    } else {
      HeapBuf<float> in((size_t)n * E.channels); memcpy(in.p, &x[(size_t)pos * E.channels], sizeof(float) * n * E.channels);
      len = penc.p ? opus_projection_encode_float(penc.p, in.p, n, pk.p, s.maxb) : opus_multistream_encode_float(menc.p, in.p, n, pk.p, s.maxb);
    }
    pos += n;
    rep.count();
    rep.note("step %d: %d samples, max %d bytes -> %d", si, n, s.maxb, len);
    if (len <= 0) {
      // an encoder error is not C10's subject unless the budget was ample
      VP_REQUIRE(len < 0, "c10:encoder-returned-zero", "step %d: encoder returned 0", si);
      // with 1500 bytes per stream (+2500) every supported layout must be able to emit a packet
      VP_REQUIRE(s.maxb < 1500 * E.streams, "c10:encoder-error-ample-budget", "step %d: encoder returned %d for %d samples with a %d-byte budget (%d streams)", si, len, n, s.maxb, E.streams);
      // the documented smallest multistream packet is 2 bytes per stream (3 at 100 ms) minus one; any larger buffer must yield a packet
      // (same rule as C02: refusals are only legitimate below 4 bytes per stream + 2)
      VP_REQUIRE(len == OPUS_BUFFER_TOO_SMALL && s.maxb < 4 * E.streams + 2, "c10:encoder-error", "step %d: encoder returned %d for %d samples with a %d-byte budget (%d streams): no packet emitted for a supported layout", si, len, n, s.maxb, E.streams);
      rep.label("encoder-error-small-budget");
      break;
    }
    VP_REQUIRE(len <= s.maxb, "c10:encoder-overruns-budget", "step %d: %d bytes returned for a %d-byte budget", si, len, s.maxb);
    // (1) structure
    std::vector<msu::Sub> subs; std::string why;
    bool ok = msu::split(pk.p, len, E.streams, subs, why);
    VP_REQUIRE(ok, "c10:packet-structure", "step %d: %d-byte packet from the %s encoder (%d streams) is not %d self-delimited packets plus one standard packet: %s", si, len,
               kind == 5 ? "projection" : "multistream", E.streams, E.streams - 1, why.c_str());
    for (int k = 0; k < E.streams; k++)
      VP_REQUIRE(subs[k].dur_400 == cu::DUR400[s.d], "c10:sub-packet-duration", "step %d: stream %d carries %g ms, %g ms were submitted (toc 0x%02x, %d frames)", si, k, subs[k].dur_400 * 2.5, cu::DUR400[s.d] * 2.5, subs[k].p.toc, subs[k].p.count);
    if (kind == 1 && E.channels >= 6 && s.maxb >= 1500 * E.streams) {
      // 5.1 / 6.1 / 7.1: the last stream carries the LFE speaker and is coded as a low-pass (CELT narrowband) stream
      const msu::Sub& l = subs.back();
      bool tiny = true; for (int i = 0; i < l.p.count; i++) if (l.p.size[i] > 1) tiny = false;
      rfc::TocInfo t = rfc::toc_info(l.p.toc);
      if (!tiny) { VP_REQUIRE(t.mode == rfc::CELT && t.bw == rfc::NB, "c10:lfe-stream-not-lowpass", "step %d: %d-channel surround, LFE stream (last) has toc 0x%02x (mode %d bandwidth %d)", si, E.channels, l.p.toc, t.mode, t.bw); rep.label("lfe-stream-checked"); }
    }
    rep.label("structure-checked");
    if (E.streams >= 2 && subs[0].p.count > 1) rep.label("multi-frame-sub-packets");
    if (subs.back().p.padding_len > 0) rep.label("last-stream-padded");
    // (2) decoding
    if (s.act == 1 || s.act == 3) {
      int fs = (decFs / 400) * cu::DUR400[s.act == 3 ? s.d : (s.aux >> 2) % 9];
      if (decode_step(rep, fmt, md.p, sa, D, nullptr, 0, nullptr, true, fs, 0, si, "plc")) return 1;
      rep.label("decode-plc");
      if (s.act == 3) continue;
    } else if (s.act == 2) {
      // opus_multistream_decode refuses (BUFFER_TOO_SMALL) an FEC call whose frame_size is below the packet's whole
      // duration, where opus_decode would conceal instead; only frame sizes >= the packet duration are compared
      int fs = (decFs / 400) * cu::DUR400[s.d];
      if ((s.aux & 6) == 6 && fs + (decFs / 400) * 4 <= cap) fs += (decFs / 400) * (1 + ((s.aux >> 3) & 3));
      if (decode_step(rep, fmt, md.p, sa, D, pk.p, len, &subs, true, fs, 1, si, "fec")) return 1;
      rep.label("decode-fec");
      for (auto& sb : subs) if (opus_packet_has_lbrr(sb.std_pkt.data(), (int)sb.std_pkt.size()) > 0) { rep.label("decode-fec-with-lbrr"); break; }
    }
    int fs = (s.aux & 1) ? cap : (decFs / 400) * cu::DUR400[s.d];
    if (decode_step(rep, fmt, md.p, sa, D, pk.p, len, &subs, true, fs, 0, si, "normal")) return 1;
    rep.label("decode-normal");
  }
  return 0;
}

// =============================================================================
// family synth
// =============================================================================
static int fam_synth(Choice& c, Report& rep) {
  rep.label("fam:synth");
  msu::Layout D;
  int big = c.byte();
  if (big < 200) { D.streams = 1 + c.irange(0, 3); D.coupled = c.irange(0, D.streams); D.channels = 1 + c.irange(0, 7); }
  else if (big < 243) { D.streams = 1 + c.irange(0, 19); D.coupled = c.irange(0, D.streams); D.channels = 1 + c.irange(0, 39); }
  else { D.streams = 1 + c.irange(0, 254); D.coupled = c.irange(0, std::min(D.streams, 255 - D.streams)); D.channels = c.chance(128) ? 255 - c.irange(0, 3) : 1 + c.irange(0, 254); rep.label("layout-huge"); }
  int n = D.nstreamch();
  int mapmode = c.irange(0, 3);
  for (int i = 0; i < D.channels; i++) {
    int k = c.byte();
    switch (mapmode) {
      case 0: D.mapping[i] = (unsigned char)(i % n); break;
      case 1: D.mapping[i] = k < 40 ? 255 : (unsigned char)(k % n); break;
      case 2: D.mapping[i] = (unsigned char)((n - 1 - i % n)); break;
      default: D.mapping[i] = k < 128 ? (unsigned char)((k * 3) % n) : k < 160 ? 255 : (unsigned char)(i % n); break;
    }
  }
  int Fs = cu::RATES[4 - c.irange(0, 4)];
  int fmt = c.irange(0, 2);
  int err = 0;
  cu::MSDec md; md.p = opus_multistream_decoder_create(Fs, D.channels, D.streams, D.coupled, D.mapping, &err);
  VP_REQUIRE(md.p && err == OPUS_OK, "c10:rejects-valid-decoder-layout", "opus_multistream_decoder_create failed (%d) for the valid layout %s", err, msu::layout_str(D).c_str());
  StandAlone sa; VP_REQUIRE(sa.create(Fs, D), "c10:harness-create", "stand-alone decoder create failed");
  // up to three source encoders
  int nsrc = 1 + c.irange(0, 2);
  cu::Enc src[3]; cu::EncCfg cfg[3];
  for (int k = 0; k < nsrc; k++) {
    cfg[k] = cu::gen_cfg(c);
    cfg[k].Fs = Fs == 48000 || c.chance(128) ? cfg[k].Fs : Fs;
    src[k].p = opus_encoder_create(cfg[k].Fs, cfg[k].ch, cfg[k].app, &err);
    VP_REQUIRE(src[k].p && err == OPUS_OK, "c10:harness-create", "source encoder create failed %d", err);
    VP_REQUIRE(cu::apply_cfg(src[k].p, cfg[k]) == OPUS_OK, "c10:harness-cfg", "source configuration rejected");
    rep.note("source %d: %s", k, cu::cfg_str(cfg[k]).c_str());
  }
  int fam = c.irange(0, msu::NFAM - 1);
  uint32_t seed = c.u32();
  int nsteps = 1 + c.irange(0, D.streams > 40 ? 1 : D.streams > 8 ? 2 : 5);
  rep.note("synth: decoder %s Fs=%d format=%s sources=%d signal=%s steps=%d", msu::layout_str(D).c_str(), Fs, fmt == 0 ? "float" : fmt == 1 ? "int16" : "int24", nsrc, msu::fam_name(fam), nsteps);
  rep.fingerprint(fnv1a(D.mapping, D.channels)); rep.fingerprint(D.streams * 256 + D.coupled); rep.fingerprint(Fs * 4 + fmt); rep.fingerprint(seed); rep.fingerprint(nsrc * 16 + fam);
  nontrivial_layout(rep, D);
  rep.labelf("format:%s", fmt == 0 ? "float" : fmt == 1 ? "int16" : "int24");
  int spos[3] = {0, 0, 0};
  for (int si = 0; si < nsteps; si++) {
    static const int DW[9] = {2, 3, 5, 12, 3, 3, 1, 1, 1};
    int d = (c.weighted(DW, 9) + 3) % 9;
    static const int AW[5] = {12, 3, 3, 4, 0};
    int act = c.weighted(AW, 4);   // normal, plc+normal, fec+normal, damaged
    int aux = c.irange(0, 65535);
    // one packet per source
    std::vector<uint8_t> sp[3];
    bool src_ok = true;
    for (int k = 0; k < nsrc; k++) {
      int n = cu::frame_samples(cfg[k].Fs, d);
      std::vector<float> x; msu::gen_signal((fam + k) % msu::NFAM, seed + k, cfg[k].Fs, cfg[k].ch, n, 0.7, x);   // fresh burst per step: content is irrelevant here
      HeapBuf<float> in((size_t)n * cfg[k].ch); memcpy(in.p, x.data(), sizeof(float) * n * cfg[k].ch);
      HeapBuf<uint8_t> pk(4000);
      int len = opus_encode_float(src[k].p, in.p, n, pk.p, 4000);
      spos[k] += n;
      if (len <= 0) { src_ok = false; break; }
      sp[k].assign(pk.p, pk.p + len);
    }
    if (!src_ok) { rep.label("source-encoder-error"); break; }
    // assemble: stream s takes source (s + rot) % nsrc, optionally re-framed as code 3 with padding
    std::vector<uint8_t> pkt;
    std::vector<msu::Sub> built(D.streams);
    int rot = aux & 3;
    for (int s = 0; s < D.streams; s++) {
      const std::vector<uint8_t>& q = sp[(s + rot) % nsrc];
      rfc::Parsed p = rfc::parse(q.data(), (int)q.size(), false);
      VP_REQUIRE(p.ok, "c10:harness-source-packet", "source packet does not parse");
      rfc::Spec spec;
      spec.toc_hi = (uint8_t)(p.toc & 0xFC); spec.code = p.toc & 3; spec.vbr = p.vbr;
      for (int i = 0; i < p.count; i++) spec.frames.emplace_back(q.data() + p.offset[i], q.data() + p.offset[i] + p.size[i]);
      if (p.padding_len > 0) { spec.pad_len_bytes = 255 * (p.padding_len / 254) + p.padding_len % 254 + 1; }
      int reframe = ((aux >> 2) + s) % 5;
      if (reframe == 1 || reframe == 2) {        // code 3, CBR or VBR flag, maybe padding
        bool equal = true; for (auto& f : spec.frames) if (f.size() != spec.frames[0].size()) equal = false;
        spec.code = 3; spec.vbr = reframe == 2 || !equal;
        if ((aux >> 5) & 1) spec.pad_len_bytes = 1 + ((aux >> 6) % 300);
      }
      std::vector<uint8_t> one, std_form;
      bool sd = s != D.streams - 1;
      VP_REQUIRE(rfc::serialize(spec, sd, one) && rfc::serialize(spec, false, std_form), "c10:harness-serialize", "cannot serialise sub-packet");
      built[s].std_pkt = std_form; built[s].offset = (int)pkt.size();
      pkt.insert(pkt.end(), one.begin(), one.end());
    }
    if (pkt.size() > 1) rep.label("synth-assembled");
    int frame = (Fs / 400) * cu::DUR400[d];
    if (act == 1) { if (decode_step(rep, fmt, md.p, sa, D, nullptr, 0, nullptr, true, (Fs / 400) * cu::DUR400[(aux >> 8) % 9], 0, si, "plc")) return 1; rep.label("decode-plc"); }
    if (act == 2) { int fs = frame; if (decode_step(rep, fmt, md.p, sa, D, pkt.data(), (int)pkt.size(), &built, true, fs, 1, si, "fec")) return 1; rep.label("decode-fec"); }
    if (act == 3) {
      // damage the container (not the payloads): truncate, extend, or disturb a TOC / length byte of one stream
      std::vector<uint8_t> bad(pkt);
      int how = (aux >> 8) % 4;
      if (how == 0 && bad.size() > 1) bad.resize(bad.size() - 1 - (aux >> 10) % std::min<size_t>(bad.size() - 1, 40));
      else if (how == 1) bad.insert(bad.end(), 1 + (aux >> 10) % 5, (uint8_t)aux);
      else if (how == 2) { int s = (aux >> 10) % D.streams; bad[built[s].offset] ^= (uint8_t)(1 << ((aux >> 13) % 8)); }
      else { int s = (aux >> 10) % D.streams; size_t at = built[s].offset + 1; if (at < bad.size()) bad[at] ^= (uint8_t)(1 << ((aux >> 13) % 8)); }
      std::vector<msu::Sub> subs; std::string why;
      bool ok = msu::split(bad.data(), (int)bad.size(), D.streams, subs, why);
      if (ok) for (auto& sb : subs) if (sb.dur_400 != subs[0].dur_400) ok = false;
      if (ok) { int total = subs[0].dur_400 * (Fs / 400); if (total > Fs / 25 * 3) ok = false; }
      rep.label(ok ? "damaged-still-valid" : "damaged-invalid");
      if (decode_step(rep, fmt, md.p, sa, D, bad.data(), (int)bad.size(), ok ? &subs : nullptr, ok, Fs / 25 * 3, 0, si, "damaged")) return 1;
      continue;
    }
    if (decode_step(rep, fmt, md.p, sa, D, pkt.data(), (int)pkt.size(), &built, true, (aux & 4) ? Fs / 25 * 3 : frame, 0, si, "normal")) return 1;
    rep.label("decode-normal");
  }
  return 0;
}

int vp_case(Choice& c, Report& rep) {
  static const int FW[2] = {170, 86};
  return c.weighted(FW, 2) == 0 ? fam_enc(c, rep) : fam_synth(c, rep);
}
