// C11 (control interface): stateful settings-model test for encoder, decoder,
// multistream encoder/decoder (plain and surround) and projection
// encoder/decoder, plus the creation/initialisation argument grid.
//   family 0: random history of requests (legal, boundary, illegal, sentinel values; NULL getters; unknown and
//             foreign requests; per-stream state access) interleaved with encode/decode calls and resets; after
//             every step all getters are compared with the model (c11_model.hpp) and, for multistream encoders,
//             every stream is inspected through OPUS_MULTISTREAM_GET_ENCODER_STATE.
//   family 1: one request x one grid value on a fresh object or after one coded frame (enumerated exhaustively).
//   family 2: creation / init argument grid (enumerated exhaustively).
#include "vp.hpp"
#include "rfc_framing.hpp"
#include "common.hpp"
#include "codec_util.hpp"
#include "siggen.hpp"
#include "c11_model.hpp"

using namespace vp;
using namespace c11;

const TargetInfo vp_info = {"c11_ctl", 6, 400};

// ---------------------------------------------------------------- object under test
struct Obj {
  int kind = K_ENC;
  OpusEncoder* enc = nullptr; OpusDecoder* dec = nullptr; OpusMSEncoder* mse = nullptr; OpusMSDecoder* msd = nullptr;
  OpusProjectionEncoder* pe = nullptr; OpusProjectionDecoder* pd = nullptr;
  ~Obj() {
    if (enc) opus_encoder_destroy(enc); if (dec) opus_decoder_destroy(dec); if (mse) opus_multistream_encoder_destroy(mse);
    if (msd) opus_multistream_decoder_destroy(msd); if (pe) opus_projection_encoder_destroy(pe); if (pd) opus_projection_decoder_destroy(pd);
  }
  bool ok() const { return enc || dec || mse || msd || pe || pd; }
#define C11_DISPATCH(...) \
  switch (kind) { \
    case K_ENC: return opus_encoder_ctl(enc, __VA_ARGS__); \
    case K_DEC: return opus_decoder_ctl(dec, __VA_ARGS__); \
    case K_MSENC: case K_SURENC: return opus_multistream_encoder_ctl(mse, __VA_ARGS__); \
    case K_MSDEC: return opus_multistream_decoder_ctl(msd, __VA_ARGS__); \
    case K_PROJENC: return opus_projection_encoder_ctl(pe, __VA_ARGS__); \
    default: return opus_projection_decoder_ctl(pd, __VA_ARGS__); \
  }
  int seti(int req, opus_int32 v) { C11_DISPATCH(req, v) }
  int getp(int req, void* p) { C11_DISPATCH(req, p) }
  int req0(int req) { C11_DISPATCH(req, 0) }
  int state(int req, opus_int32 id, void* pp) { C11_DISPATCH(req, id, pp) }
  int matrix(void* p, opus_int32 size) { return opus_projection_encoder_ctl(pe, OPUS_PROJECTION_GET_DEMIXING_MATRIX_REQUEST, p, size); }
};

struct Cfg {
  int kind = K_ENC, Fs = 48000, channels = 1, app = OPUS_APPLICATION_AUDIO;
  int streams = 1, coupled = 0, family = 0;
  std::vector<unsigned char> mapping;
};

static const int PROJ_CH[6] = {4, 6, 9, 11, 16, 18};

static Cfg gen_cfg(Choice& c, int kind) {
  Cfg g; g.kind = kind;
  g.Fs = cu::RATES[4 - c.irange(0, 4)];
  g.app = cu::APPS[(c.irange(0, 2) + 1) % 3];
  int sel = c.irange(0, 7);
  switch (kind) {
    case K_ENC: case K_DEC: g.channels = 1 + (sel & 1); g.streams = 1; g.coupled = g.channels - 1; break;
    case K_MSENC: case K_MSDEC: {
      // plain layouts: (streams, coupled), channels = streams + coupled (+ one muted / duplicated channel)
      static const int L[8][2] = {{1, 0}, {1, 1}, {2, 1}, {2, 2}, {3, 0}, {3, 2}, {4, 1}, {2, 0}};
      g.streams = L[sel][0]; g.coupled = L[sel][1];
      int extra = c.irange(0, 2);
      g.channels = g.streams + g.coupled + (extra ? 1 : 0);
      for (int i = 0; i < g.streams + g.coupled; i++) g.mapping.push_back((unsigned char)i);
      if (extra == 1) g.mapping.push_back(255); else if (extra == 2) g.mapping.push_back(0);
      if (c.boolean() && g.mapping.size() > 1) std::swap(g.mapping[0], g.mapping[g.mapping.size() - 1]);
      break; }
    case K_SURENC: {
      static const int F[8][2] = {{1, 3}, {1, 6}, {0, 2}, {255, 3}, {2, 4}, {2, 6}, {1, 8}, {1, 2}};   // family, channels
      g.family = F[sel][0]; g.channels = F[sel][1]; break; }
    case K_PROJENC: case K_PROJDEC: g.family = 3; g.channels = PROJ_CH[sel % 6 < 4 ? sel % 6 : (c.chance(40) ? sel % 6 : sel % 4)]; break;
  }
  return g;
}

// Creates the object (and for decoders a helper encoder producing valid packets).
struct Pair {
  Obj o;        // object under test
  Obj helper;   // encoder that feeds a decoder under test
  Model m;
};

static int create_enc_like(const Cfg& g, Obj& o, Model& m, int kind, Report& rep) {
  int err = -99;
  o.kind = kind;
  m.kind = kind; m.Fs = g.Fs; m.channels = g.channels; m.application = g.app;
  if (kind == K_ENC) {
    o.enc = opus_encoder_create(g.Fs, g.channels, g.app, &err);
    m.streams = 1; m.coupled = g.channels - 1;
  } else if (kind == K_MSENC) {
    HeapBuf<unsigned char> map(g.mapping.size());
    for (size_t i = 0; i < g.mapping.size(); i++) map[i] = g.mapping[i];
    o.mse = opus_multistream_encoder_create(g.Fs, g.channels, g.streams, g.coupled, map.p, g.app, &err);
    m.streams = g.streams; m.coupled = g.coupled;
  } else if (kind == K_SURENC) {
    HeapBuf<unsigned char> map(g.channels);
    int s = -1, cp = -1;
    o.mse = opus_multistream_surround_encoder_create(g.Fs, g.channels, g.family, &s, &cp, map.p, g.app, &err);
    m.streams = s; m.coupled = cp;
    m.mapping_type = (g.family == 1 && g.channels > 2) ? 1 : g.family == 2 ? 2 : 0;
  } else {
    int s = -1, cp = -1;
    o.pe = opus_projection_ambisonics_encoder_create(g.Fs, g.channels, 3, &s, &cp, g.app, &err);
    m.streams = s; m.coupled = cp;
  }
  VP_REQUIRE(o.ok() && err == OPUS_OK, "c11:create-legal-rejected", "%s Fs=%d ch=%d app=%d err=%d", KIND_NAME[kind], g.Fs, g.channels, g.app, err);
  return 0;
}

static int create_pair(const Cfg& g, Pair& p, Report& rep) {
  Model& m = p.m;
  if (is_enc(g.kind)) return create_enc_like(g, p.o, m, g.kind, rep);
  // decoders: helper encoder of the matching kind first
  Model hm;
  int hk = g.kind == K_DEC ? K_ENC : g.kind == K_MSDEC ? K_MSENC : K_PROJENC;
  if (create_enc_like(g, p.helper, hm, hk, rep)) return 1;
  int err = -99;
  p.o.kind = g.kind;
  m.kind = g.kind; m.Fs = g.Fs; m.channels = g.channels; m.streams = hm.streams; m.coupled = hm.coupled;
  if (g.kind == K_DEC) p.o.dec = opus_decoder_create(g.Fs, g.channels, &err);
  else if (g.kind == K_MSDEC) {
    HeapBuf<unsigned char> map(g.mapping.size());
    for (size_t i = 0; i < g.mapping.size(); i++) map[i] = g.mapping[i];
    p.o.msd = opus_multistream_decoder_create(g.Fs, g.channels, g.streams, g.coupled, map.p, &err);
  } else {
    opus_int32 msize = 0;
    int r = opus_projection_encoder_ctl(p.helper.pe, OPUS_PROJECTION_GET_DEMIXING_MATRIX_SIZE(&msize));
    VP_REQUIRE(r == OPUS_OK && msize == 2 * g.channels * (hm.streams + hm.coupled), "c11:demixing-matrix-size", "ret %d size %d channels %d streams %d+%d", r, msize, g.channels, hm.streams, hm.coupled);
    HeapBuf<unsigned char> mat(msize);
    r = opus_projection_encoder_ctl(p.helper.pe, OPUS_PROJECTION_GET_DEMIXING_MATRIX(mat.p, msize));
    VP_REQUIRE(r == OPUS_OK, "c11:demixing-matrix", "ret %d", r);
    p.o.pd = opus_projection_decoder_create(g.Fs, g.channels, hm.streams, hm.coupled, mat.p, msize, &err);
  }
  VP_REQUIRE(p.o.ok() && err == OPUS_OK, "c11:create-legal-rejected", "%s Fs=%d ch=%d err=%d", KIND_NAME[g.kind], g.Fs, g.channels, err);
  return 0;
}

#include "c11_ctl_verify.hpp"
#include "c11_ctl_create.hpp"
#include "c11_ctl_main.hpp"
