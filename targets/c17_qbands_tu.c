/* C17: reaches the static tables of celt/quant_bands.c (e_prob_model,
   small_energy_icdf).  Public names of the included file are renamed. */
#define amp2Log2 c17tu_amp2Log2
#define eMeans c17tu_eMeans
#define quant_coarse_energy c17tu_quant_coarse_energy
#define quant_fine_energy c17tu_quant_fine_energy
#define quant_energy_finalise c17tu_quant_energy_finalise
#define unquant_coarse_energy c17tu_unquant_coarse_energy
#define unquant_fine_energy c17tu_unquant_fine_energy
#define unquant_energy_finalise c17tu_unquant_energy_finalise
#include "quant_bands.c"

const unsigned char *c17_e_prob_model(int lm, int intra) { return e_prob_model[lm][intra]; }
int c17_e_prob_model_dims(int *nlm, int *nintra, int *nbytes) {
  *nlm = (int)(sizeof(e_prob_model) / sizeof(e_prob_model[0]));
  *nintra = (int)(sizeof(e_prob_model[0]) / sizeof(e_prob_model[0][0]));
  *nbytes = (int)sizeof(e_prob_model[0][0]);
  return 0;
}
const unsigned char *c17_small_energy_icdf(int *n) { *n = (int)sizeof(small_energy_icdf); return small_energy_icdf; }
