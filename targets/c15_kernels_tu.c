/* C15: C translation unit compiled with the library's own C flags.  It includes
 * the tree's celt headers, exports the static-inline portable kernels under
 * c15_* names and lists, per dispatched CELT kernel, the C symbol, the SIMD
 * symbols by required feature level and the library's dispatch table. */
#include "arch.h"
#include "pitch.h"
#include "celt_lpc.h"
#include "vq.h"
#include "x86/x86cpu.h"
#include "c15_tu.h"

static opus_val32 c15_celt_inner_prod_c(const opus_val16 *x, const opus_val16 *y, int N) { return celt_inner_prod_c(x, y, N); }
static void c15_xcorr_kernel_c(const opus_val16 *x, const opus_val16 *y, opus_val32 sum[4], int len) { xcorr_kernel_c(x, y, sum, len); }
#ifndef FIXED_POINT
static void c15_dual_inner_prod_c(const opus_val16 *x, const opus_val16 *y01, const opus_val16 *y02, int N, opus_val32 *xy1, opus_val32 *xy2) { dual_inner_prod_c(x, y01, y02, N, xy1, xy2); }
#endif

#ifdef FIXED_POINT
const c15_kernel c15_kernels[C15_K_COUNT] = {
  {"celt_fir", {(void *)celt_fir_c, 0, 0, (void *)celt_fir_sse4_1, 0}, (void *const *)CELT_FIR_IMPL, 1},
  {"xcorr_kernel", {(void *)c15_xcorr_kernel_c, 0, 0, (void *)xcorr_kernel_sse4_1, 0}, (void *const *)XCORR_KERNEL_IMPL, 0},
  {"celt_inner_prod", {(void *)c15_celt_inner_prod_c, 0, (void *)celt_inner_prod_sse2, (void *)celt_inner_prod_sse4_1, 0}, (void *const *)CELT_INNER_PROD_IMPL, 0},
  /* not table-dispatched in the fixed-point build: celt_pitch_xcorr_c forwards `arch` to xcorr_kernel / celt_inner_prod */
  {"celt_pitch_xcorr", {(void *)celt_pitch_xcorr_c, 0, 0, 0, 0}, 0, 1},
};
#else
const c15_kernel c15_kernels[C15_K_COUNT] = {
  {"celt_inner_prod", {(void *)c15_celt_inner_prod_c, (void *)celt_inner_prod_sse, 0, 0, 0}, (void *const *)CELT_INNER_PROD_IMPL, 0},
  {"dual_inner_prod", {(void *)c15_dual_inner_prod_c, (void *)dual_inner_prod_sse, 0, 0, 0}, (void *const *)DUAL_INNER_PROD_IMPL, 0},
  {"xcorr_kernel", {(void *)c15_xcorr_kernel_c, (void *)xcorr_kernel_sse, 0, 0, 0}, (void *const *)XCORR_KERNEL_IMPL, 0},
  {"celt_pitch_xcorr", {(void *)celt_pitch_xcorr_c, 0, 0, 0, (void *)celt_pitch_xcorr_avx2}, (void *const *)PITCH_XCORR_IMPL, 1},
  {"comb_filter_const", {(void *)comb_filter_const_c, (void *)comb_filter_const_sse, 0, 0, 0}, (void *const *)COMB_FILTER_CONST_IMPL, 1},
  {"op_pvq_search", {(void *)op_pvq_search_c, 0, (void *)op_pvq_search_sse2, 0, 0}, (void *const *)OP_PVQ_SEARCH_IMPL, 1},
};
#endif
