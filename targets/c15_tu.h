/* C15: interface between the C translation unit (c15_kernels_tu.c, compiled with
 * the library's C flags so that it can include celt/pitch.h and export the
 * static-inline portable kernels) and the C++ target. */
#ifndef C15_TU_H
#define C15_TU_H

#ifdef __cplusplus
extern "C" {
#endif

#ifdef FIXED_POINT
typedef short c15_v16;
typedef int c15_v32;
#else
typedef float c15_v16;
typedef float c15_v32;
#endif

#define C15_NLEV 5 /* arch levels 0..4: C, SSE, SSE2, SSE4.1, AVX2 */

typedef c15_v32 (*c15_inner_fn)(const c15_v16 *x, const c15_v16 *y, int N);
typedef void (*c15_xcorr_fn)(const c15_v16 *x, const c15_v16 *y, c15_v32 sum[4], int len);
typedef void (*c15_dual_fn)(const c15_v16 *x, const c15_v16 *y01, const c15_v16 *y02, int N, c15_v32 *xy1, c15_v32 *xy2);
typedef void (*c15_comb_fn)(c15_v32 *y, c15_v32 *x, int T, int N, c15_v16 g10, c15_v16 g11, c15_v16 g12);
typedef c15_v16 (*c15_pvq_fn)(c15_v16 *X, int *iy, int K, int N, int arch);
#ifdef FIXED_POINT
typedef c15_v32 (*c15_pxcorr_fn)(const c15_v16 *x, const c15_v16 *y, c15_v32 *xcorr, int len, int max_pitch, int arch);
#else
typedef void (*c15_pxcorr_fn)(const c15_v16 *x, const c15_v16 *y, c15_v32 *xcorr, int len, int max_pitch, int arch);
#endif
typedef void (*c15_fir_fn)(const c15_v16 *x, const c15_v16 *num, c15_v16 *y, int N, int ord, int arch);

/* One dispatched CELT kernel.  sym[0] is the portable C function (for the
 * static-inline ones a wrapper compiled in the TU); sym[l] (l>=1) is the SIMD
 * symbol that needs feature level l, or NULL.  table is the library's dispatch
 * table (C15_NLEV entries) or NULL when the kernel is dispatched through an
 * `arch` argument only.  c_is_table_symbol tells whether table rows that mean
 * "C" must be pointer-identical to sym[0] (non-static C symbol). */
typedef struct {
  const char *name;
  void *sym[C15_NLEV];
  void *const *table;
  int c_is_table_symbol;
} c15_kernel;

enum {
#ifdef FIXED_POINT
  C15_K_CELT_FIR = 0, C15_K_XCORR_KERNEL, C15_K_CELT_INNER_PROD, C15_K_CELT_PITCH_XCORR,
#else
  C15_K_CELT_INNER_PROD = 0, C15_K_DUAL_INNER_PROD, C15_K_XCORR_KERNEL, C15_K_CELT_PITCH_XCORR,
  C15_K_COMB_FILTER_CONST, C15_K_OP_PVQ_SEARCH,
#endif
  C15_K_COUNT
};

extern const c15_kernel c15_kernels[C15_K_COUNT];

#ifdef __cplusplus
}
#endif
#endif
