// Audio metrics shared by C04 / C09 (harness code; built uninstrumented at -O2
// through targets/audio_metrics.cpp).
#pragma once
#include <cmath>
#include <cstddef>
#include <vector>

namespace am {

// Best integer lag d in [0,maxlag] maximising the normalised cross-correlation
// sum_i in[i]*out[i+d] over one channel (stride = channels), with parabolic
// refinement.  Returns the integer lag; *frac gets the refined lag, *peak the
// normalised correlation at the peak, *second the best normalised correlation
// at least 3 samples away from the peak (ambiguity indicator).
inline int best_lag(const float* in, const float* out, int n, int stride, int maxlag, double* frac, double* peak, double* second) {
  std::vector<double> cc((size_t)maxlag + 1, 0.0);
  int m = n - maxlag;
  if (m <= 16) { if (frac) *frac = 0; if (peak) *peak = 0; if (second) *second = 0; return 0; }
  double ein = 0;
  for (int i = 0; i < m; i++) ein += (double)in[(size_t)i * stride] * in[(size_t)i * stride];
  int best = 0; double bv = -1e300;
  for (int d = 0; d <= maxlag; d++) {
    double s = 0, eo = 0;
    for (int i = 0; i < m; i++) { double o = out[(size_t)(i + d) * stride]; s += (double)in[(size_t)i * stride] * o; eo += o * o; }
    cc[d] = s / (std::sqrt(ein * eo) + 1e-30);
    if (cc[d] > bv) { bv = cc[d]; best = d; }
  }
  double f = best;
  if (best > 0 && best < maxlag) {
    double a = cc[best - 1], b = cc[best], c = cc[best + 1];
    double den = a - 2 * b + c;
    if (std::fabs(den) > 1e-20) f = best + 0.5 * (a - c) / den;
  }
  double sec = -1;
  for (int d = 0; d <= maxlag; d++) if (std::abs(d - best) >= 3 && cc[d] > sec) sec = cc[d];
  if (frac) *frac = f; if (peak) *peak = bv; if (second) *second = sec;
  return best;
}

// SNR in dB of out (delayed by `delay` samples) against in, one channel, skipping `skip` leading samples.
inline double snr_db(const float* in, const float* out, int n, int stride, int delay, int skip, double* gain_out = nullptr) {
  double es = 0, en = 0, cross = 0;
  for (int i = skip; i + delay < n; i++) {
    double a = in[(size_t)i * stride], b = out[(size_t)(i + delay) * stride];
    es += a * a; en += (a - b) * (a - b); cross += a * b;
  }
  if (gain_out) *gain_out = cross / (es + 1e-30);
  return 10 * std::log10((es + 1e-20) / (en + 1e-20));
}

// Long-term energy (dB) in the 21 CELT bands (edges in units of 200 Hz-ish bins of a 2.5 ms-step DFT; see BANDS) of one channel.
static const int NB = 21;
static const int BANDS[NB + 1] = {0, 2, 4, 6, 8, 10, 12, 14, 16, 20, 24, 28, 32, 40, 48, 56, 68, 80, 96, 120, 156, 200};
inline void band_energy_db(const float* x, int n, int stride, int Fs, int delay, double* out_db /*NB*/) {
  int W = Fs / 100;            // 10 ms window, bin spacing 100 Hz
  int nbins = W / 2;
  std::vector<double> acc(NB, 1e-9);
  std::vector<double> cs((size_t)W), sn((size_t)W), win((size_t)W);
  const double PI = 3.14159265358979323846;
  for (int k = 0; k < W; k++) { cs[k] = std::cos(2 * PI * k / W); sn[k] = std::sin(2 * PI * k / W); win[k] = 0.5 - 0.5 * std::cos(2 * PI * k / (W - 1)); }
  int frames = 0;
  for (int start = delay; start + W <= n; start += W / 2, frames++) {
    for (int b = 0; b < NB; b++) {
      for (int j = BANDS[b]; j < BANDS[b + 1] && j < nbins; j++) {
        double re = 0, im = 0; int ti = 0;
        for (int k = 0; k < W; k++) { double v = win[k] * x[(size_t)(start + k) * stride]; re += cs[ti] * v; im -= sn[ti] * v; ti += j; if (ti >= W) ti -= W; }
        acc[b] += re * re + im * im;
      }
    }
  }
  for (int b = 0; b < NB; b++) out_db[b] = 10 * std::log10(acc[b] / (frames > 0 ? frames : 1));
}

inline double rms(const float* x, int n, int stride) { double e = 0; for (int i = 0; i < n; i++) e += (double)x[(size_t)i * stride] * x[(size_t)i * stride]; return std::sqrt(e / (n > 0 ? n : 1)); }
inline double peak(const float* x, int n, int stride) { double p = 0; for (int i = 0; i < n; i++) { double a = std::fabs(x[(size_t)i * stride]); if (a > p) p = a; } return p; }

}  // namespace am
