// part of c11_ctl.cpp: creation / initialisation argument grid (family 2)
#pragma once

static const int FS_GRID[19] = {48000, 24000, 16000, 12000, 8000, 0, 1, 7999, 8001, 11025, 22050, 32000, 44100, 47999, 48001, 96000, -8000, INT_MAX, INT_MIN};
static const int CH_GRID[5] = {1, 2, 0, 3, -1};
static const int APP_GRID[8] = {OPUS_APPLICATION_AUDIO, OPUS_APPLICATION_VOIP, OPUS_APPLICATION_RESTRICTED_LOWDELAY, 2047, 2050, 2052, 0, OPUS_AUTO};
static const int FS_SMALL[3] = {48000, 44100, 8000};
static const int APP_SMALL[3] = {OPUS_APPLICATION_AUDIO, 2050, OPUS_APPLICATION_RESTRICTED_LOWDELAY};
static const int FAM_GRID[9] = {1, 0, 2, 255, 3, -1, 4, 254, 256};
static const int PFAM_GRID[5] = {3, 2, 0, 4, -1};
struct Lay { int N, S, C; };
static const Lay LAYS[] = {{1, 1, 0}, {2, 1, 1}, {2, 2, 0}, {3, 2, 1}, {4, 2, 2}, {6, 4, 2}, {8, 5, 3}, {0, 1, 0}, {-1, 1, 0}, {255, 255, 0}, {256, 255, 0}, {255, 128, 127},
                           {255, 128, 128}, {3, 0, 0}, {3, 1, 2}, {3, 1, -1}, {2, 2, 1}, {1, 1, 1}, {254, 127, 127}, {255, 254, 1}, {255, 254, 2}, {3, -1, -1}, {5, 256, 0}, {300, 2, 1}};
static const int NLAYS = (int)(sizeof(LAYS) / sizeof(LAYS[0]));
static const int NMAPKIND = 6;
struct PLay { int N, S, C, delta; };
static const PLay PLAYS[] = {{4, 2, 2, 0}, {6, 3, 3, 0}, {9, 5, 4, 0}, {11, 6, 5, 0}, {16, 8, 8, 0}, {4, 2, 2, 2}, {4, 2, 2, -2}, {4, 2, 2, -32}, {4, 2, 2, 1}, {4, 4, 0, 0}, {4, 3, 1, 0},
                             {0, 1, 0, 0}, {-1, 1, 1, 0}, {1, 0, 0, 0}, {2, 1, 2, 0}, {2, 1, -1, 0}, {256, 1, 0, 0}, {255, 1, 0, 0}, {255, 128, 127, 0}, {180, 90, 90, 0}, {181, 90, 90, 0},
                             {2, 200, 56, 0}, {2, 128, 127, 0}, {1, 255, 0, 0}, {1, 256, 0, 0}, {4, 2, 2, -16}};
static const int NPLAYS = (int)(sizeof(PLAYS) / sizeof(PLAYS[0]));

static bool fs_legal(int Fs) { return Fs == 8000 || Fs == 12000 || Fs == 16000 || Fs == 24000 || Fs == 48000; }
static bool app_legal(int a) { return a == OPUS_APPLICATION_VOIP || a == OPUS_APPLICATION_AUDIO || a == OPUS_APPLICATION_RESTRICTED_LOWDELAY; }

static void make_mapping(const Lay& l, int mapkind, std::vector<unsigned char>& map) {
  int n = l.N < 0 ? 0 : l.N > 300 ? 300 : l.N;
  map.assign(n, 0);
  int tot = l.S + l.C; if (tot < 1) tot = 1;
  for (int i = 0; i < n; i++) map[i] = (unsigned char)(i < tot ? i : (i % tot));
  if (n == 0) return;
  switch (mapkind) {
    case 1: if (n > tot) map[n - 1] = 255; else map[0] = map[0]; break;
    case 2: map[n - 1] = (unsigned char)(tot > 255 ? 255 : tot); break;       // first illegal stream channel index
    case 3: for (int i = 0; i < n; i++) map[i] = 0; break;                        // only channel 0 of stream 0 is fed
    case 4: map[0] = 254; break;
    case 5: for (int i = 0; i < n; i++) map[i] = 255; break;                      // everything muted
  }
}
static bool ms_common_legal(int N, int S, int C) { return N >= 1 && N <= 255 && S >= 1 && C >= 0 && C <= S && S <= 255 - C; }
static bool mapping_in_range(const std::vector<unsigned char>& map, int N, int S, int C) {
  for (int i = 0; i < N; i++) if (map[i] != 255 && map[i] >= S + C) return false;
  return true;
}
static bool ms_dec_legal(int N, int S, int C, const std::vector<unsigned char>& map, int Fs) {
  return ms_common_legal(N, S, C) && mapping_in_range(map, N, S, C) && fs_legal(Fs);
}
static bool ms_enc_legal(int N, int S, int C, const std::vector<unsigned char>& map, int Fs, int app) {
  if (!ms_common_legal(N, S, C) || S + C > N || !mapping_in_range(map, N, S, C) || !fs_legal(Fs) || !app_legal(app)) return false;
  // every encoded stream channel must be fed by an input channel
  for (int k = 0; k < S + C; k++) { bool f = false; for (int i = 0; i < N; i++) if (map[i] == k) f = true; if (!f) return false; }
  return true;
}
static int isqrt_i(int n) { int r = 0; while ((r + 1) * (r + 1) <= n) r++; return r; }
// expected layout of the surround encoder (RFC 7845 section 5.1.1); returns false if the combination is unsupported
static bool surround_layout(int N, int family, int& S, int& C) {
  static const int VS[8] = {1, 1, 2, 2, 3, 4, 4, 5}, VC[8] = {0, 1, 1, 2, 2, 2, 3, 3};
  if (N < 1 || N > 255) return false;
  if (family == 0) { if (N > 2) return false; S = 1; C = N - 1; return true; }
  if (family == 1) { if (N > 8) return false; S = VS[N - 1]; C = VC[N - 1]; return true; }
  if (family == 255) { S = N; C = 0; return true; }
  if (family == 2) { if (N > 227) return false; int q = isqrt_i(N); int nd = N - q * q; if (nd != 0 && nd != 2) return false; S = q * q + (nd ? 1 : 0); C = nd ? 1 : 0; return true; }
  return false;
}
static bool proj_enc_layout(int N, int family, int& S, int& C) {
  if (family != 3 || N < 1 || N > 227) return false;
  int q = isqrt_i(N); int nd = N - q * q; if (nd != 0 && nd != 2) return false;
  if (q < 2 || q > 6) return false;       // pre-computed matrices exist for orders 1..5
  S = (N + 1) / 2; C = N / 2; return true;
}

#define CR_FAIL(SIG, ...) return rep.fail(SIG, __VA_ARGS__)

static int create_family(Choice& c, Report& rep) {
  int sub = c.irange(0, 6);
  rep.fingerprint(1000 + sub);
  switch (sub) {
    case 0: {  // ---- single encoder
      int Fs = FS_GRID[c.irange(0, 18)], ch = CH_GRID[c.irange(0, 4)], app = APP_GRID[c.irange(0, 7)];
      if (c.chance(16)) { Fs = (int)c.u32(); }
      bool legal = fs_legal(Fs) && (ch == 1 || ch == 2) && app_legal(app);
      rep.note("opus_encoder_create/init Fs=%d ch=%d app=%d legal=%d", Fs, ch, app, legal);
      rep.fingerprint(mix(mix(Fs, ch), app));
      int err = -99; OpusEncoder* e = opus_encoder_create(Fs, ch, app, &err); rep.count();
      if (legal) { if (!e || err != OPUS_OK) { if (e) opus_encoder_destroy(e); CR_FAIL("c11:create-legal-rejected:enc", "Fs=%d ch=%d app=%d err=%d", Fs, ch, app, err); } }
      else { if (e || err != OPUS_BAD_ARG) { if (e) opus_encoder_destroy(e); CR_FAIL("c11:create-illegal-accepted:enc", "Fs=%d ch=%d app=%d -> %p err=%d", Fs, ch, app, (void*)e, err); } }
      if (e) { opus_int32 v = 0; int r = opus_encoder_ctl(e, OPUS_GET_SAMPLE_RATE(&v)); opus_encoder_destroy(e); if (r != OPUS_OK || v != Fs) CR_FAIL("c11:created-object-unusable:enc", "sample rate %d ret %d", v, r); }
      OpusEncoder* e2 = opus_encoder_create(Fs, ch, app, nullptr); rep.count();
      if ((e2 != nullptr) != legal) { if (e2) opus_encoder_destroy(e2); CR_FAIL("c11:create-null-error-pointer:enc", "Fs=%d ch=%d app=%d legal=%d", Fs, ch, app, legal); }
      if (e2) opus_encoder_destroy(e2);
      int sz = opus_encoder_get_size(ch);
      if ((sz > 0) != (ch == 1 || ch == 2)) CR_FAIL("c11:get-size:enc", "get_size(%d)=%d", ch, sz);
      if (sz > 0) {
        HeapBuf<unsigned char> mem(sz); memset(mem.p, 0xA5, sz);
        int r = opus_encoder_init((OpusEncoder*)mem.p, Fs, ch, app); rep.count();
        if (r != (legal ? OPUS_OK : OPUS_BAD_ARG)) CR_FAIL("c11:init-verdict:enc", "init Fs=%d ch=%d app=%d returned %d", Fs, ch, app, r);
        if (legal) { opus_int32 v = 0; opus_encoder_ctl((OpusEncoder*)mem.p, OPUS_GET_APPLICATION(&v)); if (v != app) CR_FAIL("c11:created-object-unusable:enc", "application %d", v); }
      }
      rep.label(legal ? "create:enc:accept" : "create:enc:reject");
      return 0; }
    case 1: {  // ---- single decoder
      int Fs = FS_GRID[c.irange(0, 18)], ch = CH_GRID[c.irange(0, 4)];
      if (c.chance(16)) { Fs = (int)c.u32(); }
      bool legal = fs_legal(Fs) && (ch == 1 || ch == 2);
      rep.note("opus_decoder_create/init Fs=%d ch=%d legal=%d", Fs, ch, legal);
      rep.fingerprint(mix(Fs, ch));
      int err = -99; OpusDecoder* d = opus_decoder_create(Fs, ch, &err); rep.count();
      if (legal) { if (!d || err != OPUS_OK) { if (d) opus_decoder_destroy(d); CR_FAIL("c11:create-legal-rejected:dec", "Fs=%d ch=%d err=%d", Fs, ch, err); } }
      else { if (d || err != OPUS_BAD_ARG) { if (d) opus_decoder_destroy(d); CR_FAIL("c11:create-illegal-accepted:dec", "Fs=%d ch=%d -> %p err=%d", Fs, ch, (void*)d, err); } }
      if (d) { opus_int32 v = 0; int r = opus_decoder_ctl(d, OPUS_GET_SAMPLE_RATE(&v)); opus_decoder_destroy(d); if (r != OPUS_OK || v != Fs) CR_FAIL("c11:created-object-unusable:dec", "sample rate %d ret %d", v, r); }
      OpusDecoder* d2 = opus_decoder_create(Fs, ch, nullptr); rep.count();
      if ((d2 != nullptr) != legal) { if (d2) opus_decoder_destroy(d2); CR_FAIL("c11:create-null-error-pointer:dec", "Fs=%d ch=%d legal=%d", Fs, ch, legal); }
      if (d2) opus_decoder_destroy(d2);
      int sz = opus_decoder_get_size(ch);
      if ((sz > 0) != (ch == 1 || ch == 2)) CR_FAIL("c11:get-size:dec", "get_size(%d)=%d", ch, sz);
      if (sz > 0) {
        HeapBuf<unsigned char> mem(sz); memset(mem.p, 0xA5, sz);
        int r = opus_decoder_init((OpusDecoder*)mem.p, Fs, ch); rep.count();
        if (r != (legal ? OPUS_OK : OPUS_BAD_ARG)) CR_FAIL("c11:init-verdict:dec", "init Fs=%d ch=%d returned %d", Fs, ch, r);
      }
      rep.label(legal ? "create:dec:accept" : "create:dec:reject");
      return 0; }
    case 2: case 4: {  // ---- plain multistream encoder / decoder
      bool encoder = sub == 2;
      int Fs = FS_SMALL[c.irange(0, 2)], app = APP_SMALL[c.irange(0, 2)];
      Lay l = LAYS[c.irange(0, NLAYS - 1)]; int mk = c.irange(0, NMAPKIND - 1);
      std::vector<unsigned char> map; make_mapping(l, mk, map);
      HeapBuf<unsigned char> hm(map.size()); for (size_t i = 0; i < map.size(); i++) hm[i] = map[i];
      bool legal = encoder ? ms_enc_legal(l.N, l.S, l.C, map, Fs, app) : ms_dec_legal(l.N, l.S, l.C, map, Fs);
      rep.note("opus_multistream_%s_create/init Fs=%d channels=%d streams=%d coupled=%d mapkind=%d app=%d legal=%d", encoder ? "encoder" : "decoder", Fs, l.N, l.S, l.C, mk, app, legal);
      rep.fingerprint(mix(mix(mix(Fs, app), l.N * 1000 + l.S), l.C * 10 + mk));
      int err = -99; void* p;
      if (encoder) p = opus_multistream_encoder_create(Fs, l.N, l.S, l.C, hm.p, app, &err); else p = opus_multistream_decoder_create(Fs, l.N, l.S, l.C, hm.p, &err);
      rep.count();
      bool okv = legal ? (p && err == OPUS_OK) : (!p && err == OPUS_BAD_ARG);
      if (p) {
        opus_int32 v = 0; int r = encoder ? opus_multistream_encoder_ctl((OpusMSEncoder*)p, OPUS_GET_SAMPLE_RATE(&v)) : opus_multistream_decoder_ctl((OpusMSDecoder*)p, OPUS_GET_SAMPLE_RATE(&v));
        if (encoder) opus_multistream_encoder_destroy((OpusMSEncoder*)p); else opus_multistream_decoder_destroy((OpusMSDecoder*)p);
        if (okv && (r != OPUS_OK || v != Fs)) CR_FAIL(encoder ? "c11:created-object-unusable:ms-enc" : "c11:created-object-unusable:ms-dec", "sample rate %d ret %d", v, r);
      }
      if (!okv) CR_FAIL(legal ? (encoder ? "c11:create-legal-rejected:ms-enc" : "c11:create-legal-rejected:ms-dec") : (encoder ? "c11:create-illegal-accepted:ms-enc" : "c11:create-illegal-accepted:ms-dec"),
                        "Fs=%d channels=%d streams=%d coupled=%d mapkind=%d app=%d -> %s err=%d", Fs, l.N, l.S, l.C, mk, app, p ? "object" : "NULL", err);
      opus_int32 sz = encoder ? opus_multistream_encoder_get_size(l.S, l.C) : opus_multistream_decoder_get_size(l.S, l.C);
      bool szlegal = l.S >= 1 && l.C >= 0 && l.C <= l.S;
      if ((sz > 0) != szlegal) CR_FAIL(encoder ? "c11:get-size:ms-enc" : "c11:get-size:ms-dec", "get_size(%d,%d)=%d", l.S, l.C, sz);
      if (sz > 0 && l.S + l.C <= 255) {
        HeapBuf<unsigned char> mem(sz); memset(mem.p, 0xA5, sz);
        int r = encoder ? opus_multistream_encoder_init((OpusMSEncoder*)mem.p, Fs, l.N, l.S, l.C, hm.p, app) : opus_multistream_decoder_init((OpusMSDecoder*)mem.p, Fs, l.N, l.S, l.C, hm.p);
        rep.count();
        if (r != (legal ? OPUS_OK : OPUS_BAD_ARG)) CR_FAIL(encoder ? "c11:init-verdict:ms-enc" : "c11:init-verdict:ms-dec", "init Fs=%d channels=%d streams=%d coupled=%d mapkind=%d returned %d, legal=%d", Fs, l.N, l.S, l.C, mk, r, legal);
      }
      rep.label(encoder ? (legal ? "create:ms-enc:accept" : "create:ms-enc:reject") : (legal ? "create:ms-dec:accept" : "create:ms-dec:reject"));
      return 0; }
    case 3: {  // ---- surround encoder, channels 0..256
      int N = c.irange(0, 256), family = FAM_GRID[c.irange(0, 8)], Fs = FS_SMALL[c.irange(0, 1)], app = APP_SMALL[c.irange(0, 1)];
      int S = -1, C = -1;
      bool layout = surround_layout(N, family, S, C);
      bool legal = layout && fs_legal(Fs) && app_legal(app);
      rep.note("opus_multistream_surround_encoder_create/init Fs=%d channels=%d family=%d app=%d legal=%d", Fs, N, family, app, legal);
      rep.fingerprint(mix(mix(N, family), mix(Fs, app)));
      HeapBuf<unsigned char> map(N > 0 ? N : 0); memset(map.p, 0xEE, N > 0 ? N : 1);
      int s = -5, cp = -5, err = -99;
      OpusMSEncoder* e = opus_multistream_surround_encoder_create(Fs, N, family, &s, &cp, map.p, app, &err); rep.count();
      if (legal) {
        bool good = e && err == OPUS_OK && s == S && cp == C;
        if (good) { std::vector<int> seen(S + C, 0); for (int i = 0; i < N; i++) { if (map[i] < S + C) seen[map[i]]++; else good = false; } for (int k = 0; k < S + C; k++) if (seen[k] != 1) good = false; }
        if (e) opus_multistream_encoder_destroy(e);
        if (!good) CR_FAIL("c11:create-legal-rejected:surround", "Fs=%d channels=%d family=%d app=%d: err=%d streams=%d/%d coupled=%d/%d", Fs, N, family, app, err, s, S, cp, C);
      } else {
        if (e) opus_multistream_encoder_destroy(e);
        if (e || !(err == OPUS_BAD_ARG || err == OPUS_UNIMPLEMENTED)) CR_FAIL("c11:create-illegal-accepted:surround", "Fs=%d channels=%d family=%d app=%d -> %s err=%d", Fs, N, family, app, e ? "object" : "NULL", err);
      }
      opus_int32 sz = opus_multistream_surround_encoder_get_size(N, family);
      if (layout && sz <= 0) CR_FAIL("c11:get-size:surround", "surround get_size(%d,%d)=%d, supported=%d", N, family, sz, layout);
      if (sz > 0 && sz < (64 << 20)) {
        HeapBuf<unsigned char> mem(sz); memset(mem.p, 0xA5, sz);
        s = cp = -5;
        int r = opus_multistream_surround_encoder_init((OpusMSEncoder*)mem.p, Fs, N, family, &s, &cp, map.p, app); rep.count();
        if (legal ? (r != OPUS_OK || s != S || cp != C) : (r != OPUS_BAD_ARG && r != OPUS_UNIMPLEMENTED)) CR_FAIL("c11:init-verdict:surround", "init Fs=%d channels=%d family=%d app=%d returned %d", Fs, N, family, app, r);
      }
      rep.label(legal ? "create:surround:accept" : "create:surround:reject");
      return 0; }
    case 5: {  // ---- projection encoder, channels 0..256
      int N = c.irange(0, 256), family = PFAM_GRID[c.irange(0, 4)], Fs = FS_SMALL[c.irange(0, 1)], app = APP_SMALL[c.irange(0, 1)];
      int S = -1, C = -1;
      bool layout = proj_enc_layout(N, family, S, C);
      bool legal = layout && fs_legal(Fs) && app_legal(app);
      rep.note("opus_projection_ambisonics_encoder_create/init Fs=%d channels=%d family=%d app=%d legal=%d", Fs, N, family, app, legal);
      rep.fingerprint(mix(mix(N, family), mix(Fs, app + 7)));
      int s = -5, cp = -5, err = -99;
      OpusProjectionEncoder* e = opus_projection_ambisonics_encoder_create(Fs, N, family, &s, &cp, app, &err); rep.count();
      if (legal) {
        bool good = e && err == OPUS_OK && s == S && cp == C;
        if (e) opus_projection_encoder_destroy(e);
        if (!good) CR_FAIL("c11:create-legal-rejected:projection-enc", "Fs=%d channels=%d family=%d app=%d: err=%d streams=%d/%d coupled=%d/%d", Fs, N, family, app, err, s, S, cp, C);
      } else {
        if (e) opus_projection_encoder_destroy(e);
        if (e || err >= 0) CR_FAIL("c11:create-illegal-accepted:projection-enc", "Fs=%d channels=%d family=%d app=%d -> %s err=%d", Fs, N, family, app, e ? "object" : "NULL", err);
      }
      opus_int32 sz = opus_projection_ambisonics_encoder_get_size(N, family);
      if ((sz > 0) != layout) CR_FAIL("c11:get-size:projection-enc", "get_size(%d,%d)=%d, supported=%d", N, family, sz, layout);
      if (sz > 0) {
        HeapBuf<unsigned char> mem(sz); memset(mem.p, 0xA5, sz);
        s = cp = -5;
        int r = opus_projection_ambisonics_encoder_init((OpusProjectionEncoder*)mem.p, Fs, N, family, &s, &cp, app); rep.count();
        if (legal ? (r != OPUS_OK || s != S || cp != C) : (r >= 0)) CR_FAIL("c11:init-verdict:projection-enc", "init Fs=%d channels=%d family=%d app=%d returned %d", Fs, N, family, app, r);
        if (c.chance(64)) { r = opus_projection_ambisonics_encoder_init((OpusProjectionEncoder*)mem.p, Fs, N, family, nullptr, &cp, app); if (r != OPUS_BAD_ARG) CR_FAIL("c11:init-verdict:projection-enc", "NULL streams pointer accepted: %d", r); }
      }
      rep.label(legal ? "create:projection-enc:accept" : "create:projection-enc:reject");
      return 0; }
    default: {  // ---- projection decoder
      PLay l = PLAYS[c.irange(0, NPLAYS - 1)]; int Fs = FS_SMALL[c.irange(0, 1)];
      long long nominal = 2ll * (l.S + l.C) * l.N;
      long long given = nominal + l.delta;
      // every output channel is demixed from the stream channels (trivial mapping i -> i), so channels <= streams + coupled
      bool dims = l.N >= 1 && l.N <= 255 && l.S >= 1 && l.C >= 0 && l.C <= l.S && l.S + l.C <= 255 && l.N <= l.S + l.C && nominal <= 65004;
      bool legal = dims && l.delta == 0 && fs_legal(Fs);
      // F17: the demixing-matrix size check passes for non-positive channel/stream products (0 == 0, negative == negative) and a
      // variable-length array of that non-positive size is declared before the channel count is validated
      if ((l.N <= 0 || l.S + l.C <= 0) && given == nominal && rep.exclude("F17")) { rep.label("create:projection-dec:excluded-F17"); return 0; }
      rep.note("opus_projection_decoder_create/init Fs=%d channels=%d streams=%d coupled=%d matrix_size=%lld (nominal %lld) legal=%d", Fs, l.N, l.S, l.C, given, nominal, legal);
      rep.fingerprint(mix(mix(l.N, l.S), mix(l.C * 100 + l.delta, Fs)));
      size_t alloc = given > 0 ? (size_t)given : 0;
      HeapBuf<unsigned char> mat(alloc); for (size_t i = 0; i < alloc; i++) mat[i] = (unsigned char)((i & 1) ? 0x10 : 0);   // entries of 4096 (Q15 0.125)
      int err = -99;
      OpusProjectionDecoder* d = opus_projection_decoder_create(Fs, l.N, l.S, l.C, mat.p, (opus_int32)given, &err); rep.count();
      if (legal) { bool good = d && err == OPUS_OK; if (d) { opus_int32 v = 0; int r = opus_projection_decoder_ctl(d, OPUS_GET_SAMPLE_RATE(&v)); if (r != OPUS_OK || v != Fs) good = false; opus_projection_decoder_destroy(d); }
                   if (!good) CR_FAIL("c11:create-legal-rejected:projection-dec", "Fs=%d channels=%d streams=%d coupled=%d size=%lld err=%d", Fs, l.N, l.S, l.C, given, err); }
      else { if (d) opus_projection_decoder_destroy(d); if (d || err >= 0) CR_FAIL("c11:create-illegal-accepted:projection-dec", "Fs=%d channels=%d streams=%d coupled=%d size=%lld (nominal %lld) -> %s err=%d", Fs, l.N, l.S, l.C, given, nominal, d ? "object" : "NULL", err); }
      opus_int32 sz = opus_projection_decoder_get_size(l.N, l.S, l.C);
      if (dims && sz <= 0) CR_FAIL("c11:get-size:projection-dec", "get_size(%d,%d,%d)=%d", l.N, l.S, l.C, sz);
      if (sz > 0 && sz < (64 << 20)) {
        HeapBuf<unsigned char> mem(sz); memset(mem.p, 0xA5, sz);
        int r = opus_projection_decoder_init((OpusProjectionDecoder*)mem.p, Fs, l.N, l.S, l.C, mat.p, (opus_int32)given); rep.count();
        if (legal ? r != OPUS_OK : r >= 0) CR_FAIL("c11:init-verdict:projection-dec", "init Fs=%d channels=%d streams=%d coupled=%d size=%lld returned %d legal=%d", Fs, l.N, l.S, l.C, given, r, legal);
      }
      rep.label(legal ? "create:projection-dec:accept" : "create:projection-dec:reject");
      return 0; }
  }
}

// enumeration of family 2: byte strings [2][sub][indices...]
static const uint64_t CR_COUNT[7] = {19ull * 5 * 8, 19ull * 5, 3ull * 3 * NLAYS * NMAPKIND, 257ull * 9 * 2 * 2, 3ull * 3 * NLAYS * NMAPKIND, 257ull * 5 * 2 * 2, (uint64_t)NPLAYS * 2};
static uint64_t create_enum_count() { uint64_t t = 0; for (int i = 0; i < 7; i++) t += CR_COUNT[i]; return t; }
static void create_enum_case(uint64_t idx, std::vector<uint8_t>& out) {
  out.clear(); out.push_back(2);
  int sub = 0; while (idx >= CR_COUNT[sub]) { idx -= CR_COUNT[sub]; sub++; }
  out.push_back((uint8_t)sub);
  auto b = [&](uint64_t span) { uint8_t v = (uint8_t)(idx % span); idx /= span; out.push_back(v); };
  auto w = [&](uint64_t span) { unsigned v = (unsigned)(idx % span); idx /= span; out.push_back((uint8_t)(v >> 8)); out.push_back((uint8_t)(v & 255)); };
  switch (sub) {
    case 0: b(19); b(5); b(8); out.push_back(255); break;               // trailing 255: chance(16) false
    case 1: b(19); b(5); out.push_back(255); break;
    case 2: case 4: b(3); b(3); b(NLAYS); b(NMAPKIND); break;
    case 3: w(257); b(9); b(2); b(2); break;
    case 5: w(257); b(5); b(2); b(2); out.push_back(255); break;
    default: b(NPLAYS); b(2); break;
  }
}
