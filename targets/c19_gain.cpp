// C19 (part 2): OPUS_SET_GAIN(g) multiplies the decoded signal by 10^(g/5120) and nothing else.
// Packet streams come from encoders created inside the case (generated configuration and signal, up to two
// encoders spliced so that mode transitions without redundancy occur), with lost packets (PLC) and FEC
// decodes.  Four decoders see the same calls:
//   A  opus_decode_float, gain 0          B  opus_decode_float, gain g (g may change between packets)
//   C  opus_decode (16 bit), gain g       D  opus_decode24, gain g
// Oracle: same return value and final range everywhere; B == A * G bit-exactly with one float G per gain
// value, |G / 10^(g/5120) - 1| <= 1e-4; C never flips a sign / saturates, and equals the rounded float while
// the stream was never above full scale; D == lrintf(2^23 * B) while that fits in 32 bits and sticks to the
// extreme of the right sign otherwise (positive overflow: known finding F5).
#include "vp.hpp"
extern "C" {
#include "opus.h"
#include "opus_private.h"
}
#include "common.hpp"
#include "siggen.hpp"
#include <climits>

using namespace vp;

extern "C" int opus_verif_arch_cap;   // XIPH_OPUS_VERIF hook: 0 = plain C .. 4 = AVX2, 255 = no cap

const TargetInfo vp_info = {"c19_gain", 40, 220};

static const int RATES[5] = {8000, 12000, 16000, 24000, 48000};
static inline uint32_t bits(float f) { uint32_t u; memcpy(&u, &f, 4); return u; }

struct EncCfg { int Fs, ch, app, bitrate, complexity, dur400 /* frame duration in 1/400 s */, force_mode, vbr, fec, family; double amp; uint32_t seed; };

static void gen_enc(Choice& c, EncCfg& e, int Fs, int ch) {
  e.Fs = Fs; e.ch = ch;
  static const int APPS[3] = {OPUS_APPLICATION_VOIP, OPUS_APPLICATION_AUDIO, OPUS_APPLICATION_RESTRICTED_LOWDELAY};
  e.app = c.pick(APPS);
  static const int BR[] = {6000, 9000, 12000, 16000, 24000, 32000, 48000, 64000, 96000, 160000, 320000, 510000};
  e.bitrate = c.pick(BR);
  e.complexity = c.irange(0, 3);
  static const int DUR[] = {8, 8, 4, 2, 1, 16, 24};   // 20 20 10 5 2.5 40 60 ms
  e.dur400 = c.pick(DUR);
  static const int FM[] = {OPUS_AUTO, OPUS_AUTO, MODE_SILK_ONLY, MODE_HYBRID, MODE_CELT_ONLY};
  e.force_mode = c.pick(FM);
  e.vbr = c.boolean();
  e.fec = c.chance(80);
  e.family = c.irange(0, sig::NFAMILIES - 1);
  static const double AMPS[] = {0.5, 0.05, 0.9, 1.0, 0.001};
  e.amp = c.pick(AMPS);
  e.seed = c.u32();
}

static int gen_gain(Choice& c) {
  static const int SPECIAL[] = {0, 256, -256, 1, -1, 2560, -2560, 5120, 10240, 15000, 20000, 25000, 32767, -32768, -20000, -10240};
  if (c.chance(150)) return c.pick(SPECIAL);
  return c.irange(0, 65535) - 32768;
}

struct Pkt { std::vector<uint8_t> data; int samples_dec; /* at decoder rate */ int enc; };

int vp_case(Choice& c, Report& rep) {
  const int FsE = c.pick(RATES), chE = 1 + c.irange(0, 1);
  const int FsD = c.chance(128) ? FsE : c.pick(RATES), chD = 1 + c.irange(0, 1);
  int g0 = gen_gain(c);
  int npk = 2 + c.irange(0, 10);
  EncCfg cfg[2];
  gen_enc(c, cfg[0], FsE, chE);
  int nenc = c.chance(90) ? 2 : 1;
  if (nenc == 2) { gen_enc(c, cfg[1], FsE, chE); cfg[1].family = cfg[0].family; cfg[1].amp = cfg[0].amp; cfg[1].seed = cfg[0].seed; }
  int change_at = c.chance(64) ? 1 + c.irange(0, npk - 1) : -1;
  int g1 = change_at >= 0 ? gen_gain(c) : g0;

  // ---- encode ------------------------------------------------------------------------------------------------
  std::vector<Pkt> pk;
  int err = 0;
  OpusEncoder* enc[2] = {nullptr, nullptr};
  for (int k = 0; k < nenc; k++) {
    enc[k] = opus_encoder_create(FsE, chE, cfg[k].app, &err);
    VP_REQUIRE(enc[k] && err == OPUS_OK, "c19:harness-encoder-create", "encoder create failed %d", err);
    opus_encoder_ctl(enc[k], OPUS_SET_BITRATE(cfg[k].bitrate));
    opus_encoder_ctl(enc[k], OPUS_SET_COMPLEXITY(cfg[k].complexity));
    opus_encoder_ctl(enc[k], OPUS_SET_VBR(cfg[k].vbr));
    if (cfg[k].force_mode != OPUS_AUTO) opus_encoder_ctl(enc[k], OPUS_SET_FORCE_MODE(cfg[k].force_mode));
    if (cfg[k].fec) { opus_encoder_ctl(enc[k], OPUS_SET_INBAND_FEC(1)); opus_encoder_ctl(enc[k], OPUS_SET_PACKET_LOSS_PERC(25)); }
  }
  int pos = 0, cur = 0, splices = 0;
  int total_ms = 0;
  for (int i = 0; i < npk && total_ms < 500; i++) {
    if (nenc == 2 && i && c.chance(70)) { cur ^= 1; splices++; }
    const EncCfg& e = cfg[cur];
    int n = FsE * e.dur400 / 400;
    std::vector<float> sigbuf;
    sig::generate(e.family, e.seed, FsE, chE, n, e.amp, sigbuf, pos);
    pos += n;
    total_ms += e.dur400 * 5 / 2;
    HeapBuf<float> in((size_t)n * chE);
    memcpy(in.p, sigbuf.data(), sizeof(float) * n * chE);
    HeapBuf<uint8_t> out(1500);
    int len = opus_encode_float(enc[cur], in.p, n, out.p, 1500);
    if (len < 0) { for (int k = 0; k < nenc; k++) opus_encoder_destroy(enc[k]); return rep.fail("c19:harness-encode", "encode returned %d", len); }
    Pkt p;
    p.data.assign(out.p, out.p + len);
    p.samples_dec = FsD * e.dur400 / 400;
    p.enc = cur;
    pk.push_back(p);
  }
  for (int k = 0; k < nenc; k++) opus_encoder_destroy(enc[k]);

  // ---- decode with four decoders ---------------------------------------------------------------------------------
  static const int CAPS[] = {255, 255, 0, 2, 4};
  const int cap = c.pick(CAPS);
  opus_verif_arch_cap = cap;     // read when the decoders are created (conversion kernels are arch-dispatched)
  OpusDecoder* dec[4];
  for (int k = 0; k < 4; k++) { dec[k] = opus_decoder_create(FsD, chD, &err); if (!dec[k]) { for (int j = 0; j < k; j++) opus_decoder_destroy(dec[j]); return rep.fail("c19:harness-decoder-create", "%d", err); } }
  struct Cleanup { OpusDecoder** d; ~Cleanup() { for (int k = 0; k < 4; k++) opus_decoder_destroy(d[k]); opus_verif_arch_cap = 255; } } cleanup{dec};
  int g = g0;
  auto set_gain = [&](int gv) -> int {
    for (int k = 1; k < 4; k++) {
      int r = opus_decoder_ctl(dec[k], OPUS_SET_GAIN(gv));
      opus_int32 back = 12345;
      int r2 = opus_decoder_ctl(dec[k], OPUS_GET_GAIN(&back));
      if (r != OPUS_OK || r2 != OPUS_OK || back != gv) return rep.fail("c19:gain-ctl", "OPUS_SET_GAIN(%d) returned %d, OPUS_GET_GAIN %d -> %d", gv, r, r2, back);
    }
    return 0;
  };
  if (c.boolean() || g != 0) { if (set_gain(g)) return 1; }
  // candidate float factors for the current gain value
  std::vector<float> cand;
  bool cand_init = false;
  bool ever_loud = false;      // B's float output exceeded full scale at some point -> soft-clip memory of C may be non-zero
  int n_trans = 0, n_tiny = 0;
  bool may_celt = false, may_non = false, red = false;
  int n_lost = 0, n_fec = 0, n_sat16 = 0, n_big24 = 0, n_f5 = 0, n_nonsilent = 0, n_modes = 0, last_mode = -1;
  double maxabs_B = 0;
  uint64_t fp = mix(mix(FsE, FsD), mix(chE * 2 + chD, (uint64_t)(g0 + 40000) * 70000 + (g1 + 40000)));
  const int maxfs = FsD * 120 / 1000;

  for (size_t i = 0; i < pk.size(); i++) {
    if ((int)i == change_at) { g = g1; if (set_gain(g)) return 1; cand.clear(); cand_init = false; }
    int action = c.irange(0, 9);   // 0: lost (PLC), 1: lost, recovered from the next packet's FEC, else normal
    const uint8_t* dptr = nullptr; int dlen = 0, fs = maxfs, fecflag = 0;
    HeapBuf<uint8_t> pbuf(pk[i].data.size());
    const char* what = "normal";
    if (action == 0 || (action == 1 && i + 1 >= pk.size())) { fs = pk[i].samples_dec; n_lost++; what = "lost"; }
    else if (action == 1) {
      // decode the loss from packet i+1's in-band FEC, then packet i+1 is decoded in the next iteration
      fs = pk[i].samples_dec; fecflag = 1; n_fec++; what = "fec";
    } else { memcpy(pbuf.p, pk[i].data.data(), pk[i].data.size()); dptr = pbuf.p; dlen = (int)pk[i].data.size(); }
    HeapBuf<uint8_t> fbuf(fecflag ? pk[i + 1].data.size() : 0);
    if (fecflag) { memcpy(fbuf.p, pk[i + 1].data.data(), pk[i + 1].data.size()); dptr = fbuf.p; dlen = (int)pk[i + 1].data.size(); }
    if (dptr) { int m = dptr[0] >= 128 ? 2 : (dptr[0] >= 96 ? 1 : 0); if (m != last_mode) { n_modes++; last_mode = m; } }
    // Finding F19 lives in the decoder's "transition" (cross-fade from a nested concealment frame), taken when a real frame's
    // mode class (CELT-only vs SILK/hybrid) differs from the decoder's previous mode.  The previous mode is not observable, so
    // it is over-approximated: may_celt / may_non = classes it may have; red = the last decoded frame may have carried CELT
    // redundancy, in which case a concealment frame runs in CELT mode.  Frames of <= 1 byte are concealed as well.
    bool transition_possible = false, tiny_frame = false;
    if (!dptr) {
      if ((may_celt || may_non) && red) may_celt = true;
      red = false;
    } else {
      const bool celt = dptr[0] >= 128;
      opus_int16 fsz[48];
      int nf = opus_packet_parse(dptr, dlen, nullptr, nullptr, fsz, nullptr);
      for (int k = 0; k < nf; k++) if (fsz[k] <= 1) tiny_frame = true;
      if (fecflag) {   // the decoder first conceals the part before the recovered frame (or everything): that may switch to CELT
        if ((may_celt || may_non) && red) may_celt = true;
        red = false;
      }
      transition_possible = celt ? may_non : may_celt;
      if (tiny_frame) transition_possible = transition_possible || may_celt || may_non;
      if (fecflag) {   // either an LBRR decode (previous mode becomes the packet's) or plain concealment
        if (red) may_celt = true;
        if (celt) may_celt = true; else may_non = true;
        red = !celt;
      } else {
        may_celt = celt; may_non = !celt; red = !celt;
        if (tiny_frame) { may_celt = true; }
      }
    }
    rep.note("pkt %zu %s toc=0x%02x len=%d fs=%d gain=%d%s", i, what, dptr ? dptr[0] : 0, dlen, fs, g, transition_possible ? " [mode class may change]" : "");
    // samples [skip_lo, skip_hi) are not compared while F19 is excluded: the first 5 ms of the real frame.  In an FEC call the
    // recovered frame sits at the end of the buffer, behind a concealed prefix of (fs - frame length) samples.
    int skip_lo = 0, skip_hi = 0;
    if (transition_possible && g != 0) {
      n_trans++;
      // fixed finding F19 (decoder gain applied twice at mode transitions): no samples are skipped any more
      rep.label("gain:mode-class-may-change");
    }

    HeapBuf<float> oa((size_t)fs * chD), ob((size_t)fs * chD);
    HeapBuf<opus_int16> oc((size_t)fs * chD);
    HeapBuf<opus_int32> od((size_t)fs * chD);
    int ra = opus_decode_float(dec[0], dptr, dlen, oa.p, fs, fecflag);
    int rb = opus_decode_float(dec[1], dptr, dlen, ob.p, fs, fecflag);
    int rc = opus_decode(dec[2], dptr, dlen, oc.p, fs, fecflag);
    int rd = opus_decode24(dec[3], dptr, dlen, od.p, fs, fecflag);
    rep.count(4);
    VP_REQUIRE(ra > 0, "c19:harness-decode", "packet %zu (%s): reference decoder returned %d", i, what, ra);
    VP_REQUIRE(rb == ra && rc == ra && rd == ra, "c19:gain-changes-sample-count", "packet %zu (%s) gain %d: samples float0=%d floatg=%d int16=%d int24=%d", i, what, g, ra, rb, rc, rd);
    opus_uint32 rng[4];
    for (int k = 0; k < 4; k++) opus_decoder_ctl(dec[k], OPUS_GET_FINAL_RANGE(&rng[k]));
    VP_REQUIRE(rng[1] == rng[0] && rng[2] == rng[0] && rng[3] == rng[0], "c19:gain-changes-final-range", "packet %zu (%s) gain %d: final range %08x / %08x / %08x / %08x", i, what, g,
               rng[0], rng[1], rng[2], rng[3]);
    const int ns = ra * chD;
    // ---- float: one exact factor ---------------------------------------------------------------------------------
    if (skip_hi > ns) skip_hi = ns;
    if (skip_lo > ns) skip_lo = ns;
    auto skipped = [&](int s) { return s >= skip_lo && s < skip_hi; };
    int imax = -1; float amax = 0;
    for (int s = 0; s < ns; s++) { if (skipped(s)) continue; float a = std::fabs(oa[s]); if (a > amax) { amax = a; imax = s; } }
    const char* scale_sig = transition_possible ? "c19:gain-not-exact-scale-at-mode-transition" : "c19:gain-not-exact-scale";
    if (g == 0) {
      for (int s = 0; s < ns; s++) VP_REQUIRE(bits(oa[s]) == bits(ob[s]), "c19:gain-zero-not-identity", "packet %zu sample %d: %.9g vs %.9g with gain 0", i, s, oa[s], ob[s]);
    } else if (imax < 0) {
      for (int s = 0; s < ns; s++) if (!skipped(s) && ob[s] != 0.f) return rep.fail(scale_sig, "packet %zu (%s) sample %d: silent input but %.9g with gain %d", i, what, s, ob[s], g);
    } else {
      n_nonsilent++;
      const double ideal = std::pow(10.0, g / 5120.0);
      if (!cand_init && std::fabs(ob[imax]) >= 1e-30f) {
        // the factor is read off the largest sample (far above the denormal range, so the quotient is good to 1 ulp)
        float gc = (float)((double)ob[imax] / (double)oa[imax]);
        cand.push_back(gc);
        float up = gc, dn = gc;
        for (int k = 0; k < 4; k++) { up = std::nextafterf(up, INFINITY); dn = std::nextafterf(dn, 0.f); cand.push_back(up); cand.push_back(dn); }
        cand_init = true;
      }
      if (!cand_init) {
        // nothing but near-denormal output so far: the factor cannot be pinned down yet, check the scaling loosely
        for (int s = 0; s < ns; s++) {
          if (skipped(s)) continue;
          double want = (double)oa[s] * ideal;
          if (std::fabs((double)ob[s] - want) > 1e-4 * std::fabs(want) + 3e-45)
            return rep.fail(scale_sig, "packet %zu (%s) gain %d sample %d: %.9g scaled by 10^(g/5120) is %.9g, decoder gave %.9g", i, what, g, s, oa[s], want, ob[s]);
        }
        n_tiny++;
        goto float_done;
      }
      std::vector<float> keep;
      int worst_s = -1; float worst_G = 0;
      for (float G : cand) {
        bool ok = true;
        for (int s = 0; s < ns; s++) { if (skipped(s)) continue; volatile float p = oa[s] * G; if (bits(p) != bits(ob[s])) { ok = false; if (worst_s < 0 || s > worst_s) { worst_s = s; worst_G = G; } break; } }
        if (ok) keep.push_back(G);
      }
      if (keep.empty()) {
        volatile float p = oa[worst_s] * worst_G;
        return rep.fail(scale_sig, "packet %zu (%s, toc 0x%02x, previous mode class %s) gain %d: no single float factor maps the gain-0 output to the gain-g output; with G=%.9g sample %d of %d: %.9g * G = %.9g but the decoder gave %.9g (ratio %.9g, 10^(g/5120) = %.9g)",
                        i, what, dptr ? dptr[0] : 0, transition_possible ? "differs" : "same", g, worst_G, worst_s, ns, oa[worst_s], p, ob[worst_s], oa[worst_s] != 0 ? ob[worst_s] / oa[worst_s] : 0.0, std::pow(10.0, g / 5120.0));
      }
      cand = keep;
      VP_REQUIRE(std::fabs(cand[0] / ideal - 1.0) <= 1e-4, "c19:gain-value", "gain %d: factor %.9g, 10^(g/5120) = %.9g", g, cand[0], ideal);
    }
  float_done:
    // ---- 16-bit: saturates, never flips a sign -----------------------------------------------------------------------
    for (int s = 0; s < ns; s++) {
      float f = ob[s];
      if (std::fabs(f) > maxabs_B) maxabs_B = std::fabs(f);
      int v = oc[s];
      if (f >= 2.f / 32768 || f <= -2.f / 32768)
        VP_REQUIRE((f > 0) == (v > 0) && v != 0, "c19:decode16-wraps", "packet %zu (%s) gain %d sample %d: float %.9g but 16-bit %d", i, what, g, s, f, v);
      if (f >= 1.f || f <= -1.f) {
        VP_REQUIRE(v >= 16384 || v <= -16384, "c19:decode16-not-saturated", "packet %zu (%s) gain %d sample %d: float %.9g but 16-bit %d", i, what, g, s, f, v);
        n_sat16++;
      }
    }
    if (!ever_loud) {
      bool loud_now = false;
      for (int s = 0; s < ns; s++) if (ob[s] > 1.f || ob[s] < -1.f) loud_now = true;
      if (!loud_now) {
        for (int s = 0; s < ns; s++) {
          float x = ob[s] * 32768.f;
          long want = lrintf(x); if (want > 32767) want = 32767; if (want < -32768) want = -32768;
          VP_REQUIRE(oc[s] == want, "c19:decode16-value", "packet %zu (%s) gain %d sample %d: float %.9g -> expected %ld, 16-bit output %d", i, what, g, s, ob[s], want, oc[s]);
        }
      } else ever_loud = true;
    }
    // ---- 24-bit: lrintf(2^23 * float) while it fits, saturation otherwise ------------------------------------------------
    for (int s = 0; s < ns; s++) {
      float x = 8388608.f * ob[s];
      if (x >= 2147483648.f) {
        n_big24++;
        n_f5++;   // fixed finding F5 class (value beyond the 32-bit range): saturation is asserted
        VP_REQUIRE(od[s] >= 2147483520, "c19:decode24-wraps", "packet %zu (%s) gain %d sample %d: float output %.9g (x 2^23 = %.9g, above the 32-bit range) converted to %d instead of saturating", i, what, g, s, ob[s], x, od[s]);
      } else if (x <= -2147483648.f) {
        n_big24++;
        VP_REQUIRE(od[s] == INT_MIN, "c19:decode24-wraps", "packet %zu (%s) gain %d sample %d: float output %.9g (x 2^23 = %.9g, below the 32-bit range) converted to %d instead of saturating", i, what, g, s, ob[s], x, od[s]);
      } else {
        long want = lrintf(x);
        VP_REQUIRE(od[s] == want, "c19:decode24-value", "packet %zu (%s) gain %d sample %d: float %.9g -> expected %ld, 24-bit output %d", i, what, g, s, ob[s], want, od[s]);
      }
    }
    fp = mix(fp, fnv1a(pk[i].data.data(), std::min<size_t>(pk[i].data.size(), 8)) ^ (uint64_t)action);
  }
  // ---- labels ---------------------------------------------------------------------------------------------------------
  rep.labelf("gain:%s", g0 == 0 ? "zero" : g0 > 15000 ? "> +58 dB" : g0 > 0 ? "positive" : g0 < -15000 ? "< -58 dB" : "negative");
  if (change_at >= 0) rep.label("gain-changed-mid-stream");
  if (n_lost) rep.label("plc");
  if (n_fec) rep.label("fec-decode");
  if (splices) rep.label("spliced-encoders");
  if (n_modes > 1) rep.label("mode-change");
  if (n_trans) rep.label("mode-class-transition-with-gain");
  if (n_sat16) rep.label("int16-saturating");
  if (n_big24) rep.label("int24-beyond-32bit");
  if (n_nonsilent > n_tiny) rep.label("float-scale-checked");
  if (n_tiny) rep.label("near-denormal-output-loose-check");
  if (cap == 0) rep.label("arch:plain-C");
  if (FsD != FsE) rep.label("decoder-rate-differs");
  if (chD != chE) rep.label("decoder-channels-differ");
  // non-trivial: a non-zero gain was applied to a non-silent stream
  if ((g0 != 0 || g1 != 0) && n_nonsilent) rep.nontrivial();
  rep.fingerprint(fp);
  rep.note("encoder %d Hz x%d (%s, %d b/s, %g ms, mode %d%s) -> decoder %d Hz x%d, %zu packets (%d lost, %d fec, %d splices), gain %d%s, peak |float| %.3g, %d saturated 16-bit samples, %d 24-bit samples beyond 32 bits",
           FsE, chE, sig::FAMILY_NAME[cfg[0].family], cfg[0].bitrate, cfg[0].dur400 * 2.5, cfg[0].force_mode, nenc == 2 ? ", second encoder" : "", FsD, chD, pk.size(), n_lost, n_fec, splices, g0,
           change_at >= 0 ? " then changed" : "", maxabs_B, n_sat16, n_big24);
  return 0;
}
