// C12: codec state is deterministic, memcpy-copyable and reset-equivalent.
// Three twin experiments per case, chosen by the case:
//   DET   : the same history on two objects initialised with *_init() inside caller memory of exactly *_get_size() bytes
//           pre-filled with different poison patterns; unrelated objects are created / used / destroyed and the stack is
//           scribbled with different patterns between the two runs of every step.
//   CLONE : at step c the state is copied with memcpy(get_size()) into fresh memory; the original memory is then overwritten and
//           freed, and the copy continues against a reference twin that ran the same history from the start.
//   RESET : at step r OPUS_RESET_STATE; from then on the object is compared with a fresh object that received the same settings
//           through the public ctl interface.
// Objects: encoder, decoder, multistream encoder (plain, surround), multistream decoder, projection encoder / decoder.
// Oracle: byte-identical packets and final ranges / bit-identical PCM at every step.  The RTCD level is capped per case through
// the verification hook (both twins use the same cap).
#include "vp.hpp"
#include "rfc_framing.hpp"
#include "common.hpp"
#include "codec_util.hpp"
#include "siggen.hpp"

using namespace vp;
extern "C" int opus_verif_arch_cap;

const TargetInfo vp_info = {"c12_state", 12, 300};

enum Kind { K_ENC = 0, K_DEC, K_MSENC, K_MSDEC, K_PROJENC, K_PROJDEC, NKINDS };
static const char* const KIND_NAME[NKINDS] = {"enc", "dec", "ms-enc", "ms-dec", "proj-enc", "proj-dec"};
static bool is_enc(int k) { return k == K_ENC || k == K_MSENC || k == K_PROJENC; }
enum Exp { X_DET = 0, X_CLONE, X_RESET };
static const char* const EXP_NAME[3] = {"determinism", "clone", "reset"};

struct Spec {
  int kind = K_ENC, Fs = 48000, channels = 1, app = OPUS_APPLICATION_AUDIO;
  int streams = 1, coupled = 0, family = -1;       // family >= 0: surround constructor
  int mapping_type = 0;
  std::vector<unsigned char> mapping, matrix;
};

// ---- settable requests used in histories (always legal values: C11 owns validation) ----
enum Rid { S_BITRATE = 0, S_VBR, S_CVBR, S_COMPLEXITY, S_BANDWIDTH, S_MAX_BANDWIDTH, S_FORCE_CHANNELS, S_FORCE_MODE, S_FEC, S_LOSS, S_DTX, S_LSB,
           S_PRED, S_PHINV, S_SIGNAL, S_EXPERT, NSET_ENC, D_GAIN = NSET_ENC, D_COMPLEXITY, D_PHINV, NSET_ALL };
static const int SET_REQ[NSET_ALL] = {OPUS_SET_BITRATE_REQUEST, OPUS_SET_VBR_REQUEST, OPUS_SET_VBR_CONSTRAINT_REQUEST, OPUS_SET_COMPLEXITY_REQUEST,
  OPUS_SET_BANDWIDTH_REQUEST, OPUS_SET_MAX_BANDWIDTH_REQUEST, OPUS_SET_FORCE_CHANNELS_REQUEST, OPUS_SET_FORCE_MODE_REQUEST, OPUS_SET_INBAND_FEC_REQUEST,
  OPUS_SET_PACKET_LOSS_PERC_REQUEST, OPUS_SET_DTX_REQUEST, OPUS_SET_LSB_DEPTH_REQUEST, OPUS_SET_PREDICTION_DISABLED_REQUEST,
  OPUS_SET_PHASE_INVERSION_DISABLED_REQUEST, OPUS_SET_SIGNAL_REQUEST, OPUS_SET_EXPERT_FRAME_DURATION_REQUEST,
  OPUS_SET_GAIN_REQUEST, OPUS_SET_COMPLEXITY_REQUEST, OPUS_SET_PHASE_INVERSION_DISABLED_REQUEST};
static const char* const SET_NAME[NSET_ALL] = {"BITRATE", "VBR", "VBR_CONSTRAINT", "COMPLEXITY", "BANDWIDTH", "MAX_BANDWIDTH", "FORCE_CHANNELS", "FORCE_MODE", "INBAND_FEC",
  "PACKET_LOSS_PERC", "DTX", "LSB_DEPTH", "PREDICTION_DISABLED", "PHASE_INVERSION_DISABLED", "SIGNAL", "EXPERT_FRAME_DURATION", "GAIN", "COMPLEXITY", "PHASE_INVERSION_DISABLED"};

struct Step {
  int type = 0;            // 0 code (encode / decode next packet), 1 ctl, 2 lost packet (decoders), 3 decode FEC of next packet then the packet
  int rid = 0, val = 0;
  int d = 3, fam = 0, api = 0, maxb = 4000; double amp = 0.3; uint32_t seed = 0;   // encode parameters
};

struct Out { int ret = 0; opus_uint32 range = 0; std::vector<uint8_t> bytes; };

// ---- object access by kind -------------------------------------------------
static size_t obj_size(const Spec& s) {
  switch (s.kind) {
    case K_ENC: return opus_encoder_get_size(s.channels);
    case K_DEC: return opus_decoder_get_size(s.channels);
    case K_MSENC: return s.family >= 0 ? opus_multistream_surround_encoder_get_size(s.channels, s.family) : opus_multistream_encoder_get_size(s.streams, s.coupled);
    case K_MSDEC: return opus_multistream_decoder_get_size(s.streams, s.coupled);
    case K_PROJENC: return opus_projection_ambisonics_encoder_get_size(s.channels, 3);
    default: return opus_projection_decoder_get_size(s.channels, s.streams, s.coupled);
  }
}
static int obj_init(Spec& s, void* mem) {
  switch (s.kind) {
    case K_ENC: return opus_encoder_init((OpusEncoder*)mem, s.Fs, s.channels, s.app);
    case K_DEC: return opus_decoder_init((OpusDecoder*)mem, s.Fs, s.channels);
    case K_MSENC:
      if (s.family >= 0) { std::vector<unsigned char> map(s.channels > 0 ? s.channels : 1); int st = 0, cp = 0;
        int r = opus_multistream_surround_encoder_init((OpusMSEncoder*)mem, s.Fs, s.channels, s.family, &st, &cp, map.data(), s.app);
        s.streams = st; s.coupled = cp; s.mapping = map; return r; }
      return opus_multistream_encoder_init((OpusMSEncoder*)mem, s.Fs, s.channels, s.streams, s.coupled, s.mapping.data(), s.app);
    case K_MSDEC: return opus_multistream_decoder_init((OpusMSDecoder*)mem, s.Fs, s.channels, s.streams, s.coupled, s.mapping.data());
    case K_PROJENC: { int st = 0, cp = 0; int r = opus_projection_ambisonics_encoder_init((OpusProjectionEncoder*)mem, s.Fs, s.channels, 3, &st, &cp, s.app); s.streams = st; s.coupled = cp; return r; }
    default: return opus_projection_decoder_init((OpusProjectionDecoder*)mem, s.Fs, s.channels, s.streams, s.coupled, s.matrix.data(), (opus_int32)s.matrix.size());
  }
}
static int obj_ctl(const Spec& s, void* mem, int req, opus_int32 v) {
  switch (s.kind) {
    case K_ENC: return opus_encoder_ctl((OpusEncoder*)mem, req, v);
    case K_DEC: return opus_decoder_ctl((OpusDecoder*)mem, req, v);
    case K_MSENC: return opus_multistream_encoder_ctl((OpusMSEncoder*)mem, req, v);
    case K_MSDEC: return opus_multistream_decoder_ctl((OpusMSDecoder*)mem, req, v);
    case K_PROJENC: return opus_projection_encoder_ctl((OpusProjectionEncoder*)mem, req, v);
    default: return opus_projection_decoder_ctl((OpusProjectionDecoder*)mem, req, v);
  }
}
static int obj_getu(const Spec& s, void* mem, int req, opus_uint32* v) {
  switch (s.kind) {
    case K_ENC: return opus_encoder_ctl((OpusEncoder*)mem, req, v);
    case K_DEC: return opus_decoder_ctl((OpusDecoder*)mem, req, v);
    case K_MSENC: return opus_multistream_encoder_ctl((OpusMSEncoder*)mem, req, v);
    case K_MSDEC: return opus_multistream_decoder_ctl((OpusMSDecoder*)mem, req, v);
    case K_PROJENC: return opus_projection_encoder_ctl((OpusProjectionEncoder*)mem, req, v);
    default: return opus_projection_decoder_ctl((OpusProjectionDecoder*)mem, req, v);
  }
}

static void scribble_stack(int pattern) {
  volatile unsigned char junk[96 * 1024];
  for (size_t i = 0; i < sizeof junk; i += 1) junk[i] = (unsigned char)(pattern + (pattern == 0x5C ? (int)i : 0));
  __asm__ volatile("" ::: "memory");
}

// encode step on an encoder-type object living in `mem`
static void run_encode(const Spec& s, void* mem, const Step& st, int pos, Out& o) {
  int frame = cu::frame_samples(s.Fs, st.d);
  std::vector<float> x; sig::generate(st.fam, st.seed, s.Fs, s.channels, frame, st.amp, x, pos);
  HeapBuf<unsigned char> out(st.maxb);
  int r;
  if (st.api == 0) {
    HeapBuf<float> pf(x.size()); for (size_t i = 0; i < x.size(); i++) pf[i] = x[i];
    r = s.kind == K_ENC ? opus_encode_float((OpusEncoder*)mem, pf.p, frame, out.p, st.maxb)
      : s.kind == K_MSENC ? opus_multistream_encode_float((OpusMSEncoder*)mem, pf.p, frame, out.p, st.maxb)
      : opus_projection_encode_float((OpusProjectionEncoder*)mem, pf.p, frame, out.p, st.maxb);
  } else {
    std::vector<opus_int16> t; sig::to_int16(x, t);
    HeapBuf<opus_int16> pi(t.size()); for (size_t i = 0; i < t.size(); i++) pi[i] = t[i];
    r = s.kind == K_ENC ? opus_encode((OpusEncoder*)mem, pi.p, frame, out.p, st.maxb)
      : s.kind == K_MSENC ? opus_multistream_encode((OpusMSEncoder*)mem, pi.p, frame, out.p, st.maxb)
      : opus_projection_encode((OpusProjectionEncoder*)mem, pi.p, frame, out.p, st.maxb);
  }
  o.ret = r; o.bytes.clear();
  if (r > 0) o.bytes.assign(out.p, out.p + r);
  o.range = 0; obj_getu(s, mem, OPUS_GET_FINAL_RANGE_REQUEST, &o.range);
}

// decode step: pkt empty = lost packet; fec = decode the FEC data of pkt
static void run_decode(const Spec& s, void* mem, const std::vector<uint8_t>& pkt, bool lost, int fec, int frame, int api, Out& o) {
  HeapBuf<unsigned char> hp(pkt.size()); if (!pkt.empty()) memcpy(hp.p, pkt.data(), pkt.size());
  const unsigned char* d = lost ? nullptr : hp.p; int len = lost ? 0 : (int)pkt.size();
  size_t n = (size_t)frame * s.channels;
  int r;
  o.bytes.clear();
  if (api == 0) {
    HeapBuf<float> pcm(n);
    r = s.kind == K_DEC ? opus_decode_float((OpusDecoder*)mem, d, len, pcm.p, frame, fec)
      : s.kind == K_MSDEC ? opus_multistream_decode_float((OpusMSDecoder*)mem, d, len, pcm.p, frame, fec)
      : opus_projection_decode_float((OpusProjectionDecoder*)mem, d, len, pcm.p, frame, fec);
    if (r > 0) o.bytes.assign((uint8_t*)pcm.p, (uint8_t*)pcm.p + (size_t)r * s.channels * sizeof(float));
  } else {
    HeapBuf<opus_int16> pcm(n);
    r = s.kind == K_DEC ? opus_decode((OpusDecoder*)mem, d, len, pcm.p, frame, fec)
      : s.kind == K_MSDEC ? opus_multistream_decode((OpusMSDecoder*)mem, d, len, pcm.p, frame, fec)
      : opus_projection_decode((OpusProjectionDecoder*)mem, d, len, pcm.p, frame, fec);
    if (r > 0) o.bytes.assign((uint8_t*)pcm.p, (uint8_t*)pcm.p + (size_t)r * s.channels * sizeof(opus_int16));
  }
  o.ret = r; o.range = 0; obj_getu(s, mem, OPUS_GET_FINAL_RANGE_REQUEST, &o.range);
}

// unrelated activity between the twins' runs of a step
static void noise(uint32_t seed) {
  vp::Rng rng(seed);
  int what = rng.range(0, 6);
  if (what == 0 || what > 3) return;
  int Fs = cu::RATES[rng.range(0, 4)], ch = rng.range(1, 2);
  if (what & 1) {
    int err; OpusEncoder* e = opus_encoder_create(Fs, ch, cu::APPS[rng.range(0, 2)], &err);
    if (e) {
      opus_encoder_ctl(e, OPUS_SET_BITRATE(rng.range(6000, 128000))); opus_encoder_ctl(e, OPUS_SET_COMPLEXITY(rng.range(0, 10)));
      int frame = Fs / 50; std::vector<float> x((size_t)frame * ch); for (auto& v : x) v = (float)(0.4 * rng.sym());
      unsigned char buf[1500]; opus_encode_float(e, x.data(), frame, buf, sizeof buf);
      opus_encoder_destroy(e);
    }
  }
  if (what & 2) {
    int err; OpusDecoder* d = opus_decoder_create(Fs, ch, &err);
    if (d) {
      unsigned char pkt[40]; for (auto& b : pkt) b = (unsigned char)rng.u32();
      std::vector<float> pcm((size_t)5760 * ch); opus_decode_float(d, pkt, rng.range(1, 40), pcm.data(), 5760 * Fs / 48000, 0);
      opus_decoder_destroy(d);
    }
  }
  size_t n = 1000 + rng.range(0, 60000); unsigned char* junk = (unsigned char*)malloc(n); if (junk) { memset(junk, rng.range(0, 255), n); free(junk); }
}

static int legal_value(int rid, Choice& c, const Spec& s) {
  switch (rid) {
    case S_BITRATE: return cu::gen_bitrate(c, s.channels);
    case S_VBR: case S_CVBR: case S_DTX: case S_PRED: case S_PHINV: case D_PHINV: return c.irange(0, 1);
    case S_COMPLEXITY: case D_COMPLEXITY: return c.irange(0, 10);
    case S_BANDWIDTH: { int k = c.irange(0, 5); return k == 0 ? OPUS_AUTO : cu::BANDWIDTHS[k - 1]; }
    case S_MAX_BANDWIDTH: return cu::BANDWIDTHS[4 - c.irange(0, 4)];
    case S_FORCE_CHANNELS: { int k = c.irange(0, 2); return k == 0 ? OPUS_AUTO : k; }
    case S_FORCE_MODE: { int k = c.irange(0, 3); return k == 0 ? OPUS_AUTO : 999 + k; }
    case S_FEC: return c.irange(0, 2);
    case S_LOSS: return c.irange(0, 100);
    case S_LSB: return 24 - c.irange(0, 16);
    case S_SIGNAL: { int k = c.irange(0, 2); return k == 0 ? OPUS_AUTO : k == 1 ? OPUS_SIGNAL_VOICE : OPUS_SIGNAL_MUSIC; }
    case S_EXPERT: return OPUS_FRAMESIZE_ARG;     // the frame size argument drives the duration in this target
    case D_GAIN: return c.irange(-3000, 3000);
  }
  return 0;
}

static Step gen_enc_step(Choice& c, const Spec& s, bool allow_ctl) {
  Step st;
  int t = c.irange(0, 9);
  if (t >= 7 && allow_ctl) {
    st.type = 1; st.rid = c.irange(0, NSET_ENC - 2);      // without EXPERT
    st.val = legal_value(st.rid, c, s);
    if (st.rid == S_FORCE_CHANNELS && st.val == 2 && (s.kind != K_ENC ? s.streams > s.coupled : s.channels < 2)) st.val = 1;
    return st;
  }
  st.type = 0;
  int k = c.irange(0, 15);
  static const int DM[16] = {3, 3, 3, 3, 2, 2, 4, 5, 1, 0, 6, 7, 8, 3, 2, 4};      // mostly 20 / 10 / 40 ms
  st.d = DM[k];
  st.fam = (c.irange(0, sig::NFAMILIES - 1) + sig::SPEECHLIKE) % sig::NFAMILIES;
  st.amp = 0.02 + 0.32 * c.irange(0, 3);
  st.seed = c.byte();
  st.api = c.irange(0, 1);
  int streams = s.kind == K_ENC ? 1 : (s.streams > 0 ? s.streams : 1);
  st.maxb = c.chance(40) ? c.irange(2 * streams + 6, 150 * streams) : std::min(1500 * streams, 24000);
  return st;
}

// ---- the three experiments on encoder-type objects --------------------------
struct Track {     // settings in force (for the RESET twin), MS-level or encoder-level alike
  int val[NSET_ALL]; bool set[NSET_ALL];
  Track() { for (int i = 0; i < NSET_ALL; i++) { val[i] = 0; set[i] = false; } }
};

static const char* sigf_(const char* fmt, const char* a, const char* b) { static char buf[160]; snprintf(buf, sizeof buf, fmt, a, b); return buf; }

static int compare_out(const Out& a, const Out& b, Report& rep, const char* exp, const char* kind, int step, const char* what) {
  if (a.ret != b.ret) return rep.fail(sigf_("c12:%s:%s:return-differs", exp, kind), "%s step %d (%s): return %d vs %d", kind, step, what, a.ret, b.ret);
  if (a.bytes != b.bytes) {
    size_t i = 0; while (i < a.bytes.size() && i < b.bytes.size() && a.bytes[i] == b.bytes[i]) i++;
    return rep.fail(sigf_("c12:%s:%s:output-differs", exp, kind), "%s step %d (%s): outputs of %zu / %zu bytes differ at byte %zu (first byte 0x%02x vs 0x%02x)", kind, step, what, a.bytes.size(), b.bytes.size(), i, a.bytes.empty() ? 0 : a.bytes[0], b.bytes.empty() ? 0 : b.bytes[0]);
  }
  if (a.range != b.range) return rep.fail(sigf_("c12:%s:%s:final-range-differs", exp, kind), "%s step %d (%s): final range %08x vs %08x", kind, step, what, a.range, b.range);
  return 0;
}

// ---- F2 class predicate: run-time fields that OPUS_RESET_STATE leaves behind (layout prefixes mirrored from src/opus_encoder.c and
// celt/celt_encoder.c; used only to delimit the known-finding class, never by the oracle) ----
extern "C" {
#include "control.h"
}
struct EncPrefix { int celt_enc_offset; int silk_enc_offset; silk_EncControlStruct silk_mode; };
struct CeltPrefix { const void* mode; int channels; int stream_channels; int force_intra; int clip; int disable_pf; };
// bit 0: LBRR hysteresis set, bit 1: bandwidth-switch permission set, bit 2: CELT prediction flags not at their initial value, bit 7: layout not recognised
static int peek_stale_one(const OpusEncoder* e, int Fs) {
  const EncPrefix* p = (const EncPrefix*)e;
  if (p->silk_enc_offset <= 0 || p->celt_enc_offset <= p->silk_enc_offset || p->silk_mode.API_sampleRate != Fs) return 128;
  const CeltPrefix* cp = (const CeltPrefix*)((const char*)e + p->celt_enc_offset);
  if (cp->channels < 1 || cp->channels > 2) return 128;
  return (p->silk_mode.LBRR_coded ? 1 : 0) | (p->silk_mode.allowBandwidthSwitch ? 2 : 0) | ((cp->force_intra || cp->disable_pf) ? 4 : 0);
}
static int peek_stale(const Spec& s, void* mem) {
  if (s.kind == K_ENC) return peek_stale_one((const OpusEncoder*)mem, s.Fs);
  int m = 0;
  for (int i = 0; i < s.streams; i++) {
    OpusEncoder* e = nullptr;
    int r = s.kind == K_MSENC ? opus_multistream_encoder_ctl((OpusMSEncoder*)mem, OPUS_MULTISTREAM_GET_ENCODER_STATE(i, &e)) : opus_projection_encoder_ctl((OpusProjectionEncoder*)mem, OPUS_MULTISTREAM_GET_ENCODER_STATE(i, &e));
    if (r != OPUS_OK || !e) return 128;
    m |= peek_stale_one(e, s.Fs);
  }
  return m;
}

struct Inst {
  HeapBuf<unsigned char>* mem = nullptr;
  ~Inst() { delete mem; }
  void alloc(size_t n, int pattern, uint32_t seed) {
    delete mem; mem = new HeapBuf<unsigned char>(n);
    if (pattern == 3) { vp::Rng r(seed); for (size_t i = 0; i < n; i++) mem->p[i] = (unsigned char)r.u32(); }
    else memset(mem->p, pattern == 0 ? 0x00 : pattern == 1 ? 0xFF : 0xA5, n);
  }
  void* p() { return mem->p; }
};

static Spec gen_spec(Choice& c, int kind) {
  Spec s; s.kind = kind;
  s.Fs = cu::RATES[4 - c.irange(0, 4)];
  s.app = cu::APPS[(c.irange(0, 2) + 1) % 3];
  int sel = c.irange(0, 7);
  switch (kind) {
    case K_ENC: case K_DEC: s.channels = 1 + (sel & 1); s.streams = 1; s.coupled = s.channels - 1; break;
    case K_MSENC: case K_MSDEC: {
      static const int L[8][3] = {{2, 1, -1}, {1, 1, -1}, {2, 2, -1}, {3, 0, -1}, {0, 3, 1}, {0, 6, 1}, {0, 4, 2}, {0, 3, 255}};   // streams, coupled | channels, family
      if (L[sel][2] < 0) { s.streams = L[sel][0]; s.coupled = L[sel][1]; s.channels = s.streams + s.coupled; for (int i = 0; i < s.channels; i++) s.mapping.push_back((unsigned char)i); }
      else { s.channels = L[sel][1]; s.family = L[sel][2]; s.mapping_type = (s.family == 1 && s.channels > 2) ? 1 : s.family == 2 ? 2 : 0; }
      break; }
    default: { static const int N[8] = {4, 4, 6, 9, 4, 6, 11, 16}; s.channels = N[sel]; s.streams = (s.channels + 1) / 2; s.coupled = s.channels / 2; break; }
  }
  return s;
}

static bool toc_class_changes(const std::vector<int>& tocs) {
  for (size_t i = 1; i < tocs.size(); i++) if ((tocs[i] >> 3) != (tocs[0] >> 3)) {
    rfc::TocInfo a = rfc::toc_info((uint8_t)tocs[0]), b = rfc::toc_info((uint8_t)tocs[i]);
    if (a.mode != b.mode || a.bw != b.bw) return true;
  }
  return false;
}

static int apply_step_ctl(const Spec& s, void* mem, const Step& st, Report& rep) {
  int r = obj_ctl(s, mem, SET_REQ[st.rid], st.val); rep.count();
  if (r != OPUS_OK) return rep.fail("c12:legal-setting-refused", "%s: SET_%s(%d) returned %d", KIND_NAME[s.kind], SET_NAME[st.rid], st.val, r);
  return 0;
}

static int apply_track(const Spec& s, void* mem, const Track& t, Report& rep) {
  for (int i = 0; i < NSET_ALL; i++) if (t.set[i]) {
    int r = obj_ctl(s, mem, SET_REQ[i], t.val[i]); rep.count();
    if (r != OPUS_OK) return rep.fail("c12:legal-setting-refused", "%s: re-applying SET_%s(%d) to the fresh object returned %d", KIND_NAME[s.kind], SET_NAME[i], t.val[i], r);
  }
  return 0;
}

// Source of valid packets for decoder experiments: an encoder of the matching kind run over a generated history.
struct Packet { std::vector<uint8_t> bytes; int samples; };
static int make_packets(Choice& c, Spec& ds, std::vector<Packet>& pk, std::vector<int>& tocs, int want, Report& rep) {
  Spec es = ds; es.kind = ds.kind == K_DEC ? K_ENC : ds.kind == K_MSDEC ? K_MSENC : K_PROJENC;
  size_t n = obj_size(es);
  if (n == 0) return rep.fail("c12:get-size", "source encoder size 0");
  Inst e; e.alloc(n, 2, 0);
  int r = obj_init(es, e.p());
  if (r != OPUS_OK) return rep.fail("c12:init", "source encoder init %d", r);
  ds.streams = es.streams; ds.coupled = es.coupled; if (ds.mapping.empty()) ds.mapping = es.mapping;
  if (ds.kind == K_PROJDEC) {
    opus_int32 msz = 0; opus_projection_encoder_ctl((OpusProjectionEncoder*)e.p(), OPUS_PROJECTION_GET_DEMIXING_MATRIX_SIZE(&msz));
    ds.matrix.assign(msz > 0 ? msz : 0, 0);
    r = opus_projection_encoder_ctl((OpusProjectionEncoder*)e.p(), OPUS_PROJECTION_GET_DEMIXING_MATRIX(ds.matrix.data(), msz));
    if (r != OPUS_OK) return rep.fail("c12:init", "demixing matrix %d", r);
  }
  // a lively source: FEC on so that decode_fec has something to read
  obj_ctl(es, e.p(), OPUS_SET_INBAND_FEC_REQUEST, 1); obj_ctl(es, e.p(), OPUS_SET_PACKET_LOSS_PERC_REQUEST, 20);
  int pos = 0, guard = 0;
  while ((int)pk.size() < want && guard++ < want * 3) {
    Step st = gen_enc_step(c, es, true);
    if (st.type == 1) { obj_ctl(es, e.p(), SET_REQ[st.rid], st.val); continue; }
    if (st.d > 5) st.d = 5;                                     // decoders take at most 120 ms; keep packets <= 60 ms here
    st.maxb = std::min(1500 * es.streams, 24000);
    Out o; run_encode(es, e.p(), st, pos, o);
    pos += cu::frame_samples(es.Fs, st.d);
    if (o.ret <= 0) return rep.fail("c12:source-encode", "source encoder returned %d", o.ret);
    pk.push_back({o.bytes, cu::frame_samples(es.Fs, st.d)});
    tocs.push_back(o.bytes[0]);
  }
  return 0;
}

int vp_case(Choice& c, Report& rep) {
  int exp = c.irange(0, 2);
  int kind = c.irange(0, NKINDS - 1);
  // development aid (never set by ./check): restrict the experiment / object kind to focus a search
  if (const char* e = getenv("VERIF_C12_EXP")) exp = atoi(e) % 3;
  if (const char* e = getenv("VERIF_C12_KINDS")) { int n = (int)strlen(e); if (n > 0) kind = e[kind % n] - '0'; if (kind < 0 || kind >= NKINDS) kind = 0; }
  int capsel = c.irange(0, 7);
  opus_verif_arch_cap = capsel <= 4 ? capsel : 255;
  Spec s = gen_spec(c, kind);
  int patA = c.irange(0, 3), patB = (patA + 1 + c.irange(0, 2)) % 4;
  uint32_t pseed = c.byte();
  int nsteps = 2 + c.irange(0, 22);
  int split = 1 + c.irange(0, nsteps - 2);
  rep.labelf("exp:%s", EXP_NAME[exp]); rep.labelf("kind:%s", KIND_NAME[kind]); rep.labelf("arch-cap:%d", opus_verif_arch_cap);
  const char* EX = EXP_NAME[exp]; const char* KN = KIND_NAME[kind];

  std::vector<Packet> pk; std::vector<int> tocs;
  if (!is_enc(kind)) { if (make_packets(c, s, pk, tocs, nsteps + 2, rep)) return 1; }
  size_t size = obj_size(s);
  if (size == 0) return rep.fail("c12:get-size", "%s size 0", KN);
  Inst A, B, R;
  A.alloc(size, patA, pseed);
  int r = obj_init(s, A.p()); rep.count();
  if (r != OPUS_OK) return rep.fail("c12:init", "%s init returned %d", KN, r);
  if (exp != X_RESET) { B.alloc(size, patB, pseed + 1); Spec s2 = s; r = obj_init(s2, B.p()); if (r != OPUS_OK) return rep.fail("c12:init", "%s twin init returned %d", KN, r); }
  rep.note("%s %s Fs=%d channels=%d app=%d streams=%d coupled=%d family=%d cap=%d poison=%d/%d steps=%d split=%d", EX, KN, s.Fs, s.channels, s.app, s.streams, s.coupled, s.family, opus_verif_arch_cap, patA, patB, nsteps, split);

  // For CLONE, B plays the reference twin until the split; then `A` is replaced by its copy.
  void* X = A.p();                       // first object of the pair
  void* Y = exp == X_RESET ? nullptr : B.p();
  Track track;
  bool f2_fec_seen = false, first_after_reset = false;
  int pos = 0, pkidx = 0, before = 0, after = 0;
  uint64_t fp = mix(mix(exp * 8 + kind, s.Fs), mix(s.channels * 4 + (s.family & 3), s.app));
  std::vector<int> enc_tocs;
  for (int i = 0; i < nsteps; i++) {
    if (i == split) {
      if (exp == X_CLONE) {
        // copy exactly get_size() bytes, destroy the original
        R.alloc(size, (patA + 2) % 4, pseed + 7);
        memcpy(R.p(), A.p(), size);
        memset(A.p(), 0xDD, size); delete A.mem; A.mem = nullptr;
        X = R.p(); rep.label("cloned"); rep.note("%d: memcpy clone, original destroyed", i);
      } else if (exp == X_RESET) {
        if (is_enc(kind)) {
          // F2: the encoder reset leaves four run-time fields of the configuration part behind.  Class (exact, by inspection of
          // the state at the reset point): (a) LBRR hysteresis flag set -> FEC is kept off after the reset; (b) voice ratio ->
          // the first frame after the reset is never digital silence (below); (c) SILK bandwidth-switch permission set or
          // (d) MDCT prediction flags not at their initial value -> the reset comparison is skipped.
          int stale = peek_stale(s, X);
          if (stale & 128) return rep.fail("c12:peek-layout", "encoder state prefix not recognised");
          if (stale & 1) rep.label("f2:lbrr-set-at-reset"); if (stale & 2) rep.label("f2:bwswitch-set-at-reset"); if (stale & 4) rep.label("f2:celt-pred-set-at-reset");
          if ((stale & 6) && rep.exclude("F2")) { rep.label("reset-skipped-F2"); rep.fingerprint(fp); return 0; }
          if ((stale & 1) && rep.exclude("F2")) {
            f2_fec_seen = true;
            Step off; off.type = 1; off.rid = S_FEC; off.val = 0; if (apply_step_ctl(s, X, off, rep)) return 1; track.set[S_FEC] = true; track.val[S_FEC] = 0;
          }
        }
        r = obj_ctl(s, X, OPUS_RESET_STATE, 0); rep.count();
        if (r != OPUS_OK) return rep.fail("c12:reset-status", "%s RESET_STATE returned %d", KN, r);
        B.alloc(size, patB, pseed + 1); Spec s2 = s; r = obj_init(s2, B.p());
        if (r != OPUS_OK) return rep.fail("c12:init", "%s fresh init returned %d", KN, r);
        if (apply_track(s, B.p(), track, rep)) return 1;
        if (getenv("VERIF_C12_DUMP")) {   // development aid: where do the reset object and the fresh one differ?
          const unsigned char* a = (const unsigned char*)X; const unsigned char* b = (const unsigned char*)B.p();
          for (size_t k = 0; k < size; ) { if (a[k] == b[k]) { k++; continue; } size_t e = k; while (e < size && (a[e] != b[e] || (e + 4 < size && memcmp(a + e, b + e, 4)))) e++;
            fprintf(stderr, "state differs at [%zu,%zu): reset %02x%02x%02x%02x fresh %02x%02x%02x%02x\n", k, e, a[k], a[k+1], a[k+2], a[k+3], b[k], b[k+1], b[k+2], b[k+3]); k = e; }
        }
        Y = B.p(); first_after_reset = true; rep.label("reset-done"); rep.note("%d: RESET_STATE; fresh twin with the same settings", i);
      }
    }
    bool paired = Y != nullptr;
    Out oa, ob; const char* what = "code";
    if (is_enc(kind)) {
      Step st = gen_enc_step(c, s, true);
      fp = mix(fp, st.type * 1000 + st.rid * 37 + (uint32_t)st.val + st.d * 7 + st.fam);
      if (st.type == 1) {
        if (exp == X_RESET && st.rid == S_FEC && i >= split && f2_fec_seen && rep.exclude("F2")) st.val = 0;
        rep.note("%d: SET_%s(%d)", i, SET_NAME[st.rid], st.val);
        if (apply_step_ctl(s, X, st, rep)) return 1;
        if (paired && apply_step_ctl(s, Y, st, rep)) return 1;
        track.set[st.rid] = true; track.val[st.rid] = st.val;
        continue;
      }
      if (exp == X_RESET && i < split) {
        // F15 (C11): multi-frame packets on a stereo stream with automatic channel selection may overwrite the forced-channels
        // setting, which then survives the reset; such packets are avoided before the reset
        bool fauto = !track.set[S_FORCE_CHANNELS] || track.val[S_FORCE_CHANNELS] == OPUS_AUTO;
        if (st.d > 3 && s.coupled > 0 && fauto && s.mapping_type == 0 && s.app != OPUS_APPLICATION_RESTRICTED_LOWDELAY && rep.exclude("F15")) st.d = 3;
      }
      if (exp == X_RESET && i >= split) {
        // F2 (b): the first frame after the reset must not be digital silence (stale voice_ratio is kept over silent frames)
        if (first_after_reset && rep.exclude("F2")) { st.fam = sig::SQUARE; if (st.amp < 0.1) st.amp = 0.1; }
        first_after_reset = false;
      }
      scribble_stack(0x11);
      run_encode(s, X, st, pos, oa); rep.count();
      if (paired) { noise(pseed * 131 + i); scribble_stack(0xEE); run_encode(s, Y, st, pos, ob); rep.count(); }
      pos += cu::frame_samples(s.Fs, st.d);
      rep.note("%d: encode %d x2.5ms %s amp %.2f api %d buf %d -> %d toc 0x%02x", i, cu::DUR400[st.d], sig::FAMILY_NAME[st.fam], st.amp, st.api, st.maxb, oa.ret, oa.ret > 0 ? oa.bytes[0] : 0);
      if (oa.ret > 0) enc_tocs.push_back(oa.bytes[0]);
      if (oa.ret < 0 && oa.ret != OPUS_BUFFER_TOO_SMALL) return rep.fail("c12:encode-status", "%s encode returned %d (buffer %d, duration index %d)", KN, oa.ret, st.maxb, st.d);
      what = "encode";
    } else {
      int t = c.irange(0, 9);
      fp = mix(fp, 50 + t);
      if (t >= 8) {
        Step st; st.type = 1; st.rid = D_GAIN + c.irange(0, 2); if (st.rid == D_COMPLEXITY && kind != K_DEC) st.rid = D_GAIN;
        st.val = legal_value(st.rid, c, s); fp = mix(fp, st.rid * 100003 + (uint32_t)st.val);
        rep.note("%d: SET_%s(%d)", i, SET_NAME[st.rid], st.val);
        if (apply_step_ctl(s, X, st, rep)) return 1;
        if (paired && apply_step_ctl(s, Y, st, rep)) return 1;
        track.set[st.rid] = true; track.val[st.rid] = st.val;
        continue;
      }
      int api = c.irange(0, 1);
      if (pkidx + 1 >= (int)pk.size()) break;
      const Packet& p = pk[pkidx];
      bool lost = t == 6, fec = t == 7 && pk[pkidx + 1].samples == p.samples;   // FEC recovery is defined for a lost packet of the next packet's duration
      if (lost) what = "lost packet"; else if (fec) what = "FEC of next packet";
      if (fec) {
        // packet pkidx is lost; recover it from packet pkidx+1, then decode pkidx+1 normally in the next step
        const Packet& nx = pk[pkidx + 1];
        scribble_stack(0x11); run_decode(s, X, nx.bytes, false, 1, p.samples, api, oa); rep.count();
        if (paired) { noise(pseed * 131 + i); scribble_stack(0xEE); run_decode(s, Y, nx.bytes, false, 1, p.samples, api, ob); rep.count(); }
      } else {
        scribble_stack(0x11); run_decode(s, X, p.bytes, lost, 0, p.samples, api, oa); rep.count();
        if (paired) { noise(pseed * 131 + i); scribble_stack(0xEE); run_decode(s, Y, p.bytes, lost, 0, p.samples, api, ob); rep.count(); }
      }
      rep.note("%d: decode %s (packet %d, toc 0x%02x, %d bytes, api %d) -> %d", i, what, pkidx, p.bytes[0], (int)p.bytes.size(), api, oa.ret);
      pkidx++;
      if (oa.ret < 0) return rep.fail("c12:decode-status", "%s decode (%s) returned %d", KN, what, oa.ret);
      if (lost) rep.label("plc-step"); if (fec) rep.label("fec-step");
    }
    if (paired) { if (compare_out(oa, ob, rep, EX, KN, i, what)) return 1; }
    if (i < split) before++; else after++;
  }
  const std::vector<int>& T = is_enc(kind) ? enc_tocs : tocs;
  bool changes = toc_class_changes(T);
  if (changes) rep.label("mode-or-bandwidth-change");
  if (exp == X_DET) { if (before + after >= 6 && changes) rep.nontrivial(); }
  else if (before >= 3 && after >= 3 && changes) rep.nontrivial();
  rep.fingerprint(fp);
  return 0;
}
