// C19 (part 3, fixed-point build): OPUS_SET_GAIN(g) multiplies the decoded signal by 10^(g/5120) and nothing else.
// In the fixed-point build the decoded signal is 16-bit and the gain stage is y = sat(round(x * G / 65536)) with one
// Q16 integer G per gain value.  Two decoders see the same calls (packets, losses, FEC requests): A with gain 0,
// B with gain g (g may change once mid-stream), both through opus_decode (16 bit; the fixed-point build has no soft
// clipper, so A's output is exactly the signal entering B's gain stage).
// Oracle (exact, integer domain): same return value and final range; the set of real factors G for which
// round(x*G) == y holds for every non-saturated sample of the stream (interval intersection: G in
// [(y-0.5)/x, (y+0.5)/x], ends exchanged for x < 0) is non-empty and contains a value within 2e-3 (relative) of
// 10^(g/5120); where y sits at the 16-bit limit, |x * G| must indeed reach it (saturation, never a wrap).  A gain
// stage that floors, truncates, adds an offset, or applies the factor twice leaves an empty intersection as soon as
// samples of both signs with different fractional parts have been seen (seeded defect C19-8: MULT16_32_P16 -> _Q16).
#include "vp.hpp"
extern "C" {
#include "opus.h"
#include "opus_private.h"
}
#include "common.hpp"
#include "siggen.hpp"
#include <climits>
#include <cmath>

using namespace vp;

extern "C" int opus_verif_arch_cap;

const TargetInfo vp_info = {"c19_gain_fix", 32, 160};

static const int RATES[5] = {8000, 12000, 16000, 24000, 48000};

static int gen_gain(Choice& c) {
  static const int SPECIAL[] = {256, -256, 1, -1, 2560, -2560, 5120, -5120, 10240, 15000, -15000, 20000, 32767, -32768, -20000, -10240};
  if (c.chance(100)) return c.pick(SPECIAL);
  return c.irange(0, 65535) - 32768;
}

struct Iv { double lo = 0, hi = 1e300; bool used = false; };

int vp_case(Choice& c, Report& rep) {
  const int FsE = c.pick(RATES), chE = 1 + c.irange(0, 1);
  const int FsD = c.chance(150) ? FsE : c.pick(RATES), chD = 1 + c.irange(0, 1);
  int g0 = gen_gain(c); if (g0 == 0) g0 = 77;
  int npk = 3 + c.irange(0, 12);
  static const int APPS[3] = {OPUS_APPLICATION_VOIP, OPUS_APPLICATION_AUDIO, OPUS_APPLICATION_RESTRICTED_LOWDELAY};
  const int app = c.pick(APPS);
  static const int BR[] = {8000, 12000, 16000, 24000, 32000, 48000, 64000, 96000, 160000};
  const int bitrate = c.pick(BR);
  static const int DUR[] = {8, 8, 4, 2, 1, 16, 24};
  const int dur400 = c.pick(DUR);
  static const int FM[] = {OPUS_AUTO, OPUS_AUTO, MODE_SILK_ONLY, MODE_HYBRID, MODE_CELT_ONLY};
  const int force_mode = c.pick(FM);
  const int fec = c.chance(80);
  const int family = c.irange(0, sig::NFAMILIES - 1);
  static const double AMPS[] = {0.5, 0.05, 0.9, 1.0, 0.005};
  const double amp = c.pick(AMPS);
  const uint32_t seed = c.u32();
  int change_at = c.chance(64) ? 1 + c.irange(0, npk - 1) : -1;
  int g1 = change_at >= 0 ? gen_gain(c) : g0; if (g1 == 0) g1 = -77;
  rep.note("enc Fs=%d ch=%d app=%d bitrate=%d dur=%d/400 mode=%d fec=%d signal=%s amp=%g; dec Fs=%d ch=%d gain %d%s", FsE, chE, app, bitrate, dur400, force_mode, fec, sig::FAMILY_NAME[family], amp, FsD, chD, g0,
           change_at >= 0 ? " (changes mid-stream)" : "");

  int err = 0;
  OpusEncoder* enc = opus_encoder_create(FsE, chE, app, &err);
  VP_REQUIRE(enc && err == OPUS_OK, "c19:harness-encoder-create", "encoder create failed %d", err);
  struct EncGuard { OpusEncoder* e; ~EncGuard() { opus_encoder_destroy(e); } } eguard{enc};
  opus_encoder_ctl(enc, OPUS_SET_BITRATE(bitrate)); opus_encoder_ctl(enc, OPUS_SET_COMPLEXITY(c.irange(0, 3)));
  if (force_mode != OPUS_AUTO) opus_encoder_ctl(enc, OPUS_SET_FORCE_MODE(force_mode));
  if (fec) { opus_encoder_ctl(enc, OPUS_SET_INBAND_FEC(1)); opus_encoder_ctl(enc, OPUS_SET_PACKET_LOSS_PERC(25)); }
  std::vector<std::vector<uint8_t>> pk;
  int pos = 0;
  const int n = FsE * dur400 / 400, nd = FsD * dur400 / 400;
  for (int i = 0; i < npk && i * dur400 * 5 / 2 < 600; i++) {
    std::vector<float> sb; sig::generate(family, seed, FsE, chE, n, amp, sb, pos); pos += n;
    HeapBuf<opus_int16> in((size_t)n * chE);
    for (int k = 0; k < n * chE; k++) { double v = std::lrint(sb[k] * 32768.0); in.p[k] = (opus_int16)(v > 32767 ? 32767 : v < -32768 ? -32768 : v); }
    HeapBuf<uint8_t> out(1500);
    int len = opus_encode(enc, in.p, n, out.p, 1500);
    VP_REQUIRE(len > 0, "c19:harness-encode", "encode returned %d", len);
    pk.emplace_back(out.p, out.p + len);
  }

  static const int CAPS[] = {255, 255, 0, 2, 4};
  opus_verif_arch_cap = c.pick(CAPS);
  OpusDecoder* dec[2] = {opus_decoder_create(FsD, chD, &err), opus_decoder_create(FsD, chD, &err)};
  struct DecGuard { OpusDecoder** d; ~DecGuard() { for (int k = 0; k < 2; k++) if (d[k]) opus_decoder_destroy(d[k]); opus_verif_arch_cap = 255; } } dguard{dec};
  VP_REQUIRE(dec[0] && dec[1], "c19:harness-decoder-create", "decoder create failed %d", err);
  int g = g0;
  VP_REQUIRE(opus_decoder_ctl(dec[1], OPUS_SET_GAIN(g)) == OPUS_OK, "c19:gain-ctl", "OPUS_SET_GAIN(%d) refused", g);
  Iv iv;
  int n_sat = 0, n_lost = 0, n_fec = 0, n_nonzero = 0; bool both_signs_p = false, both_signs_n = false;
  uint64_t fp = mix(mix(FsE, FsD), mix(chE * 2 + chD, (uint64_t)(g0 + 40000) * 70000 + (g1 + 40000)));
  auto close_interval = [&](int gv) -> int {
    if (!iv.used) return 0;
    const double ideal = 65536.0 * std::pow(10.0, gv / 5120.0);
    // the fixed-point build's celt_exp2() caps the factor at 0x7f000000 (2^15 in Q16, +90.3 dB): beyond that every sample but +-1 saturates
    // anyway and the factor is not compared with 10^(g/5120)
    if (gv > 23000) { rep.label("gain-above-fixed-point-cap"); return 0; }
    // the factor is only pinned down to the width of the interval; it must overlap [ideal*(1-2e-3), ideal*(1+2e-3)]
    // (the factor is a Q16 integer: one unit of absolute slack, which is what matters below about -50 dB)
    if (iv.hi < ideal * (1 - 2e-3) - 1.0 || iv.lo > ideal * (1 + 2e-3) + 1.0)
      return rep.fail("c19:gain-value", "gain %d: every factor consistent with the 16-bit output lies in [%.3f, %.3f] (Q16), 10^(g/5120) is %.3f", gv, iv.lo, iv.hi, ideal);
    return 0;
  };
  for (size_t i = 0; i < pk.size(); i++) {
    if ((int)i == change_at) { if (close_interval(g)) return 1; g = g1; iv = Iv(); VP_REQUIRE(opus_decoder_ctl(dec[1], OPUS_SET_GAIN(g)) == OPUS_OK, "c19:gain-ctl", "OPUS_SET_GAIN(%d) refused", g); rep.label("gain-changed-mid-stream"); }
    int action = c.irange(0, 9);   // 0: lost (PLC), 1: lost, recovered from the next packet's FEC, else normal
    const uint8_t* dptr = nullptr; int dlen = 0, fecflag = 0; const char* what = "normal";
    HeapBuf<uint8_t> pbuf(pk[i].size() + (i + 1 < pk.size() ? pk[i + 1].size() : 0));
    if (action == 0 || (action == 1 && i + 1 >= pk.size())) { n_lost++; what = "lost"; }
    else if (action == 1) { memcpy(pbuf.p, pk[i + 1].data(), pk[i + 1].size()); dptr = pbuf.p; dlen = (int)pk[i + 1].size(); fecflag = 1; n_fec++; what = "fec"; }
    else { memcpy(pbuf.p, pk[i].data(), pk[i].size()); dptr = pbuf.p; dlen = (int)pk[i].size(); }
    HeapBuf<opus_int16> oa((size_t)nd * chD), ob((size_t)nd * chD);
    int ra = opus_decode(dec[0], dptr, dlen, oa.p, nd, fecflag);
    int rb = opus_decode(dec[1], dptr, dlen, ob.p, nd, fecflag);
    rep.count(2);
    VP_REQUIRE(ra == nd && rb == ra, "c19:gain-changes-sample-count", "packet %zu (%s) gain %d: %d samples with gain 0, %d with gain", i, what, g, ra, rb);
    opus_uint32 fa = 0, fb = 1; opus_decoder_ctl(dec[0], OPUS_GET_FINAL_RANGE(&fa)); opus_decoder_ctl(dec[1], OPUS_GET_FINAL_RANGE(&fb));
    VP_REQUIRE(fa == fb, "c19:gain-changes-final-range", "packet %zu (%s) gain %d: final range %08x vs %08x", i, what, g, fa, fb);
    const double ideal = 65536.0 * std::pow(10.0, g / 5120.0);
    for (int s = 0; s < nd * chD; s++) {
      const int x = oa.p[s], y = ob.p[s];
      if (x == 0) { VP_REQUIRE(y == 0, "c19:gain-not-exact-scale", "packet %zu (%s) gain %d sample %d: 0 became %d", i, what, g, s, y); continue; }
      n_nonzero++;
      if (y >= 32767 || y <= -32767) {
        // saturated: the product must really reach the limit (2e-3 slack on the factor), and keep its sign
        VP_REQUIRE((y > 0) == (x > 0), "c19:decode16-wraps", "packet %zu (%s) gain %d sample %d: %d became %d", i, what, g, s, x, y);
        VP_REQUIRE(std::fabs(x * (std::min(ideal, 2130706432.0) * (1 + 2e-3) + 1.0) / 65536.0) >= 32766.5, "c19:gain-not-exact-scale", "packet %zu (%s) gain %d sample %d: %d became %d although %d x 10^(g/5120) is only %.1f", i, what, g, s, x, y, x, x * ideal / 65536.0);
        n_sat++; continue;
      }
      // round(x*G/65536) == y  <=>  (y-0.5) <= x*G/65536 <= (y+0.5) (ties either way)
      double a = (y - 0.5) * 65536.0 / x, b = (y + 0.5) * 65536.0 / x; if (a > b) std::swap(a, b);
      if (a > iv.lo) iv.lo = a; if (b < iv.hi) iv.hi = b; iv.used = true;
      if (x > 64) both_signs_p = true; if (x < -64) both_signs_n = true;
      if (iv.lo > iv.hi)
        return rep.fail("c19:gain-not-exact-scale", "packet %zu (%s) gain %d sample %d: no single factor G maps the gain-0 output to the gain-g output by y = round(x*G): after %d -> %d the feasible set is empty ([%.4f, %.4f] in Q16; 10^(g/5120) = %.4f)", i, what, g, s, x, y, iv.lo, iv.hi, ideal);
    }
    fp = mix(fp, fnv1a(pk[i].data(), std::min<size_t>(pk[i].size(), 8)) ^ (uint64_t)action);
  }
  if (close_interval(g)) return 1;
  rep.labelf("gain:%s", g0 > 15000 ? "> +58 dB" : g0 > 0 ? "positive" : g0 < -15000 ? "< -58 dB" : "negative");
  if (n_lost) rep.label("plc");
  if (n_fec) rep.label("fec-decode");
  if (n_sat) rep.label("int16-saturating");
  if (both_signs_p && both_signs_n) rep.label("factor-pinned-by-both-signs");
  if (n_nonzero > 0) { rep.nontrivial(); rep.label("integer-scale-checked"); }
  rep.fingerprint(fp);
  return 0;
}
