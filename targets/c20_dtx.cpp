// C20: DTX sends bounded runs of tiny packets when inactive and resumes at once.
// History-based: one encoder, a schedule of active bursts and digital-silence
// gaps (all boundaries on frame boundaries), oracles on the packet sequence and
// on two decoders (DTX packets as given / replaced by losses).
//
// Definitions.  T = frame (packet) duration; a DTX packet is a packet of <= 2
// bytes; "activity stops" at the first sample t0 of a gap: from t0 on the input
// is exactly 0.0f / 0 until the next burst starts (also on a frame boundary).
// The encoder decides on the input frame itself (is_digital_silence looks at
// the frame handed to opus_encode, not at the delayed buffer), so the encoder
// delay does not enter the rules below.
//
// Encoder clauses (budget above the floor: b*T/8 >= 3 bytes, b >= 2400 b/s for
// frames longer than 20 ms, buffer >= 3 bytes and >= 300 bytes/s for those):
//  E1 DTX on, complexity >= 7, Fs >= 16 kHz (float build; the activity analysis
//     runs), gap >= 200 ms + 2T: some DTX packet starts at t with
//     t - t0 < 200 ms + T.
//  E2 DTX on, any configuration: every run of consecutive DTX packets lasts
//     less than 400 ms + T.
//  E3 DTX on: OPUS_GET_IN_DTX reads 1 after every DTX packet.
//  E4 DTX on: the first packet of a burst that follows a gap is > 2 bytes when
//     that frame is unmistakably active (frame RMS >= 1/4 of the loudest frame
//     RMS so far, i.e. within 12 dB, inside the encoder's 25 dB pseudo-SNR rule).
//  E5 DTX off: no packet of <= 2 bytes at all.
// Decoder clauses (tree decoder, both feeding modes):
//  D1 every call returns the frame duration.
//  D2 near-silence (ample buffer, bitrate AUTO or >= 12 kb/s per channel: below that the speech layer starves,
//     bursts decode to nothing and refresh packets to comfort noise of rms 0.05..1.0, see
//     replays/C20/observation-starved-rate-comfort-noise-in-silence.case): in a gap that opens with >= 60 ms of
//     regular packets (the decoder was told about the silence) and then goes into DTX, from 20 ms after the start of the first DTX packet to the end of the
//     gap the loudest 10 ms window stays below the calibrated bound (calib/C20.json).
//  D3 recovery: for a burst of >= 300 ms after a gap, (decoded power of that burst / decoded power of the
//     first burst) / (same ratio of the input) lies within the calibrated band.  Domain: first burst
//     >= 400 ms, the first 100 ms of either burst skipped, no DTX packet inside either burst (the encoder
//     judged them active; stationary tones are legitimately replaced by comfort noise), ample buffer and a
//     bitrate AUTO or 12..64 kb/s per channel and at least 20 bytes per channel and packet (below, the speech layer can starve and emit empty frames; far above,
//     the SILK layer was seen to saturate the decoded signal); stationary tonal families are left out when the SILK
//     layer can be chosen (observation C20F2: occasional instability of the decoded power, see below).
// Calibration mode: C20_CALIB_OUT=<file> appends one JSON line per case and
// skips D2/D3 (tools/c20_calibrate.py aggregates into calib/C20.json).
#include "c05_common.hpp"
#include "siggen.hpp"
#define VP_REF_SAME_ARITH 1   // in the fixed-point variant the frozen fixed-point decoder is the reference
#include "refapi.h"

using namespace vp;

const TargetInfo vp_info = {"c20_dtx", 16, 80};

namespace {
c05::Calib g_calib;
const char* g_calib_out = nullptr;
struct Seg { bool active; int frames; };
int len_ms(Choice& c) {
  switch (c.irange(0, 7)) {
    case 0: return c.irange(200, 1200);
    case 1: return c.irange(0, 200);
    case 2: case 3: return c.irange(200, 1200);
    case 4: case 5: return c.irange(600, 2500);
    case 6: return 0;
    default: return c.irange(2500, 5000);
  }
}
}  // namespace

extern "C" void vp_init() {
  g_calib_out = getenv("C20_CALIB_OUT");
  g_calib.load(__FILE__, "C20.json");
}

int vp_case(Choice& c, Report& rep) {
  static const int FSW[5] = {4, 3, 3, 1, 1};            // 48, 24, 16, 12, 8 kHz
  const int Fs = cu::RATES[4 - c.weighted(FSW, 5)];
  const int ch = 1 + c.irange(0, 1);
  const int app = cu::APPS[(c.irange(0, 2) + 1) % 3];
  const int complexity = c.chance(150) ? 10 - c.irange(0, 3) : 10 - c.irange(0, 10);
  const int dtx = c.chance(56) ? 0 : 1;
  const int vbrmode = c.irange(0, 2);                 // 0 cvbr, 1 cbr, 2 vbr
  const int dur = c05::gen_dur(c);
  const int fs = cu::frame_samples(Fs, dur);
  const int frame_rate = Fs / fs;
  int force_mode = OPUS_AUTO, signal = OPUS_AUTO, bandwidth = OPUS_AUTO, fec = 0, loss = 0;
  if (c.chance(110)) force_mode = 1000 + c.irange(0, 2);
  if (c.chance(80)) signal = c.boolean() ? OPUS_SIGNAL_VOICE : OPUS_SIGNAL_MUSIC;
  if (c.chance(40)) bandwidth = cu::BANDWIDTHS[c.irange(0, 4)];
  if (c.chance(30)) { fec = 1 + c.irange(0, 1); loss = c.irange(0, 30); }
  // buffer: mostly ample; a small-buffer class.  Known finding C20F1: with VBR the SILK layer can overrun a small
  // buffer (seen up to 80 bytes for 60 ms), the encoder then falls back to a 2-byte "TOC + empty frame" packet
  // although DTX is off (and OPUS_GET_IN_DTX reads 0 on it), which contradicts E5/E3 as worded.  The class is
  // avoided by construction: small buffers are only drawn with VBR off or when the SILK layer cannot be used
  // (forced CELT, restricted-lowdelay, frames shorter than 10 ms).
  int M = 1500;
  if (c.chance(30)) M = c.irange(3, 60);
  const bool silk_possible = force_mode != cu::MODE_CELT && app != OPUS_APPLICATION_RESTRICTED_LOWDELAY && dur >= 2;
  if (M < 1276 && vbrmode != 1 && silk_possible && rep.exclude("C20F1")) M = 1500;
  if (frame_rate < 50 && M * frame_rate < 300) M = (300 + frame_rate - 1) / frame_rate;
  // budget floor (see header): the requested bitrate is raised until the documented low-budget conditions are out
  auto low_budget = [&](int64_t b) {
    int64_t mb = M < 1276 ? M : 1276;
    if (vbrmode == 1) { int64_t cb = c05::cbr_round_bytes(b, fs, Fs); if (cb < mb) mb = cb; }
    return mb < 3 || b < 24 * (int64_t)frame_rate || (frame_rate < 50 && (mb * frame_rate < 300 || b < 2400));
  };
  opus_int32 bitrate;
  bool at_floor = false;
  {
    int k = c.irange(0, 7);
    if (k == 0) bitrate = OPUS_AUTO;
    else if (k == 1) { bitrate = 500; at_floor = true; }
    else if (k == 2) bitrate = c.irange(6000, 12000) * ch;
    else if (k == 3) bitrate = c.irange(64000, 256000);
    else if (k == 4) bitrate = c.irange(3000, 8000);
    else bitrate = c.irange(12000, 48000) * ch;
    // Observation C20F2 (C04 territory): SILK-only CBR at >= 150 kb/s can drive the decoded signal into saturation
    // (rms 0.99 for an input of 0.2; replays/C20/observation-silk-cbr-high-rate-saturates.cpp), which would void
    // the decoder clauses; CBR rates are kept at <= 80 kb/s per channel whenever the SILK layer can be chosen.
    if (bitrate != OPUS_AUTO && vbrmode == 1 && silk_possible && bitrate > 80000 * ch && rep.exclude("C20F2")) bitrate = 80000 * ch;
    if (bitrate != OPUS_AUTO) {
      while (low_budget(bitrate)) bitrate += 100;
      if (at_floor) bitrate += c.irange(0, 3) * 100;
    }
  }
  static const int FAMS[5] = {sig::SPEECHLIKE, sig::MULTITONE, sig::NOISE, sig::TONE_PAIR, sig::SQUARE};
  const int family = c.pick(FAMS);
  static const double AMPS[4] = {0.5, 0.25, 0.9, 0.1};
  const double amp = AMPS[c.irange(0, 3)];
  const uint64_t seed = c.byte();
  const int api = c.irange(0, 1);
  // schedule: burst, gap, burst [, gap, burst]
  std::vector<Seg> segs;
  {
    int ncyc = 1 + (c.chance(70) ? 1 : 0);
    int64_t total_ms = 0;
    for (int k = 0; k <= 2 * ncyc; k++) {
      int ms = len_ms(c);
      if (total_ms + ms > 12000) ms = (int)(12000 - total_ms);
      total_ms += ms;
      int nf = (int)(((int64_t)ms * Fs / 1000) / fs);
      if (k == 2 * ncyc && nf == 0 && !segs.empty()) nf = 1;
      segs.push_back({(k & 1) == 0, nf});
    }
  }
  int nframes = 0;
  for (auto& s : segs) nframes += s.frames;
  if (nframes == 0) { segs[0].frames = 1; nframes = 1; }
  const size_t nsamp = (size_t)nframes * fs;

  std::vector<float> pcm;
  sig::generate(family, seed, Fs, ch, (int)nsamp, amp, pcm);
  for (auto& v : pcm) { if (v > 1.f) v = 1.f; if (v < -1.f) v = -1.f; }
  // Known finding C20F3: with the speech-layer DTX in charge a stereo signal whose channels are in anti-phase (L = -R, silent mid channel) is
  // classed inactive - the side channel's activity is never consulted - and whole bursts are sent as 1-byte DTX packets.  The class (anti-phase
  // stereo input) is generated only when the finding is lifted (replay of corpus/C20/known/C20F3.case); hash-derived so the choice layout is unchanged.
  bool antiphase = false;
  if (ch == 2 && (fnv1a(c.d, c.n) % 8) == 3 && !rep.exclude("C20F3")) {
    antiphase = true;
    for (size_t i = 0; i < nsamp; i++) pcm[2 * i + 1] = -pcm[2 * i];
    rep.label("signal:anti-phase-stereo");
  }
  if (api == 0) for (auto& v : pcm) { double q = std::floor(v * 32768.0 + 0.5); if (q > 32767) q = 32767; if (q < -32768) q = -32768; v = (float)(q / 32768.0); }   // what the int16 entry point sees
  std::vector<int> seg_start(segs.size() + 1, 0);
  for (size_t k = 0; k < segs.size(); k++) {
    seg_start[k + 1] = seg_start[k] + segs[k].frames;
    if (!segs[k].active) std::fill(pcm.begin() + (size_t)seg_start[k] * fs * ch, pcm.begin() + (size_t)seg_start[k + 1] * fs * ch, 0.f);
  }

  cu::Enc enc; cu::Dec decA, decB;
  int err = 0;
  enc.p = opus_encoder_create(Fs, ch, app, &err);
  VP_REQUIRE(enc.p && err == OPUS_OK, "c20:encoder-create", "err=%d", err);
  decA.p = opus_decoder_create(Fs, ch, &err);
  VP_REQUIRE(decA.p && err == OPUS_OK, "c20:decoder-create", "err=%d", err);
  decB.p = opus_decoder_create(Fs, ch, &err);
  VP_REQUIRE(decB.p && err == OPUS_OK, "c20:decoder-create", "err=%d", err);
  // frozen decoders fed the identical call sequences (packets as given / DTX packets as losses): reference for the onset after a gap
  struct RefDec { OpusDecoder* p = nullptr; ~RefDec() { if (p) ref_opus_decoder_destroy(p); } } refA, refB;
  refA.p = ref_opus_decoder_create(Fs, ch, &err); refB.p = ref_opus_decoder_create(Fs, ch, &err);
  VP_REQUIRE(refA.p && refB.p, "c20:decoder-create", "frozen decoder create failed (%d)", err);
#define CTL(req) do { int r_ = opus_encoder_ctl(enc.p, req); VP_REQUIRE(r_ == OPUS_OK, "c20:ctl-result", "ctl returned %d", r_); } while (0)
  CTL(OPUS_SET_COMPLEXITY(complexity));
  CTL(OPUS_SET_DTX(dtx));
  CTL(OPUS_SET_VBR(vbrmode != 1));
  CTL(OPUS_SET_VBR_CONSTRAINT(vbrmode != 2));
  CTL(OPUS_SET_BITRATE(bitrate));
  CTL(CU_SET_FORCE_MODE(force_mode));
  CTL(OPUS_SET_SIGNAL(signal));
  CTL(OPUS_SET_BANDWIDTH(bandwidth));
  CTL(OPUS_SET_INBAND_FEC(fec));
  CTL(OPUS_SET_PACKET_LOSS_PERC(loss));
#undef CTL
#ifdef FIXED_POINT
  const bool analysis_on = complexity >= 10 && Fs >= 16000;   // the fixed-point build runs the activity analysis at complexity 10 only (src/opus_encoder.c); the property's "7 or higher" is the default float build
#else
  const bool analysis_on = complexity >= 7 && Fs >= 16000;
#endif
  std::string sched;
  for (auto& s : segs) { char b[32]; snprintf(b, sizeof b, "%s%d", s.active ? "+" : "-", (int)((int64_t)s.frames * fs * 1000 / Fs)); sched += b; }
  rep.note("Fs=%d ch=%d app=%d cx=%d dtx=%d vbrmode=%d %gms bitrate=%d%s M=%d fmode=%d signal=%d bw=%d fec=%d/%d sig=%s amp=%g api=%d schedule(ms)=%s",
           Fs, ch, app, complexity, dtx, vbrmode, cu::DUR400[dur] * 2.5, bitrate, at_floor ? "(floor)" : "", M, force_mode, signal, bandwidth, fec, loss, sig::FAMILY_NAME[family], amp, api, sched.c_str());
  rep.fingerprint(mix(mix(Fs, ch), mix(dur, (uint64_t)complexity * 4 + (uint64_t)dtx * 2 + (uint64_t)(vbrmode == 1))));
  rep.fingerprint(mix((uint64_t)(force_mode & 7), (uint64_t)(bitrate < 0 ? 1 : bitrate / 2000)));
  for (auto& s : segs) rep.fingerprint((uint64_t)s.frames * 2 + s.active);

  // ---- run ----------------------------------------------------------------
  std::vector<int> plen(nframes), pdtx(nframes);
  std::vector<float> outA(nsamp * ch), outB(nsamp * ch), outRA(nsamp * ch), outRB(nsamp * ch);
  HeapBuf<float> fin((size_t)fs * ch); HeapBuf<opus_int16> sin_((size_t)fs * ch);
  HeapBuf<float> dout((size_t)fs * ch);
  int n_mode[3] = {0, 0, 0};
  for (int i = 0; i < nframes; i++) {
    const float* src = pcm.data() + (size_t)i * fs * ch;
    c05::OutBuf out(M, i & 1);
    int len;
    if (api == 0) { for (int k = 0; k < fs * ch; k++) sin_.p[k] = (opus_int16)std::lrint(src[k] * 32768.0); len = opus_encode(enc.p, sin_.p, fs, out.data(), M); }
    else { memcpy(fin.p, src, sizeof(float) * (size_t)fs * ch); len = opus_encode_float(enc.p, fin.p, fs, out.data(), M); }
    rep.count();
    VP_REQUIRE(out.guard_damage() < 0, "c20:guard-bytes-overwritten", "frame %d", i);
    VP_REQUIRE(len >= 1 && len <= M, "c20:encode-result", "frame %d: opus_encode returned %d (M=%d Fs=%d ch=%d %gms bitrate=%d)", i, len, M, Fs, ch, cu::DUR400[dur] * 2.5, bitrate);
    opus_int32 in_dtx = -1;
    VP_REQUIRE(opus_encoder_ctl(enc.p, OPUS_GET_IN_DTX(&in_dtx)) == OPUS_OK && (in_dtx == 0 || in_dtx == 1), "c20:in-dtx-query", "frame %d: value %d", i, in_dtx);
    plen[i] = len; pdtx[i] = in_dtx;
    c05::PktInfo pi;
    VP_REQUIRE(c05::inspect(out.data(), len, Fs, pi) && pi.samples == fs, "c20:invalid-packet", "frame %d len %d", i, len);
    n_mode[pi.t.mode]++;
    // decoders
    HeapBuf<uint8_t> pkt((size_t)len); memcpy(pkt.p, out.data(), (size_t)len);
    // the output buffer is NaN-poisoned before every call: "produces the requested durations" means every requested sample is written
    for (size_t k = 0; k < (size_t)fs * ch; k++) dout.p[k] = std::nanf("");
    int dr = opus_decode_float(decA.p, pkt.p, len, dout.p, fs, 0);
    if (dr != fs) return rep.fail("c20:decode-duration", "decoder (packets as given) returned %d for frame %d (%d bytes, %d samples)", dr, i, len, fs);
    if (!all_finite(dout.p, (size_t)fs * ch)) return rep.fail("c20:decoder-left-samples-unwritten", "decoder (packets as given): frame %d (%d bytes, %d samples x %d channels) returned %d but left samples unwritten / non-finite", i, len, fs, ch, dr);
    memcpy(outA.data() + (size_t)i * fs * ch, dout.p, sizeof(float) * (size_t)fs * ch);
    for (size_t k = 0; k < (size_t)fs * ch; k++) dout.p[k] = std::nanf("");
    if (len <= 2) dr = opus_decode_float(decB.p, nullptr, 0, dout.p, fs, 0);
    else dr = opus_decode_float(decB.p, pkt.p, len, dout.p, fs, 0);
    if (dr != fs) return rep.fail("c20:decode-duration", "decoder (DTX packets as losses) returned %d for frame %d (%d bytes, %d samples)", dr, i, len, fs);
    if (!all_finite(dout.p, (size_t)fs * ch)) return rep.fail("c20:decoder-left-samples-unwritten", "decoder (DTX packets as losses): frame %d (%d bytes, %d samples x %d channels) returned %d but left samples unwritten / non-finite", i, len, fs, ch, dr);
    memcpy(outB.data() + (size_t)i * fs * ch, dout.p, sizeof(float) * (size_t)fs * ch);
    (void)ref_opus_decode_float(refA.p, pkt.p, len, outRA.data() + (size_t)i * fs * ch, fs, 0);
    if (len <= 2) (void)ref_opus_decode_float(refB.p, nullptr, 0, outRB.data() + (size_t)i * fs * ch, fs, 0);
    else (void)ref_opus_decode_float(refB.p, pkt.p, len, outRB.data() + (size_t)i * fs * ch, fs, 0);
    rep.count(2);
  }
  if (!all_finite(outA.data(), outA.size()) || !all_finite(outB.data(), outB.size())) return rep.fail("c20:decode-nonfinite", "decoded audio not finite");

  // D4 onset after a gap, relative to the frozen decoder fed the identical calls: in the first 40 ms of audio after a run of DTX packets
  // (decoded from concealment / comfort-noise state: glue-frame fade-in, energy prediction after loss, LTP re-sync) every 5 ms window in which
  // the frozen decoder carries signal (rms >= 2e-3) must hold between 0.4x and 2.5x of its energy (+-4 dB).  On the unchanged tree the two
  // decoders differ only by summation order (SIMD vs C).  One-sided towards "the tree behaves like the frozen codec": what normal audio after
  // a gap is, is taken from the frozen decoder, not from a bound of our own (seeded defect C20-6: fade-in slope of silk_PLC_glue_frames
  // no longer steepened, onset 6.5 dB low between 5 and 12.5 ms).
  {
    const int w5 = Fs / 200; int checked = 0;
    for (int i = 1; i < nframes; i++) {
      if (!(plen[i] > 2 && plen[i - 1] <= 2)) continue;
      const size_t a0 = (size_t)i * fs, a1 = std::min((size_t)nsamp, a0 + (size_t)Fs / 25);
      for (int d = 0; d < 2; d++) {
        const std::vector<float>& yt = d ? outB : outA; const std::vector<float>& yr = d ? outRB : outRA;
        for (size_t a = a0; a + w5 <= a1; a += w5) {
          double et = 0, er = 0;
          for (size_t k = a * ch; k < (a + w5) * ch; k++) { et += (double)yt[k] * yt[k]; er += (double)yr[k] * yr[k]; }
          if (er < 4e-6 * w5 * ch) continue;
          checked++;
          if (et < 0.4 * er || et > 2.5 * er)
            return rep.fail("c20:onset-after-gap-differs-from-frozen", "decoder fed %s: %d-%d ms after the DTX run that ends at packet %d the decoded energy is %.1f dB relative to the frozen decoder on the same calls (rms %.4f vs %.4f)",
                            d ? "DTX packets as losses" : "the packets as given", (int)((a - a0) * 1000 / Fs), (int)((a - a0 + w5) * 1000 / Fs), i, 10 * std::log10((et + 1e-30) / er), std::sqrt(et / (w5 * ch)), std::sqrt(er / (w5 * ch)));
        }
      }
    }
    if (checked) rep.label("onset-vs-frozen-checked");
  }

  if (getenv("C20_DUMP")) {   // debugging aid: per-packet length, IN_DTX, input / decoded rms
    for (int i = 0; i < nframes; i++) {
      double a = 0, b = 0;
      for (int k = 0; k < fs * ch; k++) { a += (double)pcm[(size_t)i * fs * ch + k] * pcm[(size_t)i * fs * ch + k]; b += (double)outA[(size_t)i * fs * ch + k] * outA[(size_t)i * fs * ch + k]; }
      fprintf(stderr, "packet %3d t=%5d ms len %4d in_dtx %d  in rms %.4f  out rms %.4f", i, (int)((int64_t)i * fs * 1000 / Fs), plen[i], pdtx[i], std::sqrt(a / (fs * ch)), std::sqrt(b / (fs * ch)));
      if (a == 0 && b / (fs * ch) > 1e-4) { fprintf(stderr, "  per 5 ms:"); int w = Fs / 200; for (int s0 = 0; s0 + w <= fs; s0 += w) { double e = 0; for (int k = s0 * ch; k < (s0 + w) * ch; k++) e += (double)outA[(size_t)i * fs * ch + k] * outA[(size_t)i * fs * ch + k]; fprintf(stderr, " %.3f", std::sqrt(e / (w * ch))); } }
      fprintf(stderr, "\n");
    }
  }

  // ---- encoder clauses -------------------------------------------------------
  const char* cfgfmt = "Fs=%d ch=%d app=%d cx=%d %gms bitrate=%d vbrmode=%d M=%d fmode=%d schedule(ms)=%s";
#define CFG cfgfmt, Fs, ch, app, complexity, cu::DUR400[dur] * 2.5, bitrate, vbrmode, M, force_mode, sched.c_str()
  auto frame_rms = [&](int i) { double e = 0; const float* p = pcm.data() + (size_t)i * fs * ch; for (int k = 0; k < fs * ch; k++) e += (double)p[k] * p[k]; return std::sqrt(e / (fs * ch)); };
  int ndtx = 0, nrefresh = 0;
  bool nontrivial = false;
  if (!dtx) {
    for (int i = 0; i < nframes; i++)
      if (plen[i] <= 2) { char m[600]; snprintf(m, sizeof m, CFG); return rep.fail("c20:tiny-packet-with-dtx-off", "frame %d is %d bytes with DTX disabled; %s", i, plen[i], m); }
    rep.label("dtx-off");
  } else {
    // E2, E3
    int run = 0;
    for (int i = 0; i < nframes; i++) {
      if (plen[i] <= 2) {
        ndtx++; run++;
        if (pdtx[i] != 1) { char m[600]; snprintf(m, sizeof m, CFG); return rep.fail("c20:in-dtx-false-on-dtx-packet", "frame %d is a %d-byte DTX packet but OPUS_GET_IN_DTX reads %d; %s", i, plen[i], pdtx[i], m); }
        if ((int64_t)run * fs >= 2ll * Fs / 5 + fs) { char m[600]; snprintf(m, sizeof m, CFG); return rep.fail("c20:dtx-run-too-long", "%d consecutive DTX packets up to frame %d = %.1f ms, limit 400 ms + one frame; %s", run, i, run * fs * 1000.0 / Fs, m); }
      } else {
        if (run > 0 && i > 0 && i + 1 < nframes && plen[i + 1] <= 2) nrefresh++;
        run = 0;
      }
    }
    // E1, E4 per gap
    double loudest = 0;
    for (size_t k = 0; k < segs.size(); k++) {
      const int a = seg_start[k], b = seg_start[k + 1];
      if (segs[k].active) {
        if (k > 0 && b > a && segs[k - 1].frames > 0) {
          double r = frame_rms(a);
          // "Renewed activity" must be unmistakable: the speech-layer VAD may class a quiet onset frame (observed: RMS 0.014..0.021 = 0.26..0.29 of the
          // loudest frame so far, 10 ms frames, speech-like input) as inactive and keep sending DTX for one more frame.  That is the detector's
          // judgement, not a frame of activity being dropped; the clause is asserted for frames at least half as loud as the loudest so far.
          // The detector may also class the "active" signal itself as inactive (seed 45: a steady 0.1 square wave at 12 kHz is adapted to as background
          // noise by the speech-layer detector after 780 ms and sent as DTX although it never stopped): when the frame just before the gap was already a
          // DTX packet and the input is stationary there is no renewed activity in the detector's sense, and nothing is asserted.
          // Only for stationary input (constant-level tones / noise) that the detector first coded as active for at least 400 ms (twice the DTX
          // hang-over) and then adapted to as background: that is its judgement.  For non-stationary (speech-like, sweeping, clicking) input, for a
          // signal the detector never treated as active, and for anti-phase stereo (silent mid channel: known finding C20F3, where the detector never
          // looks at the channel carrying the signal) DTX during the signal stays a failure of this clause.
          const bool stationary_input = family != sig::SPEECHLIKE && family != sig::SWEEP && family != sig::CLICKS && !antiphase;
          bool signal_already_in_dtx = false;
          if (stationary_input && k >= 2 && a - segs[k - 1].frames - 1 >= 0 && plen[a - segs[k - 1].frames - 1] <= 2) {
            const int pa = seg_start[k - 2];                       // start of the active segment before the gap
            int first_dtx = pa; while (first_dtx < seg_start[k - 1] && plen[first_dtx] > 2) first_dtx++;
            signal_already_in_dtx = (int64_t)(first_dtx - pa) * fs * 1000 >= 400ll * Fs;
          }
          if (signal_already_in_dtx) rep.label("resume-not-judged(detector classed the signal itself inactive)");
          if (r >= 0.5 * loudest && r >= 0.02 && !signal_already_in_dtx) {
            rep.label("resume-checked");
            if (plen[a] <= 2) { char m[600]; snprintf(m, sizeof m, CFG); return rep.fail("c20:resume-frame-is-dtx", "frame %d, the first after a %d-frame gap (frame RMS %.4f, loudest so far %.4f), is %d bytes; %s", a, segs[k - 1].frames, r, loudest, plen[a], m); }
            if (a > 0 && plen[a - 1] <= 2) { rep.label("resume-from-dtx"); nontrivial = true; }
          } else rep.label("resume-soft-onset");
        }
        for (int i = a; i < b; i++) loudest = std::max(loudest, frame_rms(i));
      } else if (b > a) {
        const int64_t gap = (int64_t)(b - a) * fs;
        if (analysis_on && gap >= Fs / 5 + 2ll * fs) {
          int first = -1;
          for (int i = a; i < b; i++) if (plen[i] <= 2) { first = i; break; }
          rep.label("gap-200ms-checked");
          nontrivial = true;
          if (first < 0 || (int64_t)(first - a) * fs >= Fs / 5 + fs) {
            char m[600]; snprintf(m, sizeof m, CFG);
            return rep.fail("c20:dtx-starts-late", "gap of %.1f ms starting at frame %d: first DTX packet %s (offset %.1f ms), must start before 200 ms + one frame; %s",
                            gap * 1000.0 / Fs, a, first < 0 ? "never" : "late", first < 0 ? -1.0 : (first - a) * fs * 1000.0 / Fs, m);
          }
        }
      }
    }
    if (ndtx) rep.label("dtx-packets");
    if (nrefresh) { rep.label("dtx-refresh"); nontrivial = true; }
    rep.label(analysis_on ? "detector:analysis" : "detector:silk-or-none");
  }
  rep.label(n_mode[0] >= n_mode[1] && n_mode[0] >= n_mode[2] ? "mode:silk" : n_mode[1] >= n_mode[2] ? "mode:hybrid" : "mode:celt");
  if (at_floor) rep.label("bitrate-at-floor");
  if (M < 100) rep.label("small-buffer");
  if (fs > Fs / 50) rep.label("long-frames");

  // ---- decoder clauses ---------------------------------------------------------
  size_t worst_at = 0;     // sample position of the loudest window found by the last call
  auto win_max_rms = [&](const std::vector<float>& o, size_t s0, size_t s1) {
    const size_t w = (size_t)Fs / 100; double worst = 0;
    for (size_t s = s0; s + w <= s1; s += w) { double e = 0; for (size_t k = s * ch; k < (s + w) * ch; k++) e += (double)o[k] * o[k]; double r = std::sqrt(e / (w * ch)); if (r > worst) { worst = r; worst_at = s; } }
    return worst;
  };
  auto power = [&](const std::vector<float>& o, size_t s0, size_t s1) { double e = 0; for (size_t k = s0 * ch; k < s1 * ch; k++) e += (double)o[k] * o[k]; return s1 > s0 ? e / ((s1 - s0) * ch) : 0.0; };
  double gap_worst[2] = {0, 0}; bool gap_seen = false; int gap_worst_ms = -1; bool gap_worst_prev_dtx = false;
  double rec_lo[2] = {1e30, 1e30}, rec_hi[2] = {0, 0}; bool rec_seen = false;
  const std::vector<float>* outs[2] = {&outA, &outB};
  const size_t skip = (size_t)Fs / 10;
  // Observation C20F2 (C04 territory, replays/C20/observation-silk-layer-tonal-instability.case and
  // observation-silk-cbr-high-rate-saturates.cpp): when the SILK layer codes stationary tonal input (multitone, tone
  // pair, square) the decoded signal is occasionally unstable - 5..200 x the input power for up to a second, worst in
  // CBR - which voids a power comparison between bursts; the recovery clause keeps speech-like and noise input for
  // those configurations and all families when only CELT can be used.
  const bool tonal = family != sig::SPEECHLIKE && family != sig::NOISE;
  const bool tonal_silk_skip = tonal && silk_possible && rep.exclude("C20F2");
  auto any_dtx = [&](int a, int b) { for (int i = a; i < b; i++) if (plen[i] <= 2) return true; return false; };
  const bool sane_rate = M >= 1276 && (bitrate == OPUS_AUTO || bitrate >= 12000 * ch);
  for (size_t k = 0; k < segs.size(); k++) {
    const int fa = seg_start[k], fb = seg_start[k + 1];
    const size_t s0 = (size_t)fa * fs, s1 = (size_t)fb * fs;
    if (!segs[k].active && fb > fa) {
      // D2: the decoder was told about the silence (>= 60 ms of regular packets open the gap) and DTX follows;
      // the window runs from 20 ms after the start of the first DTX packet to the end of the gap
      int first = -1;
      for (int i = fa; i < fb; i++) if (plen[i] <= 2) { first = i; break; }
      // (stationary tonal families coded by the speech layer are left out here as in the recovery clause: a 0.5-amplitude square wave at 12-17 kb/s,
      //  24 kHz, 60/120 ms frames decoded to rms 0.13-0.31 inside the gap on the unchanged tree - seed sweep, observation C20F2)
      if (sane_rate && !tonal_silk_skip && first >= 0 && (int64_t)(first - fa) * fs * 1000 >= 60ll * Fs) {
        size_t w0 = (size_t)first * fs + (size_t)Fs / 50;
        if (w0 + (size_t)Fs / 100 <= s1) {
          gap_seen = true;
          for (int d = 0; d < 2; d++) { double r = win_max_rms(*outs[d], w0, s1); if (r > gap_worst[d]) { gap_worst[d] = r; if (d == 0) { gap_worst_ms = (int)((worst_at - s0) * 1000 / Fs); gap_worst_prev_dtx = fa > 0 && plen[fa - 1] <= 2; } } }
        }
      }
    }
    // D3: both bursts long enough, coded throughout (no DTX packet inside them: the encoder judged them active), sane rate
    if (segs[k].active && k >= 2 && sane_rate && !tonal_silk_skip && (bitrate == OPUS_AUTO || (bitrate <= 64000 * ch && (int64_t)bitrate * fs >= 20ll * ch * 8 * Fs)) && s1 - s0 >= 3 * (size_t)Fs / 10 && (size_t)segs[0].frames * fs >= 2 * (size_t)Fs / 5 && segs[k - 1].frames > 0
        && !any_dtx(0, seg_start[1]) && !any_dtx(fa, fb)) {
      const size_t b0 = 0, b1 = (size_t)segs[0].frames * fs;
      double pin1 = power(pcm, b0 + skip, b1), pin2 = power(pcm, s0 + skip, s1);
      for (int d = 0; d < 2; d++) {
        double p1 = power(*outs[d], b0 + skip, b1), p2 = power(*outs[d], s0 + skip, s1);
        if (pin1 > 1e-8 && pin2 > 1e-8 && p1 > 1e-9) {
          double q = (p2 / p1) / (pin2 / pin1);
          rec_lo[d] = std::min(rec_lo[d], q); rec_hi[d] = std::max(rec_hi[d], q); rec_seen = true;
        }
      }
    }
  }
  if (gap_seen) rep.label("gap-silence-checked");
  if (rec_seen) rep.label("recovery-checked");
  rep.nontrivial(nontrivial);
  rep.note("packets %d, DTX packets %d, refreshes %d, gap loudest 10ms rms %.2e/%.2e, recovery ratio [%.3f,%.3f]/[%.3f,%.3f]", nframes, ndtx, nrefresh, gap_worst[0], gap_worst[1], rec_seen ? rec_lo[0] : 0, rec_hi[0], rec_seen ? rec_lo[1] : 0, rec_hi[1]);

  if (g_calib_out) {
    FILE* f = fopen(g_calib_out, "a");
    if (f) {
      fprintf(f, "{\"gap_seen\":%d,\"gap_ms\":%d,\"prev_dtx\":%d,\"gapA\":%.4e,\"gapB\":%.4e,\"rec_seen\":%d,\"recA_lo\":%.5f,\"recA_hi\":%.5f,\"recB_lo\":%.5f,\"recB_hi\":%.5f,\"Fs\":%d,\"ch\":%d,\"dur\":%g,\"bitrate\":%d,\"cx\":%d,\"dtx\":%d,\"ndtx\":%d,\"fmode\":%d,\"app\":%d,\"sig\":\"%s\",\"amp\":%g,\"silk\":%d,\"hybrid\":%d,\"celt\":%d,\"vbrmode\":%d,\"M\":%d,\"sched\":\"%s\"}\n",
              gap_seen, gap_worst_ms, (int)gap_worst_prev_dtx, gap_worst[0], gap_worst[1], rec_seen, rec_seen ? rec_lo[0] : 1.0, rec_seen ? rec_hi[0] : 1.0, rec_seen ? rec_lo[1] : 1.0, rec_seen ? rec_hi[1] : 1.0,
              Fs, ch, cu::DUR400[dur] * 2.5, bitrate, complexity, dtx, ndtx, force_mode, app, sig::FAMILY_NAME[family], amp, n_mode[0], n_mode[1], n_mode[2], vbrmode, M, sched.c_str());
      fclose(f);
    }
    return 0;
  }
  if (gap_seen || rec_seen) {
    VP_REQUIRE(g_calib.loaded, "c20:calibration-file-missing", "calib/C20.json not found next to %s", __FILE__);
    double gb = 0, lo = 0, hi = 0;
    VP_REQUIRE(g_calib.get("gap_rms_bound", gb) && g_calib.get("recovery_ratio_min", lo) && g_calib.get("recovery_ratio_max", hi), "c20:calibration-key-missing", "calib/C20.json incomplete");
    for (int d = 0; d < 2; d++) {
      if (gap_seen && gap_worst[d] > gb) { char m[600]; snprintf(m, sizeof m, CFG); return rep.fail("c20:gap-not-silent", "decoder fed %s: loudest 10 ms window inside a silence gap has rms %.3e, calibrated bound %.3e; %s", d ? "DTX packets as losses" : "the packets as given", gap_worst[d], gb, m); }
      if (rec_seen && (rec_lo[d] < lo || rec_hi[d] > hi)) { char m[600]; snprintf(m, sizeof m, CFG); return rep.fail("c20:no-recovery-after-gap", "decoder fed %s: power of a burst after a gap relative to the first burst is %.3f..%.3f x the input's ratio, calibrated band [%.3f, %.3f]; %s", d ? "DTX packets as losses" : "the packets as given", rec_lo[d], rec_hi[d], lo, hi, m); }
    }
  }
#undef CFG
  return 0;
}
