// Shared helpers for codec-level targets: generated encoder configurations,
// ctl application, frame-size tables.
#pragma once
#include <string>
#include <vector>
#include "vp.hpp"
extern "C" {
#include "opus.h"
#include "opus_multistream.h"
#include "opus_projection.h"
}

namespace cu {

static const int RATES[5] = {8000, 12000, 16000, 24000, 48000};
static const int APPS[3] = {OPUS_APPLICATION_VOIP, OPUS_APPLICATION_AUDIO, OPUS_APPLICATION_RESTRICTED_LOWDELAY};
// frame durations in units of 2.5 ms: 2.5, 5, 10, 20, 40, 60, 80, 100, 120 ms
static const int DUR400[9] = {1, 2, 4, 8, 16, 24, 32, 40, 48};
static const int BANDWIDTHS[5] = {OPUS_BANDWIDTH_NARROWBAND, OPUS_BANDWIDTH_MEDIUMBAND, OPUS_BANDWIDTH_WIDEBAND, OPUS_BANDWIDTH_SUPERWIDEBAND, OPUS_BANDWIDTH_FULLBAND};
// private request used by the repo's own tests to force the coding mode
#ifndef OPUS_SET_FORCE_MODE_REQUEST
#define OPUS_SET_FORCE_MODE_REQUEST 11002
#endif
#define CU_SET_FORCE_MODE(x) OPUS_SET_FORCE_MODE_REQUEST, (opus_int32)(x)
static const int MODE_AUTO = OPUS_AUTO, MODE_SILK = 1000, MODE_HYBRID = 1001, MODE_CELT = 1002;

struct EncCfg {
  int Fs = 48000, ch = 1, app = OPUS_APPLICATION_AUDIO;
  opus_int32 bitrate = OPUS_AUTO;     // OPUS_AUTO, OPUS_BITRATE_MAX or bits/s
  int vbr = 1, cvbr = 1, complexity = 9;
  int bandwidth = OPUS_AUTO, max_bandwidth = OPUS_BANDWIDTH_FULLBAND;
  int force_channels = OPUS_AUTO, force_mode = OPUS_AUTO;
  int fec = 0, loss = 0, dtx = 0, lsb = 24, pred_disabled = 0, phase_inv_disabled = 0;
  int signal = OPUS_AUTO;
  int expert_dur = OPUS_FRAMESIZE_ARG;
};

inline opus_int32 gen_bitrate(vp::Choice& c, int ch) {
  int k = c.irange(0, 9);
  switch (k) {
    case 0: return OPUS_AUTO;
    case 1: return OPUS_BITRATE_MAX;
    case 2: return c.irange(500, 6000);
    case 3: return c.irange(6000, 16000);
    case 4: return c.irange(16000, 40000);
    case 5: return c.irange(40000, 128000);
    case 6: return c.irange(128000, 512000);
    case 7: { static const int B[] = {500, 501, 2400, 5999, 6000, 8000, 12000, 16000, 24000, 32000, 64000, 96000, 256000, 300000, 510000, 512000, 600000}; return c.pick(B) * (c.boolean() ? ch : 1); }
    default: return c.irange(8000, 96000);
  }
}

// Draws a configuration.  `simple` keeps most settings at their defaults so
// that small byte values give the plainest encoder.
inline EncCfg gen_cfg(vp::Choice& c) {
  EncCfg e;
  e.Fs = RATES[4 - c.irange(0, 4)];        // 0 -> 48 kHz
  e.ch = 1 + c.irange(0, 1);
  e.app = APPS[(c.irange(0, 2) + 1) % 3];  // 0 -> AUDIO
  e.bitrate = gen_bitrate(c, e.ch);
  int v = c.irange(0, 3); e.vbr = v != 1; e.cvbr = v != 2;   // 0: cvbr, 1: cbr, 2: unconstrained vbr
  e.complexity = 10 - c.irange(0, 10);
  if (c.chance(80)) e.bandwidth = BANDWIDTHS[c.irange(0, 4)];
  if (c.chance(60)) e.max_bandwidth = BANDWIDTHS[c.irange(0, 4)];
  if (c.chance(60)) e.force_channels = 1 + c.irange(0, 1);
  if (c.chance(110)) e.force_mode = 1000 + c.irange(0, 2);
  if (c.chance(80)) { e.fec = c.irange(0, 2); e.loss = c.irange(0, 100); }
  if (c.chance(50)) e.dtx = 1;
  if (c.chance(60)) e.lsb = c.irange(8, 24);
  if (c.chance(30)) e.pred_disabled = 1;
  if (c.chance(30)) e.phase_inv_disabled = 1;
  if (c.chance(50)) e.signal = c.boolean() ? OPUS_SIGNAL_VOICE : OPUS_SIGNAL_MUSIC;
  return e;
}

// Applies every setting through the public ctl interface; returns the first error (or OPUS_OK).
inline int apply_cfg(OpusEncoder* enc, const EncCfg& e) {
  int r;
#define CU_TRY(x) do { r = opus_encoder_ctl(enc, x); if (r != OPUS_OK) return r; } while (0)
  CU_TRY(OPUS_SET_BITRATE(e.bitrate));
  CU_TRY(OPUS_SET_VBR(e.vbr));
  CU_TRY(OPUS_SET_VBR_CONSTRAINT(e.cvbr));
  CU_TRY(OPUS_SET_COMPLEXITY(e.complexity));
  CU_TRY(OPUS_SET_BANDWIDTH(e.bandwidth));
  CU_TRY(OPUS_SET_MAX_BANDWIDTH(e.max_bandwidth));
  if (e.force_channels == OPUS_AUTO || e.force_channels <= e.ch) CU_TRY(OPUS_SET_FORCE_CHANNELS(e.force_channels));
  CU_TRY(CU_SET_FORCE_MODE(e.force_mode));
  CU_TRY(OPUS_SET_INBAND_FEC(e.fec));
  CU_TRY(OPUS_SET_PACKET_LOSS_PERC(e.loss));
  CU_TRY(OPUS_SET_DTX(e.dtx));
  CU_TRY(OPUS_SET_LSB_DEPTH(e.lsb));
  CU_TRY(OPUS_SET_PREDICTION_DISABLED(e.pred_disabled));
  CU_TRY(OPUS_SET_PHASE_INVERSION_DISABLED(e.phase_inv_disabled));
  CU_TRY(OPUS_SET_SIGNAL(e.signal));
  CU_TRY(OPUS_SET_EXPERT_FRAME_DURATION(e.expert_dur));
#undef CU_TRY
  return OPUS_OK;
}

inline std::string cfg_str(const EncCfg& e) {
  char b[400];
  snprintf(b, sizeof b, "Fs=%d ch=%d app=%d bitrate=%d vbr=%d cvbr=%d cx=%d bw=%d maxbw=%d fch=%d fmode=%d fec=%d loss=%d dtx=%d lsb=%d pred_dis=%d phinv_dis=%d signal=%d",
           e.Fs, e.ch, e.app, e.bitrate, e.vbr, e.cvbr, e.complexity, e.bandwidth, e.max_bandwidth, e.force_channels, e.force_mode, e.fec, e.loss, e.dtx, e.lsb, e.pred_disabled, e.phase_inv_disabled, e.signal);
  return b;
}

// frame size in samples for duration index d (0..8) at rate Fs
inline int frame_samples(int Fs, int d) { return DUR400[d] * (Fs / 400); }

// RAII wrappers
struct Enc { OpusEncoder* p = nullptr; ~Enc() { if (p) opus_encoder_destroy(p); } };
struct Dec { OpusDecoder* p = nullptr; ~Dec() { if (p) opus_decoder_destroy(p); } };
struct MSEnc { OpusMSEncoder* p = nullptr; ~MSEnc() { if (p) opus_multistream_encoder_destroy(p); } };
struct MSDec { OpusMSDecoder* p = nullptr; ~MSDec() { if (p) opus_multistream_decoder_destroy(p); } };
struct ProjEnc { OpusProjectionEncoder* p = nullptr; ~ProjEnc() { if (p) opus_projection_encoder_destroy(p); } };
struct ProjDec { OpusProjectionDecoder* p = nullptr; ~ProjDec() { if (p) opus_projection_decoder_destroy(p); } };

}  // namespace cu
