// part of c11_ctl.cpp: getter verification against the model
#pragma once

struct Snap {
  std::vector<long long> v;
  std::vector<const char*> name;
  std::vector<char> status;      // 1: run-time status (may change in encode/decode/reset only)
  void clear() { v.clear(); name.clear(); status.clear(); }
  void add(const char* n, long long x, bool st) { name.push_back(n); v.push_back(x); status.push_back(st ? 1 : 0); }
};

struct Learned {           // values the documentation leaves open; learned on first observation, constant afterwards
  int lookahead[3] = {-1, -1, -1};
  bool phinv_was_set = false;
};

static int app_index(int app) { return app == OPUS_APPLICATION_VOIP ? 0 : app == OPUS_APPLICATION_AUDIO ? 1 : 2; }

// why: "readback" (after an accepted request), "rejected-request-changed-settings", "encode-changed-setting",
// "reset-changed-setting", "initial-default"
static int verify(Obj& o, Model& m, Learned& L, Report& rep, const char* why, Snap& snap) {
  snap.clear();
  const char* C = cls(m.kind);
  opus_int32 v;
  int r;
#define GETV(NAME, REQ) v = -777777; r = o.getp(REQ, &v); rep.count(); \
  if (r != OPUS_OK) return rep.fail(sigf("c11:getter-status:%s:GET_%s", C, NAME).c_str(), "%s after %s: GET_%s returned %d", KIND_NAME[m.kind], why, NAME, r);
#define EXPECTV(NAME, REQ, WANT) do { GETV(NAME, REQ) \
  if (v != (WANT)) return rep.fail(sigf("c11:%s:%s:GET_%s", why, C, NAME).c_str(), "%s: GET_%s reports %d, model %d (%s)", KIND_NAME[m.kind], NAME, v, (int)(WANT), why); \
  snap.add(NAME, v, false); } while (0)
#define STATUSV(NAME, REQ, COND) do { GETV(NAME, REQ) \
  if (!(COND)) return rep.fail(sigf("c11:status-range:%s:GET_%s", C, NAME).c_str(), "%s: GET_%s reports %d (%s)", KIND_NAME[m.kind], NAME, v, why); \
  snap.add(NAME, v, true); } while (0)

  if (is_enc(m.kind)) {
    bool ms = is_ms(m.kind);
    EXPECTV("APPLICATION", OPUS_GET_APPLICATION_REQUEST, m.application);
    if (!ms) {
      GETV("BITRATE", OPUS_GET_BITRATE_REQUEST)
      if (m.bitrate == OPUS_AUTO || m.bitrate == OPUS_BITRATE_MAX) {
        // documented resolution: AUTO = 60 bits per frame of overhead + Fs*channels, MAX = as many bits as a 1276-byte packet holds,
        // both at the duration of the last coded frame (2.5 ms before any frame)
        std::set<int> keep;
        for (int f : m.prev_fs) {
          int fs = f ? f : m.Fs / 400;
          long long want = m.bitrate == OPUS_AUTO ? 60ll * m.Fs / fs + (long long)m.Fs * m.channels : 1276ll * 8 * m.Fs / fs;
          if (want == v) keep.insert(f);
        }
        if (keep.empty()) return rep.fail(sigf("c11:%s:%s:GET_BITRATE", why, C).c_str(), "enc: GET_BITRATE reports %d for %s, not a documented resolution (Fs %d ch %d, %zu candidate frame sizes)", v, m.bitrate == OPUS_AUTO ? "AUTO" : "MAX", m.Fs, m.channels, m.prev_fs.size());
        m.prev_fs = keep;
      } else if (v != m.bitrate) return rep.fail(sigf("c11:%s:%s:GET_BITRATE", why, C).c_str(), "enc: GET_BITRATE reports %d, model %d (%s)", v, m.bitrate, why);
      snap.add("BITRATE", v, false);
      EXPECTV("MAX_BANDWIDTH", OPUS_GET_MAX_BANDWIDTH_REQUEST, m.max_bw);
    } else {
      GETV("BITRATE", OPUS_GET_BITRATE_REQUEST)
      if (v <= 0) return rep.fail(sigf("c11:status-range:%s:GET_BITRATE", C).c_str(), "multistream GET_BITRATE reports %d", v);
      if (m.bitrate != OPUS_AUTO && m.bitrate != OPUS_BITRATE_MAX && !m.ms_bitrate_is_status && v != m.bitrate)
        return rep.fail(sigf("c11:%s:%s:GET_BITRATE", why, C).c_str(), "%s (%d channels): GET_BITRATE reports %d after SET_BITRATE stored %d", KIND_NAME[m.kind], m.channels, v, m.bitrate);
      snap.add("BITRATE", v, false);
      if (!rep.exclude("F16")) EXPECTV("MAX_BANDWIDTH", OPUS_GET_MAX_BANDWIDTH_REQUEST, m.max_bw);
    }
    EXPECTV("VBR", OPUS_GET_VBR_REQUEST, m.vbr);
    STATUSV("BANDWIDTH", OPUS_GET_BANDWIDTH_REQUEST, in(v, OPUS_BANDWIDTH_NARROWBAND, OPUS_BANDWIDTH_FULLBAND));
    EXPECTV("COMPLEXITY", OPUS_GET_COMPLEXITY_REQUEST, m.complexity);
    EXPECTV("INBAND_FEC", OPUS_GET_INBAND_FEC_REQUEST, m.fec);
    EXPECTV("PACKET_LOSS_PERC", OPUS_GET_PACKET_LOSS_PERC_REQUEST, m.loss);
    EXPECTV("DTX", OPUS_GET_DTX_REQUEST, m.dtx);
    EXPECTV("VBR_CONSTRAINT", OPUS_GET_VBR_CONSTRAINT_REQUEST, m.cvbr);
    if (m.mapping_type == 1) {   // the surround encoder manages the channel forcing of its streams itself: range check only
      GETV("FORCE_CHANNELS", OPUS_GET_FORCE_CHANNELS_REQUEST)
      if (!(v == OPUS_AUTO || v == 1 || v == 2)) return rep.fail("c11:status-range:ms-enc:GET_FORCE_CHANNELS", "surround GET_FORCE_CHANNELS reports %d", v);
      snap.add("FORCE_CHANNELS", v, false);
    } else EXPECTV("FORCE_CHANNELS", OPUS_GET_FORCE_CHANNELS_REQUEST, m.force_ch);
    EXPECTV("SIGNAL", OPUS_GET_SIGNAL_REQUEST, m.signal);
    EXPECTV("LSB_DEPTH", OPUS_GET_LSB_DEPTH_REQUEST, m.lsb);
    EXPECTV("EXPERT_FRAME_DURATION", OPUS_GET_EXPERT_FRAME_DURATION_REQUEST, m.expert);
    EXPECTV("PREDICTION_DISABLED", OPUS_GET_PREDICTION_DISABLED_REQUEST, m.pred_dis);
    EXPECTV("PHASE_INVERSION_DISABLED", OPUS_GET_PHASE_INVERSION_DISABLED_REQUEST, m.phinv_dis);
    EXPECTV("SAMPLE_RATE", OPUS_GET_SAMPLE_RATE_REQUEST, m.Fs);
    { GETV("LOOKAHEAD", OPUS_GET_LOOKAHEAD_REQUEST)
      int& la = L.lookahead[app_index(m.application)];
      if (la < 0) { if (v < m.Fs / 400 || v > m.Fs / 50) return rep.fail(sigf("c11:status-range:%s:GET_LOOKAHEAD", C).c_str(), "lookahead %d at Fs %d", v, m.Fs); la = v; }
      if (v != la) return rep.fail(sigf("c11:%s:%s:GET_LOOKAHEAD", why, C).c_str(), "lookahead %d, was %d for the same application", v, la);
      snap.add("LOOKAHEAD", v, false); }
    { opus_uint32 fr = 0; r = o.getp(OPUS_GET_FINAL_RANGE_REQUEST, &fr); rep.count();
      if (r != OPUS_OK) return rep.fail(sigf("c11:getter-status:%s:GET_FINAL_RANGE", C).c_str(), "GET_FINAL_RANGE returned %d", r);
      snap.add("FINAL_RANGE", fr, true); }
    { v = -777777; r = o.getp(OPUS_GET_IN_DTX_REQUEST, &v); rep.count();
      if (!ms) { if (r != OPUS_OK || (v != 0 && v != 1)) return rep.fail("c11:status-range:enc:GET_IN_DTX", "GET_IN_DTX returned %d value %d", r, v); }
      else { if (!((r == OPUS_OK && (v == 0 || v == 1)) || r == OPUS_UNIMPLEMENTED)) return rep.fail("c11:status-range:ms-enc:GET_IN_DTX", "GET_IN_DTX returned %d value %d", r, v);
             if (r == OPUS_UNIMPLEMENTED) { rep.label("ms-in-dtx-unimplemented"); v = -1; } }
      snap.add("IN_DTX", v, true); }
    // every stream of a multistream encoder carries the forwarded settings
    if (ms) {
      for (int s = 0; s < m.streams; s++) {
        OpusEncoder* e = nullptr;
        r = o.state(OPUS_MULTISTREAM_GET_ENCODER_STATE_REQUEST, s, &e); rep.count();
        if (r != OPUS_OK || !e) return rep.fail("c11:stream-state-access:ms-enc", "GET_ENCODER_STATE(%d of %d) returned %d", s, m.streams, r);
        int sch = s < m.coupled ? 2 : 1;
        struct { const char* n; int req; int want; } T[] = {
          {"APPLICATION", OPUS_GET_APPLICATION_REQUEST, m.application}, {"MAX_BANDWIDTH", OPUS_GET_MAX_BANDWIDTH_REQUEST, m.max_bw},
          {"VBR", OPUS_GET_VBR_REQUEST, m.vbr}, {"COMPLEXITY", OPUS_GET_COMPLEXITY_REQUEST, m.complexity}, {"INBAND_FEC", OPUS_GET_INBAND_FEC_REQUEST, m.fec},
          {"PACKET_LOSS_PERC", OPUS_GET_PACKET_LOSS_PERC_REQUEST, m.loss}, {"DTX", OPUS_GET_DTX_REQUEST, m.dtx}, {"VBR_CONSTRAINT", OPUS_GET_VBR_CONSTRAINT_REQUEST, m.cvbr},
          {"SIGNAL", OPUS_GET_SIGNAL_REQUEST, m.signal}, {"LSB_DEPTH", OPUS_GET_LSB_DEPTH_REQUEST, m.lsb}, {"PREDICTION_DISABLED", OPUS_GET_PREDICTION_DISABLED_REQUEST, m.pred_dis},
          {"PHASE_INVERSION_DISABLED", OPUS_GET_PHASE_INVERSION_DISABLED_REQUEST, m.phinv_dis}, {"SAMPLE_RATE", OPUS_GET_SAMPLE_RATE_REQUEST, m.Fs},
          {"FORCE_CHANNELS", OPUS_GET_FORCE_CHANNELS_REQUEST, m.force_ch}};
        for (auto& t : T) {
          if (t.req == OPUS_GET_FORCE_CHANNELS_REQUEST && m.mapping_type == 1) continue;
          v = -777777; r = opus_encoder_ctl(e, t.req, &v); rep.count();
          if (r != OPUS_OK || v != t.want)
            return rep.fail(sigf("c11:%s:%s:stream-GET_%s", why, C, t.n).c_str(), "%s: stream %d of %d (%d ch): GET_%s returned %d value %d, model %d (%s)", KIND_NAME[m.kind], s, m.streams, sch, t.n, r, v, t.want, why);
        }
      }
    }
  } else {
    EXPECTV("GAIN", OPUS_GET_GAIN_REQUEST, m.gain);
    EXPECTV("PHASE_INVERSION_DISABLED", OPUS_GET_PHASE_INVERSION_DISABLED_REQUEST, m.phinv_dis);
    EXPECTV("SAMPLE_RATE", OPUS_GET_SAMPLE_RATE_REQUEST, m.Fs);
    STATUSV("BANDWIDTH", OPUS_GET_BANDWIDTH_REQUEST, v == 0 || in(v, OPUS_BANDWIDTH_NARROWBAND, OPUS_BANDWIDTH_FULLBAND));
    STATUSV("LAST_PACKET_DURATION", OPUS_GET_LAST_PACKET_DURATION_REQUEST, v >= 0 && v <= m.Fs * 120 / 1000);
    if (m.kind == K_DEC) {
      EXPECTV("COMPLEXITY", OPUS_GET_COMPLEXITY_REQUEST, m.complexity);
      STATUSV("PITCH", OPUS_GET_PITCH_REQUEST, v >= 0 && v <= 1024);   // period in 48 kHz samples, 0 = none
    }
    { opus_uint32 fr = 0; r = o.getp(OPUS_GET_FINAL_RANGE_REQUEST, &fr); rep.count();
      if (r != OPUS_OK) return rep.fail(sigf("c11:getter-status:%s:GET_FINAL_RANGE", C).c_str(), "GET_FINAL_RANGE returned %d", r);
      snap.add("FINAL_RANGE", fr, true); }
    if (is_ms(m.kind)) {
      for (int s = 0; s < m.streams; s++) {
        OpusDecoder* d = nullptr;
        r = o.state(OPUS_MULTISTREAM_GET_DECODER_STATE_REQUEST, s, &d); rep.count();
        if (r != OPUS_OK || !d) return rep.fail("c11:stream-state-access:ms-dec", "GET_DECODER_STATE(%d of %d) returned %d", s, m.streams, r);
        v = -777777; r = opus_decoder_ctl(d, OPUS_GET_GAIN(&v)); rep.count();
        if (r != OPUS_OK || v != m.gain) return rep.fail(sigf("c11:%s:%s:stream-GET_GAIN", why, C).c_str(), "stream %d: GET_GAIN returned %d value %d model %d", s, r, v, m.gain);
        v = -777777; r = opus_decoder_ctl(d, OPUS_GET_PHASE_INVERSION_DISABLED(&v)); rep.count();
        int want = L.phinv_was_set ? m.phinv_dis : -1;
        if (r != OPUS_OK || (want >= 0 ? v != want : (v != 0 && v != 1)))
          return rep.fail(sigf("c11:%s:%s:stream-GET_PHASE_INVERSION_DISABLED", why, C).c_str(), "stream %d: returned %d value %d model %d", s, r, v, want);
      }
    }
  }
#undef GETV
#undef EXPECTV
#undef STATUSV
  return 0;
}

// Compares two raw snapshots: all entries (rejected request) or only the status entries (accepted request).
static int compare_snaps(const Snap& before, const Snap& after, bool all, const Model& m, Report& rep, const char* what) {
  for (size_t i = 0; i < before.v.size() && i < after.v.size(); i++) {
    if (!all && !before.status[i]) continue;
    if (before.v[i] != after.v[i])
      return rep.fail(sigf("c11:%s:%s:GET_%s", all ? "rejected-request-changed-settings" : "request-changed-status", cls(m.kind), before.name[i]).c_str(),
                      "%s: GET_%s was %lld, is %lld after %s", KIND_NAME[m.kind], before.name[i], before.v[i], after.v[i], what);
  }
  return 0;
}
