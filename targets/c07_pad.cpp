// C07 (part 2): opus_packet_pad / opus_packet_unpad and the multistream
// variants, in place in exact-size buffers, against the RFC framing model; and
// twin decoders fed original vs padded packets from a real encoder.
#include "c07_common.hpp"
extern "C" {
#include "opus_multistream.h"
}
#include "siggen.hpp"

using namespace vp;
using namespace xm;

const TargetInfo vp_info = {"c07_pad", 16, 1500};

static int pad_amount(Choice& c) {
  static const int A[] = {0, 1, 2, 3, 4, 250, 251, 252, 253, 254, 255, 256, 257, 258, 508, 509, 510, 511, 512, 764, 765, 766, 1020, 1275, 1276, 1277};
  int k = c.irange(0, 9);
  if (k < 3) return c.irange(0, 8);
  if (k < 8) return c.pick(A);
  return c.irange(0, 3000);
}

struct Facts {
  rfc::Parsed m;
  bool ext_ok = true;
  PerFrame exts;
};
static Facts facts_of(const uint8_t* d, int len, bool sd) {
  Facts f;
  f.m = rfc::parse(d, len, sd);
  if (f.m.ok) {
    f.ext_ok = read_padding(d + f.m.padding_offset, f.m.padding_len, f.m.count, f.exts) == 0;
    if (!f.ext_ok) f.exts.assign((size_t)f.m.count, {});
  }
  return f;
}

// ---------------------------------------------------------------------------
// one standard-framing packet: pad to new_len, unpad, relations between them
static int check_single(Choice& c, Report& rep, const std::vector<uint8_t>& pkt) {
  int len = (int)pkt.size();
  Facts f = facts_of(pkt.data(), len, false);
  std::vector<uint8_t> canon;
  if (f.m.ok) pk::canonical(f.m.toc & 0xFC, pk::frames_of(pkt.data(), f.m), false, canon);
  // ---- unpad
  std::vector<uint8_t> unp;
  {
    HeapBuf<uint8_t> b((size_t)len);
    if (len) memcpy(b.p, pkt.data(), (size_t)len);
    opus_int32 r = opus_packet_unpad(b.p, len);
    rep.count();
    if (len < 1) VP_REQUIRE(r == OPUS_BAD_ARG, "c07:unpad-len0", "unpad(len 0) returned %d", r);
    else if (!f.m.ok) { VP_REQUIRE(r == OPUS_INVALID_PACKET, "c07:unpad-accepts-invalid", "unpad of an invalid packet (%d bytes, TOC 0x%02x) returned %d", len, pkt[0], r); rep.label("unpad:invalid"); }
    else {
      VP_REQUIRE(r >= 1 && r <= len, "c07:unpad-length", "unpad of a valid %d-byte packet returned %d", len, r);
      VP_REQUIRE(r == (int)canon.size() && !memcmp(b.p, canon.data(), (size_t)r), "c07:unpad-not-canonical", "unpad(%d bytes, %d frames, code %d, padding %d) gave %d bytes, canonical form has %zu%s", len, f.m.count, pkt[0] & 3, f.m.padding_len, r, canon.size(), r == (int)canon.size() ? " (bytes differ)" : "");
      unp.assign(b.p, b.p + r);
      HeapBuf<uint8_t> b2((size_t)r);
      memcpy(b2.p, b.p, (size_t)r);
      opus_int32 r2 = opus_packet_unpad(b2.p, r);
      VP_REQUIRE(r2 == r && !memcmp(b2.p, unp.data(), (size_t)r), "c07:unpad-not-idempotent", "unpad(unpad(p)) returned %d, first unpad %d", r2, r);
      rep.label(r < len ? "unpad:shrinks" : "unpad:already-canonical");
      rep.count();
    }
  }
  // ---- pad
  int amount = pad_amount(c);
  int new_len = len + amount;
  int argkind = c.irange(0, 19);      // 18: new_len < len, 19: len 0
  if (argkind == 18 && len > 0) new_len = c.irange(0, len - 1);
  int call_len = (argkind == 19) ? 0 : len;
  HeapBuf<uint8_t> b((size_t)std::max(new_len, call_len));
  memset(b.p, 0xEE, b.n);
  if (call_len) memcpy(b.p, pkt.data(), (size_t)call_len);
  int r = opus_packet_pad(b.p, call_len, new_len);
  rep.count();
  if (call_len < 1) { VP_REQUIRE(r == OPUS_BAD_ARG, "c07:pad-len0", "pad(len %d, new_len %d) returned %d", call_len, new_len, r); rep.label("pad:bad-arg"); return 0; }
  if (new_len < len) { VP_REQUIRE(r == OPUS_BAD_ARG, "c07:pad-shrinking-accepted", "pad(len %d, new_len %d) returned %d", len, new_len, r); rep.label("pad:bad-arg"); return 0; }
  if (new_len == len) { VP_REQUIRE(r == OPUS_OK && !memcmp(b.p, pkt.data(), (size_t)len), "c07:pad-same-length", "pad(len == new_len == %d) returned %d or changed the packet", len, r); rep.label("pad:same-length"); return 0; }
  if (!f.m.ok) { VP_REQUIRE(r == OPUS_INVALID_PACKET, "c07:pad-accepts-invalid", "pad of an invalid packet (%d bytes) returned %d", len, r); rep.label("pad:invalid"); return 0; }
  // known finding F20: padding that is not a well-formed extension sequence makes pad fail with OPUS_INTERNAL_ERROR
  if (!f.ext_ok) rep.label("pad:f20-class");   // fixed finding F20 (repo commit bbb9d66b)
  VP_REQUIRE(r == OPUS_OK, !f.ext_ok ? "c07:pad-fails-on-arbitrary-padding" : "c07:pad-error", "pad(%d -> %d) of a valid packet (%d frames, code %d, padding %d bytes, %zu extensions) returned %d", len, new_len, f.m.count, pkt[0] & 3, f.m.padding_len, total(f.exts), r);
  Facts g = facts_of(b.p, new_len, false);
  VP_REQUIRE(g.m.ok, "c07:pad-invalid-packet", "pad(%d -> %d): the %d bytes are not a valid packet", len, new_len, new_len);
  VP_REQUIRE((g.m.toc & 0xFC) == (f.m.toc & 0xFC), "c07:pad-toc", "pad changed the configuration bits 0x%02x -> 0x%02x", f.m.toc, g.m.toc);
  int fdif = pk::frames_differ(pkt.data(), f.m, b.p, g.m);
  VP_REQUIRE(!fdif, "c07:pad-frames-differ", "pad(%d -> %d): frames differ (%d frames before, %d after, first difference %d)", len, new_len, f.m.count, g.m.count, fdif);
  VP_REQUIRE(g.ext_ok && first_diff(f.exts, g.exts) < 0, "c07:pad-extensions-differ", "pad(%d -> %d): extensions in the padding changed (parse ok %d)", len, new_len, g.ext_ok);
  bool crosses = (f.m.padding_len < 254) != (g.m.padding_len < 254);    // padding-length field grows from one to two bytes
  if (crosses) { rep.label("pad:crosses-255"); rep.nontrivial(); }
  if (total(f.exts)) rep.label("pad:with-extensions");
  if (amount == 1) rep.label("pad:+1");
  static const char* const CODE[] = {"pad:from-code0", "pad:from-code1", "pad:from-code2", "pad:from-code3"};
  rep.label(CODE[pkt[0] & 3]);
  // unpad(pad(p)) == unpad(p)
  {
    HeapBuf<uint8_t> u((size_t)new_len);
    memcpy(u.p, b.p, (size_t)new_len);
    opus_int32 ru = opus_packet_unpad(u.p, new_len);
    VP_REQUIRE(ru == (int)unp.size() && !memcmp(u.p, unp.data(), unp.size()), "c07:unpad-of-pad-differs", "unpad(pad(p,%d)) has %d bytes, unpad(p) %zu", new_len, ru, unp.size());
    rep.count();
  }
  return 0;
}

// ---------------------------------------------------------------------------
struct Stream { std::vector<uint8_t> bytes; Facts f; };

static bool split_streams(const uint8_t* d, int len, int n, std::vector<Facts>& out, std::vector<int>& off) {
  out.clear(); off.clear();
  int pos = 0;
  for (int s = 0; s < n; s++) {
    if (len - pos < 1) return false;
    Facts f = facts_of(d + pos, len - pos, s != n - 1);
    if (!f.m.ok) return false;
    off.push_back(pos);
    pos += f.m.consumed;
    out.push_back(std::move(f));
  }
  off.push_back(pos);
  return pos == len;
}

static int check_multistream(Choice& c, Report& rep) {
  Rng rng(c.u32());
  int n = c.chance(128) ? c.irange(1, 3) : c.irange(1, 8);
  std::vector<uint8_t> all;
  bool any_mut = false;
  for (int s = 0; s < n; s++) {
    uint8_t hi = (uint8_t)((c.pick(pk::CONFIGS) << 3) | (c.boolean() ? 4 : 0));
    pk::Made mk = pk::make_packet(c, rng, hi, std::min(6, 48 / rfc::toc_info(hi).dur_400), s != n - 1, c.chance(12));
    any_mut = any_mut || mk.mutated;
    all.insert(all.end(), mk.bytes.begin(), mk.bytes.end());
  }
  int len = (int)all.size();
  std::vector<Facts> st; std::vector<int> off;
  bool valid = len >= 1 && split_streams(all.data(), len, n, st, off);
  rep.note("multistream: %d streams, %d bytes, %s", n, len, valid ? "valid" : "invalid");
  rep.fingerprint(fnv1a(all.data(), std::min<size_t>(all.size(), 24))); rep.fingerprint((uint64_t)len * 8 + (uint64_t)n);
  // expected unpadded form
  std::vector<uint8_t> canon;
  if (valid) for (int s = 0; s < n; s++) {
    std::vector<uint8_t> one;
    pk::canonical(st[(size_t)s].m.toc & 0xFC, pk::frames_of(all.data() + off[(size_t)s], st[(size_t)s].m), s != n - 1, one);
    canon.insert(canon.end(), one.begin(), one.end());
  }
  // ---- unpad
  {
    HeapBuf<uint8_t> b((size_t)len);
    if (len) memcpy(b.p, all.data(), (size_t)len);
    opus_int32 r = opus_multistream_packet_unpad(b.p, len, n);
    rep.count();
    if (len < 1) VP_REQUIRE(r == OPUS_BAD_ARG, "c07:ms-unpad-len0", "ms unpad(len 0) returned %d", r);
    else if (!valid) { VP_REQUIRE(r < 0, "c07:ms-unpad-accepts-invalid", "ms unpad of an invalid %d-stream packet (%d bytes) returned %d", n, len, r); rep.label("ms:unpad-invalid"); }
    else {
      VP_REQUIRE(r >= 1 && r <= len, "c07:ms-unpad-length", "ms unpad of %d bytes returned %d", len, r);
      VP_REQUIRE(r == (int)canon.size() && !memcmp(b.p, canon.data(), (size_t)r), "c07:ms-unpad-not-canonical", "ms unpad(%d streams, %d bytes) gave %d bytes, per-stream canonical form has %zu%s", n, len, r, canon.size(), r == (int)canon.size() ? " (bytes differ)" : "");
      HeapBuf<uint8_t> b2((size_t)r);
      memcpy(b2.p, b.p, (size_t)r);
      opus_int32 r2 = opus_multistream_packet_unpad(b2.p, r, n);
      VP_REQUIRE(r2 == r && !memcmp(b2.p, canon.data(), (size_t)r), "c07:ms-unpad-not-idempotent", "second ms unpad returned %d, first %d", r2, r);
      rep.label(r < len ? "ms:unpad-shrinks" : "ms:unpad-already-canonical");
      rep.count();
    }
  }
  // ---- pad
  int amount = pad_amount(c);
  int new_len = len + amount;
  int argkind = c.irange(0, 19);
  if (argkind == 19 && len > 0) new_len = c.irange(0, len - 1);
  HeapBuf<uint8_t> b((size_t)std::max(new_len, len));
  memset(b.p, 0xEE, b.n);
  if (len) memcpy(b.p, all.data(), (size_t)len);
  int r = opus_multistream_packet_pad(b.p, len, new_len, n);
  rep.count();
  if (len < 1) { VP_REQUIRE(r == OPUS_BAD_ARG, "c07:ms-pad-len0", "ms pad(len 0) returned %d", r); return 0; }
  if (new_len < len) { VP_REQUIRE(r == OPUS_BAD_ARG, "c07:ms-pad-shrinking-accepted", "ms pad(len %d, new_len %d) returned %d", len, new_len, r); rep.label("ms:pad-bad-arg"); return 0; }
  if (new_len == len) { VP_REQUIRE(r == OPUS_OK && !memcmp(b.p, all.data(), (size_t)len), "c07:ms-pad-same-length", "ms pad(len == new_len) returned %d or changed the packet", r); return 0; }
  if (!valid) { VP_REQUIRE(r < 0, "c07:ms-pad-accepts-invalid", "ms pad of an invalid %d-stream packet returned %d", n, r); rep.label("ms:pad-invalid"); return 0; }
  const Facts& last = st[(size_t)(n - 1)];
  if (!last.ext_ok) rep.label("pad:f20-class");   // fixed finding F20 (repo commit bbb9d66b)
  VP_REQUIRE(r == OPUS_OK, !last.ext_ok ? "c07:pad-fails-on-arbitrary-padding" : "c07:ms-pad-error", "ms pad(%d -> %d, %d streams) returned %d", len, new_len, n, r);
  std::vector<Facts> st2; std::vector<int> off2;
  VP_REQUIRE(split_streams(b.p, new_len, n, st2, off2), "c07:ms-pad-invalid-packet", "ms pad(%d -> %d, %d streams): result does not split into %d valid streams of exactly that length", len, new_len, n, n);
  for (int s = 0; s < n; s++) {
    const Facts& a = st[(size_t)s]; const Facts& g = st2[(size_t)s];
    VP_REQUIRE((a.m.toc & 0xFC) == (g.m.toc & 0xFC) && !pk::frames_differ(all.data() + off[(size_t)s], a.m, b.p + off2[(size_t)s], g.m), "c07:ms-pad-frames-differ", "ms pad: stream %d of %d changed its frames or configuration", s, n);
    // padding that is not an extension sequence carries no extensions: a re-padded stream then has well-formed, extension-free padding
    VP_REQUIRE(a.ext_ok ? (g.ext_ok && first_diff(a.exts, g.exts) < 0) : (total(g.exts) == 0), "c07:ms-pad-extensions-differ", "ms pad: stream %d of %d changed its extensions", s, n);
  }
  rep.label(n >= 2 ? "ms:pad-multi" : "ms:pad-1-stream");
  if ((last.m.padding_len < 254) != (st2[(size_t)(n - 1)].m.padding_len < 254)) { rep.label("pad:crosses-255"); rep.nontrivial(); }
  {
    HeapBuf<uint8_t> u((size_t)new_len);
    memcpy(u.p, b.p, (size_t)new_len);
    opus_int32 ru = opus_multistream_packet_unpad(u.p, new_len, n);
    VP_REQUIRE(ru == (int)canon.size() && !memcmp(u.p, canon.data(), canon.size()), "c07:ms-unpad-of-pad-differs", "ms unpad(ms pad(p)) has %d bytes, ms unpad(p) %zu", ru, canon.size());
    rep.count();
  }
  return 0;
}

// ---------------------------------------------------------------------------
// twin decoders: original vs padded (and unpadded-again) packets from a real encoder
static int check_twin(Choice& c, Report& rep) {
  static const int FS[] = {48000, 16000, 8000, 24000, 12000};
  int Fs = c.pick(FS);
  int ch = c.irange(1, 2);
  static const int APP[] = {OPUS_APPLICATION_AUDIO, OPUS_APPLICATION_VOIP, OPUS_APPLICATION_RESTRICTED_LOWDELAY};
  int err = 0;
  OpusEncoder* enc = opus_encoder_create(Fs, ch, c.pick(APP), &err);
  VP_REQUIRE(enc && err == OPUS_OK, "c07:harness-encoder-create", "encoder_create(%d,%d) failed %d", Fs, ch, err);
  static const int D400[] = {8, 4, 16, 24, 2, 1};    // 20, 10, 40, 60, 5, 2.5 ms
  int d = c.pick(D400);
  int n = Fs / 400 * d;
  int bitrate = 6000 + 2000 * c.irange(0, 100);
  opus_encoder_ctl(enc, OPUS_SET_COMPLEXITY(c.irange(0, 3)));
  opus_encoder_ctl(enc, OPUS_SET_BITRATE(bitrate));
  int cbr = c.chance(64); opus_encoder_ctl(enc, OPUS_SET_VBR(!cbr));
  int fec = c.chance(40); if (fec) { opus_encoder_ctl(enc, OPUS_SET_INBAND_FEC(1)); opus_encoder_ctl(enc, OPUS_SET_PACKET_LOSS_PERC(20)); }
  int dtx = c.chance(40); if (dtx) opus_encoder_ctl(enc, OPUS_SET_DTX(1));
  int fam = dtx && c.boolean() ? (int)sig::SILENCE : c.irange(0, sig::NFAMILIES - 1);
  int K = c.irange(2, 6);
  int merge = c.chance(96) ? c.irange(2, 3) : 1;         // merge this many consecutive packets with the repacketizer first
  int Fd = c.chance(200) ? Fs : c.pick(FS);
  int chd = c.chance(200) ? ch : 3 - ch;
  OpusDecoder* da = opus_decoder_create(Fd, chd, &err);
  OpusDecoder* db = opus_decoder_create(Fd, chd, &err);
  OpusDecoder* dc = opus_decoder_create(Fd, chd, &err);
  struct Guard { OpusEncoder* e; OpusDecoder *a, *b, *c; ~Guard() { opus_encoder_destroy(e); opus_decoder_destroy(a); opus_decoder_destroy(b); opus_decoder_destroy(c); } } guard{enc, da, db, dc};
  VP_REQUIRE(da && db && dc, "c07:harness-decoder-create", "decoder_create failed");
  rep.note("twin decoders: Fs %d ch %d, %d x %.1f ms, %d b/s%s%s%s, signal %s, merge %d, decoder %d Hz %d ch", Fs, ch, K, d * 2.5, bitrate, cbr ? " cbr" : "", fec ? " fec" : "", dtx ? " dtx" : "", sig::FAMILY_NAME[fam], merge, Fd, chd);
  rep.fingerprint(((uint64_t)Fs << 32) ^ ((uint64_t)bitrate << 8) ^ (uint64_t)(d * 16 + ch * 4 + merge)); rep.fingerprint((uint64_t)fam * 64 + (uint64_t)K);
  std::vector<std::vector<uint8_t>> pkts;
  std::vector<float> x;
  uint64_t sseed = c.byte();
  for (int i = 0; i < K; i++) {
    sig::generate(fam, sseed, Fs, ch, n, 0.6, x, i * n);
    unsigned char out[1500];
    int len = opus_encode_float(enc, x.data(), n, out, cbr ? std::min(1500, std::max(3, bitrate * d / 3200)) : 1500);
    VP_REQUIRE(len > 0, "c07:harness-encode", "encode returned %d", len);
    pkts.emplace_back(out, out + len);
  }
  // optional merge into multi-frame packets (only when the configurations match and 120 ms is respected)
  std::vector<std::vector<uint8_t>> stream;
  for (size_t i = 0; i < pkts.size();) {
    size_t j = i + 1;
    if (merge > 1) {
      OpusRepacketizer* rp = opus_repacketizer_create();
      std::vector<std::unique_ptr<HeapBuf<uint8_t>>> held;
      size_t k = i;
      long tot = 0;
      for (; k < pkts.size() && k < i + (size_t)merge; k++) {
        held.emplace_back(new HeapBuf<uint8_t>(pkts[k].size()));
        memcpy(held.back()->p, pkts[k].data(), pkts[k].size());
        if (opus_repacketizer_cat(rp, held.back()->p, (opus_int32)pkts[k].size()) != OPUS_OK) break;
        tot += (long)pkts[k].size();
      }
      if (k > i + 1) {
        HeapBuf<uint8_t> o((size_t)tot + 64);
        opus_int32 L = opus_repacketizer_out(rp, o.p, (opus_int32)o.n);
        opus_repacketizer_destroy(rp);
        VP_REQUIRE(L > 0, "c07:out-error", "merging %zu encoder packets returned %d", k - i, L);
        stream.emplace_back(o.p, o.p + L);
        rep.label("twin:merged");
        i = k;
        continue;
      }
      opus_repacketizer_destroy(rp);
    }
    stream.push_back(pkts[i]);
    i = j;
  }
  int maxn = Fd / 400 * 48;     // 120 ms
  HeapBuf<opus_int16> pa((size_t)maxn * chd), pb((size_t)maxn * chd), pc((size_t)maxn * chd);
  for (size_t i = 0; i < stream.size(); i++) {
    const std::vector<uint8_t>& p = stream[i];
    int len = (int)p.size();
    int amount = pad_amount(c);
    if (amount == 0 && c.boolean()) amount = 1;
    int new_len = len + amount;
    HeapBuf<uint8_t> q((size_t)new_len);
    memcpy(q.p, p.data(), (size_t)len);
    int r = opus_packet_pad(q.p, len, new_len);
    VP_REQUIRE(r == OPUS_OK, "c07:pad-error", "pad(%d -> %d) of encoder packet %zu (TOC 0x%02x) returned %d", len, new_len, i, p[0], r);
    HeapBuf<uint8_t> u((size_t)new_len);
    memcpy(u.p, q.p, (size_t)new_len);
    opus_int32 ul = opus_packet_unpad(u.p, new_len);
    VP_REQUIRE(ul >= 1 && ul <= len, "c07:unpad-length", "unpad(pad(p)) of a %d-byte encoder packet returned %d", len, ul);
    HeapBuf<uint8_t> a((size_t)len);
    memcpy(a.p, p.data(), (size_t)len);
    HeapBuf<uint8_t> u2((size_t)ul);
    memcpy(u2.p, u.p, (size_t)ul);
    int na = opus_decode(da, a.p, len, pa.p, maxn, 0);
    int nb = opus_decode(db, q.p, new_len, pb.p, maxn, 0);
    int nc = opus_decode(dc, u2.p, ul, pc.p, maxn, 0);
    rep.count(5);
    VP_REQUIRE(na > 0, "c07:harness-decode", "decoding encoder packet %zu returned %d", i, na);
    VP_REQUIRE(nb == na, "c07:pad-decode-differs", "packet %zu: original decodes to %d samples, padded (+%d) to %d", i, na, amount, nb);
    VP_REQUIRE(nc == na, "c07:unpad-decode-differs", "packet %zu: original decodes to %d samples, unpad(pad(p)) to %d", i, na, nc);
    opus_uint32 ra = 0, rb = 1, rc = 2;
    opus_decoder_ctl(da, OPUS_GET_FINAL_RANGE(&ra)); opus_decoder_ctl(db, OPUS_GET_FINAL_RANGE(&rb)); opus_decoder_ctl(dc, OPUS_GET_FINAL_RANGE(&rc));
    VP_REQUIRE(ra == rb, "c07:pad-decode-differs", "packet %zu (+%d bytes): final range 0x%08x vs 0x%08x", i, amount, ra, rb);
    VP_REQUIRE(ra == rc, "c07:unpad-decode-differs", "packet %zu: final range 0x%08x vs 0x%08x after unpad(pad(p))", i, ra, rc);
    VP_REQUIRE(!memcmp(pa.p, pb.p, (size_t)na * chd * sizeof(opus_int16)), "c07:pad-decode-differs", "packet %zu (+%d bytes): decoded audio differs", i, amount);
    VP_REQUIRE(!memcmp(pa.p, pc.p, (size_t)na * chd * sizeof(opus_int16)), "c07:unpad-decode-differs", "packet %zu: decoded audio differs after unpad(pad(p))", i);
    if (amount >= 255) { rep.label("pad:crosses-255"); rep.nontrivial(); }
    static const char* const MODE[] = {"twin:silk", "twin:hybrid", "twin:celt"};
    rep.label(MODE[rfc::toc_info(p[0]).mode]);
    if (len <= 2) rep.label("twin:dtx-or-tiny");
  }
  rep.label("twin:decoded");
  return 0;
}

// multistream twin: 2 streams (one coupled, one mono)
static int check_twin_ms(Choice& c, Report& rep) {
  static const unsigned char mapping[3] = {0, 1, 2};
  int Fs = c.boolean() ? 48000 : 16000;
  int err = 0;
  OpusMSEncoder* enc = opus_multistream_encoder_create(Fs, 3, 2, 1, mapping, OPUS_APPLICATION_AUDIO, &err);
  OpusMSDecoder* da = opus_multistream_decoder_create(Fs, 3, 2, 1, mapping, &err);
  OpusMSDecoder* db = opus_multistream_decoder_create(Fs, 3, 2, 1, mapping, &err);
  OpusMSDecoder* dc = opus_multistream_decoder_create(Fs, 3, 2, 1, mapping, &err);
  struct Guard { OpusMSEncoder* e; OpusMSDecoder *a, *b, *c; ~Guard() { opus_multistream_encoder_destroy(e); opus_multistream_decoder_destroy(a); opus_multistream_decoder_destroy(b); opus_multistream_decoder_destroy(c); } } guard{enc, da, db, dc};
  VP_REQUIRE(enc && da && db && dc, "c07:harness-encoder-create", "multistream create failed");
  opus_multistream_encoder_ctl(enc, OPUS_SET_COMPLEXITY(c.irange(0, 2)));
  opus_multistream_encoder_ctl(enc, OPUS_SET_BITRATE(20000 + 4000 * c.irange(0, 40)));
  int d = c.boolean() ? 8 : 4;
  int n = Fs / 400 * d;
  int fam = c.irange(1, sig::NFAMILIES - 1);
  int K = c.irange(2, 4);
  rep.note("multistream twin decoders: Fs %d, %d x %d ms, signal %s", Fs, K, d * 5 / 2, sig::FAMILY_NAME[fam]);
  rep.fingerprint(((uint64_t)Fs << 8) ^ (uint64_t)(fam * 16 + K));
  std::vector<float> x;
  HeapBuf<opus_int16> pa((size_t)n * 3), pb((size_t)n * 3), pc((size_t)n * 3);
  uint64_t sseed = c.byte();
  for (int i = 0; i < K; i++) {
    sig::generate(fam, sseed, Fs, 3, n, 0.5, x, i * n);
    unsigned char out[3000];
    int len = opus_multistream_encode_float(enc, x.data(), n, out, 3000);
    VP_REQUIRE(len > 0, "c07:harness-encode", "multistream encode returned %d", len);
    int amount = std::max(1, pad_amount(c));
    HeapBuf<uint8_t> q((size_t)len + (size_t)amount);
    memcpy(q.p, out, (size_t)len);
    int r = opus_multistream_packet_pad(q.p, len, len + amount, 2);
    VP_REQUIRE(r == OPUS_OK, "c07:ms-pad-error", "ms pad(%d -> %d) of an encoder packet returned %d", len, len + amount, r);
    HeapBuf<uint8_t> u((size_t)len + (size_t)amount);
    memcpy(u.p, q.p, u.n);
    opus_int32 ul = opus_multistream_packet_unpad(u.p, len + amount, 2);
    VP_REQUIRE(ul >= 2 && ul <= len, "c07:ms-unpad-length", "ms unpad(ms pad(p)) of a %d-byte encoder packet returned %d", len, ul);
    HeapBuf<uint8_t> a((size_t)len), u2((size_t)ul);
    memcpy(a.p, out, (size_t)len); memcpy(u2.p, u.p, (size_t)ul);
    int na = opus_multistream_decode(da, a.p, len, pa.p, n, 0);
    int nb = opus_multistream_decode(db, q.p, len + amount, pb.p, n, 0);
    int nc = opus_multistream_decode(dc, u2.p, ul, pc.p, n, 0);
    rep.count(5);
    VP_REQUIRE(na == n, "c07:harness-decode", "multistream decode returned %d", na);
    VP_REQUIRE(nb == na && nc == na, "c07:ms-pad-decode-differs", "sample counts %d / %d / %d", na, nb, nc);
    opus_uint32 ra = 0, rb = 1, rc = 2;
    opus_multistream_decoder_ctl(da, OPUS_GET_FINAL_RANGE(&ra)); opus_multistream_decoder_ctl(db, OPUS_GET_FINAL_RANGE(&rb)); opus_multistream_decoder_ctl(dc, OPUS_GET_FINAL_RANGE(&rc));
    VP_REQUIRE(ra == rb && ra == rc, "c07:ms-pad-decode-differs", "final range 0x%08x / 0x%08x / 0x%08x", ra, rb, rc);
    VP_REQUIRE(!memcmp(pa.p, pb.p, (size_t)n * 3 * 2) && !memcmp(pa.p, pc.p, (size_t)n * 3 * 2), "c07:ms-pad-decode-differs", "decoded audio differs (+%d bytes)", amount);
  }
  rep.label("twin:ms-decoded");
  return 0;
}

int vp_case(Choice& c, Report& rep) {
  static const int W[] = {9, 5, 1, 1};
  switch (c.weighted(W, 4)) {
    case 0: {
      rep.label("family:single");
      Rng rng(c.u32());
      uint8_t hi = (uint8_t)((c.pick(pk::CONFIGS) << 3) | (c.boolean() ? 4 : 0));
      pk::Made mk = pk::make_packet(c, rng, hi, 48 / rfc::toc_info(hi).dur_400, false, true);
      rep.note("single packet: %zu bytes, TOC 0x%02x, padding %s%s", mk.bytes.size(), mk.bytes.empty() ? 0 : mk.bytes[0], mk.pad_kind, mk.mutated ? ", mutated" : "");
      rep.fingerprint(fnv1a(mk.bytes.data(), std::min<size_t>(mk.bytes.size(), 16))); rep.fingerprint(mk.bytes.size());
      int r = check_single(c, rep, mk.bytes);
      rep.fingerprint((uint64_t)rep.units);
      return r;
    }
    case 1: rep.label("family:multistream"); return check_multistream(c, rep);
    case 2: rep.label("family:twin"); return check_twin(c, rep);
    default: rep.label("family:twin-ms"); return check_twin_ms(c, rep);
  }
}
