// C17: PVQ, Laplace and table-driven symbol codes are exact, prefix-free bijections.
//
// Families (first case byte):
//   0xF1 row      (E) one row of CELT_PVQ_U_DATA: every stored U(n,k) equals an independent 128-bit
//                     recurrence, is < 2^32 and obeys U(n,k)=U(n-1,k)+U(n,k-1)+U(n-1,k-1) inside the table
//   0xF2 lm       (E) pulse cache of the static mode for one LM (-1..3): index/bits structure, cache[0] is the
//                     largest j (<= MAX_PSEUDO) with V(N,get_pulses(j)) < 2^32, bits[j]+1 is monotone and within
//                     [8*log2 V, 8*log2 V + 1]; bits2pulses is monotone and agrees with pulses2bits
//   0xF3          (E) every static inverse-CDF table of silk/ and celt/: strictly decreasing, ends at zero
//   0xF4 lm,i,b   (E) Laplace model of one (fs,decay) pair of e_prob_model: value intervals tile [0,32768),
//                     decode inverts encode at all 32768 probability points (through recording stubs)
//   0xF5 pair     (E) one reachable (N,K): V vs. the independent count, 16384 stratified indices + boundaries
//                     (all indices when V <= 32768): sum|cwrsi(i)| == K, icwrs(cwrsi(i)) == i, and
//                     encode_pulses/decode_pulses through a real range coder
//   0xF6 pair,chunk (E, thorough binary) 32768 consecutive indices of (N,K) (every index when V <= 2^24, else
//                     2^22 stratified indices)
//   otherwise     random: PVQ vectors through one range-coder stream, Laplace sequences through the real coder,
//                 static ICDF tables through the real coder, and an encoder->decoder sweep in which every
//                 (table, ftb) handed to ec_dec_icdf is validated (linker --wrap).
#include "vp.hpp"
extern "C" {
#include "opus.h"
#include "opus_private.h"
#include "modes.h"
#include "rate.h"
#include "cwrs.h"
#include "laplace.h"
#include "entenc.h"
#include "entdec.h"
#include "celt.h"
#include "tables.h"
// test translation units (targets/c17_*_tu.c)
opus_uint32 c17_icwrs(int n, const int* y);
void c17_cwrsi(int n, int k, opus_uint32 i, int* y);
opus_uint32 c17_pvq_u(int n, int k);
opus_uint32 c17_pvq_v(int n, int k);
int c17_pvq_nrows(void);
long c17_pvq_row_offset(int r);
int c17_pvq_data_len(void);
const opus_uint32* c17_pvq_data(void);
void c17tu_laplace_encode(ec_enc* enc, int* value, unsigned fs, int decay);
int c17tu_laplace_decode(ec_dec* dec, unsigned fs, int decay);
extern unsigned c17_rec_enc_fl, c17_rec_enc_fh, c17_rec_enc_bits;
extern int c17_rec_enc_calls;
extern unsigned c17_dec_fm, c17_rec_dec_bits;
extern unsigned c17_rec_upd_fl, c17_rec_upd_fh, c17_rec_upd_ft;
extern int c17_rec_upd_calls, c17_rec_dec_calls;
const unsigned char* c17_e_prob_model(int lm, int intra);
int c17_e_prob_model_dims(int* nlm, int* nintra, int* nbytes);
const unsigned char* c17_small_energy_icdf(int* n);
int __real_ec_dec_icdf(ec_dec* d, const unsigned char* icdf, unsigned ftb);
int __wrap_ec_dec_icdf(ec_dec* d, const unsigned char* icdf, unsigned ftb);
}
#include "common.hpp"
#include "siggen.hpp"
#include <map>
#include <set>
#include <algorithm>

using namespace vp;

#ifdef C17_FULL_ENUM
const TargetInfo vp_info = {"c17_codes_full", 4, 400};
#else
const TargetInfo vp_info = {"c17_codes", 4, 400};
#endif

typedef unsigned __int128 u128;
static const int UN = 180, UK = 180;
static u128 g_U[UN][UK];                       // independent U(N,K), saturated at 2^100
static const u128 SAT = (u128)1 << 100;
static u128 indepV(int n, int k) { u128 v = g_U[n][k] + g_U[n][k + 1]; return v > SAT ? SAT : v; }

struct Pair { int N, K, j; uint64_t V; };
static std::vector<Pair> g_pairs;
static std::vector<uint64_t> g_chunk_prefix;    // full enumeration: first unit of each pair
static const CELTMode* g_mode = nullptr;
static const int CHUNK = 32768;
static const int LIGHT = 16384;
static const uint64_t ALL_LIMIT = 1ull << 24;
static const int NSTRAT_CHUNKS = 128;           // 2^22 stratified indices when V > 2^24

static uint64_t pair_chunks(const Pair& p) { return p.V <= ALL_LIMIT ? (p.V + CHUNK - 1) / CHUNK : NSTRAT_CHUNKS; }

extern "C" void vp_init() {
  for (int n = 0; n < UN; n++) for (int k = 0; k < UK; k++) {
    u128 v;
    if (n == 0) v = (k == 0);
    else if (k == 0) v = 0;
    else v = g_U[n - 1][k] + g_U[n][k - 1] + g_U[n - 1][k - 1];
    g_U[n][k] = v > SAT ? SAT : v;
  }
  int err = 0;
  g_mode = opus_custom_mode_create(48000, 960, &err);
  if (!g_mode) { fprintf(stderr, "c17: no static mode\n"); abort(); }
  // reachable (N,K): every band size at every LM and split level x K = get_pulses(j), j <= cache[0]
  std::set<int> Ns;
  std::map<int, int> J;
  for (int i = 0; i <= g_mode->maxLM + 1; i++) for (int b = 0; b < g_mode->nbEBands; b++) {
    int N = ((g_mode->eBands[b + 1] - g_mode->eBands[b]) << i) >> 1;
    int idx = g_mode->cache.index[i * g_mode->nbEBands + b];
    if (N < 2 || idx < 0 || idx >= g_mode->cache.size) continue;
    Ns.insert(N);
    int j = g_mode->cache.bits[idx];
    if (j > MAX_PSEUDO) j = MAX_PSEUDO;          // a corrupt entry is reported by the cache unit, not here
    if (!J.count(N) || J[N] < j) J[N] = j;
  }
  for (int N : Ns) for (int j = 1; j <= J[N]; j++) {
    int K = get_pulses(j);
    if (N >= UN - 1 || K >= UK - 2) continue;
    u128 V = indepV(N, K);
    Pair p; p.N = N; p.K = K; p.j = j; p.V = V >= ((u128)1 << 32) ? 0 : (uint64_t)V;   // V==0 marks "does not fit" (reported by the pair unit)
    g_pairs.push_back(p);
  }
  uint64_t acc = 0;
  for (auto& p : g_pairs) { g_chunk_prefix.push_back(acc); acc += p.V ? pair_chunks(p) : 1; }
  g_chunk_prefix.push_back(acc);
}

// ---------------------------------------------------------------- enumeration
static const int NROWS_MAX = 15, NLM = 5, NLAP = 4 * 2 * 21;
extern "C" uint64_t vp_enum_count() {
#ifdef C17_FULL_ENUM
  return g_chunk_prefix.back();
#else
  return NROWS_MAX + NLM + 1 + NLAP + g_pairs.size();
#endif
}
extern "C" void vp_enum_case(uint64_t idx, std::vector<uint8_t>& out) {
  out.clear();
#ifdef C17_FULL_ENUM
  size_t p = std::upper_bound(g_chunk_prefix.begin(), g_chunk_prefix.end(), idx) - g_chunk_prefix.begin() - 1;
  uint64_t ch = idx - g_chunk_prefix[p];
  out.push_back(0xF6); out.push_back((uint8_t)(p >> 8)); out.push_back((uint8_t)p);
  out.push_back((uint8_t)(ch >> 8)); out.push_back((uint8_t)ch);
#else
  if (idx < NROWS_MAX) { out.push_back(0xF1); out.push_back((uint8_t)idx); return; }
  idx -= NROWS_MAX;
  if (idx < NLM) { out.push_back(0xF2); out.push_back((uint8_t)idx); return; }
  idx -= NLM;
  if (idx < 1) { out.push_back(0xF3); return; }
  idx -= 1;
  if (idx < NLAP) { out.push_back(0xF4); out.push_back((uint8_t)(idx / 42)); out.push_back((uint8_t)((idx / 21) % 2)); out.push_back((uint8_t)(idx % 21)); return; }
  idx -= NLAP;
  out.push_back(0xF5); out.push_back((uint8_t)(idx >> 8)); out.push_back((uint8_t)idx);
#endif
}

// ---------------------------------------------------------------- (E) PVQ table rows
struct RowExtent { int kmin, kmax; };   // stored columns of row n
static bool row_extent(int n, RowExtent& e) {
  int nrows = c17_pvq_nrows(), len = c17_pvq_data_len();
  if (n < 0 || n >= nrows) return false;
  long start = c17_pvq_row_offset(n) + n;
  long end = n + 1 < nrows ? c17_pvq_row_offset(n + 1) + n + 1 : len;
  if (start < 0 || end > len || end <= start) return false;
  e.kmin = n; e.kmax = n + (int)(end - start) - 1;
  return true;
}
static bool stored(int a, int b) { int n = std::min(a, b), k = std::max(a, b); RowExtent e; return row_extent(n, e) && k >= e.kmin && k <= e.kmax; }

static int unit_row(int n, Report& rep) {
  rep.label("pvq-table-row");
  RowExtent e;
  VP_REQUIRE(c17_pvq_nrows() == NROWS_MAX, "c17:pvq-table-layout", "CELT_PVQ_U_ROW has %d rows, harness expects %d", c17_pvq_nrows(), NROWS_MAX);
  VP_REQUIRE(row_extent(n, e), "c17:pvq-table-layout", "row %d has no valid extent inside CELT_PVQ_U_DATA", n);
  rep.note("CELT_PVQ_U row n=%d, stored k=%d..%d", n, e.kmin, e.kmax);
  for (int k = e.kmin; k <= e.kmax; k++) {
    uint32_t t = c17_pvq_u(n, k);
    rep.count();
    VP_REQUIRE(n < UN && k < UK ? true : false, "c17:pvq-table-layout", "entry (%d,%d) outside the reference recurrence", n, k);
    u128 w = g_U[n][k];
    VP_REQUIRE(w < ((u128)1 << 32), "c17:pvq-u-overflow", "U(%d,%d) does not fit in 32 bits but is stored as %u", n, k, t);
    VP_REQUIRE((u128)t == w, "c17:pvq-u-table-word", "CELT_PVQ_U_DATA: U(%d,%d) stored %u, recurrence gives %llu", n, k, t, (unsigned long long)w);
    if (n >= 1 && k >= 1 && stored(n - 1, k) && stored(n, k - 1) && stored(n - 1, k - 1)) {
      uint64_t s = (uint64_t)c17_pvq_u(n - 1, k) + c17_pvq_u(n, k - 1) + c17_pvq_u(n - 1, k - 1);
      VP_REQUIRE(s == t, "c17:pvq-u-recurrence", "U(%d,%d)=%u but U(n-1,k)+U(n,k-1)+U(n-1,k-1)=%llu", n, k, t, (unsigned long long)s);
    }
  }
  rep.nontrivial(n >= 2);
  rep.fingerprint(0xF100 + n);
  return 0;
}

// ---------------------------------------------------------------- (E) PVQ index <-> vector
static int check_index(const Pair& p, uint32_t i, int* y, int* y2, bool coder, Report& rep) {
  const int N = p.N, K = p.K;
  c17_cwrsi(N, K, i, y);
  long s = 0;
  for (int j = 0; j < N; j++) s += std::abs(y[j]);
  VP_REQUIRE(s == K, "c17:pvq-pulse-count", "cwrsi(N=%d,K=%d,i=%u) has %ld pulses", N, K, i, s);
  uint32_t back = c17_icwrs(N, y);
  VP_REQUIRE(back == i, "c17:pvq-index-roundtrip", "icwrs(cwrsi(N=%d,K=%d,i=%u)) = %u (V=%llu)", N, K, i, back, (unsigned long long)p.V);
  rep.count(2);
  if (coder) {
    HeapBuf<uint8_t> buf(8);
    ec_enc enc; ec_enc_init(&enc, buf.p, 8);
    encode_pulses(y, N, K, &enc);
    ec_enc_done(&enc);
    VP_REQUIRE(!ec_get_error(&enc), "c17:pvq-coder-error", "encode_pulses(N=%d,K=%d) overflowed 8 bytes", N, K);
    ec_dec dec; ec_dec_init(&dec, buf.p, 8);
    (void)decode_pulses(y2, N, K, &dec);
    for (int j = 0; j < N; j++) VP_REQUIRE(y2[j] == y[j], "c17:pvq-coder-roundtrip", "N=%d K=%d i=%u: decode_pulses gives y[%d]=%d, encoded %d", N, K, i, j, y2[j], y[j]);
    VP_REQUIRE(!ec_get_error(&dec), "c17:pvq-coder-error", "decode_pulses(N=%d,K=%d) set the decoder error flag", N, K);
    rep.count(2);
  }
  return 0;
}

static int check_pair_header(const Pair& p, Report& rep) {
  u128 V = indepV(p.N, p.K);
  VP_REQUIRE(V < ((u128)1 << 32), "c17:pvq-v-overflow", "reachable (N=%d,K=%d) (cache j=%d): V does not fit in 32 bits", p.N, p.K, p.j);
  // the table words the V macro touches must lie inside their rows
  VP_REQUIRE(stored(p.N, p.K) && stored(p.N, p.K + 1), "c17:pvq-table-access-outside-row", "V(%d,%d) reads U entries that are not stored", p.N, p.K);
  uint32_t tv = c17_pvq_v(p.N, p.K);
  VP_REQUIRE((u128)tv == V, "c17:pvq-v-count", "CELT_PVQ_V(%d,%d)=%u, independent count %llu", p.N, p.K, tv, (unsigned long long)V);
  // V obeys its recurrence (independent values; no 32-bit wrap in the table arithmetic)
  if (p.N >= 1 && p.K >= 1) {
    u128 r = indepV(p.N - 1, p.K) + indepV(p.N, p.K - 1) + indepV(p.N - 1, p.K - 1);
    VP_REQUIRE(r == V, "c17:pvq-v-recurrence", "V(%d,%d) recurrence mismatch in the reference itself", p.N, p.K);
  }
  return 0;
}

static int unit_pair_light(size_t pi, Report& rep, uint32_t salt) {
  const Pair& p = g_pairs[pi];
  rep.label("pvq-pair");
  if (check_pair_header(p, rep)) return 1;
  HeapBuf<int> y(p.N), y2(p.N);
  const uint64_t V = p.V;
  uint64_t nchecked = 0;
  if (V <= 2 * (uint64_t)LIGHT) {
    for (uint64_t i = 0; i < V; i++, nchecked++) if (check_index(p, (uint32_t)i, y.p, y2.p, (i & 15) == 0, rep)) return 1;
    rep.label("pvq-pair:all-indices");
  } else {
    uint64_t off = salt % (V / LIGHT);
    for (uint64_t t = 0; t < (uint64_t)LIGHT; t++, nchecked++) {
      uint64_t i = (t * V) / LIGHT + off;
      if (i >= V) i = V - 1;
      if (check_index(p, (uint32_t)i, y.p, y2.p, (t & 15) == 0, rep)) return 1;
    }
    // boundaries: ends of the index space and the first-level split points of the enumeration
    std::vector<uint64_t> b = {0, 1, 2, V - 3, V - 2, V - 1};
    for (int k = 0; k <= p.K + 1; k++) {
      __int128 u = (__int128)g_U[p.N][k], neg = (__int128)g_U[p.N][p.K + 1];
      for (int d = -1; d <= 1; d++) { __int128 a = u + d, c = u + neg + d; if (a >= 0 && a < (__int128)V) b.push_back((uint64_t)a); if (c >= 0 && c < (__int128)V) b.push_back((uint64_t)c); }
    }
    for (uint64_t i : b) { nchecked++; if (check_index(p, (uint32_t)i, y.p, y2.p, true, rep)) return 1; }
    rep.label("pvq-pair:stratified");
  }
  rep.note("PVQ pair N=%d K=%d (cache j=%d) V=%llu: %llu indices checked", p.N, p.K, p.j, (unsigned long long)V, (unsigned long long)nchecked);
  rep.nontrivial(p.N > 2 && p.K >= 2);
  rep.fingerprint(0xF50000 + pi); rep.fingerprint(salt % 65536);
  return 0;
}

static int unit_pair_chunk(size_t pi, uint64_t ch, Report& rep) {
  const Pair& p = g_pairs[pi];
  rep.label("pvq-chunk");
  if (check_pair_header(p, rep)) return 1;
  HeapBuf<int> y(p.N), y2(p.N);
  const uint64_t V = p.V;
  ch %= pair_chunks(p);
  uint64_t n = 0;
  if (V <= ALL_LIMIT) {
    uint64_t lo = ch * CHUNK, hi = std::min<uint64_t>(V, lo + CHUNK);
    for (uint64_t i = lo; i < hi; i++, n++) if (check_index(p, (uint32_t)i, y.p, y2.p, (i & 63) == 0, rep)) return 1;
    rep.label("pvq-chunk:consecutive");
  } else {
    for (uint64_t t = ch * CHUNK; t < (ch + 1) * CHUNK; t++, n++) {
      uint64_t i = (t * V) >> 22;
      if (check_index(p, (uint32_t)i, y.p, y2.p, (t & 63) == 0, rep)) return 1;
    }
    if (ch == 0) { if (check_index(p, (uint32_t)(V - 1), y.p, y2.p, true, rep)) return 1; }
    rep.label("pvq-chunk:stratified");
  }
  rep.note("PVQ N=%d K=%d V=%llu chunk %llu: %llu indices", p.N, p.K, (unsigned long long)V, (unsigned long long)ch, (unsigned long long)n);
  rep.nontrivial(p.N > 2 && p.K >= 2);
  rep.fingerprint(0xF60000 + pi); rep.fingerprint(ch);
  return 0;
}

// ---------------------------------------------------------------- (E) pulse cache
static int unit_cache(int i, Report& rep) {
  const CELTMode* m = g_mode;
  rep.label("pulse-cache");
  rep.note("pulse cache of the static mode, LM=%d (index row %d)", i - 1, i);
  VP_REQUIRE(m->maxLM + 2 == NLM && m->nbEBands == 21, "c17:mode-layout", "static mode has maxLM=%d nbEBands=%d", m->maxLM, m->nbEBands);
  for (int b = 0; b < m->nbEBands; b++) {
    int N = ((m->eBands[b + 1] - m->eBands[b]) << i) >> 1;
    int idx = m->cache.index[i * m->nbEBands + b];
    if (N == 0) { VP_REQUIRE(idx == -1, "c17:cache-index", "LM=%d band %d has N=0 but cache index %d", i - 1, b, idx); continue; }
    VP_REQUIRE(idx >= 0 && idx < m->cache.size, "c17:cache-index", "LM=%d band %d (N=%d): cache index %d outside [0,%d)", i - 1, b, N, idx, m->cache.size);
    const unsigned char* c = m->cache.bits + idx;
    int J = c[0];
    VP_REQUIRE(J >= 1 && J <= MAX_PSEUDO && idx + J < m->cache.size, "c17:cache-entry-size", "LM=%d band %d (N=%d): cache[0]=%d", i - 1, b, N, J);
    // cache[0] is the largest j <= MAX_PSEUDO whose codebook size fits in 32 bits
    int Jref = 0;
    while (Jref < MAX_PSEUDO && (N == 1 || indepV(N, get_pulses(Jref + 1)) < ((u128)1 << 32))) Jref++;
    VP_REQUIRE(J == Jref, "c17:cache-max-pulses", "N=%d: cache[0]=%d but the largest j with V(N,get_pulses(j))<2^32 is %d", N, J, Jref);
    int prev = 0;
    for (int j = 1; j <= J; j++) {
      int K = get_pulses(j);
      int bits = c[j] + 1;
      long double V = N == 1 ? 2.0L : (long double)indepV(N, K);
      long double ref = 8.0L * log2l(V);
      rep.count();
      VP_REQUIRE(bits >= prev, "c17:cache-not-monotone", "N=%d: bits[%d]+1=%d < bits[%d]+1=%d", N, j, bits, j - 1, prev);
      // window calibrated in calib/C17.json: log2_frac(V,3) over-estimates by at most one unit plus 2.8e-5 (observed), 1.001 allowed
      VP_REQUIRE((long double)bits >= ref - 1e-6L && (long double)bits <= ref + 1.001L, "c17:cache-bits-vs-log2V",
                 "N=%d K=%d: cache says %d/8 bits, 8*log2(V)=%.6Lf (allowed [ref, ref+1.001])", N, K, bits, ref);
      prev = bits;
    }
    // bits2pulses / pulses2bits on this band
    int LM = i - 1;
    int prevq = 0;
    for (int bb = 0; bb <= c[J] + 1 + 24; bb++) {
      int q = bits2pulses(m, b, LM, bb);
      rep.count();
      VP_REQUIRE(q >= 0 && q <= J, "c17:bits2pulses-range", "N=%d bits=%d -> pseudo-pulse index %d outside [0,%d]", N, bb, q, J);
      VP_REQUIRE(q >= prevq, "c17:bits2pulses-not-monotone", "N=%d: bits2pulses(%d)=%d < bits2pulses(%d)=%d", N, bb, q, bb - 1, prevq);
      VP_REQUIRE(pulses2bits(m, b, LM, q) == (q ? c[q] + 1 : 0), "c17:pulses2bits", "N=%d q=%d", N, q);
      prevq = q;
    }
  }
  rep.nontrivial();
  rep.fingerprint(0xF200 + i);
  return 0;
}

// ---------------------------------------------------------------- (E) static ICDF tables
enum TKind { T_ROWS, T_SHELL, T_SIGN };
struct TableSpec { const char* name; const uint8_t* p; int rows, cols, ftb; TKind kind; };
static std::vector<TableSpec> g_tables;
#define TAB2(t, ftb) g_tables.push_back({#t, &t[0][0], (int)(sizeof(t) / sizeof(t[0])), (int)sizeof(t[0]), ftb, T_ROWS})
#define TAB1(t, ftb) g_tables.push_back({#t, &t[0], 1, (int)sizeof(t), ftb, T_ROWS})
static void build_tables() {
  if (!g_tables.empty()) return;
  TAB2(silk_gain_iCDF, 8); TAB1(silk_delta_gain_iCDF, 8);
  TAB1(silk_pitch_lag_iCDF, 8); TAB1(silk_pitch_delta_iCDF, 8); TAB1(silk_pitch_contour_iCDF, 8); TAB1(silk_pitch_contour_NB_iCDF, 8);
  TAB1(silk_pitch_contour_10_ms_iCDF, 8); TAB1(silk_pitch_contour_10_ms_NB_iCDF, 8);
  TAB2(silk_pulses_per_block_iCDF, 8); TAB2(silk_rate_levels_iCDF, 8);
  TAB1(silk_lsb_iCDF, 8);
  TAB1(silk_uniform3_iCDF, 8); TAB1(silk_uniform4_iCDF, 8); TAB1(silk_uniform5_iCDF, 8); TAB1(silk_uniform6_iCDF, 8); TAB1(silk_uniform8_iCDF, 8);
  TAB1(silk_NLSF_EXT_iCDF, 8); TAB1(silk_LTP_per_index_iCDF, 8); TAB1(silk_LTPscale_iCDF, 8);
  TAB1(silk_type_offset_VAD_iCDF, 8); TAB1(silk_type_offset_no_VAD_iCDF, 8);
  TAB1(silk_stereo_pred_joint_iCDF, 8); TAB1(silk_stereo_only_code_mid_iCDF, 8); TAB1(silk_NLSF_interpolation_factor_iCDF, 8);
  static const char* const LTPN[3] = {"silk_LTP_gain_iCDF_ptrs[0]", "silk_LTP_gain_iCDF_ptrs[1]", "silk_LTP_gain_iCDF_ptrs[2]"};
  for (int k = 0; k < NB_LTP_CBKS; k++) g_tables.push_back({LTPN[k], silk_LTP_gain_iCDF_ptrs[k], 1, silk_LTP_vq_sizes[k], 8, T_ROWS});
  g_tables.push_back({"silk_LBRR_flags_iCDF_ptr[0]", silk_LBRR_flags_iCDF_ptr[0], 1, 3, 8, T_ROWS});   // 2 frames: symbols 1..3
  g_tables.push_back({"silk_LBRR_flags_iCDF_ptr[1]", silk_LBRR_flags_iCDF_ptr[1], 1, 7, 8, T_ROWS});   // 3 frames: symbols 1..7
  const int EC = 2 * NLSF_QUANT_MAX_AMPLITUDE + 1;
  g_tables.push_back({"silk_NLSF_CB_WB.CB1_iCDF", silk_NLSF_CB_WB.CB1_iCDF, 2, silk_NLSF_CB_WB.nVectors, 8, T_ROWS});
  g_tables.push_back({"silk_NLSF_CB_WB.ec_iCDF", silk_NLSF_CB_WB.ec_iCDF, 8, EC, 8, T_ROWS});            // 3-bit selector x 9 symbols
  g_tables.push_back({"silk_NLSF_CB_NB_MB.CB1_iCDF", silk_NLSF_CB_NB_MB.CB1_iCDF, 2, silk_NLSF_CB_NB_MB.nVectors, 8, T_ROWS});
  g_tables.push_back({"silk_NLSF_CB_NB_MB.ec_iCDF", silk_NLSF_CB_NB_MB.ec_iCDF, 8, EC, 8, T_ROWS});
  g_tables.push_back({"silk_shell_code_table0", silk_shell_code_table0, 1, (int)sizeof(silk_shell_code_table0), 8, T_SHELL});
  g_tables.push_back({"silk_shell_code_table1", silk_shell_code_table1, 1, (int)sizeof(silk_shell_code_table1), 8, T_SHELL});
  g_tables.push_back({"silk_shell_code_table2", silk_shell_code_table2, 1, (int)sizeof(silk_shell_code_table2), 8, T_SHELL});
  g_tables.push_back({"silk_shell_code_table3", silk_shell_code_table3, 1, (int)sizeof(silk_shell_code_table3), 8, T_SHELL});
  g_tables.push_back({"silk_sign_iCDF", silk_sign_iCDF, 1, (int)sizeof(silk_sign_iCDF), 8, T_SIGN});
  TAB1(trim_icdf, 7); TAB1(spread_icdf, 5); TAB1(tapset_icdf, 2);
  int n = 0; const unsigned char* se = c17_small_energy_icdf(&n);
  g_tables.push_back({"small_energy_icdf", se, 1, n, 2, T_ROWS});
}

static int check_icdf_run(const char* name, int row, const uint8_t* t, int n, int ftb, Report& rep) {
  VP_REQUIRE(n >= 1, "c17:icdf-empty", "%s row %d is empty", name, row);
  VP_REQUIRE(t[0] < (1u << ftb), "c17:icdf-first-entry", "%s row %d: first entry %u leaves no probability for symbol 0 at %d bits", name, row, t[0], ftb);
  for (int k = 1; k < n; k++) VP_REQUIRE(t[k] < t[k - 1], "c17:icdf-not-strictly-decreasing", "%s row %d: entry %d = %u after %u", name, row, k, t[k], t[k - 1]);
  VP_REQUIRE(t[n - 1] == 0, "c17:icdf-not-terminated", "%s row %d ends with %u, not 0", name, row, t[n - 1]);
  rep.count(n);
  return 0;
}

static int unit_tables(Report& rep) {
  build_tables();
  rep.label("icdf-tables");
  int ntab = 0, nruns = 0;
  for (auto& t : g_tables) {
    ntab++;
    if (t.kind == T_ROWS) {
      for (int r = 0; r < t.rows; r++) { nruns++; if (check_icdf_run(t.name, r, t.p + (size_t)r * t.cols, t.cols, t.ftb, rep)) return 1; }
    } else if (t.kind == T_SHELL) {
      // concatenated tables: split at zeros; the table for p pulses starts at offsets[p] and has p+1 symbols
      VP_REQUIRE(t.p[t.cols - 1] == 0, "c17:icdf-not-terminated", "%s ends with %u", t.name, t.p[t.cols - 1]);
      int start = 0, run = 0;
      for (int k = 0; k < t.cols; k++) if (t.p[k] == 0) { nruns++; if (check_icdf_run(t.name, run++, t.p + start, k - start + 1, t.ftb, rep)) return 1; start = k + 1; }
      for (int p = 1; p <= SILK_MAX_PULSES; p++) {     // a pair with 0 pulses is never split, offsets[0] is unused
        int off = silk_shell_code_table_offsets[p];
        VP_REQUIRE(off + p < t.cols, "c17:shell-offsets", "%s: offsets[%d]=%d leaves no room for %d symbols", t.name, p, off, p + 1);
        if (check_icdf_run(t.name, 100 + p, t.p + off, p + 1, t.ftb, rep)) return 1;
      }
    } else {
      // each entry is used as the two-symbol table {p, 0}
      for (int k = 0; k < t.cols; k++) { uint8_t two[2] = {t.p[k], 0}; nruns++; if (check_icdf_run(t.name, k, two, 2, t.ftb, rep)) return 1; VP_REQUIRE(two[0] > 0, "c17:icdf-not-strictly-decreasing", "%s[%d]=0", t.name, k); }
    }
  }
  rep.note("%d static ICDF table objects, %d tables/rows checked", ntab, nruns);
  rep.nontrivial();
  rep.fingerprint(0xF300);
  return 0;
}

// ---------------------------------------------------------------- (E) Laplace tiling
struct Iv { unsigned fl, fh; };
static int laplace_encode_rec(int v, unsigned fs, int decay, int& vout, Iv& iv, Report& rep) {
  static ec_enc dummy;
  int calls = c17_rec_enc_calls;
  vout = v;
  c17tu_laplace_encode(&dummy, &vout, fs, decay);
  VP_REQUIRE(c17_rec_enc_calls == calls + 1 && c17_rec_enc_bits == 15, "c17:laplace-encode-call", "ec_laplace_encode(%d) made %d ec_encode_bin calls with %u bits", v, c17_rec_enc_calls - calls, c17_rec_enc_bits);
  iv.fl = c17_rec_enc_fl; iv.fh = c17_rec_enc_fh;
  VP_REQUIRE(iv.fl < iv.fh && iv.fh <= 32768, "c17:laplace-empty-interval", "fs=%u decay=%d value %d: interval [%u,%u)", fs, decay, v, iv.fl, iv.fh);
  rep.count();
  return 0;
}

static int unit_laplace(int lm, int intra, int band, Report& rep) {
  int nlm, nintra, nbytes;
  c17_e_prob_model_dims(&nlm, &nintra, &nbytes);
  VP_REQUIRE(nlm == 4 && nintra == 2 && nbytes == 42, "c17:prob-model-layout", "e_prob_model is [%d][%d][%d]", nlm, nintra, nbytes);
  const unsigned char* pm = c17_e_prob_model(lm, intra);
  unsigned fs = (unsigned)pm[2 * band] << 7;
  int decay = pm[2 * band + 1] << 6;
  rep.label("laplace-pair");
  std::map<int, Iv> iv;           // representable value -> interval
  int vmax[2] = {0, 0};
  for (int sgn = 0; sgn < 2; sgn++) {
    int clamped_seen = 0;
    for (int a = (sgn ? 1 : 0); a <= 40000; a++) {
      int v = sgn ? -a : a, vo; Iv x;
      if (laplace_encode_rec(v, fs, decay, vo, x, rep)) return 1;
      if (vo == v) {
        VP_REQUIRE(!clamped_seen, "c17:laplace-clamp", "fs=%u decay=%d: value %d representable after a smaller magnitude was clamped", fs, decay, v);
        iv[v] = x; vmax[sgn] = a;
      } else {
        // documented clamping: the encoder rewrites the value; it must be a representable one with that very interval
        VP_REQUIRE(iv.count(vo) && iv[vo].fl == x.fl && iv[vo].fh == x.fh, "c17:laplace-clamp", "fs=%u decay=%d: %d clamped to %d with interval [%u,%u)", fs, decay, v, vo, x.fl, x.fh);
        if (++clamped_seen >= 6) break;
      }
    }
    VP_REQUIRE(clamped_seen, "c17:laplace-clamp", "fs=%u decay=%d: no clamping up to |v|=40000", fs, decay);
    for (int big : {1000, 32767, 1000000}) {
      int v = sgn ? -big : big, vo; Iv x;
      if (big <= vmax[sgn]) continue;
      if (laplace_encode_rec(v, fs, decay, vo, x, rep)) return 1;
      VP_REQUIRE(iv.count(vo) && iv[vo].fl == x.fl && iv[vo].fh == x.fh, "c17:laplace-clamp", "fs=%u decay=%d: %d clamped to %d with interval [%u,%u)", fs, decay, v, vo, x.fl, x.fh);
    }
  }
  // the intervals tile [0,32768): no gap, no overlap
  std::vector<std::pair<unsigned, int>> order;
  for (auto& kv : iv) order.push_back({kv.second.fl, kv.first});
  std::sort(order.begin(), order.end());
  unsigned at = 0;
  for (auto& o : order) {
    const Iv& x = iv[o.second];
    VP_REQUIRE(x.fl == at, x.fl > at ? "c17:laplace-gap" : "c17:laplace-overlap", "fs=%u decay=%d: value %d starts at %u, previous interval ended at %u", fs, decay, o.second, x.fl, at);
    at = x.fh;
  }
  VP_REQUIRE(at == 32768, "c17:laplace-gap", "fs=%u decay=%d: intervals end at %u, not 32768", fs, decay, at);
  // decode inverts encode at every probability point
  static ec_dec ddummy;
  for (unsigned fm = 0; fm < 32768; fm++) {
    c17_dec_fm = fm;
    int uc = c17_rec_upd_calls;
    int val = c17tu_laplace_decode(&ddummy, fs, decay);
    rep.count();
    VP_REQUIRE(c17_rec_upd_calls == uc + 1 && c17_rec_upd_ft == 32768 && c17_rec_dec_bits == 15, "c17:laplace-decode-call", "decode at fm=%u: %d updates, ft=%u", fm, c17_rec_upd_calls - uc, c17_rec_upd_ft);
    auto it = iv.find(val);
    VP_REQUIRE(it != iv.end(), "c17:laplace-decode-unrepresentable", "fs=%u decay=%d fm=%u decodes to %d, which the encoder cannot produce", fs, decay, fm, val);
    VP_REQUIRE(it->second.fl <= fm && fm < it->second.fh, "c17:laplace-decode-differs", "fs=%u decay=%d fm=%u decodes to %d whose encoder interval is [%u,%u)", fs, decay, fm, val, it->second.fl, it->second.fh);
    VP_REQUIRE(c17_rec_upd_fl == it->second.fl && c17_rec_upd_fh == it->second.fh, "c17:laplace-decoder-interval", "fs=%u decay=%d fm=%u value %d: decoder updates with [%u,%u), encoder used [%u,%u)", fs, decay, fm, val,
               c17_rec_upd_fl, c17_rec_upd_fh, it->second.fl, it->second.fh);
  }
  rep.note("Laplace model LM=%d intra=%d band=%d: fs=%u decay=%d, representable values %d..%d (%zu intervals), 32768 points decoded", lm, intra, band, fs, decay, -vmax[1], vmax[0], iv.size());
  rep.nontrivial();
  rep.fingerprint(0xF40000 + lm * 1000 + intra * 100 + band);
  return 0;
}

// ---------------------------------------------------------------- random: PVQ stream
static int random_pvq(Choice& c, Report& rep) {
  rep.label("random:pvq-stream");
  int nvec = 1 + c.byte() % 24;
  Rng rng(c.u32());
  struct Vec { size_t pi; std::vector<int> y; };
  std::vector<Vec> vs;
  HeapBuf<uint8_t> buf((size_t)nvec * 5 + 8);
  ec_enc enc; ec_enc_init(&enc, buf.p, (opus_uint32)buf.n);
  uint64_t fp = 0;
  bool nt = false;
  for (int v = 0; v < nvec; v++) {
    Vec x; x.pi = (size_t)(c.irange(0, 65535)) % g_pairs.size();
    const Pair& p = g_pairs[x.pi];
    x.y.assign(p.N, 0);
    int how = c.byte() % 4;
    if (how == 0) {
      // from a uniformly drawn index
      uint32_t i = (uint32_t)(((uint64_t)rng.u32() * p.V) >> 32);
      HeapBuf<int> y(p.N);
      c17_cwrsi(p.N, p.K, i, y.p);
      for (int j = 0; j < p.N; j++) x.y[j] = y[j];
    } else {
      // from a directly generated pulse vector: how==1 spread, 2 concentrated, 3 all in the last positions
      for (int k = 0; k < p.K; k++) {
        int pos = how == 1 ? rng.range(0, p.N - 1) : how == 2 ? rng.range(0, std::min(p.N - 1, 2)) : p.N - 1 - rng.range(0, std::min(p.N - 1, 1));
        int sg = x.y[pos] ? (x.y[pos] > 0 ? 1 : -1) : (rng.u32() & 1 ? 1 : -1);
        x.y[pos] += sg;
      }
    }
    HeapBuf<int> y(p.N);
    for (int j = 0; j < p.N; j++) y[j] = x.y[j];
    // vector -> index -> vector
    uint32_t idx = c17_icwrs(p.N, y.p);
    VP_REQUIRE((uint64_t)idx < p.V, "c17:pvq-index-out-of-range", "icwrs of a %d-pulse vector of size %d is %u >= V=%llu", p.K, p.N, idx, (unsigned long long)p.V);
    HeapBuf<int> z(p.N);
    c17_cwrsi(p.N, p.K, idx, z.p);
    for (int j = 0; j < p.N; j++) VP_REQUIRE(z[j] == y[j], "c17:pvq-vector-roundtrip", "N=%d K=%d: cwrsi(icwrs(y)) differs at %d: %d vs %d", p.N, p.K, j, z[j], y[j]);
    encode_pulses(y.p, p.N, p.K, &enc);
    rep.count(3);
    fp = mix(fp, x.pi * 0x100000000ull + idx);
    if (p.N > 2 && p.K >= 2) nt = true;
    vs.push_back(std::move(x));
  }
  ec_enc_done(&enc);
  VP_REQUIRE(!ec_get_error(&enc), "c17:pvq-coder-error", "%d vectors overflowed %zu bytes", nvec, buf.n);
  ec_dec dec; ec_dec_init(&dec, buf.p, (opus_uint32)buf.n);
  for (auto& x : vs) {
    const Pair& p = g_pairs[x.pi];
    HeapBuf<int> y(p.N);
    (void)decode_pulses(y.p, p.N, p.K, &dec);
    rep.count();
    for (int j = 0; j < p.N; j++) VP_REQUIRE(y[j] == x.y[j], "c17:pvq-coder-roundtrip", "stream of %d vectors: N=%d K=%d position %d decodes %d, encoded %d", nvec, p.N, p.K, j, y[j], x.y[j]);
  }
  VP_REQUIRE(!ec_get_error(&dec) && ec_tell(&dec) == ec_tell(&enc), "c17:pvq-coder-error", "decoder error %d, tell %d vs encoder %d", ec_get_error(&dec), ec_tell(&dec), ec_tell(&enc));
  rep.note("%d PVQ vectors through one range-coder stream; first N=%d K=%d", nvec, g_pairs[vs[0].pi].N, g_pairs[vs[0].pi].K);
  rep.nontrivial(nt);
  rep.fingerprint(fp);
  return 0;
}

// ---------------------------------------------------------------- random: Laplace stream through the real coder
static int random_laplace(Choice& c, Report& rep) {
  rep.label("random:laplace-stream");
  int n = 1 + c.byte() % 200;
  Rng rng(c.u32());
  int style = c.byte() % 4;
  HeapBuf<uint8_t> buf((size_t)n * 2 + 8);
  ec_enc enc; ec_enc_init(&enc, buf.p, (opus_uint32)buf.n);
  struct It { unsigned fs; int decay, v; };
  std::vector<It> its;
  bool tail = false;
  uint64_t fp = 0;
  for (int k = 0; k < n; k++) {
    int lm = rng.range(0, 3), intra = rng.range(0, 1), band = rng.range(0, 20);
    const unsigned char* pm = c17_e_prob_model(lm, intra);
    It it; it.fs = (unsigned)pm[2 * band] << 7; it.decay = pm[2 * band + 1] << 6;
    int v;
    switch (style) {
      case 0: v = (int)(rng.gauss() * 2.0); break;
      case 1: v = rng.range(-40, 40); break;
      case 2: v = rng.range(0, 9) ? rng.range(-3, 3) : rng.range(-30000, 30000); break;
      default: v = rng.range(10, 60) * (rng.u32() & 1 ? 1 : -1);
    }
    int vin = v;
    ec_laplace_encode(&enc, &v, it.fs, it.decay);
    if (v != vin || std::abs(v) > 16) tail = true;
    it.v = v; its.push_back(it);
    fp = mix(fp, (uint64_t)(uint32_t)v * 4096 + lm * 100 + intra * 50 + band);
    rep.count();
  }
  ec_enc_done(&enc);
  VP_REQUIRE(!ec_get_error(&enc), "c17:laplace-coder-error", "%d Laplace symbols overflowed %zu bytes", n, buf.n);
  ec_dec dec; ec_dec_init(&dec, buf.p, (opus_uint32)buf.n);
  for (int k = 0; k < n; k++) {
    int v = ec_laplace_decode(&dec, its[k].fs, its[k].decay);
    rep.count();
    VP_REQUIRE(v == its[k].v, "c17:laplace-coder-roundtrip", "symbol %d of %d (fs=%u decay=%d): encoded %d (after clamping), decoded %d", k, n, its[k].fs, its[k].decay, its[k].v, v);
  }
  VP_REQUIRE(!ec_get_error(&dec) && ec_tell(&dec) == ec_tell(&enc), "c17:laplace-coder-error", "decoder error %d, tell %d vs encoder %d", ec_get_error(&dec), ec_tell(&dec), ec_tell(&enc));
  rep.note("%d Laplace symbols (style %d) through the real range coder", n, style);
  if (tail) rep.label("laplace:tail-or-clamped");
  rep.nontrivial(tail);
  rep.fingerprint(fp);
  return 0;
}

// ---------------------------------------------------------------- random: static tables through the real coder
static int random_tables(Choice& c, Report& rep) {
  build_tables();
  rep.label("random:icdf-stream");
  int n = 1 + c.byte() % 120;
  Rng rng(c.u32());
  HeapBuf<uint8_t> buf((size_t)n + 8);
  ec_enc enc; ec_enc_init(&enc, buf.p, (opus_uint32)buf.n);
  struct It { const uint8_t* t; int ftb, s; uint8_t two[2]; };
  std::vector<It> its(n);
  uint64_t fp = 0;
  for (int k = 0; k < n; k++) {
    const TableSpec& t = g_tables[rng.range(0, (int)g_tables.size() - 1)];
    It& it = its[k];
    it.ftb = t.ftb;
    if (t.kind == T_SIGN) { it.two[0] = t.p[rng.range(0, t.cols - 1)]; it.two[1] = 0; it.t = nullptr; it.s = rng.range(0, 1); }
    else if (t.kind == T_SHELL) { int p = rng.range(1, SILK_MAX_PULSES); it.t = t.p + silk_shell_code_table_offsets[p]; it.s = rng.range(0, p); }
    else { int r = rng.range(0, t.rows - 1); it.t = t.p + (size_t)r * t.cols; it.s = rng.range(0, t.cols - 1); }
    ec_enc_icdf(&enc, it.s, it.t ? it.t : it.two, it.ftb);
    fp = mix(fp, (uint64_t)(it.t ? (uintptr_t)(it.t - g_tables[0].p) : it.two[0]) * 64 + it.s);
    rep.count();
  }
  ec_enc_done(&enc);
  VP_REQUIRE(!ec_get_error(&enc), "c17:icdf-coder-error", "%d table symbols overflowed %zu bytes", n, buf.n);
  ec_dec dec; ec_dec_init(&dec, buf.p, (opus_uint32)buf.n);
  for (int k = 0; k < n; k++) {
    It& it = its[k];
    int s = ec_dec_icdf(&dec, it.t ? it.t : it.two, it.ftb);
    rep.count();
    VP_REQUIRE(s == it.s, "c17:icdf-coder-roundtrip", "symbol %d of %d: encoded %d, decoded %d (ftb %d)", k, n, it.s, s, it.ftb);
  }
  rep.note("%d symbols of randomly chosen static ICDF tables through the real range coder", n);
  rep.nontrivial();
  rep.fingerprint(fp);
  return 0;
}

// ---------------------------------------------------------------- random: decoder sweep with every ec_dec_icdf call validated
static struct { bool active, bad; char msg[256]; uint64_t calls; std::set<const void*>* seen; } g_use;
extern "C" int __wrap_ec_dec_icdf(ec_dec* d, const unsigned char* t, unsigned ftb) {
  if (g_use.active && !g_use.bad) {
    g_use.calls++;
    if (g_use.seen) g_use.seen->insert(t);
    if (t[0] >= (1u << ftb)) { g_use.bad = true; snprintf(g_use.msg, sizeof g_use.msg, "table %p ftb %u: first entry %u", (const void*)t, ftb, t[0]); }
    for (int k = 1; !g_use.bad && t[k - 1] != 0; k++)
      if (t[k] >= t[k - 1]) { g_use.bad = true; snprintf(g_use.msg, sizeof g_use.msg, "table %p ftb %u: entry %d = %u after %u", (const void*)t, ftb, k, t[k], t[k - 1]); }
  }
  return __real_ec_dec_icdf(d, t, ftb);
}

static int random_sweep(Choice& c, Report& rep) {
  rep.label("random:decoder-sweep");
  static const int RATES[5] = {8000, 12000, 16000, 24000, 48000};
  int Fs = c.pick(RATES);
  int ch = 1 + (c.byte() & 1);
  static const int APPS[3] = {OPUS_APPLICATION_VOIP, OPUS_APPLICATION_AUDIO, OPUS_APPLICATION_RESTRICTED_LOWDELAY};
  int app = c.pick(APPS);
  static const int MS[4] = {20, 10, 40, 60};
  int ms = c.pick(MS);
  int bitrate = 6000 + c.irange(0, 255) * 400;
  int family = c.byte() % sig::NFAMILIES;
  int force = c.byte() % 4;            // 0 auto, 1 SILK, 2 hybrid, 3 CELT
  int fec = c.byte() & 1;
  int nfr = 2 + c.byte() % 3;
  uint32_t seed = c.u32();
  if (app == OPUS_APPLICATION_RESTRICTED_LOWDELAY && ms > 20) ms = 20;
  int err = 0;
  OpusEncoder* enc = opus_encoder_create(Fs, ch, app, &err);
  VP_REQUIRE(enc && err == OPUS_OK, "c17:sweep-setup", "encoder create %d", err);
  OpusDecoder* dec = opus_decoder_create(Fs, ch, &err);
  VP_REQUIRE(dec && err == OPUS_OK, "c17:sweep-setup", "decoder create %d", err);
  opus_encoder_ctl(enc, OPUS_SET_BITRATE(bitrate));
  opus_encoder_ctl(enc, OPUS_SET_COMPLEXITY(c.byte() % 3));
  if (force && app != OPUS_APPLICATION_RESTRICTED_LOWDELAY) opus_encoder_ctl(enc, OPUS_SET_FORCE_MODE(force == 1 ? MODE_SILK_ONLY : force == 2 ? MODE_HYBRID : MODE_CELT_ONLY));
  if (fec) { opus_encoder_ctl(enc, OPUS_SET_INBAND_FEC(1)); opus_encoder_ctl(enc, OPUS_SET_PACKET_LOSS_PERC(25)); }
  int fsz = Fs * ms / 1000;
  std::vector<float> pcm;
  sig::generate(family, seed, Fs, ch, fsz * nfr, 0.4, pcm);
  HeapBuf<float> out((size_t)5760 * ch);
  std::set<const void*> seen;
  g_use.active = false; g_use.bad = false; g_use.calls = 0; g_use.seen = &seen;
  int modes_seen = 0;
  for (int f = 0; f < nfr; f++) {
    HeapBuf<uint8_t> pkt(1500);
    int len = opus_encode_float(enc, pcm.data() + (size_t)f * fsz * ch, fsz, pkt.p, 1500);
    if (len <= 0) { opus_encoder_destroy(enc); opus_decoder_destroy(dec); g_use.seen = nullptr; return rep.fail("c17:sweep-encode", "opus_encode_float returned %d (Fs=%d ch=%d ms=%d)", len, Fs, ch, ms); }
    HeapBuf<uint8_t> exact(len);
    memcpy(exact.p, pkt.p, len);
    int toc = exact.p[0];
    modes_seen |= (toc & 0x80) ? 4 : ((toc & 0x60) == 0x60 ? 2 : 1);
    g_use.active = true;
    int r = opus_decode_float(dec, exact.p, len, out.p, 5760, (fec && (f & 1)) ? 1 : 0);
    g_use.active = false;
    rep.count();
    if (r <= 0) { opus_encoder_destroy(enc); opus_decoder_destroy(dec); g_use.seen = nullptr; return rep.fail("c17:sweep-decode", "opus_decode_float returned %d on an encoder packet", r); }
  }
  opus_encoder_destroy(enc); opus_decoder_destroy(dec);
  g_use.seen = nullptr;
  VP_REQUIRE(!g_use.bad, "c17:icdf-in-use-invalid", "ec_dec_icdf was called with a table that is not strictly decreasing to zero: %s", g_use.msg);
  if (modes_seen & 1) rep.label("sweep:silk");
  if (modes_seen & 2) rep.label("sweep:hybrid");
  if (modes_seen & 4) rep.label("sweep:celt");
  if (g_use.calls) rep.label("sweep:icdf-calls");
  rep.count(g_use.calls);
  rep.note("sweep Fs=%d ch=%d app=%d %d ms x %d frames, %d bit/s, force=%d fec=%d: %llu ec_dec_icdf calls on %zu distinct tables, all valid", Fs, ch, app, ms, nfr, bitrate, force, fec, (unsigned long long)g_use.calls, seen.size());
  rep.nontrivial(g_use.calls > 0);
  rep.fingerprint(mix(mix(seed, Fs * 8 + ch), bitrate * 16 + force * 2 + fec));
  return 0;
}

int vp_case(Choice& c, Report& rep) {
  int fam = c.byte();
  if (g_pairs.empty()) return rep.fail("c17:no-reachable-pairs", "the static mode's pulse cache yields no (N,K) pair");
  switch (fam) {
    case 0xF1: return unit_row(c.byte() % NROWS_MAX, rep);
    case 0xF2: return unit_cache(c.byte() % NLM, rep);
    case 0xF3: return unit_tables(rep);
    case 0xF4: { int lm = c.byte() % 4, intra = c.byte() % 2, band = c.byte() % 21; return unit_laplace(lm, intra, band, rep); }
    case 0xF5: { size_t pi = (size_t)c.irange(0, 65535) % g_pairs.size(); return unit_pair_light(pi, rep, 0); }
    case 0xF6: { size_t pi = (size_t)c.irange(0, 65535) % g_pairs.size(); uint64_t ch = (uint64_t)c.irange(0, 65535); return unit_pair_chunk(pi, ch, rep); }
    default: break;
  }
  switch (fam % 16) {
    case 0: case 1: case 2: case 3: case 4: return random_pvq(c, rep);
    case 5: case 6: case 7: case 8: return random_laplace(c, rep);
    case 9: case 10: case 11: return random_tables(c, rep);
    case 12: { size_t pi = (size_t)c.irange(0, 65535) % g_pairs.size(); uint32_t salt = c.u32(); rep.label("random:pvq-pair-offset"); return unit_pair_light(pi, rep, salt | 1); }
    case 13: { size_t pi = (size_t)c.irange(0, 65535) % g_pairs.size(); uint64_t ch = (uint64_t)c.irange(0, 65535); rep.label("random:pvq-chunk"); return unit_pair_chunk(pi, ch, rep); }
    default: return random_sweep(c, rep);
  }
}
