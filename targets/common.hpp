// Shared helpers for targets.
#pragma once
#include <cmath>
#include <cstdint>
#include <cstdlib>
#include <cstring>
#include <vector>
#include "vp.hpp"

// Exact-size heap buffer: ASan red zones sit immediately before and after the
// n elements, so any read/write outside [0,n) is reported.  n==0 still yields
// a valid (1-byte) allocation whose first byte is already out of bounds for
// the element count passed to the library.
template <class T>
struct HeapBuf {
  T* p;
  size_t n;
  explicit HeapBuf(size_t count) : n(count) { p = (T*)malloc(count ? count * sizeof(T) : 1); if (count) memset(p, 0, count * sizeof(T)); }
  HeapBuf(const HeapBuf&) = delete;
  HeapBuf& operator=(const HeapBuf&) = delete;
  ~HeapBuf() { free(p); }
  T& operator[](size_t i) { return p[i]; }
};

static inline bool all_finite(const float* x, size_t n) {
  for (size_t i = 0; i < n; i++) if (!std::isfinite(x[i])) return false;
  return true;
}
