/* C17: celt/laplace.c compiled against recording stubs of ec_encode_bin /
   ec_decode_bin / ec_dec_update, so that the interval [fl,fh) of every value and
   the value decoded for every one of the 32768 probability points can be read
   off directly.  All public names of the included file are renamed. */
#define ec_encode_bin c17_stub_encode_bin
#define ec_decode_bin c17_stub_decode_bin
#define ec_dec_update c17_stub_dec_update
#define ec_laplace_encode c17tu_laplace_encode
#define ec_laplace_decode c17tu_laplace_decode
#define ec_laplace_encode_p0 c17tu_laplace_encode_p0
#define ec_laplace_decode_p0 c17tu_laplace_decode_p0
#include "laplace.c"

unsigned c17_rec_enc_fl, c17_rec_enc_fh, c17_rec_enc_bits;
int c17_rec_enc_calls;
unsigned c17_dec_fm, c17_rec_dec_bits;
unsigned c17_rec_upd_fl, c17_rec_upd_fh, c17_rec_upd_ft;
int c17_rec_upd_calls, c17_rec_dec_calls;

void c17_stub_encode_bin(ec_enc *e, unsigned fl, unsigned fh, unsigned bits) {
  (void)e; c17_rec_enc_fl = fl; c17_rec_enc_fh = fh; c17_rec_enc_bits = bits; c17_rec_enc_calls++;
}
unsigned c17_stub_decode_bin(ec_dec *d, unsigned bits) { (void)d; c17_rec_dec_bits = bits; c17_rec_dec_calls++; return c17_dec_fm; }
void c17_stub_dec_update(ec_dec *d, unsigned fl, unsigned fh, unsigned ft) {
  (void)d; c17_rec_upd_fl = fl; c17_rec_upd_fh = fh; c17_rec_upd_ft = ft; c17_rec_upd_calls++;
}
