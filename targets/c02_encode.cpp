// C02: every encoded packet is valid and decodes in lock-step with the encoder
// (this tree's decoder at the encoder's and at another rate/channel count, and
// the frozen reference decoder), for single-stream, multistream and projection
// encoders, over histories of setting changes.  Also built against the FUZZING
// variant (srand fixed per case).
#include "vp.hpp"
#include "rfc_framing.hpp"
#include "common.hpp"
#include "codec_util.hpp"
#include "siggen.hpp"
#include "refapi.h"
#include <cmath>

using namespace vp;

const TargetInfo vp_info = {"c02_encode", 24, 1500};

extern "C" {
OpusProjectionDecoder* ref_opus_projection_decoder_create(opus_int32 Fs, int channels, int streams, int coupled_streams, unsigned char* demixing_matrix, opus_int32 demixing_matrix_size, int* error);
int ref_opus_projection_decode_float(OpusProjectionDecoder* st, const unsigned char* data, opus_int32 len, float* pcm, int frame_size, int decode_fec);
int ref_opus_projection_decoder_ctl(OpusProjectionDecoder* st, int request, ...);
void ref_opus_projection_decoder_destroy(OpusProjectionDecoder* st);
}

extern "C" int opus_verif_arch_cap;

namespace {

enum Kind { SINGLE = 0, MULTI = 1, PROJ = 2 };

struct RefDec { OpusDecoder* p = nullptr; bool fix = false; ~RefDec() { if (p) { if (fix) rfx_opus_decoder_destroy(p); else ref_opus_decoder_destroy(p); } } };
struct RefMSDec { OpusMSDecoder* p = nullptr; ~RefMSDec() { if (p) ref_opus_multistream_decoder_destroy(p); } };
struct RefProjDec { OpusProjectionDecoder* p = nullptr; ~RefProjDec() { if (p) ref_opus_projection_decoder_destroy(p); } };

// expected packet duration (samples at Fs) for a submitted frame_size and an
// expert-frame-duration setting; -1 = illegal arguments.  Written from the
// documentation of OPUS_SET_EXPERT_FRAME_DURATION.
int expected_duration(int Fs, int frame_size, int expert) {
  static const int LEGAL400[9] = {1, 2, 4, 8, 16, 24, 32, 40, 48};
  int dur;
  if (expert == OPUS_FRAMESIZE_ARG) dur = frame_size;
  else {
    int idx = expert - OPUS_FRAMESIZE_2_5_MS;
    if (idx < 0 || idx > 8) return -1;
    dur = LEGAL400[idx] * (Fs / 400);
  }
  if (dur > frame_size) return -1;
  for (int k = 0; k < 9; k++) if (dur == LEGAL400[k] * (Fs / 400)) return dur;
  return -1;
}

int gen_max_bytes(Choice& c) {
  static const int W[] = {8, 2, 2, 2, 2};
  switch (c.weighted(W, 5)) {
    case 0: return c.pick((const int[]){1500, 4000, 1276, 1277, 1275});
    case 1: return c.irange(1, 8);
    case 2: return c.irange(9, 120);
    case 3: return c.irange(120, 1500);
    default: return c.pick((const int[]){1, 2, 3, 1275, 1276, 1277, 2000});
  }
}

// applies one generated setting change to an encoder-like ctl function
template <class CtlFn>
void gen_ctl_change(Choice& c, Report& rep, CtlFn ctl, int ch, int& expert, bool allow_force_mode) {
  int w = c.irange(0, 15);
  int r = OPUS_OK;
  switch (w) {
    case 0: r = ctl(OPUS_SET_BITRATE_REQUEST, cu::gen_bitrate(c, ch)); break;
    case 1: r = ctl(OPUS_SET_VBR_REQUEST, c.irange(0, 1)); break;
    case 2: r = ctl(OPUS_SET_VBR_CONSTRAINT_REQUEST, c.irange(0, 1)); break;
    case 3: r = ctl(OPUS_SET_COMPLEXITY_REQUEST, c.irange(0, 10)); break;
    case 4: r = ctl(OPUS_SET_BANDWIDTH_REQUEST, c.chance(64) ? OPUS_AUTO : cu::BANDWIDTHS[c.irange(0, 4)]); break;
    case 5: r = ctl(OPUS_SET_MAX_BANDWIDTH_REQUEST, cu::BANDWIDTHS[c.irange(0, 4)]); break;
    case 6: { int v = c.irange(0, 2); int fc = v == 0 ? OPUS_AUTO : v; if (fc != OPUS_AUTO && fc > ch) fc = OPUS_AUTO; r = ctl(OPUS_SET_FORCE_CHANNELS_REQUEST, fc); break; }
    case 7: if (allow_force_mode) { int v = c.irange(0, 3); r = ctl(OPUS_SET_FORCE_MODE_REQUEST, v == 0 ? OPUS_AUTO : 999 + v); } break;
    case 8: r = ctl(OPUS_SET_INBAND_FEC_REQUEST, c.irange(0, 2)); break;
    case 9: r = ctl(OPUS_SET_PACKET_LOSS_PERC_REQUEST, c.irange(0, 100)); break;
    case 10: r = ctl(OPUS_SET_DTX_REQUEST, c.irange(0, 1)); break;
    case 11: r = ctl(OPUS_SET_LSB_DEPTH_REQUEST, c.irange(8, 24)); break;
    case 12: r = ctl(OPUS_SET_PREDICTION_DISABLED_REQUEST, c.irange(0, 1)); break;
    case 13: r = ctl(OPUS_SET_PHASE_INVERSION_DISABLED_REQUEST, c.irange(0, 1)); break;
    case 14: { int e = c.chance(100) ? OPUS_FRAMESIZE_ARG : OPUS_FRAMESIZE_2_5_MS + c.irange(0, 8); r = ctl(OPUS_SET_EXPERT_FRAME_DURATION_REQUEST, e); if (r == OPUS_OK) expert = e; break; }
    default: r = ctl(OPUS_SET_SIGNAL_REQUEST, c.pick((const int[]){OPUS_AUTO, OPUS_SIGNAL_VOICE, OPUS_SIGNAL_MUSIC})); break;
  }
  (void)rep; (void)r;
}

// float signals incl. non-finite / absurd values (float entry point only)
void spice_float(Choice& c, Report& rep, std::vector<float>& x) {
  int k = c.irange(0, 5);
  Rng rng(c.u32());
  size_t n = x.size();
  if (!n) return;
  switch (k) {
    case 0: for (int i = 0; i < 8; i++) x[rng.range(0, (int)n - 1)] = std::nanf(""); rep.label("sig:nan"); break;
    case 1: for (int i = 0; i < 8; i++) x[rng.range(0, (int)n - 1)] = (i & 1) ? INFINITY : -INFINITY; rep.label("sig:inf"); break;
    case 2: for (auto& v : x) v *= 1e30f; rep.label("sig:1e30"); break;
    case 3: for (auto& v : x) v *= 1e-40f; rep.label("sig:denormal"); break;
    case 4: for (auto& v : x) v = std::nanf(""); rep.label("sig:all-nan"); break;
    default: { float a = std::pow(10.f, (float)c.irange(2, 30)); for (auto& v : x) v *= a; rep.label("sig:huge"); break; }
  }
}

}  // namespace

extern "C" void srand(unsigned);

int vp_case(Choice& c, Report& rep) {
#ifdef FUZZING
  srand(c.u32());
#endif
  static const int KW[] = {7, 2, 1};
  Kind kind = (Kind)c.weighted(KW, 3);
  cu::EncCfg e = cu::gen_cfg(c);
  // RTCD level for every object of this case (hook XIPH_OPUS_VERIF): mostly uncapped, otherwise one of the five levels
  struct CapGuard { ~CapGuard() { opus_verif_arch_cap = 255; } } cap_guard;
  // (derived from a hash of the case bytes instead of a new choice, so that committed replay cases keep their meaning)
  { int cs = (int)(fnv1a(c.d, c.n) % 12); opus_verif_arch_cap = cs < 7 ? 255 : cs - 7; rep.labelf("arch-cap:%d", opus_verif_arch_cap); }
  // class "high-rate speech layer, long frames": per-frame budgets near the 1275-byte frame limit
  bool stress_silk = c.chance(24);
  if (stress_silk) {
    e.ch = c.chance(200) ? 2 : 1; e.bitrate = c.irange(120000, 510000); e.fec = c.irange(0, 2); e.loss = c.irange(0, 40);
    e.complexity = c.irange(5, 10); e.force_channels = OPUS_AUTO; e.dtx = 0; e.lsb = 24;
    if (c.boolean()) { e.force_mode = cu::MODE_SILK; e.max_bandwidth = OPUS_BANDWIDTH_FULLBAND; e.bandwidth = c.chance(128) ? OPUS_AUTO : cu::BANDWIDTHS[c.irange(0, 2)]; }
    else { e.force_mode = OPUS_AUTO; e.max_bandwidth = cu::BANDWIDTHS[c.irange(0, 2)]; e.bandwidth = OPUS_AUTO; }
    if (e.app == OPUS_APPLICATION_RESTRICTED_LOWDELAY) e.app = OPUS_APPLICATION_AUDIO;
    if (e.Fs < 16000) e.Fs = 48000;
    rep.label("class:high-rate-silk");
  }
  int Fs = e.Fs;
  int expert = OPUS_FRAMESIZE_ARG;
  int err = 0;
  cu::Enc enc; cu::MSEnc msenc; cu::ProjEnc pjenc;
  cu::Dec dec1, dec2; RefDec rdec, rdecx; cu::MSDec msdec; RefMSDec rmsdec; cu::ProjDec pjdec; RefProjDec rpjdec;
  int ch = e.ch, streams = 1, coupled = 0;
  int Fs2 = cu::RATES[c.irange(0, 4)], ch2 = 1 + c.irange(0, 1);
  unsigned char mapping[256];
  uint64_t fp = mix(kind, mix(Fs, ch));
  if (kind == SINGLE) {
    enc.p = opus_encoder_create(Fs, ch, e.app, &err);
    VP_REQUIRE(enc.p && err == OPUS_OK, "c02:create", "encoder create failed %d", err);
    int r = cu::apply_cfg(enc.p, e);
    VP_REQUIRE(r == OPUS_OK, "c02:cfg", "legal initial setting rejected: %d (%s)", r, cu::cfg_str(e).c_str());
    dec1.p = opus_decoder_create(Fs, ch, &err);
    dec2.p = opus_decoder_create(Fs2, ch2, &err);
    rdec.p = ref_opus_decoder_create(Fs, ch, &err);
    rdecx.fix = true; rdecx.p = rfx_opus_decoder_create(Fs2, ch2, &err);
    VP_REQUIRE(dec1.p && dec2.p && rdec.p && rdecx.p, "c02:create-dec", "decoder create failed");
    rep.note("single {%s} dec2=%d/%d", cu::cfg_str(e).c_str(), Fs2, ch2);
  } else if (kind == MULTI) {
    int fam = c.irange(0, 3);   // 0: explicit layout, 1: surround family 1, 2: family 0, 3: family 255
    if (fam == 0) {
      streams = c.irange(1, 4); coupled = c.irange(0, streams);
      int nsc = streams + coupled;
      ch = c.irange(nsc, nsc + 2); if (ch > 255) ch = 255;
      // every stream channel must be fed by some input channel
      for (int i = 0; i < ch; i++) mapping[i] = (unsigned char)(i < nsc ? i : (c.boolean() ? 255 : c.irange(0, nsc - 1)));
      msenc.p = opus_multistream_encoder_create(Fs, ch, streams, coupled, mapping, e.app, &err);
    } else {
      int family = fam == 1 ? 1 : fam == 2 ? 0 : 255;
      ch = family == 0 ? 1 + c.irange(0, 1) : family == 1 ? c.irange(1, 8) : c.irange(1, 6);
      msenc.p = opus_multistream_surround_encoder_create(Fs, ch, family, &streams, &coupled, mapping, e.app, &err);
    }
    VP_REQUIRE(msenc.p && err == OPUS_OK, "c02:create-ms", "multistream encoder create failed %d (fam %d ch %d)", err, fam, ch);
    opus_multistream_encoder_ctl(msenc.p, OPUS_SET_BITRATE(e.bitrate));
    opus_multistream_encoder_ctl(msenc.p, OPUS_SET_VBR(e.vbr));
    opus_multistream_encoder_ctl(msenc.p, OPUS_SET_VBR_CONSTRAINT(e.cvbr));
    opus_multistream_encoder_ctl(msenc.p, OPUS_SET_COMPLEXITY(e.complexity > 5 ? 5 : e.complexity));
    msdec.p = opus_multistream_decoder_create(Fs, ch, streams, coupled, mapping, &err);
    rmsdec.p = ref_opus_multistream_decoder_create(Fs, ch, streams, coupled, mapping, &err);
    VP_REQUIRE(msdec.p && rmsdec.p, "c02:create-msdec", "multistream decoder create failed %d", err);
    rep.note("multistream fam=%d Fs=%d ch=%d streams=%d coupled=%d bitrate=%d vbr=%d", fam, Fs, ch, streams, coupled, e.bitrate, e.vbr);
  } else {
    int order = c.irange(1, 3);
    int family = 3;
    ch = (order + 1) * (order + 1) + (c.boolean() ? 2 : 0);
    pjenc.p = opus_projection_ambisonics_encoder_create(Fs, ch, family, &streams, &coupled, e.app, &err);
    VP_REQUIRE(pjenc.p && err == OPUS_OK, "c02:create-proj", "projection encoder create failed %d (ch %d)", err, ch);
    opus_projection_encoder_ctl(pjenc.p, OPUS_SET_BITRATE(e.bitrate));
    opus_projection_encoder_ctl(pjenc.p, OPUS_SET_VBR(e.vbr));
    opus_projection_encoder_ctl(pjenc.p, OPUS_SET_COMPLEXITY(e.complexity > 4 ? 4 : e.complexity));
    opus_int32 msize = 0;
    opus_projection_encoder_ctl(pjenc.p, OPUS_PROJECTION_GET_DEMIXING_MATRIX_SIZE(&msize));
    std::vector<unsigned char> mat((size_t)(msize > 0 ? msize : 1));
    int r = opus_projection_encoder_ctl(pjenc.p, OPUS_PROJECTION_GET_DEMIXING_MATRIX(mat.data(), msize));
    VP_REQUIRE(r == OPUS_OK && msize > 0, "c02:proj-matrix", "demixing matrix export failed %d size %d", r, msize);
    pjdec.p = opus_projection_decoder_create(Fs, ch, streams, coupled, mat.data(), msize, &err);
    rpjdec.p = ref_opus_projection_decoder_create(Fs, ch, streams, coupled, mat.data(), msize, &err);
    VP_REQUIRE(pjdec.p && rpjdec.p, "c02:create-projdec", "projection decoder create failed %d", err);
    rep.note("projection order=%d Fs=%d ch=%d streams=%d coupled=%d bitrate=%d", order, Fs, ch, streams, coupled, e.bitrate);
  }
  rep.label(kind == SINGLE ? "kind:single" : kind == MULTI ? "kind:multistream" : "kind:projection");
  bool ms_boundary = kind != SINGLE && streams >= 2 && c.chance(70);
  if (ms_boundary) {
    // every stream must fill its share of the buffer
    if (kind == MULTI) { opus_multistream_encoder_ctl(msenc.p, OPUS_SET_BITRATE(OPUS_BITRATE_MAX)); opus_multistream_encoder_ctl(msenc.p, OPUS_SET_VBR(c.irange(0, 1))); }
    else { opus_projection_encoder_ctl(pjenc.p, OPUS_SET_BITRATE(OPUS_BITRATE_MAX)); opus_projection_encoder_ctl(pjenc.p, OPUS_SET_VBR(c.irange(0, 1))); }
  }

  int nsteps = 1 + c.irange(0, kind == SINGLE ? 15 : 7);
  uint64_t sig_seed = c.u32();
  int family = c.irange(0, sig::NFAMILIES - 1);
  double amp = c.pick((const double[]){0.5, 0.5, 1.0, 0.05, 0.001});
  if (stress_silk) { family = c.boolean() ? sig::NOISE : sig::MULTITONE; amp = 0.9; }
  int sig_pos = 0;
  int prev_toc = -1; bool changed_setting = false, transition = false;
  int total_samples = 0;
  // class "long steady stream" (switch derived from the case hash so that the choice layout and committed replays keep their meaning): after the
  // generated history the last call is repeated 40-120 times with fresh signal and no further setting changes, 20 ms frames or shorter.  The
  // generated histories end after <= 16 calls; adaptation state that needs seconds of steady input (noise-floor trackers, predictor and gain
  // smoothing, rate-control reservoirs) is only reached this way (finding F23 sat 1-3 s into an ordinary 12 kHz speech stream).
  const uint64_t case_hash = fnv1a(c.d, c.n);
  const bool long_steady = kind == SINGLE && !stress_silk && (case_hash % 12) == 1;
  const int extra_steps = long_steady ? 40 + (int)((case_hash >> 8) % 81) : 0;
  if (long_steady) rep.label("class:long-steady-stream");
  int last_d = 3, last_maxb = 1500, last_fmt = 0;
  for (int step = 0; step < nsteps + extra_steps; step++) {
    const bool cont = step >= nsteps;
    // --- optional ctl changes
    int nch = cont ? 0 : (c.chance(90) && !stress_silk && !ms_boundary) ? c.irange(1, 3) : 0;
    for (int k = 0; k < nch; k++) {
      if (kind == SINGLE) gen_ctl_change(c, rep, [&](int req, int v) { return opus_encoder_ctl(enc.p, req, v); }, ch, expert, true);
      else if (kind == MULTI) gen_ctl_change(c, rep, [&](int req, int v) { return opus_multistream_encoder_ctl(msenc.p, req, v); }, 1, expert, false);
      else gen_ctl_change(c, rep, [&](int req, int v) { return opus_projection_encoder_ctl(pjenc.p, req, v); }, 1, expert, false);
      if (step > 0) changed_setting = true;
    }
    if (!cont && c.chance(16)) { family = c.irange(0, sig::NFAMILIES - 1); }
    // --- the encode call
    int d = cont ? (last_d > 3 ? 3 : last_d) : c.chance(150) ? 3 : c.irange(0, 8);
    if (stress_silk && kind == SINGLE) d = 4 + c.irange(0, 4);
    if (kind != SINGLE && d > 5 && c.chance(200)) d = 3;
    int fs = cu::frame_samples(Fs, d);
    if (!cont && total_samples + fs > Fs * (stress_silk ? 6 : 3)) { d = 3; fs = cu::frame_samples(Fs, d); }   // bound the work per case
    total_samples += fs;
    int maxb = cont ? last_maxb : gen_max_bytes(c);
    if (kind != SINGLE && maxb < 4000 && c.chance(160)) maxb = 4000;
    // class "self-delimited length boundary": a non-final stream whose budget sits at the 251..255-byte edge of the one/two-byte length code
    if (kind != SINGLE && ms_boundary) { maxb = 248 + c.irange(0, 16) + (streams > 2 ? 254 * c.irange(0, streams - 2) : 0); rep.label("class:ms-length-boundary"); }
    int fmt = cont ? last_fmt : c.irange(0, 2);     // 0 int16, 1 int24, 2 float
    if (!cont) { last_d = d; last_maxb = maxb < 40 ? 1500 : maxb; last_fmt = fmt; }
    std::vector<float> x;
    sig::generate(family, sig_seed, Fs, ch, fs, amp, x, sig_pos);
    sig_pos += fs;
    bool spiced = false;
#ifdef FIXED_POINT
    // the fixed-point flavour is exercised with in-range input only: C02 quantifies non-finite / absurd floats over the float encoder
    if (!cont && fmt == 2 && c.chance(24)) { (void)c.irange(0, 5); (void)c.u32(); }
#else
    if (!cont && fmt == 2 && c.chance(24)) { spice_float(c, rep, x); spiced = true; }
#endif
    int exp_dur = expected_duration(Fs, fs, expert);
    HeapBuf<unsigned char> out(maxb);
    int ret;
    rep.count();
    if (fmt == 0) {
      HeapBuf<opus_int16> in((size_t)fs * ch);
      for (size_t i = 0; i < (size_t)fs * ch; i++) { double v = std::floor(x[i] * 32768.0 + 0.5); in[i] = (opus_int16)(v > 32767 ? 32767 : v < -32768 ? -32768 : v); }
      ret = kind == SINGLE ? opus_encode(enc.p, in.p, fs, out.p, maxb) : kind == MULTI ? opus_multistream_encode(msenc.p, in.p, fs, out.p, maxb) : opus_projection_encode(pjenc.p, in.p, fs, out.p, maxb);
    } else if (fmt == 1) {
      HeapBuf<opus_int32> in((size_t)fs * ch);
      for (size_t i = 0; i < (size_t)fs * ch; i++) { double v = std::floor(x[i] * 8388608.0 + 0.5); in[i] = (opus_int32)(v > 8388607 ? 8388607 : v < -8388608 ? -8388608 : v); }
      ret = kind == SINGLE ? opus_encode24(enc.p, in.p, fs, out.p, maxb) : kind == MULTI ? opus_multistream_encode24(msenc.p, in.p, fs, out.p, maxb) : opus_projection_encode24(pjenc.p, in.p, fs, out.p, maxb);
    } else {
      HeapBuf<float> in((size_t)fs * ch);
      memcpy(in.p, x.data(), sizeof(float) * (size_t)fs * ch);
      ret = kind == SINGLE ? opus_encode_float(enc.p, in.p, fs, out.p, maxb) : kind == MULTI ? opus_multistream_encode_float(msenc.p, in.p, fs, out.p, maxb) : opus_projection_encode_float(pjenc.p, in.p, fs, out.p, maxb);
    }
    rep.note("step%d dur=%d/400s maxb=%d fmt=%d expert=%d signal=%s amp=%g -> %d", step, cu::DUR400[d], maxb, fmt, expert, sig::FAMILY_NAME[family], amp, ret);
    // --- oracle: return value
    VP_REQUIRE(ret != OPUS_INTERNAL_ERROR && ret != OPUS_UNIMPLEMENTED && ret != OPUS_INVALID_STATE && ret != OPUS_ALLOC_FAIL && ret != OPUS_INVALID_PACKET, "c02:internal-error", "encode returned %d (kind %d maxb %d fs %d)", ret, kind, maxb, fs);
    if (exp_dur < 0) {
      VP_REQUIRE(ret == OPUS_BAD_ARG, "c02:bad-arg-expected", "frame_size %d with expert duration %d must be refused, got %d", fs, expert, ret);
      rep.label("refused:expert-duration");
      continue;
    }
    if (ret == OPUS_BUFFER_TOO_SMALL) {
      if (kind == SINGLE) VP_REQUIRE(maxb == 1 && exp_dur * 10 == Fs, "c02:buffer-too-small", "single-stream encode refused max_data_bytes=%d for %d samples at %d Hz", maxb, exp_dur, Fs);
      else {
        // multistream: the documented smallest packet needs 2 bytes per stream but the last (self-delimited framing), 1 for the last
        // (more for frames above 20 ms which need a code-3 header per stream); refusals are only legitimate for small buffers
        VP_REQUIRE(maxb < streams * 4 + 2, "c02:buffer-too-small-ms", "multistream encode refused max_data_bytes=%d with %d streams", maxb, streams);
      }
      rep.label("refused:buffer-too-small");
      continue;
    }
    VP_REQUIRE(ret != OPUS_BAD_ARG, "c02:bad-arg", "valid encode call refused with OPUS_BAD_ARG (kind %d fs %d maxb %d expert %d)", kind, fs, maxb, expert);
    VP_REQUIRE(ret >= 1 && ret <= maxb, "c02:length-range", "encode returned %d for max_data_bytes %d", ret, maxb);
    // --- oracle: packet structure
    int pos = 0; int toc0 = out.p[0];
    for (int s = 0; s < streams; s++) {
      VP_REQUIRE(ret - pos >= 1, "c02:ms-truncated", "stream %d has no bytes", s);
      rfc::Parsed p = rfc::parse(out.p + pos, ret - pos, s != streams - 1);
      VP_REQUIRE(p.ok, "c02:invalid-packet", "encoder output is not a valid packet (stream %d of %d, len %d, toc 0x%02x)", s, streams, ret, out.p[pos]);
      int smp = p.count * rfc::samples_per_frame(out.p[pos], Fs);
      VP_REQUIRE(smp == exp_dur, "c02:duration", "packet announces %d samples, submitted %d (stream %d, toc 0x%02x, count %d)", smp, exp_dur, s, out.p[pos], p.count);
      if (p.count > 1) rep.label("multi-frame");
      pos += p.consumed;
    }
    VP_REQUIRE(pos == ret, "c02:trailing-bytes", "%d bytes left after the last stream", ret - pos);
    if (kind == SINGLE) {
      int ns = opus_packet_get_nb_samples(out.p, ret, Fs);
      VP_REQUIRE(ns == exp_dur, "c02:nb-samples", "opus_packet_get_nb_samples %d expected %d", ns, exp_dur);
      rfc::TocInfo t = rfc::toc_info((uint8_t)toc0);
      rep.labelf("toc:%s-bw%d", t.mode == rfc::SILK ? "silk" : t.mode == rfc::HYBRID ? "hybrid" : "celt", (int)t.bw);
      if (prev_toc >= 0 && ((prev_toc ^ toc0) & 0xFC) && ((prev_toc >> 3) != (toc0 >> 3) || ((prev_toc ^ toc0) & 4))) {
        rfc::TocInfo pt = rfc::toc_info((uint8_t)prev_toc);
        if (pt.mode != t.mode) { rep.label("transition:mode"); transition = true; }
        if (pt.bw != t.bw) { rep.label("transition:bandwidth"); transition = true; }
        if (pt.stereo != t.stereo) { rep.label("transition:channels"); transition = true; }
      }
      prev_toc = toc0;
      if (ret <= 2) rep.label("tiny-packet");
    }
    if (maxb <= 8) rep.label("small-buffer");
    // --- oracle: lock-step decoding
    opus_uint32 er = 0, dr = 0;
    if (kind == SINGLE) {
      VP_REQUIRE(opus_encoder_ctl(enc.p, OPUS_GET_FINAL_RANGE(&er)) == OPUS_OK, "c02:get-range", "get final range failed");
      HeapBuf<float> pcm((size_t)5760 * 2);
      int n = opus_decode_float(dec1.p, out.p, ret, pcm.p, exp_dur, 0);
      VP_REQUIRE(n == exp_dur, "c02:decode-count", "tree decoder returned %d, expected %d", n, exp_dur);
      opus_decoder_ctl(dec1.p, OPUS_GET_FINAL_RANGE(&dr));
      VP_REQUIRE(dr == er, "c02:range-mismatch", "tree decoder final range %08x, encoder %08x (len %d toc 0x%02x step %d)", dr, er, ret, toc0, step);
      int exp2 = (int)((long long)exp_dur * Fs2 / Fs);
      HeapBuf<opus_int16> pcm2((size_t)exp2 * ch2);
      n = opus_decode(dec2.p, out.p, ret, pcm2.p, exp2, 0);
      VP_REQUIRE(n == exp2, "c02:decode-count-other-rate", "tree decoder at %d Hz/%d ch returned %d, expected %d", Fs2, ch2, n, exp2);
      opus_decoder_ctl(dec2.p, OPUS_GET_FINAL_RANGE(&dr));
      VP_REQUIRE(dr == er, "c02:range-mismatch-other-rate", "tree decoder (%d Hz, %d ch) final range %08x, encoder %08x", Fs2, ch2, dr, er);
      n = ref_opus_decode_float(rdec.p, out.p, ret, pcm.p, exp_dur, 0);
      VP_REQUIRE(n == exp_dur, "c02:ref-decode-count", "frozen reference decoder returned %d, expected %d", n, exp_dur);
      ref_opus_decoder_ctl(rdec.p, OPUS_GET_FINAL_RANGE(&dr));
      VP_REQUIRE(dr == er, "c02:ref-range-mismatch", "frozen reference decoder final range %08x, encoder %08x (len %d toc 0x%02x step %d)", dr, er, ret, toc0, step);
      n = rfx_opus_decode(rdecx.p, out.p, ret, pcm2.p, exp2, 0);
      VP_REQUIRE(n == exp2, "c02:reffix-decode-count", "frozen fixed-point reference decoder returned %d, expected %d", n, exp2);
      rfx_opus_decoder_ctl(rdecx.p, OPUS_GET_FINAL_RANGE(&dr));
      VP_REQUIRE(dr == er, "c02:reffix-range-mismatch", "frozen fixed-point reference decoder (%d Hz, %d ch) final range %08x, encoder %08x", Fs2, ch2, dr, er);
      rep.count(4);
    } else if (kind == MULTI) {
      opus_multistream_encoder_ctl(msenc.p, OPUS_GET_FINAL_RANGE(&er));
      HeapBuf<float> pcm((size_t)exp_dur * ch);
      int n = opus_multistream_decode_float(msdec.p, out.p, ret, pcm.p, exp_dur, 0);
      VP_REQUIRE(n == exp_dur, "c02:ms-decode-count", "multistream decoder returned %d, expected %d", n, exp_dur);
      opus_multistream_decoder_ctl(msdec.p, OPUS_GET_FINAL_RANGE(&dr));
      VP_REQUIRE(dr == er, "c02:ms-range-mismatch", "multistream decoder final range %08x, encoder %08x", dr, er);
      n = ref_opus_multistream_decode_float(rmsdec.p, out.p, ret, pcm.p, exp_dur, 0);
      VP_REQUIRE(n == exp_dur, "c02:ms-ref-decode-count", "reference multistream decoder returned %d, expected %d", n, exp_dur);
      ref_opus_multistream_decoder_ctl(rmsdec.p, OPUS_GET_FINAL_RANGE(&dr));
      VP_REQUIRE(dr == er, "c02:ms-ref-range-mismatch", "reference multistream decoder final range %08x, encoder %08x", dr, er);
      rep.count(2);
    } else {
      opus_projection_encoder_ctl(pjenc.p, OPUS_GET_FINAL_RANGE(&er));
      HeapBuf<float> pcm((size_t)exp_dur * ch);
      int n = opus_projection_decode_float(pjdec.p, out.p, ret, pcm.p, exp_dur, 0);
      VP_REQUIRE(n == exp_dur, "c02:proj-decode-count", "projection decoder returned %d, expected %d", n, exp_dur);
      opus_projection_decoder_ctl(pjdec.p, OPUS_GET_FINAL_RANGE(&dr));
      VP_REQUIRE(dr == er, "c02:proj-range-mismatch", "projection decoder final range %08x, encoder %08x", dr, er);
      n = ref_opus_projection_decode_float(rpjdec.p, out.p, ret, pcm.p, exp_dur, 0);
      VP_REQUIRE(n == exp_dur, "c02:proj-ref-decode-count", "reference projection decoder returned %d, expected %d", n, exp_dur);
      ref_opus_projection_decoder_ctl(rpjdec.p, OPUS_GET_FINAL_RANGE(&dr));
      VP_REQUIRE(dr == er, "c02:proj-ref-range-mismatch", "reference projection decoder final range %08x, encoder %08x", dr, er);
      rep.count(2);
    }
    fp = mix(fp, mix(toc0, mix(ret > 8 ? 9 : ret, d)));
    (void)spiced;
  }
  if (changed_setting || transition) rep.nontrivial();
  rep.fingerprint(fp);
  return 0;
}
