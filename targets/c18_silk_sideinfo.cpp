// C18: SILK side information always dequantises to stable, in-range parameters.
//
// Observation points (all non-static symbols of libopus.a): silk_NLSF_decode,
// silk_NLSF_stabilize, silk_NLSF2A, silk_LPC_inverse_pred_gain_c,
// silk_gains_dequant / silk_gains_quant, silk_decode_pitch, silk_decode_indices,
// silk_decode_parameters (on a constructed decoder state), silk_process_NLSFs /
// silk_NLSF_encode (encoder side of the round trip).
//
// Oracles (targets/c18_model.hpp, nothing shared with the library):
//  * NLSF: RFC 6716 Table 25 spacing on the output; RFC 4.2.7.5.2/3 integer model of the
//    reconstruction before stabilisation: decode == stabilize(model), and a vector that
//    already satisfies the spacing comes out unchanged.
//  * LPC: double-precision step-down on the Q12 coefficients (all |k| < 1, prediction gain
//    <= 1e4 * 1.05), the library's own inverse-gain test is non-zero and agrees with the
//    double value, and the coefficients equal the double-precision NLSF->LPC conversion
//    unless that candidate really is (nearly) unstable or does not fit 16 bits.
//  * gains: RFC 4.2.7.4 index recursion, true exponential within the log2lin approximation
//    error, monotone, inside [gain(0), gain(63)].
//  * pitch: RFC 4.2.7.6.1 contour tables, lags inside [2 ms, 18 ms].
//  * round trips: gains_quant -> gains_dequant, process_NLSFs (NLSF_encode) -> decode_parameters.
#include "vp.hpp"
extern "C" {
#include "main.h"
#include "tables.h"
#include "pitch_est_defines.h"
}
#include "common.hpp"
#include "c18_model.hpp"
#include <algorithm>
#include <string>

using namespace vp;

const TargetInfo vp_info = {"c18_silk_sideinfo", 2, 600};

// ---- calibrated numbers (calib/C18.json: observed extremes on the frozen reference) -------
// The double-precision NLSF->LPC comparison is made only in the region where the fixed-point conversion is
// well conditioned and no expansion can be needed: all NLSF gaps (and both ends) >= 128, 4096*A(1) >= 64
// (the library treats sum(a) >= 1 as unstable), exact prediction gain < 1000, largest coefficient <= 32000.
static const int    LPC_TOL_LSB = 10;         // observed max 5 LSB over 5.4e6 region cases (60e6 vectors)
static const int    REGION_MIN_GAP = 128;
static const double REGION_MIN_DC = 64.0;
static const double REGION_MAX_GAIN = 1000.0;
static const double REGION_MAX_COEF = 32000.0;
static const double GAIN_BOUND = 1.0e4 * 1.25;   // library limit 1e4 on its Q30 estimate; observed max 10177.5 (double) over 1e8 vectors
static const double INVGAIN_REL_TOL = 0.25;      // library Q30 inverse gain vs double step-down: observed max 0.041, tail ~ /12 per doubling
static const double COSTAB_TOL = 3.0;             // table vs true cosine: 1.30 (all 129 entries)
static const double GAIN_REL_TOL = 0.016;        // silk_log2lin vs exp2 over all 64 levels: 0.00783 (exhaustive)

// ---- codebooks --------------------------------------------------------------------------------
struct Cb { const silk_NLSF_CB_struct* cb; const int16_t* dmin; c18::CbView view; const char* name; };
static Cb g_cb[2];
static void init_cb() {
  static bool done = false;
  if (done) return;
  done = true;
  const silk_NLSF_CB_struct* p[2] = {&silk_NLSF_CB_NB_MB, &silk_NLSF_CB_WB};
  for (int i = 0; i < 2; i++) {
    g_cb[i].cb = p[i];
    g_cb[i].dmin = i ? c18::DMIN_WB : c18::DMIN_NB_MB;
    g_cb[i].name = i ? "WB" : "NB_MB";
    g_cb[i].view = {p[i]->order, p[i]->quantStepSize_Q16, p[i]->CB1_NLSF_Q8, p[i]->CB1_Wght_Q9, p[i]->pred_Q8, p[i]->ec_sel};
  }
}

template <class T>
static std::string vstr(const T* v, int n) {
  std::string s;
  char b[16];
  for (int i = 0; i < n; i++) { snprintf(b, sizeof b, "%s%d", i ? "," : "", (int)v[i]); s += b; }
  return s;
}

struct Flags { bool lpc_compared = false, stabilised = false, clipped = false, bwe = false, gain_clamped = false, gain_double = false, lag_clamped = false; };

// ---- NLSF ---------------------------------------------------------------------------------------
static int check_nlsf(int cbi, const opus_int8* ind, Report& rep, int16_t* out, Flags& fl) {
  const Cb& C = g_cb[cbi];
  const int d = C.cb->order;
  opus_int8 idx[MAX_LPC_ORDER + 1];
  memcpy(idx, ind, d + 1);
  silk_NLSF_decode(out, idx, C.cb);
  rep.count();
  VP_REQUIRE(memcmp(idx, ind, d + 1) == 0, "c18:nlsf-decode-modifies-indices", "cb=%s indices changed by silk_NLSF_decode", C.name);
  int v = c18::nlsf_violation(out, C.dmin, d);
  VP_REQUIRE(v < 0, "c18:nlsf-spacing", "cb=%s indices=[%s] NLSF=[%s]: constraint %d violated (needs >= %d)", C.name,
             vstr(ind, d + 1).c_str(), vstr(out, d).c_str(), v, C.dmin[v]);
  int16_t raw[16], st[16];
  bool clipped = c18::model_raw_nlsf(C.view, (const int8_t*)ind, raw);
  int rv = c18::nlsf_violation(raw, C.dmin, d);
  memcpy(st, raw, sizeof(int16_t) * d);
  silk_NLSF_stabilize(st, C.cb->deltaMin_Q15, d);
  rep.count();
  VP_REQUIRE(memcmp(st, out, sizeof(int16_t) * d) == 0, "c18:nlsf-dequant-arith",
             "cb=%s indices=[%s]: silk_NLSF_decode=[%s] but stabilize(RFC reconstruction [%s])=[%s]", C.name, vstr(ind, d + 1).c_str(),
             vstr(out, d).c_str(), vstr(raw, d).c_str(), vstr(st, d).c_str());
  int16_t rfc[16];
  memcpy(rfc, raw, sizeof(int16_t) * d);
  c18::model_stabilize(rfc, C.dmin, d);
  VP_REQUIRE(memcmp(rfc, out, sizeof(int16_t) * d) == 0, "c18:nlsf-differs-from-rfc",
             "cb=%s indices=[%s]: silk_NLSF_decode=[%s], RFC 6716 4.2.7.5.4 applied to the reconstruction [%s] gives [%s]", C.name, vstr(ind, d + 1).c_str(),
             vstr(out, d).c_str(), vstr(raw, d).c_str(), vstr(rfc, d).c_str());
  if (rv < 0) {
    VP_REQUIRE(memcmp(raw, out, sizeof(int16_t) * d) == 0, "c18:nlsf-valid-vector-altered", "cb=%s indices=[%s]: reconstruction [%s] is already valid but came out as [%s]",
               C.name, vstr(ind, d + 1).c_str(), vstr(raw, d).c_str(), vstr(out, d).c_str());
  } else {
    fl.stabilised = true;
  }
  if (clipped) fl.clipped = true;
  return 0;
}

// ---- LPC ----------------------------------------------------------------------------------------
// nlsf != NULL: the coefficients are claimed to be silk_NLSF2A(nlsf) without later modification.
static int check_lpc(const int16_t* nlsf, int d, const opus_int16* a, Report& rep, Flags& fl, const char* what) {
  c18::StepDown s = c18::step_down_Q12(a, d);
  VP_REQUIRE(s.stable, "c18:lpc-unstable", "%s: a_Q12=[%s] from NLSF=[%s]: reflection coefficient magnitude %.6f >= 1", what, vstr(a, d).c_str(),
             nlsf ? vstr(nlsf, d).c_str() : "-", s.max_abs_k);
  VP_REQUIRE(s.gain <= GAIN_BOUND, "c18:lpc-gain-unbounded", "%s: a_Q12=[%s] from NLSF=[%s]: prediction gain %.1f > 1e4", what, vstr(a, d).c_str(),
             nlsf ? vstr(nlsf, d).c_str() : "-", s.gain);
  opus_int32 ig = silk_LPC_inverse_pred_gain_c(a, d);
  rep.count();
  VP_REQUIRE(ig > 0, "c18:lpc-invgain-zero", "%s: a_Q12=[%s]: silk_LPC_inverse_pred_gain_c returned %d (double step-down gain %.1f)", what, vstr(a, d).c_str(), ig, s.gain);
  double rel = (ig / 1073741824.0) * s.gain - 1.0;
  VP_REQUIRE(std::fabs(rel) <= INVGAIN_REL_TOL, "c18:lpc-invgain-inaccurate", "%s: a_Q12=[%s]: library inverse gain %d (Q30) vs double 1/%.3f (rel %.4f)", what,
             vstr(a, d).c_str(), ig, s.gain, rel);
  if (nlsf) {
    double am[16];
    c18::model_nlsf2a(nlsf, d, silk_LSFCosTab_FIX_Q12, am);
    int16_t cand[16];
    int maxdev = 0;
    double maxabs = 0, sum = 0;
    for (int i = 0; i < d; i++) {
      double q = std::floor(am[i] * 4096.0 + 0.5);
      sum += am[i];
      if (std::fabs(q) > maxabs) maxabs = std::fabs(q);
      double dv = std::fabs(q - a[i]);
      if (dv > maxdev) maxdev = dv > 100000 ? 100000 : (int)dv;
      cand[i] = (int16_t)(q > 32767 ? 32767 : q < -32768 ? -32768 : q);
    }
    // bandwidth expansion and the 16-bit fit only ever shrink a coefficient towards zero: a large coefficient
    // never changes sign and never grows (observed ratio 0 .. 1.0005 over 4e7 vectors) - catches int16 wrap-around
    for (int i = 0; i < d; i++) {
      double q = std::floor(am[i] * 4096.0 + 0.5);
      if (std::fabs(q) >= 8192.0) {
        double ratio = a[i] / q;
        VP_REQUIRE(ratio >= 0.0 && ratio <= 1.002, "c18:lpc-not-a-contraction", "%s: NLSF=[%s] coefficient %d: double-precision value %.0f (Q12), library %d", what,
                   vstr(nlsf, d).c_str(), i, q, a[i]);
      }
    }
    int gap = std::min((int)nlsf[0], 32768 - nlsf[d - 1]);
    for (int i = 1; i < d; i++) gap = std::min(gap, nlsf[i] - nlsf[i - 1]);
    c18::StepDown se = c18::step_down(am, d);
    bool region = gap >= REGION_MIN_GAP && 4096.0 * (1.0 - sum) >= REGION_MIN_DC && se.stable && se.gain < REGION_MAX_GAIN && maxabs <= REGION_MAX_COEF;
    if (region) {
      VP_REQUIRE(maxdev <= LPC_TOL_LSB, "c18:lpc-differs-from-nlsf",
                 "%s: NLSF=[%s] is well conditioned (min gap %d, gain %.1f): double-precision LPC (Q12) [%s], library [%s] (max deviation %d LSB)", what,
                 vstr(nlsf, d).c_str(), gap, se.gain, vstr(cand, d).c_str(), vstr(a, d).c_str(), maxdev);
      fl.lpc_compared = true;
    } else if (maxdev > LPC_TOL_LSB) {
      fl.bwe = true;
    }
  }
  return 0;
}

static int check_nlsf_and_lpc(int cbi, const opus_int8* ind, Report& rep, Flags& fl) {
  int16_t nlsf[16];
  opus_int16 a[16];
  const int d = g_cb[cbi].cb->order;
  if (check_nlsf(cbi, ind, rep, nlsf, fl)) return 1;
  silk_NLSF2A(a, nlsf, d, 0);
  rep.count();
  return check_lpc(nlsf, d, a, rep, fl, "NLSF2A");
}

// ---- gains --------------------------------------------------------------------------------------
// one call of silk_gains_dequant against the RFC recursion; prev is the model's state
static int check_gains_dequant(const opus_int8* ind, int prev, int cond, int nb, Report& rep, Flags& fl, int* prev_out, opus_int32* gains_out) {
  opus_int32 g[MAX_NB_SUBFR] = {-1, -1, -1, -1};
  opus_int8 p = (opus_int8)prev;
  silk_gains_dequant(g, ind, &p, cond, nb);
  rep.count();
  int mp = prev;
  for (int k = 0; k < nb; k++) {
    bool delta = !(k == 0 && !cond);
    int raw = delta ? std::max(2 * ind[k] - 16, mp + ind[k] - 4) : ind[k];
    if (delta && (raw < 0 || raw > 63)) fl.gain_clamped = true;
    if (delta && 2 * ind[k] - 16 > mp + ind[k] - 4) fl.gain_double = true;
    if (!delta && ind[k] < mp - 16) fl.gain_clamped = true;
    mp = c18::model_gain_index(mp, ind[k], delta);
    double want = c18::model_gain_Q16(mp);
    VP_REQUIRE(g[k] >= 1 && std::fabs(g[k] / want - 1.0) <= GAIN_REL_TOL, "c18:gain-value",
               "prev=%d cond=%d nb=%d indices=[%s] sub-frame %d: gain_Q16 %d, model index %d -> %.1f", prev, cond, nb, vstr(ind, nb).c_str(), k, g[k], mp, want);
  }
  VP_REQUIRE(p == mp, "c18:gain-index", "prev=%d cond=%d nb=%d indices=[%s]: library index %d, RFC recursion %d", prev, cond, nb, vstr(ind, nb).c_str(), p, mp);
  VP_REQUIRE(p >= 0 && p <= N_LEVELS_QGAIN - 1, "c18:gain-index-range", "index %d", p);
  *prev_out = mp;
  if (gains_out) memcpy(gains_out, g, sizeof g);
  return 0;
}

// gain table: strictly monotone in the index, inside [gain(0), gain(63)]
static int check_gain_table(Report& rep) {
  opus_int32 last = 0, g0 = 0, g63 = 0;
  for (int i = 0; i < 64; i++) {
    opus_int32 g[MAX_NB_SUBFR];
    opus_int8 ind[MAX_NB_SUBFR] = {(opus_int8)i, 0, 0, 0};
    opus_int8 p = 0;
    silk_gains_dequant(g, ind, &p, 0, 1);
    rep.count();
    VP_REQUIRE(p == i, "c18:gain-index", "independent index %d from previous 0 gave %d", i, p);
    VP_REQUIRE(g[0] > last, "c18:gain-not-monotone", "gain(%d)=%d <= gain(%d)=%d", i, g[0], i - 1, last);
    last = g[0];
    if (i == 0) g0 = g[0];
    g63 = g[0];
  }
  // 2 dB .. 88 dB with 6.02 dB per octave of the Q7 log domain (RFC: 1.369 dB steps)
  VP_REQUIRE(g0 >= 65536 && g0 < 2 * 65536, "c18:gain-range", "gain(0) = %d", g0);
  VP_REQUIRE(g63 > (1 << 30) && g63 < 0x7FFFFFFF, "c18:gain-range", "gain(63) = %d", g63);
  return 0;
}

// ---- pitch --------------------------------------------------------------------------------------
static int check_pitch(int fs, int nb, int lagIndex, int contour, Report& rep, Flags& fl) {
  opus_int lags[MAX_NB_SUBFR] = {-99999, -99999, -99999, -99999};
  silk_decode_pitch((opus_int16)lagIndex, (opus_int8)contour, lags, fs, nb);
  rep.count();
  for (int k = 0; k < nb; k++) {
    VP_REQUIRE(lags[k] >= 2 * fs && lags[k] <= 18 * fs, "c18:pitch-lag-range", "fs=%d kHz nb_subfr=%d lagIndex=%d contour=%d: lag[%d]=%d outside [%d,%d]", fs, nb,
               lagIndex, contour, k, lags[k], 2 * fs, 18 * fs);
    int m = c18::model_pitch_lag(fs, nb, k, lagIndex, contour);
    VP_REQUIRE(lags[k] == m, "c18:pitch-lag-value", "fs=%d kHz nb_subfr=%d lagIndex=%d contour=%d: lag[%d]=%d, RFC tables give %d", fs, nb, lagIndex, contour, k, lags[k], m);
    int un = 2 * fs + lagIndex + c18::contour_offset(fs, nb, k, contour);
    if (un != m) fl.lag_clamped = true;
  }
  for (int k = nb; k < MAX_NB_SUBFR; k++) VP_REQUIRE(lags[k] == -99999, "c18:pitch-writes-beyond", "lag[%d] written for nb_subfr=%d", k, nb);
  return 0;
}

// ---- generated index vectors --------------------------------------------------------------------
static void gen_residuals(Choice& c, opus_int8* ind, int d) {
  int mode = c.irange(0, 4);
  ind[0] = (opus_int8)c.irange(0, 31);
  for (int i = 1; i <= d; i++) {
    int v;
    switch (mode) {
      case 0: v = (int)(int8_t)c.byte(); v = v % 11; break;                     // full range, signed byte -> [-10,10], 0 -> 0
      case 1: v = c.irange(0, 2) * 10 - 10; break;                             // extremes and zero (0 -> -10)
      case 2: v = c.irange(0, 4) - 2; break;                                  // small
      case 3: v = c.boolean() ? 10 : -10; break;                              // all-extreme sign patterns
      default: v = c.irange(0, 20) - 10; break;
    }
    ind[i] = (opus_int8)v;
  }
}

static const int FS[3] = {8, 12, 16};

// ---- decoder state histories ---------------------------------------------------------------------
static silk_decoder_state g_dec;
static silk_encoder_state g_enc;

struct FrameModel { int last_gain; };

// Checks everything silk_decode_parameters produced for one frame. prevNLSF / LastGainIndex / flags are
// the values *before* the call.
static int check_params_frame(silk_decoder_state& st, const silk_decoder_control& ct, const SideInfoIndices& in, int cond, const int16_t* prevNLSF,
                              int prevGain, int first_after_reset, int lossCnt, Report& rep, Flags& fl) {
  const int d = st.LPC_order, nb = st.nb_subfr, fs = st.fs_kHz;
  const int cbi = d == 16;
  // gains
  int mp;
  opus_int32 g[MAX_NB_SUBFR];
  if (check_gains_dequant(in.GainsIndices, prevGain, cond == CODE_CONDITIONALLY, nb, rep, fl, &mp, g)) return 1;
  for (int k = 0; k < nb; k++) VP_REQUIRE(ct.Gains_Q16[k] == g[k], "c18:params-gain-differs", "sub-frame %d: decode_parameters gain %d, gains_dequant %d", k, ct.Gains_Q16[k], g[k]);
  VP_REQUIRE(st.LastGainIndex == mp, "c18:params-gain-state", "LastGainIndex %d model %d", st.LastGainIndex, mp);
  // NLSF
  int16_t nlsf[16];
  if (check_nlsf(cbi, in.NLSFIndices, rep, nlsf, fl)) return 1;
  VP_REQUIRE(memcmp(nlsf, st.prevNLSF_Q15, sizeof(int16_t) * d) == 0, "c18:params-nlsf-state", "prevNLSF_Q15=[%s] but silk_NLSF_decode gives [%s]",
             vstr(st.prevNLSF_Q15, d).c_str(), vstr(nlsf, d).c_str());
  // LPC, second half
  if (check_lpc(lossCnt ? nullptr : nlsf, d, ct.PredCoef_Q12[1], rep, fl, lossCnt ? "PredCoef[1] after loss" : "PredCoef[1]")) return 1;
  int interp = in.NLSFInterpCoef_Q2;
  if (first_after_reset) {
    VP_REQUIRE(st.indices.NLSFInterpCoef_Q2 == 4, "c18:interp-after-reset", "interpolation factor %d used on the first frame after a reset", st.indices.NLSFInterpCoef_Q2);
    interp = 4;
  }
  if (interp < 4) {
    int16_t n0[16];
    for (int i = 0; i < d; i++) {
      int diff = interp * ((int)nlsf[i] - (int)prevNLSF[i]);
      int q = diff >= 0 ? diff / 4 : -((-diff + 3) / 4);   // floor
      n0[i] = (int16_t)(prevNLSF[i] + q);
    }
    if (check_lpc(lossCnt ? nullptr : n0, d, ct.PredCoef_Q12[0], rep, fl, lossCnt ? "PredCoef[0] interpolated, after loss" : "PredCoef[0] interpolated")) return 1;
  } else {
    VP_REQUIRE(memcmp(ct.PredCoef_Q12[0], ct.PredCoef_Q12[1], sizeof(opus_int16) * d) == 0, "c18:params-lpc-copy", "PredCoef[0] differs from PredCoef[1] without interpolation");
  }
  // pitch
  if (in.signalType == TYPE_VOICED) {
    for (int k = 0; k < nb; k++) {
      VP_REQUIRE(ct.pitchL[k] >= 2 * fs && ct.pitchL[k] <= 18 * fs, "c18:pitch-lag-range", "decode_parameters fs=%d nb=%d lagIndex=%d contour=%d lag[%d]=%d", fs, nb,
                 in.lagIndex, in.contourIndex, k, ct.pitchL[k]);
      int m = c18::model_pitch_lag(fs, nb, k, in.lagIndex, in.contourIndex);
      VP_REQUIRE(ct.pitchL[k] == m, "c18:pitch-lag-value", "decode_parameters fs=%d nb=%d lagIndex=%d contour=%d lag[%d]=%d model %d", fs, nb, in.lagIndex,
                 in.contourIndex, k, ct.pitchL[k], m);
      if (m != 2 * fs + in.lagIndex + c18::contour_offset(fs, nb, k, in.contourIndex)) fl.lag_clamped = true;
    }
    int ls = ct.LTP_scale_Q14;
    VP_REQUIRE(ls == 15565 || ls == 12288 || ls == 8192, "c18:ltp-scale", "LTP scale %d", ls);
    for (int k = 0; k < nb * LTP_ORDER; k++) VP_REQUIRE(ct.LTPCoef_Q14[k] >= -128 * 128 && ct.LTPCoef_Q14[k] <= 127 * 128, "c18:ltp-coef", "LTP coefficient %d", ct.LTPCoef_Q14[k]);
  } else {
    for (int k = 0; k < nb; k++) VP_REQUIRE(ct.pitchL[k] == 0, "c18:unvoiced-lag", "unvoiced frame with lag %d", ct.pitchL[k]);
    for (int k = 0; k < nb * LTP_ORDER; k++) VP_REQUIRE(ct.LTPCoef_Q14[k] == 0, "c18:unvoiced-ltp", "unvoiced frame with LTP coefficient %d", ct.LTPCoef_Q14[k]);
  }
  return 0;
}

static void gen_indices(Choice& c, SideInfoIndices& in, int d, int nb, int fs, int cond) {
  memset(&in, 0, sizeof in);
  in.signalType = (opus_int8)c.irange(0, 2);
  in.quantOffsetType = (opus_int8)c.irange(0, 1);
  in.GainsIndices[0] = (opus_int8)(cond == CODE_CONDITIONALLY ? c.irange(0, 40) : c.irange(0, 63));
  for (int k = 1; k < nb; k++) in.GainsIndices[k] = (opus_int8)c.irange(0, 40);
  gen_residuals(c, in.NLSFIndices, d);
  in.NLSFInterpCoef_Q2 = (opus_int8)(nb == MAX_NB_SUBFR ? c.irange(0, 4) : 4);
  if (in.signalType == TYPE_VOICED) {
    // absolute index 0 .. 16*fs-1, up to two delta steps of -8..+11 (frames 2 and 3 of a packet)
    in.lagIndex = (opus_int16)(c.chance(64) ? c.irange(0, 38) - 16 + (c.boolean() ? 16 * fs - 1 : 0) : c.irange(0, 16 * fs - 1));
    in.contourIndex = (opus_int8)c.irange(0, c18::contour_count(fs, nb) - 1);
    in.PERIndex = (opus_int8)c.irange(0, 2);
    for (int k = 0; k < nb; k++) in.LTPIndex[k] = (opus_int8)c.irange(0, (8 << in.PERIndex) - 1);
    in.LTP_scaleIndex = (opus_int8)(cond == CODE_INDEPENDENTLY ? c.irange(0, 2) : 0);
  }
  in.Seed = (opus_int8)c.irange(0, 3);
}

static void dec_setup(silk_decoder_state& st, int fs, int nb) {
  st.nb_subfr = nb;
  silk_decoder_set_fs(&st, fs, 48000);
}

static int family_params(Choice& c, Report& rep, Flags& fl) {
  silk_decoder_state& st = g_dec;
  silk_init_decoder(&st);
  int fs = FS[c.irange(0, 2)], nb = c.boolean() ? 4 : 2;
  dec_setup(st, fs, nb);
  int npk = 1 + c.irange(0, 7);
  int frames = 0, switches = 0, interp_frames = 0, loss_frames = 0;
  for (int p = 0; p < npk; p++) {
    if (p && c.chance(48)) {
      int nfs = FS[c.irange(0, 2)], nnb = c.boolean() ? 4 : 2;
      if (nfs != fs) switches++;
      fs = nfs; nb = nnb;
      dec_setup(st, fs, nb);
    }
    if (p && c.chance(40)) { st.lossCnt = 1 + c.irange(0, 5); }   // frames were concealed before this packet
    int nfr = nb == 4 ? 1 + c.irange(0, 2) : 1;
    for (int f = 0; f < nfr; f++) {
      int cond = f == 0 ? CODE_INDEPENDENTLY : (c.chance(40) ? CODE_INDEPENDENTLY_NO_LTP_SCALING : CODE_CONDITIONALLY);
      SideInfoIndices in;
      gen_indices(c, in, st.LPC_order, nb, fs, cond);
      st.indices = in;
      int16_t prevN[16];
      memcpy(prevN, st.prevNLSF_Q15, sizeof prevN);
      int prevG = st.LastGainIndex, far = st.first_frame_after_reset, loss = st.lossCnt;
      silk_decoder_control ct;
      memset(&ct, 0x55, sizeof ct);
      silk_decode_parameters(&st, &ct, cond);
      rep.count();
      if (check_params_frame(st, ct, in, cond, prevN, prevG, far, loss, rep, fl)) return 1;
      if (in.NLSFInterpCoef_Q2 < 4 && !far) interp_frames++;
      if (loss) loss_frames++;
      // what silk_decode_frame does after a decoded frame
      st.lossCnt = 0;
      st.prevSignalType = st.indices.signalType;
      st.first_frame_after_reset = 0;
      frames++;
    }
  }
  rep.label("family:params-history");
  if (interp_frames) rep.label("interpolated-lpc");
  if (loss_frames) rep.label("lpc-after-loss");
  if (switches) rep.label("rate-switch");
  if (frames >= 6) rep.label("history>=6-frames");
  rep.note("decoder history: %d packets / %d frames, %d rate switches, %d interpolated, %d after loss, last fs=%d kHz nb_subfr=%d", npk, frames, switches, interp_frames, loss_frames, fs, nb);
  if (interp_frames || loss_frames || switches) rep.nontrivial();
  return 0;
}

// random bytes through the range decoder -> silk_decode_indices -> silk_decode_parameters
static int family_bits(Choice& c, Report& rep, Flags& fl) {
  silk_decoder_state& st = g_dec;
  silk_init_decoder(&st);
  int fs = FS[c.irange(0, 2)], nb = c.boolean() ? 4 : 2;
  dec_setup(st, fs, nb);
  int npk = 1 + c.irange(0, 3);
  int frames = 0, voiced = 0, delta_lag = 0;
  for (int p = 0; p < npk; p++) {
    if (p && c.chance(40)) { fs = FS[c.irange(0, 2)]; nb = c.boolean() ? 4 : 2; dec_setup(st, fs, nb); }
    int len = 1 + c.irange(0, 90);
    HeapBuf<uint8_t> buf(len);
    c.bytes(buf.p, len);
    ec_dec dec;
    ec_dec_init(&dec, buf.p, (opus_uint32)len);
    int nfr = nb == 4 ? 1 + c.irange(0, 2) : 1;
    int lbrr = c.chance(64);
    for (int f = 0; f < nfr; f++) st.VAD_flags[f] = c.boolean();
    for (int f = 0; f < nfr; f++) {
      int cond = f == 0 ? CODE_INDEPENDENTLY : (c.chance(40) ? CODE_INDEPENDENTLY_NO_LTP_SCALING : CODE_CONDITIONALLY);
      int prevLagIdx = st.ec_prevLagIndex, prevType = st.ec_prevSignalType;
      silk_decode_indices(&st, &dec, f, lbrr, cond);
      rep.count();
      const SideInfoIndices in = st.indices;
      const int d = st.LPC_order;
      // the domain the enumerations assume is what a bit-stream can carry
      bool ok = in.signalType >= 0 && in.signalType <= 2 && in.quantOffsetType >= 0 && in.quantOffsetType <= 1 && in.NLSFIndices[0] >= 0 && in.NLSFIndices[0] <= 31 &&
                in.NLSFInterpCoef_Q2 >= 0 && in.NLSFInterpCoef_Q2 <= 4 && (nb == 4 || in.NLSFInterpCoef_Q2 == 4) && in.Seed >= 0 && in.Seed <= 3;
      ok = ok && in.GainsIndices[0] >= 0 && in.GainsIndices[0] <= (cond == CODE_CONDITIONALLY ? 40 : 63);
      for (int k = 1; k < nb; k++) ok = ok && in.GainsIndices[k] >= 0 && in.GainsIndices[k] <= 40;
      for (int i = 1; i <= d; i++) ok = ok && in.NLSFIndices[i] >= -10 && in.NLSFIndices[i] <= 10;
      if (in.signalType == TYPE_VOICED) {
        ok = ok && in.lagIndex >= -16 && in.lagIndex <= 16 * fs - 1 + 22 && in.contourIndex >= 0 && in.contourIndex < c18::contour_count(fs, nb) && in.PERIndex >= 0 &&
             in.PERIndex <= 2 && in.LTP_scaleIndex >= 0 && in.LTP_scaleIndex <= 2;
        for (int k = 0; k < nb; k++) ok = ok && in.LTPIndex[k] >= 0 && in.LTPIndex[k] < (8 << in.PERIndex);
        voiced++;
        if (cond == CODE_CONDITIONALLY && prevType == TYPE_VOICED && in.lagIndex != prevLagIdx) delta_lag++;
      }
      VP_REQUIRE(ok, "c18:index-domain", "fs=%d nb=%d cond=%d: decoded indices outside the coded alphabet: type=%d gains=[%s] nlsf=[%s] interp=%d lag=%d contour=%d per=%d ltp=[%s] scale=%d",
                 fs, nb, cond, in.signalType, vstr(in.GainsIndices, nb).c_str(), vstr(in.NLSFIndices, d + 1).c_str(), in.NLSFInterpCoef_Q2, in.lagIndex, in.contourIndex,
                 in.PERIndex, vstr(in.LTPIndex, nb).c_str(), in.LTP_scaleIndex);
      int16_t prevN[16];
      memcpy(prevN, st.prevNLSF_Q15, sizeof prevN);
      int prevG = st.LastGainIndex, far = st.first_frame_after_reset, loss = st.lossCnt;
      silk_decoder_control ct;
      memset(&ct, 0x55, sizeof ct);
      silk_decode_parameters(&st, &ct, cond);
      rep.count();
      if (check_params_frame(st, ct, in, cond, prevN, prevG, far, loss, rep, fl)) return 1;
      st.lossCnt = 0;
      st.prevSignalType = st.indices.signalType;
      st.first_frame_after_reset = 0;
      frames++;
    }
  }
  rep.label("family:bitstream");
  if (voiced) rep.label("bitstream-voiced");
  if (delta_lag) rep.label("bitstream-delta-lag");
  rep.note("range-decoded side information: %d packets / %d frames (%d voiced, %d delta-coded lags), last fs=%d kHz nb_subfr=%d", npk, frames, voiced, delta_lag, fs, nb);
  if (voiced || frames > 1) rep.nontrivial();
  return 0;
}

static int family_gain_chain(Choice& c, Report& rep, Flags& fl) {
  int prev = c.irange(0, 63);
  int n = 1 + c.irange(0, 47);
  int start = prev;
  for (int i = 0; i < n; i++) {
    int nb = c.boolean() ? 4 : 2;
    int cond = c.chance(170);
    opus_int8 ind[MAX_NB_SUBFR];
    int mode = c.irange(0, 2);   // 0 any, 1 falling (small deltas), 2 rising (large deltas)
    for (int k = 0; k < nb; k++) {
      bool delta = !(k == 0 && !cond);
      ind[k] = (opus_int8)(delta ? (mode == 1 ? c.irange(0, 4) : mode == 2 ? 40 - c.irange(0, 12) : c.irange(0, 40)) : c.irange(0, 63));
    }
    int np;
    if (check_gains_dequant(ind, prev, cond, nb, rep, fl, &np, nullptr)) return 1;
    prev = np;
  }
  rep.label("family:gain-chain");
  rep.note("gain chain: start index %d, %d dequantiser calls, final index %d", start, n, prev);
  return 0;
}

static int family_rt_gains(Choice& c, Report& rep, Flags& fl) {
  int prev = c.irange(0, 63), cond = c.boolean(), nb = c.boolean() ? 4 : 2;
  opus_int32 gq[MAX_NB_SUBFR] = {0, 0, 0, 0}, gin[MAX_NB_SUBFR] = {0, 0, 0, 0}, gd[MAX_NB_SUBFR];
  for (int k = 0; k < nb; k++) {
    int e = c.irange(0, 30);
    uint32_t v = (1u << e) + (c.u32() & ((1u << e) - 1));
    gin[k] = gq[k] = (opus_int32)v;   // 1 .. 2^31-1
  }
  opus_int8 ind[MAX_NB_SUBFR] = {0, 0, 0, 0};
  opus_int8 pq = (opus_int8)prev;
  silk_gains_quant(ind, gq, &pq, cond, nb);
  rep.count();
  for (int k = 0; k < nb; k++) {
    int hi = (k == 0 && !cond) ? 63 : 40;
    VP_REQUIRE(ind[k] >= 0 && ind[k] <= hi, "c18:gains-quant-index-range", "prev=%d cond=%d gains=[%s]: index[%d]=%d not codable (0..%d)", prev, cond, vstr(gin, nb).c_str(), k, ind[k], hi);
  }
  int mp;
  if (check_gains_dequant(ind, prev, cond, nb, rep, fl, &mp, gd)) return 1;
  VP_REQUIRE(mp == pq, "c18:gains-roundtrip-index", "prev=%d cond=%d gains=[%s] indices=[%s]: encoder index %d, decoder index %d", prev, cond, vstr(gin, nb).c_str(), vstr(ind, nb).c_str(), pq, mp);
  for (int k = 0; k < nb; k++)
    VP_REQUIRE(gd[k] == gq[k], "c18:gains-roundtrip-value", "prev=%d cond=%d gains=[%s] indices=[%s]: sub-frame %d encoder %d decoder %d", prev, cond, vstr(gin, nb).c_str(),
               vstr(ind, nb).c_str(), k, gq[k], gd[k]);
  // the quantiser error is bounded when the input lies inside the quantiser's range and no limit is active:
  // hysteresis rounds towards the previous index, so the error is below one step (1.369 dB) in the log domain
  rep.label("family:rt-gains");
  rep.note("gain round trip: prev=%d cond=%d nb_subfr=%d gains=[%s] -> indices [%s]", prev, cond, nb, vstr(gin, nb).c_str(), vstr(ind, nb).c_str());
  return 0;
}

// soak/debug aid: C18_FAMILY=n in the environment forces one family (never set by ./check)
static int g_force_family = -1;
static int g_rt_gap = 48, g_rt_amp_mul = 1;   // margin experiments only (C18_RT_GAP / C18_RT_AMP)
extern "C" void vp_init() { const char* e = getenv("C18_FAMILY"); if (e && *e) g_force_family = atoi(e);
  e = getenv("C18_RT_GAP"); if (e && *e) g_rt_gap = atoi(e);
  e = getenv("C18_RT_AMP"); if (e && *e) g_rt_amp_mul = atoi(e); }

static int family_rt_nlsf(Choice& c, Report& rep, Flags& fl) {
  int fs = FS[c.irange(0, 2)];
  int nb = c.boolean() ? 4 : 2;
  int cbi = fs == 16;
  const Cb& C = g_cb[cbi];
  const int d = C.cb->order;
  // previous quantised vector: a decoder output
  opus_int8 pind[MAX_LPC_ORDER + 1];
  gen_residuals(c, pind, d);
  int16_t prev[16];
  silk_NLSF_decode(prev, pind, C.cb);
  // target vector: a codebook-reachable point (small residuals) plus bounded noise, kept sorted with a gap floor.
  // (Targets with near-coincident NLSFs make the Laroia weights huge and silk_NLSF_del_dec_quant's 32-bit
  // rate-distortion accumulator overflow; that is an encoder-search matter outside this property, so the
  // generator stays with targets the way silk_A2NLSF delivers them for ordinary signals.)
  int16_t tgt[16], tgt0[16];
  {
    opus_int8 bind[MAX_LPC_ORDER + 1];
    bind[0] = (opus_int8)c.irange(0, 31);
    for (int i = 1; i <= d; i++) bind[i] = (opus_int8)(c.irange(0, 6) - 3);
    silk_NLSF_decode(tgt, bind, C.cb);
    static const int AMP[4] = {0, 8, 32, 100};
    int amp = AMP[c.irange(0, 3)] * g_rt_amp_mul;
    int v[16];
    for (int i = 0; i < d; i++) v[i] = tgt[i] + (amp ? c.irange(0, 2 * amp) - amp : 0);
    std::sort(v, v + d);
    const int G = g_rt_gap;
    if (v[0] < G) v[0] = G;
    for (int i = 1; i < d; i++) if (v[i] < v[i - 1] + G) v[i] = v[i - 1] + G;
    if (v[d - 1] > 32767 - G) v[d - 1] = 32767 - G;
    for (int i = d - 2; i >= 0; i--) if (v[i] > v[i + 1] - G) v[i] = v[i + 1] - G;
    for (int i = 0; i < d; i++) tgt[i] = (int16_t)v[i];
  }
  memcpy(tgt0, tgt, sizeof tgt);
  silk_encoder_state& e = g_enc;
  memset(&e, 0, sizeof e);
  e.speech_activity_Q8 = c.irange(0, 256);
  e.nb_subfr = nb;
  e.predictLPCOrder = d;
  e.psNLSF_CB = C.cb;
  e.NLSF_MSVQ_Survivors = 2 + c.irange(0, 14);
  e.indices.signalType = (opus_int8)c.irange(0, 2);
  e.useInterpolatedNLSFs = nb == 4 && c.boolean();
  e.indices.NLSFInterpCoef_Q2 = (opus_int8)(e.useInterpolatedNLSFs ? c.irange(0, 4) : 4);
  e.arch = 0;
  opus_int16 pc[2][MAX_LPC_ORDER];
  memset(pc, 0, sizeof pc);
  silk_process_NLSFs(&e, pc, tgt, prev);
  rep.count();
  const opus_int8* ind = e.indices.NLSFIndices;
  bool ok = ind[0] >= 0 && ind[0] <= 31;
  for (int i = 1; i <= d; i++) ok = ok && ind[i] >= -10 && ind[i] <= 10;
  VP_REQUIRE(ok, "c18:nlsf-encode-index-range", "cb=%s target=[%s]: indices [%s] not codable", C.name, vstr(tgt0, d).c_str(), vstr(ind, d + 1).c_str());
  int16_t dq[16];
  if (check_nlsf(cbi, ind, rep, dq, fl)) return 1;
  VP_REQUIRE(memcmp(dq, tgt, sizeof(int16_t) * d) == 0, "c18:nlsf-roundtrip", "cb=%s target=[%s] indices=[%s]: encoder reconstruction [%s], decoder [%s]", C.name,
             vstr(tgt0, d).c_str(), vstr(ind, d + 1).c_str(), vstr(tgt, d).c_str(), vstr(dq, d).c_str());
  // decoder side with the same history
  silk_decoder_state& st = g_dec;
  silk_init_decoder(&st);
  dec_setup(st, fs, nb);
  st.first_frame_after_reset = 0;
  memcpy(st.prevNLSF_Q15, prev, sizeof(int16_t) * d);
  SideInfoIndices in;
  memset(&in, 0, sizeof in);
  memcpy(in.NLSFIndices, ind, d + 1);
  in.NLSFInterpCoef_Q2 = e.indices.NLSFInterpCoef_Q2;
  in.signalType = e.indices.signalType == TYPE_VOICED ? TYPE_UNVOICED : e.indices.signalType;
  in.GainsIndices[0] = (opus_int8)c.irange(0, 63);
  st.indices = in;
  int prevG = st.LastGainIndex;
  silk_decoder_control ct;
  memset(&ct, 0x55, sizeof ct);
  silk_decode_parameters(&st, &ct, CODE_INDEPENDENTLY);
  rep.count();
  if (check_params_frame(st, ct, in, CODE_INDEPENDENTLY, prev, prevG, 0, 0, rep, fl)) return 1;
  for (int h = 0; h < 2; h++)
    VP_REQUIRE(memcmp(pc[h], ct.PredCoef_Q12[h], sizeof(opus_int16) * d) == 0, "c18:enc-dec-lpc-mismatch",
               "cb=%s interp=%d half %d: encoder LPC [%s], decoder LPC [%s] for indices [%s] prev [%s]", C.name, in.NLSFInterpCoef_Q2, h, vstr(pc[h], d).c_str(),
               vstr(ct.PredCoef_Q12[h], d).c_str(), vstr(ind, d + 1).c_str(), vstr(prev, d).c_str());
  rep.label("family:rt-nlsf");
  if (in.NLSFInterpCoef_Q2 < 4) rep.label("rt-nlsf-interpolated");
  rep.note("NLSF round trip: cb=%s nb_subfr=%d interp=%d survivors=%d target=[%s] -> indices [%s]", C.name, nb, in.NLSFInterpCoef_Q2, e.NLSF_MSVQ_Survivors, vstr(tgt0, d).c_str(),
           vstr(ind, d + 1).c_str());
  rep.nontrivial();
  rep.fingerprint(fnv1a(ind, d + 1));
  rep.fingerprint(fnv1a(prev, sizeof(int16_t) * d));
  return 0;
}

// ---- enumerated blocks -------------------------------------------------------------------------------
// E7: NB/MB codebook, stage-1 vector i1, residuals in {-10,0,10}^10: block = base-3 digits of the upper five
//     coefficients, the lower five are looped here (243 vectors).
// E8: WB codebook, residuals in {-10,10}^16: block = sign bits of the upper eight coefficients, the lower
//     eight are looped here (256 vectors).
// E9: one coefficient at every value -10..10, others zero (both codebooks).
// E10: gains: previous index x conditional flag; all first indices x all second delta indices.
// E11: pitch: rate x sub-frame count x contour; lag index -64..600.
static const uint64_t N_E7 = 32ull * 243, N_E8 = 32ull * 256, N_E9 = 64, N_E10 = 128;
static int e11_count() { int n = 0; for (int f = 0; f < 3; f++) for (int s = 0; s < 2; s++) n += c18::contour_count(FS[f], s ? 4 : 2); return n; }

extern "C" uint64_t vp_enum_count() { return N_E7 + N_E8 + N_E9 + N_E10 + (uint64_t)e11_count(); }
extern "C" void vp_enum_case(uint64_t idx, std::vector<uint8_t>& out) {
  out.clear();
  if (idx < N_E7) { out = {7, (uint8_t)(idx / 243), (uint8_t)(idx % 243)}; return; }
  idx -= N_E7;
  if (idx < N_E8) { out = {8, (uint8_t)(idx / 256), (uint8_t)(idx % 256)}; return; }
  idx -= N_E8;
  if (idx < N_E9) { out = {9, (uint8_t)(idx / 32), (uint8_t)(idx % 32)}; return; }
  idx -= N_E9;
  if (idx < N_E10) { out = {10, (uint8_t)(idx / 2), (uint8_t)(idx % 2)}; return; }
  idx -= N_E10;
  for (int f = 0; f < 3; f++) for (int s = 0; s < 2; s++) {
    uint64_t n = c18::contour_count(FS[f], s ? 4 : 2);
    if (idx < n) { out = {11, (uint8_t)f, (uint8_t)s, (uint8_t)idx}; return; }
    idx -= n;
  }
}

static int family_enum_nlsf(int fam, Choice& c, Report& rep, Flags& fl) {
  opus_int8 ind[MAX_LPC_ORDER + 1];
  int nstab = 0, nbwe = 0;
  if (fam == 7) {
    int i1 = c.byte() & 31, blk = c.byte() % 243;
    ind[0] = (opus_int8)i1;
    int b = blk;
    for (int i = 5; i < 10; i++) { ind[1 + i] = (opus_int8)((b % 3) * 10 - 10); b /= 3; }
    for (int lo = 0; lo < 243; lo++) {
      int t = lo;
      for (int i = 0; i < 5; i++) { ind[1 + i] = (opus_int8)((t % 3) * 10 - 10); t /= 3; }
      Flags f1;
      if (check_nlsf_and_lpc(0, ind, rep, f1)) return 1;
      nstab += f1.stabilised; nbwe += f1.bwe; fl.clipped |= f1.clipped; fl.lpc_compared |= f1.lpc_compared;
    }
    rep.label("family:enum-nb-block");
    rep.note("NB/MB codebook, stage-1 vector %d, residuals {-10,0,10}^10 block %d (243 vectors): %d stabilised, %d bandwidth-expanded", i1, blk, nstab, nbwe);
    rep.fingerprint(7); rep.fingerprint(i1 * 256 + blk);
  } else if (fam == 8) {
    int i1 = c.byte() & 31, blk = c.byte();
    ind[0] = (opus_int8)i1;
    for (int i = 8; i < 16; i++) ind[1 + i] = (opus_int8)(((blk >> (i - 8)) & 1) ? 10 : -10);
    for (int lo = 0; lo < 256; lo++) {
      for (int i = 0; i < 8; i++) ind[1 + i] = (opus_int8)(((lo >> i) & 1) ? 10 : -10);
      Flags f1;
      if (check_nlsf_and_lpc(1, ind, rep, f1)) return 1;
      nstab += f1.stabilised; nbwe += f1.bwe; fl.clipped |= f1.clipped; fl.lpc_compared |= f1.lpc_compared;
    }
    rep.label("family:enum-wb-block");
    rep.note("WB codebook, stage-1 vector %d, residuals {-10,10}^16 block %d (256 vectors): %d stabilised, %d bandwidth-expanded", i1, blk, nstab, nbwe);
    rep.fingerprint(8); rep.fingerprint(i1 * 256 + blk);
  } else {
    int cbi = c.byte() & 1, i1 = c.byte() & 31;
    const int d = g_cb[cbi].cb->order;
    ind[0] = (opus_int8)i1;
    if (cbi == 0 && i1 == 0) {
      // the NLSF domain is defined through this table: 2*cos(pi*i/128) in Q12 (tuned by hand upstream, max 1.30 off)
      for (int i = 0; i <= 128; i++) {
        double e = 8192.0 * std::cos(3.14159265358979323846 * i / 128.0);
        VP_REQUIRE(std::fabs(silk_LSFCosTab_FIX_Q12[i] - e) <= COSTAB_TOL, "c18:cos-table", "silk_LSFCosTab_FIX_Q12[%d] = %d, 8192*cos(pi*%d/128) = %.2f", i,
                   silk_LSFCosTab_FIX_Q12[i], i, e);
      }
    }
    for (int k = 0; k < d; k++)
      for (int v = -10; v <= 10; v++) {
        for (int i = 0; i < d; i++) ind[1 + i] = 0;
        ind[1 + k] = (opus_int8)v;
        Flags f1;
        if (check_nlsf_and_lpc(cbi, ind, rep, f1)) return 1;
        nstab += f1.stabilised; nbwe += f1.bwe; fl.clipped |= f1.clipped; fl.lpc_compared |= f1.lpc_compared;
      }
    rep.label("family:enum-single-coefficient");
    rep.note("%s codebook, stage-1 vector %d, each coefficient at -10..10 with the others zero: %d stabilised, %d bandwidth-expanded", g_cb[cbi].name, i1, nstab, nbwe);
    rep.fingerprint(9); rep.fingerprint(cbi * 32 + i1);
  }
  if (nstab) fl.stabilised = true;
  if (nbwe) fl.bwe = true;
  return 0;
}

static int family_enum_gains(Choice& c, Report& rep, Flags& fl) {
  int prev = c.byte() & 63, cond = c.byte() & 1;
  if (prev == 0 && cond == 0 && check_gain_table(rep)) return 1;
  int n0 = cond ? 41 : 64;
  for (int i0 = 0; i0 < n0; i0++)
    for (int i1 = 0; i1 <= 40; i1++) {
      opus_int8 ind[MAX_NB_SUBFR] = {(opus_int8)i0, (opus_int8)i1, (opus_int8)(40 - i1), (opus_int8)((i0 + i1) % 41)};
      int np;
      if (check_gains_dequant(ind, prev, cond, (i1 & 1) ? 4 : 2, rep, fl, &np, nullptr)) return 1;
    }
  rep.label("family:enum-gains");
  rep.note("gains: previous index %d, %s first index: all %d first x 41 second indices", prev, cond ? "delta-coded" : "independently coded", n0);
  rep.fingerprint(10); rep.fingerprint(prev * 2 + cond);
  return 0;
}

static int family_enum_pitch(Choice& c, Report& rep, Flags& fl) {
  int fs = FS[c.byte() % 3], nb = (c.byte() & 1) ? 4 : 2;
  int contour = c.byte() % c18::contour_count(fs, nb);
  for (int lag = -64; lag <= 600; lag++)
    if (check_pitch(fs, nb, lag, contour, rep, fl)) return 1;
  rep.label("family:enum-pitch");
  rep.note("pitch: %d kHz, %d sub-frames, contour %d, lag index -64..600", fs, nb, contour);
  rep.fingerprint(11); rep.fingerprint(fs * 1000 + nb * 100 + contour);
  return 0;
}


// ---- real silk_decode_frame over histories (resets, rate switches, lost frames, LBRR requests) -------------------------
// State maintenance between frames is the library's own here (the params/bitstream families emulate it).  Oracles:
//  * the frozen snapshot's silk_decode_frame driven by the identical call sequence returns the same sample count and the same
//    16-bit samples (the speech-layer decoder is integer-exact; its own state lives in a separately allocated, generously sized
//    block so that only outputs are compared);
//  * harness-tracked history: the first frame decoded after a reset (initialisation or an internal-rate change) has nothing to
//    interpolate with, however many frames were concealed in between, so its interpolation factor must have been forced to 4;
//  * the vector kept for the next interpolation satisfies the codebook spacing, the lag kept for the next frame is legal.
extern "C" {
opus_int ref_silk_init_decoder(silk_decoder_state* psDec);
opus_int ref_silk_decoder_set_fs(silk_decoder_state* psDec, opus_int fs_kHz, opus_int32 fs_API_Hz);
opus_int ref_silk_decode_frame(silk_decoder_state* psDec, ec_dec* psRangeDec, opus_int16 pOut[], opus_int32* pN, opus_int lostFlag, opus_int condCoding, int arch);
void ref_ec_dec_init(ec_dec* _this, unsigned char* _buf, opus_uint32 _storage);
}
static int family_frames(Choice& c, Report& rep, Flags& fl) {
  (void)fl;
  silk_decoder_state& st = g_dec;
  static silk_decoder_state* rst = (silk_decoder_state*)calloc(1, sizeof(silk_decoder_state) + 16384);
  silk_init_decoder(&st); ref_silk_init_decoder(rst);
  int fs = FS[c.irange(0, 2)], nb = c.boolean() ? 4 : 2;
  st.nb_subfr = nb; rst->nb_subfr = nb;
  silk_decoder_set_fs(&st, fs, 48000); ref_silk_decoder_set_fs(rst, fs, 48000);
  bool decoded_since_reset = false;
  int npk = 1 + c.irange(0, 7), frames = 0, lost = 0, first_after_loss = 0, interp_used = 0, switches = 0, lbrr_req = 0;
  for (int p = 0; p < npk; p++) {
    if (p && c.chance(40)) {
      int nfs = FS[c.irange(0, 2)], nnb = c.boolean() ? 4 : 2;
      if (nfs != fs) { switches++; decoded_since_reset = false; }
      fs = nfs; nb = nnb;
      st.nb_subfr = nb; rst->nb_subfr = nb;
      silk_decoder_set_fs(&st, fs, 48000); ref_silk_decoder_set_fs(rst, fs, 48000);
    }
    if (c.chance(16)) { silk_init_decoder(&st); ref_silk_init_decoder(rst); st.nb_subfr = nb; rst->nb_subfr = nb; silk_decoder_set_fs(&st, fs, 48000); ref_silk_decoder_set_fs(rst, fs, 48000); decoded_since_reset = false; }
    const int L = st.frame_length;
    int nfr = nb == 4 ? 1 + c.irange(0, 2) : 1;
    int mode = c.irange(0, 9);            // 0..5 decode, 6..7 whole packet lost, 8..9 FEC request (LBRR flags by choice)
    int lostFlag = mode <= 5 ? FLAG_DECODE_NORMAL : mode <= 7 ? FLAG_PACKET_LOST : FLAG_DECODE_LBRR;
    int len = 1 + c.irange(0, 120);
    HeapBuf<uint8_t> buf(len), rbuf(len);
    c.bytes(buf.p, len); memcpy(rbuf.p, buf.p, len);
    ec_dec dec, rdec;
    ec_dec_init(&dec, buf.p, (opus_uint32)len); ref_ec_dec_init(&rdec, rbuf.p, (opus_uint32)len);
    st.nFramesPerPacket = nfr; rst->nFramesPerPacket = nfr;
    for (int f = 0; f < nfr; f++) { int v = c.boolean(), l = c.boolean(); st.VAD_flags[f] = v; rst->VAD_flags[f] = v; st.LBRR_flags[f] = l; rst->LBRR_flags[f] = l; }
    if (lostFlag == FLAG_DECODE_LBRR) lbrr_req++;
    for (int f = 0; f < nfr; f++) {
      int cond = f == 0 ? CODE_INDEPENDENTLY : (c.chance(40) ? CODE_INDEPENDENTLY_NO_LTP_SCALING : CODE_CONDITIONALLY);
      const bool decodes = lostFlag == FLAG_DECODE_NORMAL || (lostFlag == FLAG_DECODE_LBRR && st.LBRR_flags[f] == 1);
      if (!decodes && lostFlag == FLAG_DECODE_LBRR) cond = CODE_INDEPENDENTLY;
      st.nFramesDecoded = f; rst->nFramesDecoded = f;
      HeapBuf<opus_int16> out(L), rout(L);
      for (int i = 0; i < L; i++) { out[i] = 0x5555; rout[i] = 0x5555; }
      opus_int32 n = -1, rn = -1;
      const int lossCnt_before = st.lossCnt;
      int r1 = silk_decode_frame(&st, &dec, out.p, &n, decodes ? lostFlag : FLAG_PACKET_LOST, cond, 0);
      int r2 = ref_silk_decode_frame(rst, &rdec, rout.p, &rn, decodes ? lostFlag : FLAG_PACKET_LOST, cond, 0);
      rep.count(2);
      VP_REQUIRE(r1 == r2 && n == rn && n == L, "c18:frame-differs-from-frozen-decoder", "packet %d frame %d (fs=%d nb=%d flag=%d cond=%d): return %d/%d samples %d/%d, frame length %d", p, f, fs, nb, lostFlag, cond, r1, r2, (int)n, (int)rn, L);
      for (int i = 0; i < L; i++)
        VP_REQUIRE(out[i] == rout[i], "c18:frame-differs-from-frozen-decoder", "packet %d frame %d (fs=%d kHz nb_subfr=%d flag=%d cond=%d, %d frames concealed before): sample %d is %d, frozen decoder %d", p, f, fs, nb, lostFlag, cond, lossCnt_before, i, out[i], rout[i]);
      if (decodes) {
        frames++;
        if (!decoded_since_reset) {
          VP_REQUIRE(st.indices.NLSFInterpCoef_Q2 == 4, "c18:interpolation-without-previous-vector", "packet %d frame %d: first frame decoded after a reset (%d frames concealed in between) was interpolated with factor %d against an undefined previous vector", p, f, lossCnt_before, st.indices.NLSFInterpCoef_Q2);
          if (lossCnt_before) first_after_loss++;
        } else if (st.indices.NLSFInterpCoef_Q2 < 4) interp_used++;
        decoded_since_reset = true;
        const int16_t* dm = st.LPC_order == 16 ? c18::DMIN_WB : c18::DMIN_NB_MB;
        const int d = st.LPC_order;
        bool ok = st.prevNLSF_Q15[0] >= dm[0] && 32768 - st.prevNLSF_Q15[d - 1] >= dm[d];
        for (int i = 1; i < d; i++) ok = ok && st.prevNLSF_Q15[i] - st.prevNLSF_Q15[i - 1] >= dm[i];
        VP_REQUIRE(ok, "c18:kept-nlsf-spacing", "packet %d frame %d: vector kept for interpolation violates the spacing: [%s]", p, f, vstr(st.prevNLSF_Q15, d).c_str());
        VP_REQUIRE(st.lossCnt == 0, "c18:loss-count-after-decoded-frame", "lossCnt %d", st.lossCnt);
      } else lost++;
      VP_REQUIRE(st.lagPrev == 0 || st.lagPrev == 100 || (st.lagPrev >= 2 * fs && st.lagPrev <= 18 * fs), "c18:kept-lag", "lag kept for the next frame is %d at %d kHz (legal: 0 = unvoiced, [%d,%d])", st.lagPrev, fs, 2 * fs, 18 * fs);
    }
  }
  rep.label("family:frames-history");
  if (lost) rep.label("frames-concealed");
  if (first_after_loss) rep.label("frames-first-decode-after-reset-and-loss");
  if (interp_used) rep.label("frames-interpolated");
  if (switches) rep.label("frames-rate-switch");
  if (lbrr_req) rep.label("frames-lbrr-request");
  rep.note("silk_decode_frame history: %d packets, %d decoded frames, %d concealed, %d rate switches, %d first-after-reset-and-loss, last fs=%d kHz nb_subfr=%d", npk, frames, lost, switches, first_after_loss, fs, nb);
  if (frames >= 2 || lost) rep.nontrivial();
  rep.fingerprint(12); rep.fingerprint(fnv1a(c.d, c.n));
  return 0;
}

// ---- encoder pitch analysis vs decoder lag reconstruction ----------------------------------------------------------------
// "Quantising parameters on the encoder side and dequantising them gives the same values the decoder will reconstruct": the lags the
// pitch estimator hands to the rest of the encoder must be exactly what silk_decode_pitch rebuilds from the two indices it emits.
#ifdef FIXED_POINT
extern "C" opus_int silk_pitch_analysis_core(const opus_int16* frame, opus_int* pitch_out, opus_int16* lagIndex, opus_int8* contourIndex, opus_int* LTPCorr_Q15, opus_int prevLag,
                                             const opus_int32 search_thres1_Q16, const opus_int search_thres2_Q13, const opus_int Fs_kHz, const opus_int complexity, const opus_int nb_subfr, int arch);
#else
extern "C" opus_int silk_pitch_analysis_core_FLP(const float* frame, opus_int* pitch_out, opus_int16* lagIndex, opus_int8* contourIndex, float* LTPCorr, opus_int prevLag,
                                                 const float search_thres1, const float search_thres2, const opus_int Fs_kHz, const opus_int complexity, const opus_int nb_subfr, int arch);
#endif
static int family_rt_pitch(Choice& c, Report& rep, Flags& fl) {
  const int fs = FS[c.irange(0, 2)], nb = c.boolean() ? 4 : 2, cx = c.irange(0, 2);
  const int min_lag = 2 * fs, max_lag = 18 * fs;
  const int flen = (PE_LTP_MEM_LENGTH_MS + nb * PE_SUBFR_LENGTH_MS) * fs;
  // periodic excitation with a linearly drifting period: start lag from the whole legal range with both ends favoured
  int region = c.irange(0, 3);
  double lag0 = region == 0 ? max_lag - c.irange(0, 3 * fs) * 0.5 : region == 1 ? min_lag + c.irange(0, 2 * fs) * 0.5 : min_lag + c.irange(0, 2 * (max_lag - min_lag)) * 0.5;
  double drift = (c.irange(0, 40) - 20) * 0.0005 * fs;         // samples of lag per sample of signal: up to +-8 samples over a 16 kHz frame
  int nharm = 1 + c.irange(0, 7);
  double noise = c.irange(0, 3) * 0.02, amp = 2000.0 + 1000.0 * c.irange(0, 10);
  Rng rng(c.u32());
  std::vector<double> x(flen);
  double phase = 0;
  for (int i = 0; i < flen; i++) {
    double lag = lag0 + drift * (i - flen / 2) / 8.0;
    if (lag < min_lag * 0.9) lag = min_lag * 0.9;
    if (lag > max_lag * 1.1) lag = max_lag * 1.1;
    phase += 1.0 / lag;
    double v = 0;
    for (int h = 1; h <= nharm; h++) v += std::sin(2 * M_PI * h * phase) / h;
    x[i] = amp * (v + noise * rng.gauss());
  }
  int prevLag = c.chance(128) ? 0 : (int)lag0 + c.irange(0, 8) - 4;
  if (prevLag < 0) prevLag = 0;
  const double t1 = 0.1 + 0.05 * c.irange(0, 14), t2 = 0.1 + 0.05 * c.irange(0, 14);
  opus_int pitch_out[MAX_NB_SUBFR] = {0, 0, 0, 0};
  opus_int16 lagIndex = -1; opus_int8 contourIndex = -1;
#ifdef FIXED_POINT
  HeapBuf<opus_int16> frame(flen);
  for (int i = 0; i < flen; i++) { double v = x[i]; frame[i] = (opus_int16)(v > 32767 ? 32767 : v < -32768 ? -32768 : lrint(v)); }
  opus_int ltp = 0;
  int unvoiced = silk_pitch_analysis_core(frame.p, pitch_out, &lagIndex, &contourIndex, &ltp, prevLag, (opus_int32)(t1 * 65536), (opus_int)(t2 * 8192), fs, cx, nb, 0);
#else
  HeapBuf<float> frame(flen);
  for (int i = 0; i < flen; i++) frame[i] = (float)x[i];
  float ltp = 0;
  int unvoiced = silk_pitch_analysis_core_FLP(frame.p, pitch_out, &lagIndex, &contourIndex, &ltp, prevLag, (float)t1, (float)t2, fs, cx, nb, 0);
#endif
  rep.count();
  rep.label("family:rt-pitch");
  rep.note("pitch round trip: fs=%d kHz nb_subfr=%d complexity=%d start lag %.1f drift %.4f harmonics %d noise %.2f prevLag %d thresholds %.2f/%.2f -> %s lagIndex=%d contour=%d lags=[%s]", fs, nb, cx, lag0, drift, nharm, noise, prevLag, t1, t2,
           unvoiced ? "unvoiced" : "voiced", lagIndex, contourIndex, vstr(pitch_out, nb).c_str());
  rep.fingerprint(13); rep.fingerprint(fs * 100 + nb * 10 + cx); rep.fingerprint((uint64_t)(lag0 * 2) * 4096 + (uint64_t)(int64_t)(drift * 1000 + 2000));
  if (unvoiced) { rep.label("rt-pitch-unvoiced"); return 0; }
  rep.label("rt-pitch-voiced");
  VP_REQUIRE(lagIndex >= 0 && lagIndex < 16 * fs && lagIndex <= max_lag - min_lag && contourIndex >= 0 && contourIndex < c18::contour_count(fs, nb), "c18:rt-pitch-index-domain",
             "fs=%d nb=%d: the estimator emitted lagIndex %d contour %d outside the coded alphabet", fs, nb, lagIndex, contourIndex);
  opus_int dec[MAX_NB_SUBFR] = {0, 0, 0, 0};
  silk_decode_pitch(lagIndex, contourIndex, dec, fs, nb);
  rep.count();
  bool clamped = false;
  for (int k = 0; k < nb; k++) {
    VP_REQUIRE(pitch_out[k] >= min_lag && pitch_out[k] <= max_lag, "c18:rt-pitch-lag-range", "fs=%d nb=%d: encoder-side lag %d of sub-frame %d outside [%d,%d]", fs, nb, pitch_out[k], k, min_lag, max_lag);
    VP_REQUIRE(pitch_out[k] == dec[k], "c18:rt-pitch-differs", "fs=%d kHz nb_subfr=%d complexity=%d: the estimator works with lags [%s], the decoder rebuilds [%s] from lagIndex %d contour %d", fs, nb, cx,
               vstr(pitch_out, nb).c_str(), vstr(dec, nb).c_str(), lagIndex, contourIndex);
    if (dec[k] == min_lag || dec[k] == max_lag) clamped = true;
  }
  if (clamped) { rep.label("rt-pitch-lag-at-limit"); fl.lag_clamped = true; }
  rep.nontrivial();
  return 0;
}

// ---- entry ---------------------------------------------------------------------------------------------
int vp_case(Choice& c, Report& rep) {
  init_cb();
  static const int FAMMAP[16] = {0, 1, 2, 3, 4, 5, 6, 7, 8, 9, 10, 11, 12, 13, 12, 13};
  int fam = FAMMAP[c.byte() & 15];
  if (g_force_family >= 0) fam = g_force_family;
  Flags fl;
  int r = 0;
  switch (fam) {
    case 0: {
      int cbi = c.boolean();
      opus_int8 ind[MAX_LPC_ORDER + 1];
      const int d = g_cb[cbi].cb->order;
      gen_residuals(c, ind, d);
      r = check_nlsf_and_lpc(cbi, ind, rep, fl);
      rep.label("family:nlsf-random");
      rep.note("cb=%s indices=[%s]", g_cb[cbi].name, vstr(ind, d + 1).c_str());
      rep.fingerprint(100 + cbi); rep.fingerprint(fnv1a(ind, d + 1));
      break;
    }
    case 1: r = family_params(c, rep, fl); break;
    case 2: r = family_gain_chain(c, rep, fl); break;
    case 3: {
      int fs = FS[c.irange(0, 2)], nb = c.boolean() ? 4 : 2;
      int lag = c.irange(0, 664) - 64, contour = c.irange(0, c18::contour_count(fs, nb) - 1);
      r = check_pitch(fs, nb, lag, contour, rep, fl);
      rep.label("family:pitch-random");
      rep.note("pitch fs=%d nb_subfr=%d lagIndex=%d contour=%d", fs, nb, lag, contour);
      rep.fingerprint(3); rep.fingerprint(fs * 10 + nb); rep.fingerprint((lag + 64) * 64 + contour);
      break;
    }
    case 4: r = family_rt_gains(c, rep, fl); break;
    case 5: r = family_rt_nlsf(c, rep, fl); break;
    case 6: r = family_bits(c, rep, fl); break;
    case 7: case 8: case 9: r = family_enum_nlsf(fam, c, rep, fl); break;
    case 10: r = family_enum_gains(c, rep, fl); break;
    case 12: r = family_frames(c, rep, fl); break;
    case 13: r = family_rt_pitch(c, rep, fl); break;
    default: r = family_enum_pitch(c, rep, fl); break;
  }
  if (fl.stabilised) rep.label("nlsf-stabiliser-active");
  if (fl.clipped) rep.label("nlsf-clipped-to-q15-range");
  if (fl.bwe) rep.label("lpc-bandwidth-expanded-or-fitted");
  if (fl.lpc_compared) rep.label("lpc-compared-with-double-model");
  if (fl.gain_clamped) rep.label("gain-index-limited");
  if (fl.gain_double) rep.label("gain-double-step");
  if (fl.lag_clamped) rep.label("lag-clamped");
  // non-trivial: a protective mechanism was exercised (stabiliser, Q15 clamp, bandwidth expansion / fit,
  // gain index limit, lag clamp) or the case carries inter-frame history / a round trip (set in the family)
  if (fl.stabilised || fl.clipped || fl.bwe || fl.gain_clamped || fl.gain_double || fl.lag_clamped) rep.nontrivial();
  return r;
}
