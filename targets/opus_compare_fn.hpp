// The RFC 6716 conformance metric (src/opus_compare.c of the frozen snapshot)
// as a callable function.  The arithmetic is a line-by-line port; the only
// generalisation is `xdown`: the reference may be given at 48 kHz (xdown=1,
// exactly the tool: reference always 48 kHz, stereo reference averaged to mono
// by the caller when nchannels==1) or at the same rate as the test signal
// (xdown=downsample), in which case the reference spectrum is computed with
// the same scaled window as the test signal and only the bands that exist at
// that rate take part in the masking model.
#pragma once
#include <cmath>
#include <cstdlib>
#include <vector>

namespace oc {

static const int NBANDS = 21, NFREQS = 240;
static const int BANDS[NBANDS + 1] = {0, 2, 4, 6, 8, 10, 12, 14, 16, 20, 24, 28, 32, 40, 48, 56, 68, 80, 96, 120, 156, 200};
static const int TEST_WIN_SIZE = 480, TEST_WIN_STEP = 120;

inline void band_energy(float* _out, float* _ps, const int* _bands, int _nbands, const float* _in, int _nchannels, size_t _nframes,
                        int _window_sz, int _step, int _downsample, int out_nbands) {
  std::vector<float> buf((size_t)(3 + _nchannels) * _window_sz);
  float* window = buf.data();
  float* c = window + _window_sz; float* s = c + _window_sz; float* x = s + _window_sz;
  int ps_sz = _window_sz / 2;
  const float PI = 3.14159265F;
  for (int xj = 0; xj < _window_sz; xj++) window[xj] = 0.5F - 0.5F * (float)cos((2 * PI / (_window_sz - 1)) * xj);
  for (int xj = 0; xj < _window_sz; xj++) c[xj] = (float)cos((2 * PI / _window_sz) * xj);
  for (int xj = 0; xj < _window_sz; xj++) s[xj] = (float)sin((2 * PI / _window_sz) * xj);
  for (size_t xi = 0; xi < _nframes; xi++) {
    for (int ci = 0; ci < _nchannels; ci++)
      for (int xk = 0; xk < _window_sz; xk++) x[ci * _window_sz + xk] = window[xk] * _in[(xi * _step + xk) * _nchannels + ci];
    int xj = 0;
    for (int bi = 0; bi < _nbands; bi++) {
      float p[2] = {0, 0};
      for (; xj < _bands[bi + 1]; xj++) {
        for (int ci = 0; ci < _nchannels; ci++) {
          float re = 0, im = 0; int ti = 0;
          for (int xk = 0; xk < _window_sz; xk++) {
            re += c[ti] * x[ci * _window_sz + xk];
            im -= s[ti] * x[ci * _window_sz + xk];
            ti += xj; if (ti >= _window_sz) ti -= _window_sz;
          }
          re *= _downsample; im *= _downsample;
          _ps[(xi * ps_sz + xj) * _nchannels + ci] = re * re + im * im + 100000;
          p[ci] += _ps[(xi * ps_sz + xj) * _nchannels + ci];
        }
      }
      if (_out) {
        _out[(xi * out_nbands + bi) * _nchannels] = p[0] / (_bands[bi + 1] - _bands[bi]);
        if (_nchannels == 2) _out[(xi * out_nbands + bi) * _nchannels + 1] = p[1] / (_bands[bi + 1] - _bands[bi]);
      }
    }
  }
}

// x: reference, interleaved nchannels, xlength frames at 48000/xdown Hz
// y: test, interleaved nchannels, ylength frames at `rate` Hz.  Returns Q (>= 0 passes); -1000 on size mismatch.
inline double quality(const float* x, size_t xlength, int xdown, const float* y, size_t ylength, int nchannels, int rate, double* err_out = nullptr) {
  int ybands = NBANDS, downsample = 48000 / rate;
  switch (rate) { case 8000: ybands = 13; break; case 12000: ybands = 15; break; case 16000: ybands = 17; break; case 24000: ybands = 19; break; default: break; }
  int yfreqs = NFREQS / downsample;
  if (xlength * xdown != ylength * downsample) return -1000;
  if (xlength * xdown < (size_t)TEST_WIN_SIZE) return -1000;
  size_t nframes = (xlength * xdown - TEST_WIN_SIZE + TEST_WIN_STEP) / TEST_WIN_STEP;
  int xbands = xdown == 1 ? NBANDS : ybands;
  int xfreqs = NFREQS / xdown;
  std::vector<float> xb(nframes * NBANDS * nchannels, 0.f), X(nframes * xfreqs * nchannels), Y(nframes * yfreqs * nchannels);
  band_energy(xb.data(), X.data(), BANDS, xbands, x, nchannels, nframes, TEST_WIN_SIZE / xdown, TEST_WIN_STEP / xdown, xdown, NBANDS);
  band_energy(nullptr, Y.data(), BANDS, ybands, y, nchannels, nframes, TEST_WIN_SIZE / downsample, TEST_WIN_STEP / downsample, downsample, NBANDS);
  for (size_t xi = 0; xi < nframes; xi++) {
    for (int bi = 1; bi < xbands; bi++) for (int ci = 0; ci < nchannels; ci++) xb[(xi * NBANDS + bi) * nchannels + ci] += 0.1F * xb[(xi * NBANDS + bi - 1) * nchannels + ci];
    for (int bi = xbands - 1; bi-- > 0;) for (int ci = 0; ci < nchannels; ci++) xb[(xi * NBANDS + bi) * nchannels + ci] += 0.03F * xb[(xi * NBANDS + bi + 1) * nchannels + ci];
    if (xi > 0) for (int bi = 0; bi < xbands; bi++) for (int ci = 0; ci < nchannels; ci++) xb[(xi * NBANDS + bi) * nchannels + ci] += 0.5F * xb[((xi - 1) * NBANDS + bi) * nchannels + ci];
    if (nchannels == 2) for (int bi = 0; bi < xbands; bi++) {
      float l = xb[(xi * NBANDS + bi) * nchannels + 0], r = xb[(xi * NBANDS + bi) * nchannels + 1];
      xb[(xi * NBANDS + bi) * nchannels + 0] += 0.01F * r; xb[(xi * NBANDS + bi) * nchannels + 1] += 0.01F * l;
    }
    for (int bi = 0; bi < ybands; bi++) for (int xj = BANDS[bi]; xj < BANDS[bi + 1]; xj++) for (int ci = 0; ci < nchannels; ci++) {
      X[(xi * xfreqs + xj) * nchannels + ci] += 0.1F * xb[(xi * NBANDS + bi) * nchannels + ci];
      Y[(xi * yfreqs + xj) * nchannels + ci] += 0.1F * xb[(xi * NBANDS + bi) * nchannels + ci];
    }
  }
  for (int bi = 0; bi < ybands; bi++) for (int xj = BANDS[bi]; xj < BANDS[bi + 1]; xj++) for (int ci = 0; ci < nchannels; ci++) {
    float xtmp = X[xj * nchannels + ci], ytmp = Y[xj * nchannels + ci];
    for (size_t xi = 1; xi < nframes; xi++) {
      float xtmp2 = X[(xi * xfreqs + xj) * nchannels + ci], ytmp2 = Y[(xi * yfreqs + xj) * nchannels + ci];
      X[(xi * xfreqs + xj) * nchannels + ci] += xtmp; Y[(xi * yfreqs + xj) * nchannels + ci] += ytmp;
      xtmp = xtmp2; ytmp = ytmp2;
    }
  }
  int max_compare;
  if (rate == 48000) max_compare = BANDS[NBANDS]; else if (rate == 12000) max_compare = BANDS[ybands]; else max_compare = BANDS[ybands] - 3;
  double err = 0;
  for (size_t xi = 0; xi < nframes; xi++) {
    double Ef = 0;
    for (int bi = 0; bi < ybands; bi++) {
      double Eb = 0;
      for (int xj = BANDS[bi]; xj < BANDS[bi + 1] && xj < max_compare; xj++) for (int ci = 0; ci < nchannels; ci++) {
        float re = Y[(xi * yfreqs + xj) * nchannels + ci] / X[(xi * xfreqs + xj) * nchannels + ci];
        float im = re - (float)log(re) - 1;
        if (xj >= 79 && xj <= 81) im *= 0.1F;
        if (xj == 80) im *= 0.1F;
        Eb += im;
      }
      Eb /= (BANDS[bi + 1] - BANDS[bi]) * nchannels;
      Ef += Eb * Eb;
    }
    Ef /= NBANDS; Ef *= Ef; err += Ef * Ef;
  }
  err = pow(err / nframes, 1.0 / 16);
  if (err_out) *err_out = err;
  return 100 * (1 - 0.5 * log(1 + err) / log(1.13));
}

}  // namespace oc
