// C13: 16-bit, 24-bit and float PCM are interchangeable views of the same codec.
//
// Families (first choice):
//   enc      twin single-stream encoders fed x (int16), 256*x (int24), x/32768 (float), LSB depth <= 16,
//            histories with setting changes: identical return value, bytes and final range every frame
//   dec      twin decoders on one packet stream (encoder-derived, loud, corrupted, garbage; loss, FEC, gain,
//            reset): decode24 == lrintf(2^23*float), decode16 == sat16(lrintf(2^15*softclip(float))) with the
//            soft-clip memory carried by the harness exactly as the decoder does; same count, same final range
//   ms-enc   the encoder relation through opus_multistream_encode* (plain layouts, surround, ambisonics)
//   ms-dec   the decoder relations through opus_multistream_decode*, per output channel via the mapping,
//            one soft-clip memory per stream channel
//   proj     opus_projection_decode (16-bit) against the exact integer model
//                 out[row] = sat16( sum_col (M[row][col]*s16[col] + 16384) >> 15 )
//            (s16 = per-stream 16-bit output, taken from a twin multistream decoder with the trivial
//            mapping), the 24-bit analogue, and the float output against the real-valued matrix product.
//            Known deviation F6: the library accumulates in opus_int16 and wraps instead of saturating.
#include "codec_util.hpp"
#include "common.hpp"
#include "c10_ms_util.hpp"
#include "rfc_framing.hpp"
#include "siggen.hpp"
#include "vp.hpp"

using namespace vp;

const TargetInfo vp_info = {"c13_formats", 8, 420};

// ---- conversions written from the property text ------------------------------
static inline opus_int16 conv16(float x) {          // saturate(round-to-nearest(x * 2^15))
  float v = x * 32768.f;
  if (!(v > -32768.f)) v = -32768.f;
  if (v > 32767.f) v = 32767.f;
  return (opus_int16)lrintf(v);
}
static inline opus_int32 conv24(float x) { return (opus_int32)lrintf(x * 8388608.f); }
static const float HUGE_OUT = 255.f;   // beyond this 2^23*x does not fit 32 bits (C19 / F5 territory)

static const double AMPS_I16[6] = {0.5, 1.0, 0.05, 1.6, 0.0004, 0.9};
#ifdef FIXED_POINT
// fixed-point build: float input beyond the documented range +-1.0 is outside what is claimed there (the encoder's analysis down-mix
// sums FLOAT2SIG() of the channels in 32 bits: DESIGN 9.2, note after the findings table); the decoded output cannot exceed full scale anyway
static const double AMPS_LOUD[6] = {0.9, 1.0, 0.4, 0.99, 0.7, 1.0};
#else
static const double AMPS_LOUD[6] = {0.9, 1.5, 0.4, 2.5, 1.1, 5.0};
#endif

// ---- setting changes applied identically to the twins ------------------------
struct Op { int kind = 0; opus_int32 val = 0; };
static Op gen_op(Choice& c, int ch, bool lsb16) {
  Op o;
  static const int W[18] = {0, 10, 6, 6, 4, 5, 4, 3, 4, 3, 3, 6, 3, 6, 2, 2, 3, 2};
  o.kind = c.weighted(W, 18);
  switch (o.kind) {
    case 1: o.val = cu::gen_bitrate(c, ch); break;
    case 2: o.val = 10 - c.irange(0, 10); break;
    case 3: { int k = c.irange(0, 5); o.val = k == 0 ? OPUS_AUTO : cu::BANDWIDTHS[k - 1]; break; }
    case 4: o.val = cu::BANDWIDTHS[4 - c.irange(0, 4)]; break;
    case 5: { int k = c.irange(0, 2); o.val = k == 0 ? OPUS_AUTO : (k > ch ? ch : k); break; }
    case 6: case 7: case 10: case 14: case 15: o.val = c.irange(0, 1); break;
    case 8: o.val = c.irange(0, 2); break;
    case 9: o.val = c.irange(0, 100); break;
    case 11: o.val = lsb16 ? 16 - c.irange(0, 8) : 8 + c.irange(0, 16); break;
    case 12: { int k = c.irange(0, 2); o.val = k == 0 ? OPUS_AUTO : k == 1 ? OPUS_SIGNAL_VOICE : OPUS_SIGNAL_MUSIC; break; }
    case 13: { int k = c.irange(0, 3); o.val = k == 0 ? OPUS_AUTO : 999 + k; break; }
    case 17: { int k = c.irange(0, 9); o.val = k == 0 ? OPUS_FRAMESIZE_ARG : OPUS_FRAMESIZE_2_5_MS + (k - 1); break; }
    default: break;
  }
  return o;
}
#define C13_APPLY(CTL, obj, o, r)                                                   \
  switch ((o).kind) {                                                               \
    case 1: r = CTL(obj, OPUS_SET_BITRATE((o).val)); break;                         \
    case 2: r = CTL(obj, OPUS_SET_COMPLEXITY((o).val)); break;                      \
    case 3: r = CTL(obj, OPUS_SET_BANDWIDTH((o).val)); break;                       \
    case 4: r = CTL(obj, OPUS_SET_MAX_BANDWIDTH((o).val)); break;                   \
    case 5: r = CTL(obj, OPUS_SET_FORCE_CHANNELS((o).val)); break;                  \
    case 6: r = CTL(obj, OPUS_SET_VBR((o).val)); break;                             \
    case 7: r = CTL(obj, OPUS_SET_VBR_CONSTRAINT((o).val)); break;                  \
    case 8: r = CTL(obj, OPUS_SET_INBAND_FEC((o).val)); break;                      \
    case 9: r = CTL(obj, OPUS_SET_PACKET_LOSS_PERC((o).val)); break;                \
    case 10: r = CTL(obj, OPUS_SET_DTX((o).val)); break;                            \
    case 11: r = CTL(obj, OPUS_SET_LSB_DEPTH((o).val)); break;                      \
    case 12: r = CTL(obj, OPUS_SET_SIGNAL((o).val)); break;                         \
    case 13: r = CTL(obj, CU_SET_FORCE_MODE((o).val)); break;                       \
    case 14: r = CTL(obj, OPUS_SET_PREDICTION_DISABLED((o).val)); break;            \
    case 15: r = CTL(obj, OPUS_SET_PHASE_INVERSION_DISABLED((o).val)); break;       \
    case 16: r = CTL(obj, OPUS_RESET_STATE); break;                                 \
    case 17: r = CTL(obj, OPUS_SET_EXPERT_FRAME_DURATION((o).val)); break;          \
    default: r = OPUS_OK; break;                                                    \
  }
static int apply_op(OpusEncoder* e, const Op& o) { int r; C13_APPLY(opus_encoder_ctl, e, o, r) return r; }
static int apply_op_ms(OpusMSEncoder* e, const Op& o) { int r; C13_APPLY(opus_multistream_encoder_ctl, e, o, r) return r; }

static int gen_maxbytes(Choice& c, int streams) {
  int k = c.irange(0, 9);
  if (k < 7) return 1500 * streams + 2500;
  if (k == 7) return 1276;
  if (k == 8) return c.irange(2 * streams, 40 * streams + 10);
  return c.irange(2 * streams, 400 * streams);
}

// the three views of the same int16 audio
struct Views {
  std::vector<opus_int16> s; std::vector<opus_int32> w; std::vector<float> f;
  void from(const std::vector<float>& x) {
    sig::to_int16(x, s);
    w.resize(s.size()); f.resize(s.size());
    for (size_t i = 0; i < s.size(); i++) { w[i] = (opus_int32)s[i] * 256; f[i] = (float)s[i] / 32768.f; }
  }
};

static int cmp_packets(Report& rep, const char* what, int step, int la, int lb, int lf, const uint8_t* a, const uint8_t* b, const uint8_t* f,
                       opus_uint32 ra, opus_uint32 rb, opus_uint32 rf) {
  if (la != lb) return rep.fail("c13:enc-int24-differs", "%s step %d: opus_encode returned %d, encode24(256x) returned %d", what, step, la, lb);
  if (la != lf) return rep.fail("c13:enc-float-differs", "%s step %d: opus_encode returned %d, encode_float(x/32768) returned %d", what, step, la, lf);
  if (la > 0) {
    for (int i = 0; i < la; i++) if (a[i] != b[i]) return rep.fail("c13:enc-int24-differs", "%s step %d: packets of %d bytes differ at byte %d (int16 %02x, int24 %02x)", what, step, la, i, a[i], b[i]);
    for (int i = 0; i < la; i++) if (a[i] != f[i]) return rep.fail("c13:enc-float-differs", "%s step %d: packets of %d bytes differ at byte %d (int16 %02x, float %02x)", what, step, la, i, a[i], f[i]);
  }
  // after an error return no packet exists and the final range is not specified (opus_encode leaves the previous
  // value, opus_encode_float clears it) - compared only for produced packets
  if (la > 0 && ra != rb) return rep.fail("c13:enc-int24-differs", "%s step %d: final range %08x (int16) vs %08x (int24)", what, step, ra, rb);
  if (la > 0 && ra != rf) return rep.fail("c13:enc-float-differs", "%s step %d: final range %08x (int16) vs %08x (float)", what, step, ra, rf);
  return 0;
}

// =============================================================================
// family enc
// =============================================================================
static int fam_enc(Choice& c, Report& rep) {
  rep.label("fam:enc");
  cu::EncCfg cfg = cu::gen_cfg(c);
  cfg.lsb = 16 - c.irange(0, 8);
  int fam = c.irange(0, msu::NFAM - 1);
  double amp = AMPS_I16[c.irange(0, 5)];
  uint32_t seed = c.u32();
  int nsteps = 1 + c.irange(0, 11);
  struct Step { Op op; int d; int maxb; };
  std::vector<Step> steps(nsteps);
  int total = 0;
  for (auto& s : steps) {
    if (c.chance(110)) s.op = gen_op(c, cfg.ch, true);
    static const int DW[9] = {3, 3, 5, 12, 3, 3, 1, 1, 1};
    s.d = (c.weighted(DW, 9) + 3) % 9;       // 0 -> 20 ms
    s.maxb = gen_maxbytes(c, 1);
    total += cu::frame_samples(cfg.Fs, s.d);
  }
  std::vector<float> x; msu::gen_signal(fam, seed, cfg.Fs, cfg.ch, total, amp, x);
  Views v; v.from(x);
  rep.note("enc: %s signal=%s amp=%g steps=%d", cu::cfg_str(cfg).c_str(), msu::fam_name(fam), amp, nsteps);
  rep.fingerprint(fnv1a(&cfg, sizeof cfg)); rep.fingerprint(fam); rep.fingerprint(seed); rep.fingerprint(nsteps);
  if (cfg.lsb < 16) { rep.nontrivial(); rep.label("lsb<16"); }
  if (amp >= 1.0) rep.label("full-scale");

  cu::Enc e[3];
  for (int k = 0; k < 3; k++) {
    int err = 0; e[k].p = opus_encoder_create(cfg.Fs, cfg.ch, cfg.app, &err);
    VP_REQUIRE(e[k].p && err == OPUS_OK, "c13:harness-create", "encoder create failed %d", err);
    int r = cu::apply_cfg(e[k].p, cfg);
    VP_REQUIRE(r == OPUS_OK, "c13:harness-cfg", "generated configuration rejected: %d (%s)", r, cu::cfg_str(cfg).c_str());
  }
  int pos = 0;
  for (int si = 0; si < nsteps; si++) {
    const Step& s = steps[si];
    if (s.op.kind) {
      int r0 = apply_op(e[0].p, s.op), r1 = apply_op(e[1].p, s.op), r2 = apply_op(e[2].p, s.op);
      VP_REQUIRE(r0 == r1 && r0 == r2, "c13:ctl-returns-differ", "ctl kind %d val %d: %d %d %d", s.op.kind, s.op.val, r0, r1, r2);
      rep.note("step %d: ctl kind=%d val=%d -> %d", si, s.op.kind, s.op.val, r0);
      rep.label("setting-change");
      rep.fingerprint(s.op.kind * 1000003u + (uint32_t)s.op.val);
      if (s.op.kind == 11 && r0 == OPUS_OK && s.op.val < 16) { rep.nontrivial(); rep.label("lsb<16"); }
    }
    int n = cu::frame_samples(cfg.Fs, s.d);
    HeapBuf<opus_int16> in16((size_t)n * cfg.ch); HeapBuf<opus_int32> in24((size_t)n * cfg.ch); HeapBuf<float> inf((size_t)n * cfg.ch);
    memcpy(in16.p, &v.s[(size_t)pos * cfg.ch], sizeof(opus_int16) * n * cfg.ch);
    memcpy(in24.p, &v.w[(size_t)pos * cfg.ch], sizeof(opus_int32) * n * cfg.ch);
    memcpy(inf.p, &v.f[(size_t)pos * cfg.ch], sizeof(float) * n * cfg.ch);
    pos += n;
    HeapBuf<uint8_t> pa(s.maxb), pb(s.maxb), pf(s.maxb);
    int la = opus_encode(e[0].p, in16.p, n, pa.p, s.maxb);
    int lb = opus_encode24(e[1].p, in24.p, n, pb.p, s.maxb);
    int lf = opus_encode_float(e[2].p, inf.p, n, pf.p, s.maxb);
    rep.count(3);
    opus_uint32 ra = 0, rb = 0, rf = 0;
    opus_encoder_ctl(e[0].p, OPUS_GET_FINAL_RANGE(&ra)); opus_encoder_ctl(e[1].p, OPUS_GET_FINAL_RANGE(&rb)); opus_encoder_ctl(e[2].p, OPUS_GET_FINAL_RANGE(&rf));
    rep.note("step %d: %d samples max %d -> %d bytes toc=0x%02x", si, n, s.maxb, la, la > 0 ? pa.p[0] : 0);
    if (cmp_packets(rep, "encoder", si, la, lb, lf, pa.p, pb.p, pf.p, ra, rb, rf)) return 1;
    if (la > 0) {
      rfc::TocInfo t = rfc::toc_info(pa.p[0]);
      rep.label(t.mode == rfc::SILK ? "enc-silk" : t.mode == rfc::HYBRID ? "enc-hybrid" : "enc-celt");
      if (la <= 2) rep.label("enc-dtx-or-tiny");
    } else rep.label("enc-error-return");
  }
  return 0;
}

// =============================================================================
// packet stream for the decoder families
// =============================================================================
enum Act { A_NORMAL = 0, A_PLC, A_FEC, A_CORRUPT, A_GARBAGE, A_RESET, A_GAIN, A_SMALLBUF, NACT };
static const int ACT_W[NACT] = {14, 4, 4, 3, 1, 1, 2, 1};
static const char* const ACT_NAME[NACT] = {"normal", "plc", "fec", "corrupt", "garbage", "reset", "gain", "smallbuf"};

static int gen_gain(Choice& c) {
  int k = c.irange(0, 3);
  if (k == 0) return 0;
  if (k == 1) return c.irange(0, 5120) - 2560;
  if (k == 2) return c.irange(0, 8000);
  return -c.irange(0, 8000);
}

static void mutate(Choice& c, std::vector<uint8_t>& p) {
  if (p.empty()) return;
  int k = 1 + c.irange(0, 2);
  for (int i = 0; i < k; i++) { size_t at = (size_t)c.irange(0, (int)p.size() - 1); p[at] ^= (uint8_t)(1 << c.irange(0, 7)); }
}

// Soft-clip-aware comparison of one decoded block.  f: float output (interleaved, stride), s/w the
// 16/24-bit outputs with the same layout.  mem: one memory per column (stream channel); col[c] gives the
// memory index of interleaved channel c or -1 for a muted channel.
static int check_block(Report& rep, const char* what, int step, const float* f, const opus_int16* s, const opus_int32* w, int n, int stride,
                       const int* col, float* mem, int nmem, bool normal_path) {
  std::vector<float> newmem(mem, mem + nmem);
  std::vector<float> ch(n);
  bool loud = false;
  for (int c = 0; c < stride; c++) {
    for (int i = 0; i < n; i++) {
      float x = f[(size_t)i * stride + c];
      if (!std::isfinite(x)) return rep.fail("c13:nonfinite-output", "%s step %d: float output sample %d ch %d is not finite", what, step, i, c);
      ch[i] = x;
      if (x > 1.f || x < -1.f) loud = true;
      if (std::fabs(x) < HUGE_OUT) {
        opus_int32 e24 = conv24(x);
        if (w[(size_t)i * stride + c] != e24)
          return rep.fail("c13:dec24-relation", "%s step %d ch %d sample %d: decode24 %d, float %.9g -> lrintf(2^23 f) = %d", what, step, c, i, w[(size_t)i * stride + c], x, e24);
      } else rep.label("huge-output");
    }
    if (col[c] < 0) {
      for (int i = 0; i < n; i++) if (s[(size_t)i * stride + c] != 0 || ch[i] != 0.f) return rep.fail("c13:muted-channel-nonzero", "%s step %d ch %d sample %d: muted channel not silent", what, step, c, i);
      continue;
    }
    // plain saturating conversion
    bool plain_ok = true; int bad_i = -1;
    for (int i = 0; i < n; i++) if (s[(size_t)i * stride + c] != conv16(ch[i])) { plain_ok = false; bad_i = i; break; }
    // library soft clipper with the carried memory
    std::vector<float> sc(ch);
    float m = mem[col[c]];
    opus_pcm_soft_clip(sc.data(), n, 1, &m);
    bool clip_ok = true; int bad_c = -1;
    for (int i = 0; i < n; i++) if (s[(size_t)i * stride + c] != conv16(sc[i])) { clip_ok = false; bad_c = i; break; }
    if (normal_path) {
      if (!clip_ok)
        return rep.fail("c13:dec16-relation", "%s step %d ch %d sample %d: decode16 %d, float %.9g, soft-clipped %.9g -> expected %d (plain conversion %s)", what, step, c, bad_c,
                        s[(size_t)bad_c * stride + c], ch[bad_c], sc[bad_c], conv16(sc[bad_c]), plain_ok ? "matches" : "differs too");
      newmem[col[c]] = m;
    } else {
      // PLC / FEC: the library converts without the clipper (memory untouched); a clipped conversion would
      // also satisfy the property, in which case its memory is carried on
      if (!plain_ok && !clip_ok)
        return rep.fail("c13:dec16-relation-loss", "%s step %d ch %d sample %d: decode16 %d under PLC/FEC, float %.9g -> plain %d", what, step, c, bad_i, s[(size_t)bad_i * stride + c], ch[bad_i], conv16(ch[bad_i]));
      if (!plain_ok) newmem[col[c]] = m;
    }
  }
  for (int k = 0; k < nmem; k++) mem[k] = newmem[k];
  if (loud) { rep.nontrivial(); rep.label(normal_path ? "beyond-unity" : "beyond-unity-loss"); }
  return 0;
}

static bool boost_fec(Choice& c, cu::EncCfg& cfg) {
  if (!c.chance(90)) return false;
  cfg.fec = 1 + c.irange(0, 1); cfg.loss = 10 + c.irange(0, 40);
  cfg.force_mode = c.chance(64) ? cu::MODE_HYBRID : cu::MODE_SILK; cfg.bitrate = 16000 + c.irange(0, 48000);
  cfg.dtx = 0; cfg.bandwidth = OPUS_AUTO; cfg.max_bandwidth = OPUS_BANDWIDTH_FULLBAND;
  return true;
}

// =============================================================================
// family dec
// =============================================================================
static int fam_dec(Choice& c, Report& rep) {
  rep.label("fam:dec");
  cu::EncCfg cfg = cu::gen_cfg(c);
  bool fecb = boost_fec(c, cfg);
  int decFs = cu::RATES[4 - c.irange(0, 4)];
  int decCh = 1 + c.irange(0, 1);
  int fam = c.irange(0, msu::NFAM - 1);
  double amp = AMPS_LOUD[c.irange(0, 5)];
  uint32_t seed = c.u32();
  int gain = gen_gain(c);
  int nsteps = 1 + c.irange(0, 9);
  struct Step { int act, d, aux; };
  std::vector<Step> steps(nsteps);
  int total = 0;
  for (auto& s : steps) {
    s.act = c.weighted(ACT_W, NACT);
    static const int DW[9] = {2, 3, 5, 12, 3, 3, 1, 1, 1};
    s.d = (c.weighted(DW, 9) + 3) % 9;
    if (fecb && s.d < 2) s.d = 3;
    s.aux = c.irange(0, 65535);
    total += cu::frame_samples(cfg.Fs, s.d);
  }
  std::vector<float> x; msu::gen_signal(fam, seed, cfg.Fs, cfg.ch, total, amp, x);
  rep.note("dec: encoder %s signal=%s amp=%g; decoder Fs=%d ch=%d gain=%d steps=%d", cu::cfg_str(cfg).c_str(), msu::fam_name(fam), amp, decFs, decCh, gain, nsteps);
  rep.fingerprint(fnv1a(&cfg, sizeof cfg)); rep.fingerprint(fam); rep.fingerprint(seed); rep.fingerprint(decFs * 4 + decCh); rep.fingerprint((uint32_t)gain);

  cu::Enc enc; int err = 0;
  enc.p = opus_encoder_create(cfg.Fs, cfg.ch, cfg.app, &err);
  VP_REQUIRE(enc.p && err == OPUS_OK, "c13:harness-create", "encoder create failed %d", err);
  VP_REQUIRE(cu::apply_cfg(enc.p, cfg) == OPUS_OK, "c13:harness-cfg", "generated configuration rejected (%s)", cu::cfg_str(cfg).c_str());
  cu::Dec d[3];
  for (int k = 0; k < 3; k++) {
    d[k].p = opus_decoder_create(decFs, decCh, &err);
    VP_REQUIRE(d[k].p && err == OPUS_OK, "c13:harness-create", "decoder create failed %d", err);
    if (gain) VP_REQUIRE(opus_decoder_ctl(d[k].p, OPUS_SET_GAIN(gain)) == OPUS_OK, "c13:harness-cfg", "gain %d rejected", gain);
  }
  if (gain) rep.label("decoder-gain");
  float mem[2] = {0, 0};
  int col[2] = {0, 1};
  int pos = 0;
  const int cap = decFs / 25 * 3;   // 120 ms
  for (int si = 0; si < nsteps; si++) {
    const Step& s = steps[si];
    int n = cu::frame_samples(cfg.Fs, s.d);
    HeapBuf<float> in((size_t)n * cfg.ch);
    memcpy(in.p, &x[(size_t)pos * cfg.ch], sizeof(float) * n * cfg.ch);
    pos += n;
    HeapBuf<uint8_t> pk(4000);
    int len = opus_encode_float(enc.p, in.p, n, pk.p, 4000);
    // the packet source is not the subject here: an encoder error (seen: OPUS_INTERNAL_ERROR for 120 ms SILK stereo
    // frames with FEC at >= 180 kb/s, a C02 matter) just ends the history
    if (len <= 0) { rep.label("source-encoder-error"); rep.note("step %d: source encoder returned %d", si, len); break; }
    std::vector<uint8_t> pkt(pk.p, pk.p + len);
    rep.fingerprint(s.act * 16 + s.d);
    rep.labelf("act:%s", ACT_NAME[s.act]);
    int act = s.act;
    if (act == A_RESET) {
      for (int k = 0; k < 3; k++) opus_decoder_ctl(d[k].p, OPUS_RESET_STATE);
      mem[0] = mem[1] = 0;
      act = A_NORMAL;
    } else if (act == A_GAIN) {
      int g = (s.aux % 6001) - 3000;
      for (int k = 0; k < 3; k++) opus_decoder_ctl(d[k].p, OPUS_SET_GAIN(g));
      rep.label("decoder-gain");
      act = A_NORMAL;
    } else if (act == A_CORRUPT) { mutate(c, pkt); }
    else if (act == A_GARBAGE) {
      Rng r(s.aux); pkt.resize(1 + r.range(0, 60)); for (auto& b : pkt) b = (uint8_t)r.u32();
    }
    // up to two decode calls per step: (PLC | FEC) then the packet itself
    for (int phase = 0; phase < 2; phase++) {
      const uint8_t* data = nullptr; int dlen = 0; int fec = 0; int fs;
      bool normal;
      if (phase == 0) {
        if (act == A_PLC) { fs = (decFs / 400) * cu::DUR400[(s.aux >> 4) % 9]; normal = false; }
        else if (act == A_FEC) {
          data = pkt.data(); dlen = (int)pkt.size(); fec = 1; normal = false;
          fs = rfc::samples_per_frame(pkt[0], decFs);
          if ((s.aux & 3) == 3) fs += decFs / 400 * (1 + ((s.aux >> 2) & 7));     // PLC prefix + FEC
          if (opus_packet_has_lbrr(pkt.data(), (int)pkt.size()) > 0) rep.label("fec-with-lbrr");
        } else continue;
      } else {
        data = pkt.data(); dlen = (int)pkt.size(); normal = true;
        int k = s.aux & 3;
        int ns = opus_packet_get_nb_samples(data, dlen, decFs);
        fs = (k == 0 || ns <= 0) ? cap : k == 1 ? ns : k == 2 ? ns + 7 : cap;
        if (act == A_SMALLBUF && ns > 1) fs = ns - 1 - ((s.aux >> 2) % ns) / 2;
        if (fs < 1) fs = 1;
      }
      HeapBuf<uint8_t> pd(dlen);
      if (dlen) memcpy(pd.p, data, dlen);
      HeapBuf<float> of((size_t)fs * decCh); HeapBuf<opus_int16> os((size_t)fs * decCh); HeapBuf<opus_int32> ow((size_t)fs * decCh);
      int rf = opus_decode_float(d[0].p, data ? pd.p : nullptr, dlen, of.p, fs, fec);
      int rs = opus_decode(d[1].p, data ? pd.p : nullptr, dlen, os.p, fs, fec);
      int rw = opus_decode24(d[2].p, data ? pd.p : nullptr, dlen, ow.p, fs, fec);
      rep.count(3);
      rep.note("step %d %s phase %d: len=%d fs=%d fec=%d -> %d", si, ACT_NAME[s.act], phase, dlen, fs, fec, rf);
      VP_REQUIRE(rf == rs && rf == rw, "c13:dec-count-differs", "step %d (%s): decode_float returned %d, decode %d, decode24 %d (len %d frame_size %d fec %d)", si, ACT_NAME[s.act], rf, rs, rw, dlen, fs, fec);
      opus_uint32 qf = 0, qs = 0, qw = 0;
      opus_decoder_ctl(d[0].p, OPUS_GET_FINAL_RANGE(&qf)); opus_decoder_ctl(d[1].p, OPUS_GET_FINAL_RANGE(&qs)); opus_decoder_ctl(d[2].p, OPUS_GET_FINAL_RANGE(&qw));
      VP_REQUIRE(qf == qs && qf == qw, "c13:dec-range-differs", "step %d: final range float %08x int16 %08x int24 %08x", si, qf, qs, qw);
      if (rf <= 0) { rep.label("dec-error-return"); continue; }
      if (check_block(rep, "decoder", si, of.p, os.p, ow.p, rf, decCh, col, mem, 2, normal)) return 1;
      if (normal) { rfc::TocInfo t = rfc::toc_info(pkt[0]); rep.label(t.mode == rfc::SILK ? "dec-silk" : t.mode == rfc::HYBRID ? "dec-hybrid" : "dec-celt"); }
    }
  }
  return 0;
}

// =============================================================================
// multistream encoders for ms-enc / ms-dec / proj
// =============================================================================
struct MsSetup {
  msu::Layout L;
  int Fs = 48000, app = OPUS_APPLICATION_AUDIO, family = -1;   // family -1: plain create
  std::string str() const { char b[64]; snprintf(b, sizeof b, " Fs=%d app=%d family=%d", Fs, app, family); return msu::layout_str(L) + b; }
};
static MsSetup gen_ms_setup(Choice& c, int max_streams) {
  MsSetup m;
  m.Fs = cu::RATES[4 - c.irange(0, 4)];
  m.app = cu::APPS[(c.irange(0, 2) + 1) % 3];
  int k = c.irange(0, 5);
  if (k <= 2) { m.L = msu::gen_encoder_layout(c, max_streams, 2); return m; }
  if (k == 3) { m.family = 1; m.L.channels = 1 + c.irange(0, 7); }
  else if (k == 4) { m.family = 2; static const int AC[5] = {1, 4, 6, 9, 3}; m.L.channels = AC[c.irange(0, 4)]; if (m.L.channels == 3) m.L.channels = 11; }
  else { m.family = c.boolean() ? 255 : 0; m.L.channels = 1 + c.irange(0, m.family == 0 ? 1 : 4); }
  return m;
}
static OpusMSEncoder* create_ms(MsSetup& m, int* err) {
  if (m.family < 0) return opus_multistream_encoder_create(m.Fs, m.L.channels, m.L.streams, m.L.coupled, m.L.mapping, m.app, err);
  return opus_multistream_surround_encoder_create(m.Fs, m.L.channels, m.family, &m.L.streams, &m.L.coupled, m.L.mapping, m.app, err);
}

static int fam_ms_enc(Choice& c, Report& rep) {
  rep.label("fam:ms-enc");
  MsSetup m = gen_ms_setup(c, 3);
  int lsb = 16 - c.irange(0, 8);
  int fam = c.irange(0, msu::NFAM - 1);
  double amp = AMPS_I16[c.irange(0, 5)];
  uint32_t seed = c.u32();
  int nsteps = 1 + c.irange(0, 4);
  struct Step { Op op; int d; int maxb; };
  std::vector<Step> steps(nsteps);
  int total = 0;
  cu::MSEnc e[3];
  for (int k = 0; k < 3; k++) {
    int err = 0; e[k].p = create_ms(m, &err);
    VP_REQUIRE(e[k].p && err == OPUS_OK, "c13:harness-create", "multistream encoder create failed %d (%s)", err, m.str().c_str());
    VP_REQUIRE(opus_multistream_encoder_ctl(e[k].p, OPUS_SET_LSB_DEPTH(lsb)) == OPUS_OK, "c13:harness-cfg", "lsb depth rejected");
  }
  for (auto& s : steps) {
    if (c.chance(120)) { s.op = gen_op(c, 2, true); if (s.op.kind == 5 || s.op.kind == 17 || s.op.kind == 13) s.op.kind = 0; }
    static const int DW[9] = {2, 3, 5, 12, 2, 2, 1, 1, 1};
    s.d = (c.weighted(DW, 9) + 3) % 9;
    s.maxb = gen_maxbytes(c, m.L.streams);
    total += cu::frame_samples(m.Fs, s.d);
  }
  std::vector<float> x; msu::gen_signal(fam, seed, m.Fs, m.L.channels, total, amp, x);
  Views v; v.from(x);
  rep.note("ms-enc: %s lsb=%d signal=%s amp=%g steps=%d", m.str().c_str(), lsb, msu::fam_name(fam), amp, nsteps);
  rep.fingerprint(fnv1a(m.L.mapping, m.L.channels)); rep.fingerprint(m.L.streams * 256 + m.L.coupled); rep.fingerprint(m.Fs + m.family); rep.fingerprint(seed); rep.fingerprint(lsb * 16 + fam);
  if (m.L.streams >= 2) { rep.nontrivial(); rep.label("multi-stream"); }
  if (lsb < 16) rep.nontrivial();
  if (m.family == 1 && m.L.channels > 2) rep.label("ms-enc-surround");
  if (m.family == 2) rep.label("ms-enc-ambisonics");
  int ch = m.L.channels, pos = 0;
  for (int si = 0; si < nsteps; si++) {
    const Step& s = steps[si];
    if (s.op.kind) {
      int r0 = apply_op_ms(e[0].p, s.op), r1 = apply_op_ms(e[1].p, s.op), r2 = apply_op_ms(e[2].p, s.op);
      VP_REQUIRE(r0 == r1 && r0 == r2, "c13:ctl-returns-differ", "multistream ctl kind %d val %d: %d %d %d", s.op.kind, s.op.val, r0, r1, r2);
      rep.note("step %d: ctl kind=%d val=%d -> %d", si, s.op.kind, s.op.val, r0);
      rep.label("setting-change");
    }
    int n = cu::frame_samples(m.Fs, s.d);
    HeapBuf<opus_int16> in16((size_t)n * ch); HeapBuf<opus_int32> in24((size_t)n * ch); HeapBuf<float> inf((size_t)n * ch);
    memcpy(in16.p, &v.s[(size_t)pos * ch], sizeof(opus_int16) * n * ch);
    memcpy(in24.p, &v.w[(size_t)pos * ch], sizeof(opus_int32) * n * ch);
    memcpy(inf.p, &v.f[(size_t)pos * ch], sizeof(float) * n * ch);
    pos += n;
    HeapBuf<uint8_t> pa(s.maxb), pb(s.maxb), pf(s.maxb);
    int la = opus_multistream_encode(e[0].p, in16.p, n, pa.p, s.maxb);
    int lb = opus_multistream_encode24(e[1].p, in24.p, n, pb.p, s.maxb);
    int lf = opus_multistream_encode_float(e[2].p, inf.p, n, pf.p, s.maxb);
    rep.count(3);
    opus_uint32 ra = 0, rb = 0, rf = 0;
    opus_multistream_encoder_ctl(e[0].p, OPUS_GET_FINAL_RANGE(&ra)); opus_multistream_encoder_ctl(e[1].p, OPUS_GET_FINAL_RANGE(&rb)); opus_multistream_encoder_ctl(e[2].p, OPUS_GET_FINAL_RANGE(&rf));
    rep.note("step %d: %d samples max %d -> %d bytes", si, n, s.maxb, la);
    if (cmp_packets(rep, "multistream encoder", si, la, lb, lf, pa.p, pb.p, pf.p, ra, rb, rf)) return 1;
    if (la <= 0) rep.label("enc-error-return");
  }
  return 0;
}

// =============================================================================
// family ms-dec
// =============================================================================
static int fam_ms_dec(Choice& c, Report& rep) {
  rep.label("fam:ms-dec");
  MsSetup m = gen_ms_setup(c, 3);
  int fam = c.irange(0, msu::NFAM - 1);
  double amp = AMPS_LOUD[c.irange(0, 5)];
  uint32_t seed = c.u32();
  int gain = c.chance(80) ? gen_gain(c) : 0;
  bool fec = c.chance(70);
  int err = 0;
  cu::MSEnc enc; enc.p = create_ms(m, &err);
  VP_REQUIRE(enc.p && err == OPUS_OK, "c13:harness-create", "multistream encoder create failed %d (%s)", err, m.str().c_str());
  if (fec) {
    opus_multistream_encoder_ctl(enc.p, OPUS_SET_INBAND_FEC(1)); opus_multistream_encoder_ctl(enc.p, OPUS_SET_PACKET_LOSS_PERC(25));
    opus_multistream_encoder_ctl(enc.p, OPUS_SET_BITRATE(24000 * (m.L.streams + m.L.coupled)));
    opus_multistream_encoder_ctl(enc.p, OPUS_SET_MAX_BANDWIDTH(OPUS_BANDWIDTH_WIDEBAND)); opus_multistream_encoder_ctl(enc.p, OPUS_SET_SIGNAL(OPUS_SIGNAL_VOICE));
  } else if (c.chance(128)) opus_multistream_encoder_ctl(enc.p, OPUS_SET_BITRATE(cu::gen_bitrate(c, m.L.channels)));
  // decoder layout: same streams, own mapping (duplicates, muted channels)
  msu::Layout D = m.L;
  if (c.chance(128)) {
    D.channels = 1 + c.irange(0, 5);
    int n = D.nstreamch();
    for (int i = 0; i < D.channels; i++) { int k = c.byte(); D.mapping[i] = k < 200 ? (unsigned char)(k % n) : 255; }
    rep.label("ms-dec-own-mapping");
  }
  int decFs = c.chance(160) ? m.Fs : cu::RATES[c.irange(0, 4)];
  cu::MSDec d[3];
  for (int k = 0; k < 3; k++) {
    d[k].p = opus_multistream_decoder_create(decFs, D.channels, D.streams, D.coupled, D.mapping, &err);
    VP_REQUIRE(d[k].p && err == OPUS_OK, "c13:harness-create", "multistream decoder create failed %d (%s)", err, msu::layout_str(D).c_str());
    if (gain) VP_REQUIRE(opus_multistream_decoder_ctl(d[k].p, OPUS_SET_GAIN(gain)) == OPUS_OK, "c13:harness-cfg", "gain rejected");
  }
  int nsteps = 1 + c.irange(0, 5);
  struct Step { int act, d, aux; };
  std::vector<Step> steps(nsteps);
  int total = 0;
  for (auto& s : steps) {
    static const int AW[4] = {12, 4, 4, 2};
    s.act = c.weighted(AW, 4);    // normal, plc, fec, corrupt
    static const int DW[9] = {2, 3, 5, 12, 2, 2, 1, 1, 1};
    s.d = (c.weighted(DW, 9) + 3) % 9;
    if (fec && s.d < 2) s.d = 3;
    s.aux = c.irange(0, 65535);
    total += cu::frame_samples(m.Fs, s.d);
  }
  std::vector<float> x; msu::gen_signal(fam, seed, m.Fs, m.L.channels, total, amp, x);
  rep.note("ms-dec: encoder %s; decoder %s Fs=%d gain=%d signal=%s amp=%g steps=%d", m.str().c_str(), msu::layout_str(D).c_str(), decFs, gain, msu::fam_name(fam), amp, nsteps);
  rep.fingerprint(fnv1a(D.mapping, D.channels)); rep.fingerprint(D.streams * 256 + D.coupled); rep.fingerprint(decFs + m.family); rep.fingerprint(seed); rep.fingerprint((uint32_t)gain * 16 + fam);
  rep.nontrivial(); rep.label("multi-stream-decode");
  int nmem = D.nstreamch();
  std::vector<float> mem(nmem, 0.f);
  std::vector<int> col(D.channels);
  for (int i = 0; i < D.channels; i++) col[i] = D.mapping[i] == 255 ? -1 : D.mapping[i];
  int ch = m.L.channels, pos = 0;
  const int cap = decFs / 25 * 3;
  for (int si = 0; si < nsteps; si++) {
    const Step& s = steps[si];
    int n = cu::frame_samples(m.Fs, s.d);
    HeapBuf<float> in((size_t)n * ch);
    memcpy(in.p, &x[(size_t)pos * ch], sizeof(float) * n * ch);
    pos += n;
    int maxb = 1500 * m.L.streams + 2500;
    HeapBuf<uint8_t> pk(maxb);
    int len = opus_multistream_encode_float(enc.p, in.p, n, pk.p, maxb);
    if (len <= 0) { rep.label("source-encoder-error"); rep.note("step %d: source encoder returned %d", si, len); break; }
    std::vector<uint8_t> pkt(pk.p, pk.p + len);
    if (s.act == 3) mutate(c, pkt);
    rep.labelf("ms-act:%s", ACT_NAME[s.act]);
    for (int phase = 0; phase < 2; phase++) {
      const uint8_t* data = nullptr; int dlen = 0; int dfec = 0; int fs; bool normal;
      if (phase == 0) {
        if (s.act == 1) { fs = (decFs / 400) * cu::DUR400[(s.aux >> 4) % 9]; normal = false; }
        else if (s.act == 2) { data = pkt.data(); dlen = (int)pkt.size(); dfec = 1; normal = false; fs = rfc::samples_per_frame(pkt[0], decFs); }
        else continue;
      } else { data = pkt.data(); dlen = (int)pkt.size(); normal = true; fs = (s.aux & 1) ? cap : (decFs / 400) * cu::DUR400[s.d]; }
      HeapBuf<uint8_t> pd(dlen);
      if (dlen) memcpy(pd.p, data, dlen);
      size_t tot = (size_t)fs * D.channels;
      HeapBuf<float> of(tot); HeapBuf<opus_int16> os(tot); HeapBuf<opus_int32> ow(tot);
      int rf = opus_multistream_decode_float(d[0].p, data ? pd.p : nullptr, dlen, of.p, fs, dfec);
      int rs = opus_multistream_decode(d[1].p, data ? pd.p : nullptr, dlen, os.p, fs, dfec);
      int rw = opus_multistream_decode24(d[2].p, data ? pd.p : nullptr, dlen, ow.p, fs, dfec);
      rep.count(3);
      rep.note("step %d %s phase %d: len=%d fs=%d fec=%d -> %d", si, ACT_NAME[s.act], phase, dlen, fs, dfec, rf);
      VP_REQUIRE(rf == rs && rf == rw, "c13:dec-count-differs", "multistream step %d: decode_float returned %d, decode %d, decode24 %d", si, rf, rs, rw);
      opus_uint32 qf = 0, qs = 0, qw = 0;
      opus_multistream_decoder_ctl(d[0].p, OPUS_GET_FINAL_RANGE(&qf)); opus_multistream_decoder_ctl(d[1].p, OPUS_GET_FINAL_RANGE(&qs)); opus_multistream_decoder_ctl(d[2].p, OPUS_GET_FINAL_RANGE(&qw));
      VP_REQUIRE(qf == qs && qf == qw, "c13:dec-range-differs", "multistream step %d: final range float %08x int16 %08x int24 %08x", si, qf, qs, qw);
      if (rf <= 0) { rep.label("dec-error-return"); continue; }
      if (check_block(rep, "multistream decoder", si, of.p, os.p, ow.p, rf, D.channels, col.data(), mem.data(), nmem, normal)) return 1;
    }
  }
  return 0;
}

// =============================================================================
// family proj
// =============================================================================
static inline opus_int16 wrap16(int64_t v) { return (opus_int16)(uint16_t)(uint64_t)v; }

static int fam_proj(Choice& c, Report& rep) {
  rep.label("fam:proj");
  int Fs = cu::RATES[4 - c.irange(0, 4)];
  int custom = c.byte() >= 150;     // small byte = built-in ambisonics matrices
  int fam = c.irange(0, msu::NFAM - 1);
  uint32_t seed = c.u32();
  int err = 0;
  int channels, streams, coupled;
  std::vector<uint8_t> mat;      // exported form: little-endian Q15, column-major, rows = channels
  cu::ProjEnc penc; cu::MSEnc menc;
  double amp;
  int enc_ch;
  if (!custom) {
    static const int OW[5] = {10, 6, 3, 2, 1};
    int order = 1 + c.weighted(OW, 5);
    int nd = c.chance(90) ? 2 : 0;
    channels = (order + 1) * (order + 1) + nd;
    static const double PA[4] = {0.9, 1.0, 0.3, 0.6};
    amp = PA[c.irange(0, 3)];
    penc.p = opus_projection_ambisonics_encoder_create(Fs, channels, 3, &streams, &coupled, OPUS_APPLICATION_AUDIO, &err);
    VP_REQUIRE(penc.p && err == OPUS_OK, "c13:harness-create", "projection encoder create failed %d (channels %d)", err, channels);
    opus_int32 msize = 0, mgain = 0;
    VP_REQUIRE(opus_projection_encoder_ctl(penc.p, OPUS_PROJECTION_GET_DEMIXING_MATRIX_SIZE(&msize)) == OPUS_OK && msize == 2 * channels * (streams + coupled), "c13:harness-matrix", "matrix size %d", msize);
    opus_projection_encoder_ctl(penc.p, OPUS_PROJECTION_GET_DEMIXING_MATRIX_GAIN(&mgain));
    HeapBuf<uint8_t> mb(msize);
    VP_REQUIRE(opus_projection_encoder_ctl(penc.p, OPUS_PROJECTION_GET_DEMIXING_MATRIX(mb.p, msize)) == OPUS_OK, "c13:harness-matrix", "get matrix failed");
    mat.assign(mb.p, mb.p + msize);
    if (c.chance(140)) opus_projection_encoder_ctl(penc.p, OPUS_SET_BITRATE(48000 * channels + c.irange(0, 64000) * channels));
    enc_ch = channels;
    rep.labelf("proj-order-%d", order);
    rep.note("proj: built-in order %d channels=%d streams=%d coupled=%d gain=%d Fs=%d amp=%g signal=%s", order, channels, streams, coupled, mgain, Fs, amp, msu::fam_name(fam));
  } else {
    streams = 1 + c.irange(0, 2); coupled = c.irange(0, streams);
    int ncol = streams + coupled;
    // The projection decoder routes matrix column i through output channel i (trivial mapping), so only
    // square geometries (channels == streams + coupled, as for every ambisonics order) are meaningful:
    // more channels are rejected at creation, fewer silently drop the columns >= channels.
    channels = ncol;
    int kind = c.irange(0, 3);
    mat.resize((size_t)2 * channels * ncol);
    for (int col = 0; col < ncol; col++) for (int row = 0; row < channels; row++) {
      int v;
      int b = c.byte();
      switch (kind) {
        case 0: v = (row == col % channels) ? 32767 : 0; break;                 // routing matrix
        case 1: v = (b & 1) ? 32767 : -32768; break;                            // extreme entries
        case 2: v = (int)(int16_t)(uint16_t)(b * 257u); break;                  // full-range
        default: v = (b - 128) * 64; break;                                     // moderate
      }
      size_t k = (size_t)col * channels + row;
      mat[2 * k] = (uint8_t)(v & 255); mat[2 * k + 1] = (uint8_t)((v >> 8) & 255);
    }
    static const double PA[4] = {0.9, 1.5, 0.3, 3.0};
    amp = PA[c.irange(0, 3)];
    msu::Layout T = msu::trivial_layout(streams, coupled);
    menc.p = opus_multistream_encoder_create(Fs, T.channels, streams, coupled, T.mapping, OPUS_APPLICATION_AUDIO, &err);
    VP_REQUIRE(menc.p && err == OPUS_OK, "c13:harness-create", "multistream encoder create failed %d", err);
    enc_ch = T.channels;
    rep.label("proj-custom-matrix");
    rep.note("proj: custom matrix kind %d channels=%d streams=%d coupled=%d Fs=%d amp=%g signal=%s", kind, channels, streams, coupled, Fs, amp, msu::fam_name(fam));
  }
  int ncol = streams + coupled;
  std::vector<int> M((size_t)channels * ncol);    // M[row*ncol+col]
  for (int col = 0; col < ncol; col++) for (int row = 0; row < channels; row++) {
    size_t k = (size_t)col * channels + row;
    M[(size_t)row * ncol + col] = (int)(int16_t)(uint16_t)(mat[2 * k] | (mat[2 * k + 1] << 8));
  }
  rep.fingerprint(fnv1a(mat.data(), mat.size())); rep.fingerprint(Fs); rep.fingerprint(seed); rep.fingerprint(fam);
  rep.nontrivial();
  // decoders: projection x3, multistream twins with the trivial mapping x3
  cu::ProjDec pd[3]; cu::MSDec md[3];
  msu::Layout T = msu::trivial_layout(streams, coupled);
  for (int k = 0; k < 3; k++) {
    HeapBuf<uint8_t> mb(mat.size()); memcpy(mb.p, mat.data(), mat.size());
    pd[k].p = opus_projection_decoder_create(Fs, channels, streams, coupled, mb.p, (opus_int32)mat.size(), &err);
    VP_REQUIRE(pd[k].p && err == OPUS_OK, "c13:harness-create", "projection decoder create failed %d", err);
    md[k].p = opus_multistream_decoder_create(Fs, T.channels, streams, coupled, T.mapping, &err);
    VP_REQUIRE(md[k].p && err == OPUS_OK, "c13:harness-create", "multistream decoder create failed %d", err);
  }
  int nsteps = 1 + c.irange(0, custom ? 5 : 3);
  int pos = 0;
  std::vector<float> x;
  struct Step { int act, d, aux; };
  std::vector<Step> steps(nsteps);
  int total = 0;
  for (auto& s : steps) {
    static const int AW[3] = {12, 3, 2};
    s.act = c.weighted(AW, 3);    // normal, plc, fec
    static const int DW[9] = {2, 3, 5, 12, 2, 1, 0, 0, 0};
    s.d = (c.weighted(DW, 9) + 3) % 9;
    s.aux = c.irange(0, 255);
    total += cu::frame_samples(Fs, s.d);
  }
  msu::gen_signal(fam, seed, Fs, enc_ch, total, amp, x);
  const int cap = Fs / 25 * 3;
  long f6_samples = 0;
  for (int si = 0; si < nsteps; si++) {
    const Step& s = steps[si];
    int n = cu::frame_samples(Fs, s.d);
    HeapBuf<float> in((size_t)n * enc_ch);
    memcpy(in.p, &x[(size_t)pos * enc_ch], sizeof(float) * n * enc_ch);
    pos += n;
    int maxb = 1500 * streams + 2500;
    HeapBuf<uint8_t> pk(maxb);
    int len = custom ? opus_multistream_encode_float(menc.p, in.p, n, pk.p, maxb) : opus_projection_encode_float(penc.p, in.p, n, pk.p, maxb);
    if (len <= 0) { rep.label("source-encoder-error"); rep.note("step %d: source encoder returned %d", si, len); break; }
    for (int phase = 0; phase < 2; phase++) {
      const uint8_t* data = nullptr; int dlen = 0; int dfec = 0; int fs;
      if (phase == 0) {
        if (s.act == 1) fs = (Fs / 400) * cu::DUR400[s.aux % 6];
        else if (s.act == 2) { data = pk.p; dlen = len; dfec = 1; fs = rfc::samples_per_frame(pk.p[0], Fs); }
        else continue;
      } else { data = pk.p; dlen = len; fs = (s.aux & 1) ? cap : n; }
      HeapBuf<uint8_t> pdat(dlen);
      if (dlen) memcpy(pdat.p, data, dlen);
      const uint8_t* dp = data ? pdat.p : nullptr;
      size_t ptot = (size_t)fs * channels, mtot = (size_t)fs * ncol;
      HeapBuf<float> pf(ptot), mf(mtot); HeapBuf<opus_int16> ps(ptot), ms(mtot); HeapBuf<opus_int32> pw(ptot), mw(mtot);
      int r0 = opus_projection_decode_float(pd[0].p, dp, dlen, pf.p, fs, dfec);
      int r1 = opus_projection_decode(pd[1].p, dp, dlen, ps.p, fs, dfec);
      int r2 = opus_projection_decode24(pd[2].p, dp, dlen, pw.p, fs, dfec);
      int q0 = opus_multistream_decode_float(md[0].p, dp, dlen, mf.p, fs, dfec);
      int q1 = opus_multistream_decode(md[1].p, dp, dlen, ms.p, fs, dfec);
      int q2 = opus_multistream_decode24(md[2].p, dp, dlen, mw.p, fs, dfec);
      rep.count(6);
      rep.note("step %d act %d phase %d: len=%d fs=%d fec=%d -> %d", si, s.act, phase, dlen, fs, dfec, r0);
      VP_REQUIRE(r0 == r1 && r0 == r2 && r0 == q0 && r0 == q1 && r0 == q2, "c13:dec-count-differs", "projection step %d: returns %d %d %d, multistream twins %d %d %d", si, r0, r1, r2, q0, q1, q2);
      opus_uint32 g[6] = {0, 0, 0, 0, 0, 0};
      for (int k = 0; k < 3; k++) { opus_projection_decoder_ctl(pd[k].p, OPUS_GET_FINAL_RANGE(&g[k])); opus_multistream_decoder_ctl(md[k].p, OPUS_GET_FINAL_RANGE(&g[3 + k])); }
      for (int k = 1; k < 6; k++) VP_REQUIRE(g[k] == g[0], "c13:dec-range-differs", "projection step %d: final ranges differ (%08x vs %08x at %d)", si, g[0], g[k], k);
      if (r0 <= 0) { rep.label("dec-error-return"); continue; }
      rep.label(phase == 0 ? "proj-loss" : "proj-normal");
#ifdef C13_DIGEST   // scratch builds only: digest of the float / 24-bit projection output, to show a patch leaves them bit-identical
      rep.fingerprint(fnv1a(pf.p, sizeof(float) * (size_t)r0 * channels)); rep.fingerprint(fnv1a(pw.p, sizeof(opus_int32) * (size_t)r0 * channels));
#endif
      for (int i = 0; i < r0; i++) {
        for (int row = 0; row < channels; row++) {
          int64_t sum16 = 0, sum24 = 0; double ideal = 0, mag = 0;
          for (int col = 0; col < ncol; col++) {
            int mv = M[(size_t)row * ncol + col];
            sum16 += ((int64_t)mv * ms.p[(size_t)i * ncol + col] + 16384) >> 15;
            sum24 += ((int64_t)mv * mw.p[(size_t)i * ncol + col] + 16384) >> 15;
            double t = (double)mv / 32768.0 * (double)mf.p[(size_t)i * ncol + col];
            ideal += t; mag += std::fabs(t);
          }
          size_t o = (size_t)i * channels + row;
          // float output tracks the real-valued matrix product
          double tol = 8e-6 * mag + 1e-9;   // float accumulation of <= 38 products: <= 38 * 2^-24 * mag = 2.3e-6 * mag
          if (!(std::fabs((double)pf.p[o] - ideal) <= tol))
            return rep.fail("c13:projection-float-model", "step %d sample %d row %d: float output %.9g, matrix product of the per-stream float samples %.9g (tolerance %.3g)", si, i, row, pf.p[o], ideal, tol);
          // 24-bit: exact integer model while it fits
          if (sum24 >= INT32_MIN && sum24 <= INT32_MAX) {
            if (pw.p[o] != (opus_int32)sum24) return rep.fail("c13:projection-int24-model", "step %d sample %d row %d: decode24 %d, integer model %lld", si, i, row, pw.p[o], (long long)sum24);
          }
          // 16-bit: exact integer model, saturating
          bool inrange = sum16 >= -32768 && sum16 <= 32767;
          if (!inrange) {
            f6_samples++;
            // fixed finding F6 (repo commit recorded in known_findings.json): the saturation clause is checked for every sample
            opus_int16 sat = sum16 > 32767 ? 32767 : -32768;
            if (ps.p[o] != sat) {
              if (ps.p[o] == wrap16(sum16))
                return rep.fail("c13:projection-int16-wraps", "step %d sample %d row %d: demixed sum %lld leaves the 16-bit range; opus_projection_decode returned the wrapped value %d instead of %d", si, i, row, (long long)sum16, ps.p[o], sat);
              return rep.fail("c13:projection-int16-model", "step %d sample %d row %d: decode16 %d, integer model (out of range) %lld", si, i, row, ps.p[o], (long long)sum16);
            }
          } else if (ps.p[o] != (opus_int16)sum16)
            return rep.fail("c13:projection-int16-model", "step %d sample %d row %d: decode16 %d, integer model %lld", si, i, row, ps.p[o], (long long)sum16);
        }
      }
    }
  }
  if (f6_samples) { rep.label("proj-sum-beyond-16bit"); if (!custom) rep.label("proj-sum-beyond-16bit-builtin"); }
  return 0;
}

int vp_case(Choice& c, Report& rep) {
  static const int FW[5] = {34, 30, 10, 12, 14};
  switch (c.weighted(FW, 5)) {
    case 0: return fam_enc(c, rep);
    case 1: return fam_dec(c, rep);
    case 2: return fam_ms_enc(c, rep);
    case 3: return fam_ms_dec(c, rep);
    default: return fam_proj(c, rep);
  }
}
