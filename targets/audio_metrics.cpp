// Uninstrumented -O2 build of the harness audio metrics.
#include "audio_metrics.hpp"
extern "C" {
int am_best_lag(const float* in, const float* out, int n, int stride, int maxlag, double* frac, double* peak, double* second) { return am::best_lag(in, out, n, stride, maxlag, frac, peak, second); }
double am_snr_db(const float* in, const float* out, int n, int stride, int delay, int skip, double* gain) { return am::snr_db(in, out, n, stride, delay, skip, gain); }
void am_band_energy_db(const float* x, int n, int stride, int Fs, int delay, double* out_db) { am::band_energy_db(x, n, stride, Fs, delay, out_db); }
double am_rms(const float* x, int n, int stride) { return am::rms(x, n, stride); }
double am_peak(const float* x, int n, int stride) { return am::peak(x, n, stride); }
}
