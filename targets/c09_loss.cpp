// C09: packet loss - PLC and FEC return the requested audio, stay bounded,
// decay under sustained loss (where the codec promises it) and re-converge.
// Fault sequences: all 2^k loss patterns in a window (enumerated family) and
// random bursts up to 10 s.  Oracle: return-value contract, finiteness, level
// bounds relative to the recent / pre-loss level (calib/C09.json), encoder
// final range on received packets, FEC-vs-PLC error energy against a loss-free
// twin (aggregate), re-convergence to the loss-free twin.
#include "vp.hpp"
#include "rfc_framing.hpp"
#include "common.hpp"
#include "codec_util.hpp"
#include "siggen.hpp"
#include "audio_metrics_decl.h"
#define VP_REF_SAME_ARITH 1   // in the fixed-point variant the frozen fixed-point decoder is the reference
#include "refapi.h"
extern "C" {
#include "entdec.h"
}
#include <cmath>
#include <algorithm>

using namespace vp;

const TargetInfo vp_info = {"c09_loss", 20, 160};

namespace {
// ---- calibrated constants (calib/C09.json; measured on the unchanged tree, which equals the frozen snapshot in the decoder) ----
// Extremes observed over 5.9e5 concealed frames / 4.8e3 resumptions / 1e3 FEC streams (4 seeds + 1/40 of the enumerated space) and the bound chosen
// (>= 2x the extreme; the distributions are heavy-tailed, so the bounds detect runaway behaviour, not small level errors):
const double K_PEAK_PLC = 8.0;      // concealed-frame peak / max(recent 100 ms peak, pre-loss peak): observed <= 3.30
const double K_PEAK_FEC = 16.0;     // (no longer asserted, see below)     // same for frames recovered with decode_fec=1 (reference also includes the loss-free twin's frame): observed <= 6.77
const double K_RESUME = 20.0;       // first 100 ms after reception resumes vs max(loss-free twin, pre-loss): observed <= 8.98 (two MDCT outliers after > 7 s of loss; p99 1.24)
const double EPS_PEAK = 2e-3;
const double DECAY_FRACTION = 0.5;  // RMS after >= 1 s of loss / pre-loss RMS, MDCT-only streams with speech-like (non-stationary) input: observed <= 0.24.
                                    // Not asserted elsewhere: the MDCT PLC decays to its background-noise estimate (= the signal for stationary input, observed 0.57), and the
                                    // speech layer adds comfort noise whose level estimate is also trained by the very first decoded frame (prevSignalType starts at
                                    // "inactive"), observed up to 0.88 of the pre-loss RMS for 8 s on a continuously voiced signal with VAD=1 in every frame.
const double RECONV_SNR_CELT_DB = 50.0;   // MDCT-only streams, 500-700 ms after resumption: observed >= 99 dB
const double RECONV_SNR_OTHER_DB = 18.0;  // speech layer involved, speech-like / noise input: observed >= 30.0 dB (stationary tones excluded: the long-term predictor keeps a state mismatch alive, observed down to -15 dB)
// Level of frames recovered from LBRR data vs the same frames decoded without loss, aggregated per case and position class over >= 3 frames with real
// signal: observed on the repaired tree (4800 cases) >= -17.9 dB (20 ms packets, 2 frames), >= -9.0 dB for later frames whose predecessor has no LBRR data;
// finding F24 (those frames decoded about 31 dB too quiet) sits far below both bounds.
const double FEC_LEVEL_MIN_DB = -24.0;        // absolute
const double FEC_LEVEL_VS_FIRST_DB = -20.0;   // later frames relative to the first frames of the same stream
const double FEC_GAIN_LONG_DB = -1.5;   // 40/60 ms packets: observed >= -0.003 dB, median 7 dB: only "not worse than concealment" is asserted there
const double FEC_GAIN_DB = 2.0;     // aggregate error-energy gain of FEC over PLC, 10/20 ms frames: observed >= 6.5 dB (40/60 ms frames: >= 0.2 dB, no clause)

struct Cfg { int Fs, ch, mode, d, bitrate, fec, loss, complexity, family, app; };

// enumerated configurations (pattern windows are crossed with these)
const Cfg ENUM_CFG[] = {
    {48000, 1, 1002, 3, 64000, 0, 0, 5, sig::MULTITONE, OPUS_APPLICATION_AUDIO},
    {48000, 2, 1002, 2, 96000, 0, 0, 5, sig::SPEECHLIKE, OPUS_APPLICATION_AUDIO},
    {16000, 1, 1000, 3, 20000, 1, 20, 5, sig::SPEECHLIKE, OPUS_APPLICATION_VOIP},
    {48000, 1, 1001, 3, 32000, 1, 25, 5, sig::SPEECHLIKE, OPUS_APPLICATION_VOIP},
    {24000, 2, 1000, 4, 36000, 1, 30, 4, sig::SPEECHLIKE, OPUS_APPLICATION_VOIP},
    {48000, 1, 1002, 0, 128000, 0, 0, 3, sig::NOISE, OPUS_APPLICATION_RESTRICTED_LOWDELAY},
    {8000, 1, 1000, 2, 12000, 0, 0, 6, sig::SPEECHLIKE, OPUS_APPLICATION_VOIP},
    {48000, 2, (int)OPUS_AUTO, 3, 48000, 1, 15, 7, sig::SPEECHLIKE, OPUS_APPLICATION_AUDIO},
};
const int N_ENUM_CFG = sizeof ENUM_CFG / sizeof ENUM_CFG[0];
const int PATTERN_BITS = 12;

// RFC 6716 4.2.3: VAD flags of all SILK frames of the packet are set (first frame of each Opus frame is enough for the rule we use)
bool silk_all_vad(const uint8_t* pkt, int len) {
  rfc::Parsed p = rfc::parse(pkt, len, false);
  if (!p.ok) return false;
  rfc::TocInfo t = rfc::toc_info(pkt[0]);
  if (t.mode == rfc::CELT) return true;
  int nsilk = t.dur_400 <= 8 ? 1 : t.dur_400 / 8;
  for (int f = 0; f < p.count; f++) {
    if (p.size[f] == 0) return false;
    std::vector<uint8_t> copy(pkt + p.offset[f], pkt + p.offset[f] + p.size[f]);
    ec_dec dec; ec_dec_init(&dec, copy.data(), (opus_uint32)copy.size());
    for (int chn = 0; chn <= t.stereo; chn++) {
      for (int i = 0; i < nsilk; i++) if (!ec_dec_bit_logp(&dec, 1)) return false;
      (void)ec_dec_bit_logp(&dec, 1);
    }
  }
  return true;
}

// RFC 6716 4.2.4 (Tables 3, 4): per-frame LBRR flags of a mono speech-layer / hybrid packet holding one Opus frame; -1 when not applicable.
// Bit f set = the packet carries LBRR data for speech frame f of the *previous* packet.
int silk_lbrr_flags_mono(const uint8_t* pkt, int len, int* nsilk_out) {
  rfc::Parsed p = rfc::parse(pkt, len, false);
  if (!p.ok || p.count != 1 || p.size[0] < 1) return -1;
  rfc::TocInfo t = rfc::toc_info(pkt[0]);
  if (t.mode == rfc::CELT || t.stereo) return -1;
  int nsilk = t.dur_400 <= 8 ? 1 : t.dur_400 / 8;
  *nsilk_out = nsilk;
  std::vector<uint8_t> copy(pkt + p.offset[0], pkt + p.offset[0] + p.size[0]);
  ec_dec dec; ec_dec_init(&dec, copy.data(), (opus_uint32)copy.size());
  for (int i = 0; i < nsilk; i++) (void)ec_dec_bit_logp(&dec, 1);
  if (!ec_dec_bit_logp(&dec, 1)) return 0;
  if (nsilk == 1) return 1;
  static const unsigned char ICDF2[3] = {203, 150, 0}, ICDF3[7] = {215, 195, 166, 125, 110, 82, 0};
  return ec_dec_icdf(&dec, nsilk == 2 ? ICDF2 : ICDF3, 8) + 1;
}

void calib_log(const char* what, double v, const char* cls) {
  const char* p = getenv("VP_C09_CALIB");
  if (!p) return;
  FILE* f = fopen(p, "a"); if (!f) return;
  fprintf(f, "%s %.5f %s\n", what, v, cls); fclose(f);
}
}  // namespace

extern "C" uint64_t vp_enum_count() { return (uint64_t)N_ENUM_CFG << PATTERN_BITS; }
extern "C" void vp_enum_case(uint64_t idx, std::vector<uint8_t>& out) {
  out.clear();
  out.push_back(1);
  out.push_back((uint8_t)(idx >> PATTERN_BITS));
  out.push_back((uint8_t)((idx >> 8) & 0x0F));
  out.push_back((uint8_t)(idx & 0xFF));
}

int vp_case(Choice& c, Report& rep) {
  int family = c.irange(0, 2);    // 0 random bursts, 1 enumerated pattern window, 2 FEC-vs-PLC aggregate
  Cfg g;
  uint32_t pattern = 0; int pattern_len = 0;
  if (family == 1) {
    g = ENUM_CFG[c.byte() % N_ENUM_CFG];
    pattern = (uint32_t)c.irange(0, (1 << PATTERN_BITS) - 1); pattern_len = PATTERN_BITS;
  } else if (family == 2) {
    g.Fs = c.pick((const int[]){16000, 48000, 24000, 12000}); g.ch = 1 + (c.chance(60) ? 1 : 0); g.mode = c.chance(170) ? 1000 : 1001;
    if (g.mode == 1001 && g.Fs < 24000) g.mode = 1000;
    g.d = c.chance(200) ? 3 : c.pick((const int[]){2, 4, 5});
    // one FEC stream in three uses 40 / 60 ms packets (several speech frames per packet, LBRR flags per frame): switch derived from the case hash
    { uint64_t fh = fnv1a(c.d, c.n); if (fh % 3 == 1) g.d = ((fh >> 9) & 1) ? 5 : 4; }
    if (g.mode == 1001 && g.d > 3) g.d = 3;
    g.bitrate = c.irange(g.mode == 1001 ? 28000 : 16000, 48000) * g.ch; g.fec = 1; g.loss = c.irange(15, 40); g.complexity = c.irange(2, 8);
    g.family = sig::SPEECHLIKE; g.app = OPUS_APPLICATION_VOIP;
  } else {
    g.Fs = cu::RATES[4 - c.irange(0, 4)]; g.ch = 1 + c.irange(0, 1);
    g.mode = c.pick((const int[]){1002, 1000, 1001, (int)OPUS_AUTO, 1002});
    g.app = cu::APPS[(c.irange(0, 2) + 1) % 3];
    if (g.app == OPUS_APPLICATION_RESTRICTED_LOWDELAY) g.mode = 1002;
    g.d = c.pick((const int[]){3, 3, 2, 1, 0, 4, 5});
    if (g.mode == 1000 && g.d < 2) g.d = 2;
    if (g.mode == 1001 && (g.d < 2 || g.d > 3 || g.Fs < 24000)) g.mode = 1002;
    g.bitrate = (g.mode == 1000 ? c.irange(12000, 40000) : g.mode == 1001 ? c.irange(24000, 64000) : c.irange(32000, 128000)) * g.ch;
    g.fec = c.chance(100) ? 1 : 0; g.loss = g.fec ? c.irange(5, 40) : 0; g.complexity = c.irange(0, 10);
    g.family = c.pick((const int[]){sig::SPEECHLIKE, sig::MULTITONE, sig::NOISE, sig::SPEECHLIKE, sig::TONE_PAIR});
  }
  int err = 0;
  cu::Enc enc; cu::Dec lossy, clean, plconly;
  enc.p = opus_encoder_create(g.Fs, g.ch, g.app, &err);
  struct RefDec { OpusDecoder* p = nullptr; ~RefDec() { if (p) ref_opus_decoder_destroy(p); } } rlossy;   // frozen decoder fed the identical call sequence
  rlossy.p = ref_opus_decoder_create(g.Fs, g.ch, &err);
  VP_REQUIRE(rlossy.p, "c09:create", "reference decoder create failed");
  lossy.p = opus_decoder_create(g.Fs, g.ch, &err); clean.p = opus_decoder_create(g.Fs, g.ch, &err); plconly.p = opus_decoder_create(g.Fs, g.ch, &err);
  VP_REQUIRE(enc.p && lossy.p && clean.p && plconly.p, "c09:create", "create failed");
  opus_encoder_ctl(enc.p, OPUS_SET_BITRATE(g.bitrate)); opus_encoder_ctl(enc.p, OPUS_SET_COMPLEXITY(g.complexity));
  opus_encoder_ctl(enc.p, CU_SET_FORCE_MODE(g.mode)); opus_encoder_ctl(enc.p, OPUS_SET_INBAND_FEC(g.fec)); opus_encoder_ctl(enc.p, OPUS_SET_PACKET_LOSS_PERC(g.loss));
  int fs = cu::frame_samples(g.Fs, g.d);
  int F2_5 = g.Fs / 400;
  int w100 = g.Fs / 10;
  uint64_t sig_seed = c.u32();
  double amp = 0.4;
  // ---- schedule: warm-up, loss section, tail
  int warm = (g.Fs * 3 / 10 + fs - 1) / fs; if (warm < 4) warm = 4;            // >= 300 ms
  bool long_tail = family == 0 && c.chance(64);
  int tailp = (g.Fs * (long_tail ? 25 : 8) / 10 + fs - 1) / fs;                    // >= 800 ms (sometimes 2.5 s) of reception at the end
  std::vector<uint8_t> lost;   // per packet
  int burst_packets = 0;
  if (family == 1) {
    lost.assign((size_t)warm, 0);
    for (int i = 0; i < pattern_len; i++) lost.push_back((pattern >> i) & 1);
  } else if (family == 2) {
    int n = c.irange(90, 140); int period = c.irange(3, 5);
    lost.assign((size_t)warm, 0);
    for (int i = 0; i < n; i++) lost.push_back((i % period) == period - 1 && c.chance(230));
  } else {
    lost.assign((size_t)warm, 0);
    int nb = c.irange(1, 3);
    bool double_burst = c.chance(40);
    if (double_burst) {
      // long burst, a few received packets, second sustained burst (background-noise estimate after a long gap)
      int n1 = (int)((4.0 + c.irange(0, 40) / 10.0) * g.Fs / fs), gap = c.irange(3, 10), n2 = (int)((1.2 + c.irange(0, 18) / 10.0) * g.Fs / fs);
      for (int i = 0; i < n1; i++) lost.push_back(1);
      for (int i = 0; i < gap; i++) lost.push_back(0);
      for (int i = 0; i < n2; i++) lost.push_back(1);
      burst_packets = n1; nb = 0;
      rep.label("schedule:double-burst");
    }
    for (int b = 0; b < nb; b++) {
      int sel = c.irange(0, 4);
      double seconds = sel == 0 ? 0.02 : sel == 1 ? 0.1 : sel == 2 ? c.irange(2, 10) / 10.0 : sel == 3 ? c.irange(10, 30) / 10.0 : c.irange(30, 100) / 10.0;
      int n = (int)(seconds * g.Fs / fs); if (n < 1) n = 1;
      if (n > burst_packets) burst_packets = n;
      for (int i = 0; i < n; i++) lost.push_back(1);
      int gap = b + 1 < nb ? c.irange(2, 20) : 0;
      for (int i = 0; i < gap; i++) lost.push_back(0);
    }
  }
  int sched_end = (int)lost.size();
  for (int i = 0; i < tailp; i++) lost.push_back(0);
  int N = (int)lost.size();
  // debugging aid (never set by the checks): keep only the listed losses of the generated pattern, e.g. VP_C09_KEEP_LOSS=70 or 66,70
  if (const char* kl = getenv("VP_C09_KEEP_LOSS")) { std::vector<uint8_t> keep((size_t)N, 0); for (const char* q = kl; *q;) { int k = atoi(q); if (k >= 0 && k < N) keep[k] = 1; while (*q && *q != ',') q++; if (*q) q++; } for (int i = 0; i < N; i++) lost[i] = lost[i] && keep[i]; }
  int call_shape = c.irange(0, 3);   // 0 whole packet, 1 pieces, 2 FEC with larger frame_size when possible, 3 mixed
  char cls[64]; snprintf(cls, sizeof cls, "%s/%dms", g.mode == 1000 ? "silk" : g.mode == 1001 ? "hybrid" : g.mode == 1002 ? "celt" : "auto", cu::DUR400[g.d] * 5 / 2);
  rep.note("family=%d Fs=%d ch=%d mode=%d dur=%d/400 bitrate=%d fec=%d loss%%=%d signal=%s packets=%d lost=%d shape=%d", family, g.Fs, g.ch, g.mode, cu::DUR400[g.d], g.bitrate, g.fec, g.loss, sig::FAMILY_NAME[g.family], N,
           (int)std::count(lost.begin(), lost.end(), 1), call_shape);

  // ---- encode everything first (packets and encoder ranges)
  std::vector<std::vector<uint8_t>> pk((size_t)N); std::vector<opus_uint32> erange((size_t)N);
  std::vector<float> x;
  bool all_vad = true, celt_only = true;
  sig::generate(g.family, sig_seed, g.Fs, g.ch, N * fs, amp, x);
  // hash-derived generator switches (no new choices: committed replays keep their meaning)
  const uint64_t gh = fnv1a(c.d, c.n);
  // (c) FEC streams with 40 / 60 ms packets (one in two) or shorter ones (one in eight): the signal is gated into bursts (60-120 ms on, 40-90 ms nearly off, 2 ms ramps) so that speech activity, and
  //     with it the per-frame LBRR flags, changes inside packets (a frame with LBRR data after a frame without: coded independently, finding F24)
  if (family == 2 && (g.d >= 4 ? ((gh >> 20) & 1) : ((gh >> 20) & 7) == 7)) {
    const int on = g.Fs * (60 + (int)((gh >> 24) % 61)) / 1000, off = g.Fs * (40 + (int)((gh >> 32) % 51)) / 1000, ramp = g.Fs / 500;
    for (int i = 0; i < N * fs; i++) {
      int ph = i % (on + off);
      double e = ph < on ? std::min(1.0, std::min((double)ph / ramp, (double)(on - ph) / ramp)) : 0.0;
      e = 0.003 + 0.997 * e;
      for (int cc = 0; cc < g.ch; cc++) x[(size_t)i * g.ch + cc] *= (float)e;
    }
    rep.label("class:gated-bursts");
  }
  // (a) a mono-coded stream decoded by stereo decoders (stream channel count != decoder channel count during concealment)
  const bool mono_stream = g.ch == 2 && family != 2 && (gh % 4) == 1;
  // (b) the forced channel count toggles between 1 and 2 every 7..14 packets (losses and FEC recovery right after a channel switch)
  const bool ch_toggle = g.ch == 2 && family == 2 && ((gh >> 8) % 3) == 1;
  const int toggle_period = 7 + (int)((gh >> 16) % 8);
  if (mono_stream) { opus_encoder_ctl(enc.p, OPUS_SET_FORCE_CHANNELS(1)); rep.label("stream:mono-coded-in-stereo-decoder"); }
  if (ch_toggle) rep.label("stream:channel-count-toggles");
  bool two_talkers = false;   // (absolute FEC clause not asserted: calibration shows the frozen codec itself gains as little as -0.05 dB there)
  // two talkers: the right channel carries a second speech-like source that starts and stops independently of the left one, so that
  // side-channel activity differs between a lost packet and its successor (stereo LBRR / mid-only paths)
  if (family == 2 && g.ch == 2 && c.chance(160)) {
    std::vector<float> l1, r1;
    sig::generate(sig::SPEECHLIKE, sig_seed, g.Fs, 1, N * fs, amp, l1);
    sig::generate(sig::SPEECHLIKE, sig_seed ^ 0x5bd1e995u, g.Fs, 1, N * fs, amp, r1);
    Rng gr(sig_seed + 17); int pos2 = 0; bool on = gr.u32() & 1;
    while (pos2 < N * fs) { int len2 = (int)((0.4 + 1.2 * gr.unit()) * g.Fs); for (int i = pos2; i < pos2 + len2 && i < N * fs; i++) { x[(size_t)2 * i] = l1[i]; x[(size_t)2 * i + 1] = on ? r1[i] : 0.02f * r1[i]; } pos2 += len2; on = !on; }
    rep.label("signal:two-talkers"); two_talkers = true;
  }
  // continuously voiced, amplitude- and pitch-modulated harmonic signal: keeps the speech layer's VAD at 1 in every frame, so that the
  // decay clause (which the codec only promises when no frame was flagged inactive) is reachable for SILK / hybrid streams
  bool voiced_cont = family == 0 && g.family == sig::SPEECHLIKE && g.mode != 1002 && c.chance(150);
  if (voiced_cont) {
    Rng vr(sig_seed); double f0 = 90 + vr.unit() * 160; const double PI = 3.14159265358979323846;
    for (int i = 0; i < N * fs; i++) {
      double t = (double)i / g.Fs, v = 0;
      double fm = f0 * (1 + 0.05 * std::sin(2 * PI * 2.3 * t));
      for (int h = 1; h <= 12 && h * f0 < 0.4 * g.Fs; h++) v += (1.0 / h) * std::sin(2 * PI * h * fm * t + h);
      v *= 0.22 * (0.8 + 0.2 * std::sin(2 * PI * 3.1 * t));
      for (int k = 0; k < g.ch; k++) x[(size_t)i * g.ch + k] = (float)(amp * v * (k ? 0.7 : 1.0));
    }
    rep.label("signal:voiced-continuous");
  }
  for (int i = 0; i < N; i++) {
    if (ch_toggle && i % toggle_period == 0) opus_encoder_ctl(enc.p, OPUS_SET_FORCE_CHANNELS(((i / toggle_period) & 1) ? 1 : 2));
    pk[i].resize(1500);
    int n = opus_encode_float(enc.p, x.data() + (size_t)i * fs * g.ch, fs, pk[i].data(), 1500);
    VP_REQUIRE(n > 0, "c09:encode-failed", "encode returned %d", n);
    pk[i].resize(n);
    opus_encoder_ctl(enc.p, OPUS_GET_FINAL_RANGE(&erange[i]));
    if (rfc::toc_info(pk[i][0]).mode != rfc::CELT) { celt_only = false; if (!lost[i] && !silk_all_vad(pk[i].data(), n)) all_vad = false; }
  }
  // ---- decode
  std::vector<float> yl((size_t)N * fs * g.ch), yc((size_t)N * fs * g.ch), yp((size_t)N * fs * g.ch), yr((size_t)N * fs * g.ch);
  std::vector<std::pair<double, double>> fec_frame_err;   // per single loss with LBRR data: (error energy recovered, error energy concealed)
  double e_fec = 0, e_plc = 0, e_fec_ref = 0; int fec_frames = 0; double e_fec_all = 0, e_fec_ref_all = 0; int fec_all = 0;
  // level of frames recovered from LBRR data against the loss-free twin, by position: [0] first speech frame of the packet, [1] later frame whose
  // predecessor also has LBRR data (delta-coded), [2] later frame whose predecessor has none (coded independently)
  double lv_fec[3] = {0, 0, 0}, lv_clean[3] = {0, 0, 0}; int lv_n[3] = {0, 0, 0};
  double lv_frame_min = 1e9; int lv_frame_min_at = -1, lv_frame_min_cl = 0; int lv_frames = 0, lv_low = 0;
  int first_loss = -1, resumed_at = -1; int run = 0, longest_run = 0; int run_start = -1;
  double preloss_rms = 0, preloss_peak = 0;
  // quietest 100 ms block of the loss-free output so far: the decoder's concealment deliberately settles at its background-noise
  // estimate, so "falls well below the pre-loss level" only says something when the pre-loss level stood clear of that background
  double bg_rms = 1e9; int bg_blocks = 0;
  bool deferred = false;
  int since_resume = -1;   // received packets since the last loss run ended (-1: no loss yet)
  bool nontriv = false; uint64_t fp = mix(g.Fs, mix(g.ch, mix(g.mode, mix(g.d, pattern))));
  for (int i = 0; i < N; i++) {
    float* ol = yl.data() + (size_t)i * fs * g.ch; float* oc = yc.data() + (size_t)i * fs * g.ch; float* op = yp.data() + (size_t)i * fs * g.ch; float* orf = yr.data() + (size_t)i * fs * g.ch;
    HeapBuf<uint8_t> data(pk[i].size()); memcpy(data.p, pk[i].data(), pk[i].size());
    // NaN-poison the lossy decoder's output region: "returns the requested duration" means every requested sample is written
    for (int k = 0; k < fs * g.ch; k++) ol[k] = std::nanf("");
    int n = opus_decode_float(clean.p, data.p, (opus_int32)pk[i].size(), oc, fs, 0);
    VP_REQUIRE(n == fs, "c09:clean-decode", "loss-free decoder returned %d", n);
    rep.count();
    if (!lost[i]) {
      n = opus_decode_float(lossy.p, data.p, (opus_int32)pk[i].size(), ol, fs, 0);
      (void)ref_opus_decode_float(rlossy.p, data.p, (opus_int32)pk[i].size(), orf, fs, 0);
      VP_REQUIRE(n == fs, "c09:received-decode", "decoder returned %d for a received packet after losses", n);
      VP_REQUIRE(all_finite(ol, (size_t)fs * g.ch), "c09:samples-unwritten", "received packet %d: decoder returned %d but left samples unwritten / non-finite", i, n);
      opus_uint32 dr = 0; opus_decoder_ctl(lossy.p, OPUS_GET_FINAL_RANGE(&dr));
      VP_REQUIRE(dr == erange[i], "c09:final-range-after-loss", "packet %d received after %d lost: decoder final range %08x, encoder %08x", i, run, dr, erange[i]);
      if (family == 2) { n = opus_decode_float(plconly.p, data.p, (opus_int32)pk[i].size(), op, fs, 0); VP_REQUIRE(n == fs, "c09:received-decode", "decoder returned %d", n); }
      // one-sided clause relative to the frozen decoder fed the identical calls: the first packets received after a loss run are
      // decoded from post-concealment state (energy prediction, pitch filter and LPC memories); whatever the tree does there must not be
      // louder than 3x what the frozen decoder (or the loss-free twin) produces for the same packet
      if (run > 0) since_resume = 0; else if (since_resume >= 0) since_resume++;
      if (since_resume >= 0 && since_resume < 3) {
        double pk_t = am_peak(ol, fs * g.ch, 1), pk_r = std::max(am_peak(orf, fs * g.ch, 1), am_peak(oc, fs * g.ch, 1));
        VP_REQUIRE(pk_t <= 3.0 * pk_r + 0.05 * preloss_peak + 2e-3, "c09:louder-than-frozen-after-loss", "packet %d, received %d packet(s) after a loss run: peak %.4f, frozen decoder / loss-free twin %.4f (pre-loss peak %.4f)", i, since_resume, pk_t, pk_r, preloss_peak);
        rep.label("post-loss-packet-vs-frozen-checked");
      }
      if (run > 0) { resumed_at = i; nontriv = true;
        // first 100 ms after reception resumes: peak bounded by the loss-free twin / pre-loss level
        int wn = std::min(w100, (N - i) * fs);
        (void)wn;
      }
      run = 0;
      continue;
    }
    // ---- lost packet
    if (run == 0) {
      run_start = i;
      int from = std::max(0, i * fs - w100);
      preloss_rms = am_rms(yl.data() + (size_t)from * g.ch, (i * fs - from) * g.ch, 1);
      preloss_peak = am_peak(yl.data() + (size_t)from * g.ch, (i * fs - from) * g.ch, 1);
      for (; (bg_blocks + 1) * w100 <= i * fs; bg_blocks++) bg_rms = std::min(bg_rms, am_rms(yc.data() + (size_t)bg_blocks * w100 * g.ch, w100 * g.ch, 1));
      if (first_loss < 0) first_loss = i;
    }
    run++; if (run > longest_run) longest_run = run;
    bool next_received = i + 1 < N && !lost[i + 1];
    bool use_fec = g.fec && next_received && rfc::toc_info(pk[i + 1][0]).mode != rfc::CELT;
    int shape = call_shape == 3 ? c.irange(0, 2) : call_shape;
    // requests that are not a multiple of 2.5 ms must be refused with OPUS_BAD_ARG
    if (c.chance(10)) {
      int bad = fs - 1 - c.irange(0, F2_5 - 2); if (bad < 1) bad = 1; if (bad % F2_5 == 0) bad++;
      HeapBuf<float> tmp((size_t)bad * g.ch);
      cu::Dec probe; probe.p = opus_decoder_create(g.Fs, g.ch, &err);
      int r = opus_decode_float(probe.p, nullptr, 0, tmp.p, bad, 0);
      VP_REQUIRE(r == OPUS_BAD_ARG, "c09:non-multiple-accepted", "concealment request of %d samples (not a multiple of 2.5 ms) returned %d", bad, r);
      rep.label("bad-frame-size-refused");
    }
    // FEC call shape with a larger-than-packet frame_size: two consecutive losses recovered by one call on the packet after them
    if (family == 0 && shape == 2 && g.fec && !deferred && i + 2 < N && lost[i + 1] && !lost[i + 2] && rfc::toc_info(pk[i + 2][0]).mode != rfc::CELT && 2 * fs <= g.Fs * 3 / 25) {
      deferred = true;
      continue;   // (the region stays NaN-poisoned until the two-packet FEC call of the next iteration fills it)
    }
    if (use_fec) {
      HeapBuf<uint8_t> nd(pk[i + 1].size()); memcpy(nd.p, pk[i + 1].data(), pk[i + 1].size());
      int has = opus_packet_has_lbrr(nd.p, (opus_int32)pk[i + 1].size());
      int req = fs;
      if (deferred) {
        req = 2 * fs;
        n = opus_decode_float(lossy.p, nd.p, (opus_int32)pk[i + 1].size(), ol - (size_t)fs * g.ch, req, 1);
        (void)ref_opus_decode_float(rlossy.p, nd.p, (opus_int32)pk[i + 1].size(), orf - (size_t)fs * g.ch, req, 1);
        rep.label("fec-larger-than-packet");
        VP_REQUIRE(all_finite(ol - (size_t)fs * g.ch, (size_t)fs * g.ch), "c09:samples-unwritten", "FEC call with a two-packet frame_size left the first part unwritten / non-finite");
        deferred = false;
      } else
      { n = opus_decode_float(lossy.p, nd.p, (opus_int32)pk[i + 1].size(), ol, req, 1);
        (void)ref_opus_decode_float(rlossy.p, nd.p, (opus_int32)pk[i + 1].size(), orf, req, 1); }
      VP_REQUIRE(n == req, "c09:fec-duration", "FEC request of %d samples returned %d (next packet has_lbrr=%d)", req, n, has);
      rep.label(has > 0 ? "fec-with-lbrr" : "fec-without-lbrr");
      if (has > 0) { for (int k = 0; k < fs * g.ch; k++) { double a = ol[k] - oc[k], b = orf[k] - oc[k]; e_fec_all += a * a; e_fec_ref_all += b * b; } fec_all++; }
      if (has > 0 && g.ch == 1 && req == fs) {
        int nsilk = 1, flags = silk_lbrr_flags_mono(nd.p, (int)pk[i + 1].size(), &nsilk);
        if (flags > 0 && fs % nsilk == 0) {
          const int w = fs / nsilk;
          for (int f = 0; f < nsilk; f++) if ((flags >> f) & 1) {
            int cl = f == 0 ? 0 : ((flags >> (f - 1)) & 1) ? 1 : 2;
            double ef = 0, ec2 = 0;
            for (int k = f * w; k < (f + 1) * w; k++) { ef += (double)ol[k] * ol[k]; ec2 += (double)oc[k] * oc[k]; }
            if (ec2 >= 1e-4 * w) {     // frames with real signal (rms >= 0.01) only
              lv_fec[cl] += ef; lv_clean[cl] += ec2; lv_n[cl]++;
              double fl = 10 * std::log10((ef + 1e-20) / ec2);
              if (fl < lv_frame_min) { lv_frame_min = fl; lv_frame_min_at = i; lv_frame_min_cl = cl; }
              lv_frames++; if (fl < -15.0) lv_low++;
            }
          }
        }
      }
      if (family == 2) {
        n = opus_decode_float(plconly.p, nullptr, 0, op, fs, 0);
        VP_REQUIRE(n == fs, "c09:plc-duration", "concealment request of %d samples returned %d", fs, n);
        if (has > 0 && run == 1) {
          double ef1 = 0, ep1 = 0;
          for (int k = 0; k < fs * g.ch; k++) { double a = ol[k] - oc[k], b = op[k] - oc[k]; ef1 += a * a; ep1 += b * b; }
          e_fec += ef1; e_plc += ep1; fec_frame_err.push_back(std::make_pair(ef1, ep1));
          { double sxy = 0, sxx = 0, syy = 0; for (int k = 0; k < fs * g.ch; k++) { sxy += (double)ol[k] * oc[k]; sxx += (double)ol[k] * ol[k]; syy += (double)oc[k] * oc[k]; }
            rep.note("fec-vs-plc packet %d: rms loss-free %.4f, recovered %.4f (correlation %.3f), concealed %.4f; error energy recovered %.4g, concealed %.4g", i, am_rms(oc, fs * g.ch, 1), am_rms(ol, fs * g.ch, 1), sxy / std::sqrt(sxx * syy + 1e-30), am_rms(op, fs * g.ch, 1), ef1, ep1); }
          fec_frames++;
        }
      }
    } else if (shape == 1 && fs > F2_5) {
      // conceal in pieces of 2.5..20 ms
      int done = 0;
      while (done < fs) {
        int piece = F2_5 * (1 << c.irange(0, 3)); if (piece > fs - done) piece = fs - done; piece -= piece % F2_5; if (piece <= 0) piece = F2_5;
        n = opus_decode_float(lossy.p, nullptr, 0, ol + (size_t)done * g.ch, piece, 0);
        (void)ref_opus_decode_float(rlossy.p, nullptr, 0, orf + (size_t)done * g.ch, piece, 0);
        VP_REQUIRE(n == piece, "c09:plc-duration", "concealment request of %d samples returned %d", piece, n);
        done += piece;
      }
      rep.label("plc-in-pieces");
      if (family == 2) { n = opus_decode_float(plconly.p, nullptr, 0, op, fs, 0); VP_REQUIRE(n == fs, "c09:plc-duration", "concealment returned %d", n); }
    } else {
      n = opus_decode_float(lossy.p, nullptr, 0, ol, fs, 0);
      (void)ref_opus_decode_float(rlossy.p, nullptr, 0, orf, fs, 0);
      VP_REQUIRE(n == fs, "c09:plc-duration", "concealment request of %d samples returned %d", fs, n);
      rep.label("plc-whole");
      if (family == 2) { n = opus_decode_float(plconly.p, nullptr, 0, op, fs, 0); VP_REQUIRE(n == fs, "c09:plc-duration", "concealment returned %d", n); }
    }
    rep.count();
    if (run <= 12) rep.note("lost%d(run%d %s shape%d rms %.4f)", i, run, use_fec ? "FEC" : "PLC", shape, am_rms(ol, fs * g.ch, 1));
    VP_REQUIRE(all_finite(ol, (size_t)fs * g.ch), "c09:non-finite", "non-finite sample in concealed output (packet %d, run %d)", i, run);
    // bounded vs the recent level (last 100 ms of output, or the 100 ms before the burst)
    {
      int from = std::max(0, i * fs - w100);
      double recent = am_peak(yl.data() + (size_t)from * g.ch, (i * fs - from) * g.ch, 1);
      double ref = std::max(recent, preloss_peak);
      // a frame recovered from LBRR data is real audio (it may contain an onset): it is bounded by the loss-free twin's frame as well
      if (use_fec) ref = std::max(ref, am_peak(oc, fs * g.ch, 1));
      double pkc = am_peak(ol, fs * g.ch, 1);
      if (ref > 1e-4) { char cb[200]; snprintf(cb, sizeof cb, "%s/Fs%d/ch%d/br%d/run%d/fam%d/sig%d/ref%.4f/fec%d", cls, g.Fs, g.ch, g.bitrate, run, family, g.family, ref, use_fec); calib_log("peak_ratio", pkc / ref, cb); }
      // frames recovered with decode_fec=1 carry no absolute level clause: the frozen codec's stereo LBRR frames already peak at 20x the reference
      // (thorough tier, two-talker stereo, 40 ms; calibration had shown 6.8x); they are bounded relative to the frozen decoder above (3x) instead
      if (!use_fec) VP_REQUIRE(pkc <= K_PEAK_PLC * ref + EPS_PEAK, "c09:concealment-too-loud", "concealed packet %d (run %d, %s): peak %.4f, recent/pre-loss peak %.4f", i, run, use_fec ? "FEC" : "PLC", pkc, ref);
    }
    // ---- one-sided clauses relative to the frozen decoder fed the identical calls (per-case calibration; generous factors)
    {
      double pk_t = am_peak(ol, fs * g.ch, 1), pk_r = am_peak(orf, fs * g.ch, 1);
      VP_REQUIRE(pk_t <= 3.0 * pk_r + 0.05 * preloss_peak + 2e-3, "c09:louder-than-frozen-concealment", "concealed packet %d (run %d, %s): peak %.4f, frozen decoder %.4f (pre-loss peak %.4f)", i, run, use_fec ? "FEC" : "PLC", pk_t, pk_r, preloss_peak);
      if ((run * (long)fs) >= g.Fs) {
        double r_t = am_rms(ol, fs * g.ch, 1), r_r = am_rms(orf, fs * g.ch, 1);
        VP_REQUIRE(r_t <= 2.0 * r_r + 0.02 * preloss_rms + 1e-4, "c09:decays-less-than-frozen", "after %.2f s of sustained loss the concealment RMS is %.5f, frozen decoder %.5f (pre-loss RMS %.4f)", run * (double)fs / g.Fs, r_t, r_r, preloss_rms);
        rep.label("decay-vs-frozen-checked");
      }
    }
    // decay under sustained loss
    if ((run * (long)fs) >= g.Fs && celt_only && g.family == sig::SPEECHLIKE && !voiced_cont && preloss_rms > 1e-3 && preloss_rms > 4.0 * bg_rms) {
      double r = am_rms(ol, fs * g.ch, 1);
      { char cb[200]; snprintf(cb, sizeof cb, "%s/Fs%d/ch%d/run%d/sig%d/pre%.4f/celt%d", cls, g.Fs, g.ch, run, g.family, preloss_rms, celt_only); calib_log("decay_ratio", r / preloss_rms, cb); }
      VP_REQUIRE(r <= DECAY_FRACTION * preloss_rms, "c09:no-decay", "after %.2f s of sustained loss the concealment RMS is %.4f, pre-loss RMS %.4f (%s)", run * (double)fs / g.Fs, r, preloss_rms, celt_only ? "MDCT only" : "all speech frames active");
      rep.label("decay-checked");
    }
    fp = mix(fp, i);
  }
  // ---- after reception resumes for good: bounded start and re-convergence
  if (resumed_at >= 0 && first_loss >= 0) {
    int last_lost = -1; for (int i = 0; i < N; i++) if (lost[i]) last_lost = i;
    int r0 = (last_lost + 1) * fs;
    int total = N * fs;
    if (r0 + w100 <= total) {
      double pl = am_peak(yl.data() + (size_t)r0 * g.ch, w100 * g.ch, 1), pc = am_peak(yc.data() + (size_t)r0 * g.ch, w100 * g.ch, 1);
      int from = std::max(0, (run_start >= 0 ? run_start : 0) * fs - w100);
      double pre = am_peak(yc.data() + (size_t)from * g.ch, w100 * g.ch, 1);
      double ref = std::max(pc, pre);
      if (ref > 1e-4) { char cb[200]; snprintf(cb, sizeof cb, "%s/Fs%d/ch%d/br%d/run%d/fam%d/sig%d/ref%.4f", cls, g.Fs, g.ch, g.bitrate, longest_run, family, g.family, ref); calib_log("resume_peak_ratio", pl / ref, cb); }
      VP_REQUIRE(pl <= K_RESUME * ref + EPS_PEAK, "c09:loud-after-loss", "first 100 ms after reception resumes: peak %.4f, loss-free twin %.4f, pre-loss %.4f", pl, pc, pre);
      rep.label("resume-peak-checked");
    }
    // (relative) 50 ms windows over the whole tail: wherever the frozen decoder fed the same calls has re-converged, the tree must have too
    for (int a = r0, b = a + g.Fs / 20; b <= total; a = b, b = a + g.Fs / 20) {
      double es = 0, en = 0, enr = 0;
      for (int k = a * g.ch; k < b * g.ch; k++) { double sg = yc[k], d1 = yl[k] - yc[k], d2 = yr[k] - yc[k]; es += sg * sg; en += d1 * d1; enr += d2 * d2; }
      if (es > 1e-6 * (b - a)) {
        double snr_t = 10 * std::log10((es + 1e-20) / (en + 1e-20)), snr_r = 10 * std::log10((es + 1e-20) / (enr + 1e-20));
        if (snr_r >= 30.0) { VP_REQUIRE(snr_t >= 18.0, "c09:reconverges-worse-than-frozen", "%d-%d ms after reception resumed the lossy decoder is %.1f dB from the loss-free twin; the frozen decoder on the same calls is at %.1f dB", (a - r0) * 1000 / g.Fs, (b - r0) * 1000 / g.Fs, snr_t, snr_r); rep.label("reconvergence-vs-frozen-checked"); }
      }
    }
    // (absolute, calibrated) 500-700 ms after reception resumed
    {
      int a = r0 + g.Fs / 2, b = r0 + g.Fs * 7 / 10;
      double es = 0, en = 0, enr = 0;
      if (b <= total) for (int k = a * g.ch; k < b * g.ch; k++) { double sg = yc[k], d1 = yl[k] - yc[k], d2 = yr[k] - yc[k]; es += sg * sg; en += d1 * d1; enr += d2 * d2; }
      // a frame of at most one byte inside a received packet (the encoder's "speech layer busted its budget, let the decoder conceal"
      // signal, or DTX) is concealed by both twins from their own concealment state (random seeds, comfort-noise memory), which
      // legitimately differs after losses: such a tail says nothing about re-convergence (seed 34: error exactly zero around one such frame)
      bool enc_dropped = false;
      for (int i = last_lost + 1; i < N && i * fs < b; i++) {
        rfc::Parsed q = rfc::parse(pk[i].data(), (int)pk[i].size(), false);
        for (int f = 0; f < q.count; f++) if (q.size[f] <= 1) enc_dropped = true;
      }
      if (enc_dropped) rep.label("tail-has-encoder-dropped-frame");
      if (b <= total && es > 1e-6 * (b - a) && !enc_dropped) {
        double snr = 10 * std::log10((es + 1e-20) / (en + 1e-20));
        rep.note("reconvergence window 500-700 ms: signal rms %.5f, tree %.1f dB, frozen %.1f dB", std::sqrt(es / ((b - a) * g.ch)), snr, 10 * std::log10((es + 1e-20) / (enr + 1e-20)));
        { char cb[200]; snprintf(cb, sizeof cb, "%s/Fs%d/ch%d/br%d/run%d/fam%d/sig%d", cls, g.Fs, g.ch, g.bitrate, longest_run, family, g.family); calib_log("reconv_snr", snr, cb); }
        bool aperiodic = (g.family == sig::SPEECHLIKE && !voiced_cont) || g.family == sig::NOISE;
        if (celt_only) { VP_REQUIRE(snr >= RECONV_SNR_CELT_DB, "c09:no-reconvergence", "MDCT-only stream: 500-700 ms after reception resumed the lossy decoder is %.1f dB from the loss-free twin (longest loss %d packets)", snr, longest_run); rep.label("reconvergence-checked"); }
        else if (aperiodic) { VP_REQUIRE(snr >= RECONV_SNR_OTHER_DB, "c09:no-reconvergence", "500-700 ms after reception resumed the lossy decoder is %.1f dB from the loss-free twin (longest loss %d packets)", snr, longest_run); rep.label("reconvergence-checked"); }
        else rep.label("reconvergence-not-promised(stationary tone in the speech layer)");
      }
    }
  }
  if (fec_all >= 8) {
    VP_REQUIRE(e_fec_all <= 2.0 * e_fec_ref_all + 1e-7 * fec_all * fs, "c09:fec-worse-than-frozen", "over %d frames recovered from LBRR data the error energy against the loss-free twin is %.3g, frozen decoder on the same calls %.3g", fec_all, e_fec_all, e_fec_ref_all);
    rep.label("fec-vs-frozen-checked");
  }
  if (lv_frame_min_at >= 0) { char cb[200]; snprintf(cb, sizeof cb, "%s/d%d/Fs%d/br%d/class%d/pkt%d", cls, g.d, g.Fs, g.bitrate, lv_frame_min_cl, lv_frame_min_at); calib_log("fec_frame_min_db", lv_frame_min, cb);
    snprintf(cb, sizeof cb, "%s/d%d/Fs%d/br%d/low%d/of%d/fam%d", cls, g.d, g.Fs, g.bitrate, lv_low, lv_frames, family); calib_log("fec_low_frac", lv_frames ? (double)lv_low / lv_frames : 0, cb); }
  // (count) over all frames recovered from LBRR data that carry real signal: those coming out more than 15 dB too quiet.  Repaired tree: 0 of ~50 000 frames in
  // 970 cases with >= 8 such frames; finding F25 (gain chain of the LBRR frame anchored at the wrong index, sharp onsets inside a frame): up to 23 % of the frames
  // of a gated 40/60 ms stream.  One such frame is tolerated, plus one per 40.
  if (lv_frames >= 8) {
    VP_REQUIRE(lv_low <= 1 + lv_frames / 40, "c09:fec-frames-far-too-quiet", "%d of %d frames recovered from LBRR data (%g ms packets) carry less than -15 dB of the energy of the same frames decoded without loss (quietest: %.1f dB, packet %d)",
               lv_low, lv_frames, cu::DUR400[g.d] * 2.5, lv_frame_min, lv_frame_min_at);
    rep.label("fec-low-frame-count-checked");
  }
  {
    static const char* const NM[3] = {"first speech frame of the packet", "later frame, predecessor has LBRR data", "later frame, predecessor has no LBRR data"};
    double lv[3] = {0, 0, 0};
    for (int cl = 0; cl < 3; cl++) if (lv_n[cl] >= (cl == 2 ? 2 : 3)) {
      lv[cl] = 10 * std::log10((lv_fec[cl] + 1e-20) / (lv_clean[cl] + 1e-20));
      { char cb[200]; snprintf(cb, sizeof cb, "%s/d%d/Fs%d/br%d/class%d/n%d", cls, g.d, g.Fs, g.bitrate, cl, lv_n[cl]); calib_log("fec_level_db", lv[cl], cb); }
      VP_REQUIRE(lv[cl] >= FEC_LEVEL_MIN_DB, "c09:fec-frames-far-too-quiet", "%d frames recovered from LBRR data (%s, %g ms packets) carry %.1f dB of the energy of the same frames decoded without loss", lv_n[cl], NM[cl], cu::DUR400[g.d] * 2.5, lv[cl]);
      if (cl > 0 && lv_n[0] >= 3)
        VP_REQUIRE(lv[cl] >= lv[0] + FEC_LEVEL_VS_FIRST_DB, "c09:fec-frames-far-too-quiet", "%d frames recovered from LBRR data (%s, %g ms packets) carry %.1f dB of the energy of the same frames decoded without loss, the first frames of the packets %.1f dB", lv_n[cl], NM[cl], cu::DUR400[g.d] * 2.5, lv[cl], lv[0]);
      rep.labelf("fec-level-checked:class%d", cl);
    }
  }
  if (family == 2 && fec_frames >= 20 && g.d <= 5 && !two_talkers) {
    double gain = 10 * std::log10((e_plc + 1e-20) / (e_fec + 1e-20));
    { char cb[200]; snprintf(cb, sizeof cb, "%s/d%d/Fs%d/ch%d/br%d/n%d/loss%d", cls, g.d, g.Fs, g.ch, g.bitrate, fec_frames, g.loss); calib_log("fec_gain_db", gain, cb); }
    const double need = g.d <= 3 ? FEC_GAIN_DB : FEC_GAIN_LONG_DB;
    // The speech layer is predictive: a frame recovered from LBRR data leaves the decoder's long-term-prediction memory slightly off, and an
    // LBRR frame decoded a few packets later on that memory can come out as garbage several dB louder than the original (seed 504: 1 of 23
    // recovered frames, 8 dB above the encoder's own reconstruction of the same LBRR frame, exact when the earlier loss is taken away; the
    // frozen decoder does the same).  One such frame dominates the energy sum, so the aggregate is also evaluated with the tenth of the
    // frames that have the largest recovered-frame error left out; the clause fails only if both readings are below the bound.
    if (gain < need) {
      std::vector<std::pair<double, double>> v = fec_frame_err; std::sort(v.begin(), v.end());
      size_t keep = v.size() - (v.size() + 9) / 10; double sf = 0, sp = 0; for (size_t k = 0; k < keep; k++) { sf += v[k].first; sp += v[k].second; }
      double tg = 10 * std::log10((sp + 1e-20) / (sf + 1e-20));
      rep.note("fec aggregate %.2f dB, with the worst tenth of the recovered frames left out %.2f dB", gain, tg);
      rep.label("fec-aggregate-trimmed-reading-used");
      gain = std::max(gain, tg);
    }
    VP_REQUIRE(gain >= need, "c09:fec-not-better", "over %d single losses with LBRR available (%g ms packets), FEC error energy is only %.2f dB below concealment (required %.1f dB)", fec_frames, cu::DUR400[g.d] * 2.5, gain, need);
    rep.label(g.d <= 3 ? "fec-aggregate-checked" : "fec-aggregate-checked-40-60ms");
  }
  (void)sched_end; (void)burst_packets; (void)e_fec_ref; (void)K_PEAK_FEC;
  if (longest_run * (long)fs >= g.Fs) rep.label("burst>=1s");
  if (longest_run * (long)fs >= 5L * g.Fs) rep.label("burst>=5s");
  rep.labelf("family:%d", family);
  rep.labelf("class:%s", cls);
  if (nontriv) rep.nontrivial();
  rep.fingerprint(fp);
  return 0;
}
