// C04: encode then decode reproduces the input at the reported delay; channels
// keep identity, sign and level.  Oracles: delay estimate vs OPUS_GET_LOOKAHEAD;
// SNR / per-band energy / per-channel gain relative to the frozen reference
// codec run on the same input (per-case calibration), plus calibrated class
// floors (calib/C04.json -> c04_calib.inc).
#include "vp.hpp"
#include "rfc_framing.hpp"
#include "common.hpp"
#include "codec_util.hpp"
#include "siggen.hpp"
#define VP_REF_SAME_ARITH 1   // in the fixed-point variant the frozen fixed-point codec is the reference
#include "refapi.h"
#include "audio_metrics_decl.h"
#include <cmath>

using namespace vp;

const TargetInfo vp_info = {"c04_fidelity", 24, 96};

namespace {
#include "c04_calib.inc"

struct RefEnc { OpusEncoder* p = nullptr; ~RefEnc() { if (p) ref_opus_encoder_destroy(p); } };
struct RefDec { OpusDecoder* p = nullptr; ~RefDec() { if (p) ref_opus_decoder_destroy(p); } };
struct RefMSEnc { OpusMSEncoder* p = nullptr; ~RefMSEnc() { if (p) ref_opus_multistream_encoder_destroy(p); } };
struct RefMSDec { OpusMSDecoder* p = nullptr; ~RefMSDec() { if (p) ref_opus_multistream_decoder_destroy(p); } };

double ncc(const float* a, const float* b, int n, int stride, int delay, int skip) {
  double sab = 0, saa = 0, sbb = 0;
  for (int i = skip; i + delay < n; i++) { double x = a[(size_t)i * stride], y = b[(size_t)(i + delay) * stride]; sab += x * y; saa += x * x; sbb += y * y; }
  return sab / (std::sqrt(saa * sbb) + 1e-30);
}

const char* mode_name(int m) { return m == rfc::SILK ? "silk" : m == rfc::HYBRID ? "hybrid" : "celt"; }

// VP_C04_CALIB=<file>: append "class snr_ref" lines measured on the frozen codec (calibration runs only)
void calib_log(const char* cls, double snr, double gain, double snr_tree = 0, double gain_tree = 0) {
  const char* p = getenv("VP_C04_CALIB");
  if (!p) return;
  FILE* f = fopen(p, "a");
  if (!f) return;
  fprintf(f, "%s %.3f %.4f %.3f %.4f\n", cls, snr, gain, snr_tree, gain_tree);
  fclose(f);
}
}  // namespace

int vp_case(Choice& c, Report& rep) {
  static const int KW[] = {8, 2};
  int kind = c.weighted(KW, 2);   // 0 single, 1 multistream (surround family 1 / 255)
  int Fs = cu::RATES[4 - c.irange(0, 4)];
  int app = cu::APPS[(c.irange(0, 2) + 1) % 3];
  int complexity = 10 - c.irange(0, 10);
  int vbrsel = c.irange(0, 2);
  int family = c.pick((const int[]){sig::NOISE, sig::SPEECHLIKE, sig::MULTITONE, sig::TONE_PAIR, sig::SWEEP, sig::CLICKS, sig::NOISE, sig::TONE_PAIR});
  uint64_t sig_seed = c.u32();
  double amp = c.pick((const double[]){0.5, 0.3, 0.7});
  int err = 0;

  if (kind == 0) {
    int ch = 1 + c.irange(0, 1);
    int fmode = c.pick((const int[]){OPUS_AUTO, cu::MODE_CELT, cu::MODE_SILK, cu::MODE_HYBRID, cu::MODE_CELT});
    if (app == OPUS_APPLICATION_RESTRICTED_LOWDELAY) fmode = cu::MODE_CELT;
    int d = c.pick((const int[]){3, 3, 2, 1, 0, 4, 5, 8});
    if (fmode == cu::MODE_SILK && d < 2) d = 2;       // the speech layer codes >= 10 ms
    if (fmode == cu::MODE_HYBRID && (d < 2 || Fs < 24000)) { fmode = cu::MODE_CELT; }
    // per-channel bitrate above a per-mode floor
    int floor_ = fmode == cu::MODE_SILK ? 14000 : fmode == cu::MODE_HYBRID ? 28000 : 40000;
    if (fmode == OPUS_AUTO) floor_ = 24000;
    int per_ch = c.chance(90) ? c.irange(floor_, 64000) : c.irange(64000, 200000);
    if (d < 2) per_ch = per_ch < 64000 ? per_ch + 40000 : per_ch;   // 2.5/5 ms frames carry a large overhead
    int bitrate = per_ch * ch;
    int fmt = c.irange(0, 2);
    // class "quiet input" (hash-derived switch): the same families 40, 60 or (24-bit / float entry points only) 80 or 100 dB lower.  "All three sample
    // formats" includes what only the wider formats can carry: a 24-bit signal below the 16-bit LSB must not be treated as 16-bit silence.
    const uint64_t gh0 = fnv1a(c.d, c.n);
    const bool quiet = (gh0 % 7) == 4;
    if (quiet) {
      int lvl = (int)((gh0 >> 16) % 4);
      if (fmt == 0 && lvl >= 2) lvl = 1;
      amp *= lvl == 0 ? 1e-2 : lvl == 1 ? 1e-3 : lvl == 2 ? 1e-4 : 1e-5;
      rep.labelf("class:quiet-input-%ddB", -40 - 20 * lvl);
    }
    int fs = cu::frame_samples(Fs, d);
    int nframes = (Fs * 3 / 2 + fs - 1) / fs;
    int total = nframes * fs;
    std::vector<float> x;
    sig::generate(family, sig_seed, Fs, ch, total, amp, x);
    // quantise the input to what the chosen entry point can carry so both codecs see the same samples
    if (fmt == 0) for (auto& v : x) v = (float)(std::floor(v * 32768.0 + 0.5) / 32768.0);

    cu::Enc enc; cu::Dec dec; RefEnc renc; RefDec rdec;
    enc.p = opus_encoder_create(Fs, ch, app, &err); renc.p = ref_opus_encoder_create(Fs, ch, app, &err);
    dec.p = opus_decoder_create(Fs, ch, &err); rdec.p = ref_opus_decoder_create(Fs, ch, &err);
    VP_REQUIRE(enc.p && renc.p && dec.p && rdec.p, "c04:create", "create failed");
#define BOTH(req) do { opus_encoder_ctl(enc.p, req); ref_opus_encoder_ctl(renc.p, req); } while (0)
    BOTH(OPUS_SET_BITRATE(bitrate)); BOTH(OPUS_SET_COMPLEXITY(complexity));
    BOTH(OPUS_SET_VBR(vbrsel != 1)); BOTH(OPUS_SET_VBR_CONSTRAINT(vbrsel != 2));
    BOTH(CU_SET_FORCE_MODE(fmode));
    if (fmt == 0) BOTH(OPUS_SET_LSB_DEPTH(16));
    opus_int32 look = -1, rlook = -1;
    opus_encoder_ctl(enc.p, OPUS_GET_LOOKAHEAD(&look)); ref_opus_encoder_ctl(renc.p, OPUS_GET_LOOKAHEAD(&rlook));
    VP_REQUIRE(look >= 0 && look <= Fs / 50, "c04:lookahead-range", "OPUS_GET_LOOKAHEAD %d", look);
    std::vector<float> y((size_t)total * ch), yr((size_t)total * ch);
    unsigned char pkt[4000];
    int modes[3] = {0, 0, 0};
    HeapBuf<opus_int16> in16((size_t)fs * ch); HeapBuf<opus_int32> in24((size_t)fs * ch);
    // class "bandwidth narrows and widens again mid-stream" (hash-derived switch; both codecs receive the same requests): state of bands that
    // drop out of the coded range and come back
    const uint64_t gh = fnv1a(c.d, c.n);
    const bool bw_schedule = (gh % 5) == 2 && Fs >= 24000;
    const int bw_wide = Fs >= 48000 ? OPUS_BANDWIDTH_FULLBAND : OPUS_BANDWIDTH_SUPERWIDEBAND;
    const int bw_narrow = ((gh >> 8) & 1) ? OPUS_BANDWIDTH_WIDEBAND : OPUS_BANDWIDTH_NARROWBAND;
    if (bw_schedule) { BOTH(OPUS_SET_BANDWIDTH(bw_wide)); rep.label("class:bandwidth-schedule"); }
    for (int f = 0; f < nframes; f++) {
      if (bw_schedule && f == nframes / 3) BOTH(OPUS_SET_BANDWIDTH(bw_narrow));
      if (bw_schedule && f == 2 * nframes / 3) BOTH(OPUS_SET_BANDWIDTH(bw_wide));
      const float* src = x.data() + (size_t)f * fs * ch;
      int n, nr;
      if (fmt == 0) {
        for (int i = 0; i < fs * ch; i++) in16[i] = (opus_int16)lrintf(src[i] * 32768.f > 32767.f ? 32767.f : src[i] * 32768.f);
        n = opus_encode(enc.p, in16.p, fs, pkt, sizeof pkt);
      } else if (fmt == 1) {
        for (int i = 0; i < fs * ch; i++) in24[i] = (opus_int32)lrintf(src[i] * 8388608.f);
        n = opus_encode24(enc.p, in24.p, fs, pkt, sizeof pkt);
      } else n = opus_encode_float(enc.p, src, fs, pkt, sizeof pkt);
      VP_REQUIRE(n > 0, "c04:encode-failed", "encode returned %d", n);
      modes[rfc::toc_info(pkt[0]).mode]++;
      int dn = opus_decode_float(dec.p, pkt, n, y.data() + (size_t)f * fs * ch, fs, 0);
      VP_REQUIRE(dn == fs, "c04:decode-failed", "decode returned %d", dn);
      unsigned char rpkt[4000];
      if (fmt == 0) nr = ref_opus_encode(renc.p, in16.p, fs, rpkt, sizeof rpkt);
      else if (fmt == 1) nr = ref_opus_encode24(renc.p, in24.p, fs, rpkt, sizeof rpkt);
      else nr = ref_opus_encode_float(renc.p, src, fs, rpkt, sizeof rpkt);
      if (nr == OPUS_INTERNAL_ERROR) { rep.label("frozen-encoder-internal-error(F13)"); return 0; }
      VP_REQUIRE(nr > 0, "c04:ref-encode-failed", "reference encode returned %d", nr);
      dn = ref_opus_decode_float(rdec.p, rpkt, nr, yr.data() + (size_t)f * fs * ch, fs, 0);
      VP_REQUIRE(dn == fs, "c04:ref-decode-failed", "reference decode returned %d", dn);
      rep.count(2);
    }
    int mode = modes[2] >= modes[0] && modes[2] >= modes[1] ? rfc::CELT : modes[1] >= modes[0] ? rfc::HYBRID : rfc::SILK;
    bool celt_only = modes[0] == 0 && modes[1] == 0;
    int skip = Fs / 5;   // ignore the first 200 ms (start-up)
    char cls[96];
    snprintf(cls, sizeof cls, "%s/%s/ch%d/%s", mode_name(mode), per_ch < 24000 ? "<24k" : per_ch < 48000 ? "24-48k" : per_ch < 96000 ? "48-96k" : ">=96k", ch, sig::FAMILY_NAME[family]);
    rep.labelf("mode:%s", mode_name(mode));
    rep.labelf("family:%s", sig::FAMILY_NAME[family]);
    rep.note("single Fs=%d ch=%d app=%d mode=%d dur=%d/400 bitrate=%d cx=%d vbrsel=%d fmt=%d family=%s look=%d class=%s", Fs, ch, app, fmode, cu::DUR400[d], bitrate, complexity, vbrsel, fmt, sig::FAMILY_NAME[family], look, cls);
    VP_REQUIRE(look == rlook || true, "c04:never", "unused");
    // ---- (1) delay
    bool aperiodic = family == sig::NOISE || family == sig::SWEEP || family == sig::CLICKS || family == sig::SPEECHLIKE;
    double frac = 0, pk = 0, sec = 0, rfrac = 0, rpk = 0, rsec = 0;
    int maxlag = look + Fs / 100;
    am_best_lag(x.data() + (size_t)skip * ch, y.data() + (size_t)skip * ch, total - skip, ch, maxlag, &frac, &pk, &sec);
    am_best_lag(x.data() + (size_t)skip * ch, yr.data() + (size_t)skip * ch, total - skip, ch, maxlag, &rfrac, &rpk, &rsec);
    rep.count(2);
    bool confident = aperiodic && rpk >= 0.6 && rpk - rsec >= 0.02;
    if (confident) {
      double tol = celt_only ? 0.5 : Fs * 0.0001 + 0.5;
      // the frozen codec defines what "exactly the lookahead" means for this stream; the tree must agree with both
      if (std::fabs(rfrac - rlook) <= tol) {
        VP_REQUIRE(std::fabs(frac - look) <= tol, "c04:delay", "measured delay %.2f samples, OPUS_GET_LOOKAHEAD %d (tolerance %.2f, %s, frozen codec measures %.2f for its %d)", frac, look, tol, celt_only ? "MDCT only" : "speech layer involved", rfrac, rlook);
        rep.label("delay-checked");
        if (celt_only) rep.label("delay-checked-exact");
      } else rep.label("delay-frozen-codec-outside-tolerance");
      VP_REQUIRE(std::fabs((frac - look) - (rfrac - rlook)) <= 0.3, "c04:delay-vs-frozen", "delay minus reported lookahead: tree %.2f (look %d), frozen %.2f (look %d)", frac - look, look, rfrac - rlook, rlook);
    } else rep.label("delay-not-measurable");
    // ---- (2) SNR, band energies, (3) per-channel gain / identity, all at the reported delay
    for (int k = 0; k < ch; k++) {
      if (am_rms(x.data() + k, total, ch) < (quiet ? 1e-8 : 1e-4)) continue;
      double g = 0, gr = 0;
      double snr = am_snr_db(x.data() + k, y.data() + k, total, ch, look, skip, &g);
      double snr_r = am_snr_db(x.data() + k, yr.data() + k, total, ch, rlook, skip, &gr);
      rep.count(2);
      calib_log(cls, snr_r, gr, snr, g);
      VP_REQUIRE(snr >= (snr_r < 30.0 ? snr_r : 30.0) - 4.0, "c04:snr-vs-frozen", "channel %d: SNR %.2f dB, frozen codec %.2f dB on the same input (class %s)", k, snr, snr_r, cls);
      double fl = calib_floor(cls);
#ifdef FIXED_POINT
      fl = -1000;   // the absolute class floors were measured on the float build only
#endif
      if (quiet) fl = -1000;   // ... and at normal levels
      if (fl > -100) { VP_REQUIRE(snr >= fl, "c04:snr-floor", "channel %d: SNR %.2f dB below the calibrated class floor %.2f dB (class %s)", k, snr, fl, cls); rep.label("class-floor-checked"); }
      if (snr_r >= 8.0) {
        VP_REQUIRE(g > 0, "c04:sign", "channel %d: output is sign-inverted (gain %.3f)", k, g);
        VP_REQUIRE(std::fabs(g - gr) <= 0.03, "c04:gain-vs-frozen", "channel %d: gain %.3f, frozen codec %.3f", k, g, gr);
        VP_REQUIRE(g >= 0.6 && g <= 1.3, "c04:gain", "channel %d: gain %.3f (SNR of the frozen codec %.1f dB)", k, g, snr_r);
        rep.label("gain-checked");
      }
      double bi[21], bo[21], br[21];
      am_band_energy_db(x.data() + k, total, ch, Fs, 0, bi);
      am_band_energy_db(y.data() + k, total, ch, Fs, look, bo);
      am_band_energy_db(yr.data() + k, total, ch, Fs, rlook, br);
      double mx = -1e9; for (int b = 0; b < 21; b++) if (bi[b] > mx) mx = bi[b];
      for (int b = 0; b < 21; b++) {
        static const int BE[22] = {0, 2, 4, 6, 8, 10, 12, 14, 16, 20, 24, 28, 32, 40, 48, 56, 68, 80, 96, 120, 156, 200};
        if (bi[b] < mx - 40 || BE[b + 1] * 100 > Fs / 2) continue;
        { char bc[96]; snprintf(bc, sizeof bc, "band/%s/rel%d", sig::FAMILY_NAME[family], (int)((mx - bi[b]) / 10)); calib_log(bc, std::fabs(bo[b] - br[b]), std::fabs(bo[b] - bi[b])); }
        // calibration (seed 31, 25 k band measurements): tree-vs-frozen differences are <= 0.83 dB with p99 <= 0.2 dB, but a 6400-case thorough run produced one
        // 3-4 dB outlier on a click train coded with 2.5 ms frames (transient decisions flip with the float summation order): the margin is 6 dB and
        // click trains carry only the SNR / gain / delay clauses
        if (family == sig::CLICKS) continue;
        VP_REQUIRE(std::fabs(bo[b] - br[b]) <= 6.0, "c04:band-energy-vs-frozen", "channel %d band %d: output energy %.1f dB, frozen codec %.1f dB (input %.1f dB)", k, b, bo[b], br[b], bi[b]);
        if (std::fabs(br[b] - bi[b]) <= 3.0) VP_REQUIRE(std::fabs(bo[b] - bi[b]) <= 9.0, "c04:band-energy", "channel %d band %d: output energy %.1f dB vs input %.1f dB", k, b, bo[b], bi[b]);
      }
      rep.label("band-energy-checked");
      // the same relative clause on 250 ms segments (a transient anomaly, e.g. a burst in a band that re-enters the coded range, is averaged
      // away over the whole stream); bands are referred to the frozen codec's output energy in the segment: a band the frozen codec leaves
      // empty is compared against the segment's loudest band - 40 dB floor
      if (family != sig::CLICKS) {
        int seg = Fs / 4;
        for (int s0 = skip; s0 + seg + look + 8 <= total; s0 += seg) {
          double so[21], sr[21];
          am_band_energy_db(y.data() + (size_t)(s0 + look) * ch + k, seg, ch, Fs, 0, so);
          am_band_energy_db(yr.data() + (size_t)(s0 + rlook) * ch + k, seg, ch, Fs, 0, sr);
          double smx = -1e9; for (int b = 0; b < 21; b++) if (sr[b] > smx) smx = sr[b];
          for (int b = 0; b < 21; b++) {
            static const int BE2[22] = {0, 2, 4, 6, 8, 10, 12, 14, 16, 20, 24, 28, 32, 40, 48, 56, 68, 80, 96, 120, 156, 200};
            if (BE2[b + 1] * 100 > Fs / 2) continue;
            double ref = sr[b] > smx - 40 ? sr[b] : smx - 40;     // floor for bands the frozen codec leaves (nearly) empty
            { char bc[96]; snprintf(bc, sizeof bc, "segband/%s", sig::FAMILY_NAME[family]); calib_log(bc, so[b] - ref, sr[b] - smx); }
            VP_REQUIRE(so[b] - ref <= 10.0, "c04:segment-band-energy-vs-frozen", "channel %d band %d, segment at %d ms: output energy %.1f dB, frozen codec %.1f dB (loudest band of the segment %.1f dB)", k, b, s0 * 1000 / Fs, so[b], sr[b], smx);
          }
        }
        rep.label("segment-band-energy-checked");
      }
    }
    if (ch == 2 && family == sig::TONE_PAIR) {
      // left carries 440 Hz, right 1000 Hz: each output channel must match its own input channel
      double ll = ncc(x.data(), y.data(), total, 2, look, skip), lr = ncc(x.data() + 1, y.data(), total, 2, look, skip);
      double rr = ncc(x.data() + 1, y.data() + 1, total, 2, look, skip), rl = ncc(x.data(), y.data() + 1, total, 2, look, skip);
      double fll = ncc(x.data(), yr.data(), total, 2, rlook, skip), flr = ncc(x.data() + 1, yr.data(), total, 2, rlook, skip);
      double frr = ncc(x.data() + 1, yr.data() + 1, total, 2, rlook, skip), frl = ncc(x.data(), yr.data() + 1, total, 2, rlook, skip);
      if (fll > 0.7 && frr > 0.7 && std::fabs(flr) < 0.3 && std::fabs(frl) < 0.3) {
        VP_REQUIRE(ll > 0.5 && rr > 0.5 && ll > std::fabs(lr) && rr > std::fabs(rl), "c04:channel-identity", "stereo identity lost: corr LL %.2f LR %.2f RR %.2f RL %.2f (frozen %.2f %.2f %.2f %.2f)", ll, lr, rr, rl, fll, flr, frr, frl);
        rep.label("channel-identity-checked");
      }
    }
    rep.nontrivial();
    rep.fingerprint(fnv1a(cls, strlen(cls))); rep.fingerprint(sig_seed); rep.fingerprint(mix(Fs, mix(d, fmt)));
    return 0;
  }

  // ---- multistream (surround family 1: 3..8 channels, or family 255): distinct tone per channel
  {
    int mfam = c.chance(200) ? 1 : 255;
    int ch = mfam == 1 ? c.irange(3, 8) : c.irange(2, 5);
    int streams = 0, coupled = 0; unsigned char mapping[256];
    if (Fs < 16000) Fs = 48000;
    cu::MSEnc enc; cu::MSDec dec; RefMSEnc renc; RefMSDec rdec;
    enc.p = opus_multistream_surround_encoder_create(Fs, ch, mfam, &streams, &coupled, mapping, OPUS_APPLICATION_AUDIO, &err);
    VP_REQUIRE(enc.p, "c04:ms-create", "surround encoder create failed %d", err);
    int rs = 0, rc = 0; unsigned char rmap[256];
    renc.p = ref_opus_multistream_surround_encoder_create(Fs, ch, mfam, &rs, &rc, rmap, OPUS_APPLICATION_AUDIO, &err);
    dec.p = opus_multistream_decoder_create(Fs, ch, streams, coupled, mapping, &err);
    rdec.p = ref_opus_multistream_decoder_create(Fs, ch, rs, rc, rmap, &err);
    VP_REQUIRE(renc.p && dec.p && rdec.p, "c04:ms-create2", "create failed %d", err);
    int bitrate = ch * c.irange(64000, 128000);
    opus_multistream_encoder_ctl(enc.p, OPUS_SET_BITRATE(bitrate)); ref_opus_multistream_encoder_ctl(renc.p, OPUS_SET_BITRATE(bitrate));
    int cx = complexity > 5 ? 5 : complexity;
    opus_multistream_encoder_ctl(enc.p, OPUS_SET_COMPLEXITY(cx)); ref_opus_multistream_encoder_ctl(renc.p, OPUS_SET_COMPLEXITY(cx));
    opus_int32 look = 0; opus_multistream_encoder_ctl(enc.p, OPUS_GET_LOOKAHEAD(&look));
    int fs = Fs / 50, nframes = 50, total = fs * nframes;
    std::vector<float> x((size_t)total * ch), y((size_t)total * ch), yr((size_t)total * ch);
    int lfe = (mfam == 1 && ch >= 6) ? (ch == 6 ? 5 : ch == 7 ? 6 : 7) : -1;
    const double PI = 3.14159265358979323846;
    for (int k = 0; k < ch; k++) {
      double f = k == lfe ? 60.0 : 300.0 + 173.0 * k;
      for (int i = 0; i < total; i++) x[(size_t)i * ch + k] = (float)(0.3 * std::sin(2 * PI * f * i / Fs + k));
    }
    std::vector<unsigned char> pkt(1500 * (size_t)streams);
    for (int f = 0; f < nframes; f++) {
      int n = opus_multistream_encode_float(enc.p, x.data() + (size_t)f * fs * ch, fs, pkt.data(), (int)pkt.size());
      VP_REQUIRE(n > 0, "c04:ms-encode-failed", "multistream encode returned %d", n);
      int dn = opus_multistream_decode_float(dec.p, pkt.data(), n, y.data() + (size_t)f * fs * ch, fs, 0);
      VP_REQUIRE(dn == fs, "c04:ms-decode-failed", "multistream decode returned %d", dn);
      n = ref_opus_multistream_encode_float(renc.p, x.data() + (size_t)f * fs * ch, fs, pkt.data(), (int)pkt.size());
      VP_REQUIRE(n > 0, "c04:ms-ref-encode-failed", "reference multistream encode returned %d", n);
      dn = ref_opus_multistream_decode_float(rdec.p, pkt.data(), n, yr.data() + (size_t)f * fs * ch, fs, 0);
      VP_REQUIRE(dn == fs, "c04:ms-ref-decode-failed", "reference multistream decode returned %d", dn);
      rep.count(2);
    }
    int skip = Fs / 5;
    for (int k = 0; k < ch; k++) {
      double g = 0, gr = 0;
      double snr = am_snr_db(x.data() + k, y.data() + k, total, ch, look, skip, &g);
      double snr_r = am_snr_db(x.data() + k, yr.data() + k, total, ch, look, skip, &gr);
      { char mc[64]; snprintf(mc, sizeof mc, "ms/fam%d/ch%d", mfam, ch); calib_log(mc, snr_r, gr, snr, g); }
      VP_REQUIRE(snr >= (snr_r < 30.0 ? snr_r : 30.0) - 4.0, "c04:ms-snr-vs-frozen", "multistream channel %d of %d (family %d): SNR %.2f dB, frozen codec %.2f dB", k, ch, mfam, snr, snr_r);
      if (snr_r >= 8.0) {
        VP_REQUIRE(g > 0.6 && g < 1.3, "c04:ms-gain", "multistream channel %d: gain %.3f (frozen %.3f)", k, g, gr);
        // identity: the own input channel explains the output better than any other input channel
        double own = ncc(x.data() + k, y.data() + k, total, ch, look, skip);
        for (int j = 0; j < ch; j++) if (j != k) {
          double other = ncc(x.data() + j, y.data() + k, total, ch, look, skip);
          VP_REQUIRE(own > std::fabs(other) + 0.2, "c04:ms-channel-identity", "multistream output channel %d matches input %d (%.2f) rather than its own (%.2f)", k, j, other, own);
        }
        rep.label("ms-identity-checked");
      }
    }
    rep.labelf("ms-family:%d", mfam);
    rep.note("multistream family=%d Fs=%d ch=%d streams=%d coupled=%d bitrate=%d", mfam, Fs, ch, streams, coupled, bitrate);
    rep.nontrivial();
    rep.fingerprint(mix(mfam, mix(ch, mix(Fs, bitrate))));
    return 0;
  }
}
