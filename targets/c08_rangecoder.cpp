// C08: range coder - the decoder inverts the encoder symbol for symbol, within budget.
//
// A case is a generated sequence of 1..4000 entropy-coding operations plus a
// buffer-size strategy.  The sequence is encoded twice: once into a large
// scratch buffer to learn its bit usage (and to steer carry-provoking symbols),
// then into an exact-size heap block whose size is drawn relative to that
// usage so that the tell==budget boundary and the raw-bits/range-bytes
// collision are hit in most cases.  Oracles (DESIGN.md C08):
//   * after every encoder op: tell_frac never decreases, 0 <= 8*tell-tell_frac <= 8
//   * bytes outside the (current, possibly shrunk) buffer are untouched (ASan red
//     zones for the allocation, snapshots for the part cut off by ec_enc_shrink)
//   * no encoder error  =>  a decoder performing the mirror calls returns exactly
//     the encoded values and reports the same tell, tell_frac and rng after every op
//   * ec_tell <= 8*storage at the end and no API misuse  =>  no error after ec_enc_done
//   * ec_enc_patch_initial_bits issued before enough bits exist must set the error flag
//   * (E) ec_tell_frac equals RFC 6716 4.1.6.2's iterative definition for every
//     (ilog, top-16-bits-of-rng) class of a legal range value, and ec_tell = ceil(frac/8)
#include "vp.hpp"
extern "C" {
#include "opus_types.h"
#include "entcode.h"
#include "entenc.h"
#include "entdec.h"
}
#include "common.hpp"
#include <memory>

using namespace vp;

const TargetInfo vp_info = {"c08_rangecoder", 6, 8000};

enum Kind : uint8_t { K_ENCODE = 0, K_BITS, K_LOGP, K_ICDF, K_UINT, K_BIN, K_ICDF16, K_SHRINK, K_PATCH, K_BULK, K_STEER, K_HDR, NKINDS };
static const char* const KIND_NAME[] = {"encode", "bits", "bit_logp", "icdf", "uint", "encode_bin", "icdf16", "shrink", "patch", "bulk", "steer", "hdr"};
enum HdrStyle : uint8_t { H_LOGP1 = 0, H_BIN, H_ENCODE, H_UINT, H_ICDF, H_SILK, NHSTYLES };
enum SteerMode : uint8_t { S_STRADDLE = 0, S_UP, S_DOWN };

struct Op {
  uint8_t kind = 0, bits = 0, style = 0;
  bool misuse = false;
  uint32_t a = 0, b = 0, ft = 0;
  int tab = -1;
};

struct Tables {
  std::vector<std::unique_ptr<HeapBuf<uint8_t>>> t8;
  std::vector<std::unique_ptr<HeapBuf<uint16_t>>> t16;
  std::vector<int> n8, n16;
};

static const int MAXOPS = 4000;
static const int BIGBUF = 4000 * 4 + 256;   // an op writes at most 32 bits
static uint8_t g_big[BIGBUF];

static inline int my_ilog(uint32_t v) { return v ? 32 - __builtin_clz(v) : 0; }

// RFC 6716 section 4.1.6.2, transcribed from the text (not from entcode.c's table version)
static uint32_t rfc_tell_frac(uint32_t nbits_total, uint32_t rng) {
  int lg = my_ilog(rng);
  uint64_t r_q15 = rng >> (lg - 16);
  for (int i = 0; i < 3; i++) {
    r_q15 = (r_q15 * r_q15) >> 15;
    int b = (int)(r_q15 >> 16);
    lg = 2 * lg + b;
    r_q15 >>= b;
  }
  return nbits_total * 8u - (uint32_t)lg;
}

static int check_tellfrac(uint32_t nbits_total, uint32_t rng, Report& rep) {
  ec_ctx ctx;
  memset(&ctx, 0, sizeof ctx);
  ctx.rng = rng;
  ctx.nbits_total = (int)nbits_total;
  uint32_t got = ec_tell_frac(&ctx);
  uint32_t want = rfc_tell_frac(nbits_total, rng);
  int tell = ec_tell(&ctx);
  rep.count(2);
  VP_REQUIRE(got == want, "c08:tell-frac-formula", "rng=0x%08x nbits_total=%u: ec_tell_frac=%u, RFC iterative definition=%u", rng, nbits_total, got, want);
  VP_REQUIRE(tell == (int)nbits_total - my_ilog(rng), "c08:tell-formula", "rng=0x%08x nbits_total=%u ec_tell=%d", rng, nbits_total, tell);
  VP_REQUIRE((uint32_t)tell == (got + 7) / 8, "c08:tell-vs-frac", "rng=0x%08x ec_tell=%d but ceil(ec_tell_frac/8)=%u", rng, tell, (got + 7) / 8);
  return 0;
}

// ---- enumeration: every (ilog 24..32) x (top 16 bits) class of a legal rng, 256 classes per case
static const int ENUM_L = 9, ENUM_HI = 128;
extern "C" uint64_t vp_enum_count() { return (uint64_t)ENUM_L * ENUM_HI; }
extern "C" void vp_enum_case(uint64_t idx, std::vector<uint8_t>& out) {
  out.clear();
  out.push_back(0xF0);
  out.push_back((uint8_t)(idx / ENUM_HI));
  out.push_back((uint8_t)(idx % ENUM_HI));
}

// ---------------------------------------------------------------- op generation
static void gen_widths(Rng& rng, int n, uint32_t total, bool allow_zero, std::vector<uint32_t>& w) {
  // n widths, sum == total, w[0] >= 1, all >= 1 unless allow_zero
  w.assign(n, allow_zero ? 0 : 1);
  w[0] = 1;
  uint32_t used = 0;
  for (int i = 0; i < n; i++) used += w[i];
  uint32_t rest = total - used;
  int style = rng.range(0, 2);
  for (int k = 0; k < n && rest > 0; k++) {
    int i = rng.range(0, n - 1);
    uint32_t give = style == 0 ? (uint32_t)rng.range(0, (int)std::min<uint32_t>(rest, 1u << 30))
                               : style == 1 ? rest - rest / 8 : (uint32_t)rng.range(0, (int)(rest / (uint32_t)n + 1));
    if (give > rest) give = rest;
    w[i] += give; rest -= give;
  }
  w[rng.range(0, n - 1)] += rest;
}

static void make_icdf(Choice& c, bool wide, Op& op, Tables& T) {
  int maxftb = wide ? 15 : 8;
  int ftb = 1 + c.byte() % maxftb;
  uint32_t total = 1u << ftb;
  int cap = (int)std::min<uint32_t>(total, wide ? 300 : 256);
  int nb = c.byte();
  int n = nb < 200 ? 1 + nb % std::min(cap, 20) : 1 + (nb * 7) % cap;
  bool allow_zero = c.chance(24) && n >= 2;
  Rng rng((uint64_t)c.irange(0, 65535));
  std::vector<uint32_t> w;
  gen_widths(rng, n, total, allow_zero, w);
  int sb = c.byte();
  int sym = sb >= 250 ? n - 1 : sb % n;
  while (w[sym] == 0) sym = (sym + 1) % n;   // w[0] >= 1, so this terminates
  op.bits = (uint8_t)ftb; op.a = (uint32_t)sym;
  uint32_t cum = 0;
  if (wide) {
    auto tb = std::make_unique<HeapBuf<uint16_t>>(n);
    for (int i = 0; i < n; i++) { cum += w[i]; (*tb)[i] = (uint16_t)(total - cum); }
    op.tab = (int)T.t16.size(); T.t16.push_back(std::move(tb)); T.n16.push_back(n);
  } else {
    auto tb = std::make_unique<HeapBuf<uint8_t>>(n);
    for (int i = 0; i < n; i++) { cum += w[i]; (*tb)[i] = (uint8_t)(total - cum); }
    op.tab = (int)T.t8.size(); T.t8.push_back(std::move(tb)); T.n8.push_back(n);
  }
}

static void pick_symbol(Choice& c, int cls, uint32_t ft, uint32_t& fl, uint32_t& fh) {
  switch (cls) {
    case 1: fl = ft - 1; fh = ft; break;                                   // rare top symbol
    case 2: fl = 0; fh = 1; break;                                         // rare bottom symbol
    case 3: if (ft >= 3) { fl = 1; fh = ft - 1; } else { fl = 0; fh = ft; } break;   // likely middle symbol
    default: {
      uint32_t x = (uint32_t)c.range(0, (int64_t)ft - 1), y = (uint32_t)c.range(0, (int64_t)ft - 1);
      fl = std::min(x, y); fh = std::max(x, y) + 1;
    }
  }
}

// one symbol-type op (no patch/shrink/bulk/steer) of a given kind
static void make_symbol_op(Choice& c, int kind, Op& op, Tables& T) {
  op.kind = (uint8_t)kind;
  switch (kind) {
    case K_ENCODE: {
      int m = c.byte();
      uint32_t ft;
      static const uint32_t B[] = {1, 2, 3, 255, 256, 257, 32767, 32768, 65535, 65536};
      switch (m & 3) {
        case 0: ft = 1 + c.byte(); break;
        case 1: ft = (uint32_t)c.irange(1, 65536); break;
        case 2: ft = c.pick(B); break;
        default: ft = 2 + c.byte() % 15; break;
      }
      op.ft = ft;
      pick_symbol(c, (m >> 2) & 3, ft, op.a, op.b);
      break;
    }
    case K_BIN: {
      int m = c.byte();
      op.bits = (uint8_t)(1 + (m >> 2) % 15);
      op.ft = 1u << op.bits;
      pick_symbol(c, m & 3, op.ft, op.a, op.b);
      break;
    }
    case K_LOGP: {
      int m = c.byte();
      op.bits = (uint8_t)(1 + (m >> 1) % 15);
      op.a = m & 1;
      break;
    }
    case K_ICDF: make_icdf(c, false, op, T); break;
    case K_ICDF16: make_icdf(c, true, op, T); break;
    case K_UINT: {
      int m = c.byte();
      uint32_t ft;
      static const uint32_t B[] = {2, 3, 255, 256, 257, 258, 511, 512, 513, 65535, 65536, 65537, 0xFFFFFFu, 0x1000000u, 0x1000001u,
                                   0x7FFFFFFFu, 0x80000000u, 0x80000001u, 0xFFFFFFFEu, 0xFFFFFFFFu};
      switch (m & 3) {
        case 0: ft = 2 + c.byte(); break;
        case 1: ft = (uint32_t)c.range(2, 0xFFFFFFFFll); break;
        case 2: ft = c.pick(B); break;
        default: {
          int k = 1 + c.byte() % 32;
          uint64_t p = 1ull << k;
          int d = (m >> 6) - 1;           // -1,0,1,2
          if (d == 2) d = 0;
          uint64_t v = p + d;
          if (v < 2) v = 2;
          if (v > 0xFFFFFFFFull) v = 0xFFFFFFFFull;
          ft = (uint32_t)v;
        }
      }
      op.ft = ft;
      switch ((m >> 2) & 3) {
        case 1: op.a = 0; break;
        case 2: op.a = ft - 1; break;
        default: op.a = (uint32_t)c.range(0, (int64_t)ft - 1);
      }
      break;
    }
    case K_BITS: {
      int m = c.byte();
      op.bits = (uint8_t)(1 + m % 25);
      uint32_t mask = (1u << op.bits) - 1u;
      int cls = c.byte();
      op.a = cls < 32 ? mask : cls < 64 ? 0 : (uint32_t)c.range(0, mask);
      break;
    }
  }
}

struct Seq {
  std::vector<Op> ops;
  Tables T;
  int hdr_bits = 0;     // total bits of the power-of-two header
};

static void push(Seq& s, const Op& op) { if ((int)s.ops.size() < MAXOPS) s.ops.push_back(op); }

static void gen_sequence(Choice& c, Seq& s) {
  // optional header of uniform power-of-two symbols, with patches possibly inside
  int hb = c.byte();
  int nh = hb < 150 ? 0 : 1 + hb % 8;
  int hsofar = 0;
  for (int i = 0; i < nh; i++) {
    Op op; op.kind = K_HDR;
    int m = c.byte();
    op.style = (uint8_t)(m % NHSTYLES);
    op.bits = (uint8_t)(op.style == H_LOGP1 ? 1 : 1 + (m / NHSTYLES) % 8);
    op.a = op.style == H_SILK ? 0 : (uint32_t)c.byte() & ((1u << op.bits) - 1u);
    if (op.style == H_ICDF) {
      int n = 1 << op.bits;
      auto tb = std::make_unique<HeapBuf<uint8_t>>(n);
      for (int k = 0; k < n; k++) (*tb)[k] = (uint8_t)(n - 1 - k);
      op.tab = (int)s.T.t8.size(); s.T.t8.push_back(std::move(tb)); s.T.n8.push_back(n);
    } else if (op.style == H_SILK) {
      auto tb = std::make_unique<HeapBuf<uint8_t>>(2);
      (*tb)[0] = (uint8_t)(256 - (256 >> op.bits)); (*tb)[1] = 0;
      op.tab = (int)s.T.t8.size(); s.T.t8.push_back(std::move(tb)); s.T.n8.push_back(2);
    }
    // a patch before this header symbol (misuse when fewer than nbits bits exist)
    if (c.chance(20)) {
      Op p; p.kind = K_PATCH;
      p.bits = (uint8_t)(1 + c.byte() % 8);
      if (p.bits > hsofar && hsofar > 0 && !c.chance(64)) p.bits = (uint8_t)hsofar;   // misuse (too few bits so far) only now and then
      p.a = (uint32_t)c.byte() & ((1u << p.bits) - 1u);
      p.misuse = p.bits > hsofar;
      push(s, p);
    }
    if (c.chance(24)) { Op r; make_symbol_op(c, K_BITS, r, s.T); push(s, r); }   // raw bits do not count as range-coded bits
    push(s, op);
    hsofar += op.bits;
  }
  s.hdr_bits = hsofar;
  static const int W[NKINDS] = {5, 5, 4, 4, 4, 3, 2, 1, 1, 2, 2, 0};
  do {
    int kind = c.weighted(W, NKINDS);
    Op op;
    if (kind == K_SHRINK) { op.kind = K_SHRINK; op.a = c.byte(); push(s, op); }
    else if (kind == K_PATCH) {
      op.kind = K_PATCH;
      int nb = 1 + c.byte() % 8;
      int v = c.byte();
      bool only_hdr_so_far = true;
      for (auto& o : s.ops) if (o.kind != K_HDR && o.kind != K_PATCH && o.kind != K_BITS && o.kind != K_SHRINK) only_hdr_so_far = false;
      if (only_hdr_so_far && nb > s.hdr_bits && !(v & 0x80) && s.hdr_bits > 0) nb = s.hdr_bits;   // keep deliberate misuse rare
      if (only_hdr_so_far) op.misuse = nb > s.hdr_bits;          // the encoder can and must detect this
      else if (nb > s.hdr_bits) nb = s.hdr_bits;                 // precondition: bits coded with power-of-two probabilities
      if (nb >= 1) { op.bits = (uint8_t)nb; op.a = (uint32_t)v & ((1u << nb) - 1u); push(s, op); }
    }
    else if (kind == K_BULK) {
      int cnt = 1 + c.byte() % 96;
      int style = c.byte() % 4;
      Rng rng((uint64_t)c.irange(0, 65535) + 1);
      std::vector<uint8_t> tmp((size_t)cnt * 10);
      for (auto& b : tmp) b = (uint8_t)rng.u32();
      Choice c2(tmp.data(), tmp.size());
      for (int i = 0; i < cnt && (int)s.ops.size() < MAXOPS; i++) {
        Op b;
        int k;
        if (style == 0) { static const int W2[7] = {5, 4, 4, 4, 4, 3, 2}; k = c2.weighted(W2, 7); }
        else if (style == 1) k = K_LOGP;                                  // long runs of cheap symbols
        else if (style == 2) k = (i % 3 == 2) ? K_BITS : K_ENCODE;        // range symbols interleaved with raw bits
        else k = K_UINT;
        make_symbol_op(c2, k, b, s.T);
        if (style == 1) { b.a = (i % 29 == 28); }                         // mostly the likely value
        push(s, b);
      }
    }
    else if (kind == K_STEER) {
      int k = 1 + c.byte() % 24;
      int ftb = c.byte();
      int res = c.byte() % 3;
      for (int i = 0; i < k; i++) { op = Op(); op.kind = K_STEER; op.style = S_STRADDLE; op.ft = 3 + (uint32_t)((ftb + i * 5) % 62); push(s, op); }
      op = Op(); op.kind = K_STEER; op.style = (uint8_t)(res == 0 ? S_UP : res == 1 ? S_DOWN : S_STRADDLE); op.ft = 3 + (uint32_t)(ftb % 62); push(s, op);
    }
    else { make_symbol_op(c, kind, op, s.T); push(s, op); }
  } while (!c.exhausted() && (int)s.ops.size() < MAXOPS);
}

// turn a steer op into a concrete ec_encode() using the encoder state of pass 1:
// pick the symbol whose interval contains the next multiple of 2^23 above val
// (a carry stays pending as long as the interval straddles it)
static void concretise_steer(const ec_enc& e, Op& op) {
  uint32_t ft = op.ft, rng = e.rng;
  uint64_t B = (((uint64_t)e.val >> 23) + 1) << 23;
  uint64_t off = B - e.val;                 // 1 .. 2^23, always < rng
  uint32_t r = rng / ft;
  uint32_t s = 0;
  for (uint32_t k = ft - 1; k >= 1; k--) { if ((uint64_t)rng - (uint64_t)r * (ft - k) <= off) { s = k; break; } }
  if (op.style == S_UP && s + 1 < ft) s++;
  else if (op.style == S_DOWN && s > 0) s--;
  op.kind = K_ENCODE; op.a = s; op.b = s + 1;
}

static void apply_enc(ec_enc* e, const Op& op, const Tables& T) {
  switch (op.kind) {
    case K_ENCODE: ec_encode(e, op.a, op.b, op.ft); break;
    case K_BIN: ec_encode_bin(e, op.a, op.b, op.bits); break;
    case K_LOGP: ec_enc_bit_logp(e, (int)op.a, op.bits); break;
    case K_ICDF: ec_enc_icdf(e, (int)op.a, T.t8[op.tab]->p, op.bits); break;
    case K_ICDF16: ec_enc_icdf16(e, (int)op.a, T.t16[op.tab]->p, op.bits); break;
    case K_UINT: ec_enc_uint(e, op.a, op.ft); break;
    case K_BITS: ec_enc_bits(e, op.a, op.bits); break;
    case K_PATCH: ec_enc_patch_initial_bits(e, op.a, op.bits); break;
    case K_HDR:
      switch (op.style) {
        case H_LOGP1: ec_enc_bit_logp(e, (int)op.a, 1); break;
        case H_BIN: ec_encode_bin(e, op.a, op.a + 1, op.bits); break;
        case H_ENCODE: ec_encode(e, op.a, op.a + 1, 1u << op.bits); break;
        case H_UINT: ec_enc_uint(e, op.a, 1u << op.bits); break;
        case H_ICDF: ec_enc_icdf(e, (int)op.a, T.t8[op.tab]->p, op.bits); break;
        case H_SILK: ec_enc_icdf(e, 0, T.t8[op.tab]->p, 8); break;
      }
      break;
  }
}

static int choose_size(int anysize, int strat, int sparam, long T, long rawbits) {
  long need = (T + 7) / 8;
  long S;
  switch (strat) {
    case 0: S = need + 1 + sparam % 16; break;                                     // roomy
    case 1: { static const int D[8] = {0, 0, 0, 0, 1, 0, -1, 1}; S = need + D[sparam & 7]; break; }   // tell within a byte of the budget
    case 2: {                                                                      // splits between raw and range parts
      long rawbytes = (rawbits + 7) / 8, rngbytes = (T - rawbits + 7) / 8;
      switch (sparam % 5) { case 0: S = rawbytes; break; case 1: S = rawbytes + 1; break; case 2: S = rngbytes; break; case 3: S = rawbits / 8; break; default: S = rngbytes + rawbits / 8; }
      break;
    }
    default: {
      static const int B[] = {1, 2, 3, 4, 1274, 1275};
      S = sparam < 64 ? B[sparam % 6] : anysize;
    }
  }
  if (S < 1) S = 1;
  if (S > 1275) S = 1275;
  return (int)S;
}

static int run_sequence(Choice& c, Report& rep) {
  static const int SW[4] = {3, 9, 2, 2};
  int strat = c.weighted(SW, 4);
  int sparam = c.byte();
  int extra0 = c.irange(0, 1275);
  int cutparam = c.byte();
  int anysize = c.irange(1, 1275);      // all size choices are drawn before the op list, which consumes the rest of the case
  Seq s;
  gen_sequence(c, s);
  int n = (int)s.ops.size();
  static const bool trace = getenv("C08_TRACE") != nullptr;   // debugging aid: prints the decoded operations to stderr
  if (trace) for (int i = 0; i < n; i++) { const Op& o = s.ops[i]; fprintf(stderr, "op %d %s style=%d bits=%d a=%u b=%u ft=%u misuse=%d\n", i, KIND_NAME[o.kind], o.style, o.bits, o.a, o.b, o.ft, o.misuse); }

  // ---- pass 1: big buffer, learn the usage, concretise steering, classify carries
  std::vector<long> T1(n + 1);
  long rawbits = 0;
  std::vector<long> rawcum(n + 1, 0);
  int carries = 0, carries_ff = 0;
  {
    ec_enc e;
    ec_enc_init(&e, g_big, BIGBUF);
    T1[0] = ec_tell(&e);
    for (int i = 0; i < n; i++) {
      Op& op = s.ops[i];
      if (op.kind == K_STEER) concretise_steer(e, op);
      if (op.kind != K_SHRINK && op.kind != K_PATCH) {
        uint32_t ob = e.offs, eb = e.ext; int rb = e.rem;
        apply_enc(&e, op, s.T);
        if (e.offs > ob && rb >= 0 && g_big[ob] == (uint8_t)(rb + 1)) {
          carries++;
          if (eb > 0 && e.offs > ob + 1 && g_big[ob + 1] == 0x00) carries_ff++;
        }
      }
      if (op.kind == K_BITS) rawbits += op.bits;
      if (op.kind == K_UINT && my_ilog(op.ft - 1) > 8) rawbits += my_ilog(op.ft - 1) - 8;
      rawcum[i + 1] = rawbits;
      T1[i + 1] = ec_tell(&e);
    }
    rep.count(n);
  }
  // sequences that cannot fit any legal buffer are cut to a prefix near the 1275-byte limit
  // (except under the "anything" strategy, which keeps legal overruns of any length)
  if (strat != 3 && T1[n] > 8 * 1275 + 16) {
    long lim = 8 * 1275 - 12 + (cutparam % 32);
    int p = 1;
    while (p < n && T1[p + 1] <= lim) p++;
    n = p; s.ops.resize(n);
    rep.label("cut-to-budget");
  }
  long T = T1[n];
  rawbits = rawcum[n];
  int S = choose_size(anysize, strat, sparam, T, rawbits);
  int nshrink = 0, last_shrink = -1;
  for (int i = 0; i < n; i++) if (s.ops[i].kind == K_SHRINK) { nshrink++; last_shrink = i; }
  int S0 = nshrink ? std::min(1275, S + extra0 % (1276 - S)) : S;

  // ---- pass 2: the real buffer
  HeapBuf<uint8_t> buf(S0);
  memset(buf.p, 0xA5, S0);
  std::vector<int> tell(n + 1); std::vector<uint32_t> frac(n + 1), rngv(n + 1);
  std::vector<uint8_t> tail_snapshot;   // bytes cut off by the first shrink, must stay as they were
  int tail_from = -1;
  bool misuse_done = false, shrank_with_raw = false, patched = false;
  std::vector<char> skipped(n, 0);
  ec_enc e;
  ec_enc_init(&e, buf.p, (opus_uint32)S0);
  tell[0] = ec_tell(&e); frac[0] = ec_tell_frac(&e); rngv[0] = e.rng;
  for (int i = 0; i < n; i++) {
    const Op& op = s.ops[i];
    if (op.kind == K_SHRINK) {
      uint32_t lo = e.offs + e.end_offs, cur = e.storage;
      long want = (i == last_shrink) ? S : S + ((long)cur - S) * (long)op.a / 256;
      if (want < (long)lo) want = lo;
      if (want > (long)cur) want = cur;
      if (want < 1) want = 1;              // a zero-size buffer is outside the property's domain (sizes 1..1275)
      if ((uint32_t)want >= lo) {
        if (e.end_offs > 0 && (uint32_t)want < cur) shrank_with_raw = true;
        // remember what the raw-bit bytes were: they must arrive unchanged at the new end
        std::vector<uint8_t> rawbytes(buf.p + cur - e.end_offs, buf.p + cur);
        ec_enc_shrink(&e, (opus_uint32)want);
        rep.count();
        VP_REQUIRE(e.storage == (uint32_t)want, "c08:shrink-size", "storage %u after shrink to %ld", e.storage, want);
        for (size_t k = 0; k < rawbytes.size(); k++)
          VP_REQUIRE(buf.p[want - (long)rawbytes.size() + (long)k] == rawbytes[k], "c08:shrink-moved-raw-bytes", "raw byte %zu of %zu differs after shrink %u->%ld", k, rawbytes.size(), cur, want);
        if ((uint32_t)want < cur) {
          if (tail_from >= 0) {
            // bytes beyond an earlier cut: still untouched
            for (int k = tail_from; k < S0; k++) VP_REQUIRE(buf.p[k] == tail_snapshot[k - tail_from], "c08:write-outside-shrunk-buffer", "byte %d (outside the buffer since a shrink) changed", k);
          }
          // the new tail [want, S0) is outside from now on; raw bytes the shrink left behind there are stale but fixed
          tail_from = (int)want;
          tail_snapshot.assign(buf.p + want, buf.p + S0);
        }
      }
    } else {
      apply_enc(&e, op, s.T);
      rep.count();
      if (op.kind == K_PATCH && !op.misuse) patched = true;
      if (op.kind == K_PATCH && !op.misuse && e.offs == 0 && e.ext > 0) rep.label("patch-while-first-byte-0xff-pending");   // fixed finding F08 class
      if (op.kind == K_PATCH && op.misuse) {
        misuse_done = true;
        VP_REQUIRE(e.error != 0, "c08:patch-misuse-not-flagged", "patch_initial_bits(%u,%u) with fewer than %u range-coded bits did not set the error flag", op.a, op.bits, op.bits);
      }
    }
    tell[i + 1] = ec_tell(&e); frac[i + 1] = ec_tell_frac(&e); rngv[i + 1] = e.rng;
    if (trace) fprintf(stderr, "  after op %d: err=%d offs=%u end_offs=%u rem=%d ext=%u rng=%08x val=%08x nend=%d storage=%u\n", i, e.error, e.offs, e.end_offs, e.rem, e.ext, e.rng, e.val, e.nend_bits, e.storage);
    VP_REQUIRE(frac[i + 1] >= frac[i], "c08:tell-frac-decreased", "op %d (%s): tell_frac %u -> %u", i, KIND_NAME[op.kind], frac[i], frac[i + 1]);
    long d = 8L * tell[i + 1] - (long)frac[i + 1];
    VP_REQUIRE(d >= 0 && d <= 8, "c08:tell-vs-frac", "op %d (%s): tell=%d tell_frac=%u", i, KIND_NAME[op.kind], tell[i + 1], frac[i + 1]);
    VP_REQUIRE(e.rng > (1u << 23) && e.rng <= (1u << 31), "c08:rng-out-of-range", "op %d (%s): rng=0x%08x", i, KIND_NAME[op.kind], e.rng);
  }
  int tell_end = ec_tell(&e);
  uint32_t Sf = e.storage;
  ec_enc_done(&e);
  rep.count();
  bool err = ec_get_error(&e) != 0;
  if (tail_from >= 0)
    for (int k = tail_from; k < S0; k++) VP_REQUIRE(buf.p[k] == tail_snapshot[k - tail_from], "c08:write-outside-shrunk-buffer", "byte %d (outside the buffer since a shrink to %d) changed", k, tail_from);
  if (tell_end <= 8L * (long)Sf && !misuse_done)
    VP_REQUIRE(!err, "c08:error-within-budget", "tell=%d <= 8*%u but ec_enc_done left the error flag set (ops=%d rawbits=%ld)", tell_end, Sf, n, rawbits);
  if (!err) VP_REQUIRE(e.offs + e.end_offs <= Sf, "c08:cursors-cross", "offs %u + end_offs %u > storage %u without error", e.offs, e.end_offs, Sf);

  // ---- labels
  { unsigned seen = 0; for (int i = 0; i < n; i++) seen |= 1u << s.ops[i].kind; for (int k = 0; k < NKINDS; k++) if (seen & (1u << k)) rep.label(KIND_NAME[k]); }
  bool shared = !err && (rawbits % 8) != 0 && e.offs + e.end_offs >= Sf && e.offs > 0;
  bool near = std::labs(8L * (long)Sf - (long)tell_end) <= 8;
  rep.label(err ? "overrun-or-error" : "no-error");
  if (tell_end == 8L * (long)Sf) rep.label(err ? "tell==budget:error" : "tell==budget");
  if (tell_end > 8L * (long)Sf && !err) rep.label("tell>budget-but-fits");
  if (near) rep.label("near-budget");
  if (shared) rep.label("shared-last-byte");
  if (carries) rep.label("carry");
  if (carries_ff) rep.label("carry-through-ff");
  if (nshrink) rep.label(shrank_with_raw ? "shrink-moves-raw" : "shrink-called");
  if (misuse_done) rep.label("patch-misuse");
  if (patched) rep.label(err ? "patch-legal:error-stream" : "patch-legal");
  if (n >= 1000) rep.label("ops>=1000");
  if (Sf == 1) rep.label("size-1");
  if (Sf == 1275) rep.label("size-1275");
  if (rawbits > 0 && T - rawbits <= 1) rep.label("raw-only");
  static const char* const STRAT[] = {"size:roomy", "size:tight", "size:split", "size:any"};
  rep.label(STRAT[strat]);
  rep.nontrivial(shared || carries_ff > 0 || near);
  {
    uint64_t h = 1469598103934665603ull;
    for (int i = 0; i < n; i++) { const Op& o = s.ops[i]; uint32_t v[5] = {o.kind, o.bits, o.a, o.b, o.ft}; h = fnv1a(v, sizeof v, h); }
    rep.fingerprint(h); rep.fingerprint(S0); rep.fingerprint(Sf);
  }
  if (rep.describing) {
    int kc[NKINDS] = {0};
    for (int i = 0; i < n; i++) kc[s.ops[i].kind]++;
    rep.note("%d ops (encode %d, bits %d, bit_logp %d, icdf %d, uint %d, encode_bin %d, icdf16 %d, shrink %d, patch %d, header %d)", n, kc[K_ENCODE], kc[K_BITS], kc[K_LOGP], kc[K_ICDF], kc[K_UINT], kc[K_BIN], kc[K_ICDF16], kc[K_SHRINK], kc[K_PATCH], kc[K_HDR]);
    rep.note("buffer %d bytes -> %u after shrinks; tell at end %d bits (%ld raw), budget %u bits; error=%d; carries %d (%d through 0xFF); shared last byte=%d", S0, Sf, tell_end, rawbits, 8 * Sf, (int)err, carries, carries_ff, (int)shared);
  }
  if (err) return 0;   // the property promises nothing about the content of an overrun stream

  // ---- decode with the mirror calls from an exact-size copy
  HeapBuf<uint8_t> dbuf(Sf);
  memcpy(dbuf.p, buf.p, Sf);
  // expected header values after the patches
  std::vector<uint32_t> expect(n, 0);
  {
    std::vector<int> hb;                 // header bit string, MSB first
    for (int i = 0; i < n; i++) {
      const Op& o = s.ops[i];
      if (o.kind == K_HDR) for (int k = o.bits - 1; k >= 0; k--) hb.push_back((o.a >> k) & 1);
      if (o.kind == K_PATCH && !o.misuse && !skipped[i]) for (int k = 0; k < o.bits && k < (int)hb.size(); k++) hb[k] = (o.a >> (o.bits - 1 - k)) & 1;
    }
    size_t pos = 0;
    for (int i = 0; i < n; i++) if (s.ops[i].kind == K_HDR) { uint32_t v = 0; for (int k = 0; k < s.ops[i].bits; k++) v = (v << 1) | (uint32_t)hb[pos++]; expect[i] = v; }
  }
  ec_dec d;
  ec_dec_init(&d, dbuf.p, Sf);
  for (int i = 0; i < n; i++) {
    const Op& op = s.ops[i];
    uint32_t got = 0, want = 0;
    bool ok = true;
    switch (op.kind) {
      case K_ENCODE: got = ec_decode(&d, op.ft); ok = got >= op.a && got < op.b; want = op.a; ec_dec_update(&d, op.a, op.b, op.ft); break;
      case K_BIN: got = ec_decode_bin(&d, op.bits); ok = got >= op.a && got < op.b; want = op.a; ec_dec_update(&d, op.a, op.b, 1u << op.bits); break;
      case K_LOGP: got = (uint32_t)ec_dec_bit_logp(&d, op.bits); want = op.a; ok = got == want; break;
      case K_ICDF: got = (uint32_t)ec_dec_icdf(&d, s.T.t8[op.tab]->p, op.bits); want = op.a; ok = got == want; break;
      case K_ICDF16: got = (uint32_t)ec_dec_icdf16(&d, s.T.t16[op.tab]->p, op.bits); want = op.a; ok = got == want; break;
      case K_UINT: got = ec_dec_uint(&d, op.ft); want = op.a; ok = got == want; break;
      case K_BITS: got = ec_dec_bits(&d, op.bits); want = op.a; ok = got == want; break;
      case K_HDR: {
        want = expect[i];
        switch (op.style) {
          case H_LOGP1: got = (uint32_t)ec_dec_bit_logp(&d, 1); break;
          case H_BIN: got = ec_decode_bin(&d, op.bits); ec_dec_update(&d, got, got + 1, 1u << op.bits); break;
          case H_ENCODE: got = ec_decode(&d, 1u << op.bits); ec_dec_update(&d, got, got + 1, 1u << op.bits); break;
          case H_UINT: got = ec_dec_uint(&d, 1u << op.bits); break;
          case H_ICDF: got = (uint32_t)ec_dec_icdf(&d, s.T.t8[op.tab]->p, op.bits); break;
          case H_SILK: got = 0; for (int k = 0; k < op.bits; k++) got = (got << 1) | (uint32_t)ec_dec_bit_logp(&d, 1); break;   // the way SILK reads its patched flags
        }
        ok = got == want;
        break;
      }
      default: break;   // patch / shrink have no decoder counterpart
    }
    rep.count();
    VP_REQUIRE(ok, "c08:decoded-value-differs", "op %d of %d (%s%s): encoded %u (fh %u ft %u bits %u), decoded %u; buffer %u bytes, tell_end %d", i, n, KIND_NAME[op.kind],
               op.kind == K_HDR ? "/patched-header" : "", want, op.b, op.ft, op.bits, got, Sf, tell_end);
    VP_REQUIRE(ec_tell(&d) == tell[i + 1], "c08:tell-differs", "after op %d (%s): encoder tell %d, decoder %d", i, KIND_NAME[op.kind], tell[i + 1], ec_tell(&d));
    VP_REQUIRE(ec_tell_frac(&d) == frac[i + 1], "c08:tell-frac-differs", "after op %d (%s): encoder tell_frac %u, decoder %u", i, KIND_NAME[op.kind], frac[i + 1], ec_tell_frac(&d));
    VP_REQUIRE(d.rng == rngv[i + 1], "c08:rng-differs", "after op %d (%s): encoder rng 0x%08x, decoder 0x%08x", i, KIND_NAME[op.kind], rngv[i + 1], d.rng);
  }
  VP_REQUIRE(ec_get_error(&d) == 0, "c08:decoder-error-flag", "decoder error flag set on a stream the encoder reported good");
  return 0;
}

int vp_case(Choice& c, Report& rep) {
  int family = c.byte();
  if (family >= 0xF0) {
    // (E) one block of 256 classes: ilog l, top-16 bits r = 32768 + 256*hi + k
    int l = 24 + c.byte() % ENUM_L;
    int hi = c.byte() % ENUM_HI;
    rep.label("tellfrac-class-block");
    rep.note("ec_tell_frac vs RFC definition for ilog(rng)=%d, top16=%d..%d", l, 32768 + 256 * hi, 32768 + 256 * hi + 255);
    for (int k = 0; k < 256; k++) {
      uint32_t r = 32768u + 256u * hi + k;
      if (l == 32 && r != 32768u) break;                 // rng <= 2^31: the only legal value with ilog 32 is 2^31
      uint32_t rng = r << (l - 16);
      if (rng <= (1u << 23)) rng |= 1;                   // legal ranges are > 2^23 (same class: top 16 bits unchanged)
      uint32_t nb = 33 + 8 * ((hi + k) & 7);
      if (check_tellfrac(nb, rng, rep)) return 1;
      if (l < 32 && check_tellfrac(nb, rng | ((1u << (l - 16)) - 1u), rep)) return 1;   // low bits must not matter
    }
    return 0;
  }
  if (family >= 0xE0) {
    Rng rng(c.u32());
    rep.label("tellfrac-random");
    uint32_t first = 0;
    for (int k = 0; k < 64; k++) {
      uint32_t v = rng.u32() & 0x7FFFFFFFu;
      int sh = rng.range(0, 7);
      v = (v >> sh);
      if (v <= (1u << 23)) v = (1u << 23) + 1 + (v & 0x7FFFFF);
      if (k == 63) v = 1u << 31;
      if (!k) first = v;
      if (check_tellfrac(33 + 8 * (uint32_t)rng.range(0, 1300), v, rep)) return 1;
    }
    rep.note("ec_tell_frac vs RFC definition on 64 random legal range values, first 0x%08x", first);
    return 0;
  }
  return run_sequence(c, rep);
}
