// Out-of-line, optimised, uninstrumented build of the RFC metric (harness code only).
#include "opus_compare_fn.hpp"
extern "C" double oc_quality(const float* x, unsigned long xlength, int xdown, const float* y, unsigned long ylength, int nchannels, int rate, double* err_out) {
  return oc::quality(x, xlength, xdown, y, ylength, nchannels, rate, err_out);
}
