/* Declarations of the frozen reference codec (pinned commit b5b845fb, built by
 * vlib/build.py as variants ref-flt (float) and ref-fix (fixed point) with
 * every global symbol prefixed ref_ / rfx_).  Opaque state types are shared
 * with the tree's headers; OPUS_SET_x()/OPUS_GET_x() request macros from
 * opus_defines.h work with the prefixed ctl functions. */
#pragma once
#include "opus.h"
#include "opus_multistream.h"
#include "opus_projection.h"
#ifdef __cplusplus
extern "C" {
#endif
#define VP_REF_DECL(P) \
  OpusEncoder* P##opus_encoder_create(opus_int32 Fs, int channels, int application, int* error); \
  int P##opus_encoder_get_size(int channels); \
  int P##opus_encoder_init(OpusEncoder* st, opus_int32 Fs, int channels, int application); \
  opus_int32 P##opus_encode(OpusEncoder* st, const opus_int16* pcm, int frame_size, unsigned char* data, opus_int32 max_data_bytes); \
  opus_int32 P##opus_encode24(OpusEncoder* st, const opus_int32* pcm, int frame_size, unsigned char* data, opus_int32 max_data_bytes); \
  opus_int32 P##opus_encode_float(OpusEncoder* st, const float* pcm, int frame_size, unsigned char* data, opus_int32 max_data_bytes); \
  int P##opus_encoder_ctl(OpusEncoder* st, int request, ...); \
  void P##opus_encoder_destroy(OpusEncoder* st); \
  OpusDecoder* P##opus_decoder_create(opus_int32 Fs, int channels, int* error); \
  int P##opus_decoder_get_size(int channels); \
  int P##opus_decoder_init(OpusDecoder* st, opus_int32 Fs, int channels); \
  int P##opus_decode(OpusDecoder* st, const unsigned char* data, opus_int32 len, opus_int16* pcm, int frame_size, int decode_fec); \
  int P##opus_decode24(OpusDecoder* st, const unsigned char* data, opus_int32 len, opus_int32* pcm, int frame_size, int decode_fec); \
  int P##opus_decode_float(OpusDecoder* st, const unsigned char* data, opus_int32 len, float* pcm, int frame_size, int decode_fec); \
  int P##opus_decoder_ctl(OpusDecoder* st, int request, ...); \
  void P##opus_decoder_destroy(OpusDecoder* st); \
  int P##opus_packet_parse(const unsigned char* data, opus_int32 len, unsigned char* out_toc, const unsigned char* frames[48], opus_int16 size[48], int* payload_offset); \
  int P##opus_packet_get_nb_samples(const unsigned char packet[], opus_int32 len, opus_int32 Fs); \
  int P##opus_packet_has_lbrr(const unsigned char packet[], opus_int32 len); \
  OpusRepacketizer* P##opus_repacketizer_create(void); \
  OpusRepacketizer* P##opus_repacketizer_init(OpusRepacketizer* rp); \
  void P##opus_repacketizer_destroy(OpusRepacketizer* rp); \
  int P##opus_repacketizer_cat(OpusRepacketizer* rp, const unsigned char* data, opus_int32 len); \
  opus_int32 P##opus_repacketizer_out_range(OpusRepacketizer* rp, int begin, int end, unsigned char* data, opus_int32 maxlen); \
  opus_int32 P##opus_repacketizer_out(OpusRepacketizer* rp, unsigned char* data, opus_int32 maxlen); \
  int P##opus_repacketizer_get_nb_frames(OpusRepacketizer* rp); \
  int P##opus_packet_pad(unsigned char* data, opus_int32 len, opus_int32 new_len); \
  opus_int32 P##opus_packet_unpad(unsigned char* data, opus_int32 len); \
  OpusMSEncoder* P##opus_multistream_encoder_create(opus_int32 Fs, int channels, int streams, int coupled_streams, const unsigned char* mapping, int application, int* error); \
  OpusMSEncoder* P##opus_multistream_surround_encoder_create(opus_int32 Fs, int channels, int mapping_family, int* streams, int* coupled_streams, unsigned char* mapping, int application, int* error); \
  int P##opus_multistream_encode(OpusMSEncoder* st, const opus_int16* pcm, int frame_size, unsigned char* data, opus_int32 max_data_bytes); \
  int P##opus_multistream_encode_float(OpusMSEncoder* st, const float* pcm, int frame_size, unsigned char* data, opus_int32 max_data_bytes); \
  int P##opus_multistream_encoder_ctl(OpusMSEncoder* st, int request, ...); \
  void P##opus_multistream_encoder_destroy(OpusMSEncoder* st); \
  OpusMSDecoder* P##opus_multistream_decoder_create(opus_int32 Fs, int channels, int streams, int coupled_streams, const unsigned char* mapping, int* error); \
  int P##opus_multistream_decode(OpusMSDecoder* st, const unsigned char* data, opus_int32 len, opus_int16* pcm, int frame_size, int decode_fec); \
  int P##opus_multistream_decode_float(OpusMSDecoder* st, const unsigned char* data, opus_int32 len, float* pcm, int frame_size, int decode_fec); \
  int P##opus_multistream_decoder_ctl(OpusMSDecoder* st, int request, ...); \
  void P##opus_multistream_decoder_destroy(OpusMSDecoder* st); \
  void P##opus_pcm_soft_clip(float* pcm, int frame_size, int channels, float* softclip_mem);
VP_REF_DECL(ref_)
VP_REF_DECL(rfx_)
#ifdef __cplusplus
}
#endif

/* VP_REF_SAME_ARITH: in a fixed-point build of the tree, ref_x names the frozen *fixed-point* codec (rfx_x), so that a target written
 * against ref_x compares like with like in both arithmetic variants (link with refs=("ref-fix",) there). */
#if defined(FIXED_POINT) && defined(VP_REF_SAME_ARITH)
#define ref_opus_encoder_create rfx_opus_encoder_create
#define ref_opus_encoder_get_size rfx_opus_encoder_get_size
#define ref_opus_encoder_init rfx_opus_encoder_init
#define ref_opus_encode rfx_opus_encode
#define ref_opus_encode24 rfx_opus_encode24
#define ref_opus_encode_float rfx_opus_encode_float
#define ref_opus_encoder_ctl rfx_opus_encoder_ctl
#define ref_opus_encoder_destroy rfx_opus_encoder_destroy
#define ref_opus_decoder_create rfx_opus_decoder_create
#define ref_opus_decoder_get_size rfx_opus_decoder_get_size
#define ref_opus_decoder_init rfx_opus_decoder_init
#define ref_opus_decode rfx_opus_decode
#define ref_opus_decode24 rfx_opus_decode24
#define ref_opus_decode_float rfx_opus_decode_float
#define ref_opus_decoder_ctl rfx_opus_decoder_ctl
#define ref_opus_decoder_destroy rfx_opus_decoder_destroy
#define ref_opus_packet_parse rfx_opus_packet_parse
#define ref_opus_packet_get_nb_samples rfx_opus_packet_get_nb_samples
#define ref_opus_packet_has_lbrr rfx_opus_packet_has_lbrr
#define ref_opus_repacketizer_create rfx_opus_repacketizer_create
#define ref_opus_repacketizer_init rfx_opus_repacketizer_init
#define ref_opus_repacketizer_destroy rfx_opus_repacketizer_destroy
#define ref_opus_repacketizer_cat rfx_opus_repacketizer_cat
#define ref_opus_repacketizer_out_range rfx_opus_repacketizer_out_range
#define ref_opus_repacketizer_out rfx_opus_repacketizer_out
#define ref_opus_repacketizer_get_nb_frames rfx_opus_repacketizer_get_nb_frames
#define ref_opus_packet_pad rfx_opus_packet_pad
#define ref_opus_packet_unpad rfx_opus_packet_unpad
#define ref_opus_multistream_encoder_create rfx_opus_multistream_encoder_create
#define ref_opus_multistream_surround_encoder_create rfx_opus_multistream_surround_encoder_create
#define ref_opus_multistream_encode rfx_opus_multistream_encode
#define ref_opus_multistream_encode_float rfx_opus_multistream_encode_float
#define ref_opus_multistream_encoder_ctl rfx_opus_multistream_encoder_ctl
#define ref_opus_multistream_encoder_destroy rfx_opus_multistream_encoder_destroy
#define ref_opus_multistream_decoder_create rfx_opus_multistream_decoder_create
#define ref_opus_multistream_decode rfx_opus_multistream_decode
#define ref_opus_multistream_decode_float rfx_opus_multistream_decode_float
#define ref_opus_multistream_decoder_ctl rfx_opus_multistream_decoder_ctl
#define ref_opus_multistream_decoder_destroy rfx_opus_multistream_decoder_destroy
#define ref_opus_pcm_soft_clip rfx_opus_pcm_soft_clip
#endif
