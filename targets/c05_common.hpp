// C05 shared pieces: output-buffer layouts (exact-size ASan block / block with
// software guard bytes), the exact rational CBR size, packet validity through
// the RFC framing model, a tiny reader for calib/C05.json.
#pragma once
#include <cstdio>
#include <cstdlib>
#include <cstring>
#include <string>
#include <vector>
#include "vp.hpp"
#include "rfc_framing.hpp"
#include "common.hpp"
#include "codec_util.hpp"

namespace c05 {

// ---- output buffer -------------------------------------------------------
// layout 0: exactly max_data_bytes bytes on the heap: the ASan red zone is the
//           "never writes past max_data_bytes" oracle (also for reads).
// layout 1: max_data_bytes + GUARD bytes; the GUARD bytes after
//           data[max_data_bytes] carry a pattern that must survive the call
//           (finds writes that a sanitizer-free production build would make).
static const int GUARD = 64;
struct OutBuf {
  HeapBuf<uint8_t> b;
  int maxb;
  int layout;
  OutBuf(int max_data_bytes, int layout_) : b((size_t)(max_data_bytes > 0 ? max_data_bytes : 0) + (layout_ ? GUARD : 0)), maxb(max_data_bytes > 0 ? max_data_bytes : 0), layout(layout_) {
    for (int i = 0; i < maxb; i++) b.p[i] = 0xCC;
    if (layout) for (int i = 0; i < GUARD; i++) b.p[maxb + i] = pat(i);
  }
  static uint8_t pat(int i) { return (uint8_t)(0xA5 ^ (i * 29)); }
  uint8_t* data() { return b.p; }
  // index of the first damaged guard byte, -1 when intact
  int guard_damage() const {
    if (!layout) return -1;
    for (int i = 0; i < GUARD; i++) if (b.p[maxb + i] != pat(i)) return i;
    return -1;
  }
};

// ---- exact CBR size ------------------------------------------------------
// round(bitrate * duration / 8) with duration = fs/Fs seconds, computed as an
// exact rational (ties round up), independent of the library's 12*b/8 trick.
inline int64_t cbr_round_bytes(int64_t bitrate, int fs, int Fs) {
  return (2 * bitrate * fs + 8 * (int64_t)Fs) / (16 * (int64_t)Fs);
}
inline int cbr_expected(int64_t bitrate, int fs, int Fs, int max_data_bytes) {
  int64_t e = cbr_round_bytes(bitrate, fs, Fs);
  int64_t lim = max_data_bytes < 1276 ? max_data_bytes : 1276;
  if (e > lim) e = lim;
  if (e < 1) e = 1;
  return (int)e;
}
// OPUS_SET_BITRATE as documented in opus_defines.h / checked in the ctl: AUTO
// and MAX are accepted, other values <= 0 are rejected, the rest is clamped to
// [500, 300000*channels].  Returns false when the request must be rejected.
inline bool model_set_bitrate(opus_int32 req, int channels, opus_int32& state) {
  if (req == OPUS_AUTO || req == OPUS_BITRATE_MAX) { state = req; return true; }
  if (req <= 0) return false;
  int64_t v = req;
  if (v < 500) v = 500;
  if (v > 300000ll * channels) v = 300000ll * channels;
  state = (opus_int32)v;
  return true;
}

// ---- packet validity -----------------------------------------------------
struct PktInfo { rfc::Parsed p; rfc::TocInfo t; int samples; };
// standard framing; returns false when the model rejects the packet
inline bool inspect(const uint8_t* d, int len, int Fs, PktInfo& o) {
  o.p = rfc::parse(d, len, false);
  if (!o.p.ok) return false;
  o.t = rfc::toc_info(d[0]);
  o.samples = o.p.count * o.t.dur_400 * (Fs / 400);
  return true;
}

// ---- calibration file ----------------------------------------------------
// calib/C05.json is flat enough for a key lookup: "key": number
struct Calib {
  std::string text;
  bool loaded = false;
  bool load(const char* this_file, const char* name) {
    std::string p(this_file);
    size_t s = p.rfind('/');
    if (s == std::string::npos) return false;
    p.resize(s);                       // .../targets
    s = p.rfind('/');
    if (s == std::string::npos) return false;
    p.resize(s);                       // .../verif
    p += "/calib/"; p += name;
    FILE* f = fopen(p.c_str(), "rb");
    if (!f) return false;
    char buf[4096]; size_t n;
    while ((n = fread(buf, 1, sizeof buf, f)) > 0) text.append(buf, n);
    fclose(f);
    loaded = true;
    return true;
  }
  bool get(const char* key, double& v) const {
    std::string k = std::string("\"") + key + "\"";
    size_t p = text.find(k);
    if (p == std::string::npos) return false;
    p = text.find(':', p + k.size());
    if (p == std::string::npos) return false;
    v = strtod(text.c_str() + p + 1, nullptr);
    return true;
  }
};

// ---- generators ----------------------------------------------------------
// duration index into cu::DUR400 (0 -> 20 ms, the plainest)
inline int gen_dur(vp::Choice& c) {
  static const int ORDER[9] = {3, 2, 4, 1, 5, 0, 6, 7, 8};   // 20,10,40,5,60,2.5,80,100,120 ms
  static const int W[9] = {6, 4, 3, 3, 3, 3, 2, 2, 2};
  return ORDER[c.weighted(W, 9)];
}

// max_data_bytes dense near the interesting places; `cbr` is the predicted
// CBR size for the current settings (or <= 0 when unknown)
inline int gen_maxbytes(vp::Choice& c, int cbr) {
  int k = c.irange(0, 7);
  switch (k) {
    case 0: return 1500;
    case 1: return 4000;
    case 2: return c.irange(1, 8);
    case 3: if (cbr > 0) { int v = cbr + c.irange(0, 4) - 2; return v < 1 ? 1 : (v > 4000 ? 4000 : v); } return c.irange(1, 40);
    case 4: return c.irange(1274, 1279);
    case 5: return c.irange(1, 4000);
    case 6: return c.irange(9, 120);
    default: return c.irange(100, 1500);
  }
}

}  // namespace c05
