// C06: the packet parser accepts exactly RFC 6716 framing (standard and
// self-delimited) and reports the true frames; header helpers agree.
// Oracle: the independent executable model in engine/rfc_framing.hpp.
#include "vp.hpp"
#include "rfc_framing.hpp"
extern "C" {
#include "opus.h"
#include "opus_private.h"
#include "entdec.h"
}
#include "common.hpp"

using namespace vp;

const TargetInfo vp_info = {"c06_parse", 4, 600};

static const int RATES[5] = {8000, 12000, 16000, 24000, 48000};

// ---- enumeration layout (see DESIGN.md C06) --------------------------------
// Case byte layout shared by the enumerated families and the "header" random
// family:  [family][framing][len_hi][len_lo][fill][nhdr][hdr bytes...]
static const uint8_t FILLS[4] = {0x00, 0x01, 0xFF, 0x7F};
static const uint8_t B1SET[12] = {0, 1, 2, 3, 62, 63, 64, 127, 128, 254, 255, 200};
static const int NLEN_B = 42;
static const uint8_t LENENC[5][2] = {{0, 0}, {1, 0}, {251, 0}, {252, 1}, {255, 255}};  // second byte used only if first>=252
static const uint8_t CHAIN_LAST[4] = {0, 1, 2, 254};
static const int NLEN_C = 16;

static const uint64_t FAM_A = 256ull * 4 * 1601 * 2;
static const uint64_t FAM_B = 256ull * 256 * 12 * NLEN_B * 2;
static const uint64_t FAM_C = 64ull * 256 * 12 * 25 * NLEN_C * 2;

// family D: very long packets (the frame-size fields are 16 bits wide): TOC x second byte x total length around 64 Ki / 128 Ki multiples x framing
static const int HUGE_BASE[10] = {2551, 2552, 65535, 65536, 65537, 66811, 131071, 131072, 133623, 61299};
static const uint8_t HUGE_B1[4] = {0x01, 0x02, 0x30, 0x82};
static const uint64_t FAM_D = 256ull * 4 * 10 * 7 * 2;
extern "C" uint64_t vp_enum_count() { return FAM_A + FAM_B + FAM_C + FAM_D; }

static void emit_huge(std::vector<uint8_t>& out, int framing, int len, uint8_t fill, const std::vector<uint8_t>& hdr) {
  out.clear();
  out.push_back(3); out.push_back((uint8_t)framing);
  out.push_back((uint8_t)(len >> 16)); out.push_back((uint8_t)(len >> 8)); out.push_back((uint8_t)len);
  out.push_back(fill); out.push_back((uint8_t)hdr.size());
  out.insert(out.end(), hdr.begin(), hdr.end());
}

static void emit(std::vector<uint8_t>& out, int framing, int len, uint8_t fill, const std::vector<uint8_t>& hdr) {
  out.clear();
  out.push_back(2);  // family "header"
  out.push_back((uint8_t)framing);
  if (len < 0) len = 0;
  if (len > 4000) len = 4000;
  out.push_back((uint8_t)(len >> 8)); out.push_back((uint8_t)(len & 255));
  out.push_back(fill);
  out.push_back((uint8_t)hdr.size());
  out.insert(out.end(), hdr.begin(), hdr.end());
}

extern "C" void vp_enum_case(uint64_t idx, std::vector<uint8_t>& out) {
  std::vector<uint8_t> hdr;
  if (idx < FAM_A) {
    int framing = idx % 2; idx /= 2;
    int len = idx % 1601; idx /= 1601;
    int fill = idx % 4; idx /= 4;
    hdr.push_back((uint8_t)idx);
    emit(out, framing, len, FILLS[fill], hdr);
    return;
  }
  idx -= FAM_A;
  if (idx < FAM_B) {
    int framing = idx % 2; idx /= 2;
    int li = idx % NLEN_B; idx /= NLEN_B;
    int b1 = B1SET[idx % 12]; idx /= 12;
    int b0 = idx % 256; idx /= 256;
    int toc = (int)idx;
    int L = b0 < 252 ? b0 : 4 * b1 + b0;
    int lb = b0 < 252 ? 1 : 2;
    int len;
    if (li < 8) len = 1 + li;
    else if (li < 17) len = 1 + lb + L + (li - 8) - 3;             // one frame of L after the length
    else if (li < 26) len = 1 + lb + 2 * L + (li - 17) - 3;        // two frames of L
    else if (li < 35) len = 1 + lb + 1 + L + (li - 26) - 3;        // second 1-byte length
    else len = 1274 + (li - 35);
    hdr.push_back((uint8_t)toc); hdr.push_back((uint8_t)b0); hdr.push_back((uint8_t)b1);
    emit(out, framing, len, (li & 1) ? 0x00 : 0x03, hdr);
    return;
  }
  idx -= FAM_B;
  if (idx >= FAM_C) {
    idx -= FAM_C;
    int framing = idx % 2; idx /= 2;
    int jit = (int)(idx % 7) - 3; idx /= 7;
    int base = HUGE_BASE[idx % 10]; idx /= 10;
    int b1 = HUGE_B1[idx % 4]; idx /= 4;
    hdr.push_back((uint8_t)idx); hdr.push_back((uint8_t)b1);
    emit_huge(out, framing, base + jit, 0x00, hdr);
    return;
  }
  {
    int framing = idx % 2; idx /= 2;
    int li = idx % NLEN_C; idx /= NLEN_C;
    int l2 = idx % 5; idx /= 5;
    int l1 = idx % 5; idx /= 5;
    int chain = idx % 12; idx /= 12;
    int fc = idx % 256; idx /= 256;
    int toc = ((int)idx << 2) | 3;
    hdr.push_back((uint8_t)toc); hdr.push_back((uint8_t)fc);
    int n255 = chain / 4; int last = CHAIN_LAST[chain % 4];
    int pad = 0;
    if (fc & 0x40) { for (int i = 0; i < n255; i++) hdr.push_back(255); hdr.push_back((uint8_t)last); pad = 254 * n255 + last; }
    int M = fc & 63;
    int L1 = LENENC[l1][0] < 252 ? LENENC[l1][0] : 4 * LENENC[l1][1] + LENENC[l1][0];
    int L2 = LENENC[l2][0] < 252 ? LENENC[l2][0] : 4 * LENENC[l2][1] + LENENC[l2][0];
    hdr.push_back(LENENC[l1][0]); if (LENENC[l1][0] >= 252) hdr.push_back(LENENC[l1][1]);
    hdr.push_back(LENENC[l2][0]); if (LENENC[l2][0] >= 252) hdr.push_back(LENENC[l2][1]);
    int natural;
    if (fc & 0x80) natural = (int)hdr.size() + L1 + L2 + pad + (M > 2 ? M - 3 : 0);   // remaining lengths read as fill=0
    else natural = (int)hdr.size() - (framing ? 0 : (int)hdr.size() - 2 - ((fc & 0x40) ? n255 + 1 : 0)) + M * L1 + pad;
    int len;
    if (li < 4) len = 2 + li;
    else if (li < 13) len = natural + (li - 4) - 4;
    else len = natural + (li - 12) * M;   // CBR divisibility neighbours
    emit(out, framing, len, 0x00, hdr);
  }
}

// ---- independent reading of the SILK header bits (RFC 6716 4.2.3/4.2.4) ---
// through the real range decoder (checked by C08), not by bit shifts.
static int model_has_lbrr(const uint8_t* pkt, const rfc::Parsed& p) {
  rfc::TocInfo t = rfc::toc_info(pkt[0]);
  if (t.mode == rfc::CELT) return 0;
  if (p.size[0] == 0) return 0;
  int nsilk = t.dur_400 <= 8 ? 1 : t.dur_400 / 8;   // 20 ms SILK frames per Opus frame
  ec_dec dec;
  // ec_dec_init wants a non-const buffer; it never writes
  std::vector<uint8_t> copy(pkt + p.offset[0], pkt + p.offset[0] + p.size[0]);
  ec_dec_init(&dec, copy.data(), (opus_uint32)copy.size());
  int lbrr = 0;
  for (int ch = 0; ch <= t.stereo; ch++) {
    for (int i = 0; i < nsilk; i++) (void)ec_dec_bit_logp(&dec, 1);   // VAD flags
    lbrr |= ec_dec_bit_logp(&dec, 1);                                   // LBRR flag
  }
  return lbrr;
}

static OpusDecoder* g_dec = nullptr;

static int check_packet(const uint8_t* src, int len, int framing_sel, bool try_decode, Report& rep) {
  HeapBuf<uint8_t> pkt(len);
  if (len) memcpy(pkt.p, src, len);
  const uint8_t* d = pkt.p;
  rep.count();
  for (int sd = 0; sd <= 1; sd++) {
    if (framing_sel != 2 && framing_sel != sd) continue;
    rfc::Parsed m = rfc::parse(d, len, sd != 0);
    unsigned char toc = 0xAA;
    const unsigned char* frames[48];
    opus_int16 size[48];
    int payload_offset = -7; opus_int32 packet_offset = -7; const unsigned char* padding = nullptr; opus_int32 padding_len = -7;
    for (int i = 0; i < 48; i++) { frames[i] = nullptr; size[i] = -77; }
    int ret = opus_packet_parse_impl(d, len, sd, &toc, frames, size, &payload_offset, &packet_offset, &padding, &padding_len);
    if (!m.ok) {
      VP_REQUIRE(ret == OPUS_INVALID_PACKET, "c06:accepts-invalid", "sd=%d len=%d toc=0x%02x model rejects, parser returned %d", sd, len, len ? d[0] : 0, ret);
      rep.label(sd ? "sd-reject" : "std-reject");
    } else {
      VP_REQUIRE(ret == m.count, "c06:rejects-valid-or-count", "sd=%d len=%d toc=0x%02x model count %d, parser returned %d", sd, len, d[0], m.count, ret);
      VP_REQUIRE(toc == m.toc, "c06:toc", "toc %d vs %d", toc, m.toc);
      VP_REQUIRE(payload_offset == m.payload_offset, "c06:payload-offset", "sd=%d len=%d payload_offset %d model %d", sd, len, payload_offset, m.payload_offset);
      for (int i = 0; i < m.count; i++) {
        VP_REQUIRE(size[i] == m.size[i], "c06:frame-size", "sd=%d len=%d frame %d size %d model %d", sd, len, i, size[i], m.size[i]);
        VP_REQUIRE(frames[i] == d + m.offset[i], "c06:frame-offset", "sd=%d len=%d frame %d offset %ld model %d", sd, len, i, (long)(frames[i] - d), m.offset[i]);
        VP_REQUIRE(m.offset[i] + m.size[i] <= len, "c06:model-outside", "model frame outside input");
      }
      VP_REQUIRE(padding == d + m.padding_offset && padding_len == m.padding_len, "c06:padding", "sd=%d len=%d padding off %ld len %d model %d/%d", sd, len, (long)(padding - d), padding_len, m.padding_offset, m.padding_len);
      VP_REQUIRE(packet_offset == m.consumed && packet_offset <= len, "c06:consumed", "sd=%d len=%d consumed %d model %d", sd, len, packet_offset, m.consumed);
      rep.label(sd ? "sd-accept" : "std-accept");
      if (m.padding_len > 0) rep.label("padding");
      if (m.padding_len > 254) rep.label("padding-chain");
      if (m.count > 2) rep.label(m.vbr ? "code3-vbr" : "code3-cbr");
    }
    if (sd == 0) {
      // public parser, NULL out-parameters allowed
      unsigned char toc2; opus_int16 size2[48];
      int r2 = opus_packet_parse(d, len, &toc2, nullptr, size2, nullptr);
      VP_REQUIRE(r2 == ret, "c06:public-parse", "opus_packet_parse %d vs impl %d", r2, ret);
      if (len >= 1) {
        rfc::TocInfo t = rfc::toc_info(d[0]);
        // helpers that take no length: documented precondition len>=1
        static const int bwmap[5] = {OPUS_BANDWIDTH_NARROWBAND, OPUS_BANDWIDTH_MEDIUMBAND, OPUS_BANDWIDTH_WIDEBAND, OPUS_BANDWIDTH_SUPERWIDEBAND, OPUS_BANDWIDTH_FULLBAND};
        VP_REQUIRE(opus_packet_get_bandwidth(d) == bwmap[t.bw], "c06:bandwidth", "toc 0x%02x bandwidth %d", d[0], opus_packet_get_bandwidth(d));
        VP_REQUIRE(opus_packet_get_nb_channels(d) == t.stereo + 1, "c06:channels", "toc 0x%02x", d[0]);
        for (int r = 0; r < 5; r++) {
          int spf = opus_packet_get_samples_per_frame(d, RATES[r]);
          VP_REQUIRE(spf == t.dur_400 * RATES[r] / 400, "c06:samples-per-frame", "toc 0x%02x Fs %d spf %d", d[0], RATES[r], spf);
        }
        int nf = opus_packet_get_nb_frames(d, len);
        if (m.ok) {
          VP_REQUIRE(nf == m.count, "c06:nb-frames", "nb_frames %d model %d", nf, m.count);
          for (int r = 0; r < 5; r++) {
            int ns = opus_packet_get_nb_samples(d, len, RATES[r]);
            VP_REQUIRE(ns == m.count * t.dur_400 * RATES[r] / 400, "c06:nb-samples", "nb_samples %d Fs %d count %d", ns, RATES[r], m.count);
          }
          int hl = opus_packet_has_lbrr(d, len);
          int mh = model_has_lbrr(d, m);
          VP_REQUIRE(hl == mh, "c06:has-lbrr", "has_lbrr %d model %d toc 0x%02x first byte 0x%02x", hl, mh, d[0], m.size[0] ? d[m.offset[0]] : 0);
          if (mh) rep.label("lbrr-set");
        } else {
          VP_REQUIRE(nf < 0 || (nf >= 0 && nf <= 63), "c06:nb-frames-range", "nb_frames %d", nf);
          int ns = opus_packet_get_nb_samples(d, len, 48000);
          VP_REQUIRE(ns <= 5760, "c06:nb-samples-cap", "nb_samples %d > 120 ms", ns);
          int hl = opus_packet_has_lbrr(d, len);
          VP_REQUIRE(hl <= 1, "c06:has-lbrr-range", "has_lbrr %d", hl);
          if (rfc::toc_info(d[0]).mode != rfc::CELT) VP_REQUIRE(hl < 0, "c06:has-lbrr-invalid", "has_lbrr %d on invalid packet", hl);
        }
      } else {
        VP_REQUIRE(opus_packet_get_nb_frames(d, len) == OPUS_BAD_ARG, "c06:nb-frames-len0", "nb_frames on empty packet");
        VP_REQUIRE(opus_packet_get_nb_samples(d, len, 48000) == OPUS_BAD_ARG, "c06:nb-samples-len0", "nb_samples on empty packet");
        VP_REQUIRE(opus_packet_has_lbrr(d, len) < 0, "c06:has-lbrr-len0", "has_lbrr on empty packet");
      }
      if (try_decode) {
        if (!g_dec) { int err; g_dec = opus_decoder_create(48000, 2, &err); }
        opus_decoder_ctl(g_dec, OPUS_RESET_STATE);
        static float pcm[5760 * 2];
        int dr = opus_decode_float(g_dec, len ? d : nullptr, len, pcm, 5760, 0);
        if (len == 0) { /* loss concealment request */ }
        else if (m.ok) VP_REQUIRE(dr == m.count * rfc::samples_per_frame(d[0], 48000), "c06:decode-accept", "decode returned %d for a valid packet", dr);
        else VP_REQUIRE(dr == OPUS_INVALID_PACKET, "c06:decode-reject", "decode returned %d for an invalid packet", dr);
        rep.label("decoded");
      }
    }
  }
  return 0;
}

static int boundary_len(Choice& c) {
  static const int B[] = {0, 0, 1, 1, 2, 3, 10, 100, 250, 251, 252, 253, 254, 255, 256, 257, 508, 509, 637, 638, 1274, 1275, 1275, 1276, 1277};
  if (c.chance(96)) return c.irange(0, 1300);
  return c.pick(B);
}

int vp_case(Choice& c, Report& rep) {
  int family = c.irange(0, 3);
  if (family == 3) {
    // very long packets: header bytes + fill, total length up to 2^21 (same form as the enumerated family D)
    int framing_sel3 = c.irange(0, 1);
    int lenraw = c.irange(0, 0xFFFFFF);
    int len = (lenraw >> 16) < 16 ? lenraw : HUGE_BASE[lenraw % 10] + (lenraw >> 8) % 7 - 3;
    if (len > (1 << 21)) len = 1 << 21;
    uint8_t fill = c.byte();
    int nh = c.byte();
    std::vector<uint8_t> big((size_t)len, fill);
    for (int i = 0; i < nh; i++) { uint8_t b = c.byte(); if (i < len) big[(size_t)i] = b; }
    rep.label("family:huge");
    rep.note("very long packet: framing=%s total_len=%d fill=0x%02x header=%02x %02x", framing_sel3 ? "self-delimited" : "standard", len, fill, len > 0 ? big[0] : 0, len > 1 ? big[1] : 0);
    if (len > 65535) { rep.nontrivial(); rep.label("len>64Ki"); }
    rep.fingerprint(fnv1a(big.data(), std::min<size_t>(big.size(), 4))); rep.fingerprint(len); rep.fingerprint(framing_sel3);
    return check_packet(big.data(), len, framing_sel3, false, rep);
  }
  std::vector<uint8_t> pkt;
  int framing_sel = 2;
  if (family == 2) {
    // header + fill (also the form produced by the enumerators)
    framing_sel = c.irange(0, 1);
    int len = c.irange(0, 65535); if (len > 4000) len %= 4001;
    uint8_t fill = c.byte();
    int nh = c.byte();
    pkt.assign(len, fill);
    for (int i = 0; i < nh; i++) { uint8_t b = c.byte(); if (i < len) pkt[i] = b; }
    rep.label("family:header");
    rep.note("header-family packet: framing=%s total_len=%d fill=0x%02x header=%02x %02x %02x %02x", framing_sel ? "self-delimited" : "standard", len, fill, len > 0 ? pkt[0] : 0, len > 1 ? pkt[1] : 0, len > 2 ? pkt[2] : 0, len > 3 ? pkt[3] : 0);
    int r = check_packet(pkt.data(), len, framing_sel, false, rep);
    // non-trivial: within 3 bytes of an accept/reject boundary, or a two-byte length / padding chain
    bool nt = false;
    for (int sd = 0; sd <= 1 && !nt; sd++) {
      bool a0 = rfc::parse(pkt.data(), len, sd).ok;
      for (int dl = -3; dl <= 3 && !nt; dl++) {
        int l2 = len + dl; if (l2 < 0 || dl == 0) continue;
        std::vector<uint8_t> q(pkt); q.resize(l2, fill);
        if (rfc::parse(q.data(), l2, sd).ok != a0) nt = true;
      }
    }
    if (nt) { rep.nontrivial(); rep.label("near-boundary"); }
    rep.fingerprint(fnv1a(pkt.data(), std::min<size_t>(pkt.size(), 8))); rep.fingerprint(len); rep.fingerprint(framing_sel);
    return r;
  }
  if (family == 0) {
    int len = c.chance(200) ? c.irange(0, 40) : c.irange(0, 1500);
    pkt.resize(len);
    c.bytes(pkt.data(), len);
    rep.label("family:raw");
    rep.note("raw bytes len=%d first=%02x %02x %02x", len, len > 0 ? pkt[0] : 0, len > 1 ? pkt[1] : 0, len > 2 ? pkt[2] : 0);
    rep.fingerprint(fnv1a(pkt.data(), pkt.size()));
    int r = check_packet(pkt.data(), len, 2, c.chance(32), rep);
    return r;
  }
  // structured: serialise a spec, then maybe mutate
  rfc::Spec s;
  s.toc_hi = (uint8_t)(c.byte() & 0xFC);
  s.code = c.irange(0, 3);
  bool sd = c.boolean();
  int M = s.code == 0 ? 1 : s.code < 3 ? 2 : (c.chance(128) ? c.irange(1, 6) : c.irange(1, 50));
  s.vbr = c.boolean();
  int common = boundary_len(c);
  for (int i = 0; i < M; i++) {
    int L = (s.code == 1 || (s.code == 3 && !s.vbr)) ? common : (c.chance(160) ? c.irange(0, 20) : boundary_len(c));
    if (M > 8 && L > 300) L %= 300;
    s.frames.emplace_back((size_t)L, (uint8_t)(c.byte()));
  }
  if (s.code == 3 && c.boolean()) {
    static const int P[] = {1, 2, 3, 254, 255, 256, 257, 509, 510, 511, 765, 1000};
    s.pad_len_bytes = c.chance(128) ? c.pick(P) : c.irange(1, 1200);
  }
  rfc::serialize(s, sd, pkt);
  bool mutated = false;
  if (c.chance(120)) {
    int k = c.irange(1, 3);
    for (int i = 0; i < k && !pkt.empty(); i++) {
      int what = c.irange(0, 3);
      if (what == 0) { size_t p = c.irange(0, std::min<int>((int)pkt.size() - 1, 12)); pkt[p] = c.byte(); }
      else if (what == 1) { int cut = c.irange(1, 4); pkt.resize(pkt.size() > (size_t)cut ? pkt.size() - cut : 0); }
      else if (what == 2) { int add = c.irange(1, 4); pkt.insert(pkt.end(), add, c.byte()); }
      else { size_t p = c.irange(0, std::min<int>((int)pkt.size() - 1, 12)); pkt[p] ^= (uint8_t)(1 << c.irange(0, 7)); }
    }
    mutated = true;
  }
  rep.label("family:structured");
  if (mutated) rep.label("mutated");
  bool small = pkt.size() < 300;
  int r = check_packet(pkt.data(), (int)pkt.size(), 2, small && c.chance(48), rep);
  bool twobyte = false;
  for (auto& f : s.frames) if (f.size() >= 252) twobyte = true;
  if (twobyte) rep.label("two-byte-length");
  if (twobyte || s.pad_len_bytes > 0 || mutated) rep.nontrivial();
  rep.fingerprint(fnv1a(pkt.data(), std::min<size_t>(pkt.size(), 16))); rep.fingerprint(pkt.size()); rep.fingerprint(sd);
  rep.note("structured toc=0x%02x code=%d M=%d vbr=%d pad=%d sd=%d mutated=%d len=%zu", s.toc_hi, s.code, M, s.vbr, s.pad_len_bytes, sd, mutated, pkt.size());
  return r;
}
