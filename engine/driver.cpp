// Driver for choice-sequence targets: seeded random generation, exhaustive
// enumeration, libFuzzer, replay, describe and fork-based shrinking.
#include "vp.hpp"
#include <algorithm>
#include <cerrno>
#include <chrono>
#include <fcntl.h>
#include <map>
#include <set>
#include <signal.h>
#include <sys/mman.h>
#include <sys/stat.h>
#include <sys/wait.h>
#include <unistd.h>

using namespace vp;

static double now_s() {
  using namespace std::chrono;
  return duration<double>(steady_clock::now().time_since_epoch()).count();
}

static std::string jesc(const std::string& s) {
  std::string o;
  for (unsigned char ch : s) {
    if (ch == '"' || ch == '\\') { o += '\\'; o += (char)ch; }
    else if (ch == '\n') o += "\\n";
    else if (ch < 0x20 || ch >= 0x7f) { char b[8]; snprintf(b, sizeof b, "\\u%04x", ch); o += b; }
    else o += (char)ch;
  }
  return o;
}
static std::string hexs(const std::vector<uint8_t>& v, size_t cap = 1u << 20) {
  static const char* H = "0123456789abcdef";
  std::string o;
  for (size_t i = 0; i < v.size() && i < cap; i++) { o += H[v[i] >> 4]; o += H[v[i] & 15]; }
  return o;
}
static bool read_file(const char* p, std::vector<uint8_t>& out) {
  FILE* f = fopen(p, "rb");
  if (!f) return false;
  out.clear();
  uint8_t buf[65536]; size_t k;
  while ((k = fread(buf, 1, sizeof buf, f)) > 0) out.insert(out.end(), buf, buf + k);
  fclose(f); return true;
}
static bool write_file(const char* p, const std::vector<uint8_t>& v) {
  FILE* f = fopen(p, "wb");
  if (!f) return false;
  if (!v.empty()) fwrite(v.data(), 1, v.size(), f);
  fclose(f); return true;
}

// ---------------------------------------------------------------- status file
static uint8_t* g_status = nullptr;
static const size_t STATUS_CAP = 1u << 17;
static void status_open(const char* path) {
  int fd = open(path, O_RDWR | O_CREAT | O_TRUNC, 0644);
  if (fd < 0) return;
  if (ftruncate(fd, STATUS_CAP + 16) != 0) { close(fd); return; }
  void* m = mmap(nullptr, STATUS_CAP + 16, PROT_READ | PROT_WRITE, MAP_SHARED, fd, 0);
  close(fd);
  if (m != MAP_FAILED) g_status = (uint8_t*)m;
}
static inline void status_set(uint64_t idx, const std::vector<uint8_t>& c) {
  if (!g_status) return;
  uint32_t len = (uint32_t)std::min(c.size(), STATUS_CAP);
  memcpy(g_status, &idx, 8);
  memcpy(g_status + 8, &len, 4);
  if (len) memcpy(g_status + 16, c.data(), len);
}

// ---------------------------------------------------------------- generation
static uint64_t splitmix(uint64_t& s) {
  uint64_t z = (s += 0x9E3779B97F4A7C15ull);
  z = (z ^ (z >> 30)) * 0xBF58476D1CE4E5B9ull;
  z = (z ^ (z >> 27)) * 0x94D049BB133111EBull;
  return z ^ (z >> 31);
}
static void gen_case(uint64_t seed, uint64_t worker, uint64_t i, std::vector<uint8_t>& out) {
  uint64_t s = mix(mix(mix(fnv1a(vp_info.name, strlen(vp_info.name)), seed), worker), i);
  int lo = std::max(1, vp_info.min_size), hi = std::max(lo, vp_info.max_size);
  // log-uniform size in [lo,hi]
  double u = (splitmix(s) >> 11) * (1.0 / 9007199254740992.0);
  double sz = lo * __builtin_exp(u * __builtin_log((double)hi / lo));
  size_t n = (size_t)sz;
  if (n < (size_t)lo) n = lo; if (n > (size_t)hi) n = hi;
  out.resize(n);
  size_t k = 0;
  // byte distribution: mostly uniform, with some runs of 0x00 / 0xff so that
  // boundary values of ranges are over-represented
  while (k < n) {
    uint64_t r = splitmix(s);
    unsigned sel = r & 0xff;
    if (sel < 16) { size_t run = 1 + ((r >> 8) & 3); uint8_t v = (sel < 8) ? 0x00 : 0xff; while (run-- && k < n) out[k++] = v; }
    else { for (int b = 1; b < 8 && k < n; b++) out[k++] = (uint8_t)(r >> (8 * b)); }
  }
}

// ---------------------------------------------------------------- statistics
struct Stats {
  uint64_t evaluations = 0, units = 0, nontrivial = 0;
  std::map<std::string, uint64_t> labels, excluded;
  std::set<uint64_t> fps;
  size_t fp_cap = 65536;
  bool fp_capped = false;
  struct Fail { std::string sig, msg; std::vector<uint8_t> bytes; };
  std::vector<Fail> fails;
  struct Sample { std::vector<uint8_t> bytes; std::string text; bool nontrivial; };
  std::vector<Sample> samples;
};
static Stats g_st;
static std::vector<std::string> g_include_known;
static int g_want_samples = 4;

static int run_one(const std::vector<uint8_t>& bytes, Report& rep, bool describe = false) {
  rep.reset();
  rep.describing = describe;
  rep.include_known = g_include_known;
  Choice c(bytes.data(), bytes.size());
  int r = vp_case(c, rep);
  if (rep.failed) r = 1;
  return r;
}

static void account(const std::vector<uint8_t>& bytes, Report& rep) {
  g_st.evaluations++;
  g_st.units += rep.units;
  for (auto l : rep.labels) g_st.labels[l]++;
  for (auto& l : rep.dyn_labels) g_st.labels[l]++;
  for (auto& e : rep.excluded_ids) g_st.excluded[e]++;
  if (rep.is_nontrivial) {
    g_st.nontrivial++;
    uint64_t f = rep.fp ? rep.fp : fnv1a(bytes.data(), bytes.size());
    if (g_st.fps.size() < g_st.fp_cap) g_st.fps.insert(f); else g_st.fp_capped = true;
  }
  if (rep.failed && g_st.fails.size() < 8) g_st.fails.push_back({rep.sig, rep.msg, bytes});
  bool want = (int)g_st.samples.size() < g_want_samples && (rep.is_nontrivial || g_st.evaluations > 2000);
  if (want && !rep.failed) {
    bool nt = rep.is_nontrivial;
    Report r2; run_one(bytes, r2, true);
    g_st.samples.push_back({bytes, r2.text, nt});
  }
}

static void write_report(const char* path, const char* mode, double wall, bool stopped_early, uint64_t next_index) {
  FILE* f = fopen(path, "w");
  if (!f) { perror(path); return; }
  fprintf(f, "{\"target\":\"%s\",\"mode\":\"%s\",\"evaluations\":%llu,\"units\":%llu,\"nontrivial\":%llu,\"wall_s\":%.3f,\"stopped_early\":%s,\"next_index\":%llu,\"fp_capped\":%s,\n",
          vp_info.name, mode, (unsigned long long)g_st.evaluations, (unsigned long long)g_st.units,
          (unsigned long long)g_st.nontrivial, wall, stopped_early ? "true" : "false", (unsigned long long)next_index, g_st.fp_capped ? "true" : "false");
  fprintf(f, "\"labels\":{");
  bool first = true;
  for (auto& kv : g_st.labels) { fprintf(f, "%s\"%s\":%llu", first ? "" : ",", jesc(kv.first).c_str(), (unsigned long long)kv.second); first = false; }
  fprintf(f, "},\n\"excluded\":{");
  first = true;
  for (auto& kv : g_st.excluded) { fprintf(f, "%s\"%s\":%llu", first ? "" : ",", jesc(kv.first).c_str(), (unsigned long long)kv.second); first = false; }
  fprintf(f, "},\n\"fingerprints\":[");
  first = true;
  for (auto v : g_st.fps) { fprintf(f, "%s%llu", first ? "" : ",", (unsigned long long)v); first = false; }
  fprintf(f, "],\n\"failures\":[");
  first = true;
  for (auto& fl : g_st.fails) {
    fprintf(f, "%s{\"sig\":\"%s\",\"msg\":\"%s\",\"case_hex\":\"%s\"}", first ? "" : ",", jesc(fl.sig).c_str(), jesc(fl.msg).c_str(), hexs(fl.bytes).c_str());
    first = false;
  }
  fprintf(f, "],\n\"samples\":[");
  first = true;
  for (auto& s : g_st.samples) {
    fprintf(f, "%s{\"case_hex\":\"%s\",\"nontrivial\":%s,\"description\":\"%s\"}", first ? "" : ",", hexs(s.bytes, 256).c_str(), s.nontrivial ? "true" : "false", jesc(s.text).c_str());
    first = false;
  }
  fprintf(f, "]}\n");
  fclose(f);
}

// ---------------------------------------------------------------- child execution & classification
struct Outcome { int status; /*0 pass,1 fail,2 crash,3 hang*/ std::string sig, msg; };

static std::string classify_crash(const std::string& err, int wstatus) {
  // assertion
  size_t p = err.find("Fatal (internal) error in ");
  if (p != std::string::npos) {
    size_t e = err.find('\n', p);
    std::string line = err.substr(p + 26, e == std::string::npos ? std::string::npos : e - p - 26);
    // "<file> line <n>: msg"
    size_t sl = line.rfind('/', line.find(" line "));
    std::string tail = sl == std::string::npos ? line : line.substr(sl + 1);
    size_t col = tail.find(':');
    return "assert:" + tail.substr(0, col);
  }
  p = err.find("runtime error: ");
  if (p != std::string::npos) {
    size_t ls = err.rfind('\n', p);
    ls = (ls == std::string::npos) ? 0 : ls + 1;
    std::string loc = err.substr(ls, p - ls);
    // strip directory and column
    size_t sl = loc.rfind('/');
    if (sl != std::string::npos) loc = loc.substr(sl + 1);
    size_t c1 = loc.find(':');
    size_t c2 = c1 == std::string::npos ? c1 : loc.find(':', c1 + 1);
    if (c2 != std::string::npos) loc = loc.substr(0, c2);
    size_t e = err.find('\n', p);
    std::string what = err.substr(p + 15, std::min<size_t>(40, (e == std::string::npos ? err.size() : e) - p - 15));
    // keep only the kind of error (first words, drop numbers)
    std::string kind;
    for (char ch : what) { if ((ch >= '0' && ch <= '9') || ch == '-') break; kind += ch; }
    while (!kind.empty() && kind.back() == ' ') kind.pop_back();
    return "ubsan:" + loc + ":" + kind;
  }
  p = err.find("ERROR: AddressSanitizer: ");
  if (p == std::string::npos) p = err.find("ERROR: LeakSanitizer: ");
  if (p != std::string::npos) {
    size_t c = err.find(": ", p + 7);
    size_t e = err.find_first_of(" \n", c + 2);
    std::string kind = err.substr(c + 2, e - c - 2);
    // first frame inside the library or the target
    std::string fn = "?";
    size_t q = p;
    for (int i = 0; i < 12; i++) {
      q = err.find(" in ", q + 1);
      if (q == std::string::npos) break;
      size_t fe = err.find_first_of(" \n", q + 4);
      std::string f = err.substr(q + 4, fe - q - 4);
      size_t le = err.find('\n', q);
      std::string rest = err.substr(q, le - q);
      if (rest.find("/repo/") != std::string::npos) { fn = f; break; }
      if (fn == "?" && f.find("__") != 0 && f.find("interceptor") == std::string::npos) fn = f;
    }
    return "asan:" + kind + ":" + fn;
  }
  if (err.find("ThreadSanitizer") != std::string::npos) return "tsan:data-race";
  if (WIFSIGNALED(wstatus)) { char b[32]; snprintf(b, sizeof b, "signal:%d", WTERMSIG(wstatus)); return b; }
  char b[32]; snprintf(b, sizeof b, "exit:%d", WIFEXITED(wstatus) ? WEXITSTATUS(wstatus) : -1);
  return b;
}

static Outcome run_child(const std::vector<uint8_t>& bytes, int timeout_s = 120) {
  int pfd[2];
  if (pipe(pfd) != 0) { perror("pipe"); exit(2); }
  fflush(stdout); fflush(stderr);
  pid_t pid = fork();
  if (pid == 0) {
    close(pfd[0]);
    dup2(pfd[1], 2);
    int dn = open("/dev/null", O_WRONLY); if (dn >= 0) dup2(dn, 1);
    alarm(timeout_s);
    Report rep;
    int r = run_one(bytes, rep);
    if (r) { fprintf(stderr, "\nVPFAIL\t%s\t%s\n", rep.sig.c_str(), rep.msg.c_str()); fflush(stderr); _exit(77); }
    _exit(0);
  }
  close(pfd[1]);
  std::string err;
  char buf[4096]; ssize_t k;
  while ((k = read(pfd[0], buf, sizeof buf)) > 0) { if (err.size() < (1u << 20)) err.append(buf, k); }
  close(pfd[0]);
  int ws = 0;
  waitpid(pid, &ws, 0);
  Outcome o;
  if (WIFEXITED(ws) && WEXITSTATUS(ws) == 0) { o.status = 0; return o; }
  size_t p = err.find("\nVPFAIL\t");
  if (WIFEXITED(ws) && WEXITSTATUS(ws) == 77 && p != std::string::npos) {
    size_t t = err.find('\t', p + 8);
    size_t e = err.find('\n', t);
    o.status = 1; o.sig = err.substr(p + 8, t - p - 8); o.msg = err.substr(t + 1, e - t - 1);
    return o;
  }
  if (WIFSIGNALED(ws) && WTERMSIG(ws) == SIGALRM) { o.status = 3; o.sig = "hang"; o.msg = "no return within the watchdog limit"; return o; }
  o.status = 2; o.sig = classify_crash(err, ws);
  // keep a short excerpt
  size_t q = err.find("ERROR: ");
  if (q == std::string::npos) q = err.find("runtime error");
  if (q == std::string::npos) q = err.find("Fatal (internal)");
  if (q == std::string::npos) q = 0; else q = err.rfind('\n', q) == std::string::npos ? 0 : err.rfind('\n', q) + 1;
  o.msg = err.substr(q, 600);
  return o;
}

// ---------------------------------------------------------------- shrinking
static bool shortlex_less(const std::vector<uint8_t>& a, const std::vector<uint8_t>& b) {
  if (a.size() != b.size()) return a.size() < b.size();
  return a < b;
}

static int do_shrink(const char* in, const char* outp, double maxtime) {
  std::vector<uint8_t> cur;
  if (!read_file(in, cur)) { fprintf(stderr, "cannot read %s\n", in); return 2; }
  Outcome o0 = run_child(cur);
  if (o0.status == 0) { printf("{\"status\":\"pass\"}\n"); return 0; }
  std::string sig = o0.sig;
  double t0 = now_s();
  int tries = 0, improved = 0;
  auto still = [&](const std::vector<uint8_t>& cand) {
    tries++;
    Outcome o = run_child(cand);
    return o.status != 0 && o.sig == sig;
  };
  // trailing zeros are implied
  auto strip = [&](std::vector<uint8_t>& v) { while (!v.empty() && v.back() == 0) v.pop_back(); };
  { auto c = cur; strip(c); if (c.size() < cur.size() && still(c)) cur = c; }
  bool progress = true;
  while (progress && now_s() - t0 < maxtime) {
    progress = false;
    // delete chunks
    for (size_t chunk = std::max<size_t>(1, cur.size() / 2); chunk >= 1 && now_s() - t0 < maxtime; chunk /= 2) {
      for (size_t i = 0; i + chunk <= cur.size() && now_s() - t0 < maxtime;) {
        std::vector<uint8_t> c(cur.begin(), cur.begin() + i);
        c.insert(c.end(), cur.begin() + i + chunk, cur.end());
        if (still(c)) { cur = c; progress = true; improved++; } else i += chunk;
      }
      if (chunk == 1) break;
    }
    // zero chunks
    for (size_t chunk = std::max<size_t>(1, cur.size() / 2); chunk >= 1 && now_s() - t0 < maxtime; chunk /= 2) {
      for (size_t i = 0; i + chunk <= cur.size() && now_s() - t0 < maxtime; i += chunk) {
        bool allz = true;
        for (size_t j = i; j < i + chunk; j++) if (cur[j]) { allz = false; break; }
        if (allz) continue;
        auto c = cur;
        for (size_t j = i; j < i + chunk; j++) c[j] = 0;
        if (still(c)) { cur = c; progress = true; improved++; }
      }
      if (chunk == 1) break;
    }
    // lower single bytes (binary search towards 0)
    for (size_t i = 0; i < cur.size() && now_s() - t0 < maxtime; i++) {
      if (!cur[i]) continue;
      int lo = 0, hi = cur[i];  // hi fails (current)
      while (lo < hi && now_s() - t0 < maxtime) {
        int mid = (lo + hi) / 2;
        auto c = cur; c[i] = (uint8_t)mid;
        if (still(c)) { hi = mid; } else lo = mid + 1;
      }
      if (hi < cur[i]) { cur[i] = (uint8_t)hi; progress = true; improved++; }
    }
    strip(cur);
  }
  write_file(outp, cur);
  Outcome of = run_child(cur);
  Report rep; std::string text;
  printf("{\"status\":\"fail\",\"sig\":\"%s\",\"msg\":\"%s\",\"size\":%zu,\"tries\":%d,\"improved\":%d}\n", jesc(of.sig).c_str(), jesc(of.msg).c_str(), cur.size(), tries, improved);
  return 0;
}

// ---------------------------------------------------------------- libFuzzer
#ifdef VP_WITH_LIBFUZZER
extern "C" int LLVMFuzzerRunDriver(int* argc, char*** argv, int (*cb)(const uint8_t*, size_t));
static std::string g_fuzz_report;
static double g_fuzz_t0;
static int fuzz_cb(const uint8_t* data, size_t size) {
  static Report rep;
  std::vector<uint8_t> bytes(data, data + size);
  rep.reset(); rep.describing = false; rep.include_known = g_include_known;
  Choice c(data, size);
  int r = vp_case(c, rep);
  if (rep.failed || r) {
    fprintf(stderr, "\nVPFAIL\t%s\t%s\n", rep.sig.c_str(), rep.msg.c_str());
    fflush(stderr);
    __builtin_trap();
  }
  g_st.evaluations++; g_st.units += rep.units;
  for (auto l : rep.labels) g_st.labels[l]++;
  for (auto& l : rep.dyn_labels) g_st.labels[l]++;
  for (auto& e : rep.excluded_ids) g_st.excluded[e]++;
  if (rep.is_nontrivial) {
    g_st.nontrivial++;
    uint64_t f = rep.fp ? rep.fp : fnv1a(data, size);
    if (g_st.fps.size() < g_st.fp_cap) g_st.fps.insert(f); else g_st.fp_capped = true;
  }
  return 0;
}
static void fuzz_atexit() {
  if (!g_fuzz_report.empty()) write_report(g_fuzz_report.c_str(), "fuzz", now_s() - g_fuzz_t0, false, 0);
}
#endif

// ---------------------------------------------------------------- main
static const char* arg_val(int argc, char** argv, const char* name, const char* def = nullptr) {
  for (int i = 1; i + 1 < argc; i++) if (!strcmp(argv[i], name)) return argv[i + 1];
  return def;
}
static bool arg_flag(int argc, char** argv, const char* name) {
  for (int i = 1; i < argc; i++) if (!strcmp(argv[i], name)) return true;
  return false;
}

int main(int argc, char** argv) {
  for (int i = 1; i + 1 < argc; i++) if (!strcmp(argv[i], "--include-known")) g_include_known.push_back(argv[i + 1]);
  if (vp_init) vp_init();
  const char* report = arg_val(argc, argv, "--report");
  const char* status = arg_val(argc, argv, "--status");
  g_want_samples = atoi(arg_val(argc, argv, "--samples", "4"));
  double maxtime = atof(arg_val(argc, argv, "--maxtime", "1e9"));
  int percase_alarm = atoi(arg_val(argc, argv, "--case-timeout", "120"));
  double t0 = now_s();

  if (arg_flag(argc, argv, "--info")) {
    printf("{\"name\":\"%s\",\"min_size\":%d,\"max_size\":%d,\"enum_count\":%llu}\n", vp_info.name, vp_info.min_size, vp_info.max_size,
           (unsigned long long)(vp_enum_count ? vp_enum_count() : 0));
    return 0;
  }
  if (const char* f = arg_val(argc, argv, "--replay-inproc")) {
    std::vector<uint8_t> b; if (!read_file(f, b)) return 2;
    Report rep; int r = run_one(b, rep);
    if (r) { printf("FAIL %s: %s\n", rep.sig.c_str(), rep.msg.c_str()); return 1; }
    printf("PASS\n"); return 0;
  }
  if (const char* f = arg_val(argc, argv, "--replay")) {
    std::vector<uint8_t> b; if (!read_file(f, b)) { fprintf(stderr, "cannot read %s\n", f); return 2; }
    Outcome o = run_child(b, percase_alarm);
    static const char* names[] = {"pass", "fail", "crash", "hang"};
    printf("{\"status\":\"%s\",\"sig\":\"%s\",\"msg\":\"%s\"}\n", names[o.status], jesc(o.sig).c_str(), jesc(o.msg).c_str());
    return 0;
  }
  if (const char* f = arg_val(argc, argv, "--describe")) {
    std::vector<uint8_t> b; if (!read_file(f, b)) return 2;
    Report rep; int r = run_one(b, rep, true);
    printf("{\"target\":\"%s\",\"size\":%zu,\"result\":\"%s\",\"sig\":\"%s\",\"msg\":\"%s\",\"nontrivial\":%s,\"description\":\"%s\"}\n", vp_info.name, b.size(),
           r ? "fail" : "pass", jesc(rep.sig).c_str(), jesc(rep.msg).c_str(), rep.is_nontrivial ? "true" : "false", jesc(rep.text).c_str());
    return 0;
  }
  if (const char* f = arg_val(argc, argv, "--shrink")) {
    const char* o = arg_val(argc, argv, "--out", "shrunk.case");
    return do_shrink(f, o, atof(arg_val(argc, argv, "--maxtime", "60")));
  }
  if (const char* d = arg_val(argc, argv, "--gen-corpus")) {
    uint64_t seed = strtoull(arg_val(argc, argv, "--seed", "1"), 0, 10);
    uint64_t n = strtoull(arg_val(argc, argv, "--cases", "64"), 0, 10);
    mkdir(d, 0755);
    std::vector<uint8_t> b;
    for (uint64_t i = 0; i < n; i++) {
      gen_case(seed, 999, i, b);
      char p[1024]; snprintf(p, sizeof p, "%s/gen-%04llu", d, (unsigned long long)i);
      write_file(p, b);
    }
    return 0;
  }
  if (status) status_open(status);

  if (arg_flag(argc, argv, "--random")) {
    uint64_t seed = strtoull(arg_val(argc, argv, "--seed", "1"), 0, 10);
    uint64_t worker = strtoull(arg_val(argc, argv, "--worker", "0"), 0, 10);
    uint64_t ncases = strtoull(arg_val(argc, argv, "--cases", "1000"), 0, 10);
    uint64_t start = strtoull(arg_val(argc, argv, "--start", "0"), 0, 10);
    std::vector<uint8_t> b;
    Report rep;
    bool early = false;
    uint64_t i = start;
    for (; i < ncases; i++) {
      if (now_s() - t0 > maxtime) { early = true; break; }
      gen_case(seed, worker, i, b);
      status_set(i, b);
      alarm(percase_alarm);
      run_one(b, rep);
      account(b, rep);
      if (g_st.fails.size() >= 8) { early = true; i++; break; }
    }
    alarm(0);
    if (report) write_report(report, "random", now_s() - t0, early, i);
    return g_st.fails.empty() ? 0 : 1;
  }
  if (arg_flag(argc, argv, "--enumerate")) {
    if (!vp_enum_count || !vp_enum_case) { fprintf(stderr, "target has no enumerator\n"); return 2; }
    uint64_t worker = strtoull(arg_val(argc, argv, "--worker", "0"), 0, 10);
    uint64_t nw = strtoull(arg_val(argc, argv, "--nworkers", "1"), 0, 10);
    uint64_t stride = strtoull(arg_val(argc, argv, "--enum-stride", "1"), 0, 10);
    uint64_t seed = strtoull(arg_val(argc, argv, "--seed", "1"), 0, 10);
    uint64_t start = strtoull(arg_val(argc, argv, "--start", "0"), 0, 10);
    uint64_t total = vp_enum_count();
    std::vector<uint8_t> b;
    Report rep;
    bool early = false;
    // indices visited by this worker: worker + nw*(off + stride*j)
    uint64_t off = stride > 1 ? (mix(seed, 77) % stride) : 0;
    uint64_t j = start;
    for (;; j++) {
      uint64_t idx = worker + nw * (off + stride * j);
      if (idx >= total) break;
      if ((j & 255) == 0 && now_s() - t0 > maxtime) { early = true; break; }
      vp_enum_case(idx, b);
      status_set(j, b);
      alarm(percase_alarm);
      run_one(b, rep);
      account(b, rep);
      if (g_st.fails.size() >= 8) { early = true; j++; break; }
    }
    alarm(0);
    if (report) write_report(report, "enumerate", now_s() - t0, early, j);
    return g_st.fails.empty() ? 0 : 1;
  }
#ifdef VP_WITH_LIBFUZZER
  if (arg_flag(argc, argv, "--fuzz")) {
    // everything after "--" goes to libFuzzer
    std::vector<char*> fargs;
    fargs.push_back(argv[0]);
    bool pass = false;
    for (int i = 1; i < argc; i++) { if (pass) fargs.push_back(argv[i]); else if (!strcmp(argv[i], "--")) pass = true; }
    int fargc = (int)fargs.size();
    char** fargv = fargs.data();
    if (report) g_fuzz_report = report;
    g_fuzz_t0 = now_s();
    g_st.fp_cap = 65536;
    atexit(fuzz_atexit);
    return LLVMFuzzerRunDriver(&fargc, &fargv, fuzz_cb);
  }
#endif
  fprintf(stderr, "usage: %s --random|--enumerate|--fuzz|--replay F|--describe F|--shrink F --out G|--info ...\n", argv[0]);
  return 2;
}
