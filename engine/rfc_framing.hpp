// Executable model of RFC 6716 section 3 (packet framing) and Appendix B
// (self-delimiting framing), written from the RFC text.  Shares no code with
// src/opus.c.  Offsets are relative to the first byte of the packet.
#pragma once
#include <cstdint>
#include <vector>

namespace rfc {

enum Mode { SILK = 0, HYBRID = 1, CELT = 2 };
enum Bandwidth { NB = 0, MB = 1, WB = 2, SWB = 3, FB = 4 };

struct TocInfo {
  int config;      // 0..31
  int stereo;      // 0/1
  int code;        // 0..3
  Mode mode;
  Bandwidth bw;
  int dur_400;     // frame duration in units of 2.5 ms (1,2,4,8,16,24)
};

// Table 2 of RFC 6716
inline TocInfo toc_info(uint8_t toc) {
  TocInfo t;
  t.config = toc >> 3; t.stereo = (toc >> 2) & 1; t.code = toc & 3;
  static const int silk_dur[4] = {4, 8, 16, 24};
  if (t.config < 12) { t.mode = SILK; t.bw = (Bandwidth)(t.config / 4); t.dur_400 = silk_dur[t.config % 4]; }
  else if (t.config < 16) { t.mode = HYBRID; t.bw = (t.config < 14) ? SWB : FB; t.dur_400 = (t.config % 2) ? 8 : 4; }
  else { t.mode = CELT; int b = (t.config - 16) / 4; t.bw = b == 0 ? NB : b == 1 ? WB : b == 2 ? SWB : FB; t.dur_400 = 1 << ((t.config - 16) % 4); }
  return t;
}
inline int samples_per_frame(uint8_t toc, int Fs) { return toc_info(toc).dur_400 * (Fs / 400); }

struct Parsed {
  bool ok = false;
  uint8_t toc = 0;
  int count = 0;
  int size[48];
  int offset[48];
  int payload_offset = 0;   // offset of the first frame
  int padding_offset = 0;   // offset of the first padding byte (after the last frame)
  int padding_len = 0;      // number of padding bytes (without the padding-length bytes)
  int consumed = 0;         // total bytes belonging to this packet
  bool vbr = false;
};

// one- or two-byte frame length (section 3.2.1); returns bytes used, 0 if not decodable
inline int read_len(const uint8_t* p, int avail, int& L) {
  if (avail < 1) return 0;
  if (p[0] < 252) { L = p[0]; return 1; }
  if (avail < 2) return 0;
  L = 4 * p[1] + p[0];
  return 2;
}

inline Parsed parse(const uint8_t* d, int len, bool self_delim) {
  Parsed r;
  if (len < 1) return r;                                  // R1
  r.toc = d[0];
  TocInfo t = toc_info(d[0]);
  int pos = 1;
  int pad_total = 0;
  int M = 0;
  bool cbr = false;
  int lens[48];
  switch (t.code) {
    case 0: M = 1; break;
    case 1: M = 2; cbr = true; break;
    case 2: {
      M = 2;
      int L; int k = read_len(d + pos, len - pos, L);
      if (!k) return r;                                   // R4 (length not decodable)
      pos += k;
      if (L > len - pos) return r;                        // R4
      lens[0] = L;
      break;
    }
    default: {
      if (len < 2) return r;                              // code 3 needs the frame-count byte
      uint8_t fc = d[pos++];
      M = fc & 0x3f;
      bool p = fc & 0x40;
      r.vbr = (fc & 0x80) != 0;
      if (M == 0) return r;                               // R5
      if (M * t.dur_400 > 48) return r;                   // R5: at most 120 ms
      if (p) {
        for (;;) {
          if (pos >= len) return r;                       // padding length byte must exist
          uint8_t b = d[pos++];
          if (b == 255) pad_total += 254; else { pad_total += b; break; }
        }
      }
      if (pad_total > len - pos) return r;                // P <= N-2
      cbr = !r.vbr;
      if (r.vbr) {
        int end = len - pad_total;                        // frames and their lengths live before the padding
        for (int i = 0; i < M - 1; i++) {
          int L; int k = read_len(d + pos, end - pos, L);
          if (!k) return r;                               // R7
          pos += k;
          if (L > end - pos) return r;                    // R7 (this length alone already exceeds what is left)
          lens[i] = L;
        }
      }
      break;
    }
  }
  int end = len - pad_total;    // in standard framing the padding sits at the very end
  if (!self_delim) {
    if (cbr) {
      int R = end - pos;
      if (R < 0 || R % M) return r;                       // R3 / R6
      for (int i = 0; i < M; i++) lens[i] = R / M;
    } else {
      int sum = 0;
      for (int i = 0; i < M - 1; i++) sum += lens[i];
      int last = end - pos - sum;
      if (last < 0) return r;                             // R4 / R7
      lens[M - 1] = last;
    }
    for (int i = 0; i < M; i++) if (lens[i] > 1275) return r;   // R2
  } else {
    // Appendix B: one more explicit length
    int L; int k = read_len(d + pos, end - pos, L);
    if (!k) return r;
    pos += k;
    if (cbr) {
      if ((long)L * M > end - pos) return r;
      for (int i = 0; i < M; i++) lens[i] = L;
    } else {
      int sum = 0;
      for (int i = 0; i < M - 1; i++) sum += lens[i];
      if (sum + L > end - pos) return r;
      lens[M - 1] = L;
    }
  }
  r.count = M;
  r.payload_offset = pos;
  int o = pos;
  for (int i = 0; i < M; i++) { r.size[i] = lens[i]; r.offset[i] = o; o += lens[i]; }
  r.padding_offset = o;
  r.padding_len = pad_total;
  r.consumed = self_delim ? o + pad_total : len;
  r.ok = true;
  return r;
}

// ---- serialisation -------------------------------------------------------
inline void put_len(std::vector<uint8_t>& o, int L) {
  if (L < 252) o.push_back((uint8_t)L);
  else { int b0 = 252 + (L & 3); o.push_back((uint8_t)b0); o.push_back((uint8_t)((L - b0) / 4)); }
}

struct Spec {
  uint8_t toc_hi = 0;            // config and stereo bits (toc & 0xFC)
  int code = 0;                  // 0..3
  bool vbr = false;              // code 3 only
  std::vector<std::vector<uint8_t>> frames;   // code0:1, code1/2: 2, code3: 1..48
  int pad_len_bytes = -1;        // code 3: total padding incl. length bytes; -1 = no padding flag
  std::vector<uint8_t> pad_data; // padding content (without length bytes); zero-filled if shorter
};

// Builds the packet the spec describes; returns false if the spec cannot be
// represented (e.g. code 1 with unequal frames).  Caller is responsible for
// choosing specs that are valid when a valid packet is wanted.
inline bool serialize(const Spec& s, bool self_delim, std::vector<uint8_t>& out) {
  out.clear();
  out.push_back((uint8_t)((s.toc_hi & 0xFC) | (s.code & 3)));
  size_t M = s.frames.size();
  switch (s.code) {
    case 0:
      if (M != 1) return false;
      if (self_delim) put_len(out, (int)s.frames[0].size());
      break;
    case 1:
      if (M != 2 || s.frames[0].size() != s.frames[1].size()) return false;
      if (self_delim) put_len(out, (int)s.frames[0].size());
      break;
    case 2:
      if (M != 2) return false;
      put_len(out, (int)s.frames[0].size());
      if (self_delim) put_len(out, (int)s.frames[1].size());
      break;
    default: {
      if (M < 1 || M > 63) return false;
      bool pad = s.pad_len_bytes >= 1;
      out.push_back((uint8_t)((s.vbr ? 0x80 : 0) | (pad ? 0x40 : 0) | (int)M));
      int pad_data_len = 0;
      if (pad) {
        // total padding of P bytes = k length bytes + data bytes
        int P = s.pad_len_bytes;
        int nb255 = (P - 1) / 255;
        for (int i = 0; i < nb255; i++) out.push_back(255);
        int last = P - 255 * nb255 - 1;
        out.push_back((uint8_t)last);
        pad_data_len = 254 * nb255 + last;
      }
      if (s.vbr) {
        for (size_t i = 0; i + 1 < M; i++) put_len(out, (int)s.frames[i].size());
        if (self_delim) put_len(out, (int)s.frames[M - 1].size());
      } else {
        for (size_t i = 1; i < M; i++) if (s.frames[i].size() != s.frames[0].size()) return false;
        if (self_delim) put_len(out, (int)s.frames[0].size());
      }
      for (auto& f : s.frames) out.insert(out.end(), f.begin(), f.end());
      for (int i = 0; i < pad_data_len; i++) out.push_back(i < (int)s.pad_data.size() ? s.pad_data[i] : 0);
      return true;
    }
  }
  for (auto& f : s.frames) out.insert(out.end(), f.begin(), f.end());
  return true;
}

}  // namespace rfc
