// Choice-sequence property-testing engine: target-side interface.
// A case is a byte string; Choice decodes structured input from it; Report
// collects labels, the non-trivial flag, a fingerprint and the verdict.
#pragma once
#include <cstdint>
#include <cstdio>
#include <cstdlib>
#include <cstring>
#include <cstdarg>
#include <string>
#include <vector>

namespace vp {

struct Choice {
  const uint8_t* d;
  size_t n;
  size_t pos;
  Choice(const uint8_t* data, size_t size) : d(data), n(size), pos(0) {}
  inline uint8_t byte() { return pos < n ? d[pos++] : (pos++, (uint8_t)0); }
  bool exhausted() const { return pos >= n; }
  size_t remaining() const { return pos < n ? n - pos : 0; }
  // uniform-ish integer in [lo,hi]; consumes ceil(log256(span)) bytes, big-endian
  int64_t range(int64_t lo, int64_t hi) {
    if (hi <= lo) return lo;
    uint64_t span = (uint64_t)(hi - lo) + 1;  // span==0 means full 2^64
    int nb = 1;
    uint64_t s = (span - 1);
    while (s >>= 8) nb++;
    uint64_t v = 0;
    for (int i = 0; i < nb; i++) v = (v << 8) | byte();
    if (span) v %= span;
    return lo + (int64_t)v;
  }
  int irange(int lo, int hi) { return (int)range(lo, hi); }
  bool boolean() { return byte() & 1; }
  // true with probability about num/256
  bool chance(int num) { return byte() < num; }
  template <class T, size_t N> T pick(const T (&a)[N]) { return a[range(0, (int64_t)N - 1)]; }
  // index chosen by integer weights
  int weighted(const int* w, int k) {
    int tot = 0;
    for (int i = 0; i < k; i++) tot += w[i];
    int r = irange(0, tot - 1);
    for (int i = 0; i < k; i++) { if (r < w[i]) return i; r -= w[i]; }
    return k - 1;
  }
  void bytes(uint8_t* out, size_t k) { for (size_t i = 0; i < k; i++) out[i] = byte(); }
  uint32_t u32() { return (uint32_t)range(0, 0xFFFFFFFFll); }
};

// deterministic PRNG for bulk data derived from a choice-provided seed
struct Rng {
  uint64_t s;
  explicit Rng(uint64_t seed) : s(seed * 0x9E3779B97F4A7C15ull + 0x1234567ull) {}
  inline uint64_t next() {
    uint64_t z = (s += 0x9E3779B97F4A7C15ull);
    z = (z ^ (z >> 30)) * 0xBF58476D1CE4E5B9ull;
    z = (z ^ (z >> 27)) * 0x94D049BB133111EBull;
    return z ^ (z >> 31);
  }
  inline uint32_t u32() { return (uint32_t)(next() >> 32); }
  inline int range(int lo, int hi) { return hi <= lo ? lo : lo + (int)(next() % (uint64_t)((int64_t)hi - lo + 1)); }
  inline double unit() { return (next() >> 11) * (1.0 / 9007199254740992.0); }
  inline double sym() { return 2.0 * unit() - 1.0; }
  double gauss() { double a = 0; for (int i = 0; i < 6; i++) a += sym(); return a * 0.7071; }
};

inline uint64_t fnv1a(const void* p, size_t n, uint64_t h = 1469598103934665603ull) {
  const uint8_t* b = (const uint8_t*)p;
  for (size_t i = 0; i < n; i++) { h ^= b[i]; h *= 1099511628211ull; }
  return h;
}
inline uint64_t mix(uint64_t h, uint64_t v) {
  h ^= v + 0x9E3779B97F4A7C15ull + (h << 6) + (h >> 2);
  h *= 0xff51afd7ed558ccdull; h ^= h >> 33;
  return h;
}

struct Report {
  bool describing = false;      // collect a human-readable description of the case
  bool failed = false;
  bool is_nontrivial = false;
  uint64_t fp = 0;
  std::string sig, msg;
  std::string text;             // description (only when describing)
  std::vector<const char*> labels;   // static strings only
  std::vector<std::string> dyn_labels;
  std::vector<std::string> excluded_ids;
  std::vector<std::string> include_known;  // findings whose exclusion is lifted (replay of a known finding)
  uint64_t units = 0;           // optional: number of library calls / checks made in this case

  void reset() { failed = false; is_nontrivial = false; fp = 0; sig.clear(); msg.clear(); text.clear(); labels.clear(); dyn_labels.clear(); excluded_ids.clear(); units = 0; }
  void label(const char* l) { for (auto p : labels) if (p == l || !strcmp(p, l)) return; labels.push_back(l); }
  void labelf(const char* fmt, ...) {
    char buf[128]; va_list ap; va_start(ap, fmt); vsnprintf(buf, sizeof buf, fmt, ap); va_end(ap);
    for (auto& s : dyn_labels) if (s == buf) return;
    dyn_labels.push_back(buf);
  }
  void nontrivial(bool b = true) { if (b) is_nontrivial = true; }
  void fingerprint(uint64_t v) { fp = mix(fp, v); }
  void count(uint64_t k = 1) { units += k; }
  // returns 1 so targets can write: return rep.fail(...)
  int fail(const char* signature, const char* fmt, ...) {
    if (failed) return 1;
    failed = true; sig = signature;
    char buf[1024]; va_list ap; va_start(ap, fmt); vsnprintf(buf, sizeof buf, fmt, ap); va_end(ap);
    msg = buf; return 1;
  }
  // The case falls into the class of a known finding.  Returns true when the
  // class must be skipped (normal runs); false when the driver was asked to
  // include it (replay of the committed known-finding case).
  bool exclude(const char* finding_id) {
    for (auto& s : include_known) if (s == finding_id) return false;
    for (auto& s : excluded_ids) if (s == finding_id) return true;
    excluded_ids.push_back(finding_id); return true;
  }
  void note(const char* fmt, ...) {
    if (!describing) return;
    char buf[2048]; va_list ap; va_start(ap, fmt); vsnprintf(buf, sizeof buf, fmt, ap); va_end(ap);
    if (text.size() < 6000) { text += buf; text += "; "; }
    static const bool trace = getenv("VP_TRACE") != nullptr;   // debugging aid: see the steps of a case that aborts before it can be described
    if (trace) { fprintf(stderr, "[trace] %s\n", buf); fflush(stderr); }
  }
};

struct TargetInfo {
  const char* name;       // e.g. "c06_parse"
  int min_size;           // random case sizes are drawn log-uniformly in [min_size,max_size]
  int max_size;
};

}  // namespace vp

// --- what a target translation unit provides ---
extern const vp::TargetInfo vp_info;
int vp_case(vp::Choice& c, vp::Report& rep);   // 0 = pass, 1 = fail (rep.fail called)
// optional exhaustive families: number of cases and the byte string of case idx
extern "C" uint64_t vp_enum_count() __attribute__((weak));
extern "C" void vp_enum_case(uint64_t idx, std::vector<uint8_t>& out) __attribute__((weak));
// optional one-time initialisation
extern "C" void vp_init() __attribute__((weak));

#define VP_REQUIRE(cond, sigstr, ...) do { if (!(cond)) { return rep.fail(sigstr, __VA_ARGS__); } } while (0)
