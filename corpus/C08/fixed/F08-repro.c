/* F08a/F08b: ec_enc_patch_initial_bits() has no branch for "the stream so far is
   a run of 0xFF bytes that is still buffered" (rem==-1, ext>0).
   cc -I$REPO/include -I$REPO/celt -DOPUS_BUILD -DVAR_ARRAYS F08-repro.c libopus.a -lm */
#include <stdio.h>
#include "entenc.h"
#include "entdec.h"
int main(void){
  unsigned char buf[8]; ec_enc e; ec_dec d; int flag;
  /* (b) silent miss: flag bit (p=1/2), then 7 more one-bits (p=2^-7): first byte 0xFF is buffered */
  ec_enc_init(&e,buf,8);
  ec_enc_bit_logp(&e,1,1);
  ec_enc_uint(&e,127,128);
  ec_enc_bit_logp(&e,0,1);
  ec_enc_patch_initial_bits(&e,0,1);      /* legal: 1 leading bit coded with a power-of-two probability */
  ec_enc_done(&e);
  ec_dec_init(&d,buf,8);
  flag=ec_dec_bit_logp(&d,1);
  printf("(b) error=%d, flag patched to 0 decodes as %d\n",e.error,flag);
  /* (a) spurious error: same prefix, patch issued right after the 8 bits */
  ec_enc_init(&e,buf,8);
  ec_enc_bit_logp(&e,1,1);
  ec_enc_uint(&e,127,128);
  ec_enc_patch_initial_bits(&e,0,1);
  ec_enc_done(&e);
  printf("(a) error=%d with ec_tell=%d bits in a 64-bit buffer\n",e.error,ec_tell(&e));
  return 0;
}
