#include <stdio.h>
#include <math.h>
#include <stdlib.h>
#include "opus.h"
int main(int argc,char**argv){
  int Fs=16000, fs=320, err, anti=atoi(argv[1]), cx=atoi(argv[2]), br=atoi(argv[3]);
  OpusEncoder*e=opus_encoder_create(Fs,2,OPUS_APPLICATION_VOIP,&err);
  opus_encoder_ctl(e,OPUS_SET_BITRATE(br)); opus_encoder_ctl(e,OPUS_SET_COMPLEXITY(cx)); opus_encoder_ctl(e,OPUS_SET_DTX(1));
  float x[640]; unsigned char p[1500]; unsigned s=1; int small=0,total=0;
  for(int f=0;f<250;f++){
    int active = f<50 || f>=100;   /* 1 s speech-like, 1 s silence, 3 s burst */
    for(int i=0;i<fs;i++){ double t=(double)(f*fs+i)/Fs; double v=0; for(int h=1;h<=10;h++) v+=sin(2*M_PI*h*140*t)/h; v*=0.2*(0.6+0.4*sin(2*M_PI*3*t)); if(!active) v=0;
      x[2*i]=(float)v; x[2*i+1]=(float)(anti && f>=100 ? -v : v); }
    int n=opus_encode_float(e,x,fs,p,1500);
    if(f>=100){ total++; if(n<=2) small++; }
  }
  printf("anti=%d cx=%d br=%d: %d of %d packets of the second burst are <= 2 bytes\n",anti,cx,br,small,total); return 0; }
