/* C20F1: with DTX disabled and a buffer that allows >= 3 bytes per frame, the encoder still emits 2-byte
 * packets (TOC + one zero byte, the "SILK busted its target" fall-back in opus_encode_frame_native) when the
 * SILK layer overruns a small VBR buffer; OPUS_GET_IN_DTX reads 0 on them. */
#include <stdio.h>
#include <stdlib.h>
#include "opus.h"
int main(void) {
  int err, i, k, tiny = 0, M = 20; static opus_int16 pcm[960]; static unsigned char out[64]; opus_int32 in_dtx = -1;
  OpusEncoder *e = opus_encoder_create(48000, 1, OPUS_APPLICATION_VOIP, &err);
  opus_encoder_ctl(e, OPUS_SET_BITRATE(100000));
  opus_encoder_ctl(e, OPUS_SET_MAX_BANDWIDTH(OPUS_BANDWIDTH_WIDEBAND));
  opus_encoder_ctl(e, OPUS_SET_SIGNAL(OPUS_SIGNAL_VOICE));
  opus_encoder_ctl(e, OPUS_SET_INBAND_FEC(1)); opus_encoder_ctl(e, OPUS_SET_PACKET_LOSS_PERC(20));   /* keeps the encoder in the SILK layer */
  opus_encoder_ctl(e, OPUS_SET_DTX(0));
  srand(3);
  for (k = 0; k < 200; k++) {
    for (i = 0; i < 960; i++) pcm[i] = (opus_int16)((rand() % 16384 - 8192) * ((k / 10) & 1 ? 1.0 : 0.3));
    err = opus_encode(e, pcm, 960, out, M);
    opus_encoder_ctl(e, OPUS_GET_IN_DTX(&in_dtx));
    if (err <= 2) { if (tiny < 5) printf("packet %d: %d bytes (TOC 0x%02x) with max_data_bytes=%d, DTX off, IN_DTX=%d\n", k, err, out[0], M, in_dtx); tiny++; }
  }
  printf("%d of 200 packets are <= 2 bytes\n", tiny);
  return 0;
}
