// Observation (C04 territory, found while calibrating C20): SILK-only WB, CBR >= 150 kb/s (forced mode 1000), stationary multitone input of rms 0.2:
// after ~150 ms the decoded output saturates at full scale (rms 0.99).  Build: g++ -I<repo>/include -I/verif/engine -I/verif/targets this.cpp libopus.a -lm
#include <cstdio>
#include <cstdlib>
#include <vector>
#include <cmath>
extern "C" {
#include "opus.h"
}
#include "vp.hpp"
#include "siggen.hpp"
int main(int argc, char** argv) {
  int Fs = 16000, ch = 1, fs = Fs / 50;
  for (int bitrate : {60000, 100000, 150000, 200000, 238604}) for (int seed = 0; seed < 6; seed++) {
    int err; OpusEncoder* e = opus_encoder_create(Fs, ch, OPUS_APPLICATION_AUDIO, &err);
    OpusDecoder* d = opus_decoder_create(Fs, ch, &err);
    opus_encoder_ctl(e, OPUS_SET_BITRATE(bitrate)); opus_encoder_ctl(e, OPUS_SET_VBR(0)); opus_encoder_ctl(e, OPUS_SET_COMPLEXITY(8)); opus_encoder_ctl(e, 11002, 1000);
    int nf = 100; std::vector<float> pcm;
    sig::generate(sig::MULTITONE, seed, Fs, ch, nf * fs, 0.5, pcm);
    std::vector<unsigned char> out(1500); std::vector<float> o(fs); double a = 0, b = 0; int len = 0;
    for (int i = 0; i < nf; i++) {
      len = opus_encode_float(e, pcm.data() + (size_t)i * fs, fs, out.data(), 1500);
      if (opus_decode_float(d, out.data(), len, o.data(), fs, 0) != fs) return 1;
      if (i >= 50) for (int k = 0; k < fs; k++) { a += pcm[i * fs + k] * pcm[i * fs + k]; b += o[k] * o[k]; }
    }
    printf("bitrate %6d seed %d: len %d toc %02x in rms %.3f out rms %.3f%s\n", bitrate, seed, len, out[0], sqrt(a / (50 * fs)), sqrt(b / (50 * fs)), sqrt(b / a) > 1.5 ? "   <-- saturated" : "");
    opus_encoder_destroy(e); opus_decoder_destroy(d);
  }
}
