/* F6: opus_projection_decode (16-bit) wraps where the float output exceeds full scale */
#include <stdio.h>
#include <stdlib.h>
#include "opus_projection.h"
int main(void) {
  int s, c, err, i, n = 0; opus_int32 msz; unsigned char m[2*6*6], pkt[8000]; static float in[960*6], f[960*6]; static opus_int16 o[960*6];
  OpusProjectionEncoder *e = opus_projection_ambisonics_encoder_create(48000, 6, 3, &s, &c, OPUS_APPLICATION_AUDIO, &err);
  opus_projection_encoder_ctl(e, OPUS_PROJECTION_GET_DEMIXING_MATRIX_SIZE(&msz)); opus_projection_encoder_ctl(e, OPUS_PROJECTION_GET_DEMIXING_MATRIX(m, msz));
  OpusProjectionDecoder *d16 = opus_projection_decoder_create(48000, 6, s, c, m, msz, &err), *df = opus_projection_decoder_create(48000, 6, s, c, m, msz, &err);
  srand(1); for (i = 0; i < 960*6; i++) in[i] = 0.9f * (rand() / (float)RAND_MAX * 2 - 1);
  int len = opus_projection_encode_float(e, in, 960, pkt, sizeof pkt);
  opus_projection_decode(d16, pkt, len, o, 960, 0); opus_projection_decode_float(df, pkt, len, f, 960, 0);
  for (i = 0; i < 960*6; i++) if ((f[i] > 1.001f && o[i] < 0) || (f[i] < -1.001f && o[i] > 0)) { if (n++ < 3) printf("sample %d ch %d: float %.4f, int16 %d\n", i/6, i%6, f[i], o[i]); }
  printf("%d samples with the wrong sign (wrapped)\n", n); return n != 0;
}
