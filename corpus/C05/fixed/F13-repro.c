/* reproducer: opus_encode() returns OPUS_INTERNAL_ERROR for a legal call */
#include <stdio.h>
#include <stdlib.h>
#include "opus.h"
int main(void) {
  int err, i, k; static opus_int16 pcm[2880 * 2]; static unsigned char out[4000];
  OpusEncoder *e = opus_encoder_create(24000, 2, OPUS_APPLICATION_AUDIO, &err);
  opus_encoder_ctl(e, OPUS_SET_BITRATE(286717));
  opus_encoder_ctl(e, OPUS_SET_MAX_BANDWIDTH(OPUS_BANDWIDTH_WIDEBAND));
  opus_encoder_ctl(e, OPUS_SET_SIGNAL(OPUS_SIGNAL_VOICE));
  opus_encoder_ctl(e, OPUS_SET_INBAND_FEC(1)); opus_encoder_ctl(e, OPUS_SET_PACKET_LOSS_PERC(20));
  srand(1);
  for (k = 0; k < 20; k++) {
    for (i = 0; i < 2880 * 2; i++) pcm[i] = (opus_int16)(rand() % 65536 - 32768);
    err = opus_encode(e, pcm, 2880, out, 4000);
    printf("call %d: %d%s\n", k, err, err == OPUS_INTERNAL_ERROR ? "  (OPUS_INTERNAL_ERROR)" : "");
  }
  return 0;
}
