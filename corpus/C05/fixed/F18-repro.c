/* F18 (fixed in /repo by dd442894): constrained VBR at a very low bitrate with the bandwidth forced to SWB/FB (hybrid) -> every packet 1276 bytes */
#include <stdio.h>
#include <stdlib.h>
#include <math.h>
#include "opus.h"
int main(void) {
  int err, i, k; static opus_int16 pcm[960]; static unsigned char out[1500]; long total = 0;
  OpusEncoder *e = opus_encoder_create(48000, 1, OPUS_APPLICATION_AUDIO, &err);
  opus_encoder_ctl(e, OPUS_SET_BITRATE(1758));
  opus_encoder_ctl(e, OPUS_SET_BANDWIDTH(OPUS_BANDWIDTH_SUPERWIDEBAND));
  for (k = 0; k < 250; k++) {
    for (i = 0; i < 960; i++) pcm[i] = (opus_int16)(8000 * sin(2 * 3.14159265 * 440 * (k * 960 + i) / 48000.0) + 3000 * sin(2 * 3.14159265 * 1800 * (k * 960 + i) / 48000.0));
    err = opus_encode(e, pcm, 960, out, 1500);
    if (k < 6 || k == 249) printf("packet %d: %d bytes, TOC 0x%02x\n", k, err, out[0]);
    total += err;
  }
  printf("mean rate %.0f bit/s for a target of 1758 bit/s (VBR with constraint, default)\n", total * 8 / 5.0);
  return 0;
}
