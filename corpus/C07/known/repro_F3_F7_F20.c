#include <stdio.h>
#include <string.h>
#include "opus.h"
int main(void) {
  unsigned char out[8000]; OpusRepacketizer *rp = opus_repacketizer_create(); int r;
  /* F3: CELT 2.5 ms code-3 packet, 2 empty frames, padding = {0x02 (next frame), 0x06 (short ext id 3 on frame 1)} */
  unsigned char p3[] = {0x83, 0x42, 0x02, 0x02, 0x06};
  r = opus_repacketizer_cat(rp, p3, sizeof p3);
  printf("F3 cat %d, out_range(0,1) = %d (BAD_ARG expected by nobody), ", r, opus_repacketizer_out_range(rp, 0, 1, out, sizeof out));
  r = opus_repacketizer_out_range(rp, 1, 2, out, sizeof out);
  printf("out_range(1,2) = %d bytes: ", r); for (int i = 0; i < r; i++) printf("%02x ", out[i]); printf("(extension of frame 1 lost)\n");
  /* F7: one 1275-byte frame + 130 bytes of extension payload (id 64, L=0) in the padding */
  static unsigned char p7[1 + 1 + 1 + 1275 + 131]; memset(p7, 0x55, sizeof p7);
  p7[0] = 0x83; p7[1] = 0x41; p7[2] = 131; p7[3 + 1275] = 0x80;  /* id 64, L=0: rest is payload */
  opus_repacketizer_init(rp); r = opus_repacketizer_cat(rp, p7, sizeof p7);
  printf("F7 cat %d, out(1277) = %d, out(8000) = %d bytes for 1 frame\n", r, opus_repacketizer_out(rp, out, 1277), opus_repacketizer_out(rp, out, sizeof out));
  /* F12: valid packet whose single padding byte 0x41 announces a long extension with a missing length */
  unsigned char p12[] = {0x83, 0x41, 0x01, 0x41}, q[16];
  opus_repacketizer_init(rp); r = opus_repacketizer_cat(rp, p12, sizeof p12);
  memcpy(q, p12, sizeof p12);
  printf("F12 cat %d, out = %d, opus_packet_pad(4->5) = %d, decoder parse = %d frames\n", r, opus_repacketizer_out(rp, out, sizeof out), opus_packet_pad(q, 4, 5), opus_packet_get_nb_frames(p12, 4));
  opus_repacketizer_destroy(rp); return 0;
}
