/* F19: decoder gain is applied twice to the cross-faded start of a frame that follows a CELT <-> SILK/hybrid
   mode change without redundancy (the nested concealment call in opus_decode_frame applies it, then the
   frame does).  cc repro_F19.c -Iinclude libopus.a -lm */
#include <stdio.h>
#include <math.h>
#include "opus.h"
int main(void) {
   int err, i, n, l1, l2; static float in[960], a[960], b[960]; unsigned char p1[1500], p2[1500];
   OpusEncoder *celt = opus_encoder_create(48000, 1, OPUS_APPLICATION_RESTRICTED_LOWDELAY, &err);
   OpusEncoder *silk = opus_encoder_create(48000, 1, OPUS_APPLICATION_VOIP, &err);
   OpusDecoder *d0 = opus_decoder_create(48000, 1, &err), *dg = opus_decoder_create(48000, 1, &err);
   opus_encoder_ctl(silk, OPUS_SET_BITRATE(12000)); opus_encoder_ctl(silk, OPUS_SET_MAX_BANDWIDTH(OPUS_BANDWIDTH_WIDEBAND));
   opus_decoder_ctl(dg, OPUS_SET_GAIN(5120));   /* +20 dB, factor 10 */
   for (i = 0; i < 960; i++) in[i] = 0.05f * (float)sin(2 * 3.14159265 * 300 * i / 48000.);
   for (n = 0; n < 3; n++) { l1 = opus_encode_float(celt, in, 960, p1, sizeof p1); l2 = opus_encode_float(silk, in, 960, p2, sizeof p2); }
   opus_decode_float(d0, p1, l1, a, 960, 0); opus_decode_float(dg, p1, l1, b, 960, 0);   /* CELT-only frame */
   opus_decode_float(d0, p2, l2, a, 960, 0); opus_decode_float(dg, p2, l2, b, 960, 0);   /* SILK frame: transition */
   for (i = 0; i < 960; i += 60) if (a[i] != 0) printf("sample %3d: gain-0 %.6f  gain+20dB %.6f  ratio %.3f\n", i, a[i], b[i], b[i] / a[i]);
   return 0;
}
