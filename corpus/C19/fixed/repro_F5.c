/* F5: opus_decode24() with a large positive decoder gain turns loud positive samples into INT32_MIN.
   cc repro_F5.c -Iinclude libopus.a -lm */
#include <stdio.h>
#include <math.h>
#include "opus.h"
int main(void) {
   int err, i, n; static float in[960], f[960]; static opus_int32 p[960]; unsigned char pkt[1500];
   OpusEncoder *e = opus_encoder_create(48000, 1, OPUS_APPLICATION_AUDIO, &err);
   OpusDecoder *d24 = opus_decoder_create(48000, 1, &err), *df = opus_decoder_create(48000, 1, &err);
   opus_decoder_ctl(d24, OPUS_SET_GAIN(12800)); opus_decoder_ctl(df, OPUS_SET_GAIN(12800));   /* +50 dB */
   for (i = 0; i < 960; i++) in[i] = 0.9f * (float)sin(2 * 3.14159265 * 440 * i / 48000.);
   for (n = 0; n < 3; n++) {
      int len = opus_encode_float(e, in, 960, pkt, sizeof pkt);
      opus_decode_float(df, pkt, len, f, 960, 0); opus_decode24(d24, pkt, len, p, 960, 0);
   }
   for (i = 0; i < 960; i++) if (f[i] > 256.f && p[i] < 0) { printf("sample %d: float %.3f (x 2^23 = %.4g) -> opus_decode24 %d\n", i, f[i], f[i] * 8388608., p[i]); return 1; }
   printf("no wrap seen\n"); return 0;
}
