#!/usr/bin/env python3
"""usage: tools/seed_store.py <id> <property> <srcdir> <needs> <confirm-line> <results-json> - copies a confirmed seeded change to seeded/<id>/"""
import json, os, shutil, sys
V = os.path.dirname(os.path.dirname(os.path.abspath(__file__)))
sid, prop, src, needs, confirm, results = sys.argv[1:7]
d = os.path.join(V, "seeded", sid)
os.makedirs(d, exist_ok=True)
for f in os.listdir(src):
    if f.endswith((".diff", ".c", ".md", ".sh", ".h")):
        shutil.copy(os.path.join(src, f), os.path.join(d, f))
meta = {"id": sid, "breaks_property": prop, "needs_to_manifest": needs,
        "confirmed": {"how": "tools/seed_confirm.sh in the author's scratch worktree: git apply, cmake build, ctest (5 programs), demo with the patch, git checkout, rebuild, demo without", "result": confirm},
        "checks_run": {"how": "tools/seed_run.py: git -C /repo apply patch.diff; ./check <P> --tier quick; git -C /repo checkout -- .", "results": json.loads(results)}}
json.dump(meta, open(os.path.join(d, "meta.json"), "w"), indent=1)
print("stored", d)
