/* C15F1: celt_fir_sse4_1() saturates at -32768, celt_fir_c() at -32767 (fixed-point build, any CPU with SSE4.1).
 * cc -DFIXED_POINT=1 -DOPUS_BUILD -DVAR_ARRAYS -DOPUS_HAVE_RTCD -DOPUS_X86_MAY_HAVE_SSE -DOPUS_X86_MAY_HAVE_SSE2 -DOPUS_X86_MAY_HAVE_SSE4_1 \
 *    -DOPUS_X86_MAY_HAVE_AVX2 -I/repo/include -I/repo/celt -I/repo tools/repro_C15F1.c build/fix-opt/libopus.a -lm && ./a.out
 * prints "C -32767  SSE4.1 -32768" */
#include <stdio.h>
#include "arch.h"
#include "celt_lpc.h"
int main(void) {
  opus_val16 buf[24 + 4] = {0}, num[24] = {0}, yc[4], ys[4];
  int i;
  for (i = 0; i < 4; i++) buf[24 + i] = -32768;   /* zero history, zero filter: y[i] = x[i] */
  celt_fir_c(buf + 24, num, yc, 4, 24, 0);
  celt_fir_sse4_1(buf + 24, num, ys, 4, 24, 3);
  printf("C %d  SSE4.1 %d\n", yc[0], ys[0]);
  return yc[0] == ys[0];
}
