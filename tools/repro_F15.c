/* F15: a multi-frame packet coded while SILK/hybrid moves from stereo to mono overwrites the user's OPUS_SET_FORCE_CHANNELS
   setting with 1 for ever.  cc -Iinclude repro_F15.c libopus.a -lm ; prints force_channels=1 from the 5th packet on and mono
   packets even after the bitrate is raised again. */
#include <stdio.h>
#include <math.h>
#include "opus.h"
int main(void) {
  int err, k, fc; static float pcm[2 * 3840]; unsigned char pkt[1500];
  OpusEncoder* e = opus_encoder_create(48000, 2, OPUS_APPLICATION_VOIP, &err);
  for (k = 0; k < 3840; k++) { pcm[2 * k] = 0.3f * sinf(k * 0.05f); pcm[2 * k + 1] = 0.2f * sinf(k * 0.031f); }
  opus_encoder_ctl(e, OPUS_SET_SIGNAL(OPUS_SIGNAL_VOICE)); opus_encoder_ctl(e, OPUS_SET_BITRATE(30000));
  for (k = 0; k < 10; k++) {
    if (k == 4) opus_encoder_ctl(e, OPUS_SET_BITRATE(12000));
    if (k == 7) opus_encoder_ctl(e, OPUS_SET_BITRATE(64000));
    int n = opus_encode_float(e, pcm, 3840, pkt, sizeof pkt);     /* 80 ms */
    opus_encoder_ctl(e, OPUS_GET_FORCE_CHANNELS(&fc));
    printf("packet %d: %d bytes, %d channel(s), OPUS_GET_FORCE_CHANNELS=%d (never set; expected %d)\n", k, n, opus_packet_get_nb_channels(pkt), fc, OPUS_AUTO);
  }
  opus_encoder_destroy(e); return 0;
}
