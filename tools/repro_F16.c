/* F16: the multistream (and projection) encoder accepts OPUS_SET_MAX_BANDWIDTH but answers OPUS_GET_MAX_BANDWIDTH with OPUS_UNIMPLEMENTED (-5). */
#include <stdio.h>
#include "opus_multistream.h"
int main(void) {
  int err; unsigned char map[2] = {0, 1}; opus_int32 v = 0;
  OpusMSEncoder* e = opus_multistream_encoder_create(48000, 2, 1, 1, map, OPUS_APPLICATION_AUDIO, &err);
  int s = opus_multistream_encoder_ctl(e, OPUS_SET_MAX_BANDWIDTH(OPUS_BANDWIDTH_WIDEBAND));
  int g = opus_multistream_encoder_ctl(e, OPUS_GET_MAX_BANDWIDTH(&v));
  printf("set=%d get=%d value=%d\n", s, g, v);
  opus_multistream_encoder_destroy(e); return 0;
}
