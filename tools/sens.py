#!/usr/bin/env python3
"""Sensitivity experiment: apply one textual edit to /repo, run a check, revert.
usage: tools/sens.py <PROP> <file> <old> <new> [--tier quick] [--count N] [--note text]
The edit must apply exactly once (or --count N times). /repo is always restored with git checkout."""
import json, os, subprocess, sys, time
a = sys.argv[1:]
prop, rel, old, new = a[0], a[1], a[2], a[3]
tier = a[a.index("--tier") + 1] if "--tier" in a else "quick"
count = int(a[a.index("--count") + 1]) if "--count" in a else 1
note = a[a.index("--note") + 1] if "--note" in a else ""
V = os.path.dirname(os.path.dirname(os.path.abspath(__file__)))
p = os.path.join(os.environ.get("VERIF_REPO", "/repo"), rel)
REPO = os.environ.get("VERIF_REPO", "/repo")
assert subprocess.run(["git", "-C", REPO, "status", "--porcelain", "--untracked-files=no"], stdout=subprocess.PIPE).stdout.strip() == b"", "/repo not clean"
s = open(p).read()
if s.count(old) < 1:
    print("edit does not apply: %d occurrences" % s.count(old)); sys.exit(2)
s2 = s.replace(old, new, count)
try:
    open(p, "w").write(s2)
    t0 = time.time()
    env = dict(os.environ, VERIF_EVIDENCE_DIR=os.path.join(os.environ.get("VERIF_BUILD", os.path.join(V, "build")), "sens_evidence"))
    r = subprocess.run([os.path.join(V, "check"), prop, "--tier", tier], stdout=subprocess.PIPE, stderr=subprocess.STDOUT, cwd=V, env=env)
    dt = time.time() - t0
finally:
    subprocess.run(["git", "-C", REPO, "checkout", "--", "."], check=True)
o = r.stdout.decode(errors="replace")
sigs = [l.strip() for l in o.splitlines() if l.strip().startswith("signature:")]
viol = [l for l in o.splitlines() if l.startswith("VIOLATION")]
rec = {"property": prop, "file": rel, "old": old, "new": new, "tier": tier, "exit": r.returncode, "detected": r.returncode == 1 and bool(viol),
       "signatures": sigs[:5], "wall_s": round(dt, 1), "note": note}
open(os.path.join(V, "sensitivity", "log.jsonl"), "a").write(json.dumps(rec) + "\n")
print(json.dumps(rec, indent=1))
if r.returncode not in (0, 1):
    print(o[-3000:])
