#!/usr/bin/env python3
"""Calibration of the C05 constrained-VBR bounds (DESIGN.md section 3, calibration policy).

usage: tools/c05_calibrate.py [--seeds 11,12,13,14] [--cases 400] [--workers 12] [--out calib/C05.json]

Runs targets/c05_cvbr.cpp (variant flt-opt + ref-flt) on the tree named by $VERIF_REPO - which must be the
unchanged tree - with C05_CALIB_OUT set, so that every case appends (class, excess over the target in bits/s,
size ratio against the frozen reference encoder) instead of applying a bound.  For every class the largest
excess over all seeds is recorded and the bound is max(2 x excess, floor); the reference tolerance is
2 x the largest relative excess of the tree over ref-flt (different compiler / SIMD paths), at least 2 %.
"""
import json
import os
import subprocess
import sys
import tempfile

V = os.path.dirname(os.path.dirname(os.path.abspath(__file__)))
sys.path.insert(0, V)
from vlib.runner import Job, env_for  # noqa: E402

a = sys.argv[1:]


def opt(name, default):
    return a[a.index(name) + 1] if name in a else default


seeds = [int(x) for x in opt("--seeds", "11,12,13,14").split(",")]
cases = int(opt("--cases", "400"))
workers = int(opt("--workers", "12"))
outp = os.path.join(V, opt("--out", "calib/C05.json"))

binary = Job("c05_cvbr", "flt-opt", "random", refs=("ref-flt",)).binary()
tmp = tempfile.mkdtemp(prefix="c05calib.")
per_seed = {}
reuse = opt("--reuse", "")
if reuse:
    tmp = reuse
for s in seeds:
    logf = os.path.join(tmp, "seed%d.jsonl" % s)
    if reuse:
        per_seed[s] = []
        for line in open(logf):
            try:
                per_seed[s].append(json.loads(line))
            except ValueError:
                pass
        continue
    env = env_for()
    env["C05_CALIB_OUT"] = logf
    procs = [subprocess.Popen([binary, "--random", "--seed", str(s), "--worker", str(w), "--cases", str(cases), "--samples", "0",
                               "--report", os.path.join(tmp, "r.%d.%d.json" % (s, w))], env=env,
                              stdout=subprocess.DEVNULL, stderr=subprocess.DEVNULL) for w in range(workers)]
    for p in procs:
        p.wait()
    rows = []
    for line in open(logf):
        try:
            rows.append(json.loads(line))
        except ValueError:
            pass
    per_seed[s] = rows
    print("seed %d: %d windows" % (s, len(rows)))

# floors = 2 x the largest excess seen in the earlier design-phase samples (37 k windows on b5b845fb..71accbd3, other seeds):
# celt 2224 b/s, celt-short 3393 b/s, lp 17135 b/s, lp-low 16803 b/s
FLOOR = {"celt": 4500.0, "celt-short": 6800.0, "lp": 34300.0, "lp-low": 33700.0}
classes = {}
worst_ref = 0.0
worst_ref_above = 0.0
n = 0
for s, rows in per_seed.items():
    for r in rows:
        n += 1
        c = r["class"]
        if c == "low-budget":
            continue
        d = classes.setdefault(c, {"windows": 0, "above_target": 0, "max_excess_bps": -1e9, "max_ratio": 0.0, "per_seed_max_excess_bps": {}})
        d["windows"] += 1
        if r["excess_bps"] > 0:
            d["above_target"] += 1
        if r["excess_bps"] > d["max_excess_bps"]:
            d["max_excess_bps"] = r["excess_bps"]
            d["worst_case"] = {k: r[k] for k in ("Fs", "ch", "dur", "bitrate", "cx", "fmode", "sig", "silk", "hybrid", "celt", "fec", "ratio")}
        d["max_ratio"] = max(d["max_ratio"], r["ratio"])
        k = str(s)
        d["per_seed_max_excess_bps"][k] = max(d["per_seed_max_excess_bps"].get(k, -1e9), r["excess_bps"])
        worst_ref = max(worst_ref, r["vs_ref"] - 1.0)
        if r["excess_bps"] > 0:
            worst_ref_above = max(worst_ref_above, r["vs_ref"] - 1.0)

out = {
    "what": "C05 constrained-VBR clause: allowance (bits/s above the requested bitrate) for the mean rate over a >= 5 s window, per observable class; "
            "bound = max(2 x largest excess observed on the unchanged tree, floor). Classes: lp = >= 10 % of the packets carry the SILK layer "
            "(lp-low: below 16 kb/s per channel, where SILK rate control is known to be loose), celt-short = 2.5/5 ms CELT frames, celt = other CELT-only windows. "
            "cvbr_vs_reference_tol: a window above its target may not be larger than (1+tol) x the frozen reference encoder's output for the same calls.",
    "tree": subprocess.run(["git", "-C", os.environ.get("VERIF_REPO", "/repo"), "rev-parse", "--short", "HEAD"], stdout=subprocess.PIPE).stdout.decode().strip(),
    "seeds": seeds, "windows": n, "margin": 2.0, "floors_from_design_phase_samples": FLOOR,
    "observed": classes,
    "observed_max_tree_over_reference_minus_1": round(worst_ref, 5),
    "observed_max_tree_over_reference_minus_1_above_target": round(worst_ref_above, 5),
    "cvbr_vs_reference_tol": round(max(0.02, 2.0 * worst_ref), 4),
}
for c, d in sorted(classes.items()):
    out["cvbr_excess_bps." + c] = round(max(2.0 * d["max_excess_bps"], FLOOR.get(c, 1000.0)), 0)
for c in FLOOR:
    if "cvbr_excess_bps." + c not in out:
        sys.exit("class %s never observed: increase --cases" % c)
os.makedirs(os.path.dirname(outp), exist_ok=True)
json.dump(out, open(outp, "w"), indent=1, sort_keys=True)
print(json.dumps({k: v for k, v in out.items() if k.startswith("cvbr_")}, indent=1))
