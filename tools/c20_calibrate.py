#!/usr/bin/env python3
"""Calibration of the C20 decoder clauses (DESIGN.md section 3, calibration policy).

usage: tools/c20_calibrate.py [--seeds 21,22,23,24] [--cases 300] [--workers 12] [--variant flt-opt] [--out calib/C20.json]

Runs targets/c20_dtx.cpp on the tree named by $VERIF_REPO (must be the unchanged tree) with C20_CALIB_OUT set:
every case appends the loudest 10 ms window found inside the DTX part of its silence gaps (decoder fed the
packets as given / DTX packets as losses) and the extremes of the recovery ratio, and applies no bound.
gap_rms_bound = max(4 x largest value, 0.02) (heavy tail: 2.1e-3 in the calibration sample, 5.0e-3 seen later: SILK comfort
noise of a 10 ms-frame stream); recovery band = [min/2, max*2].
"""
import json
import os
import subprocess
import sys
import tempfile

V = os.path.dirname(os.path.dirname(os.path.abspath(__file__)))
sys.path.insert(0, V)
from vlib.runner import Job, env_for  # noqa: E402

a = sys.argv[1:]


def opt(name, default):
    return a[a.index(name) + 1] if name in a else default


seeds = [int(x) for x in opt("--seeds", "21,22,23,24").split(",")]
cases = int(opt("--cases", "300"))
workers = int(opt("--workers", "12"))
variant = opt("--variant", "flt-opt")
outp = os.path.join(V, opt("--out", "calib/C20.json"))
binary = Job("c20_dtx", variant, "random").binary()
tmp = opt("--reuse", "") or tempfile.mkdtemp(prefix="c20calib.")
rows = []
per_seed = {}
for s in seeds:
    logf = os.path.join(tmp, "seed%d.jsonl" % s)
    if not opt("--reuse", ""):
        env = env_for()
        env["C20_CALIB_OUT"] = logf
        procs = [subprocess.Popen([binary, "--random", "--seed", str(s), "--worker", str(w), "--cases", str(cases), "--samples", "0",
                                   "--report", os.path.join(tmp, "r.%d.%d.json" % (s, w))], env=env,
                                  stdout=subprocess.DEVNULL, stderr=subprocess.DEVNULL) for w in range(workers)]
        for p in procs:
            p.wait()
    rs = []
    for line in open(logf):
        try:
            rs.append(json.loads(line))
        except ValueError:
            pass
    per_seed[s] = rs
    rows += rs
    print("seed %d: %d schedules (log %s)" % (s, len(rs), logf))

g = [r for r in rows if r["gap_seen"]]
rr = [r for r in rows if r["rec_seen"]]
if len(g) < 200 or len(rr) < 100:
    sys.exit("too few measurements: %d gaps, %d recoveries" % (len(g), len(rr)))
gmax = max(max(r["gapA"], r["gapB"]) for r in g)
worst_gap = max(g, key=lambda r: max(r["gapA"], r["gapB"]))
lo = min(min(r["recA_lo"], r["recB_lo"]) for r in rr)
hi = max(max(r["recA_hi"], r["recB_hi"]) for r in rr)
keys = ("Fs", "ch", "dur", "bitrate", "cx", "dtx", "ndtx", "fmode", "sig", "amp", "silk", "hybrid", "celt", "vbrmode", "M", "sched")
out = {
    "what": "C20 decoder clauses. gap_rms_bound: loudest 10 ms window (rms, full scale = 1) inside the DTX part of a digital-silence gap, "
            "bound = max(4 x largest observed, 0.02) = -34 dBFS. recovery band: (decoded power of a later burst / decoded power of the first burst) / (same ratio of the input), "
            "band = [observed min / 2, observed max x 2]. Domains are stated in targets/c20_dtx.cpp.",
    "tree": subprocess.run(["git", "-C", os.environ.get("VERIF_REPO", "/repo"), "rev-parse", "--short", "HEAD"], stdout=subprocess.PIPE).stdout.decode().strip(),
    "variant": variant, "seeds": seeds, "schedules": len(rows), "gaps_measured": len(g), "recoveries_measured": len(rr), "margin": 2.0,
    "observed_gap_rms_max": gmax,
    "observed_gap_rms_max_per_seed": {str(s): max([max(r["gapA"], r["gapB"]) for r in v if r["gap_seen"]] or [0]) for s, v in per_seed.items()},
    "observed_gap_worst_case": {k: worst_gap[k] for k in keys},
    "observed_recovery_min": lo, "observed_recovery_max": hi,
    "observed_recovery_min_case": {k: min(rr, key=lambda r: min(r["recA_lo"], r["recB_lo"]))[k] for k in keys},
    "observed_recovery_max_case": {k: max(rr, key=lambda r: max(r["recA_hi"], r["recB_hi"]))[k] for k in keys},
    "gap_rms_bound": max(4.0 * gmax, 0.02),
    "observed_gap_rms_later_quick_runs": 4.98e-3,
    "recovery_ratio_min": lo / 2.0,
    "recovery_ratio_max": hi * 2.0,
}
os.makedirs(os.path.dirname(outp), exist_ok=True)
json.dump(out, open(outp, "w"), indent=1, sort_keys=True)
print(json.dumps({k: v for k, v in out.items() if k in ("gap_rms_bound", "recovery_ratio_min", "recovery_ratio_max", "observed_gap_worst_case", "observed_recovery_min_case", "observed_recovery_max_case", "gaps_measured", "recoveries_measured")}, indent=1))
