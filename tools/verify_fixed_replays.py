#!/usr/bin/env python3
"""For every 'fixed' entry of known_findings.json: revert its fix commit in a scratch worktree, build against it, replay the committed case and
require that it FAILS there with the recorded signature (i.e. the regression case still reaches the defect and would report its return).
usage: tools/verify_fixed_replays.py [id ...]"""
import json, os, shutil, subprocess, sys
V = os.path.dirname(os.path.dirname(os.path.abspath(__file__)))
sys.path.insert(0, V)
k = json.load(open(os.path.join(V, "known_findings.json")))
want = set(a for a in sys.argv[1:] if not a.startswith("--"))
W = "/tmp/vfr"

# ---- known (unrepaired) findings: the committed replay must still FAIL on the current tree with the recorded signature (a replay goes stale
# silently when its target gains a choice; ./check only prints a note then)
if not want or "--known" in sys.argv:
    for f in k["findings"]:
        if f["status"] != "known":
            continue
        code = ("import sys,json; sys.path.insert(0,%r); from vlib import runner; from vlib.registry import PROPS\n"
                "js=[j for t in ('quick','thorough') for j in PROPS[%r]['jobs'](t) if j.target==%r and j.variant==%r]\n"
                "b=js[0].binary(quiet=True); print(json.dumps(runner.replay_case(b, %r, case_timeout=300, include_known=[%r])))") % (V, f["property"], f["target"], f.get("variant", "flt-asan"), os.path.join(V, f["replay"]), f["id"])
        r = subprocess.run([sys.executable, "-c", code], stdout=subprocess.PIPE, stderr=subprocess.PIPE, cwd=V)
        try:
            out = json.loads(r.stdout.decode().strip().splitlines()[-1])
        except Exception:
            out = {"status": "error", "sig": r.stderr.decode()[-300:]}
        ok = out.get("status") == "fail" and out.get("sig") == f["signature"]
        print(("known", f["id"], f["property"], "ok" if ok else "STALE: %s %s" % (out.get("status"), out.get("sig"))))
res = []
bycommit = {}
for f in k["findings"]:
    if f["status"] == "fixed" and (not want or f["id"] in want):
        bycommit.setdefault(f["commit"], []).append(f)
for commit, fs in bycommit.items():
    shutil.rmtree(W, ignore_errors=True); os.makedirs(W)
    subprocess.run(["git", "-C", "/repo", "worktree", "prune"], check=True)
    subprocess.run(["git", "-C", "/repo", "worktree", "add", "--detach", W + "/repo", "HEAD"], stdout=subprocess.DEVNULL, stderr=subprocess.DEVNULL, check=True)
    r = subprocess.run(["git", "-C", W + "/repo", "revert", "--no-commit", commit], stdout=subprocess.PIPE, stderr=subprocess.STDOUT)
    if r.returncode != 0:
        # a later fix touches the same lines: revert the later commits on the same files first (newest first), then this one
        subprocess.run(["git", "-C", W + "/repo", "revert", "--abort"], stdout=subprocess.DEVNULL, stderr=subprocess.DEVNULL)
        subprocess.run(["git", "-C", W + "/repo", "reset", "--hard", "-q", "HEAD"])
        files = subprocess.run(["git", "-C", "/repo", "show", "--name-only", "--format=", commit], stdout=subprocess.PIPE).stdout.decode().split()
        later = subprocess.run(["git", "-C", "/repo", "log", "--format=%h", commit + "..HEAD", "--"] + files, stdout=subprocess.PIPE).stdout.decode().split()
        r = subprocess.run(["git", "-C", W + "/repo", "revert", "--no-commit"] + later + [commit], stdout=subprocess.PIPE, stderr=subprocess.STDOUT)
    if r.returncode != 0:
        for f in fs: res.append((f["id"], f["property"], "REVERT-CONFLICT")); print(res[-1])
        subprocess.run(["git", "-C", "/repo", "worktree", "remove", "--force", W + "/repo"]); continue
    env = dict(os.environ, VERIF_REPO=W + "/repo", VERIF_BUILD=W + "/build", VERIF_EVIDENCE_DIR=W + "/ev")
    for f in fs:
        code = ("import sys,json; sys.path.insert(0,%r); from vlib import runner; from vlib.registry import PROPS\n"
                "js=[j for t in ('quick','thorough') for j in PROPS[%r]['jobs'](t) if j.target==%r and j.variant==%r]\n"
                "b=js[0].binary(quiet=True); print(json.dumps(runner.replay_case(b, %r, case_timeout=300)))") % (V, f["property"], f["target"], f.get("variant", "flt-asan"), os.path.join(V, f["replay"]))
        r = subprocess.run([sys.executable, "-c", code], stdout=subprocess.PIPE, stderr=subprocess.PIPE, env=env, cwd=V)
        try:
            out = json.loads(r.stdout.decode().strip().splitlines()[-1])
        except Exception:
            out = {"status": "error", "sig": r.stderr.decode()[-300:]}
        ok = out["status"] not in ("pass", "error") and out.get("sig") == f["signature"]
        res.append((f["id"], f["property"], "ok" if ok else "NOT-REPRODUCED status=%s sig=%s (want %s)" % (out["status"], out.get("sig"), f["signature"])))
        print(res[-1]); sys.stdout.flush()
    subprocess.run(["git", "-C", "/repo", "worktree", "remove", "--force", W + "/repo"])
shutil.rmtree(W, ignore_errors=True)
bad = [r for r in res if r[2] != "ok"]
print("%d fixed replays checked, %d do not reproduce on the reverted tree" % (len(res), len(bad)))
