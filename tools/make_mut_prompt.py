#!/usr/bin/env python3
"""Write the prompt for a seeded-defect sub-agent: tools/make_mut_prompt.py <PROP> <WORKDIR> [--deeper]
The agent gets the property text (statement, quantifier, why tests can't, anchors) and a scratch worktree; nothing from /verif."""
import json, os, subprocess, sys
prop, work = sys.argv[1], sys.argv[2]
deeper = "--deeper" in sys.argv
here = os.path.dirname(os.path.abspath(__file__))
p = next(json.loads(l) for l in open(os.path.join(here, "..", "properties.jsonl")) if json.loads(l)["id"] == prop)
text = json.dumps(p, indent=1)
t = open(os.path.join(here, "MUTATION_PROMPT.txt")).read().replace("PROPERTY_TEXT", text).replace("WORKDIR", work)
if deeper:
    t += ("\n\nThis is a second round: the obvious places (the main function named in the property, its central bounds check, its most "
          "visible constant) have already been tried. Aim deeper: configurations, call sequences, sizes, state carried from earlier calls, "
          "rarely taken branches, fixed-point vs float build differences (a change may be demonstrated on a -DOPUS_FIXED_POINT=ON build if you say so), "
          "helper functions two or three calls away from the API, or interactions between two features. The demonstration must still fail reliably.")
if "--round3" in sys.argv:
    t += ("\n\nThis is a third round: two earlier rounds already covered the obvious places and a first layer of deeper ones (state carried between "
          "calls, rarely taken branches, single configurations). Look for changes whose effect is SUBTLE rather than rare: a quantity that is slightly wrong "
          "but plausible (a gain off by a fraction of a dB that accumulates, a delay off by a few samples in one mode only, a smoothing constant, a rounding "
          "direction, an energy or rate estimate biased in one band), something that only shows in the fixed-point build (-DOPUS_FIXED_POINT=ON; say so), in the "
          "multistream / projection / 24-bit entry points, at 8/12/24 kHz API rates, with 2.5/5/40/60/80/100/120 ms frames, or only after a long history "
          "(hundreds of frames). The demonstration must still fail reliably and pass on the untouched code with a clear margin.")
os.makedirs(work, exist_ok=True)
if not os.path.isdir(os.path.join(work, "repo")):
    subprocess.check_call(["git", "-C", "/repo", "worktree", "add", "--detach", os.path.join(work, "repo"), "HEAD"], stdout=subprocess.DEVNULL)
open(os.path.join(work, "prompt.txt"), "w").write(t)
print(os.path.join(work, "prompt.txt"))
