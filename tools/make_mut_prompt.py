#!/usr/bin/env python3
"""Write the prompt for a seeded-defect sub-agent: tools/make_mut_prompt.py <PROP> <WORKDIR> [--deeper]
The agent gets the property text (statement, quantifier, why tests can't, anchors) and a scratch worktree; nothing from /verif."""
import json, os, subprocess, sys
prop, work = sys.argv[1], sys.argv[2]
deeper = "--deeper" in sys.argv
here = os.path.dirname(os.path.abspath(__file__))
p = next(json.loads(l) for l in open(os.path.join(here, "..", "properties.jsonl")) if json.loads(l)["id"] == prop)
text = json.dumps(p, indent=1)
t = open(os.path.join(here, "MUTATION_PROMPT.txt")).read().replace("PROPERTY_TEXT", text).replace("WORKDIR", work)
if deeper:
    t += ("\n\nThis is a second round: the obvious places (the main function named in the property, its central bounds check, its most "
          "visible constant) have already been tried. Aim deeper: configurations, call sequences, sizes, state carried from earlier calls, "
          "rarely taken branches, fixed-point vs float build differences (a change may be demonstrated on a -DOPUS_FIXED_POINT=ON build if you say so), "
          "helper functions two or three calls away from the API, or interactions between two features. The demonstration must still fail reliably.")
os.makedirs(work, exist_ok=True)
if not os.path.isdir(os.path.join(work, "repo")):
    subprocess.check_call(["git", "-C", "/repo", "worktree", "add", "--detach", os.path.join(work, "repo"), "HEAD"], stdout=subprocess.DEVNULL)
open(os.path.join(work, "prompt.txt"), "w").write(t)
print(os.path.join(work, "prompt.txt"))
