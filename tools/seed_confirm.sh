#!/bin/bash
# usage: tools/seed_confirm.sh <workdir> <k>   (workdir has repo/ and out/<k>/{patch.diff,demo.c})
# Confirms in the scratch worktree: patch applies, library builds, the repo's tests pass, demo fails with the patch and passes without.
set -u
W=$1; K=$2; R=$W/repo; O=$W/out/$K; B=$W/build; BF=$W/build_fixed
git -C $R checkout -q -- . ; git -C $R status --porcelain --untracked-files=no | grep -q . && { echo "worktree dirty"; exit 2; }
needfixed=0; grep -q "build_fixed" $O/demo.c $O/notes.md 2>/dev/null && needfixed=1
build() { cmake -G Ninja -S $R -B $B -DCMAKE_BUILD_TYPE=Release -DOPUS_BUILD_TESTING=ON >/dev/null 2>&1 && cmake --build $B >/dev/null 2>&1 || return 1
  if [ $needfixed = 1 ]; then cmake -G Ninja -S $R -B $BF -DCMAKE_BUILD_TYPE=Release -DOPUS_BUILD_TESTING=ON -DOPUS_FIXED_POINT=ON >/dev/null 2>&1 && cmake --build $BF >/dev/null 2>&1 || return 1; fi; }
demo() { # compile with the command given in the leading comment of demo.c (the text from the compiler name up to "&&" / end of comment), then run ./demo
  cc=$(head -8 $O/demo.c | tr '\n' ' ' | grep -oE "(gcc|clang|cc) +-[^&]*" | grep -E "demo\.c" | head -1 | sed 's#\*/.*##; s# \* # #g; s#(exit.*##')
  ( cd $O && rm -f demo && if [ -n "$cc" ]; then eval "$cc" >/dev/null 2>&1; else clang -O1 -I$R/include -I$R/celt -I$R/silk -I$R/src -DOPUS_BUILD demo.c $B/libopus.a -lm -o demo >/dev/null 2>&1; fi
    [ -x ./demo ] || { echo "demo-build-failed"; exit; }
    timeout 1200 ./demo >/dev/null 2>&1; echo $? )
}
git -C $R apply $O/patch.diff || { echo "patch does not apply"; exit 2; }
build || { echo "build failed with patch"; git -C $R checkout -q -- .; exit 2; }
t=$(ctest --test-dir $B -j8 --timeout 3000 2>&1 | grep -E "tests passed|tests failed" | tail -1)
d1=$(demo)
git -C $R checkout -q -- .
build || { echo "build failed clean"; exit 2; }
d0=$(demo)
echo "patch $K: tests[$t] demo_with_patch_exit=$d1 demo_clean_exit=$d0"
