// C18 calibration against the frozen reference (numbers recorded in calib/C18.json).
// build: R=/verif/ref/opus-b5b845fb; g++ -O2 -std=gnu++17 -w -DOPUS_BUILD -DVAR_ARRAYS -DHAVE_LRINTF -DHAVE_LRINT -I$R/include -I$R/celt -I$R/silk -I$R/silk/float -I$R/src -I/verif/engine -I/verif/targets tools/c18_calibrate.cpp /verif/build/ref-flt/libopus.a -lm -o /tmp/c18_calibrate
// run:   /tmp/c18_calibrate 10000000 <seed>   (use seeds that differ by >= 1e9: vp::Rng streams of neighbouring seeds are shifted copies)
#include <cstdio>
#include <cstring>
#include <algorithm>
#define silk_NLSF_decode ref_silk_NLSF_decode
#define silk_NLSF2A ref_silk_NLSF2A
#define silk_LPC_inverse_pred_gain_c ref_silk_LPC_inverse_pred_gain_c
#define silk_NLSF_CB_NB_MB ref_silk_NLSF_CB_NB_MB
#define silk_NLSF_CB_WB ref_silk_NLSF_CB_WB
#define silk_LSFCosTab_FIX_Q12 ref_silk_LSFCosTab_FIX_Q12
#define silk_gains_dequant ref_silk_gains_dequant
extern "C" {
#include "main.h"
#include "tables.h"
}
#include "vp.hpp"
#include "c18_model.hpp"
int main(int argc, char** argv) {
  long N = argc > 1 ? atol(argv[1]) : 1000000;
  vp::Rng rng(argc > 2 ? atol(argv[2]) : 1);
  const silk_NLSF_CB_struct* cbs[2] = {&silk_NLSF_CB_NB_MB, &silk_NLSF_CB_WB};
  static const double GT[6] = {250, 500, 1000, 2000, 4000, 8000};
  int maxdev_below[6] = {0}; long cnt_dev[6][12] = {{0}};
  double min_gain_dev[12]; for (auto& x : min_gain_dev) x = 1e30;   // min cand gain among cases with dev > k
  double max_invrel = 0, max_gain = 0; long nbwe = 0, nfit = 0;
  double min_maxabs_dev4 = 1e9; int nprint=0; long signflip=0; int maxflip=0; double minratio=9, maxratio=-9; static long relh[8], gh[8]; long regn=0; int regmax=0; long reghist[12]={0}; static int grid[6][5]; static long gridn[6][5];
  for (long n = 0; n < N; n++) {
    int cbi = rng.range(0, 1); const silk_NLSF_CB_struct* cb = cbs[cbi]; int d = cb->order;
    opus_int8 ind[17], ind2[17]; int16_t v1[16], v2[16], nl[16];
    int mode = rng.range(0, 3);
    auto gen = [&](opus_int8* x) { x[0] = rng.range(0, 31); for (int i = 1; i <= d; i++) x[i] = mode == 0 ? rng.range(-10, 10) : mode == 1 ? (rng.range(0, 1) ? 10 : -10) : mode == 2 ? rng.range(-2, 2) : rng.range(0, 2) * 10 - 10; };
    gen(ind); silk_NLSF_decode(v1, ind, cb);
    int ip = rng.range(0, 4);
    if (ip < 4 && rng.range(0, 1)) { mode = rng.range(0, 3); gen(ind2); silk_NLSF_decode(v2, ind2, cb); for (int i = 0; i < d; i++) { int df = ip * (v1[i] - v2[i]); int q = df >= 0 ? df / 4 : -((-df + 3) / 4); nl[i] = v2[i] + q; } }
    else memcpy(nl, v1, sizeof nl);
    opus_int16 a[16]; silk_NLSF2A(a, nl, d, 0);
    c18::StepDown s = c18::step_down_Q12(a, d);
    if (!s.stable) { printf("UNSTABLE\n"); return 1; }
    max_gain = std::max(max_gain, s.gain);
    opus_int32 ig = silk_LPC_inverse_pred_gain_c(a, d);
    if (ig <= 0) { printf("IG0\n"); return 1; }
    { double r = std::fabs(ig / 1073741824.0 * s.gain - 1); max_invrel = std::max(max_invrel, r); for (int k = 0; k < 8; k++) if (r > 0.0025 * (1 << k)) relh[k]++; if (s.gain > 10000) for (int k = 0; k < 8; k++) if (s.gain > 10000 * (1 + 0.0025 * (1 << k))) gh[k]++; }
    double am[16]; c18::model_nlsf2a(nl, d, silk_LSFCosTab_FIX_Q12, am);
    int16_t cand[16]; int dev = 0; double maxabs = 0;
    for (int i = 0; i < d; i++) { double q = std::floor(am[i] * 4096 + 0.5); maxabs = std::max(maxabs, std::fabs(q)); dev = std::max(dev, (int)std::min(1000.0, std::fabs(q - a[i]))); cand[i] = (int16_t)std::max(-32768.0, std::min(32767.0, q)); }
    for (int i = 0; i < d; i++) { double q = std::floor(am[i] * 4096 + 0.5); if (std::fabs(q) >= 8192 && (double)a[i] * q < 0) { signflip++; if (std::abs(a[i]) > maxflip) maxflip = std::abs(a[i]); } 
       if (std::fabs(q) >= 8192) { double r = a[i] / q; if (r < minratio) minratio = r; if (r > maxratio) maxratio = r; } }
    c18::StepDown sc = c18::step_down_Q12(cand, d);
    c18::StepDown se = c18::step_down(am, d); double gc = se.stable ? se.gain : 1e30; if (sc.stable && sc.gain > gc) {} 
    if (maxabs > 32000) { nfit++; continue; }
    { double sum = 0; for (int i = 0; i < d; i++) sum += am[i]; double dc = 4096.0 * (1.0 - sum);
      double dcm = dc; static const double DT[5] = {8, 16, 32, 64, 128}; dc = nl[0]; for (int i = 1; i < d; i++) dc = std::min(dc, (double)(nl[i]-nl[i-1])); dc = std::min(dc, 32768.0 - nl[d-1]);
      if (dev > 8 && gc < 1500 && dc >= 64 && nprint < 0) { printf("case d=%d dev=%d gexact=%.1f gcand=%.1f libgain=%.1f maxabs=%.0f dc=%.1f ig(cand)=%d\n nlsf:", d, dev, gc, sc.gain, s.gain, maxabs, dc, silk_LPC_inverse_pred_gain_c(cand, d)); for (int i=0;i<d;i++) printf(" %d", nl[i]); printf("\n cand:"); for (int i=0;i<d;i++) printf(" %d", cand[i]); printf("\n lib :"); for (int i=0;i<d;i++) printf(" %d", a[i]); printf("\n"); }
      if (dc >= 128 && dcm >= 64 && gc < 1000) { regn++; if (dev > regmax) regmax = dev; reghist[std::min(dev, 11)]++; }
      for (int t = 0; t < 6; t++) for (int u = 0; u < 5; u++) if (gc < GT[t] && dc >= DT[u]) { if (dev > grid[t][u]) grid[t][u] = dev; gridn[t][u]++; } }
    for (int t = 0; t < 6; t++) if (gc < GT[t]) { maxdev_below[t] = std::max(maxdev_below[t], dev); cnt_dev[t][std::min(dev, 11)]++; }
    for (int k = 0; k < 12; k++) if (dev > k) min_gain_dev[k] = std::min(min_gain_dev[k], gc);
    if (dev > 8) nbwe++;
    if (dev > 8 && gc < 1000 && nprint < 0) { printf("case d=%d dev=%d gc=%.1f libgain=%.1f maxabs=%.0f\n nlsf:", d, dev, gc, s.gain, maxabs); for (int i=0;i<d;i++) printf(" %d", nl[i]); printf("\n cand:"); for (int i=0;i<d;i++) printf(" %d", cand[i]); printf("\n lib :"); for (int i=0;i<d;i++) printf(" %d", a[i]); printf("\n"); }
  }
  printf("N=%ld max_gain=%.1f max_invgain_rel=%.5f fit-skipped=%ld dev>8: %ld\n", N, max_gain, max_invrel, nfit, nbwe);
  for (int t = 0; t < 6; t++) { printf("cand gain < %5.0f: max dev %d LSB; hist:", GT[t], maxdev_below[t]); for (int k = 0; k < 12; k++) printf(" %ld", cnt_dev[t][k]); printf("\n"); }
  for (int k = 0; k < 12; k++) printf("dev > %d: min cand gain %.1f\n", k, min_gain_dev[k]);
  printf("max dev by (gain<G rows, dc>D cols 4,8,16,32,64)\n"); for (int t = 0; t < 6; t++) { printf("G=%5.0f:", GT[t]); for (int u = 0; u < 5; u++) printf(" %4d(%ld)", grid[t][u], gridn[t][u]); printf("\n"); }
  printf("REGION n=%ld maxdev=%d hist:", regn, regmax); for (int k=0;k<12;k++) printf(" %ld", reghist[k]); printf("\n");
  printf("RELHIST (>0.0025*2^k):"); for (int k=0;k<8;k++) printf(" %ld", relh[k]); printf("\nGAINHIST (>1e4*(1+0.0025*2^k)):"); for (int k=0;k<8;k++) printf(" %ld", gh[k]); printf("\n");
  printf("SIGNFLIP %ld maxflip %d ratio a/cand for |cand|>=8192: min %.4f max %.4f\n", signflip, maxflip, minratio, maxratio);
  // gains
  double mg = 0;
  for (int i = 0; i < 64; i++) { opus_int32 g[4]; opus_int8 x[4] = {(opus_int8)i, 0, 0, 0}; opus_int8 p = 0; silk_gains_dequant(g, x, &p, 0, 1); mg = std::max(mg, std::fabs(g[0] / c18::model_gain_Q16(i) - 1)); }
  printf("gain rel err max %.6f\n", mg);
}
