#!/usr/bin/env python3
"""usage: tools/seed_run.py <PROP> <patch.diff> [more checks...]  - applies a seeded change to /repo, runs the quick check(s), always reverts.
Evidence of these runs goes to build/sens_evidence, never to evidence/."""
import json, os, subprocess, sys, time
V = os.path.dirname(os.path.dirname(os.path.abspath(__file__)))
props = [a for a in sys.argv[1:] if a.startswith("C") and len(a) == 3]
patch = [a for a in sys.argv[1:] if a.endswith(".diff")][0]
tier = "thorough" if "--thorough" in sys.argv else "quick"
assert subprocess.run(["git", "-C", "/repo", "status", "--porcelain", "--untracked-files=no"], stdout=subprocess.PIPE).stdout.strip() == b"", "/repo not clean"
subprocess.run(["git", "-C", "/repo", "apply", patch], check=True)
res = {}
try:
    for p in props:
        env = dict(os.environ, VERIF_EVIDENCE_DIR=os.path.join(V, "build", "sens_evidence"))
        t0 = time.time()
        r = subprocess.run([os.path.join(V, "check"), p, "--tier", tier], stdout=subprocess.PIPE, stderr=subprocess.STDOUT, cwd=V, env=env)
        o = r.stdout.decode(errors="replace")
        res[p] = {"exit": r.returncode, "detected": r.returncode == 1, "signatures": [l.strip()[11:] for l in o.splitlines() if l.strip().startswith("signature:")][:4], "wall_s": round(time.time() - t0)}
finally:
    subprocess.run(["git", "-C", "/repo", "checkout", "--", "."], check=True)
print(json.dumps(res))
