/* F17: opus_projection_decoder_create(48000, 0, 1, 0, matrix, 0, &err) declares a zero-length (channels=-1, coupled=1, size=-4: a
   negative-length) variable-length array before the channel count is validated.  Build with -fsanitize=undefined:
   "opus_projection_decoder.c:167: runtime error: variable length array bound evaluates to non-positive value 0". */
#include <stdio.h>
#include "opus_projection.h"
int main(void) {
  int err = 0; unsigned char m[4] = {0};
  OpusProjectionDecoder* d = opus_projection_decoder_create(48000, 0, 1, 0, m, 0, &err);
  printf("%p err=%d\n", (void*)d, err);
  return 0;
}
