#!/usr/bin/env python3
"""Regenerates DESIGN.md sections 9.5 (sensitivity summary) and 9.6 (seeded defects) from sensitivity/log.jsonl and seeded/*/meta.json."""
import collections, glob, json, os, re
V = os.path.dirname(os.path.dirname(os.path.abspath(__file__)))
rows = [json.loads(l) for l in open(os.path.join(V, "sensitivity", "log.jsonl")) if l.strip()]
per = collections.OrderedDict()
for r in rows:
    r["note"] = re.sub(r" \[re-run\]$", "", r.get("note", ""))   # re-runs of an earlier edit after generator improvements replace the earlier result
    key = (r["property"], r["file"], r.get("old", "")[:60], r.get("new", "")[:60], r.get("note", ""))
    per[key] = r            # the last run of an edit wins (re-runs after generator improvements)
byp = collections.defaultdict(list)
for k, r in per.items():
    byp[r["property"]].append(r)
out = ["### 9.5 Sensitivity experiments (deliberately broken trees)\n",
       "One textual edit of `/repo` per experiment (`tools/sens.py`: apply, run the property's quick tier, always revert); the full log with the",
       "exact old/new text, signatures and wall times is `sensitivity/log.jsonl` (%d runs, %d distinct edits).  \"missed\" edits are discussed in 9.3 or below.\n" % (len(rows), len(per)),
       "| property | edits tried | detected in quick | missed (file: note) |", "|---|---|---|---|"]
for p in sorted(byp):
    rs = byp[p]
    det = [r for r in rs if r.get("detected")]
    miss = [r for r in rs if not r.get("detected")]
    ms = "; ".join("%s: %s" % (r["file"], (r.get("note") or r.get("new", ""))[:70].replace("|", "/").replace("\n", " ")) for r in miss) or "-"
    out.append("| %s | %d | %d | %s |" % (p, len(rs), len(det), ms))
out.append("")
out.append("### 9.6 Seeded defects from independent sub-agents\n")
out.append("Each change was written by a fresh sub-agent that saw only the property text and a scratch worktree (prompt template: `tools/MUTATION_PROMPT.txt`),")
out.append("was confirmed by us in that worktree (applies, builds, the repository's five test programs pass, the demonstration fails with it and passes without:")
out.append("`tools/seed_confirm.sh`) and was then applied to `/repo`, checked with the quick tier and reverted (`tools/seed_run.py`).  Patch, demonstration and")
out.append("`meta.json` are under `seeded/<id>/`.\n")
out.append("| id | breaks | needs in order to manifest | caught by (quick tier) | not caught by |")
out.append("|---|---|---|---|---|")
n = 0; caught = 0
for d in sorted(glob.glob(os.path.join(V, "seeded", "*", "meta.json"))):
    m = json.load(open(d)); n += 1
    res = m["checks_run"]["results"]
    c = ["%s (%s)" % (p, ", ".join(r.get("signatures", [])[:2])) for p, r in res.items() if r.get("detected")]
    nc = [p + (" - " + r["note"] if r.get("note") else "") for p, r in res.items() if not r.get("detected")]
    if c: caught += 1
    note = "; ".join(r["note"] for r in res.values() if r.get("detected") and r.get("note"))
    out.append("| %s | %s | %s | %s | %s |" % (m["id"], m["breaks_property"], m["needs_to_manifest"].replace("|", "/"), "; ".join(c) + (" [" + note + "]" if note else "") or "-", "; ".join(nc) or "-"))
out.append("")
out.append("%d of %d seeded defects are caught by at least one quick check.\n" % (caught, n))
txt = "\n".join(out)
p = os.path.join(V, "DESIGN.md")
s = open(p).read()
b, e = "<!-- BEGIN GENERATED 9.5-9.6 -->", "<!-- END GENERATED 9.5-9.6 -->"
if b in s:
    s = s[:s.index(b)] + b + "\n" + txt + "\n" + e + s[s.index(e) + len(e):]
else:
    s = s.rstrip("\n") + "\n\n" + b + "\n" + txt + "\n" + e + "\n"
open(p, "w").write(s)
print("sensitivity: %d edits; seeded: %d (%d caught)" % (len(per), n, caught))
