"""C14 - independent codec instances do not interfere when used concurrently (one thread per object)."""
from ..runner import Job

T = "c14_threads"


def jobs(tier):
    q = tier == "quick"
    js = [
        # ThreadSanitizer build, few processes with many threads each: long runs of cases per process
        Job(T, "flt-tsan", "random", workers=6, cases=320 if q else 4000, maxtime=90 if q else 600, name=T + ".flt-tsan.main"),
    ]
    # fresh processes: the first case of a process is the only one that sees first-use initialisation
    # (CPU detection, static mode lookup, anything lazily built) with all threads arriving together
    for k in range(5 if q else 20):
        js.append(Job(T, "flt-tsan", "random", workers=16, cases=2, maxtime=60 if q else 120, seed_salt=101 + k,
                      name="%s.flt-tsan.fresh%d" % (T, k)))
    # fixed-point build under ThreadSanitizer: the fixed-point speech encoder (silk/fixed) is separate code with its own scratch buffers
    js.append(Job(T, "fix-tsan", "random", workers=6, cases=200 if q else 3000, maxtime=90 if q else 600, seed_salt=53, name=T + ".fix-tsan.main"))
    # uninstrumented -O2 build with assertions: real parallel speed, digest oracle only
    js.append(Job(T, "flt-opt", "random", workers=6, cases=260 if q else 5000, maxtime=40 if q else 400, seed_salt=7,
                  name=T + ".flt-opt.digest"))
    return js


PROP = dict(
    jobs=jobs,
    schedule_dependent_signatures=("c14:digest-mismatch", "tsan:data-race"),
    rule="case = 2..12 thread workloads, each = object kind (encoder; decoder fed by its own encoder; multistream encoder/decoder pair with "
         "explicit layout or surround family 0/1/255; repacketizer with packet helpers; projection encoder/decoder order 1-2) + generated "
         "configuration + up to 15 operations (create via *_create or *_init in caller memory, ctl changes incl. forced mode changes, "
         "encode/decode in int16/float/int24 of a seeded signal, loss concealment, FEC, reset, re-creation, destroy) + a perturbation "
         "schedule (sched_yield / busy spins at operation boundaries) + an RTCD arch cap (none, 0..4); all threads start on a barrier, in "
         "most cases with every thread's first library call right after it. The workloads are then re-executed alone in the same process. "
         "Non-trivial = an atomic gauge around every library call saw at least two threads inside libopus at the same time "
         "(label conc:NN = maximum observed). distinct = hash of (thread count, arch cap, per-thread kind, rate, channels, creation style, "
         "operation types and durations). Labels that depend on the gauge vary with machine load; verdicts do not.",
    required_labels={"any": {
        T + "/conc>=2": 100, T + "/conc>=4": 20,
        T + "/kind:encoder": 50, T + "/kind:decoder": 50, T + "/kind:multistream": 30, T + "/kind:repacketizer": 30, T + "/kind:projection": 10,
        T + "/kind-in-2+threads:encoder": 20, T + "/kind-in-2+threads:decoder": 20, T + "/kind-in-2+threads:repacketizer": 5,
        T + "/create:init-in-caller-memory": 50, T + "/create:create": 50,
        T + "/fresh-process:simultaneous-first-call": 10, T + "/arch-cap:0": 20, T + "/arch-cap:255": 20,
        T + "/op:loss-concealment": 20, T + "/op:fec": 10, T + "/op:reset": 20, T + "/op:recreate": 20,
        T + "/mode-transition-in-2+threads": 10, T + "/fec-with-lbrr-in-2+threads": 3, T + "/schedule:perturbed": 50, T + "/coded-ok": 200}},
    assumptions=[
        "Schedules are sampled, not enumerated: each case is one execution under the OS scheduler with generated yields/spins. ThreadSanitizer "
        "checks happens-before on the executions it sees, so a racy pair of accesses is reported without the race having to manifest, but only "
        "if both accesses are executed by two different threads of one case; a race TSan cannot observe (an access outside its shadow history, "
        "or code reached by no generated workload) is missed.",
        "First-use initialisation can only overlap in the first case of a process: every worker process contributes one such case (label "
        "fresh-process:first-case); replay runs the case in a fresh process.",
        "The harness' own shared state is a relaxed atomic gauge and start counter (no happens-before edges that could hide a library race), a "
        "pthread barrier before the first library call, and result slots read after pthread_join.",
        "Only the x86 RTCD levels the executing CPU offers are exercised (arch cap 0..4).",
        "The digest comparison runs both passes in one process: a corruption of shared read-only data that affects the concurrent and the serial "
        "pass alike is visible to TSan only.",
    ],
)

TEXT = dict(
    technique="property-based concurrency testing: generated multi-thread workloads with generated schedule perturbation, run under ThreadSanitizer "
              "(happens-before race detection; float and fixed-point builds) and compared, per thread, with a serial re-execution (digest of all packets / PCM / return codes / final ranges)",
    level="Generated sets of 2..12 threads, each driving its own encoder, decoder, multistream pair, repacketizer or projection pair through "
          "creation, ctl changes, coding, concealment, reset and destruction, start together on a barrier (first-use paths overlap in the first case "
          "of every process) under sched_yield/spin perturbation and RTCD arch caps. Any ThreadSanitizer report is a violation; every thread must "
          "reproduce the digest of its workload run alone, also on an uninstrumented -O2 build. Exploration: schedules are sampled, not enumerated; "
          "the evidence states the observed concurrency histogram.",
    note="Trusted: ThreadSanitizer's happens-before analysis; the serial pass as the definition of 'output when run alone'.",
)
