"""C10 - multistream and projection equal per-stream coding plus the channel mapping."""
from ..runner import Job

W = 16


def jobs(tier):
    q = tier == "quick"
    return [
        Job("c10_multistream", "flt-asan", "random", workers=W, cases=400 if q else 9000, maxtime=120 if q else 900),
        Job("c10_layouts", "flt-asan", "enumerate", workers=W, enum_stride=1, maxtime=120 if q else 600),
        Job("c10_layouts", "flt-asan", "random", workers=W, cases=1500 if q else 40000, maxtime=60 if q else 300),
        Job("c10_matrix", "flt-asan", "enumerate", workers=10, enum_stride=1, maxtime=60, refs=("ref-flt",)),
        Job("c10_matrix", "flt-asan", "random", workers=W, cases=12 if q else 250, maxtime=120 if q else 600, refs=("ref-flt",)),
    ]


PROP = dict(
    jobs=jobs,
    rule="TBD",
    required_labels={"any": {}},
    exhaustive_parts={},
    assumptions=[],
)

TEXT = dict(technique="TBD", level="TBD", note="TBD")
