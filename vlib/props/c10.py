"""C10 - multistream and projection equal per-stream coding plus the channel mapping."""
from ..runner import Job

W = 16


def jobs(tier):
    q = tier == "quick"
    return [
        # clauses 1+2: packet structure (framing model) and multistream == stand-alone decoding through the mapping
        Job("c10_multistream", "flt-asan", "random", workers=W, cases=1200 if q else 20000, maxtime=120 if q else 900),
        # fixed-point build: the multistream copy-in / copy-out helpers convert through the 16-bit internal format there
        Job("c10_multistream", "fix-asan", "random", workers=W, cases=400 if q else 6000, maxtime=120 if q else 600, seed_salt=41),
        # clause 3: every (family, channels) pair for both creation functions, then random plain layouts
        Job("c10_layouts", "flt-asan", "enumerate", workers=W, enum_stride=1, maxtime=120 if q else 600),
        Job("c10_layouts", "flt-asan", "random", workers=W, cases=4000 if q else 60000, maxtime=60 if q else 300),
        # clause 4: matrix identity for the five orders (exhaustive over entries), projection round trips
        Job("c10_matrix", "flt-asan", "enumerate", workers=10, enum_stride=1, maxtime=60, refs=("ref-flt",)),
        Job("c10_matrix", "flt-asan", "random", workers=W, cases=40 if q else 600, maxtime=120 if q else 600, refs=("ref-flt",)),
    ]


PROP = dict(
    jobs=jobs,
    rule="c10_multistream: cases = (encoder kind: plain layout / surround family 1 / ambisonics family 2 / families 0, 255 / projection "
         "family 3; rate, application, bitrate/CBR/FEC/DTX, signal; decoder layout = encoder layout or an own mapping with duplicates and "
         "muted channels; output format float/int16/int24; history of frames with normal, PLC and FEC calls) and hand-assembled packets for "
         "arbitrary decoder layouts up to 255 channels / 255 stream channels.  Non-trivial = layout with >= 2 streams and (a duplicate, a "
         "255 entry or a coupled stream).  c10_layouts: (family, channels) pairs - all 2 x 256 x 258 enumerated - and random "
         "(channels, streams, coupled, mapping) tuples, non-trivial = legal surround/projection layout with > 2 channels or a plain layout "
         "with >= 2 stream channels.  c10_matrix: the ten built-in (order, non-diegetic) matrices, every entry of demix*gain*mix, and random "
         "high-rate round trips.  distinct = hash of (layout, kind, format, rates, signal seed).",
    required_labels={"any": {
        "c10_multistream/structure-checked": 300, "c10_multistream/enc-kind:plain": 100, "c10_multistream/enc-kind:surround": 60,
        "c10_multistream/enc-kind:ambisonics": 40, "c10_multistream/enc-kind:projection": 40, "c10_multistream/enc-kind:family255": 20,
        "c10_multistream/decode-normal": 400, "c10_multistream/decode-plc": 100, "c10_multistream/decode-fec": 100,
        "c10_multistream/decode-fec-with-lbrr": 3, "c10_multistream/layout-duplicate": 150, "c10_multistream/layout-muted": 100,
        "c10_multistream/layout-coupled": 300, "c10_multistream/layout-huge": 15, "c10_multistream/format:int16": 100,
        "c10_multistream/format:float": 200, "c10_multistream/format:int24": 100, "c10_multistream/rejected-damaged": 10,
        "c10_multistream/last-stream-padded": 40, "c10_multistream/lfe-stream-checked": 30, "c10_multistream/multi-frame-sub-packets": 100,
        "c10_layouts/surround-legal": 500, "c10_layouts/surround-illegal": 2000, "c10_layouts/projection-legal": 10,
        "c10_layouts/projection-illegal": 2000, "c10_layouts/decoder-layout-valid": 300, "c10_layouts/decoder-layout-invalid": 300,
        "c10_layouts/encoder-layout-valid": 200, "c10_layouts/valid-for-decoder-only": 100,
        "c10_matrix/identity-order-1": 1, "c10_matrix/identity-order-2+2": 1, "c10_matrix/identity-order-5+2": 1,
        "c10_matrix/roundtrip-order-1": 5, "c10_matrix/roundtrip-order-2": 5}},
    exhaustive_parts={"quick": ["c10_layouts: all 256 mapping families x channels 0..257 for opus_multistream_surround_encoder_create and "
                                "opus_projection_ambisonics_encoder_create (132096 creations)",
                                "c10_matrix: all entries of (demixing x gain x mixing) for the ten built-in matrices (orders 1-5, with/without the non-diegetic pair)"],
                      "thorough": ["c10_layouts: all 256 mapping families x channels 0..257 for both creation functions",
                                   "c10_matrix: all entries of (demixing x gain x mixing) for the ten built-in matrices"]},
    assumptions=["The framing model (engine/rfc_framing.hpp) is a faithful transcription of RFC 6716 s3 / Appendix B (C06 checks it against the parser).",
                 "Expected family-1 layouts are the conventional Ogg Opus stream assignment for the RFC 7845 s5.1.1.2 speaker orders (left/right pairs "
                 "coupled and first, centre / rear centre / LFE mono, LFE last), written as a literal table plus structural checks on the speaker pairs; "
                 "family 2 per RFC 8486 s3.1 (one mono stream per ACN channel, the non-diegetic pair as the single coupled stream, coupled first); "
                 "family 3 only through the projection API (streams+coupled == channels, as many pairs as possible).",
                 "Error code for an undefined (family, channels): OPUS_BAD_ARG or OPUS_UNIMPLEMENTED for the surround call (BAD_ARG when channels is "
                 "outside 1..255), any defined opus error code for the projection call (it reports OPUS_ALLOC_FAIL today; the documentation names none).",
                 "FEC calls on the multistream decoder are compared only with frame_size >= the packet duration: with less the multistream decoder "
                 "returns OPUS_BUFFER_TOO_SMALL where opus_decode conceals (caller-visible difference, not covered by the property text).",
                 "Round trip: per-channel SNR >= 18 dB (frozen codec's weakest channel: 24.0 dB over 2169 cases, 6 dB margin, calib/C10.json) and within "
                 "6 dB of the frozen codec on the same input, at OPUS_BITRATE_MAX, 48 kHz; matrix identity tolerance 1e-3 (probe: 2.1e-4)."],
)

TEXT = dict(
    technique="differential and model-based property testing: independent RFC 6716 framing model splits every encoder output; multistream decoder "
              "vs stand-alone decoders on re-serialised sub-packets; exhaustive enumeration of (family, channels) and of the built-in matrices; "
              "calibrated round trip against the frozen codec",
    level="Generated layouts, signals and loss histories: every packet from every multistream-type encoder is split by the model and decoded both "
          "ways, bit-exact per channel (float, int16, int24; PLC and FEC). All 2x256x258 (family, channels) creations and all matrix entries of the "
          "five orders are enumerated in both tiers; plain layouts, audio cases and round trips are sampled (exploration).",
    note="Trusted: engine/rfc_framing.hpp, stand-alone opus_decode* (C03's subject), the frozen reference codec for the round-trip bound, ASan/UBSan.",
)
